package c18

import (
	"crypto/elliptic"
	"encoding/binary"
	"fmt"
	"sort"
	"testing"

	"github.com/markkurossi/mpc/sha2pc"
	"pgregory.net/rapid"

	"verifharness/internal/ev"
	"verifharness/internal/gen"
)

// RejCase is one input that the property requires to be rejected with an
// error: a message of another session, an encoding for another curve, an
// encoding of the wrong length or with the wrong magic.  All material is
// regenerated from honest runs (Curve, Seed) and (Curve2, Seed2).
type RejCase struct {
	Mode   string `json:"mode"`
	Kind   string `json:"kind"`
	Curve  string `json:"curve"`
	Seed   uint64 `json:"seed"`
	Curve2 string `json:"curve2,omitempty"`
	Seed2  uint64 `json:"seed2,omitempty"`
	Delta  uint64 `json:"delta,omitempty"` // xor-ed into the session id, != 0
	N      int    `json:"n,omitempty"`     // bytes removed / appended / kept (prefix modes)
	Fill   int    `json:"fill,omitempty"`  // appended byte value, -1 = DRBG; prefix: see prefixFills
	Magic  string `json:"magic,omitempty"` // replacement for the first two bytes
}

func init() { ev.Register("reject", runReject) }

var rejModes = []string{
	"sid-struct", "sid-bytes", "other-run", "cross-curve-decode", "cross-curve-round",
	"trunc", "extend", "magic", "wrong-kind", "tiny", "prefix", "inner-prefix",
}

// Content of a "prefix" input of N bytes: the first N bytes of the honest
// encoding (fillHonest), the honest magic followed by zeros / 0xff bytes, or
// zeros only.
const (
	fillHonest  = -2
	fillAllZero = -3
)

var prefixFills = []int{fillHonest, 0, 0xff, fillAllZero}

// prefixLengths are the lengths below the documented size that are always
// tried for a decoder: 0..4, the end of the fixed header (magic 2 + session id
// 8) and its neighbours, every border of a documented section and of its first
// and last element with the neighbours, and one and two bytes short.
func prefixLengths(kind string, c elliptic.Curve) []int {
	want := wantLen(kind, c)
	set := map[int]bool{}
	add := func(ks ...int) {
		for _, k := range ks {
			if k >= 0 && k < want {
				set[k] = true
			}
		}
	}
	add(0, 1, 2, 3, 4, 9, 10, 11, 12, want-2, want-1)
	for _, r := range layout(kind, c) {
		add(r.off-1, r.off, r.off+1)
		if r.unit > 0 {
			add(r.off+r.unit-1, r.off+r.unit, r.off+r.unit+1)
			last := r.off + r.len - r.unit
			add(last-1, last, last+1)
		}
	}
	var res []int
	for k := range set {
		res = append(res, k)
	}
	sort.Ints(res)
	return res
}

// innerStart returns the offset of the first byte after the length prefix at
// offset 10 (the session chunk of gs/es, the curve name chunk of r1/r2) and
// the documented length of that chunk.
func innerStart(kind string, c elliptic.Curve) (start, length int) {
	for _, r := range layout(kind, c) {
		if r.name == "chunklen" {
			return r.off + r.len, wantLen(kind, c) - r.off - r.len
		}
		if r.name == "namelen" {
			return r.off + r.len, len(c.Params().Name)
		}
	}
	return 0, 0
}

// innerLengths: lengths of a chunk's content that are always tried with a
// consistent length prefix (sessions: the whole body is the chunk, so the
// sections of the body give the borders; r1/r2: the curve name).
func innerLengths(kind string, c elliptic.Curve) []int {
	start, length := innerStart(kind, c)
	if length == 0 {
		return nil
	}
	set := map[int]bool{}
	add := func(ks ...int) {
		for _, k := range ks {
			if k >= 0 && k < length {
				set[k] = true
			}
		}
	}
	add(0, 1, 2, 3, length-2, length-1)
	for _, r := range layout(kind, c) {
		if r.off >= start && r.off-start < length {
			add(r.off-start-1, r.off-start, r.off-start+1)
		}
	}
	var res []int
	for k := range set {
		res = append(res, k)
	}
	sort.Ints(res)
	return res
}

func drawDelta(t *rapid.T) uint64 {
	switch rapid.IntRange(0, 3).Draw(t, "deltaKind") {
	case 0:
		return 1 << uint(rapid.IntRange(0, 63).Draw(t, "deltaBit"))
	case 1:
		return ^uint64(0)
	case 2:
		return 0xff << uint(8*rapid.IntRange(0, 7).Draw(t, "deltaByte"))
	}
	return rapid.Uint64Min(1).Draw(t, "delta")
}

func genRejectCase(t *rapid.T) RejCase {
	var cs RejCase
	thorough := ev.Get(prop).Thorough()
	cs.Mode = pick(t, rejModes, "mode")
	cs.Curve = drawCurve(t, []int{4, 5, 2, 1})
	cs.Seed = uint64(rapid.IntRange(0, baseSeeds(cs.Curve, thorough)-1).Draw(t, "baseSeed"))
	all := []string{"r1", "gs", "r2", "es", "r3"}
	light := []string{"r1", "gs", "r2", "es", "r1", "gs", "r2", "es", "r3"}
	switch cs.Mode {
	case "sid-struct":
		cs.Kind = pick(t, []string{"r2", "r3", "gs", "es"}, "kind")
		cs.Delta = drawDelta(t)
	case "sid-bytes":
		cs.Kind = pick(t, light, "kind")
		cs.Delta = drawDelta(t)
	case "other-run":
		cs.Kind = pick(t, []string{"r2", "r3"}, "kind")
		cs.Curve2 = cs.Curve
		n := baseSeeds(cs.Curve, thorough)
		if n < 2 {
			n = 2
		}
		cs.Seed2 = (cs.Seed + 1 + uint64(rapid.IntRange(0, n-2).Draw(t, "seed2"))) % uint64(n)
	case "cross-curve-decode", "cross-curve-round":
		if cs.Mode == "cross-curve-decode" {
			cs.Kind = pick(t, []string{"r1", "r2", "gs", "es"}, "kind")
		} else {
			cs.Kind = pick(t, []string{"r1", "r2"}, "kind")
		}
		var others []string
		for _, n := range curveNames {
			if n != cs.Curve {
				others = append(others, n)
			}
		}
		cs.Curve2 = pick(t, others, "curve2")
		cs.Seed2 = 0
	case "trunc":
		cs.Kind = pick(t, light, "kind")
		full := wantLen(cs.Kind, curveByName(cs.Curve))
		switch rapid.IntRange(0, 3).Draw(t, "truncKind") {
		case 0:
			cs.N = 1
		case 1:
			cs.N = rapid.IntRange(1, 64).Draw(t, "n")
		case 2:
			cs.N = full - rapid.IntRange(0, 20).Draw(t, "keep")
		default:
			cs.N = rapid.IntRange(1, full).Draw(t, "n")
		}
	case "extend":
		cs.Kind = pick(t, light, "kind")
		switch rapid.IntRange(0, 2).Draw(t, "extKind") {
		case 0:
			cs.N = 1
		case 1:
			cs.N = rapid.IntRange(1, 80).Draw(t, "n")
		default:
			cs.N = rapid.IntRange(1, 5000).Draw(t, "n")
		}
		cs.Fill = rapid.SampledFrom([]int{0, 0xff, -1, 0x80, 1}).Draw(t, "fill")
	case "magic":
		cs.Kind = pick(t, light, "kind")
		own := magics[cs.Kind]
		cands := []string{"R1", "R2", "R3", "GS", "ES", "r1", "gs", "R0", "R4", "\x00\x00", "\xff\xff",
			string([]byte{own[1], own[0]}), string([]byte{own[0] ^ 0x20, own[1]}), string([]byte{own[0], own[1] ^ 1}),
			string([]byte{own[0] ^ 0x80, own[1]}), string(rapid.SliceOfN(rapid.Byte(), 2, 2).Draw(t, "rndMagic"))}
		var ok []string
		for _, m := range cands {
			if m != own {
				ok = append(ok, m)
			}
		}
		cs.Magic = pick(t, ok, "magic")
	case "wrong-kind":
		cs.Kind = pick(t, all, "kind") // decoder
		var others []string
		for _, k := range []string{"r1", "gs", "r2", "es"} { // data (r3 only as decoder: cheap)
			if k != cs.Kind {
				others = append(others, k)
			}
		}
		cs.Magic = pick(t, others, "dataKind")
	case "tiny":
		cs.Kind = pick(t, all, "kind")
		cs.N = rapid.IntRange(0, 14).Draw(t, "len")
	case "prefix":
		cs.Kind = pick(t, all, "kind")
		ls := prefixLengths(cs.Kind, curveByName(cs.Curve))
		cs.N = ls[drawUniform(t, len(ls), "len")]
		cs.Fill = prefixFills[drawUniform(t, len(prefixFills), "fill")]
	case "inner-prefix":
		cs.Kind = pick(t, []string{"gs", "es", "gs", "es", "r1", "r2"}, "kind")
		ls := innerLengths(cs.Kind, curveByName(cs.Curve))
		cs.N = ls[drawUniform(t, len(ls), "len")]
	}
	return cs
}

// mustReject decodes data with the decoder of kind and demands an error.
func mustReject(kind string, cs RejCase, data []byte, why string) *ev.Outcome {
	c := curveByName(cs.Curve)
	_, err, psig, pmsg := safeDecode(kind, c, data)
	if psig != "" {
		o := ev.Fail(psig, "%s: %s", why, pmsg)
		return &o
	}
	if err == nil {
		sig := "decode/" + kind + "/" + cs.Mode + "-accepted"
		switch cs.Mode {
		case "trunc", "tiny", "prefix", "inner-prefix":
			sig = "decode/" + kind + "/short-input-accepted"
		case "extend":
			sig = "decode/" + kind + "/trailing-bytes-accepted"
		case "magic", "wrong-kind":
			sig = "decode/" + kind + "/wrong-magic-accepted"
		case "cross-curve-decode":
			sig = "decode/" + kind + "/other-curve-accepted"
		}
		o := ev.Fail(sig, "%s: Decode(%s, %s) returned no error for %d bytes (documented size %d)",
			why, kind, cs.Curve, len(data), wantLen(kind, c))
		return &o
	}
	return nil
}

func runReject(cs RejCase) ev.Outcome {
	c := curveByName(cs.Curve)
	if c == nil {
		return ev.Outcome{Skip: "unknown curve"}
	}
	known := false
	for _, k := range kinds {
		known = known || k == cs.Kind
	}
	if !known {
		return ev.Outcome{Skip: "unknown kind"}
	}
	base, err := getBase(cs.Curve, cs.Seed)
	if err != nil {
		return baseFail(cs.Curve, cs.Seed, err)
	}
	classes := []string{"mode=" + cs.Mode, "kind=" + cs.Kind, "curve=" + cs.Curve, cs.Mode + "/" + cs.Kind}

	// feed gives a (possibly foreign) value to the round function that
	// consumes it in the honest run "base" and demands an error.
	feed := func(kind string, v interface{}, why string) ev.Outcome {
		var stage string
		var f func() error
		switch kind {
		case "r2":
			stage = "GarblerRound3"
			f = func() error {
				_, err := sha2pc.GarblerRound3(gen.NewDRBG(cs.Seed, streamG3), c, base.gs, base.a, v.(sha2pc.Round2Payload))
				return err
			}
		case "gs":
			stage = "GarblerRound3"
			f = func() error {
				_, err := sha2pc.GarblerRound3(gen.NewDRBG(cs.Seed, streamG3), c, v.(*sha2pc.GarblerSession), base.a, base.r2)
				return err
			}
		case "r3":
			stage = "EvaluatorRound4"
			f = func() error {
				_, err := sha2pc.EvaluatorRound4(c, base.es, v.(sha2pc.Round3Payload))
				return err
			}
		case "es":
			stage = "EvaluatorRound4"
			f = func() error {
				_, err := sha2pc.EvaluatorRound4(c, v.(*sha2pc.EvaluatorSession), base.r3)
				return err
			}
		case "r1":
			// The evaluator adopts the session id of round 1; the
			// garbler must then refuse the evaluator's answer.
			stage = "EvaluatorRound2+GarblerRound3"
			f = func() error {
				r2, _, err := sha2pc.EvaluatorRound2(gen.NewDRBG(cs.Seed, streamE2), c, v.(sha2pc.Round1Payload), base.b)
				if err != nil {
					return err
				}
				_, err = sha2pc.GarblerRound3(gen.NewDRBG(cs.Seed, streamG3), c, base.gs, base.a, r2)
				return err
			}
		}
		err, psig, pmsg := callRound(stage, kind, f)
		if psig != "" {
			return ev.Fail(psig, "%s: %s", why, pmsg)
		}
		if err == nil {
			return ev.Fail("reject/"+kind+"/"+cs.Mode+"-accepted",
				"%s: %s returned no error (curve %s)", why, stage, cs.Curve)
		}
		return ev.OK(true, classes...)
	}

	withSID := func(kind string, v interface{}, sid uint64) interface{} {
		switch kind {
		case "r2":
			p := v.(sha2pc.Round2Payload)
			p.SessionID = sid
			return p
		case "r3":
			p := v.(sha2pc.Round3Payload)
			p.SessionID = sid
			return p
		case "gs":
			p := *v.(*sha2pc.GarblerSession)
			p.SessionID = sid
			return &p
		case "es":
			p := *v.(*sha2pc.EvaluatorSession)
			p.SessionID = sid
			return &p
		case "r1":
			p := v.(sha2pc.Round1Payload)
			p.SessionID = sid
			return p
		}
		panic("kind")
	}

	switch cs.Mode {
	case "sid-struct":
		if cs.Delta == 0 {
			return ev.Outcome{Skip: "delta 0"}
		}
		sid := sessionID(cs.Kind, base.value(cs.Kind)) ^ cs.Delta
		return feed(cs.Kind, withSID(cs.Kind, base.value(cs.Kind), sid),
			fmt.Sprintf("%s identical to the honest one except SessionID (xor %#x)", cs.Kind, cs.Delta))

	case "sid-bytes":
		if cs.Delta == 0 {
			return ev.Outcome{Skip: "delta 0"}
		}
		data := append([]byte{}, base.enc[cs.Kind]...)
		binary.BigEndian.PutUint64(data[2:], binary.BigEndian.Uint64(data[2:])^cs.Delta)
		v, err, psig, pmsg := safeDecode(cs.Kind, c, data)
		if psig != "" {
			return ev.Fail(psig, "%s", pmsg)
		}
		if err != nil {
			return ev.Fail("roundtrip/"+cs.Kind+"/decode-error",
				"a valid %s encoding with another session id (xor %#x) does not decode: %v", cs.Kind, cs.Delta, err)
		}
		if got, want := sessionID(cs.Kind, v), sessionID(cs.Kind, base.value(cs.Kind))^cs.Delta; got != want {
			return ev.Fail("roundtrip/"+cs.Kind+"/field-mismatch",
				"decoded SessionID %#x, the bytes say %#x", got, want)
		}
		return feed(cs.Kind, v, fmt.Sprintf("%s decoded from the honest bytes with the session id xor %#x", cs.Kind, cs.Delta))

	case "other-run":
		if cs.Seed2 == cs.Seed {
			return ev.Outcome{Skip: "same run"}
		}
		other, err := getBase(cs.Curve, cs.Seed2)
		if err != nil {
			return baseFail(cs.Curve, cs.Seed2, err)
		}
		if other.r1.SessionID == base.r1.SessionID {
			return ev.Outcome{Skip: "session ids collide"}
		}
		return feed(cs.Kind, other.value(cs.Kind), fmt.Sprintf("%s of the honest run with seed %d", cs.Kind, cs.Seed2))

	case "cross-curve-decode":
		other, err := getBase(cs.Curve2, cs.Seed2)
		if err != nil {
			return baseFail(cs.Curve2, cs.Seed2, err)
		}
		if o := mustReject(cs.Kind, cs, other.enc[cs.Kind],
			fmt.Sprintf("%s encoding made for %s", cs.Kind, cs.Curve2)); o != nil {
			return *o
		}
		classes = append(classes, cs.Curve2+"->"+cs.Curve)
		return ev.OK(true, classes...)

	case "cross-curve-round":
		other, err := getBase(cs.Curve2, cs.Seed2)
		if err != nil {
			return baseFail(cs.Curve2, cs.Seed2, err)
		}
		// The foreign message carries this session's id, so only the
		// curve can be the reason for the rejection.
		v := withSID(cs.Kind, other.value(cs.Kind), base.r1.SessionID)
		classes = append(classes, cs.Curve2+"->"+cs.Curve)
		if cs.Kind == "r1" {
			err, psig, pmsg := callRound("EvaluatorRound2", cs.Kind, func() error {
				_, _, err := sha2pc.EvaluatorRound2(gen.NewDRBG(cs.Seed, streamE2), c, v.(sha2pc.Round1Payload), base.b)
				return err
			})
			if psig != "" {
				return ev.Fail(psig, "%s", pmsg)
			}
			if err == nil {
				return ev.Fail("reject/r1/cross-curve-round-accepted",
					"EvaluatorRound2 on %s accepted the round-1 message of a %s run", cs.Curve, cs.Curve2)
			}
			return ev.OK(true, classes...)
		}
		return feed(cs.Kind, v, fmt.Sprintf("%s of a %s run (session id set to this session's)", cs.Kind, cs.Curve2))

	case "trunc":
		enc := base.enc[cs.Kind]
		if cs.N < 1 || cs.N > len(enc) {
			return ev.Outcome{Skip: "n out of range"}
		}
		if o := mustReject(cs.Kind, cs, enc[:len(enc)-cs.N],
			fmt.Sprintf("honest %s encoding without its last %d bytes", cs.Kind, cs.N)); o != nil {
			return *o
		}
		return ev.OK(true, classes...)

	case "extend":
		if cs.N < 1 || cs.N > 1<<20 {
			return ev.Outcome{Skip: "n out of range"}
		}
		enc := append([]byte{}, base.enc[cs.Kind]...)
		tail := make([]byte, cs.N)
		if cs.Fill < 0 {
			gen.NewDRBG(cs.Seed, 30).Read(tail)
		} else {
			for i := range tail {
				tail[i] = byte(cs.Fill)
			}
		}
		if o := mustReject(cs.Kind, cs, append(enc, tail...),
			fmt.Sprintf("honest %s encoding followed by %d extra bytes (fill %d)", cs.Kind, cs.N, cs.Fill)); o != nil {
			return *o
		}
		return ev.OK(true, classes...)

	case "magic":
		if len(cs.Magic) != 2 || cs.Magic == magics[cs.Kind] {
			return ev.Outcome{Skip: "magic unchanged"}
		}
		enc := append([]byte{}, base.enc[cs.Kind]...)
		copy(enc, cs.Magic)
		if o := mustReject(cs.Kind, cs, enc, fmt.Sprintf("honest %s encoding with magic %q", cs.Kind, cs.Magic)); o != nil {
			return *o
		}
		return ev.OK(true, classes...)

	case "wrong-kind":
		enc, ok := base.enc[cs.Magic]
		if !ok || cs.Magic == cs.Kind {
			return ev.Outcome{Skip: "bad data kind"}
		}
		if o := mustReject(cs.Kind, cs, enc, fmt.Sprintf("honest %s encoding given to the %s decoder", cs.Magic, cs.Kind)); o != nil {
			return *o
		}
		classes = append(classes, cs.Magic+"->"+cs.Kind)
		return ev.OK(true, classes...)

	case "tiny":
		enc := base.enc[cs.Kind]
		if cs.N < 0 || cs.N >= len(enc) {
			return ev.Outcome{Skip: "n out of range"}
		}
		if o := mustReject(cs.Kind, cs, enc[:cs.N], fmt.Sprintf("first %d bytes of an honest %s encoding", cs.N, cs.Kind)); o != nil {
			return *o
		}
		return ev.OK(true, classes...)

	case "prefix":
		enc := base.enc[cs.Kind]
		if cs.N < 0 || cs.N >= len(enc) {
			return ev.Outcome{Skip: "n out of range"}
		}
		data := make([]byte, cs.N) // capacity == length
		what := "honest bytes"
		switch {
		case cs.Fill == fillHonest:
			copy(data, enc)
		case cs.Fill == fillAllZero:
			what = "zero bytes"
		case cs.Fill >= 0 && cs.Fill <= 0xff:
			for i := range data {
				data[i] = byte(cs.Fill)
			}
			copy(data, enc[:2])
			what = fmt.Sprintf("honest magic, then bytes %#02x", cs.Fill)
		default:
			return ev.Outcome{Skip: "bad fill"}
		}
		if o := mustReject(cs.Kind, cs, data, fmt.Sprintf("%d-byte input (%s) for the %s decoder, documented size %d",
			cs.N, what, cs.Kind, len(enc))); o != nil {
			return *o
		}
		classes = append(classes, lenClass(cs.N, len(enc)), fmt.Sprintf("prefix-fill=%d", cs.Fill))
		return ev.OK(true, classes...)

	case "inner-prefix":
		enc := base.enc[cs.Kind]
		start, length := innerStart(cs.Kind, c)
		if length == 0 || cs.N < 0 || cs.N >= length {
			return ev.Outcome{Skip: "n out of range"}
		}
		var tmp [binary.MaxVarintLen64]byte
		vl := binary.PutUvarint(tmp[:], uint64(cs.N))
		data := append([]byte{}, enc[:10]...)
		data = append(data, tmp[:vl]...)
		data = append(data, enc[start:start+cs.N]...)
		data = append(data, enc[start+length:]...) // r1/r2: what follows the name
		if o := mustReject(cs.Kind, cs, data, fmt.Sprintf(
			"honest %s encoding whose length-prefixed chunk at offset 10 is cut to its first %d of %d bytes (prefix consistent)",
			cs.Kind, cs.N, length)); o != nil {
			return *o
		}
		classes = append(classes, "inner-"+lenClass(cs.N, length))
		return ev.OK(true, classes...)
	}
	return ev.Outcome{Skip: "unknown mode"}
}

func lenClass(k, full int) string {
	switch {
	case k <= 3:
		return fmt.Sprintf("len=%d", k)
	case k == full-1:
		return "len=one-byte-short"
	case k <= 12:
		return "len=4..12"
	}
	return "len=section-border"
}

func TestReject(t *testing.T) {
	ev.Check(t, ev.Get(prop), "reject", genRejectCase, runReject)
}

// TestShortInputs enumerates, for every decoder and curve, the inputs that
// must always be tried (not only drawn): every length of prefixLengths in all
// contents of prefixFills (lengths above 12: honest bytes only), every chunk
// content length of innerLengths with a consistent length prefix, one byte
// appended, and the empty input.  All inputs are exact-capacity allocations
// (see safeDecode).  Round3 has no curve parameter: P-256 only.
func TestShortInputs(t *testing.T) {
	col := ev.Get(prop)
	shard, nshards := ev.Shard()
	idx := 0
	n := 0
	ev.Each(t, col, "reject", func(yield func(RejCase) bool) {
		emit := func(cs RejCase) {
			idx++
			if idx%nshards == shard {
				n++
				yield(cs)
			}
		}
		for _, curve := range []string{"P-256", "P-224", "P-384", "P-521"} {
			c := curveByName(curve)
			for _, kind := range kinds {
				if kind == "r3" && curve != "P-256" {
					continue
				}
				for _, k := range prefixLengths(kind, c) {
					for _, fill := range prefixFills {
						if fill != fillHonest && k > 12 {
							continue
						}
						emit(RejCase{Mode: "prefix", Kind: kind, Curve: curve, N: k, Fill: fill})
					}
				}
				for _, k := range innerLengths(kind, c) {
					emit(RejCase{Mode: "inner-prefix", Kind: kind, Curve: curve, N: k})
				}
				for _, fill := range []int{0, 0xff} {
					emit(RejCase{Mode: "extend", Kind: kind, Curve: curve, N: 1, Fill: fill})
				}
			}
		}
	}, runReject)
	col.Count("short-inputs-enumerated", n)
	col.Note("short-inputs: enumerated for every decoder x curve: lengths 0-4, 9-12, section borders +-1, one/two bytes short (honest bytes; up to 12 bytes also magic+zeros, magic+0xff, zeros), chunk contents cut with a consistent length prefix, one byte appended")
}
