package c18

import (
	"crypto/sha256"
	"encoding/base64"
	"encoding/hex"
	"encoding/json"
	"fmt"
	"os"
	"path/filepath"
	"strconv"
	"strings"
	"testing"
	"time"

	"verifharness/internal/ev"
	"verifharness/internal/gen"
)

// Native fuzz targets for the five decoders (thorough tier only).  The fuzz
// input is one selector byte (curve = selector mod 4) followed by the bytes
// handed to the decoder.  The oracle is checkMutant without the follow-on
// rounds: no panic, wrong length / wrong magic => error, a decoded value
// re-encodes to the documented size and decodes to itself.
//
// The fuzz function runs in worker processes; they only count and report a
// failure to the coordinator, which stores the (minimised) input under
// testdata/fuzz.  After fuzzing, the coordinator process converts every stored
// input into a replayable violation of unit "fuzz" and removes the file.

// FuzzCase is the replayable form of a fuzz input.
type FuzzCase struct {
	Kind  string `json:"kind"`
	Curve string `json:"curve"`
	Data  string `json:"data_b64"`
}

// fuzzDigest is what is recorded as evidence for a passing input.
type fuzzDigest struct {
	Kind   string `json:"kind"`
	Curve  string `json:"curve"`
	Len    int    `json:"len"`
	SHA256 string `json:"sha256"`
}

func init() { ev.Register("fuzz", runFuzzCase) }

func runFuzzCase(cs FuzzCase) ev.Outcome {
	data, err := base64.StdEncoding.DecodeString(cs.Data)
	if err != nil {
		return ev.Outcome{Skip: "bad base64"}
	}
	if curveByName(cs.Curve) == nil {
		return ev.Outcome{Skip: "unknown curve"}
	}
	return fuzzBoth(cs.Kind, cs.Curve, data)
}

// fuzzBoth gives the bytes to the decoder as they are and, for Round3 (whose
// decoder refuses everything that is not exactly 707146 bytes long before it
// looks at anything else), additionally as a patch: bytes 0..2 select an
// offset, the rest overwrites a well-formed encoding there.
func fuzzBoth(kind, curve string, data []byte) ev.Outcome {
	out := fuzzOne(kind, curve, data)
	if out.Err != "" || kind != "r3" || len(data) == round3Len || len(data) < 4 {
		return out
	}
	ctx := fuzzCtx[kind+"/"+curve]
	patched := append([]byte{}, ctx.enc[kind]...)
	off := (int(data[0])<<16 | int(data[1])<<8 | int(data[2])) % len(patched)
	copy(patched[off:], data[3:])
	out2 := fuzzOne(kind, curve, patched)
	out2.Key = out.Key
	out2.Classes = append(out2.Classes, "r3-patch")
	if out2.Err != "" {
		out2.Err = fmt.Sprintf("well-formed Round3 encoding overwritten at offset %d with %d fuzz bytes: %s", off, len(data)-3, out2.Err)
	}
	return out2
}

// fuzzContext returns a stand-in for an honest run: only the curve and one
// well-formed encoding of the kind are needed by the decoder-only oracle.
func fuzzContext(kind, curve string) (*baseRun, error) {
	v, err := synthValue(RTCase{Kind: kind, Curve: curve, Seed: 1, Source: "synthetic", SID: "random", Bits: "random"})
	if err != nil {
		return nil, err
	}
	c := curveByName(curve)
	enc, err := encodeKind(kind, c, v)
	if err != nil {
		return nil, err
	}
	return &baseRun{curveName: curve, curve: c, enc: map[string][]byte{kind: enc}}, nil
}

var fuzzCtx = map[string]*baseRun{}

func fuzzOne(kind, curve string, data []byte) ev.Outcome {
	key := kind + "/" + curve
	ctx := fuzzCtx[key]
	if ctx == nil {
		var err error
		ctx, err = fuzzContext(kind, curve)
		if err != nil {
			return ev.Fail("base-run/failed", "cannot build a well-formed %s for %s: %v", kind, curve, err)
		}
		fuzzCtx[key] = ctx
	}
	out := checkMutant(ctx, kind, data, nil, false, false)
	sum := sha256.Sum256(data)
	out.Key = fmt.Sprintf("%s/%s/%x", kind, curve, sum[:12])
	return out
}

func isFuzzWorker() bool {
	for _, a := range os.Args {
		if strings.HasPrefix(a, "-test.fuzzworker") {
			return true
		}
	}
	return false
}

type workerStats struct {
	Execs    int64            `json:"execs"`
	Accepted int64            `json:"accepted"`
	Deep     int64            `json:"past_magic_and_length"`
	Known    map[string]int64 `json:"known"`
	last     time.Time
}

func (w *workerStats) flush() {
	out := os.Getenv("VERIF_EV_OUT")
	if out == "" {
		return
	}
	data, _ := json.Marshal(w)
	path := fmt.Sprintf("%s.fz.%d", out, os.Getpid())
	os.WriteFile(path+".tmp", data, 0o644)
	os.Rename(path+".tmp", path)
}

func fuzzDecoder(f *testing.F, kind string) {
	col := ev.Get(prop)
	worker := isFuzzWorker()
	name := f.Name()
	crashDir := filepath.Join("testdata", "fuzz", name)

	// Seeds: a synthetic well-formed encoding per curve, the encodings of an
	// honest P-256 run, and a few near misses.
	curves := curveNames
	if kind == "r3" {
		curves = []string{"P-256"}
	}
	for ci, cn := range curveNames {
		use := false
		for _, x := range curves {
			use = use || x == cn
		}
		if !use {
			continue
		}
		ctx, err := fuzzContext(kind, cn)
		if err != nil {
			f.Fatalf("seed: %v", err)
		}
		enc := ctx.enc[kind]
		sel := []byte{byte(ci)}
		f.Add(append(append([]byte{}, sel...), enc...))
		// Short inputs: 0-3 bytes and the end of the fixed header; the fuzz
		// function hands the bytes to the decoder as exact-capacity
		// allocations (safeDecode), not as slices of the engine's buffer.
		for _, k := range []int{0, 1, 2, 3, 9, 10, 11} {
			f.Add(append(append([]byte{}, sel...), enc[:k]...))
		}
		f.Add(append(append([]byte{}, sel...), enc[:len(enc)-1]...))
		if kind != "r3" {
			f.Add(append(append(append([]byte{}, sel...), enc...), 0))
			d := gen.NewDRBG(uint64(ci), 50)
			m := applyOps(enc, []MutOp{{Op: "flip", Pos: 10 + d.Intn(len(enc)-10), Val: d.Intn(8)}}, d, nil)
			f.Add(append(append([]byte{}, sel...), m...))
			if kind == "gs" || kind == "es" {
				m = applyOps(enc, []MutOp{{Op: "trunc", N: 1 + d.Intn(31)}, {Op: "relen"}}, d, nil)
				f.Add(append(append([]byte{}, sel...), m...))
			}
		}
	}
	if b, err := getBase("P-256", 0); err == nil {
		f.Add(append([]byte{1}, b.enc[kind]...))
	} else {
		f.Fatalf("seed: %v", err)
	}
	if kind == "r3" { // patches: offset (3 bytes) + replacement bytes
		f.Add([]byte{1, 0, 0, 0, 'R', '3', 0, 0, 0, 0, 0, 0, 0, 1})
		f.Add([]byte{1, 0, 0, 10, 0xff, 0xff, 0xff, 0xff, 0xff, 0xff, 0xff, 0xff, 0xff, 0xff, 0xff, 0xff, 0xff, 0xff, 0xff, 0xff})
		f.Add(append([]byte{1, 0x0a, 0x7a, 0x4a}, make([]byte, 64)...))
	}
	f.Add([]byte{1})
	f.Add([]byte{1, magics[kind][0], magics[kind][1]})

	stats := &workerStats{Known: map[string]int64{}, last: time.Now()}

	if !worker {
		f.Cleanup(func() {
			collectFuzz(f, col, kind, name, crashDir)
		})
	}

	f.Fuzz(func(t *testing.T, in []byte) {
		if len(in) == 0 {
			return
		}
		curve := curveNames[int(in[0])%len(curveNames)]
		if kind == "r3" {
			curve = "P-256"
		}
		data := in[1:]
		out := fuzzBoth(kind, curve, data)
		if worker {
			stats.Execs++
			for _, c := range out.Classes {
				switch c {
				case "decoder-accepted":
					stats.Accepted++
				case "decoder-rejected-past-magic-and-length":
					stats.Deep++
				}
			}
			if out.Err != "" {
				if col.IsKnown(out.Sig) {
					stats.Known[out.Sig]++
				} else {
					stats.flush()
					t.Fatalf("sig=%s: %s", out.Sig, out.Err)
				}
			}
			if stats.Execs%256 == 0 && time.Since(stats.last) > 2*time.Second {
				stats.last = time.Now()
				stats.flush()
			}
			return
		}
		// In-process execution (seed corpus, or go test without -fuzz).
		sum := sha256.Sum256(data)
		dg := fuzzDigest{Kind: kind, Curve: curve, Len: len(data), SHA256: hex.EncodeToString(sum[:8])}
		if col.Record("fuzz", dg, out) {
			cs := FuzzCase{Kind: kind, Curve: curve, Data: base64.StdEncoding.EncodeToString(data)}
			path := col.Violation("fuzz", cs, out, false)
			t.Errorf("violation sig=%s replay=%s: %s", out.Sig, path, out.Err)
		}
	})
}

// collectFuzz runs in the coordinator after fuzzing: worker counters become
// evidence, stored failing inputs become violations.
func collectFuzz(f *testing.F, col *ev.Collector, kind, name, crashDir string) {
	if out := os.Getenv("VERIF_EV_OUT"); out != "" {
		files, _ := filepath.Glob(out + ".fz.*")
		var total workerStats
		total.Known = map[string]int64{}
		for _, p := range files {
			if strings.HasSuffix(p, ".tmp") {
				continue
			}
			data, err := os.ReadFile(p)
			if err != nil {
				continue
			}
			var w workerStats
			if json.Unmarshal(data, &w) == nil {
				total.Execs += w.Execs
				total.Accepted += w.Accepted
				total.Deep += w.Deep
				for k, v := range w.Known {
					total.Known[k] += v
				}
			}
			os.Remove(p)
		}
		if total.Execs > 0 {
			col.Count("fuzz/"+name+"/execs", int(total.Execs))
			col.Count("fuzz/"+name+"/decoder-accepted", int(total.Accepted))
			col.Count("fuzz/"+name+"/rejected-past-magic-and-length", int(total.Deep))
			for k, v := range total.Known {
				col.Count("fuzz/"+name+"/known:"+k, int(v))
			}
			o := ev.OK(total.Accepted+total.Deep > 0, "fuzz-campaign="+kind)
			o.Evals = int(total.Execs)
			o.Key = fmt.Sprintf("campaign/%s/%d/%d", name, col.Seed, total.Execs)
			col.Record("fuzz", map[string]interface{}{"target": name, "execs": total.Execs,
				"decoder_accepted": total.Accepted, "rejected_past_magic_and_length": total.Deep}, o)
		}
	}
	entries, _ := os.ReadDir(crashDir)
	for _, e := range entries {
		p := filepath.Join(crashDir, e.Name())
		in, err := readCorpusFile(p)
		if err != nil || len(in) == 0 {
			col.Note("fuzz: cannot parse stored input %s: %v", p, err)
			continue
		}
		curve := curveNames[int(in[0])%len(curveNames)]
		if kind == "r3" {
			curve = "P-256"
		}
		cs := FuzzCase{Kind: kind, Curve: curve, Data: base64.StdEncoding.EncodeToString(in[1:])}
		out := runFuzzCaseSafe(cs)
		if out.Err == "" {
			out = ev.Fail("fuzz/"+kind+"/worker-failure-not-reproduced",
				"the fuzzing engine stored %s as failing, the in-process replay passes (crash of the worker process?)", e.Name())
		}
		if col.Record("fuzz", fuzzDigest{Kind: kind, Curve: curve, Len: len(in) - 1}, out) {
			path := col.Violation("fuzz", cs, out, false)
			f.Logf("violation sig=%s replay=%s: %s", out.Sig, path, out.Err)
		}
		os.Remove(p)
	}
	os.Remove(crashDir)
	os.Remove(filepath.Join("testdata", "fuzz"))
	os.Remove("testdata")
	col.Flush()
}

func runFuzzCaseSafe(cs FuzzCase) (out ev.Outcome) {
	defer func() {
		if r := recover(); r != nil {
			out = ev.Fail("panic/fuzz-"+cs.Kind+"/"+ev.PanicSite(), "panic: %v\n%s", r, ev.ShortStack())
		}
	}()
	return runFuzzCase(cs)
}

// readCorpusFile parses a "go test fuzz v1" file with a single []byte value.
func readCorpusFile(path string) ([]byte, error) {
	raw, err := os.ReadFile(path)
	if err != nil {
		return nil, err
	}
	lines := strings.Split(strings.TrimSpace(string(raw)), "\n")
	if len(lines) != 2 || !strings.HasPrefix(lines[0], "go test fuzz v1") {
		return nil, fmt.Errorf("unexpected corpus file format")
	}
	l := strings.TrimSpace(lines[1])
	if !strings.HasPrefix(l, "[]byte(") || !strings.HasSuffix(l, ")") {
		return nil, fmt.Errorf("unexpected corpus value %.20q", l)
	}
	s, err := strconv.Unquote(l[len("[]byte(") : len(l)-1])
	if err != nil {
		return nil, err
	}
	return []byte(s), nil
}

func FuzzDecodeRound1(f *testing.F)           { fuzzDecoder(f, "r1") }
func FuzzDecodeRound2(f *testing.F)           { fuzzDecoder(f, "r2") }
func FuzzDecodeRound3(f *testing.F)           { fuzzDecoder(f, "r3") }
func FuzzDecodeGarblerSession(f *testing.F)   { fuzzDecoder(f, "gs") }
func FuzzDecodeEvaluatorSession(f *testing.F) { fuzzDecoder(f, "es") }
