// C18: SHA256(XOR) protocol of package sha2pc: correct, resumable, canonical
// encodings.  Shared helpers: curves, documented sizes, reference hash,
// field-wise comparisons, encode/decode round trips and a cache of honest
// protocol runs ("base runs") from which the mutation units regenerate the
// 700 KB encodings instead of storing them in a case.
package c18

import (
	"bytes"
	"crypto/elliptic"
	"crypto/sha256"
	"encoding/binary"
	"encoding/hex"
	"fmt"
	"math/big"
	"sync"
	"testing"

	"github.com/markkurossi/mpc/ot"
	"github.com/markkurossi/mpc/sha2pc"

	"verifharness/internal/ev"
	"verifharness/internal/gen"
)

const prop = "C18"

// The five encodable values, in protocol order; bit i of a restart mask means
// "value kinds[i] goes through Encode->bytes->Decode before it is used".
var kinds = []string{"r1", "gs", "r2", "es", "r3"}

var curveNames = []string{"P-224", "P-256", "P-384", "P-521"}

func curveByName(n string) elliptic.Curve {
	switch n {
	case "P-224":
		return elliptic.P224()
	case "P-256":
		return elliptic.P256()
	case "P-384":
		return elliptic.P384()
	case "P-521":
		return elliptic.P521()
	}
	return nil
}

// fieldLen is the size of a field element / scalar of the curve in bytes.
func fieldLen(c elliptic.Curve) int { return (c.Params().BitSize + 7) / 8 }

func uvarintLen(n int) int {
	var tmp [binary.MaxVarintLen64]byte
	return binary.PutUvarint(tmp[:], uint64(n))
}

const (
	inputBits = 256
	// Documented in sha2pc/params.go and pinned by the repository's
	// TestPayloadSizesByCurve.
	round3Len   = 707146
	tableLabels = 42914
)

// Offsets inside a Round3 encoding (magic, sid, key, tables, garbler inputs,
// output hints, ciphertexts).
const (
	r3OffKey    = 2 + 8
	r3OffTables = r3OffKey + 32
	r3OffInputs = r3OffTables + tableLabels*16
	r3OffHints  = r3OffInputs + inputBits*16
	r3OffCipher = r3OffHints + inputBits*2*16
)

// wantLen is the documented size of the encoding of kind for the curve:
// magic(2) + session id(8) + ..., with L = field size, name = curve name:
//
//	r1: chunk(name) + 2L
//	r2: chunk(name) + 256*L + 32 sign bytes
//	r3: 32 + 42914*16 + 256*16 + 256*32 + 256*32  (curve independent)
//	gs: chunk(chunk(name) + 5L)
//	es: chunk(chunk(name) + 2L + 256*L + 32)
//
// where chunk(x) = uvarint(len(x)) + x.
func wantLen(kind string, c elliptic.Curve) int {
	L := fieldLen(c)
	name := 1 + len(c.Params().Name)
	switch kind {
	case "r1":
		return 2 + 8 + name + 2*L
	case "r2":
		return 2 + 8 + name + inputBits*L + inputBits/8
	case "r3":
		return 2 + 8 + 32 + tableLabels*16 + inputBits*16 + inputBits*32 + inputBits*32
	case "gs":
		inner := name + 5*L
		return 2 + 8 + uvarintLen(inner) + inner
	case "es":
		inner := name + 2*L + inputBits*L + inputBits/8
		return 2 + 8 + uvarintLen(inner) + inner
	}
	panic("unknown kind " + kind)
}

// The constants the repository's own test pins for P-256 and P-224; the
// formula above must agree with them (harness self-check).
func init() {
	pins := map[string]map[string]int{
		"P-256": {"r1": 80, "r2": 8240, "r3": 707146, "gs": 178, "es": 8306},
		"P-224": {"r1": 72, "r2": 7216, "r3": 707146, "gs": 158, "es": 7274},
	}
	for cn, m := range pins {
		for k, n := range m {
			if got := wantLen(k, curveByName(cn)); got != n {
				panic(fmt.Sprintf("harness size formula %s/%s = %d, repository pins %d", cn, k, got, n))
			}
		}
	}
	if round3Len != wantLen("r3", elliptic.P256()) || r3OffCipher+inputBits*32 != round3Len {
		panic("harness round3 layout inconsistent")
	}
}

var magics = map[string]string{"r1": "R1", "r2": "R2", "r3": "R3", "gs": "GS", "es": "ES"}

// refHash is the oracle: SHA-256 of a xor b by crypto/sha256.
func refHash(a, b [32]byte) [32]byte {
	var x [32]byte
	for i := range x {
		x[i] = a[i] ^ b[i]
	}
	return sha256.Sum256(x[:])
}

func parse32(s string) ([32]byte, error) {
	var r [32]byte
	d, err := hex.DecodeString(s)
	if err != nil || len(d) != 32 {
		return r, fmt.Errorf("bad 32-byte hex %q", s)
	}
	copy(r[:], d)
	return r, nil
}

// ---------------------------------------------------------------------------
// Generic access to the five encoders/decoders.

func encodeKind(kind string, c elliptic.Curve, v interface{}) ([]byte, error) {
	switch kind {
	case "r1":
		return sha2pc.EncodeRound1(c, v.(sha2pc.Round1Payload))
	case "r2":
		return sha2pc.EncodeRound2(c, v.(sha2pc.Round2Payload))
	case "r3":
		return sha2pc.EncodeRound3(v.(sha2pc.Round3Payload))
	case "gs":
		return sha2pc.EncodeGarblerSession(c, v.(*sha2pc.GarblerSession))
	case "es":
		return sha2pc.EncodeEvaluatorSession(c, v.(*sha2pc.EvaluatorSession))
	}
	panic("unknown kind " + kind)
}

func decodeKind(kind string, c elliptic.Curve, data []byte) (interface{}, error) {
	switch kind {
	case "r1":
		return sha2pc.DecodeRound1(c, data)
	case "r2":
		return sha2pc.DecodeRound2(c, data)
	case "r3":
		return sha2pc.DecodeRound3(data)
	case "gs":
		v, err := sha2pc.DecodeGarblerSession(c, data)
		if err == nil && v == nil {
			return nil, fmt.Errorf("harness: decoder returned nil session without error")
		}
		return v, err
	case "es":
		v, err := sha2pc.DecodeEvaluatorSession(c, data)
		if err == nil && v == nil {
			return nil, fmt.Errorf("harness: decoder returned nil session without error")
		}
		return v, err
	}
	panic("unknown kind " + kind)
}

// exactCopy returns a copy of b whose capacity equals its length: what a
// decoder gets from a caller that read exactly len(b) bytes from a file or a
// network frame.  A re-slice of a longer buffer (enc[:k]) keeps the capacity of
// the buffer, so that an unguarded data[i:j] beyond len(data) reads stale bytes
// instead of failing; the fresh allocation has nothing behind its end.
func exactCopy(b []byte) []byte {
	c := make([]byte, len(b))
	copy(c, b)
	return c
}

// sliceForms returns the forms in which the bytes are handed to a decoder: an
// exact-capacity copy (for no bytes: nil and an empty non-nil slice) and, if
// the caller's slice has spare capacity, that slice as it is.
func sliceForms(data []byte) (forms [][]byte, names []string) {
	if len(data) == 0 {
		forms = append(forms, nil, make([]byte, 0))
		names = append(names, "nil slice", "empty non-nil slice")
	} else {
		forms = append(forms, exactCopy(data))
		names = append(names, fmt.Sprintf("%d bytes in a slice of capacity %d", len(data), len(data)))
	}
	if cap(data) > len(data) {
		forms = append(forms, data)
		names = append(names, fmt.Sprintf("%d bytes at the start of a buffer of capacity %d", len(data), cap(data)))
	}
	return
}

// safeDecode calls the decoder on every slice form of the bytes and converts a
// panic into (sig, description).  The verdict of a decoder is a function of
// the bytes: accepting one form and refusing another is reported the same way
// (sig decode/<kind>/verdict-depends-on-capacity).  The returned value and
// error are those of the first form (the exact-capacity copy).
func safeDecode(kind string, c elliptic.Curve, data []byte) (v interface{}, err error, panicSig, panicMsg string) {
	forms, names := sliceForms(data)
	for i, form := range forms {
		fv, ferr, psig, pmsg := safeDecode1(kind, c, form)
		if psig != "" {
			return nil, nil, psig, fmt.Sprintf("input: %s\n%s", names[i], pmsg)
		}
		if i == 0 {
			v, err = fv, ferr
			if err == nil && len(data) > 1<<16 {
				// A large accepted input (a complete Round3 message): the
				// second decode would double the cost of the mutation and
				// fuzz units for nothing, the decoder had all it asked for.
				break
			}
			continue
		}
		if (ferr == nil) != (err == nil) {
			return nil, nil, "decode/" + kind + "/verdict-depends-on-capacity", fmt.Sprintf(
				"the same %d bytes: as %s the decoder returns error %v, as %s it returns error %v",
				len(data), names[0], err, names[i], ferr)
		}
	}
	return
}

func safeDecode1(kind string, c elliptic.Curve, data []byte) (v interface{}, err error, panicSig, panicMsg string) {
	defer func() {
		if r := recover(); r != nil {
			panicSig = "panic/decode-" + kind + "/" + ev.PanicSite()
			panicMsg = fmt.Sprintf("panic: %v\n%s", r, ev.ShortStack())
		}
	}()
	v, err = decodeKind(kind, c, data)
	return
}

func sessionID(kind string, v interface{}) uint64 {
	switch kind {
	case "r1":
		return v.(sha2pc.Round1Payload).SessionID
	case "r2":
		return v.(sha2pc.Round2Payload).SessionID
	case "r3":
		return v.(sha2pc.Round3Payload).SessionID
	case "gs":
		return v.(*sha2pc.GarblerSession).SessionID
	case "es":
		return v.(*sha2pc.EvaluatorSession).SessionID
	}
	panic("unknown kind " + kind)
}

// ---------------------------------------------------------------------------
// Field-wise equality; the result is "" or the name of the first differing
// field.

func diffBig(name string, a, b *big.Int) string {
	if a == nil || b == nil {
		if a == nil && b == nil {
			return ""
		}
		return name + "(nil)"
	}
	if a.Sign() < 0 || b.Sign() < 0 || a.Cmp(b) != 0 {
		return name
	}
	return ""
}

func first(ds ...string) string {
	for _, d := range ds {
		if d != "" {
			return d
		}
	}
	return ""
}

func diffLabels(name string, a, b []ot.Label) string {
	if len(a) != len(b) {
		return name + ".len"
	}
	for i := range a {
		if a[i].D0 != b[i].D0 || a[i].D1 != b[i].D1 {
			return fmt.Sprintf("%s[%d]", name, i)
		}
	}
	return ""
}

func diffValue(kind string, x, y interface{}) string {
	switch kind {
	case "r1":
		a, b := x.(sha2pc.Round1Payload), y.(sha2pc.Round1Payload)
		if a.SessionID != b.SessionID {
			return "SessionID"
		}
		if a.OT.CurveName != b.OT.CurveName {
			return "OT.CurveName"
		}
		return first(diffBig("OT.A.X", a.OT.A.X, b.OT.A.X), diffBig("OT.A.Y", a.OT.A.Y, b.OT.A.Y))
	case "r2":
		a, b := x.(sha2pc.Round2Payload), y.(sha2pc.Round2Payload)
		if a.SessionID != b.SessionID {
			return "SessionID"
		}
		if a.CurveName != b.CurveName {
			return "CurveName"
		}
		if len(a.Choices) != len(b.Choices) {
			return "Choices.len"
		}
		for i := range a.Choices {
			if d := first(diffBig(fmt.Sprintf("Choices[%d].X", i), a.Choices[i].X, b.Choices[i].X),
				diffBig(fmt.Sprintf("Choices[%d].Y", i), a.Choices[i].Y, b.Choices[i].Y)); d != "" {
				return d
			}
		}
		return ""
	case "r3":
		a, b := x.(sha2pc.Round3Payload), y.(sha2pc.Round3Payload)
		if a.SessionID != b.SessionID {
			return "SessionID"
		}
		if a.Key != b.Key {
			return "Key"
		}
		if len(a.GarbledTables) != len(b.GarbledTables) {
			return "GarbledTables.len"
		}
		for i := range a.GarbledTables {
			if d := diffLabels(fmt.Sprintf("GarbledTables[%d]", i), a.GarbledTables[i], b.GarbledTables[i]); d != "" {
				return d
			}
		}
		if d := diffLabels("GarblerInputs", a.GarblerInputs, b.GarblerInputs); d != "" {
			return d
		}
		if len(a.OutputHints) != len(b.OutputHints) {
			return "OutputHints.len"
		}
		for i := range a.OutputHints {
			if a.OutputHints[i] != b.OutputHints[i] {
				return fmt.Sprintf("OutputHints[%d]", i)
			}
		}
		if len(a.Ciphertexts) != len(b.Ciphertexts) {
			return "Ciphertexts.len"
		}
		for i := range a.Ciphertexts {
			if a.Ciphertexts[i] != b.Ciphertexts[i] {
				return fmt.Sprintf("Ciphertexts[%d]", i)
			}
		}
		return ""
	case "gs":
		a, b := x.(*sha2pc.GarblerSession), y.(*sha2pc.GarblerSession)
		if a.SessionID != b.SessionID {
			return "SessionID"
		}
		s, t := a.SenderSetup, b.SenderSetup
		if s.CurveName != t.CurveName {
			return "SenderSetup.CurveName"
		}
		return first(diffBig("SenderSetup.Scalar", s.Scalar, t.Scalar),
			diffBig("SenderSetup.Ax", s.Ax, t.Ax), diffBig("SenderSetup.Ay", s.Ay, t.Ay),
			diffBig("SenderSetup.AaInvX", s.AaInvX, t.AaInvX), diffBig("SenderSetup.AaInvY", s.AaInvY, t.AaInvY))
	case "es":
		a, b := x.(*sha2pc.EvaluatorSession), y.(*sha2pc.EvaluatorSession)
		if a.SessionID != b.SessionID {
			return "SessionID"
		}
		s, t := a.ChoiceBundle, b.ChoiceBundle
		if s.CurveName != t.CurveName {
			return "ChoiceBundle.CurveName"
		}
		if d := first(diffBig("ChoiceBundle.Ax", s.Ax, t.Ax), diffBig("ChoiceBundle.Ay", s.Ay, t.Ay)); d != "" {
			return d
		}
		if len(s.Scalars) != len(t.Scalars) {
			return "ChoiceBundle.Scalars.len"
		}
		for i := range s.Scalars {
			if d := diffBig(fmt.Sprintf("ChoiceBundle.Scalars[%d]", i), s.Scalars[i], t.Scalars[i]); d != "" {
				return d
			}
		}
		if len(s.Bits) != len(t.Bits) {
			return "ChoiceBundle.Bits.len"
		}
		for i := range s.Bits {
			if s.Bits[i] != t.Bits[i] {
				return fmt.Sprintf("ChoiceBundle.Bits[%d]", i)
			}
		}
		return ""
	}
	panic("unknown kind " + kind)
}

// roundTrip encodes v, checks the documented size, decodes, compares
// field-wise and re-encodes.  It returns the decoded copy and the bytes, or a
// failure (sig suffix, message).
func roundTrip(kind string, c elliptic.Curve, v interface{}) (dec interface{}, enc []byte, sig, msg string) {
	enc, err := encodeKind(kind, c, v)
	if err != nil {
		return nil, nil, kind + "/encode-error", fmt.Sprintf("Encode(%s) failed on a well-formed value: %v", kind, err)
	}
	if want := wantLen(kind, c); len(enc) != want {
		return nil, enc, kind + "/length", fmt.Sprintf("Encode(%s) on %s produced %d bytes, documented size is %d",
			kind, c.Params().Name, len(enc), want)
	}
	if string(enc[:2]) != magics[kind] {
		return nil, enc, kind + "/magic", fmt.Sprintf("Encode(%s) starts with %q, want %q", kind, enc[:2], magics[kind])
	}
	dec, err = decodeKind(kind, c, enc)
	if err != nil {
		return nil, enc, kind + "/decode-error", fmt.Sprintf("Decode(Encode(%s)) failed: %v", kind, err)
	}
	if d := diffValue(kind, v, dec); d != "" {
		return nil, enc, kind + "/field-mismatch", fmt.Sprintf("Decode(Encode(%s)) differs from the value in field %s", kind, d)
	}
	enc2, err := encodeKind(kind, c, dec)
	if err != nil {
		return nil, enc, kind + "/reencode-error", fmt.Sprintf("Encode(Decode(Encode(%s))) failed: %v", kind, err)
	}
	if !bytes.Equal(enc, enc2) {
		i := 0
		for i < len(enc) && i < len(enc2) && enc[i] == enc2[i] {
			i++
		}
		return nil, enc, kind + "/reencode-differs", fmt.Sprintf(
			"Encode(Decode(Encode(%s))) differs from the first encoding (lengths %d/%d, first difference at byte %d)",
			kind, len(enc), len(enc2), i)
	}
	return dec, enc, "", ""
}

// ---------------------------------------------------------------------------
// Honest protocol runs, cached per (curve, seed).  The structs are never
// handed to code that is expected to mutate them (sessions are documented as
// immutable), encodings are copied before mutation.

type baseRun struct {
	curveName string
	curve     elliptic.Curve
	seed      uint64
	a, b      [32]byte
	r1        sha2pc.Round1Payload
	gs        *sha2pc.GarblerSession
	r2        sha2pc.Round2Payload
	es        *sha2pc.EvaluatorSession
	r3        sha2pc.Round3Payload
	out       [32]byte
	enc       map[string][]byte
}

func (b *baseRun) value(kind string) interface{} {
	switch kind {
	case "r1":
		return b.r1
	case "r2":
		return b.r2
	case "r3":
		return b.r3
	case "gs":
		return b.gs
	case "es":
		return b.es
	}
	panic("unknown kind " + kind)
}

// DRBG streams of a run.
const (
	streamG1 = 1
	streamE2 = 2
	streamG3 = 3
	streamAB = 9
)

type baseKey struct {
	curve string
	seed  uint64
}

var (
	baseMu    sync.Mutex
	baseCache = map[baseKey]*baseRun{}
	baseOrder []baseKey
)

const baseCacheMax = 48

// getBase runs the honest protocol for (curve, seed) with inputs a, b taken
// from the seed's DRBG, verifies the result against the oracle and keeps all
// five values and their encodings.
func getBase(curveName string, seed uint64) (*baseRun, error) {
	k := baseKey{curveName, seed}
	baseMu.Lock()
	defer baseMu.Unlock()
	if b, ok := baseCache[k]; ok {
		return b, nil
	}
	c := curveByName(curveName)
	if c == nil {
		return nil, fmt.Errorf("unknown curve %q", curveName)
	}
	b := &baseRun{curveName: curveName, curve: c, seed: seed, enc: map[string][]byte{}}
	d := gen.NewDRBG(seed, streamAB)
	d.Read(b.a[:])
	d.Read(b.b[:])
	var err error
	b.r1, b.gs, err = sha2pc.GarblerRound1(gen.NewDRBG(seed, streamG1), c)
	if err != nil {
		return nil, fmt.Errorf("GarblerRound1: %v", err)
	}
	b.r2, b.es, err = sha2pc.EvaluatorRound2(gen.NewDRBG(seed, streamE2), c, b.r1, b.b)
	if err != nil {
		return nil, fmt.Errorf("EvaluatorRound2: %v", err)
	}
	b.r3, err = sha2pc.GarblerRound3(gen.NewDRBG(seed, streamG3), c, b.gs, b.a, b.r2)
	if err != nil {
		return nil, fmt.Errorf("GarblerRound3: %v", err)
	}
	b.out, err = sha2pc.EvaluatorRound4(c, b.es, b.r3)
	if err != nil {
		return nil, fmt.Errorf("EvaluatorRound4: %v", err)
	}
	if b.out != refHash(b.a, b.b) {
		return nil, fmt.Errorf("honest run returns %x, SHA-256(a xor b) is %x", b.out, refHash(b.a, b.b))
	}
	for _, kind := range kinds {
		b.enc[kind], err = encodeKind(kind, c, b.value(kind))
		if err != nil {
			return nil, fmt.Errorf("Encode(%s): %v", kind, err)
		}
	}
	if len(baseOrder) >= baseCacheMax {
		delete(baseCache, baseOrder[0])
		baseOrder = baseOrder[1:]
	}
	baseCache[k] = b
	baseOrder = append(baseOrder, k)
	return b, nil
}

// baseFail turns a failing honest run into a violation: the units that need a
// base run cannot do anything without one, and an honest run that fails is a
// violation of the property's first sentence.
func baseFail(curve string, seed uint64, err error) ev.Outcome {
	return ev.Fail("base-run/failed", "honest protocol run (curve %s, seed %d) failed: %v", curve, seed, err)
}

// callRound runs f and converts a panic into a violation signature that names
// the round function, the innermost frame of the code under test and the kind
// of value that was foreign or mutated.
func callRound(stage, kind string, f func() error) (err error, panicSig, panicMsg string) {
	defer func() {
		if r := recover(); r != nil {
			panicSig = "panic/" + stage + "/" + ev.PanicSite() + "/" + kind
			panicMsg = fmt.Sprintf("panic in %s: %v\n%s", stage, r, ev.ShortStack())
		}
	}()
	err = f()
	return
}

func TestReplay(t *testing.T) { ev.Replay(t, ev.Get(prop)) }
