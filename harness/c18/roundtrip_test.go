package c18

import (
	"crypto/elliptic"
	"math/big"
	"testing"

	"github.com/markkurossi/mpc/ot"
	"github.com/markkurossi/mpc/sha2pc"
	"pgregory.net/rapid"

	"verifharness/internal/ev"
	"verifharness/internal/gen"
)

// RTCase is one Encode -> Decode -> Encode round trip of one value.  The value
// is either taken from an honest run (Source "run": curve, Seed) or built
// from the descriptor (Source "synthetic"): session id class, classes of the
// big-integer fields and of the choice bits, everything else from the DRBG.
type RTCase struct {
	Kind   string   `json:"kind"`
	Curve  string   `json:"curve"`
	Seed   uint64   `json:"seed"`
	Source string   `json:"source"`
	SID    string   `json:"sid,omitempty"`
	Ints   []string `json:"ints,omitempty"`
	Bits   string   `json:"bits,omitempty"`
	// Cut selects one more truncation point of the value's encoding
	// (Cut mod length) besides the fixed ones, see truncations.
	Cut int `json:"cut,omitempty"`
}

func init() { ev.Register("roundtrip", runRoundTrip) }

var sidClasses = []string{"zero", "one", "max", "msb", "low-byte", "random", "random"}

var intClasses = []string{"zero", "one", "max", "p-1", "n-1", "short", "top-zero-byte", "full", "full", "full"}

var bitClasses = []string{"zeros", "ones", "alternating", "first", "last", "random", "random"}

func sidOf(class string, d *gen.DRBG) uint64 {
	switch class {
	case "zero":
		return 0
	case "one":
		return 1
	case "max":
		return ^uint64(0)
	case "msb":
		return 1 << 63
	case "low-byte":
		return d.Uint64() & 0xff
	}
	return d.Uint64()
}

// bigOf builds a non-negative integer below 2^(8L) of the requested class.
func bigOf(class string, c elliptic.Curve, d *gen.DRBG) *big.Int {
	L := fieldLen(c)
	switch class {
	case "zero":
		return new(big.Int)
	case "one":
		return big.NewInt(1)
	case "max":
		m := new(big.Int).Lsh(big.NewInt(1), uint(8*L))
		return m.Sub(m, big.NewInt(1))
	case "p-1":
		return new(big.Int).Sub(c.Params().P, big.NewInt(1))
	case "n-1":
		return new(big.Int).Sub(c.Params().N, big.NewInt(1))
	case "short":
		n := 1 + d.Intn(L-1)
		return new(big.Int).SetBytes(d.Bytes(n))
	case "top-zero-byte":
		b := d.Bytes(L)
		b[0] = 0
		return new(big.Int).SetBytes(b)
	}
	b := d.Bytes(L)
	b[0] |= 0x80
	return new(big.Int).SetBytes(b)
}

func bitsOf(class string, d *gen.DRBG) []bool {
	r := make([]bool, inputBits)
	for i := range r {
		switch class {
		case "ones":
			r[i] = true
		case "alternating":
			r[i] = i%2 == 0
		case "first":
			r[i] = i == 0
		case "last":
			r[i] = i == inputBits-1
		case "random":
			r[i] = d.Intn(2) == 1
		}
	}
	return r
}

func cls(list []string, i int) string {
	if i < len(list) {
		return list[i]
	}
	return "full"
}

// r3Shape returns the number of labels of every garbled-table row, taken from
// an honest Round3 payload (the circuit itself is not exported).
func r3Shape() ([]int, error) {
	b, err := getBase("P-256", 0)
	if err != nil {
		return nil, err
	}
	shape := make([]int, len(b.r3.GarbledTables))
	for i, row := range b.r3.GarbledTables {
		shape[i] = len(row)
	}
	return shape, nil
}

func randLabel(d *gen.DRBG) ot.Label {
	return ot.Label{D0: d.Uint64(), D1: d.Uint64()}
}

// synthValue builds a well-formed value of the kind from a descriptor.
func synthValue(cs RTCase) (interface{}, error) {
	c := curveByName(cs.Curve)
	d := gen.NewDRBG(cs.Seed, 20)
	name := c.Params().Name
	sid := sidOf(cs.SID, d)
	switch cs.Kind {
	case "r1":
		return sha2pc.Round1Payload{SessionID: sid, OT: sha2pc.OTSenderSetup{CurveName: name,
			A: ot.ECPoint{X: bigOf(cls(cs.Ints, 0), c, d), Y: bigOf(cls(cs.Ints, 1), c, d)}}}, nil
	case "gs":
		return &sha2pc.GarblerSession{SessionID: sid, SenderSetup: ot.COSenderSetup{CurveName: name,
			Scalar: bigOf(cls(cs.Ints, 0), c, d),
			Ax:     bigOf(cls(cs.Ints, 1), c, d), Ay: bigOf(cls(cs.Ints, 2), c, d),
			AaInvX: bigOf(cls(cs.Ints, 3), c, d), AaInvY: bigOf(cls(cs.Ints, 4), c, d)}}, nil
	case "es":
		scalars := make([]*big.Int, inputBits)
		for i := range scalars {
			scalars[i] = bigOf(cls(cs.Ints, 2), c, d)
		}
		scalars[0] = bigOf(cls(cs.Ints, 3), c, d)
		scalars[inputBits-1] = bigOf(cls(cs.Ints, 4), c, d)
		return &sha2pc.EvaluatorSession{SessionID: sid, ChoiceBundle: ot.COChoiceBundle{CurveName: name,
			Ax: bigOf(cls(cs.Ints, 0), c, d), Ay: bigOf(cls(cs.Ints, 1), c, d),
			Scalars: scalars, Bits: bitsOf(cs.Bits, d)}}, nil
	case "r2":
		// Round2 choices must be curve points (the decoder decompresses
		// them): a pool of k*G for k = 1, 2, n-1 and five random k, each
		// choice one of them or its negation.
		n := c.Params().N
		ks := []*big.Int{big.NewInt(1), big.NewInt(2), new(big.Int).Sub(n, big.NewInt(1))}
		for i := 0; i < 5; i++ {
			k := new(big.Int).SetBytes(d.Bytes(fieldLen(c) + 8))
			k.Mod(k, new(big.Int).Sub(n, big.NewInt(1))).Add(k, big.NewInt(1))
			ks = append(ks, k)
		}
		var pool []ot.ECPoint
		for _, k := range ks {
			x, y := c.ScalarBaseMult(k.Bytes())
			pool = append(pool, ot.ECPoint{X: x, Y: y})
		}
		pts := make([]ot.ECPoint, inputBits)
		for i := range pts {
			p := pool[d.Intn(len(pool))]
			y := new(big.Int).Set(p.Y)
			if d.Intn(2) == 1 {
				y.Sub(c.Params().P, y)
			}
			pts[i] = ot.ECPoint{X: new(big.Int).Set(p.X), Y: y}
		}
		return sha2pc.Round2Payload{SessionID: sid, CurveName: name, Choices: pts}, nil
	case "r3":
		shape, err := r3Shape()
		if err != nil {
			return nil, err
		}
		var p sha2pc.Round3Payload
		p.SessionID = sid
		d.Read(p.Key[:])
		p.GarbledTables = make([][]ot.Label, len(shape))
		for i, n := range shape {
			if n == 0 {
				continue
			}
			row := make([]ot.Label, n)
			for j := range row {
				row[j] = randLabel(d)
			}
			p.GarbledTables[i] = row
		}
		p.GarblerInputs = make([]ot.Label, inputBits)
		for i := range p.GarblerInputs {
			p.GarblerInputs[i] = randLabel(d)
		}
		p.OutputHints = make([]ot.Wire, inputBits)
		for i := range p.OutputHints {
			p.OutputHints[i] = ot.Wire{L0: randLabel(d), L1: randLabel(d)}
		}
		p.Ciphertexts = make([]ot.LabelCiphertext, inputBits)
		for i := range p.Ciphertexts {
			d.Read(p.Ciphertexts[i].Zero[:])
			d.Read(p.Ciphertexts[i].One[:])
		}
		// Edge labels at the borders of the sections.
		switch cls(cs.Ints, 0) {
		case "zero":
			p.GarblerInputs[0] = ot.Label{}
			p.OutputHints[inputBits-1] = ot.Wire{}
			p.Ciphertexts[0] = ot.LabelCiphertext{}
		case "max":
			p.GarblerInputs[inputBits-1] = ot.Label{D0: ^uint64(0), D1: ^uint64(0)}
			p.OutputHints[0].L1 = ot.Label{D0: ^uint64(0), D1: ^uint64(0)}
			for i := range p.Key {
				p.Key[i] = 0xff
			}
		}
		return p, nil
	}
	panic("unknown kind " + cs.Kind)
}

// baseSeeds is the number of distinct honest runs per curve that the units
// working on cached runs draw from.
func baseSeeds(curve string, thorough bool) int {
	n := map[string]int{"P-224": 3, "P-256": 4, "P-384": 2, "P-521": 1}[curve]
	if thorough {
		n *= 4
	}
	return n
}

func genRoundTripCase(t *rapid.T) RTCase {
	var cs RTCase
	cs.Kind = pick(t, []string{"r1", "gs", "es", "r2", "r3", "r1", "gs", "es"}, "kind")
	w := []int{3, 4, 2, 2}
	if cs.Kind == "r2" {
		w = []int{4, 6, 2, 1} // 256 point decompressions per decode
	}
	cs.Curve = drawCurve(t, w)
	cs.Cut = rapid.IntRange(0, 1<<20).Draw(t, "cut")
	if rapid.IntRange(0, 3).Draw(t, "fromRun") == 0 {
		cs.Source = "run"
		cs.Seed = uint64(rapid.IntRange(0, baseSeeds(cs.Curve, ev.Get(prop).Thorough())-1).Draw(t, "baseSeed"))
		return cs
	}
	cs.Source = "synthetic"
	cs.Seed = rapid.Uint64().Draw(t, "seed")
	cs.SID = pick(t, sidClasses, "sid")
	nints := map[string]int{"r1": 2, "gs": 5, "es": 5, "r2": 0, "r3": 1}[cs.Kind]
	for i := 0; i < nints; i++ {
		cs.Ints = append(cs.Ints, pick(t, intClasses, "int"))
	}
	if cs.Kind == "es" {
		cs.Bits = pick(t, bitClasses, "bits")
	}
	return cs
}

func runRoundTrip(cs RTCase) ev.Outcome {
	c := curveByName(cs.Curve)
	if c == nil {
		return ev.Outcome{Skip: "unknown curve"}
	}
	ok := false
	for _, k := range kinds {
		ok = ok || k == cs.Kind
	}
	if !ok {
		return ev.Outcome{Skip: "unknown kind"}
	}
	var v interface{}
	if cs.Source == "run" {
		b, err := getBase(cs.Curve, cs.Seed)
		if err != nil {
			return baseFail(cs.Curve, cs.Seed, err)
		}
		v = b.value(cs.Kind)
	} else {
		var err error
		v, err = synthValue(cs)
		if err != nil {
			return ev.Fail("base-run/failed", "%v", err)
		}
	}
	_, enc, sig, msg := roundTrip(cs.Kind, c, v)
	if sig != "" {
		return ev.Fail("roundtrip/"+sig, "%s (%s, source %s)", msg, cs.Curve, cs.Source)
	}
	if o := truncations(cs.Kind, c, enc, cs.Cut); o != nil {
		return *o
	}
	classes := []string{"kind=" + cs.Kind, "curve=" + cs.Curve, "source=" + cs.Source, cs.Kind + "/" + cs.Curve}
	if cs.Source == "synthetic" {
		classes = append(classes, "sid="+cs.SID)
		for _, ic := range cs.Ints {
			classes = append(classes, "int="+ic)
		}
		if cs.Bits != "" {
			classes = append(classes, "bits="+cs.Bits)
		}
	}
	return ev.OK(true, classes...)
}

func TestRoundTrip(t *testing.T) {
	ev.Check(t, ev.Get(prop), "roundtrip", genRoundTripCase, runRoundTrip)
}

// truncations: the encoding of the value that just round-tripped, cut to 0, 1,
// 2, 3 bytes, one byte short, cut at a drawn point and with one byte appended,
// must be refused with an error.  Every input is handed over as an
// exact-capacity allocation (nil and empty for no bytes, see safeDecode).
func truncations(kind string, c elliptic.Curve, enc []byte, cut int) *ev.Outcome {
	if cut < 0 {
		cut = -cut
	}
	keeps := []int{0, 1, 2, 3, len(enc) - 1, cut % len(enc), len(enc) + 1}
	for _, k := range keeps {
		var data []byte
		if k <= len(enc) {
			data = enc[:k]
		} else {
			data = append(append(make([]byte, 0, k), enc...), byte(cut))
		}
		_, err, psig, pmsg := safeDecode(kind, c, data)
		if psig != "" {
			o := ev.Fail(psig, "Decode(%s, %s) of the first %d bytes of a %d-byte encoding that round-trips: %s",
				kind, c.Params().Name, k, len(enc), pmsg)
			return &o
		}
		if err == nil {
			what := "short-input-accepted"
			if k > len(enc) {
				what = "trailing-bytes-accepted"
			}
			o := ev.Fail("decode/"+kind+"/"+what, "Decode(%s, %s) accepted %d bytes of a %d-byte encoding (documented size %d)",
				kind, c.Params().Name, k, len(enc), wantLen(kind, c))
			return &o
		}
	}
	return nil
}
