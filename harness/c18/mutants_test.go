package c18

import (
	"bytes"
	"crypto/elliptic"
	"encoding/binary"
	"fmt"
	"testing"

	"github.com/markkurossi/mpc/sha2pc"
	"pgregory.net/rapid"

	"verifharness/internal/ev"
	"verifharness/internal/gen"
)

// MutOp is one edit of an encoding.  Positions are absolute byte offsets and
// are reduced modulo the current length when applied, so every descriptor is
// applicable (and stays so while rapid shrinks it).
type MutOp struct {
	Op   string `json:"op"`
	Pos  int    `json:"pos,omitempty"`
	N    int    `json:"n,omitempty"`
	Val  int    `json:"val,omitempty"`  // byte value / bit index / increment; -1 = DRBG bytes
	Src  string `json:"src,omitempty"`  // splice source: "self", "other" (same kind, run Seed2) or a kind of the same run
	SPos int    `json:"spos,omitempty"` // source offset of splice/swap
	At   string `json:"at,omitempty"`   // region the generator aimed at (informational)
}

// MutCase mutates the honest encoding of Kind of the run (Curve, Seed), gives
// it to the decoder and, if it decodes, to the round function(s) that consume
// the value in the honest run.
type MutCase struct {
	Kind  string  `json:"kind"`
	Curve string  `json:"curve"`
	Seed  uint64  `json:"seed"`
	Seed2 uint64  `json:"seed2,omitempty"`
	Ops   []MutOp `json:"ops"`
}

func init() { ev.Register("mutants", runMutant) }

type region struct {
	name     string
	off, len int
	unit     int // size of one element inside the region (0 = none)
}

// layout describes the documented structure of an encoding.
func layout(kind string, c elliptic.Curve) []region {
	L := fieldLen(c)
	nl := len(c.Params().Name)
	rs := []region{{"magic", 0, 2, 0}, {"sid", 2, 8, 0}}
	off := 10
	add := func(name string, n, unit int) {
		rs = append(rs, region{name, off, n, unit})
		off += n
	}
	switch kind {
	case "r1":
		add("namelen", 1, 0)
		add("name", nl, 0)
		add("A.X", L, 0)
		add("A.Y", L, 0)
	case "r2":
		add("namelen", 1, 0)
		add("name", nl, 0)
		add("choices.X", inputBits*L, L)
		add("choices.signs", inputBits/8, 0)
	case "gs":
		add("chunklen", uvarintLen(1+nl+5*L), 0)
		add("namelen", 1, 0)
		add("name", nl, 0)
		add("scalar", L, 0)
		add("Ax", L, 0)
		add("Ay", L, 0)
		add("AaInvX", L, 0)
		add("AaInvY", L, 0)
	case "es":
		add("chunklen", uvarintLen(1+nl+2*L+inputBits*L+inputBits/8), 0)
		add("namelen", 1, 0)
		add("name", nl, 0)
		add("Ax", L, 0)
		add("Ay", L, 0)
		add("scalars", inputBits*L, L)
		add("bits", inputBits/8, 0)
	case "r3":
		add("key", 32, 0)
		add("tables", tableLabels*16, 16)
		add("garbler-inputs", inputBits*16, 16)
		add("output-hints", inputBits*32, 16)
		add("ciphertexts", inputBits*32, 16)
	}
	if off != wantLen(kind, c) {
		panic(fmt.Sprintf("harness layout of %s/%s covers %d bytes, documented size %d", kind, c.Params().Name, off, wantLen(kind, c)))
	}
	return rs
}

// drawPos draws an offset: a region (small header regions as likely as the
// large bodies), then a place in it with a bias to its borders and to element
// boundaries.
func drawPos(t *rapid.T, rs []region, total int) (int, region) {
	if rapid.IntRange(0, 11).Draw(t, "anywhere") == 0 {
		return rapid.IntRange(0, total-1).Draw(t, "pos"), region{name: "any", off: 0, len: total}
	}
	r := rs[drawUniform(t, len(rs), "region")]
	switch drawUniform(t, 6, "where") {
	case 0:
		return r.off, r
	case 1:
		return r.off + r.len - 1, r
	case 2:
		if r.unit > 0 {
			k := rapid.IntRange(0, r.len/r.unit-1).Draw(t, "elem")
			if rapid.Bool().Draw(t, "elemEnd") {
				return r.off + k*r.unit + r.unit - 1, r
			}
			return r.off + k*r.unit, r
		}
	}
	return r.off + rapid.IntRange(0, r.len-1).Draw(t, "offset"), r
}

var mutOps = []string{"flip", "flip", "flip", "set", "add", "fill", "trunc", "extend", "cut", "insert",
	"splice", "splice", "swap", "relen-after", "padvarint"}

func genMutCase(t *rapid.T) MutCase {
	var cs MutCase
	thorough := ev.Get(prop).Thorough()
	if drawUniform(t, 6, "transitFault") == 0 {
		return genTransitFault(t, thorough)
	}
	cs.Kind = pick(t, []string{"r1", "r1", "gs", "gs", "gs", "es", "es", "es", "r2", "r2", "r3", "r3"}, "kind")
	cs.Curve = drawCurve(t, []int{5, 8, 2, 1})
	nb := baseSeeds(cs.Curve, thorough)
	cs.Seed = uint64(rapid.IntRange(0, nb-1).Draw(t, "baseSeed"))
	if nb < 2 {
		nb = 2
	}
	cs.Seed2 = (cs.Seed + 1) % uint64(nb)
	c := curveByName(cs.Curve)
	rs := layout(cs.Kind, c)
	total := wantLen(cs.Kind, c)
	L := fieldLen(c)

	nops := rapid.SampledFrom([]int{1, 1, 1, 1, 2, 2, 3}).Draw(t, "nops")
	relen := false
	for i := 0; i < nops; i++ {
		var op MutOp
		op.Op = pick(t, mutOps, "op")
		if op.Op == "relen-after" {
			// Structure-aware: a length-changing edit of the chunk of a
			// session, with the chunk's length prefix made consistent.
			relen = true
			op.Op = pick(t, []string{"trunc", "extend", "cut", "insert"}, "relenOp")
		}
		pos, r := drawPos(t, rs, total)
		op.Pos, op.At = pos, r.name
		small := func(label string) int {
			if rapid.Bool().Draw(t, label+"One") {
				return 1
			}
			return rapid.IntRange(1, 40).Draw(t, label)
		}
		switch op.Op {
		case "padvarint":
			// Structure-aware: the length prefix of a chunk re-written as a
			// longer, non-minimal varint of the same value.
			var prefixes []region
			for _, x := range rs {
				if x.name == "namelen" || x.name == "chunklen" {
					prefixes = append(prefixes, x)
				}
			}
			if len(prefixes) == 0 {
				op.Op = "flip"
				break
			}
			x := prefixes[drawUniform(t, len(prefixes), "prefix")]
			op.Pos, op.At = x.off, x.name
			op.N = rapid.IntRange(1, 3).Draw(t, "pad")
		case "flip":
			op.Val = rapid.IntRange(0, 7).Draw(t, "bit")
		case "set":
			op.Val = rapid.SampledFrom([]int{0, 1, 0x7f, 0x80, 0xff, 5, 0x85, -2}).Draw(t, "val")
			if op.Val == -2 {
				op.Val = rapid.IntRange(0, 255).Draw(t, "byte")
			}
		case "add":
			op.Val = rapid.SampledFrom([]int{1, 255, 2, 254, 128}).Draw(t, "inc")
		case "fill":
			op.N = rapid.SampledFrom([]int{1, 2, 8, 16, L, 2 * L, 64}).Draw(t, "n")
			op.Val = rapid.SampledFrom([]int{0, 0xff, -1}).Draw(t, "val")
		case "trunc":
			op.Pos, op.At = 0, ""
			switch drawUniform(t, 3, "truncHow") {
			case 0: // cut at the drawn position (section / element borders)
				op.N = total - pos
				op.At = r.name
			case 1: // keep only the first 0..12 bytes
				op.N = total - drawUniform(t, 13, "keep")
				op.At = "head"
			default:
				op.N = small("n")
			}
		case "extend":
			op.Pos, op.At = 0, ""
			op.N = small("n")
			op.Val = rapid.SampledFrom([]int{0, 0xff, -1}).Draw(t, "val")
		case "cut":
			op.N = rapid.SampledFrom([]int{1, 1, 2, 16, L, 0}).Draw(t, "n")
			if op.N == 0 {
				op.N = small("n")
			}
		case "insert":
			op.N = rapid.SampledFrom([]int{1, 1, 2, 16, L, 0}).Draw(t, "n")
			if op.N == 0 {
				op.N = small("n")
			}
			op.Val = rapid.SampledFrom([]int{0, 0xff, -1, 0x80}).Draw(t, "val")
		case "splice":
			op.Src = pick(t, []string{"other", "other", "self", "r1", "gs", "r2", "es"}, "src")
			op.N = rapid.SampledFrom([]int{1, 8, 16, L, 2 * L, 32}).Draw(t, "n")
			if r.unit > 0 && rapid.Bool().Draw(t, "wholeElem") {
				op.N = r.unit
			} else if r.len <= 2*L && rapid.Bool().Draw(t, "wholeRegion") {
				op.Pos, op.N = r.off, r.len
			}
			if op.Src == "other" && rapid.IntRange(0, 3).Draw(t, "aligned") != 0 {
				op.SPos = op.Pos
			} else {
				op.SPos, _ = drawPos(t, rs, total)
			}
		case "swap":
			pos2, r2 := drawPos(t, rs, total)
			op.SPos = pos2
			op.N = rapid.SampledFrom([]int{1, 16, L}).Draw(t, "n")
			if r.len == r2.len && r.len <= L {
				op.Pos, op.SPos, op.N = r.off, r2.off, r.len
			}
		}
		cs.Ops = append(cs.Ops, op)
	}
	if relen {
		cs.Ops = append(cs.Ops, MutOp{Op: "relen"})
	}
	return cs
}

// genTransitFault is a dedicated class: one local fault (a flipped bit, a
// changed byte, a few overwritten bytes) in a Round3 message on its way from
// the garbler to the evaluator, aimed at the small sections the digest is read
// from - output hints and garbler input labels are 1.7 % of the message - and
// at the other sections the evaluation depends on.
func genTransitFault(t *rapid.T, thorough bool) MutCase {
	cs := MutCase{Kind: "r3"}
	cs.Curve = drawCurve(t, []int{5, 8, 2, 1})
	cs.Seed = uint64(rapid.IntRange(0, baseSeeds(cs.Curve, thorough)-1).Draw(t, "baseSeed"))
	cs.Seed2 = cs.Seed
	target := pick(t, []string{"output-hints", "output-hints", "output-hints", "garbler-inputs", "garbler-inputs",
		"ciphertexts", "tables", "key"}, "target")
	var r region
	for _, x := range layout("r3", curveByName(cs.Curve)) {
		if x.name == target {
			r = x
		}
	}
	op := MutOp{At: r.name}
	elem := 0
	if r.unit > 0 {
		elem = drawUniform(t, r.len/r.unit, "elem") * r.unit
	}
	within := r.len
	if r.unit > 0 {
		within = r.unit
	}
	op.Pos = r.off + elem + drawUniform(t, within, "byte")
	switch op.Op = pick(t, []string{"flip", "flip", "set", "add", "fill"}, "op"); op.Op {
	case "flip":
		op.Val = drawUniform(t, 8, "bit")
	case "set":
		op.Val = rapid.IntRange(0, 255).Draw(t, "byte")
	case "add":
		op.Val = rapid.SampledFrom([]int{1, 255, 128}).Draw(t, "inc")
	case "fill":
		op.N = rapid.SampledFrom([]int{2, 8, 16}).Draw(t, "n")
		op.Val = rapid.SampledFrom([]int{0, 0xff, -1}).Draw(t, "val")
	}
	cs.Ops = []MutOp{op}
	return cs
}

// localFaults tells whether every edit changes bytes in place without moving
// material of the message (or of another message) to a different position.
// Only for those is "error or the right digest" guaranteed by the protocol: a
// label copied onto another position (splice, swap, cut+insert shifting a
// section, e.g. an output hint's L1 written over its L0) is a valid label in
// the wrong place and changes the decoded output bit without any error - the
// hints are not authenticated.
func localFaults(ops []MutOp) bool {
	for _, op := range ops {
		switch op.Op {
		case "flip", "set", "add", "fill":
		default:
			return false
		}
	}
	return len(ops) > 0
}

func clampN(n, max int) int {
	if n < 0 {
		n = 0
	}
	if n > max {
		n = max
	}
	return n
}

func fillBytes(n, val int, d *gen.DRBG) []byte {
	b := make([]byte, n)
	if val < 0 {
		d.Read(b)
	} else {
		for i := range b {
			b[i] = byte(val)
		}
	}
	return b
}

// applyOps edits a copy of data.  src returns the bytes of a splice source.
func applyOps(data []byte, ops []MutOp, d *gen.DRBG, src func(string) []byte) []byte {
	data = append([]byte{}, data...)
	const maxLen = 1 << 21
	for _, op := range ops {
		n := len(data)
		pos := 0
		if n > 0 {
			pos = ((op.Pos % n) + n) % n
		}
		switch op.Op {
		case "flip":
			if n > 0 {
				data[pos] ^= 1 << uint(op.Val&7)
			}
		case "set":
			if n > 0 {
				data[pos] = byte(op.Val)
			}
		case "add":
			if n > 0 {
				data[pos] += byte(op.Val)
			}
		case "fill":
			k := clampN(op.N, n-pos)
			copy(data[pos:], fillBytes(k, op.Val, d))
		case "trunc":
			data = data[:n-clampN(op.N, n)]
		case "extend":
			data = append(data, fillBytes(clampN(op.N, maxLen-n), op.Val, d)...)
		case "cut":
			k := clampN(op.N, n-pos)
			data = append(data[:pos], data[pos+k:]...)
		case "insert":
			ins := fillBytes(clampN(op.N, maxLen-n), op.Val, d)
			data = append(data[:pos], append(ins, data[pos:]...)...)
		case "splice":
			s := src(op.Src)
			if len(s) == 0 || n == 0 {
				continue
			}
			sp := ((op.SPos % len(s)) + len(s)) % len(s)
			k := clampN(op.N, n-pos)
			k = clampN(k, len(s)-sp)
			copy(data[pos:pos+k], s[sp:sp+k])
		case "swap":
			if n == 0 {
				continue
			}
			sp := ((op.SPos % n) + n) % n
			k := clampN(op.N, n-pos)
			k = clampN(k, n-sp)
			if pos+k > sp && sp+k > pos { // overlapping blocks: shrink
				k = clampN(k, abs(sp-pos))
			}
			tmp := append([]byte{}, data[pos:pos+k]...)
			copy(data[pos:pos+k], data[sp:sp+k])
			copy(data[sp:sp+k], tmp)
		case "padvarint":
			if n == 0 {
				continue
			}
			val, vl := binary.Uvarint(data[pos:])
			if vl <= 0 {
				continue
			}
			var tmp [binary.MaxVarintLen64]byte
			k := binary.PutUvarint(tmp[:], val)
			pad := clampN(op.N, binary.MaxVarintLen64-k)
			enc := append([]byte{}, tmp[:k]...)
			for i := 0; i < pad; i++ {
				enc[len(enc)-1] |= 0x80
				enc = append(enc, 0)
			}
			data = append(data[:pos], append(enc, data[pos+vl:]...)...)
		case "relen":
			// Make the length prefix of the chunk at offset 10 (sessions)
			// match what follows it.
			if n < 11 {
				continue
			}
			_, vl := binary.Uvarint(data[10:])
			if vl <= 0 || 10+vl > n {
				continue
			}
			rest := append([]byte{}, data[10+vl:]...)
			var tmp [binary.MaxVarintLen64]byte
			k := binary.PutUvarint(tmp[:], uint64(len(rest)))
			data = append(append(data[:10], tmp[:k]...), rest...)
		}
	}
	return data
}

func abs(x int) int {
	if x < 0 {
		return -x
	}
	return x
}

func runMutant(cs MutCase) ev.Outcome {
	c := curveByName(cs.Curve)
	if c == nil {
		return ev.Outcome{Skip: "unknown curve"}
	}
	known := false
	for _, k := range kinds {
		known = known || k == cs.Kind
	}
	if !known {
		return ev.Outcome{Skip: "unknown kind"}
	}
	base, err := getBase(cs.Curve, cs.Seed)
	if err != nil {
		return baseFail(cs.Curve, cs.Seed, err)
	}
	orig := base.enc[cs.Kind]
	var srcErr error
	src := func(name string) []byte {
		switch name {
		case "self":
			return orig
		case "other":
			o, err := getBase(cs.Curve, cs.Seed2)
			if err != nil {
				srcErr = err
				return nil
			}
			return o.enc[cs.Kind]
		}
		return base.enc[name]
	}
	data := applyOps(orig, cs.Ops, gen.NewDRBG(cs.Seed, 40), src)
	if srcErr != nil {
		return baseFail(cs.Curve, cs.Seed2, srcErr)
	}
	classes := describeOps(cs.Ops)
	if len(data) <= 3 {
		classes = append(classes, fmt.Sprintf("mutant-len=%d", len(data)))
	} else if len(data) == len(orig)-1 {
		classes = append(classes, "mutant-len=one-byte-short")
	}
	strict := (cs.Kind == "r1" || cs.Kind == "r3") && localFaults(cs.Ops)
	if strict {
		classes = append(classes, "transit-fault="+cs.Kind)
		for _, op := range cs.Ops {
			if cs.Kind == "r3" && (op.At == "output-hints" || op.At == "garbler-inputs") {
				classes = append(classes, "transit-fault-in="+op.At)
			}
		}
	}
	return checkMutant(base, cs.Kind, data, classes, true, strict)
}

func describeOps(ops []MutOp) []string {
	var cl []string
	seen := map[string]bool{}
	for _, op := range ops {
		for _, s := range []string{"op=" + op.Op, "at=" + op.At} {
			if s != "at=" && !seen[s] {
				seen[s] = true
				cl = append(cl, s)
			}
		}
	}
	return cl
}

// checkMutant is the oracle for arbitrary bytes given to the decoder of kind
// in the context of the honest run base:
//   - no panic in the decoder,
//   - a wrong total length or a wrong magic is an error,
//   - a decoded value re-encodes, and decodes again to the same value,
//   - no panic in the round function(s) that consume the decoded value; if the
//     protocol completes the result is whatever it is (detection of a
//     structurally valid modification is not demanded).
//
// strict (local faults in a garbler->evaluator message, i.e. Round1 or Round3,
// with the evaluator's own input and state untouched): the evaluator must end
// with an error or with exactly SHA-256(a xor b); a nil error with another
// digest is a violation.
func checkMutant(base *baseRun, kind string, data []byte, classes []string, follow, strict bool) ev.Outcome {
	c := base.curve
	orig := base.enc[kind]
	want := wantLen(kind, c)
	classes = append(classes, "kind="+kind, "curve="+base.curveName)
	identical := bytes.Equal(data, orig)
	if identical {
		classes = append(classes, "identity-mutation")
	}
	magicOK := len(data) >= 2 && string(data[:2]) == magics[kind]
	pastChecks := magicOK && len(data) == want

	v, err, psig, pmsg := safeDecode(kind, c, data)
	if psig != "" {
		return ev.Fail(psig, "Decode(%s, %s) of %d bytes: %s", kind, base.curveName, len(data), pmsg)
	}
	if err != nil {
		if identical {
			return ev.Fail("roundtrip/"+kind+"/decode-error", "honest %s encoding rejected: %v", kind, err)
		}
		classes = append(classes, "decoder-rejected")
		if pastChecks {
			classes = append(classes, "decoder-rejected-past-magic-and-length", kind+"/rejected-deep")
		}
		return ev.OK(pastChecks, classes...)
	}
	classes = append(classes, "decoder-accepted", kind+"/accepted")
	if len(data) != want {
		// Three ways to get a wrong total length past a decoder.
		what, how := "overlong-accepted", "longer than"
		if len(data) < want {
			what, how = "short-input-accepted", "shorter than"
		} else if _, err, _, _ := safeDecode(kind, c, data[:want]); err == nil {
			what, how = "trailing-bytes-accepted", "a complete encoding plus trailing bytes, longer than"
		}
		return ev.Fail("decode/"+kind+"/"+what,
			"Decode(%s, %s) accepted %d bytes, %s the documented size %d", kind, base.curveName, len(data), how, want)
	}
	if !magicOK {
		return ev.Fail("decode/"+kind+"/wrong-magic-accepted",
			"Decode(%s, %s) accepted bytes starting with %q", kind, base.curveName, data[:2])
	}
	// Encode/decode is the identity on the decoded value as well.
	dec2, enc2, sig, msg := roundTrip(kind, c, v)
	if sig != "" {
		return ev.Fail("mutant-roundtrip/"+sig, "value decoded from a mutated %s encoding: %s", kind, msg)
	}
	_ = dec2
	if !bytes.Equal(enc2, data) {
		classes = append(classes, "accepted-non-canonical", kind+"/non-canonical")
	}
	if !follow {
		return ev.OK(true, classes...)
	}

	seed := base.seed
	var out [32]byte
	completed := false
	stage := ""
	step := func(name string, f func() error) (bool, *ev.Outcome) {
		stage = name
		err, psig, pmsg := callRound(name, kind, f)
		if psig != "" {
			o := ev.Fail(psig, "value decoded from a mutated %s encoding (%s): %s", kind, base.curveName, pmsg)
			return false, &o
		}
		return err == nil, nil
	}
	round4 := func(es *sha2pc.EvaluatorSession, r3 sha2pc.Round3Payload) (bool, *ev.Outcome) {
		return step("EvaluatorRound4", func() error {
			var err error
			out, err = sha2pc.EvaluatorRound4(c, es, r3)
			completed = err == nil
			return err
		})
	}
	round3 := func(gs *sha2pc.GarblerSession, r2 sha2pc.Round2Payload) (sha2pc.Round3Payload, bool, *ev.Outcome) {
		var r3 sha2pc.Round3Payload
		ok, o := step("GarblerRound3", func() error {
			var err error
			r3, err = sha2pc.GarblerRound3(gen.NewDRBG(seed, streamG3), c, gs, base.a, r2)
			return err
		})
		return r3, ok, o
	}
	var o *ev.Outcome
	ok := false
	switch kind {
	case "r1":
		var r2 sha2pc.Round2Payload
		var es *sha2pc.EvaluatorSession
		ok, o = step("EvaluatorRound2", func() error {
			var err error
			r2, es, err = sha2pc.EvaluatorRound2(gen.NewDRBG(seed, streamE2), c, v.(sha2pc.Round1Payload), base.b)
			return err
		})
		if ok {
			var r3 sha2pc.Round3Payload
			r3, ok, o = round3(base.gs, r2)
			if ok {
				_, o = round4(es, r3)
			}
		}
	case "gs":
		var r3 sha2pc.Round3Payload
		r3, ok, o = round3(v.(*sha2pc.GarblerSession), base.r2)
		if ok {
			_, o = round4(base.es, r3)
		}
	case "r2":
		var r3 sha2pc.Round3Payload
		r3, ok, o = round3(base.gs, v.(sha2pc.Round2Payload))
		if ok {
			_, o = round4(base.es, r3)
		}
	case "es":
		_, o = round4(v.(*sha2pc.EvaluatorSession), base.r3)
	case "r3":
		_, o = round4(base.es, v.(sha2pc.Round3Payload))
	}
	if o != nil {
		return *o
	}
	switch {
	case !completed && identical:
		return ev.Fail("protocol/round-error", "honest run repeated from the decoded %s fails in %s", kind, stage)
	case !completed:
		classes = append(classes, "then="+stage+"-error")
	case out == base.out:
		classes = append(classes, "then=completed-correct-hash")
		if identical {
			break
		}
		classes = append(classes, kind+"/modified-but-correct")
	default:
		if identical {
			return ev.Fail("protocol/wrong-hash", "honest run repeated from the decoded %s gives %x, want %x", kind, out, base.out)
		}
		if strict {
			return ev.Fail("mutants/"+kind+"/wrong-digest-accepted",
				"%s message damaged in transit (%d bytes, %s): the evaluator finished without error with digest %x, SHA-256(a xor b) is %x",
				kind, len(data), base.curveName, out, base.out)
		}
		classes = append(classes, "then=completed-other-hash", kind+"/undetected-wrong-hash")
	}
	return ev.OK(true, classes...)
}

func TestMutants(t *testing.T) {
	ev.Check(t, ev.Get(prop), "mutants", genMutCase, runMutant)
}
