package c18

import (
	"encoding/hex"
	"fmt"
	"math/bits"
	"testing"

	"github.com/markkurossi/mpc/sha2pc"
	"pgregory.net/rapid"

	"verifharness/internal/ev"
	"verifharness/internal/gen"
)

// RunCase is one execution of the four rounds.  Mask bit i set = the value
// kinds[i] (r1, gs, r2, es, r3) is serialised and the decoded copy is used
// from there on, as after a process restart at that round boundary.
type RunCase struct {
	Curve string `json:"curve"`
	Seed  uint64 `json:"seed"`
	AB    string `json:"ab"` // class of the input pair, informational
	A     string `json:"a"`
	B     string `json:"b"`
	Mask  int    `json:"mask"`
}

func init() {
	ev.Register("protocol", runProtocol)
	ev.Register("restart", runProtocol)
}

var abClasses = []string{"zeros", "ones", "equal", "complement", "single-bit-a", "single-bit-b",
	"single-bit-xor", "repo-vector", "random", "random"}

func drawAB(t *rapid.T) (cls, a, b string) {
	cls = pick(t, abClasses, "abclass")
	var x, y [32]byte
	rnd := func(label string) [32]byte {
		var r [32]byte
		copy(r[:], rapid.SliceOfN(rapid.Byte(), 32, 32).Draw(t, label))
		return r
	}
	switch cls {
	case "zeros":
	case "ones":
		for i := range x {
			x[i], y[i] = 0xff, 0xff
		}
		if rapid.Bool().Draw(t, "onlyA") {
			y = [32]byte{}
		}
	case "equal":
		x = rnd("a")
		y = x
	case "complement":
		x = rnd("a")
		for i := range x {
			y[i] = ^x[i]
		}
	case "single-bit-a":
		k := rapid.IntRange(0, 255).Draw(t, "bit")
		x[k/8] = 1 << uint(k%8)
	case "single-bit-b":
		k := rapid.IntRange(0, 255).Draw(t, "bit")
		y[k/8] = 1 << uint(k%8)
	case "single-bit-xor":
		x = rnd("a")
		y = x
		k := rapid.IntRange(0, 255).Draw(t, "bit")
		y[k/8] ^= 1 << uint(k%8)
	case "repo-vector":
		for i := range x {
			x[i], y[i] = byte(i), byte(32-i)
		}
	default:
		x, y = rnd("a"), rnd("b")
	}
	return cls, hex.EncodeToString(x[:]), hex.EncodeToString(y[:])
}

func genProtocolCase(t *rapid.T) RunCase { return genRunCase(t, []int{3, 4, 2, 1}) }

func genRunCase(t *rapid.T, weights []int) RunCase {
	var cs RunCase
	cs.Curve = drawCurve(t, weights)
	cs.Seed = rapid.Uint64().Draw(t, "seed")
	cs.AB, cs.A, cs.B = drawAB(t)
	return cs
}

func genRestartCase(t *rapid.T) RunCase {
	// All masks on P-256 are enumerated by TestRestartAll; favour the others.
	cs := genRunCase(t, []int{3, 1, 2, 1})
	cs.Mask = rapid.IntRange(1, 31).Draw(t, "mask")
	return cs
}

// drawUniform draws an index in [0, n) from fair coin flips: rapid's integer
// generators prefer small values, which would starve the later alternatives of
// a choice list.  Shrinks towards 0.
func drawUniform(t *rapid.T, n int, label string) int {
	if n <= 1 {
		return 0
	}
	v := 0
	for k := 1; k < n*8; k <<= 1 {
		v <<= 1
		if rapid.Bool().Draw(t, label) {
			v |= 1
		}
	}
	return v % n
}

func pick(t *rapid.T, list []string, label string) string {
	return list[drawUniform(t, len(list), label)]
}

// drawCurve draws a curve name with the given weights for P-224, P-256,
// P-384, P-521 (the big curves cost 5-20 times more per run).
func drawCurve(t *rapid.T, w []int) string {
	total := 0
	for _, x := range w {
		total += x
	}
	k := drawUniform(t, total, "curve")
	for i, x := range w {
		if k < x {
			return curveNames[i]
		}
		k -= x
	}
	return curveNames[1]
}

func runProtocol(cs RunCase) ev.Outcome {
	unit := "protocol"
	if cs.Mask != 0 {
		unit = "restart"
	}
	c := curveByName(cs.Curve)
	if c == nil {
		return ev.Outcome{Skip: "unknown curve"}
	}
	a, err := parse32(cs.A)
	if err != nil {
		return ev.Outcome{Skip: "bad input a"}
	}
	b, err := parse32(cs.B)
	if err != nil {
		return ev.Outcome{Skip: "bad input b"}
	}
	want := refHash(a, b)

	through := func(i int, v interface{}) (interface{}, *ev.Outcome) {
		if cs.Mask>>uint(i)&1 == 0 {
			return v, nil
		}
		dec, _, sig, msg := roundTrip(kinds[i], c, v)
		if sig != "" {
			o := ev.Fail("restart/"+sig, "mask %05b, %s: %s", cs.Mask, cs.Curve, msg)
			return nil, &o
		}
		return dec, nil
	}

	r1, gs, err := sha2pc.GarblerRound1(gen.NewDRBG(cs.Seed, streamG1), c)
	if err != nil {
		return ev.Fail(unit+"/round1-error", "GarblerRound1(%s): %v", cs.Curve, err)
	}
	v, o := through(0, r1)
	if o != nil {
		return *o
	}
	r1 = v.(sha2pc.Round1Payload)
	v, o = through(1, gs)
	if o != nil {
		return *o
	}
	gs = v.(*sha2pc.GarblerSession)

	r2, es, err := sha2pc.EvaluatorRound2(gen.NewDRBG(cs.Seed, streamE2), c, r1, b)
	if err != nil {
		return ev.Fail(unit+"/round2-error", "EvaluatorRound2(%s) mask %05b: %v", cs.Curve, cs.Mask, err)
	}
	v, o = through(2, r2)
	if o != nil {
		return *o
	}
	r2 = v.(sha2pc.Round2Payload)
	v, o = through(3, es)
	if o != nil {
		return *o
	}
	es = v.(*sha2pc.EvaluatorSession)

	r3, err := sha2pc.GarblerRound3(gen.NewDRBG(cs.Seed, streamG3), c, gs, a, r2)
	if err != nil {
		return ev.Fail(unit+"/round3-error", "GarblerRound3(%s) mask %05b: %v", cs.Curve, cs.Mask, err)
	}
	v, o = through(4, r3)
	if o != nil {
		return *o
	}
	r3 = v.(sha2pc.Round3Payload)

	got, err := sha2pc.EvaluatorRound4(c, es, r3)
	if err != nil {
		return ev.Fail(unit+"/round4-error", "EvaluatorRound4(%s) mask %05b: %v", cs.Curve, cs.Mask, err)
	}
	if got != want {
		return ev.Fail(unit+"/wrong-hash", "curve %s mask %05b a=%s b=%s: evaluator output %x, SHA-256(a xor b) = %x",
			cs.Curve, cs.Mask, cs.A, cs.B, got, want)
	}
	classes := []string{"curve=" + cs.Curve, "ab=" + cs.AB}
	if cs.Mask != 0 {
		classes = append(classes, fmt.Sprintf("restarts=%d", bits.OnesCount(uint(cs.Mask))))
		for i, k := range kinds {
			if cs.Mask>>uint(i)&1 == 1 {
				classes = append(classes, "via-bytes="+k)
			}
		}
		if cs.Mask&0b01010 == 0b01010 {
			classes = append(classes, "both-sessions-restored")
		}
	}
	return ev.OK(true, classes...)
}

func TestProtocol(t *testing.T) {
	ev.Check(t, ev.Get(prop), "protocol", genProtocolCase, runProtocol)
}

func TestRestart(t *testing.T) {
	ev.Check(t, ev.Get(prop), "restart", genRestartCase, runProtocol)
}

// TestRestartAll enumerates every restart mask (1..31) on every curve; the
// inputs and the seed of each run come from a DRBG keyed by the run's index.
// VERIF_N bounds the number of curves (1 = P-256 only, 4 = all).
func TestRestartAll(t *testing.T) {
	col := ev.Get(prop)
	ncurves := col.N(1, 4)
	order := []string{"P-256", "P-224", "P-384", "P-521"}
	if ncurves > len(order) {
		ncurves = len(order)
	}
	shard, nshards := ev.Shard()
	idx := 0
	ev.Each(t, col, "restart", func(yield func(RunCase) bool) {
		for ci := 0; ci < ncurves; ci++ {
			for mask := 1; mask <= 31; mask++ {
				idx++
				if idx%nshards != shard {
					continue
				}
				d := gen.NewDRBG(uint64(col.Seed), uint64(1000+idx))
				var a, b [32]byte
				d.Read(a[:])
				d.Read(b[:])
				yield(RunCase{Curve: order[ci], Seed: d.Uint64(), AB: "random",
					A: hex.EncodeToString(a[:]), B: hex.EncodeToString(b[:]), Mask: mask})
			}
		}
	}, runProtocol)
	col.Note("restart-all: all 31 non-zero restart masks enumerated on %d curve(s)", ncurves)
}
