package c18

// Unit interleave: several sessions of one garbler process whose rounds are
// interleaved.  All sessions run rounds 1 and 2, then GarblerRound3 is called
// for every session in turn, and only afterwards the round-3 messages are
// (optionally encoded, decoded and) evaluated, in a drawn order.  A round-3
// payload must stay valid while the garbler serves other sessions: nothing in
// it may alias state that a later GarblerRound3 call reuses.

import (
	"fmt"
	"testing"

	"github.com/markkurossi/mpc/sha2pc"
	"pgregory.net/rapid"

	"verifharness/internal/ev"
	"verifharness/internal/gen"
)

// InterCase is one interleaving.
type InterCase struct {
	Curve  string   `json:"curve"`
	Seeds  []uint64 `json:"seeds"`  // one session per seed
	Order  []int    `json:"order"`  // evaluation order (indices into Seeds)
	Encode bool     `json:"encode"` // round-3 messages go through Encode/Decode before round 4
}

func genInterleave(t *rapid.T) InterCase {
	cs := InterCase{Curve: drawCurve(t, []int{4, 3, 1, 1})}
	n := rapid.IntRange(2, 4).Draw(t, "sessions")
	for i := 0; i < n; i++ {
		cs.Seeds = append(cs.Seeds, rapid.Uint64().Draw(t, "seed"))
	}
	// A drawn permutation of the sessions.
	perm := make([]int, n)
	for i := range perm {
		perm[i] = i
	}
	for i := n - 1; i > 0; i-- {
		j := rapid.IntRange(0, i).Draw(t, "swap")
		perm[i], perm[j] = perm[j], perm[i]
	}
	cs.Order = perm
	cs.Encode = rapid.Bool().Draw(t, "encode")
	return cs
}

func runInterleave(cs InterCase) ev.Outcome {
	c := curveByName(cs.Curve)
	n := len(cs.Seeds)
	if c == nil || n < 1 || n > 8 || len(cs.Order) != n {
		return ev.Outcome{Skip: "malformed case"}
	}
	seen := map[int]bool{}
	for _, i := range cs.Order {
		if i < 0 || i >= n || seen[i] {
			return ev.Outcome{Skip: "order is not a permutation"}
		}
		seen[i] = true
	}
	type sess struct {
		a, b [32]byte
		gs   *sha2pc.GarblerSession
		es   *sha2pc.EvaluatorSession
		r2   sha2pc.Round2Payload
		r3   sha2pc.Round3Payload
	}
	ss := make([]sess, n)
	for i, seed := range cs.Seeds {
		s := &ss[i]
		d := gen.NewDRBG(seed, streamAB)
		d.Read(s.a[:])
		d.Read(s.b[:])
		r1, gs, err := sha2pc.GarblerRound1(gen.NewDRBG(seed, streamG1), c)
		if err != nil {
			return ev.Fail("interleave/round-error", "session %d: GarblerRound1: %v", i, err)
		}
		s.gs = gs
		s.r2, s.es, err = sha2pc.EvaluatorRound2(gen.NewDRBG(seed, streamE2), c, r1, s.b)
		if err != nil {
			return ev.Fail("interleave/round-error", "session %d: EvaluatorRound2: %v", i, err)
		}
	}
	for i, seed := range cs.Seeds {
		var err error
		ss[i].r3, err = sha2pc.GarblerRound3(gen.NewDRBG(seed, streamG3), c, ss[i].gs, ss[i].a, ss[i].r2)
		if err != nil {
			return ev.Fail("interleave/round-error", "session %d: GarblerRound3: %v", i, err)
		}
	}
	for _, i := range cs.Order {
		r3 := ss[i].r3
		if cs.Encode {
			enc, err := encodeKind("r3", c, r3)
			if err != nil {
				return ev.Fail("interleave/encode-error", "session %d: EncodeRound3: %v", i, err)
			}
			dec, err := decodeKind("r3", c, enc)
			if err != nil {
				return ev.Fail("interleave/decode-error", "session %d: DecodeRound3 of its own encoding: %v", i, err)
			}
			r3 = dec.(sha2pc.Round3Payload)
		}
		var out [32]byte
		err, psig, pmsg := callRound("EvaluatorRound4", "r3", func() error {
			var e error
			out, e = sha2pc.EvaluatorRound4(c, ss[i].es, r3)
			return e
		})
		if psig != "" {
			return ev.Fail("interleave/"+psig, "session %d of %d (GarblerRound3 ran for all sessions before any round 4): %s", i, n, pmsg)
		}
		if err != nil {
			return ev.Fail("interleave/round4-error", "session %d of %d, %s (GarblerRound3 ran for all sessions before any round 4): EvaluatorRound4: %v",
				i, n, cs.Curve, err)
		}
		if want := refHash(ss[i].a, ss[i].b); out != want {
			return ev.Fail("interleave/wrong-digest", "session %d of %d, %s: digest %x, SHA-256(a xor b) is %x", i, n, cs.Curve, out, want)
		}
	}
	out := ev.OK(true, "interleave:curve="+cs.Curve, fmt.Sprintf("interleave:sessions=%d", n),
		fmt.Sprintf("interleave:encoded=%v", cs.Encode))
	out.Evals = n
	return out
}

func init() { ev.Register("interleave", runInterleave) }

func TestInterleave(t *testing.T) {
	ev.Check(t, ev.Get(prop), "interleave", genInterleave, runInterleave)
}
