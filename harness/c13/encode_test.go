package c13

import (
	"fmt"
	"math/big"
	"testing"

	"pgregory.net/rapid"

	"verifharness/internal/ev"
)

// EncCase: one argument (plain or struct), one value per member.  Oracle 1:
// Parse(strings) and Set(values) put the bits of the reference encoder on
// wires [0, Type.Bits).
type EncCase struct {
	Ms     []Member `json:"members"`
	Struct bool     `json:"struct"` // flatten as a struct argument even with one member
	// Reuse: hand Set a non-nil, non-zero *big.Int to fill (documented: it is reset).
	Reuse bool `json:"reuse,omitempty"`
}

func init() { ev.Register("encode", runEncode) }

func genEncode(t *rapid.T) EncCase {
	var cs EncCase
	n := rapid.SampledFrom([]int{1, 1, 1, 2, 2, 3, 3, 4, 5, 6}).Draw(t, "members")
	for i := 0; i < n; i++ {
		cs.Ms = append(cs.Ms, drawMember(t, genOpts{}))
	}
	cs.Struct = n > 1 || rapid.IntRange(0, 4).Draw(t, "struct1") == 0
	cs.Reuse = rapid.IntRange(0, 3).Draw(t, "reuse") == 0
	return cs
}

// writtenBySet tells whether IOArg.Set is entitled to leave bit `bit` of the
// member untouched, i.e. the member's Go value provides no element there (a
// nil / short []byte for an array).
func noValueAt(m Member, ofs, bit int) bool {
	if !m.isArr() {
		return false
	}
	return bit >= ofs+len(m.El)*m.W
}

// specificSetSig tells whether classifySet recognised one of the two precise
// failure patterns of setInt (as opposed to the generic wrong-bits name).
func specificSetSig(s string) bool {
	return s == "set/int/writes-64-bits/pollutes-next-member" ||
		s == "set/int/no-sign-extension-above-64"
}

// classifySet names the failing site of a Set mismatch at bit `bit`.
func classifySet(ms []Member, offs []int, got, want *big.Int, bit int) string {
	k := memberAt(ms, bit)
	mk := ms[k]
	if got.Bit(bit) == 1 && want.Bit(bit) == 0 && noValueAt(mk, offs[k], bit) {
		// A one in the zero padding of an array: does it lie in the 64-bit
		// window of an earlier negative integer narrower than 64 bits?
		for j := 0; j < k; j++ {
			if ms[j].negative() && ms[j].W < 64 && bit >= offs[j]+ms[j].W && bit < offs[j]+64 {
				return "set/int/writes-64-bits/pollutes-next-member"
			}
		}
	}
	if mk.negative() && mk.W > 64 && bit >= offs[k]+64 &&
		got.Bit(bit) == 0 && want.Bit(bit) == 1 {
		return "set/int/no-sign-extension-above-64"
	}
	return "set/" + mk.Kind + "/wrong-bits"
}

func runEncode(cs EncCase) ev.Outcome {
	if len(cs.Ms) == 0 {
		return ev.Outcome{Skip: "empty case"}
	}
	for _, m := range cs.Ms {
		if why := m.valid(); why != "" {
			return ev.Outcome{Skip: "invalid case: " + why}
		}
	}
	compound := cs.Struct || len(cs.Ms) > 1
	arg := buildArg(cs.Ms, compound)
	offs, total := offsets(cs.Ms)
	want := encode(cs.Ms)
	if int(arg.Type.Bits) != total {
		return ev.Outcome{Skip: "harness: type size mismatch"}
	}
	var f fails

	// Textual form.
	in := strs(cs.Ms)
	got, err := arg.Parse(in)
	if err != nil {
		f.add("parse/error", "Parse(%q) on %s failed: %v", in, describe(cs.Ms), err)
	} else {
		sigs, first := diffBySig(got, want, 0, total, func(bit int) string {
			m := cs.Ms[memberAt(cs.Ms, bit)]
			if m.isArr() && m.Sp != "hex" {
				return "parse/" + m.Kind + "/non-hex-literal/wrong-bits"
			}
			return "parse/" + m.Kind + "/wrong-bits"
		})
		for _, sig := range sigs {
			d := first[sig]
			k := memberAt(cs.Ms, d)
			f.add(sig, "Parse(%q) on %s: wire %d (member %d, its bit %d) is %d, reference encoder gives %d\n got  %s\n want %s",
				in, describe(cs.Ms), d, k, d-offs[k], got.Bit(d), want.Bit(d),
				bitString(got, 0, total), bitString(want, 0, total))
		}
	}

	// Go-value form.
	canSet := settable(cs.Ms)
	if canSet {
		vals := goValues(cs.Ms)
		var dst *big.Int
		if cs.Reuse {
			dst, _ = new(big.Int).SetString("deadbeefdeadbeefdeadbeefdeadbeefdeadbeefdeadbeefdeadbeef", 16)
		}
		got, err := arg.Set(dst, vals)
		if err != nil {
			f.add("set/error", "Set(%v) on %s failed: %v", vals, describe(cs.Ms), err)
		} else {
			if cs.Reuse && got != dst {
				f.add("set/reuse/not-returned", "Set did not return the *big.Int it was given")
			}
			sigs, first := diffBySig(got, want, 0, total, func(bit int) string {
				return classifySet(cs.Ms, offs, got, want, bit)
			})
			for _, sig := range sigs {
				d := first[sig]
				k := memberAt(cs.Ms, d)
				f.add(sig, "Set on %s: wire %d (member %d, its bit %d) is %d, reference encoder gives %d\n got  %s\n want %s",
					describe(cs.Ms), d, k, d-offs[k], got.Bit(d), want.Bit(d),
					bitString(got, 0, total), bitString(want, 0, total))
			}
		}
	}
	if o, bad := f.pick(); bad {
		return o
	}
	classes, nontrivial := classesOf(cs.Ms, compound)
	if canSet {
		classes = append(classes, "set-checked")
	} else {
		classes = append(classes, "parse-only")
	}
	if cs.Reuse && canSet {
		classes = append(classes, "set-reuse")
	}
	out := ev.OK(nontrivial, classes...)
	out.Evals = 1
	if canSet {
		out.Evals = 2
	}
	return out
}

func TestEncode(t *testing.T) {
	ev.Check(t, ev.Get(prop), "encode", genEncode, runEncode)
}

// TestBoundary enumerates, for every width 1..130 and both signednesses, the
// boundary values (0, 1, -1, min, max, top bit, alternating patterns) in every
// spelling and every fitting Go type, alone and followed by an array member
// whose value is nil (the padding must stay zero).
func TestBoundary(t *testing.T) {
	col := ev.Get(prop)
	shard, nshards := ev.Shard()
	maxW := col.N(130, 130)
	idx := 0
	ev.Each(t, col, "encode", func(yield func(EncCase) bool) {
		for w := 1; w <= maxW; w++ {
			for _, signed := range []bool{false, true} {
				idx++
				if idx%nshards != shard {
					continue
				}
				kind := "uint"
				lo, hi := new(big.Int), new(big.Int).Sub(pow2(w), big.NewInt(1))
				if signed {
					kind = "int"
					lo = new(big.Int).Neg(pow2(w - 1))
					hi = new(big.Int).Sub(pow2(w-1), big.NewInt(1))
				}
				alt := new(big.Int)
				for i := 0; i < w; i += 2 {
					alt.SetBit(alt, i, 1)
				}
				cands := []*big.Int{big.NewInt(0), big.NewInt(1), big.NewInt(-1), big.NewInt(2),
					big.NewInt(3), big.NewInt(-2), big.NewInt(-3), lo, hi,
					new(big.Int).Add(lo, big.NewInt(1)), new(big.Int).Sub(hi, big.NewInt(1)),
					pow2(w - 1), alt, new(big.Int).Neg(alt)}
				seen := map[string]bool{}
				for _, v := range cands {
					if v.Cmp(lo) < 0 || v.Cmp(hi) > 0 || seen[v.String()] {
						continue
					}
					seen[v.String()] = true
					for _, sp := range []string{"dec", "hex", "HEX", "bin", "oct", "oct0", "plus"} {
						for _, pad := range []int{0, 2} {
							if pad > 0 && (sp == "dec" || sp == "plus") {
								continue
							}
							gos := []string{""}
							for _, g := range goInts {
								if fitsGo(v, g.signed, g.bits) {
									gos = append(gos, g.name)
								}
							}
							// every Go type only for the decimal spelling; one otherwise
							if sp != "dec" {
								gos = gos[len(gos)-1:]
							}
							for _, g := range gos {
								m := Member{Kind: kind, W: w, Val: v.String(), Sp: sp, Pad: pad, Go: g}
								yield(EncCase{Ms: []Member{m}})
								if sp == "dec" || sp == "hex" {
									tail := Member{Kind: "arr", W: 8, N: 9, Sp: "hex", Go: "nil"}
									flag := Member{Kind: "bool", Val: "1", Sp: "num", Go: "bool"}
									yield(EncCase{Ms: []Member{m, tail}, Struct: true})
									yield(EncCase{Ms: []Member{flag, m, flag, tail, m}, Struct: true})
								}
							}
						}
					}
				}
			}
		}
	}, runEncode)
	col.Note("boundary sub-run (encode): widths 1..%d x {intN,uintN} x {0,±1,±2,±3,min,min+1,max,max-1,2^(N-1),0101..} x 7 spellings x every fitting Go type, alone and inside a struct before a [9]byte member given as nil", maxW)
}

var _ = fmt.Sprint
