// C13: input and output value encoding is lossless and consistent.
//
// This file holds the harness' own model of an input value: a list of
// "members" (the flattened fields of one main() argument), their textual
// spelling, their Go-value form, and the reference encoder (little-endian
// two's complement per element, elements and fields in declaration order).
// Nothing here calls the code under test except the trivial constructors of
// types.Info / circuit.IOArg.
package c13

import (
	"fmt"
	"math/big"
	"strings"

	"github.com/markkurossi/mpc/circuit"
	"github.com/markkurossi/mpc/types"
	"pgregory.net/rapid"

	"verifharness/internal/ev"
)

const prop = "C13"

// Member is one flattened member of an input argument together with one value
// in all of its forms.
type Member struct {
	Kind  string `json:"kind"`            // bool | int | uint | arr | slice
	W     int    `json:"w,omitempty"`     // scalar width, or element width of arr/slice
	ElInt bool   `json:"elint,omitempty"` // element type is intW (else uintW)
	N     int    `json:"n,omitempty"`     // declared element count (slice: == len(El))
	// Unsized: the declared type carries no size (int, uint; slices always are).
	// Only used by the sizes unit.
	Unsized bool `json:"unsized,omitempty"`

	Val string   `json:"val,omitempty"` // scalar value in decimal (bool: 0 / 1)
	El  []string `json:"el,omitempty"`  // provided element bit patterns (hex), len <= N

	Sp  string `json:"sp,omitempty"`  // spelling of the textual form
	Pad int    `json:"pad,omitempty"` // extra leading zero digits (prefixed spellings)
	Go  string `json:"go,omitempty"`  // Go form for Set: int8..uint64 | bool | bytes | nil | "" (none)
}

func (m Member) isArr() bool    { return m.Kind == "arr" || m.Kind == "slice" }
func (m Member) isScalar() bool { return m.Kind == "int" || m.Kind == "uint" }

func (m Member) count() int {
	if m.Kind == "slice" {
		return len(m.El)
	}
	return m.N
}

func (m Member) bits() int {
	switch m.Kind {
	case "bool":
		return 1
	case "int", "uint":
		return m.W
	default:
		return m.count() * m.W
	}
}

func (m Member) value() *big.Int {
	v, ok := new(big.Int).SetString(m.Val, 10)
	if !ok {
		panic("bad case: scalar value " + m.Val)
	}
	return v
}

func (m Member) negative() bool {
	return m.Kind == "int" && m.value().Sign() < 0
}

func (m Member) elems() []*big.Int {
	res := make([]*big.Int, len(m.El))
	for i, e := range m.El {
		v, ok := new(big.Int).SetString(e, 16)
		if !ok {
			panic("bad case: element " + e)
		}
		res[i] = v
	}
	return res
}

func pow2(n int) *big.Int { return new(big.Int).Lsh(big.NewInt(1), uint(n)) }

// valid tells whether the member is internally consistent (replay files could
// be edited by hand; generated cases always are).
func (m Member) valid() string {
	switch m.Kind {
	case "bool":
		if m.Val != "0" && m.Val != "1" {
			return "bool value"
		}
	case "int":
		v := m.value()
		if m.W < 1 || v.Cmp(pow2(m.W-1)) >= 0 || v.Cmp(new(big.Int).Neg(pow2(m.W-1))) < 0 {
			return "int value out of range"
		}
	case "uint":
		v := m.value()
		if m.W < 1 || v.Sign() < 0 || v.Cmp(pow2(m.W)) >= 0 {
			return "uint value out of range"
		}
	case "arr", "slice":
		if m.W < 1 || len(m.El) > m.count() {
			return "array shape"
		}
		for _, e := range m.elems() {
			if e.Sign() < 0 || e.Cmp(pow2(m.W)) >= 0 {
				return "element out of range"
			}
		}
		if m.Sp == "hex" && m.W%4 != 0 {
			return "hex spelling needs a nibble-aligned element width"
		}
		if m.Sp != "hex" && len(m.El) > 0 && m.elems()[0].Sign() == 0 {
			return "non-hex array spelling needs a non-zero first element"
		}
	default:
		return "kind"
	}
	return ""
}

// ---------------------------------------------------------------------------
// Textual form.

func spellInt(v *big.Int, sp string, pad int) string {
	abs := new(big.Int).Abs(v)
	sign := ""
	if v.Sign() < 0 {
		sign = "-"
	}
	z := strings.Repeat("0", pad)
	switch sp {
	case "hex":
		return sign + "0x" + z + abs.Text(16)
	case "HEX":
		return sign + "0X" + z + strings.ToUpper(abs.Text(16))
	case "bin":
		return sign + "0b" + z + abs.Text(2)
	case "oct":
		return sign + "0o" + z + abs.Text(8)
	case "oct0":
		return sign + "0" + z + abs.Text(8)
	case "plus":
		if sign == "" {
			return "+" + abs.Text(10)
		}
		return sign + abs.Text(10)
	default:
		return sign + abs.Text(10)
	}
}

// arrayInteger is the integer whose base-2^W digits, most significant first,
// are the provided elements.
func (m Member) arrayInteger() *big.Int {
	v := new(big.Int)
	for _, e := range m.elems() {
		v.Lsh(v, uint(m.W))
		v.Or(v, e)
	}
	return v
}

// str renders the textual form handed to IOArg.Parse.
func (m Member) str() string {
	switch m.Kind {
	case "bool":
		one := m.Val == "1"
		switch m.Sp {
		case "short":
			if one {
				return "t"
			}
			return "f"
		case "long":
			if one {
				return "true"
			}
			return "false"
		default:
			return m.Val
		}
	case "int", "uint":
		return spellInt(m.value(), m.Sp, m.Pad)
	default:
		if len(m.El) == 0 {
			if m.Sp == "under" && m.Kind == "arr" && m.N == 0 {
				return "_"
			}
			return "0"
		}
		if m.Sp == "hex" {
			s := "0x"
			for _, e := range m.elems() {
				s += fmt.Sprintf("%0*s", m.W/4, e.Text(16))
			}
			return s
		}
		return spellInt(m.arrayInteger(), m.Sp, 0)
	}
}

// ---------------------------------------------------------------------------
// Go-value form.

var goInts = []struct {
	name   string
	signed bool
	bits   int
}{
	{"int8", true, 8}, {"uint8", false, 8}, {"int16", true, 16}, {"uint16", false, 16},
	{"int32", true, 32}, {"uint32", false, 32}, {"int64", true, 64}, {"uint64", false, 64},
}

func fitsGo(v *big.Int, signed bool, bits int) bool {
	if signed {
		return v.Cmp(pow2(bits-1)) < 0 && v.Cmp(new(big.Int).Neg(pow2(bits-1))) >= 0
	}
	return v.Sign() >= 0 && v.Cmp(pow2(bits)) < 0
}

// goValue returns the value handed to IOArg.Set / circuit.Sizes.
func (m Member) goValue() (interface{}, bool) {
	switch m.Go {
	case "":
		return nil, false
	case "nil":
		return nil, true
	case "bool":
		return m.Val == "1", true
	case "bytes":
		b := make([]byte, len(m.El))
		for i, e := range m.elems() {
			b[i] = byte(e.Uint64())
		}
		return b, true
	}
	v := m.value()
	switch m.Go {
	case "int8":
		return int8(v.Int64()), true
	case "uint8":
		return uint8(v.Uint64()), true
	case "int16":
		return int16(v.Int64()), true
	case "uint16":
		return uint16(v.Uint64()), true
	case "int32":
		return int32(v.Int64()), true
	case "uint32":
		return uint32(v.Uint64()), true
	case "int64":
		return v.Int64(), true
	case "uint64":
		return v.Uint64(), true
	}
	panic("bad case: go form " + m.Go)
}

func settable(ms []Member) bool {
	for _, m := range ms {
		if m.Go == "" {
			return false
		}
	}
	return true
}

func strs(ms []Member) []string {
	res := make([]string, len(ms))
	for i, m := range ms {
		res[i] = m.str()
	}
	return res
}

func goValues(ms []Member) []interface{} {
	res := make([]interface{}, len(ms))
	for i, m := range ms {
		res[i], _ = m.goValue()
	}
	return res
}

// ---------------------------------------------------------------------------
// Types as the compiler builds them (compiler/ast: TypeInfo.Resolve,
// defineType, flattenStruct).

func scalarInfo(signed bool, w int) types.Info {
	t := types.TUint
	if signed {
		t = types.TInt
	}
	return types.Info{Type: t, IsConcrete: true, Bits: types.Size(w), MinBits: types.Size(w)}
}

func (m Member) info() types.Info {
	switch m.Kind {
	case "bool":
		return types.Bool
	case "int":
		return scalarInfo(true, m.W)
	case "uint":
		return scalarInfo(false, m.W)
	default:
		el := scalarInfo(m.ElInt, m.W)
		t := types.TArray
		if m.Kind == "slice" {
			t = types.TSlice
		}
		return types.Info{Type: t, IsConcrete: true,
			Bits: types.Size(m.bits()), MinBits: types.Size(m.bits()),
			ElementType: &el, ArraySize: types.Size(m.count())}
	}
}

// buildArg builds the IOArg of one main() argument: a plain argument, or a
// struct argument flattened into Compound.
func buildArg(ms []Member, asStruct bool) circuit.IOArg {
	if !asStruct && len(ms) == 1 {
		return circuit.IOArg{Name: "a", Type: ms[0].info()}
	}
	var fields []types.StructField
	var compound circuit.IO
	var ofs int
	for i, m := range ms {
		inf := m.info()
		inf.Offset = types.Size(ofs)
		name := fmt.Sprintf("f%d", i)
		fields = append(fields, types.StructField{Name: name, Type: inf})
		compound = append(compound, circuit.IOArg{Name: name, Type: inf})
		ofs += m.bits()
	}
	return circuit.IOArg{
		Name: "g",
		Type: types.Info{Type: types.TStruct, IsConcrete: true,
			Bits: types.Size(ofs), MinBits: types.Size(ofs), Struct: fields},
		Compound: compound,
	}
}

// ---------------------------------------------------------------------------
// Reference encoder.

func offsets(ms []Member) ([]int, int) {
	offs := make([]int, len(ms))
	var ofs int
	for i, m := range ms {
		offs[i] = ofs
		ofs += m.bits()
	}
	return offs, ofs
}

func putBits(dst *big.Int, v *big.Int, ofs, w int) {
	// v may be negative: big.Int.Bit uses two's complement, but do not rely on
	// it; reduce modulo 2^w with math/big arithmetic.
	r := new(big.Int).Mod(v, pow2(w)) // Euclidean: 0 <= r < 2^w
	for i := 0; i < w; i++ {
		dst.SetBit(dst, ofs+i, r.Bit(i))
	}
}

// encode is the specification: members in declaration order, each scalar
// little-endian two's complement in its width, each array element i at
// i*elementWidth, missing trailing elements zero.
func encode(ms []Member) *big.Int {
	res := new(big.Int)
	offs, _ := offsets(ms)
	for i, m := range ms {
		switch m.Kind {
		case "bool", "int", "uint":
			putBits(res, m.value(), offs[i], m.bits())
		default:
			for j, e := range m.elems() {
				putBits(res, e, offs[i]+j*m.W, m.W)
			}
		}
	}
	return res
}

// firstDiff compares bits [from, to) of a and b (either may be negative: the
// consumers of an input value read it with big.Int.Bit).
func firstDiff(a, b *big.Int, from, to int) int {
	for i := from; i < to; i++ {
		if a.Bit(i) != b.Bit(i) {
			return i
		}
	}
	return -1
}

// diffBySig walks every differing bit in [from, to) and returns the first bit
// of every distinct signature name(bit), in order of appearance, so that a
// known failure pattern does not mask a different one further up.
func diffBySig(a, b *big.Int, from, to int, name func(bit int) string) ([]string, map[string]int) {
	var sigs []string
	first := map[string]int{}
	for i := from; i < to; i++ {
		if a.Bit(i) != b.Bit(i) {
			s := name(i)
			if _, ok := first[s]; !ok {
				first[s] = i
				sigs = append(sigs, s)
			}
		}
	}
	return sigs, first
}

func bitString(v *big.Int, from, to int) string {
	var sb strings.Builder
	for i := to - 1; i >= from; i-- {
		if v.Bit(i) == 1 {
			sb.WriteByte('1')
		} else {
			sb.WriteByte('0')
		}
	}
	if sb.Len() > 200 {
		return sb.String()[:200] + "…"
	}
	return sb.String()
}

// memberAt returns the index of the member whose wire range contains bit.
func memberAt(ms []Member, bit int) int {
	offs, _ := offsets(ms)
	for i := range ms {
		if bit >= offs[i] && bit < offs[i]+ms[i].bits() {
			return i
		}
	}
	return len(ms) - 1
}

func describe(ms []Member) string {
	var parts []string
	for _, m := range ms {
		var t string
		switch m.Kind {
		case "bool":
			t = "bool"
		case "int", "uint":
			t = fmt.Sprintf("%s%d", m.Kind, m.W)
		case "arr":
			t = fmt.Sprintf("[%d]%s%d", m.N, map[bool]string{true: "int", false: "uint"}[m.ElInt], m.W)
		default:
			t = fmt.Sprintf("[]%s%d(len %d)", map[bool]string{true: "int", false: "uint"}[m.ElInt], m.W, len(m.El))
		}
		gv, ok := m.goValue()
		g := "-"
		if ok {
			g = fmt.Sprintf("%T(%v)", gv, gv)
		}
		parts = append(parts, fmt.Sprintf("%s %q %s", t, m.str(), g))
	}
	return "{" + strings.Join(parts, "; ") + "}"
}

// ---------------------------------------------------------------------------
// Known-finding aware failure selection: a case may violate several claims;
// the first one that is not an open known finding decides, so the search
// carries on behind known findings.

type fails struct {
	list []ev.Outcome
}

func (f *fails) add(sig, format string, a ...interface{}) {
	f.list = append(f.list, ev.Fail(sig, format, a...))
}

func (f *fails) pick() (ev.Outcome, bool) {
	if len(f.list) == 0 {
		return ev.Outcome{}, false
	}
	col := ev.Get(prop)
	for _, o := range f.list {
		if !col.IsKnown(o.Sig) {
			return o, true
		}
	}
	return f.list[0], true
}

// ---------------------------------------------------------------------------
// Generators (every choice is a rapid draw).

var edgeWidths = []int{1, 2, 3, 4, 5, 7, 8, 9, 12, 15, 16, 17, 24, 31, 32, 33,
	48, 63, 64, 65, 66, 96, 127, 128, 129, 130}

func drawWidth(t *rapid.T, label string) int {
	if rapid.IntRange(0, 9).Draw(t, label+"-edge") < 6 {
		return rapid.SampledFrom(edgeWidths).Draw(t, label)
	}
	return rapid.IntRange(1, 130).Draw(t, label)
}

// drawBig draws a uniformly random non-negative integer below 2^bits.
func drawBig(t *rapid.T, bits int, label string) *big.Int {
	if bits <= 0 {
		return new(big.Int)
	}
	n := (bits + 7) / 8
	b := rapid.SliceOfN(rapid.Byte(), n, n).Draw(t, label)
	v := new(big.Int).SetBytes(b)
	return v.Mod(v, pow2(bits))
}

func clamp(v, lo, hi *big.Int) *big.Int {
	if v.Cmp(lo) < 0 {
		return new(big.Int).Set(lo)
	}
	if v.Cmp(hi) > 0 {
		return new(big.Int).Set(hi)
	}
	return v
}

// drawScalar draws a value of intW / uintW with emphasis on the edges.
func drawScalar(t *rapid.T, signed bool, w int) *big.Int {
	lo, hi := new(big.Int), new(big.Int).Sub(pow2(w), big.NewInt(1))
	if signed {
		lo = new(big.Int).Neg(pow2(w - 1))
		hi = new(big.Int).Sub(pow2(w-1), big.NewInt(1))
	}
	var v *big.Int
	switch rapid.SampledFrom([]string{"zero", "one", "minus1", "min", "max", "top",
		"small", "negsmall", "rand", "rand", "negrand", "negrand"}).Draw(t, "vclass") {
	case "zero":
		v = new(big.Int)
	case "one":
		v = big.NewInt(1)
	case "minus1":
		v = big.NewInt(-1)
	case "min":
		v = new(big.Int).Set(lo)
	case "max":
		v = new(big.Int).Set(hi)
	case "top":
		// only the top magnitude bit set
		if signed {
			if w >= 2 {
				v = pow2(w - 2)
			} else {
				v = new(big.Int)
			}
		} else {
			v = pow2(w - 1)
		}
	case "small":
		v = big.NewInt(int64(rapid.IntRange(2, 300).Draw(t, "small")))
	case "negsmall":
		v = big.NewInt(-int64(rapid.IntRange(2, 300).Draw(t, "small")))
	case "rand":
		v = drawBig(t, w, "rand")
		if signed {
			v.Rsh(v, 1)
		}
	default:
		v = drawBig(t, w, "rand")
		v.Rsh(v, 1)
		v.Neg(v)
		v.Sub(v, big.NewInt(1))
	}
	return clamp(v, lo, hi)
}

type genOpts struct {
	// sizes unit: draw Unsized flags, "_" spelling, byte slices preferred.
	sizes bool
}

// drawShape draws the declared type of a member.
func drawShape(t *rapid.T, o genOpts) Member {
	var m Member
	m.Kind = rapid.SampledFrom([]string{"int", "int", "int", "uint", "uint", "uint",
		"bool", "arr", "arr", "arr", "slice"}).Draw(t, "kind")
	switch m.Kind {
	case "bool":
	case "int", "uint":
		m.W = drawWidth(t, "w")
		if o.sizes {
			m.Unsized = rapid.IntRange(0, 9).Draw(t, "unsized") < 7
		}
	default:
		if rapid.IntRange(0, 9).Draw(t, "elclass") < 6 {
			m.W = rapid.SampledFrom([]int{8, 8, 8, 16, 32, 64}).Draw(t, "elw")
		} else {
			m.W = drawWidth(t, "elw")
		}
		m.ElInt = rapid.IntRange(0, 3).Draw(t, "elint") == 0
		m.N = rapid.IntRange(0, 6).Draw(t, "n")
		if m.Kind == "slice" {
			m.Unsized = true
			if o.sizes && rapid.IntRange(0, 9).Draw(t, "byteslice") < 6 {
				m.W = 8
			}
		}
	}
	return m
}

// drawValue fills in a value (all forms) for the declared type of m.  For a
// slice the number of elements m.N is part of the shape and is kept.
func drawValue(t *rapid.T, m Member, o genOpts) Member {
	m.Val, m.El, m.Sp, m.Pad, m.Go = "", nil, "", 0, ""
	switch m.Kind {
	case "bool":
		m.Val = rapid.SampledFrom([]string{"0", "1"}).Draw(t, "bool")
		m.Sp = rapid.SampledFrom([]string{"num", "short", "long"}).Draw(t, "sp")
		m.Go = "bool"

	case "int", "uint":
		signed := m.Kind == "int"
		v := drawScalar(t, signed, m.W)
		m.Val = v.String()
		m.Sp = rapid.SampledFrom([]string{"dec", "dec", "dec", "dec", "hex", "hex", "hex",
			"HEX", "bin", "bin", "oct", "oct0", "plus"}).Draw(t, "sp")
		if m.Sp != "dec" && m.Sp != "plus" && rapid.IntRange(0, 3).Draw(t, "padq") == 0 {
			m.Pad = rapid.IntRange(1, 3).Draw(t, "pad")
		}
		var cands, match []string
		for _, g := range goInts {
			if fitsGo(v, g.signed, g.bits) {
				cands = append(cands, g.name)
				if g.signed == signed {
					match = append(match, g.name)
				}
			}
		}
		if len(match) > 0 && rapid.IntRange(0, 9).Draw(t, "gomatch") < 7 {
			m.Go = rapid.SampledFrom(match).Draw(t, "go")
		} else if len(cands) > 0 {
			m.Go = rapid.SampledFrom(cands).Draw(t, "go")
		}

	default:
		c := m.N
		if m.Kind == "arr" && m.N > 0 {
			switch q := rapid.IntRange(0, 9).Draw(t, "provided"); {
			case q < 5:
			case q < 8:
				c = rapid.IntRange(0, m.N-1).Draw(t, "short")
			default:
				c = 0
			}
		}
		limit := m.W
		if limit > 8 && rapid.IntRange(0, 9).Draw(t, "bytesonly") < 6 {
			limit = 8
		}
		hexOK := m.W%4 == 0
		m.Sp = rapid.SampledFrom([]string{"hex", "hex", "hex", "hex", "hex", "hex", "dec", "bin",
			"oct"}).Draw(t, "sp")
		if !hexOK && m.Sp == "hex" {
			m.Sp = rapid.SampledFrom([]string{"dec", "bin", "oct"}).Draw(t, "sp2")
		}
		small := true
		for i := 0; i < c; i++ {
			var e *big.Int
			switch rapid.SampledFrom([]string{"zero", "max", "rand", "rand", "rand"}).Draw(t, "eclass") {
			case "zero":
				e = new(big.Int)
			case "max":
				e = new(big.Int).Sub(pow2(limit), big.NewInt(1))
			default:
				e = drawBig(t, limit, "el")
			}
			if i == 0 && m.Sp != "hex" && e.Sign() == 0 {
				e = big.NewInt(1)
			}
			if e.Cmp(big.NewInt(256)) >= 0 {
				small = false
			}
			m.El = append(m.El, e.Text(16))
		}
		switch {
		case c == 0 && m.W >= 8:
			m.Go = rapid.SampledFrom([]string{"nil", "bytes"}).Draw(t, "go")
		case c == 0:
			m.Go = "nil"
		case m.W >= 8 && small:
			m.Go = "bytes"
		}
		if c == 0 && (o.sizes || (m.Kind == "arr" && m.N == 0)) && rapid.Bool().Draw(t, "under") {
			// "_" = no value (InputSizes; Parse accepts it for [0]T only and
			// gets "0" otherwise, see sizeStr).
			m.Sp = "under"
		}
	}
	return m
}

func drawMember(t *rapid.T, o genOpts) Member {
	return drawValue(t, drawShape(t, o), o)
}

// classesOf labels a member list for the distribution statistics and tells
// whether the case is non-trivial by the rule of DESIGN.md §4 C13.
func classesOf(ms []Member, compound bool) ([]string, bool) {
	set := map[string]bool{}
	nontrivial := len(ms) >= 2
	if compound {
		set["compound"] = true
	} else {
		set["plain"] = true
	}
	switch {
	case len(ms) == 1:
		set["members=1"] = true
	case len(ms) <= 3:
		set["members=2-3"] = true
	default:
		set["members>=4"] = true
	}
	for i, m := range ms {
		set["kind="+m.Kind] = true
		switch m.Kind {
		case "int", "uint":
			set["sp="+m.Sp] = true
			if m.W > 64 {
				set["w>64"] = true
				nontrivial = true
			}
			v := m.value()
			if v.Sign() < 0 {
				set["negative"] = true
				nontrivial = true
				if m.W < 64 && i+1 < len(ms) {
					set["neg-narrow-then-member"] = true
					if n := ms[i+1]; n.isArr() && len(n.El) == 0 && n.bits() > 0 {
						set["neg-narrow-then-empty-array-value"] = true
					}
				}
			}
			if m.Kind == "uint" && v.Bit(m.W-1) == 1 {
				set["top-bit"] = true
				nontrivial = true
			}
			if m.Pad > 0 {
				set["leading-zeros"] = true
			}
		case "arr", "slice":
			set["arr-sp="+m.Sp] = true
			if m.count() == 0 {
				set["zero-length-array"] = true
			} else if len(m.El) == 0 {
				set["array-no-elements-given"] = true
				nontrivial = true
			} else if len(m.El) < m.count() {
				set["short-array-literal"] = true
				nontrivial = true
			}
			if m.W%8 != 0 {
				set["el-width-odd"] = true
			}
			if m.W > 64 {
				set["w>64"] = true
				nontrivial = true
			}
		}
	}
	var res []string
	for k := range set {
		res = append(res, k)
	}
	// deterministic order
	for i := 1; i < len(res); i++ {
		for j := i; j > 0 && res[j] < res[j-1]; j-- {
			res[j], res[j-1] = res[j-1], res[j]
		}
	}
	return res, nontrivial
}
