package c13

import (
	"fmt"
	"math/big"
	"testing"

	"github.com/markkurossi/mpc/circuit"
	"github.com/markkurossi/mpc/types"
	"pgregory.net/rapid"

	"verifharness/internal/ev"
)

// Node is a field of the argument's struct type: a leaf or a nested struct of
// leaves (flattenStruct flattens nested structs into one member list; the
// values and the sizes are given per flattened member).
type Node struct {
	M   *Member  `json:"m,omitempty"`
	Sub []Member `json:"sub,omitempty"`
}

// SizeCase: one main() argument whose declared type may lack sizes (int, uint,
// []T).  Oracle 3: the sizes inferred from the textual values (InputSizes) and
// from the Go values (Sizes), put into the type with InstantiateWithSizes as
// compiler/ast does, give every flattened member the size inferred for *its*
// value, that size can hold the value, Parse / Set into the instantiated type
// equal the reference encoder, and both inference functions agree on canonical
// spellings.
type SizeCase struct {
	Nodes  []Node `json:"nodes"`
	Struct bool   `json:"struct"`
}

func init() { ev.Register("sizes", runSizes) }

func genSizes(t *rapid.T) SizeCase {
	var cs SizeCase
	o := genOpts{sizes: true}
	n := rapid.SampledFrom([]int{1, 1, 2, 2, 3, 4}).Draw(t, "nodes")
	for i := 0; i < n; i++ {
		if rapid.IntRange(0, 3).Draw(t, "nested") == 0 {
			k := rapid.IntRange(1, 3).Draw(t, "sub")
			var sub []Member
			for j := 0; j < k; j++ {
				sub = append(sub, drawMember(t, o))
			}
			cs.Nodes = append(cs.Nodes, Node{Sub: sub})
		} else {
			m := drawMember(t, o)
			cs.Nodes = append(cs.Nodes, Node{M: &m})
		}
	}
	cs.Struct = n > 1 || cs.Nodes[0].M == nil || rapid.IntRange(0, 4).Draw(t, "struct1") == 0
	return cs
}

func (cs SizeCase) leaves() (ms []Member, afterNested []bool) {
	nested := false
	for _, n := range cs.Nodes {
		if n.M != nil {
			ms = append(ms, *n.M)
			afterNested = append(afterNested, nested)
			continue
		}
		for range n.Sub {
			afterNested = append(afterNested, nested)
		}
		ms = append(ms, n.Sub...)
		if len(n.Sub) != 1 {
			nested = true
		}
	}
	return
}

// declInfo is the member's type as the compiler resolves the declaration
// (types.Parse("int") / TypeInfo.Resolve for slices): no size yet.
func (m Member) declInfo() types.Info {
	switch {
	case m.isScalar() && m.Unsized:
		if m.Kind == "int" {
			return types.Info{Type: types.TInt}
		}
		return types.Info{Type: types.TUint}
	case m.Kind == "slice":
		el := scalarInfo(m.ElInt, m.W)
		return types.Info{Type: types.TSlice, ElementType: &el}
	}
	return m.info()
}

// badOffset looks for a struct field (at any depth) whose Offset is not the
// sum of the widths of the fields before it in its struct.
func badOffset(t types.Info, path string) (string, int, int, bool) {
	if t.Type != types.TStruct {
		return "", 0, 0, false
	}
	var ofs types.Size
	for _, fld := range t.Struct {
		name := path + "." + fld.Name
		if fld.Type.Offset != ofs {
			return name, int(fld.Type.Offset), int(ofs), true
		}
		if where, got, want, bad := badOffset(fld.Type, name); bad {
			return where, got, want, true
		}
		ofs += fld.Type.Bits
	}
	return "", 0, 0, false
}

func structInfo(fields []types.StructField) types.Info {
	var bits, minBits, ofs types.Size
	for i := range fields {
		fields[i].Type.Offset = ofs
		bits += fields[i].Type.Bits
		minBits += fields[i].Type.MinBits
		ofs += fields[i].Type.Bits
	}
	return types.Info{Type: types.TStruct, IsConcrete: true, Bits: bits,
		MinBits: minBits, Struct: fields}
}

// declType builds the declared (possibly unsized) type of the argument.
func (cs SizeCase) declType() types.Info {
	if !cs.Struct && len(cs.Nodes) == 1 && cs.Nodes[0].M != nil {
		return cs.Nodes[0].M.declInfo()
	}
	var fields []types.StructField
	for i, n := range cs.Nodes {
		name := fmt.Sprintf("f%d", i)
		if n.M != nil {
			fields = append(fields, types.StructField{Name: name, Type: n.M.declInfo()})
			continue
		}
		var sub []types.StructField
		for j, m := range n.Sub {
			sub = append(sub, types.StructField{Name: fmt.Sprintf("%s_%d", name, j),
				Type: m.declInfo()})
		}
		fields = append(fields, types.StructField{Name: name, Type: structInfo(sub)})
	}
	return structInfo(fields)
}

// flatten mirrors compiler/ast flattenStruct.
func flatten(t types.Info) circuit.IO {
	var res circuit.IO
	for _, f := range t.Struct {
		if f.Type.Type == types.TStruct {
			res = append(res, flatten(f.Type)...)
		} else {
			res = append(res, circuit.IOArg{Name: f.Name, Type: f.Type})
		}
	}
	return res
}

func ceilDiv(a, b int) int { return (a + b - 1) / b }

// sizeStr is the string InputSizes sees ("_" = no value, documented by
// TestInputSizes and the test suite annotations; Parse gets "0" for it).
func sizeStr(m Member) string {
	if m.isArr() && len(m.El) == 0 && m.Sp == "under" {
		return "_"
	}
	return m.str()
}

// sized returns the members as they must look after instantiation with the
// per-member sizes: unsized scalars get width sizes[k], slices become arrays of
// ceil(sizes[k]/W) elements.  why[k] != "" when sizes[k] cannot hold value k.
func sized(ms []Member, sizes []int) (res []Member, why []string) {
	res = make([]Member, len(ms))
	why = make([]string, len(ms))
	for k, m := range ms {
		switch {
		case m.isScalar():
			// The inference functions do not know the declared type: the
			// size must hold the value whether or not it ends up being used.
			w := sizes[k]
			v := m.value()
			if v.Sign() >= 0 {
				if v.Cmp(pow2(w)) >= 0 {
					why[k] = "too-small"
				}
			} else if w < 1 || v.Cmp(new(big.Int).Neg(pow2(w-1))) < 0 {
				why[k] = "negative-too-small"
			}
			if m.Unsized {
				m.W = w
			}
		case m.Kind == "slice":
			n := ceilDiv(sizes[k], m.W)
			if n < len(m.El) {
				why[k] = "slice-too-small"
			}
			m.Kind = "arr"
			m.N = n
		}
		m.Unsized = false
		res[k] = m
	}
	return
}

// canonical tells whether InputSizes(text) and Sizes(value) are pinned to
// agree for this member (circuit/ioarg_test.go TestInputSizes: decimal
// non-negative integers, bools, hex byte strings vs []byte, "_" vs nil).
func canonical(m Member) bool {
	switch m.Kind {
	case "bool":
		return true
	case "int", "uint":
		return m.Sp == "dec" && m.value().Sign() >= 0
	default:
		if len(m.El) == 0 {
			return m.Sp == "under" && m.Go == "nil"
		}
		return m.W == 8 && m.Sp == "hex" && m.Go == "bytes"
	}
}

func runSizes(cs SizeCase) ev.Outcome {
	if len(cs.Nodes) == 0 {
		return ev.Outcome{Skip: "invalid case"}
	}
	for _, n := range cs.Nodes {
		if (n.M == nil) == (len(n.Sub) == 0) {
			return ev.Outcome{Skip: "invalid case"}
		}
	}
	ms, afterNested := cs.leaves()
	for _, m := range ms {
		if why := m.valid(); why != "" {
			return ev.Outcome{Skip: "invalid case: " + why}
		}
	}
	plain := !cs.Struct && len(cs.Nodes) == 1 && cs.Nodes[0].M != nil
	var f fails
	evals := 0
	okSizes := map[string][]int{}
	okWhy := map[string][]string{}

	for _, flow := range []string{"InputSizes", "Sizes"} {
		var sizes []int
		var err error
		var shown string
		if flow == "InputSizes" {
			in := make([]string, len(ms))
			for i, m := range ms {
				in[i] = sizeStr(m)
			}
			shown = fmt.Sprintf("%q", in)
			sizes, err = circuit.InputSizes(in)
		} else {
			if !settable(ms) {
				continue
			}
			ok := true
			for _, m := range ms {
				// A []byte gives 8 bits per element: usable for byte slices only.
				if m.Kind == "slice" && m.W != 8 && m.Go == "bytes" && len(m.El) > 0 {
					ok = false
				}
			}
			if !ok {
				continue
			}
			vals := goValues(ms)
			shown = fmt.Sprintf("%v", vals)
			sizes, err = circuit.Sizes(vals)
		}
		evals++
		if err != nil {
			f.add("sizes/"+flow+"/error", "%s(%s) failed: %v", flow, shown, err)
			continue
		}
		if len(sizes) != len(ms) {
			f.add("sizes/"+flow+"/count", "%s(%s) returned %d sizes for %d values",
				flow, shown, len(sizes), len(ms))
			continue
		}
		want, why := sized(ms, sizes)
		okSizes[flow], okWhy[flow] = sizes, why
		lossy := false
		for k := range ms {
			if why[k] != "" {
				if ms[k].Unsized {
					lossy = true // encoding into the too small type is not judged
				}
				f.add("sizes/"+flow+"/"+why[k],
					"%s(%s)[%d] = %d bits, which cannot hold the value %s of member %d (%s)",
					flow, shown, k, sizes[k], sizeStr(ms[k]), k, describe(ms[k:k+1]))
			}
		}

		// Instantiate as compiler/ast/package.go does.
		typ := cs.declType()
		if !typ.Concrete() {
			if err := typ.InstantiateWithSizes(sizes); err != nil {
				f.add("sizes/InstantiateWithSizes/error", "InstantiateWithSizes(%v) on %s: %v",
					sizes, describe(ms), err)
				continue
			}
		}
		var leaves circuit.IO
		if plain {
			leaves = circuit.IO{{Name: "a", Type: typ}}
		} else {
			leaves = flatten(typ)
		}
		if len(leaves) != len(ms) {
			f.add("sizes/flatten/count", "flattened type has %d members, want %d", len(leaves), len(ms))
			continue
		}
		structOK := true
		var sum int
		for k, l := range leaves {
			sum += int(l.Type.Bits)
			bad := int(l.Type.Bits) != want[k].bits()
			if want[k].isArr() && int(l.Type.ArraySize) != want[k].N {
				bad = true
			}
			if !bad {
				continue
			}
			structOK = false
			sig := "sizes/InstantiateWithSizes/wrong-width"
			if !ms[k].Unsized {
				sig = "sizes/InstantiateWithSizes/sized-type-changed"
			} else if afterNested[k] {
				sig = "sizes/InstantiateWithSizes/nested-struct/size-index"
			}
			f.add(sig, "after InstantiateWithSizes(%v) member %d of %s has type %s (%d bits), but the size inferred for its value %s is %d (want %d bits)",
				sizes, k, describe(ms), l.Type, l.Type.Bits, sizeStr(ms[k]), sizes[k], want[k].bits())
			break
		}
		if structOK && !plain && int(typ.Bits) != sum {
			structOK = false
			f.add("sizes/InstantiateWithSizes/struct-bits", "struct type has %d bits, members sum to %d",
				typ.Bits, sum)
		}
		if structOK && !plain {
			// A field starts where the fields before it end (the
			// compiler selects a field's wires by Offset and Bits).
			if where, got, wantOfs, bad := badOffset(typ, "a"); bad {
				structOK = false
				f.add("sizes/InstantiateWithSizes/field-offset",
					"after InstantiateWithSizes(%v) on %s field %s has offset %d, the fields before it take %d bits",
					sizes, describe(ms), where, got, wantOfs)
			}
		}
		if !structOK || lossy {
			continue
		}

		// Encode into the instantiated type.
		arg := circuit.IOArg{Name: "a", Type: typ}
		if !plain {
			arg.Compound = leaves
		}
		ref := encode(want)
		offs, total := offsets(want)
		var got *big.Int
		if flow == "InputSizes" {
			got, err = arg.Parse(strs(ms))
		} else {
			got, err = arg.Set(nil, goValues(ms))
		}
		if err != nil {
			f.add("sizes/"+flow+"/encode-error", "encoding %s into the type instantiated with %v failed: %v",
				describe(ms), sizes, err)
			continue
		}
		sigs, first := diffBySig(got, ref, 0, total, func(bit int) string {
			if flow == "Sizes" {
				if s := classifySet(want, offs, got, ref, bit); specificSetSig(s) {
					return s
				}
			}
			return "sizes/" + flow + "/encode/" + ms[memberAt(want, bit)].Kind + "/wrong-bits"
		})
		for _, sig := range sigs {
			d := first[sig]
			f.add(sig, "%s flow: %s instantiated with sizes %v: wire %d (member %d) is %d, reference gives %d\n got  %s\n want %s",
				flow, describe(ms), sizes, d, memberAt(want, d), got.Bit(d), ref.Bit(d),
				bitString(got, 0, total), bitString(ref, 0, total))
		}
	}

	// Agreement of the two inference functions on canonical spellings.
	if sp, sv := okSizes["InputSizes"], okSizes["Sizes"]; sp != nil && sv != nil {
		for k, m := range ms {
			if !canonical(m) || okWhy["InputSizes"][k] != "" || okWhy["Sizes"][k] != "" {
				continue
			}
			if sp[k] != sv[k] {
				gv, _ := m.goValue()
				f.add("sizes/agree/"+m.Kind, "InputSizes(%q) = %d but Sizes(%T(%v)) = %d",
					sizeStr(m), sp[k], gv, gv, sv[k])
			}
		}
	}

	if o, bad := f.pick(); bad {
		return o
	}
	classes, _ := classesOf(ms, !plain)
	nontrivial := false
	hasNested := false
	for _, n := range cs.Nodes {
		if n.M == nil {
			hasNested = true
		}
	}
	if hasNested {
		classes = append(classes, "nested-struct")
	}
	for k, m := range ms {
		if !m.Unsized {
			continue
		}
		nontrivial = true
		classes = append(classes, "unsized-"+m.Kind)
		if afterNested[k] {
			classes = append(classes, "unsized-after-nested-struct")
		}
		if m.negative() {
			classes = append(classes, "unsized-negative")
		}
	}
	if !nontrivial {
		classes = append(classes, "all-sized")
	}
	if evals == 2 {
		classes = append(classes, "both-flows")
	}
	out := ev.OK(nontrivial, dedup(classes)...)
	out.Evals = evals
	return out
}

func dedup(in []string) []string {
	seen := map[string]bool{}
	var res []string
	for _, s := range in {
		if !seen[s] {
			seen[s] = true
			res = append(res, s)
		}
	}
	return res
}

func TestSizes(t *testing.T) {
	ev.Check(t, ev.Get(prop), "sizes", genSizes, runSizes)
}
