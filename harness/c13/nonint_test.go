package c13

import (
	"math/big"
	"testing"

	"github.com/markkurossi/mpc/circuit"
	"pgregory.net/rapid"

	"verifharness/internal/ev"
)

// NICase: a struct argument with values A, and a second value Alt for member
// J.  Oracle 2 (metamorphic, no reference encoder involved):
//
//   - replacing member J's value changes no wire outside member J's range,
//   - member i's range of the compound encoding equals the encoding of member
//     i alone (so no member's value disturbs another member),
//
// for the textual form and for the Go-value form.
type NICase struct {
	Ms  []Member `json:"members"`
	J   int      `json:"j"`
	Alt Member   `json:"alt"`
}

func init() { ev.Register("nonint", runNonint) }

func genNonint(t *rapid.T) NICase {
	var cs NICase
	n := rapid.SampledFrom([]int{2, 2, 3, 3, 4, 5, 6}).Draw(t, "members")
	for i := 0; i < n; i++ {
		cs.Ms = append(cs.Ms, drawMember(t, genOpts{}))
	}
	cs.J = rapid.IntRange(0, n-1).Draw(t, "j")
	cs.Alt = drawValue(t, cs.Ms[cs.J], genOpts{})
	return cs
}

func sameShape(a, b Member) bool {
	return a.Kind == b.Kind && a.W == b.W && a.ElInt == b.ElInt && a.count() == b.count()
}

// encodeWith returns the encoding of the member list through Parse or Set.
func encodeWith(set bool, arg circuit.IOArg, ms []Member) (*big.Int, error) {
	if set {
		return arg.Set(nil, goValues(ms))
	}
	return arg.Parse(strs(ms))
}

func runNonint(cs NICase) ev.Outcome {
	if len(cs.Ms) < 1 || cs.J < 0 || cs.J >= len(cs.Ms) || !sameShape(cs.Ms[cs.J], cs.Alt) {
		return ev.Outcome{Skip: "invalid case"}
	}
	for _, m := range append([]Member{cs.Alt}, cs.Ms...) {
		if why := m.valid(); why != "" {
			return ev.Outcome{Skip: "invalid case: " + why}
		}
	}
	msB := append([]Member{}, cs.Ms...)
	msB[cs.J] = cs.Alt
	arg := buildArg(cs.Ms, true)
	offs, total := offsets(cs.Ms)
	lo, hi := offs[cs.J], offs[cs.J]+cs.Ms[cs.J].bits()
	var f fails
	evals := 0

	for _, set := range []bool{false, true} {
		name := "parse"
		if set {
			name = "set"
			if !settable(cs.Ms) || !settable(msB) {
				continue
			}
		}
		evals++
		a, err := encodeWith(set, arg, cs.Ms)
		if err != nil {
			f.add(name+"/error", "%s on %s failed: %v", name, describe(cs.Ms), err)
			continue
		}
		b, err := encodeWith(set, arg, msB)
		if err != nil {
			f.add(name+"/error", "%s on %s failed: %v", name, describe(msB), err)
			continue
		}
		// (a) only member J's wires may change.
		pairs := []struct {
			ms  []Member
			enc *big.Int
		}{{cs.Ms, a}, {msB, b}}
		nameA := func(d int) string {
			k := memberAt(cs.Ms, d)
			sig := "nonint/" + name + "/" + cs.Ms[cs.J].Kind + "-disturbs-" + cs.Ms[k].Kind
			if set {
				// Name the known failure patterns of setInt precisely.
				for _, v := range pairs {
					ref := encode(v.ms)
					if v.enc.Bit(d) != ref.Bit(d) {
						if s := classifySet(v.ms, offs, v.enc, ref, d); specificSetSig(s) {
							sig = s
						}
					}
				}
			}
			return sig
		}
		for _, r := range [][2]int{{0, lo}, {hi, total}} {
			sigs, first := diffBySig(a, b, r[0], r[1], nameA)
			for _, sig := range sigs {
				d := first[sig]
				f.add(sig, "%s: changing member %d from %q to %q changed wire %d, which belongs to member %d (%s)\n A %s\n B %s",
					name, cs.J, cs.Ms[cs.J].str(), cs.Alt.str(), d, memberAt(cs.Ms, d), describe(cs.Ms),
					bitString(a, 0, total), bitString(b, 0, total))
			}
		}
		// (b) compositionality: each member's range = the member encoded alone.
		for _, v := range pairs {
			for i, m := range v.ms {
				one := buildArg([]Member{m}, false)
				alone, err := encodeWith(set, one, []Member{m})
				if err != nil {
					f.add(name+"/error", "%s on %s failed: %v", name, describe([]Member{m}), err)
					continue
				}
				sh := new(big.Int)
				for bit := 0; bit < m.bits(); bit++ {
					sh.SetBit(sh, offs[i]+bit, alone.Bit(bit))
				}
				sigs, first := diffBySig(v.enc, sh, offs[i], offs[i]+m.bits(), func(d int) string {
					if set {
						if s := classifySet(v.ms, offs, v.enc, sh, d); specificSetSig(s) {
							return s
						}
					}
					return "nonint/" + name + "/member-differs-from-standalone/" + m.Kind
				})
				for _, sig := range sigs {
					d := first[sig]
					f.add(sig, "%s: member %d of %s: wire %d (its bit %d) is %d inside the struct but %d when the member is encoded alone",
						name, i, describe(v.ms), d, d-offs[i], v.enc.Bit(d), alone.Bit(d-offs[i]))
				}
			}
		}
	}
	if o, bad := f.pick(); bad {
		return o
	}
	classes, _ := classesOf(cs.Ms, true)
	classes = append(classes, "changed="+cs.Ms[cs.J].Kind)
	if evals == 2 {
		classes = append(classes, "set-checked")
	}
	if cs.J < len(cs.Ms)-1 {
		classes = append(classes, "changed-not-last")
	}
	if cs.Ms[cs.J].negative() != cs.Alt.negative() {
		classes = append(classes, "sign-flip")
	}
	out := ev.OK(true, classes...)
	out.Evals = evals
	return out
}

func TestNonint(t *testing.T) {
	ev.Check(t, ev.Get(prop), "nonint", genNonint, runNonint)
}
