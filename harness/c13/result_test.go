package c13

import (
	"bytes"
	"encoding/hex"
	"fmt"
	"math/big"
	"reflect"
	"strconv"
	"strings"
	"testing"

	mpc "github.com/markkurossi/mpc"
	"github.com/markkurossi/mpc/circuit"
	"github.com/markkurossi/mpc/types"
	"pgregory.net/rapid"

	"verifharness/internal/ev"
)

// OType is an output type.
type OType struct {
	K  string `json:"k"`           // bool | int | uint | string | arr | slice
	W  int    `json:"w,omitempty"` // int/uint: width; string: length in bytes
	N  int    `json:"n,omitempty"` // arr/slice: element count
	El *OType `json:"el,omitempty"`
}

// Out is one circuit output: its type and the bits on its wires (hex; always
// canonical, i.e. below 2^bits, as circuit.Compute / the garbler produce it).
type Out struct {
	T    OType  `json:"t"`
	Bits string `json:"bits"`
}

// ResCase: oracle 4.  mpc.Result / mpc.Results invert the reference encoding,
// a second call on the same *big.Int gives an equal value, and the *big.Int is
// not modified.
type ResCase struct {
	Outs []Out `json:"outs"`
}

func init() { ev.Register("result", runResult) }

func (t OType) bits() int {
	switch t.K {
	case "bool":
		return 1
	case "int", "uint":
		return t.W
	case "string":
		return 8 * t.W
	default:
		return t.N * t.El.bits()
	}
}

func (t OType) info() types.Info {
	b := types.Size(t.bits())
	switch t.K {
	case "bool":
		return types.Bool
	case "int":
		return scalarInfo(true, t.W)
	case "uint":
		return scalarInfo(false, t.W)
	case "string":
		return types.Info{Type: types.TString, IsConcrete: true, Bits: b, MinBits: b}
	default:
		el := t.El.info()
		k := types.TArray
		if t.K == "slice" {
			k = types.TSlice
		}
		return types.Info{Type: k, IsConcrete: true, Bits: b, MinBits: b,
			ElementType: &el, ArraySize: types.Size(t.N)}
	}
}

func (t OType) String() string {
	switch t.K {
	case "bool":
		return "bool"
	case "int", "uint":
		return fmt.Sprintf("%s%d", t.K, t.W)
	case "string":
		return fmt.Sprintf("string%d", 8*t.W)
	case "slice":
		return fmt.Sprintf("[](%d)%s", t.N, t.El)
	default:
		return fmt.Sprintf("[%d]%s", t.N, t.El)
	}
}

func (t OType) valid(depth int) bool {
	switch t.K {
	case "bool":
		return true
	case "int", "uint":
		return t.W >= 1
	case "string":
		return t.W >= 0
	case "arr", "slice":
		return t.El != nil && t.N >= 0 && depth < 3 && t.El.valid(depth+1)
	}
	return false
}

// refDecode is the specification of decoding: the inverse of the reference
// encoder, rendered canonically (decimal integers, s:<hex bytes> strings).
func refDecode(t OType, v *big.Int) string {
	switch t.K {
	case "bool":
		if v.Sign() != 0 {
			return "true"
		}
		return "false"
	case "uint":
		return v.String()
	case "int":
		if v.Bit(t.W-1) == 1 {
			return new(big.Int).Sub(v, pow2(t.W)).String()
		}
		return v.String()
	case "string":
		b := make([]byte, t.W)
		for i := range b {
			x := new(big.Int).Rsh(v, uint(8*i))
			b[i] = byte(x.And(x, big.NewInt(0xff)).Uint64())
		}
		return "s:" + hex.EncodeToString(b)
	default:
		eb := t.El.bits()
		mask := new(big.Int).Sub(pow2(eb), big.NewInt(1))
		parts := make([]string, t.N)
		for i := range parts {
			x := new(big.Int).Rsh(v, uint(i*eb))
			parts[i] = refDecode(*t.El, x.And(x, mask))
		}
		return "[" + strings.Join(parts, " ") + "]"
	}
}

// unescape inverts the display escaping of string results: a non-printable
// byte is shown as \uXXXX, every other byte as the rune with that code point.
func unescape(s string) ([]byte, error) {
	var res []byte
	rs := []rune(s)
	for i := 0; i < len(rs); i++ {
		if rs[i] == '\\' && i+5 < len(rs) && rs[i+1] == 'u' {
			if x, err := strconv.ParseUint(string(rs[i+2:i+6]), 16, 32); err == nil && x < 256 {
				res = append(res, byte(x))
				i += 5
				continue
			}
		}
		if rs[i] >= 256 {
			return nil, fmt.Errorf("rune %U is not a byte", rs[i])
		}
		res = append(res, byte(rs[i]))
	}
	return res, nil
}

// normalise renders a value returned by mpc.Result in refDecode's form.
func normalise(t OType, got interface{}) (string, error) {
	rv := reflect.ValueOf(got)
	switch t.K {
	case "bool":
		b, ok := got.(bool)
		if !ok {
			return "", fmt.Errorf("got %T for bool", got)
		}
		return fmt.Sprint(b), nil
	case "int", "uint":
		if bi, ok := got.(*big.Int); ok {
			if bi == nil {
				return "", fmt.Errorf("nil *big.Int")
			}
			return bi.String(), nil
		}
		switch rv.Kind() {
		case reflect.Int8, reflect.Int16, reflect.Int32, reflect.Int64, reflect.Int:
			return fmt.Sprint(rv.Int()), nil
		case reflect.Uint8, reflect.Uint16, reflect.Uint32, reflect.Uint64, reflect.Uint:
			return fmt.Sprint(rv.Uint()), nil
		}
		return "", fmt.Errorf("got %T for %s", got, t)
	case "string":
		s, ok := got.(string)
		if !ok {
			return "", fmt.Errorf("got %T for string", got)
		}
		b, err := unescape(s)
		if err != nil {
			return "", err
		}
		return "s:" + hex.EncodeToString(b), nil
	default:
		if rv.Kind() != reflect.Slice {
			return "", fmt.Errorf("got %T for %s", got, t)
		}
		parts := make([]string, rv.Len())
		for i := range parts {
			p, err := normalise(*t.El, rv.Index(i).Interface())
			if err != nil {
				return "", err
			}
			parts[i] = p
		}
		return "[" + strings.Join(parts, " ") + "]", nil
	}
}

// ---------------------------------------------------------------------------

func drawOType(t *rapid.T, depth int) OType {
	kinds := []string{"int", "int", "int", "uint", "uint", "bool", "string", "arr", "arr", "slice"}
	if depth >= 2 {
		kinds = []string{"int", "uint", "bool", "string"}
	} else if depth == 1 {
		kinds = []string{"int", "int", "int", "uint", "uint", "uint", "bool", "string", "arr"}
	}
	var o OType
	o.K = rapid.SampledFrom(kinds).Draw(t, "okind")
	switch o.K {
	case "int", "uint":
		if depth > 0 && rapid.IntRange(0, 9).Draw(t, "elclass") < 5 {
			o.W = rapid.SampledFrom([]int{8, 16, 32, 64}).Draw(t, "w")
		} else {
			o.W = drawWidth(t, "w")
		}
	case "string":
		o.W = rapid.IntRange(0, 12).Draw(t, "slen")
	case "arr", "slice":
		el := drawOType(t, depth+1)
		o.El = &el
		o.N = rapid.IntRange(0, 5).Draw(t, "n")
	}
	return o
}

func drawPattern(t *rapid.T, o OType) *big.Int {
	switch o.K {
	case "bool":
		return big.NewInt(int64(rapid.IntRange(0, 1).Draw(t, "b")))
	case "int", "uint":
		v := drawScalar(t, o.K == "int", o.W)
		return v.Mod(v, pow2(o.W))
	case "string":
		res := new(big.Int)
		prev := byte(0)
		for i := 0; i < o.W; i++ {
			var c byte
			switch rapid.SampledFrom([]string{"ascii", "ascii", "ascii", "ascii", "ctl", "high", "bs"}).Draw(t, "cclass") {
			case "ascii":
				c = byte(rapid.IntRange(0x20, 0x7e).Draw(t, "c"))
			case "ctl":
				c = byte(rapid.SampledFrom([]int{0, 1, 9, 10, 13, 0x1f, 0x7f, 0x80, 0x9f, 0xa0, 0xad}).Draw(t, "c"))
			case "high":
				c = byte(rapid.IntRange(0x80, 0xff).Draw(t, "c"))
			default:
				c = '\\'
			}
			if prev == '\\' && c == 'u' {
				c = 'v' // keep the display escaping unambiguous
			}
			prev = c
			res.Or(res, new(big.Int).Lsh(big.NewInt(int64(c)), uint(8*i)))
		}
		return res
	default:
		res := new(big.Int)
		eb := o.El.bits()
		for i := 0; i < o.N; i++ {
			res.Or(res, new(big.Int).Lsh(drawPattern(t, *o.El), uint(i*eb)))
		}
		return res
	}
}

func genResult(t *rapid.T) ResCase {
	var cs ResCase
	n := rapid.SampledFrom([]int{1, 1, 1, 2, 3}).Draw(t, "outs")
	for i := 0; i < n; i++ {
		o := drawOType(t, 0)
		cs.Outs = append(cs.Outs, Out{T: o, Bits: drawPattern(t, o).Text(16)})
	}
	return cs
}

// safeResult calls mpc.Result; a panic is reported as an error.
func safeResult(v *big.Int, arg circuit.IOArg) (r interface{}, err error) {
	defer func() {
		if p := recover(); p != nil {
			err = fmt.Errorf("panic: %v", p)
		}
	}()
	return mpc.Result(v, arg), nil
}

func safeResults(vs []*big.Int, outs circuit.IO) (r []interface{}, err error) {
	defer func() {
		if p := recover(); p != nil {
			err = fmt.Errorf("panic: %v", p)
		}
	}()
	return mpc.Results(vs, outs), nil
}

// textual tells whether the type is completely described by its name: bool,
// intN, uintN and fixed-size arrays of such types.
func (t OType) textual() bool {
	switch t.K {
	case "bool", "int", "uint":
		return true
	case "arr":
		return t.N > 0 && t.El.textual()
	}
	return false
}

func (t OType) nestedArray() bool {
	return (t.K == "arr" || t.K == "slice") && (t.El.K == "arr" || t.El.K == "slice")
}

func runResult(cs ResCase) ev.Outcome {
	if len(cs.Outs) == 0 {
		return ev.Outcome{Skip: "invalid case"}
	}
	vals := make([]*big.Int, len(cs.Outs))
	for i, o := range cs.Outs {
		v, ok := new(big.Int).SetString(o.Bits, 16)
		if !o.T.valid(0) || !ok || v.Sign() < 0 || v.BitLen() > o.T.bits() {
			return ev.Outcome{Skip: "invalid case"}
		}
		vals[i] = v
		if o.T.K == "string" || (o.T.El != nil && o.T.El.K == "string") {
			raw, _ := hex.DecodeString(strings.TrimPrefix(
				refDecode(OType{K: "string", W: (o.T.bits() + 7) / 8}, v), "s:"))
			if bytes.Contains(raw, []byte(`\u`)) {
				return ev.Outcome{Skip: "string contains \\u (display escaping ambiguous)"}
			}
		}
	}
	var f fails
	var outputs circuit.IO
	want := make([]string, len(cs.Outs))
	panicked := false
	for i, o := range cs.Outs {
		arg := circuit.IOArg{Name: fmt.Sprintf("%%ret%d", i), Type: o.T.info()}
		outputs = append(outputs, arg)
		want[i] = refDecode(o.T, vals[i])

		x := new(big.Int).Set(vals[i])
		r1, err := safeResult(x, arg)
		if err != nil {
			panicked = true
			sig := "result/" + o.T.K + "/panic"
			if o.T.nestedArray() {
				sig = "result/array-of-arrays/panic"
			}
			f.add(sig, "Result(0x%s, %s): %v", o.Bits, o.T, err)
			continue
		}
		n1, err := normalise(o.T, r1)
		if err != nil {
			f.add("result/"+o.T.K+"/wrong-type", "Result(0x%s, %s) = %#v: %v", o.Bits, o.T, r1, err)
			continue
		}
		if n1 != want[i] {
			f.add("result/"+o.T.K+"/wrong-value", "Result(0x%s, %s) = %s, the encoded value is %s",
				o.Bits, o.T, n1, want[i])
		}
		if x.Cmp(vals[i]) != 0 {
			f.add("result/"+o.T.K+"/argument-modified",
				"Result(x=0x%s, %s) returned %s and changed x to %s", o.Bits, o.T, n1, x)
		}
		// The same value decoded through the textual form of the type
		// (what a circuit file or the streaming protocol carries): for
		// fixed-size arrays of integers and booleans the text determines
		// the type completely.
		if o.T.textual() {
			if pt, err := types.Parse(arg.Type.String()); err != nil {
				f.add("result/"+o.T.K+"/type-text-unparsable", "types.Parse(%q): %v", arg.Type.String(), err)
			} else if r3, err := safeResult(new(big.Int).Set(vals[i]), circuit.IOArg{Name: arg.Name, Type: pt}); err != nil {
				f.add("result/"+o.T.K+"/panic", "Result(0x%s, types.Parse(%q)): %v", o.Bits, arg.Type.String(), err)
			} else if n3, err := normalise(o.T, r3); err != nil || n3 != want[i] {
				f.add("result/"+o.T.K+"/type-text/wrong-value",
					"Result(0x%s, types.Parse(%q)) = %s (err %v), the encoded value is %s",
					o.Bits, arg.Type.String(), n3, err, want[i])
			}
		}
		r2, err := safeResult(x, arg)
		if err != nil {
			f.add("result/"+o.T.K+"/panic", "second Result(0x%s, %s): %v", o.Bits, o.T, err)
			continue
		}
		n2, err := normalise(o.T, r2)
		if err != nil || n2 != n1 {
			f.add("result/"+o.T.K+"/repeat-differs",
				"Result(x=0x%s, %s) returned %s the first and %s the second time (x is now %s; err %v)",
				o.Bits, o.T, n1, n2, x, err)
		}
	}

	// Results over all outputs, on fresh copies.
	if !panicked {
		xs := make([]*big.Int, len(vals))
		for i, v := range vals {
			xs[i] = new(big.Int).Set(v)
		}
		rs, err := safeResults(xs, outputs)
		if err != nil {
			f.add("results/panic", "Results: %v", err)
		} else if len(rs) != len(vals) {
			f.add("results/count", "Results returned %d values for %d outputs", len(rs), len(vals))
		} else {
			for i, o := range cs.Outs {
				n, err := normalise(o.T, rs[i])
				if err != nil || n != want[i] {
					f.add("results/"+o.T.K+"/wrong-value", "Results(...)[%d] for 0x%s as %s = %s (err %v), the encoded value is %s",
						i, o.Bits, o.T, n, err, want[i])
				}
				if xs[i].Cmp(vals[i]) != 0 {
					f.add("result/"+o.T.K+"/argument-modified",
						"Results changed its argument %d (%s) from 0x%s to %s", i, o.T, o.Bits, xs[i])
				}
			}
		}
	}
	// Results without type information returns the raw unsigned values.
	{
		xs := make([]*big.Int, len(vals))
		for i, v := range vals {
			xs[i] = new(big.Int).Set(v)
		}
		rs, err := safeResults(xs, nil)
		if err != nil {
			f.add("results/untyped/panic", "Results(nil outputs): %v", err)
		} else if len(rs) != len(vals) {
			f.add("results/untyped/count", "Results returned %d values for %d outputs", len(rs), len(vals))
		} else {
			for i := range vals {
				n, err := normalise(OType{K: "uint", W: 1024}, rs[i])
				if err != nil || n != vals[i].String() || xs[i].Cmp(vals[i]) != 0 {
					f.add("results/untyped/wrong-value", "Results(nil outputs)[%d] = %s (err %v) for %s (argument now %s)",
						i, n, err, vals[i], xs[i])
				}
			}
		}
	}
	if o, bad := f.pick(); bad {
		return o
	}

	var classes []string
	nontrivial := len(cs.Outs) > 1
	var walk func(t OType, v *big.Int, depth int)
	walk = func(t OType, v *big.Int, depth int) {
		classes = append(classes, "kind="+t.K)
		switch t.K {
		case "int", "uint":
			if t.W > 64 {
				classes = append(classes, "w>64")
				nontrivial = true
			}
			if v.Bit(t.W-1) == 1 {
				nontrivial = true
				if t.K == "int" {
					classes = append(classes, "negative")
					if t.W > 64 {
						classes = append(classes, "negative-w>64")
					}
					if t.W != 8 && t.W != 16 && t.W != 32 && t.W != 64 {
						classes = append(classes, "negative-odd-width")
					}
				} else {
					classes = append(classes, "top-bit")
				}
			}
		case "string":
			if t.W > 0 {
				nontrivial = true
			}
		case "arr", "slice":
			nontrivial = true
			if t.N == 0 {
				classes = append(classes, "zero-length-array")
			}
			if t.nestedArray() {
				classes = append(classes, "array-of-arrays")
			}
			classes = append(classes, "array-of-"+t.El.K)
			eb := t.El.bits()
			mask := new(big.Int).Sub(pow2(eb), big.NewInt(1))
			for i := 0; i < t.N; i++ {
				x := new(big.Int).Rsh(v, uint(i*eb))
				walk(*t.El, x.And(x, mask), depth+1)
			}
		}
	}
	for i, o := range cs.Outs {
		walk(o.T, vals[i], 0)
	}
	if len(cs.Outs) > 1 {
		classes = append(classes, "outputs>1")
	}
	out := ev.OK(nontrivial, dedup(classes)...)
	out.Evals = 2*len(cs.Outs) + 2
	return out
}

func TestResult(t *testing.T) {
	ev.Check(t, ev.Get(prop), "result", genResult, runResult)
}

// TestResultBoundary enumerates every width 1..130 x {int, uint} x boundary
// bit patterns (0, 1, all ones, top bit only, top bit clear, alternating),
// alone and as the element of a 3-element array.
func TestResultBoundary(t *testing.T) {
	col := ev.Get(prop)
	maxW := col.N(130, 130)
	shard, nshards := ev.Shard()
	idx := 0
	ev.Each(t, col, "result", func(yield func(ResCase) bool) {
		for w := 1; w <= maxW; w++ {
			for _, k := range []string{"uint", "int"} {
				idx++
				if idx%nshards != shard {
					continue
				}
				ones := new(big.Int).Sub(pow2(w), big.NewInt(1))
				alt := new(big.Int)
				for i := 0; i < w; i += 2 {
					alt.SetBit(alt, i, 1)
				}
				pats := []*big.Int{big.NewInt(0), big.NewInt(1), ones, pow2(w - 1),
					new(big.Int).Sub(pow2(w-1), big.NewInt(1)), alt, new(big.Int).Xor(alt, ones),
					new(big.Int).Sub(ones, big.NewInt(1))}
				seen := map[string]bool{}
				for _, p := range pats {
					if p.BitLen() > w || seen[p.String()] {
						continue
					}
					seen[p.String()] = true
					el := OType{K: k, W: w}
					yield(ResCase{Outs: []Out{{T: el, Bits: p.Text(16)}}})
					arr := new(big.Int).Set(p)
					arr.Or(arr, new(big.Int).Lsh(ones, uint(w)))
					arr.Or(arr, new(big.Int).Lsh(p, uint(2*w)))
					yield(ResCase{Outs: []Out{
						{T: OType{K: "arr", N: 3, El: &el}, Bits: arr.Text(16)},
						{T: el, Bits: p.Text(16)}}})
				}
			}
		}
	}, runResult)
	col.Note("boundary sub-run (result): widths 1..%d x {intN,uintN} x {0,1,all-ones,2^(N-1),2^(N-1)-1,0101..,1010..,all-ones-1}, alone and as elements of a [3]T output", maxW)
}

func TestReplay(t *testing.T) { ev.Replay(t, ev.Get(prop)) }
