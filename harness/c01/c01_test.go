// C01: garbled evaluation equals plain evaluation for every circuit.
package c01

import (
	"fmt"
	"math/big"
	"testing"

	"github.com/markkurossi/mpc/circuit"
	"github.com/markkurossi/mpc/ot"
	"pgregory.net/rapid"

	"verifharness/internal/ev"
	"verifharness/internal/gen"
	"verifharness/internal/ref"
)

const prop = "C01"

// Case is one garbling of one circuit evaluated on a list of assignments.
type Case struct {
	Circ    gen.Circ `json:"circ"`
	KeyLen  int      `json:"keylen"`
	Seed    uint64   `json:"seed"`
	Permute []bool   `json:"permute"` // [0] is R's (forced to 1 by the code)
	// Inputs are 0/1 strings over the input wires; empty = all 2^n.
	Inputs []string `json:"inputs"`
	// Rounds > 1: the same circuit value is garbled, evaluated and
	// released Rounds times with fresh randomness (the later garblings
	// run on recycled scratch buffers).
	Rounds int `json:"rounds,omitempty"`
	// SameKeyBuf: the later rounds write their (different) key into the
	// key buffer of the first round instead of passing a fresh slice, as a
	// caller that keeps one key array per connection does.
	SameKeyBuf bool `json:"same_key_buf,omitempty"`
}

// foldInputs are total input wire counts around the sizes at which label
// generation and table storage could be batched.
var foldInputs = []int{255, 256, 257, 511, 512, 513, 600, 1023, 1024, 1025, 1100, 2047, 2048, 2049, 4097}

func init() { ev.Register("garble", run) }

func genCase(t *rapid.T) Case {
	var cs Case
	wide := rapid.IntRange(0, 19).Draw(t, "wide") == 0
	o := gen.CircOpts{MinArgs: 1, MaxArgs: 3, MaxWidth: 5, MaxGates: 40,
		MaxOuts: 3, MaxOutWidth: 3, AllowZeroWidth: true}
	if wide {
		o.MaxWidth = 70
		o.MaxGates = 300
		o.MaxOutWidth = 9
	}
	cs.Circ = gen.DrawCirc(t, o)
	if rapid.IntRange(0, 24).Draw(t, "fold") == 0 {
		// Very wide input signature, every input reaching the outputs.
		total := foldInputs[gen.Uniform(t, len(foldInputs), "foldinputs")]
		if rapid.Bool().Draw(t, "foldany") {
			total = rapid.IntRange(11, 1200).Draw(t, "foldtotal")
		}
		nargs := rapid.IntRange(1, 3).Draw(t, "foldargs")
		widths := make([]int, nargs)
		rest := total
		for i := 0; i < nargs-1; i++ {
			widths[i] = rapid.IntRange(1, rest-(nargs-1-i)).Draw(t, "foldw")
			rest -= widths[i]
		}
		widths[nargs-1] = rest
		cs.Circ = gen.DrawFold(t, widths, rapid.IntRange(1, 3).Draw(t, "foldouts"))
	}
	cs.KeyLen = rapid.SampledFrom([]int{16, 24, 32}).Draw(t, "keylen")
	cs.Seed = rapid.Uint64().Draw(t, "seed")
	nin := cs.Circ.NumIn()
	cs.Permute = make([]bool, nin+1)
	for i := range cs.Permute {
		cs.Permute[i] = rapid.Bool().Draw(t, "permute")
	}
	if rapid.IntRange(0, 3).Draw(t, "multi") == 0 {
		cs.Rounds = rapid.IntRange(2, 4).Draw(t, "rounds")
		cs.SameKeyBuf = rapid.Bool().Draw(t, "samekeybuf")
	}
	if nin > 10 {
		n := rapid.IntRange(1, 8).Draw(t, "ninputs")
		for i := 0; i < n; i++ {
			cs.Inputs = append(cs.Inputs, gen.BitsOf(gen.DrawBits(t, nin, "in")))
		}
	}
	return cs
}

func assignments(cs Case) [][]bool {
	nin := cs.Circ.NumIn()
	var res [][]bool
	if len(cs.Inputs) == 0 {
		for v := 0; v < 1<<nin; v++ {
			a := make([]bool, nin)
			for i := range a {
				a[i] = v>>i&1 == 1
			}
			res = append(res, a)
		}
		return res
	}
	for _, s := range cs.Inputs {
		a := gen.ParseBits(s)
		for len(a) < nin {
			a = append(a, false)
		}
		res = append(res, a[:nin])
	}
	return res
}

func xor(a, b ot.Label) ot.Label {
	a.Xor(b)
	return a
}

func run(cs Case) ev.Outcome {
	circ := cs.Circ.Build()
	rounds := cs.Rounds
	if rounds < 1 {
		rounds = 1
	}
	var out ev.Outcome
	keybuf := make([]byte, cs.KeyLen)
	for r := 0; r < rounds; r++ {
		key := gen.NewDRBG(cs.Seed, 2+16*uint64(r)).Bytes(cs.KeyLen)
		if cs.SameKeyBuf {
			copy(keybuf, key)
			key = keybuf
		}
		out = runRound(cs, circ, uint64(r), key)
		if out.Err != "" || out.Skip != "" {
			if out.Err != "" && r > 0 {
				out.Sig += "/regarble"
				out.Err = fmt.Sprintf("garbling #%d of the same circuit value: %s", r+1, out.Err)
			}
			return out
		}
	}
	if rounds > 1 && cs.SameKeyBuf {
		out.Classes = append(out.Classes, "regarbled-same-key-buffer")
	}
	if rounds > 1 {
		out.Classes = append(out.Classes, "regarbled-after-release")
		out.Evals *= rounds
	}
	return out
}

func runRound(cs Case, circ *circuit.Circuit, round uint64, key []byte) ev.Outcome {
	c := cs.Circ
	d := gen.NewDRBG(cs.Seed, 1+16*round)
	rd := &gen.LabelReader{D: d, Permute: cs.Permute}

	g, err := circ.Garble(rd, key)
	if err != nil {
		return ev.Fail("garble/error", "Garble failed: %v", err)
	}
	defer g.Release()

	// State invariant: permute bit of R is 1 and L1 = L0 xor R everywhere.
	if !g.R.S() {
		return ev.Fail("invariant/R.S", "permute bit of R is not set")
	}
	for w := 0; w < c.NumWires(); w++ {
		if !xor(g.Wires[w].L0, g.R).Equal(g.Wires[w].L1) {
			return ev.Fail("invariant/L1=L0^R", "wire %d: L1 != L0 xor R", w)
		}
	}
	// The requested permute bits reached the input wires.
	for i := 0; i < c.NumIn(); i++ {
		if g.Wires[i].L0.S() != cs.Permute[i+1] {
			return ev.Outcome{Skip: "permute bits not applied"}
		}
	}

	nin, nw, nout := c.NumIn(), c.NumWires(), c.NumOut()
	asg := assignments(cs)
	varies := false
	var first []bool
	for ai, in := range asg {
		want := c.Eval(in)
		wires := make([]ot.Label, nw)
		for i := 0; i < nin; i++ {
			wires[i] = circuit.LabelForBit(g.Wires[i], in[i])
		}
		if err := circ.Eval(key, wires, g.Gates); err != nil {
			return ev.Fail("eval/error", "Eval failed on input %s: %v",
				gen.BitsOf(in), err)
		}
		for w := nw - nout; w < nw; w++ {
			lab := wires[w]
			if !lab.Equal(g.Wires[w].L0) && !lab.Equal(g.Wires[w].L1) {
				return ev.Fail("eval/unknown-label",
					"input %s: output wire %d carries neither of its labels (driver gate %s)",
					gen.BitsOf(in), w, driver(c, w))
			}
			bit, err := circuit.BitFromLabel(g.Wires[w], lab)
			if err != nil {
				return ev.Fail("eval/unknown-label", "BitFromLabel: %v", err)
			}
			if bit != want[w] {
				return ev.Fail("eval/wrong-bit",
					"input %s: output wire %d decodes to %v, truth table gives %v (driver gate %s)",
					gen.BitsOf(in), w, bit, want[w], driver(c, w))
			}
		}
		// Plain evaluator.
		got, err := circ.Compute(gen.SplitBits(in, c.In))
		if err != nil {
			return ev.Fail("compute/error", "Compute: %v", err)
		}
		exp := gen.SplitBits(c.OutputBits(want), c.Out)
		if len(got) != len(exp) {
			return ev.Fail("compute/arity", "Compute returned %d values, want %d",
				len(got), len(exp))
		}
		for i := range exp {
			if got[i].Cmp(exp[i]) != 0 {
				return ev.Fail("compute/wrong-value",
					"input %s: Compute output %d = %s, truth table gives %s",
					gen.BitsOf(in), i, got[i].Text(2), exp[i].Text(2))
			}
		}
		outs := c.OutputBits(want)
		if ai == 0 {
			first = append([]bool{}, outs...)
		} else if gen.BitsOf(first) != gen.BitsOf(outs) {
			varies = true
		}
	}
	_ = varies

	cnt := c.OpCounts()
	classes := []string{fmt.Sprintf("keylen=%d", cs.KeyLen)}
	for op := 0; op < 5; op++ {
		if cnt[op] > 0 {
			classes = append(classes, "has-"+ref.OpName(op))
		}
	}
	for _, gt := range c.Gates {
		if gt[0] != ref.INV && gt[1] == gt[2] {
			classes = append(classes, "same-wire-both-inputs")
			break
		}
	}
	if len(cs.Inputs) == 0 {
		classes = append(classes, "all-assignments")
	}
	if nin > 10 {
		classes = append(classes, "wide")
	}
	if nin > 512 {
		classes = append(classes, "inputs>512")
	}
	out := ev.OK(c.NonFreeReachesOutput(), classes...)
	out.Evals = len(asg)
	return out
}

func driver(c gen.Circ, w int) string {
	for _, g := range c.Gates {
		if g[3] == w {
			return fmt.Sprintf("%s(%d,%d)", ref.OpName(g[0]), g[1], g[2])
		}
	}
	return "input"
}

func TestGarble(t *testing.T) {
	ev.Check(t, ev.Get(prop), "garble", genCase, run)
}

// TestExhaustive enumerates every circuit with at most maxGates gates over at
// most three input wires (all operations, all operand choices including the
// same wire twice), with one output per gate suffix, all input assignments and
// all permute-bit combinations of the input wires.
func TestExhaustive(t *testing.T) {
	col := ev.Get(prop)
	maxGates := col.N(2, 3)
	shard, nshards := ev.Shard()
	idx := 0
	ev.Each(t, col, "garble", func(yield func(Case) bool) {
		for nin := 1; nin <= 3; nin++ {
			var rec func(gates []ref.Gate)
			emit := func(gates []ref.Gate) {
				idx++
				if idx%nshards != shard {
					return
				}
				ng := len(gates)
				for nout := 1; nout <= ng; nout++ {
					for pm := 0; pm < 1<<nin; pm++ {
						perm := make([]bool, nin+1)
						for i := 0; i < nin; i++ {
							perm[i+1] = pm>>i&1 == 1
						}
						yield(Case{
							Circ: gen.Circ{In: []int{nin}, Out: []int{nout},
								Gates: append([]ref.Gate{}, gates...)},
							KeyLen: 16 + 8*(idx%3), Seed: uint64(idx)*64 + uint64(pm),
							Permute: perm,
						})
					}
				}
			}
			rec = func(gates []ref.Gate) {
				if len(gates) > 0 {
					emit(gates)
				}
				if len(gates) == maxGates {
					return
				}
				defined := nin + len(gates)
				for op := 0; op < 5; op++ {
					for a := 0; a < defined; a++ {
						if op == ref.INV {
							rec(append(gates, ref.Gate{op, a, 0, defined}))
							continue
						}
						for b := 0; b < defined; b++ {
							rec(append(gates, ref.Gate{op, a, b, defined}))
						}
					}
				}
			}
			rec(nil)
		}
	}, run)
	col.Note("exhaustive sub-run: all circuits with <= %d gates over 1..3 input wires x all assignments x all input permute bits", maxGates)
}

func TestReplay(t *testing.T) { ev.Replay(t, ev.Get(prop)) }

var _ = big.NewInt
