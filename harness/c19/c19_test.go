// C19: the peer-to-peer mesh always forms completely and consistently.
//
// One case = one mesh configuration (parties, connections per pair) plus a
// complete schedule: the order and the gaps in which the parties call Join,
// the delay between each party's Join (Create) and its Connect, and a delay
// for every dial / accept / register event of every party (fed to the code
// through the build-tag guarded p2p.VerifDelay hook, keyed by party and the
// index of the event at that party).  All parties run in this process over
// loopback TCP.
//
// Oracle (independent of the code under test: a list model of who must be
// connected to whom, and an end-to-end token round trip):
//   - every Connect returns nil (within the watchdog budget),
//   - at the moment Connect returns, the party's peer table lists every other
//     party exactly once with exactly numConns non-nil, pairwise distinct
//     connections (this is what the only real caller, p2p's own test, relies
//     on: it ranges over Peers/Conns right after Connect),
//   - a unique token sent by the lower id on ITS Conns[k] arrives at the
//     higher id on ITS Conns[k] for that peer, and the echo comes back,
//   - the numbers of dial / accept / register events per party equal the
//     list model and no (peer, connID) is registered twice.
package c19

import (
	"encoding/json"
	"fmt"
	"net"
	"os"
	"reflect"
	"runtime"
	"sort"
	"strings"
	"sync"
	"sync/atomic"
	"testing"
	"time"
	"unsafe"

	"github.com/markkurossi/mpc/p2p"
	"pgregory.net/rapid"

	"verifharness/internal/ev"
)

const prop = "C19"

// Case is one mesh configuration with its complete schedule.  All delays are
// in microseconds.
type Case struct {
	Parties int `json:"parties"`
	Conns   int `json:"conns"`
	// Order is the order in which parties 1..Parties-1 call Join; JoinGap[k]
	// is the pause between the (k-1)-th and the k-th Join (0 = concurrently).
	// The leader's Create always comes first (Join dials it immediately).
	Order   []int `json:"order"`
	JoinGap []int `json:"join_gap_us"`
	// ConnectDelay[p] is the pause between party p's Join (Create) returning
	// and its call to Connect.
	ConnectDelay []int `json:"connect_delay_us"`
	// Dial[p][i] is the delay before the i-th dial of party p; Accept[p][i]
	// the delay before party p handles its i-th inbound connection;
	// Register[p][i] the delay between counting the i-th inbound connection
	// and entering it into the peer table.  Missing entries mean 0.
	Dial     [][]int `json:"dial_us"`
	Accept   [][]int `json:"accept_us"`
	Register [][]int `json:"register_us,omitempty"`
	Nonce    uint64  `json:"nonce"`
}

func init() {
	p2p.VerifDelay = hook
	ev.Register("mesh", run)
}

// ---------------------------------------------------------------------------
// List model: who dials whom.

// numDials is the number of dial events of party p: every higher id for every
// connection id, plus the leader for connection ids >= 1.
func numDials(n, k, p int) int {
	if p == 0 {
		return 0
	}
	return k*(n-1-p) + (k - 1)
}

// numAccepts is the number of inbound connections of party p.
func numAccepts(n, k, p int) int {
	if p == 0 {
		return k * (n - 1)
	}
	return k * (p - 1)
}

// ---------------------------------------------------------------------------
// Generator.

var delayProfiles = map[string][]int{
	"sparse": {0, 0, 0, 0, 0, 0, 0, 0, 0, 0, 0, 0, 0, 0, 0, 0, 100, 1000, 5000, 20000},
	"mixed":  {0, 0, 0, 0, 0, 0, 0, 0, 0, 0, 50, 100, 100, 200, 500, 500, 1000, 2000, 5000, 20000},
	"small":  {0, 0, 0, 0, 50, 50, 50, 100, 100, 100, 100, 200, 200, 200, 300, 300, 400, 500, 500, 1000},
	"large":  {0, 0, 0, 0, 0, 0, 0, 0, 200, 500, 1000, 1000, 2000, 2000, 3000, 5000, 5000, 8000, 10000, 20000},
}

var profileNames = []string{"none", "sparse", "sparse", "mixed", "mixed", "mixed", "small", "small", "small", "large"}

func drawDelays(t *rapid.T, profile string, n int, label string) []int {
	res := make([]int, n)
	tab, ok := delayProfiles[profile]
	if !ok {
		return res
	}
	for i := range res {
		res[i] = tab[rapid.IntRange(0, len(tab)-1).Draw(t, label)]
	}
	return res
}

func genCase(t *rapid.T) Case {
	var cs Case
	// Bias towards the larger meshes: they have the interesting interleavings.
	cs.Parties = rapid.SampledFrom([]int{2, 3, 3, 4, 4, 5, 5, 6, 6}).Draw(t, "parties")
	cs.Conns = rapid.SampledFrom([]int{1, 2, 2, 3, 3, 4, 4}).Draw(t, "conns")
	n, k := cs.Parties, cs.Conns

	// Join order: Fisher-Yates over 1..n-1.
	cs.Order = make([]int, n-1)
	for i := range cs.Order {
		cs.Order[i] = i + 1
	}
	for i := len(cs.Order) - 1; i > 0; i-- {
		j := rapid.IntRange(0, i).Draw(t, "swap")
		// j == 0 keeps rapid's minimal value = identity-ish; swap with i-j.
		cs.Order[i], cs.Order[i-j] = cs.Order[i-j], cs.Order[i]
	}

	start := rapid.SampledFrom(profileNames).Draw(t, "startProfile")
	cs.JoinGap = drawDelays(t, start, n-1, "joinGap")
	cs.ConnectDelay = drawDelays(t, start, n, "connectDelay")

	profile := rapid.SampledFrom(profileNames).Draw(t, "profile")
	// One party may be uniformly slow (a loaded machine).
	slow := rapid.IntRange(-3*n, n-1).Draw(t, "slowParty")
	regOn := rapid.IntRange(0, 3).Draw(t, "registerDelays") == 0

	cs.Dial = make([][]int, n)
	cs.Accept = make([][]int, n)
	if regOn {
		cs.Register = make([][]int, n)
	}
	for p := 0; p < n; p++ {
		pr := profile
		if p == slow {
			pr = "large"
		}
		cs.Dial[p] = drawDelays(t, pr, numDials(n, k, p), "dial")
		cs.Accept[p] = drawDelays(t, pr, numAccepts(n, k, p), "accept")
		if regOn {
			cs.Register[p] = drawDelays(t, pr, numAccepts(n, k, p), "register")
		}
	}
	cs.Nonce = rapid.Uint64().Draw(t, "nonce")
	return cs
}

// ---------------------------------------------------------------------------
// One execution of a mesh.

type event struct {
	Party  int
	Kind   string
	Peer   int
	ConnID int
	Index  int
	Delay  int
}

func (e event) String() string {
	return fmt.Sprintf("p%d:%s#%d(peer=%d,conn=%d,+%dus)", e.Party, e.Kind, e.Index,
		e.Peer, e.ConnID, e.Delay)
}

type peerSnap struct {
	ID    int
	Addr  string
	Conns []*p2p.Conn
}

type partyResult struct {
	party int
	phase string // "join" or "connect"
	err   error
	pnc   string // panic text
	snap  []peerSnap
}

type mesh struct {
	cs   Case
	last atomic.Int64 // UnixNano of the last observed progress
	dead atomic.Bool  // the mesh is over: hook calls are ignored
	// suspect is set when the hook saw the leader distributing the peer list
	// while a counted first connection was not yet in the leader's peer table:
	// some party can then never get the list, the watchdog may be short.
	suspect atomic.Bool
	mu      sync.Mutex
	count   map[string][]int // kind -> per party counter
	log     []event
	nets    []*p2p.Network
	state   []string // per party: where it is
}

var current atomic.Pointer[mesh]

func (m *mesh) touch() { m.last.Store(time.Now().UnixNano()) }

func (m *mesh) setState(p int, s string) {
	m.mu.Lock()
	m.state[p] = s
	m.mu.Unlock()
	m.touch()
}

func at(tab [][]int, p, i int) int {
	if p < 0 || p >= len(tab) || i < 0 || i >= len(tab[p]) {
		return 0
	}
	return tab[p][i]
}

// hook is installed as p2p.VerifDelay once, at init.
func hook(party int, kind string, peer, connID int) {
	m := current.Load()
	if m == nil || m.dead.Load() {
		return
	}
	if party < 0 || party >= m.cs.Parties {
		return
	}
	if kind != "dial" && kind != "accept" && kind != "register" {
		return
	}
	m.mu.Lock()
	idx := m.count[kind][party]
	m.count[kind][party]++
	var d int
	switch kind {
	case "dial":
		d = at(m.cs.Dial, party, idx)
	case "accept":
		d = at(m.cs.Accept, party, idx)
	case "register":
		d = at(m.cs.Register, party, idx)
	}
	m.log = append(m.log, event{party, kind, peer, connID, idx, d})
	m.mu.Unlock()
	m.touch()
	if d > 0 {
		time.Sleep(time.Duration(d) * time.Microsecond)
		m.touch()
	}
	if kind == "register" && party == 0 && connID == 0 {
		// Runs on the leader's accept goroutine, the only writer of the
		// leader's peer table.
		m.mu.Lock()
		leader := m.nets[0]
		m.mu.Unlock()
		if leader != nil {
			for _, p := range leader.Peers {
				if p != nil && p.ID != 0 && len(p.Conns) > 0 && p.Conns[0] != nil &&
					p.Conns[0].Stats.Sent.Load() > 0 {
					m.suspect.Store(true)
				}
			}
		}
	}
}

func usleep(us int) {
	if us > 0 {
		time.Sleep(time.Duration(us) * time.Microsecond)
	}
}

// freeAddrs asks the kernel for n distinct free loopback ports.  The
// reserving listeners are returned open: each is closed immediately before the
// party binds the port itself, which keeps the window in which another process
// (or an outgoing connection) can take the port to microseconds.
func freeAddrs(n int) ([]string, []net.Listener, error) {
	var ls []net.Listener
	var res []string
	for i := 0; i < n; i++ {
		l, err := net.Listen("tcp", "127.0.0.1:0")
		if err != nil {
			for _, l := range ls {
				l.Close()
			}
			return nil, nil, err
		}
		ls = append(ls, l)
		res = append(res, l.Addr().String())
	}
	return res, ls, nil
}

type result struct {
	kind string // "ok", "fail", "timeout", "infra"
	sig  string
	msg  string
	// classes observed during the execution
	reordered bool
}

func snapshot(nw *p2p.Network) []peerSnap {
	var res []peerSnap
	for _, p := range nw.Peers {
		if p == nil {
			res = append(res, peerSnap{ID: -1})
			continue
		}
		res = append(res, peerSnap{ID: p.ID, Addr: p.Addr,
			Conns: append([]*p2p.Conn{}, p.Conns...)})
	}
	return res
}

// checkTable compares one party's snapshot with the list model.
func checkTable(n, k, self int, snap []peerSnap) string {
	byID := map[int][]peerSnap{}
	for _, p := range snap {
		byID[p.ID] = append(byID[p.ID], p)
	}
	var bad []string
	seen := map[*p2p.Conn]string{}
	for q := 0; q < n; q++ {
		es := byID[q]
		if len(es) != 1 {
			bad = append(bad, fmt.Sprintf("peer %d listed %d times", q, len(es)))
			continue
		}
		if q == self {
			continue
		}
		if len(es[0].Conns) != k {
			bad = append(bad, fmt.Sprintf("peer %d has %d connection slots, want %d",
				q, len(es[0].Conns), k))
		}
		for i, c := range es[0].Conns {
			where := fmt.Sprintf("peer %d conn %d", q, i)
			if c == nil {
				bad = append(bad, where+" is nil")
				continue
			}
			if other, dup := seen[c]; dup {
				bad = append(bad, where+" is the same connection as "+other)
			}
			seen[c] = where
		}
	}
	for id := range byID {
		if id < 0 || id >= n {
			bad = append(bad, fmt.Sprintf("unexpected peer id %d", id))
		}
	}
	sort.Strings(bad)
	return strings.Join(bad, "; ")
}

func token(kind string, from, to, k int, nonce uint64) string {
	return fmt.Sprintf("%s:%d>%d#%d/%016x", kind, from, to, k, nonce)
}

func connOf(snap []peerSnap, id, k int) *p2p.Conn {
	for _, p := range snap {
		if p.ID == id && k < len(p.Conns) {
			return p.Conns[k]
		}
	}
	return nil
}

// exchange does the token round trip over the snapshots.  It returns "" or a
// description of the first mismatch.
func (m *mesh) exchange(snaps [][]peerSnap) (sig, msg string) {
	n, k := m.cs.Parties, m.cs.Conns
	for i := 0; i < n; i++ {
		for j := i + 1; j < n; j++ {
			for c := 0; c < k; c++ {
				conn := connOf(snaps[i], j, c)
				if err := conn.SendString(token("tok", i, j, c, m.cs.Nonce)); err != nil {
					return "token/send-error", fmt.Sprintf("party %d -> %d conn %d: send: %v", i, j, c, err)
				}
				if err := conn.Flush(); err != nil {
					return "token/send-error", fmt.Sprintf("party %d -> %d conn %d: flush: %v", i, j, c, err)
				}
				m.touch()
			}
		}
	}
	for i := 0; i < n; i++ {
		for j := i + 1; j < n; j++ {
			for c := 0; c < k; c++ {
				conn := connOf(snaps[j], i, c)
				m.setState(j, fmt.Sprintf("token: waiting for party %d on conn %d", i, c))
				got, err := conn.ReceiveString()
				if err != nil {
					return "token/receive-error", fmt.Sprintf("party %d <- %d conn %d: receive: %v", j, i, c, err)
				}
				want := token("tok", i, j, c, m.cs.Nonce)
				if got != want {
					return "token/cross-wired", fmt.Sprintf(
						"party %d read %q on its Conns[%d] for peer %d, expected %q", j, got, c, i, want)
				}
				if err := conn.SendString(token("ack", j, i, c, m.cs.Nonce)); err != nil {
					return "token/send-error", fmt.Sprintf("party %d -> %d conn %d: send: %v", j, i, c, err)
				}
				if err := conn.Flush(); err != nil {
					return "token/send-error", fmt.Sprintf("party %d -> %d conn %d: flush: %v", j, i, c, err)
				}
				m.setState(j, "token: echoed")
			}
		}
	}
	for i := 0; i < n; i++ {
		for j := i + 1; j < n; j++ {
			for c := 0; c < k; c++ {
				conn := connOf(snaps[i], j, c)
				m.setState(i, fmt.Sprintf("token: waiting for echo of party %d on conn %d", j, c))
				got, err := conn.ReceiveString()
				if err != nil {
					return "token/receive-error", fmt.Sprintf("party %d <- %d conn %d: receive: %v", i, j, c, err)
				}
				want := token("ack", j, i, c, m.cs.Nonce)
				if got != want {
					return "token/cross-wired", fmt.Sprintf(
						"party %d read %q on its Conns[%d] for peer %d, expected %q", i, got, c, j, want)
				}
				m.setState(i, "token: done")
			}
		}
	}
	return "", ""
}

// noTimeWait makes the TCP connections of a finished mesh close with a reset
// instead of the FIN handshake.  Thousands of meshes per minute otherwise leave
// >100 000 sockets in TIME_WAIT, and the kernel then has no free port left to
// hand out for 127.0.0.1:0.  This is socket hygiene after the oracle has
// finished; it reaches the unexported net.Conn under p2p.Conn by reflection.
func noTimeWait(nw *p2p.Network) {
	defer func() { recover() }()
	for _, p := range nw.Peers {
		if p == nil {
			continue
		}
		for _, c := range p.Conns {
			if c == nil {
				continue
			}
			f := reflect.ValueOf(c).Elem().FieldByName("conn")
			if !f.IsValid() {
				continue
			}
			rw := reflect.NewAt(f.Type(), unsafe.Pointer(f.UnsafeAddr())).Elem().Interface()
			if tc, ok := rw.(*net.TCPConn); ok {
				tc.SetLinger(0)
			}
		}
	}
}

func safeClose(nw *p2p.Network) {
	defer func() { recover() }()
	nw.Close()
}

// shutdown closes everything the mesh opened and waits (bounded) until the
// goroutines of the case are gone, so that cases do not leak into each other.
func (m *mesh) shutdown(baseline int) {
	m.dead.Store(true)
	m.mu.Lock()
	nets := append([]*p2p.Network{}, m.nets...)
	m.mu.Unlock()
	var wg sync.WaitGroup
	for _, nw := range nets {
		if nw != nil {
			noTimeWait(nw)
		}
	}
	for _, nw := range nets {
		if nw == nil {
			continue
		}
		wg.Add(1)
		go func(nw *p2p.Network) {
			defer wg.Done()
			safeClose(nw)
		}(nw)
	}
	ch := make(chan struct{})
	go func() { wg.Wait(); close(ch) }()
	select {
	case <-ch:
	case <-time.After(3 * time.Second):
	}
	deadline := time.Now().Add(2 * time.Second)
	for runtime.NumGoroutine() > baseline && time.Now().Before(deadline) {
		time.Sleep(500 * time.Microsecond)
	}
}

func (m *mesh) describe() string {
	m.mu.Lock()
	defer m.mu.Unlock()
	var sb strings.Builder
	sb.WriteString("party states:")
	for p, s := range m.state {
		fmt.Fprintf(&sb, " p%d=%q", p, s)
	}
	sb.WriteString("\nevents in observed order:")
	for i, e := range m.log {
		if i >= 400 {
			fmt.Fprintf(&sb, " ... (%d more)", len(m.log)-i)
			break
		}
		sb.WriteString(" " + e.String())
	}
	return sb.String()
}

var devNull *os.File

// runMesh executes the case once.  stall is the time without any observable
// progress after which the mesh is declared hung; cap bounds the whole run.
func runMesh(cs Case, stall, cap time.Duration) (res result) {
	n, k := cs.Parties, cs.Conns
	if n < 2 || n > 16 || k < 1 || k > 16 || len(cs.Order) != n-1 {
		return result{kind: "infra", msg: "malformed case"}
	}
	seenOrder := map[int]bool{}
	for _, p := range cs.Order {
		if p < 1 || p >= n || seenOrder[p] {
			return result{kind: "infra", msg: "malformed join order"}
		}
		seenOrder[p] = true
	}

	// The library logs every dial and every new peer to stdout.
	if devNull == nil {
		devNull, _ = os.OpenFile(os.DevNull, os.O_WRONLY, 0)
	}
	if devNull != nil {
		saved := os.Stdout
		os.Stdout = devNull
		defer func() { os.Stdout = saved }()
	}

	baseline := runtime.NumGoroutine()
	m := &mesh{cs: cs, count: map[string][]int{}, nets: make([]*p2p.Network, n),
		state: make([]string, n)}
	for _, kind := range []string{"dial", "accept", "register"} {
		m.count[kind] = make([]int, n)
	}
	m.touch()
	current.Store(m)
	t0 := time.Now()
	defer func() {
		t1 := time.Now()
		m.shutdown(baseline)
		current.CompareAndSwap(m, nil)
		col := ev.Get(prop)
		col.Count("time-mesh-ms", int(t1.Sub(t0).Milliseconds()))
		col.Count("time-shutdown-ms", int(time.Since(t1).Milliseconds()))
		if runtime.NumGoroutine() > baseline {
			col.Count("meshes-with-lingering-goroutines", 1)
		}
	}()

	addrs, reserve, err := freeAddrs(n)
	if err != nil {
		return result{kind: "infra", msg: "no free ports: " + err.Error()}
	}
	defer func() {
		for _, l := range reserve {
			l.Close() // closing twice is harmless
		}
	}()
	reserve[0].Close()
	leader, err := p2p.Create(addrs[0], n, k)
	if err != nil {
		if strings.Contains(err.Error(), "address already in use") {
			return result{kind: "infra", msg: "port busy: " + err.Error()}
		}
		return result{kind: "fail", sig: "create/error", msg: "Create: " + err.Error()}
	}
	m.nets[0] = leader
	m.setState(0, "created")

	// Start offsets of the Joins.
	joinAt := make([]int, n)
	acc := 0
	for i, p := range cs.Order {
		if i < len(cs.JoinGap) {
			acc += cs.JoinGap[i]
		}
		joinAt[p] = acc
	}

	done := make(chan partyResult, 2*n)
	for p := 0; p < n; p++ {
		go func(p int) {
			r := partyResult{party: p, phase: "join"}
			defer func() {
				if x := recover(); x != nil {
					buf := make([]byte, 4096)
					buf = buf[:runtime.Stack(buf, false)]
					r.pnc = fmt.Sprintf("%v\n%s", x, buf)
				}
				done <- r
			}()
			nw := leader
			if p > 0 {
				usleep(joinAt[p])
				m.setState(p, "in Join")
				var err error
				reserve[p].Close()
				nw, err = p2p.Join(addrs[0], addrs[p], p, k)
				if err != nil {
					r.err = err
					return
				}
				m.mu.Lock()
				m.nets[p] = nw
				m.mu.Unlock()
				m.setState(p, "joined")
			}
			if p < len(cs.ConnectDelay) {
				usleep(cs.ConnectDelay[p])
			}
			r.phase = "connect"
			m.setState(p, "in Connect")
			r.err = nw.Connect()
			if r.err == nil {
				// What a caller sees the moment Connect returns.
				r.snap = snapshot(nw)
			}
			m.setState(p, "Connect returned")
		}(p)
	}

	snaps := make([][]peerSnap, n)
	var failures []partyResult
	tick := time.NewTicker(20 * time.Millisecond)
	defer tick.Stop()
	began := time.Now()
	timedOut := func() bool {
		now := time.Now()
		limit := stall
		if m.suspect.Load() && limit > 500*time.Millisecond {
			limit = 500 * time.Millisecond
		}
		return now.Sub(time.Unix(0, m.last.Load())) > limit || now.Sub(began) > cap
	}
	for got := 0; got < n; {
		select {
		case r := <-done:
			got++
			m.touch()
			if r.err != nil || r.pnc != "" {
				failures = append(failures, r)
			} else {
				snaps[r.party] = r.snap
			}
		case <-tick.C:
			if len(failures) > 0 {
				// One party failed; the others may legitimately wait forever.
				// Give them a moment to report their own error, then stop.
				if time.Since(time.Unix(0, m.last.Load())) > 200*time.Millisecond {
					got = n
				}
				continue
			}
			if timedOut() {
				sig, why := m.diagnoseHang()
				return result{kind: "timeout", sig: sig,
					msg: "connection setup made no progress (watchdog " + stall.String() + "): " + why + "\n" + m.describe()}
			}
		}
	}
	if len(failures) > 0 {
		sort.Slice(failures, func(i, j int) bool { return failures[i].party < failures[j].party })
		var sb strings.Builder
		sig := "connect/error"
		for _, f := range failures {
			if f.pnc != "" {
				sig = "connect/panic"
				fmt.Fprintf(&sb, "party %d panicked in %s: %s\n", f.party, f.phase, f.pnc)
				continue
			}
			if f.phase == "join" {
				if strings.Contains(f.err.Error(), "address already in use") {
					return result{kind: "infra", msg: "port busy: " + f.err.Error()}
				}
				sig = "join/error"
			}
			fmt.Fprintf(&sb, "party %d: %s returned %v\n", f.party, f.phase, f.err)
		}
		if short, why := m.leaderListShort(); short {
			sig = "leader-skipped-peer/connect-error"
			sb.WriteString(why + "\n")
		}
		return result{kind: "fail", sig: sig, msg: sb.String() + m.describe()}
	}

	// Peer tables at the moment Connect returned.
	var tableBad []string
	for p := 0; p < n; p++ {
		if s := checkTable(n, k, p, snaps[p]); s != "" {
			tableBad = append(tableBad, fmt.Sprintf("party %d: %s", p, s))
		}
	}
	lateNote := ""
	if len(tableBad) > 0 {
		// Does the table complete itself a little later (late registration) or
		// is the connection lost for good?  The longest drawn delay is 20 ms,
		// but on an oversubscribed machine a single goroutine can be off the
		// CPU for 100 ms and more, hence the generous limit.
		late := false
		for try := 0; try < 2000 && !late; try++ {
			time.Sleep(time.Millisecond)
			late = true
			for p := 0; p < n; p++ {
				snaps[p] = snapshot(m.nets[p])
				if checkTable(n, k, p, snaps[p]) != "" {
					late = false
				}
			}
		}
		if !late {
			return result{kind: "fail", sig: "table/incomplete",
				msg: "peer table when Connect returned: " + strings.Join(tableBad, " | ") +
					" (the tables are still wrong 2 s later)\n" + m.describe()}
		}
		// Keep checking behind this failure with the completed tables; it is
		// reported at the end unless something else is wrong as well.
		lateNote = "peer table at the moment Connect returned: " + strings.Join(tableBad, " | ") +
			" (the tables are complete a few ms later: Connect returned before the last accepted connection was entered into the peer table)"
	}

	// Token round trip.
	type xres struct{ sig, msg string }
	xch := make(chan xres, 1)
	go func() {
		defer func() {
			if x := recover(); x != nil {
				xch <- xres{"token/panic", fmt.Sprint(x)}
			}
		}()
		s, msg := m.exchange(snaps)
		xch <- xres{s, msg}
	}()
	m.touch()
	var xr xres
wait:
	for {
		select {
		case xr = <-xch:
			break wait
		case <-tick.C:
			if timedOut() {
				return result{kind: "timeout", sig: "hang/token",
					msg: "token round trip made no progress for " + stall.String() + "\n" + m.describe()}
			}
		}
	}
	if xr.sig != "" {
		return result{kind: "fail", sig: xr.sig, msg: xr.msg + "\n" + m.describe()}
	}

	// Event counts against the list model.
	m.mu.Lock()
	log := append([]event{}, m.log...)
	count := map[string][]int{}
	for kind, c := range m.count {
		count[kind] = append([]int{}, c...)
	}
	m.mu.Unlock()
	var bad []string
	regs := map[[3]int]int{}
	lastKey := make([][2]int, n)
	for _, e := range log {
		if e.Kind != "register" {
			continue
		}
		regs[[3]int{e.Party, e.Peer, e.ConnID}]++
		key := [2]int{e.ConnID, e.Peer}
		if e.Index > 0 && (key[0] < lastKey[e.Party][0] ||
			key[0] == lastKey[e.Party][0] && key[1] < lastKey[e.Party][1]) {
			res.reordered = true
		}
		lastKey[e.Party] = key
	}
	for p := 0; p < n; p++ {
		if got, want := count["dial"][p], numDials(n, k, p); got != want {
			bad = append(bad, fmt.Sprintf("party %d dialled %d times, model says %d", p, got, want))
		}
		if got, want := count["accept"][p], numAccepts(n, k, p); got != want {
			bad = append(bad, fmt.Sprintf("party %d handled %d inbound connections, model says %d", p, got, want))
		}
		for q := 0; q < n; q++ {
			for c := 0; c < k; c++ {
				want := 0
				if q != p && (p == 0 || (q != 0 && q < p)) {
					want = 1
				}
				if got := regs[[3]int{p, q, c}]; got != want {
					bad = append(bad, fmt.Sprintf(
						"party %d registered connection %d from peer %d %d times, model says %d", p, c, q, got, want))
				}
			}
		}
	}
	if len(bad) > 0 {
		return result{kind: "fail", sig: "events/count", msg: strings.Join(bad, "; ") + "\n" + m.describe()}
	}
	if lateNote != "" {
		return result{kind: "fail", sig: "table/incomplete-when-connect-returns",
			msg: lateNote + "\n" + m.describe()}
	}
	res.kind = "ok"
	return res
}

// leaderListShort tells whether the leader sent out a peer list that lacks a
// party: the hook saw it sending before the last first connection was in its
// peer table, or a joiner that did receive the list was told fewer parties
// than the mesh has.
func (m *mesh) leaderListShort() (bool, string) {
	n := m.cs.Parties
	m.mu.Lock()
	defer m.mu.Unlock()
	if m.suspect.Load() {
		return true, "the leader started to send the peer list while a counted first connection was not yet in its peer table"
	}
	for j := 1; j < n; j++ {
		nw := m.nets[j]
		if nw == nil {
			continue
		}
		for _, p := range nw.Peers {
			if p != nil && p.ID == 0 && len(p.Conns) > 0 && p.Conns[0] != nil &&
				p.Conns[0].Stats.Recvd.Load() > 0 && nw.NumParties < n {
				return true, fmt.Sprintf("party %d was told by the leader that the mesh has %d parties, it has %d",
					j, nw.NumParties, n)
			}
		}
	}
	return false, ""
}

// diagnoseHang names the hang.  A joiner that is still inside Connect and has
// not received a single byte from the leader although the leader has counted
// the first connection of every party was left out when the leader sent the
// peer list.
func (m *mesh) diagnoseHang() (sig, why string) {
	if short, why := m.leaderListShort(); short {
		return "leader-skipped-peer/hang", why
	}
	n := m.cs.Parties
	m.mu.Lock()
	defer m.mu.Unlock()
	regs0 := 0
	for _, e := range m.log {
		if e.Party == 0 && e.Kind == "register" && e.ConnID == 0 {
			regs0++
		}
	}
	if regs0 == n-1 {
		for j := 1; j < n; j++ {
			nw := m.nets[j]
			if nw == nil || m.state[j] != "in Connect" {
				continue
			}
			for _, p := range nw.Peers {
				if p != nil && p.ID == 0 && len(p.Conns) > 0 && p.Conns[0] != nil &&
					p.Conns[0].Stats.Recvd.Load() == 0 {
					return "leader-skipped-peer/hang", fmt.Sprintf(
						"the leader counted the first connection of all %d joiners, but party %d never received the peer list (0 bytes from the leader) and waits in Connect forever", n-1, j)
				}
			}
		}
	}
	return "hang/setup", "no party is making progress"
}

// ---------------------------------------------------------------------------

var (
	stallFirst   = 3 * time.Second
	stallConfirm = 5 * time.Second
	capTotal     = 30 * time.Second

	// Confirmed hangs by case: the 3 confirmation runs have already been
	// done, re-executions of the identical case (rapid's final re-run, the
	// driver's flakiness probe) need not pay for them again.
	hangMu    sync.Mutex
	hangCache = map[string]result{}
)

// infraReason strips addresses from an infrastructure error so that the
// skipped-counter keys stay few.
func infraReason(msg string) string {
	parts := strings.Split(msg, ": ")
	if len(parts) > 2 {
		return parts[0] + ": " + parts[len(parts)-1]
	}
	return msg
}

func schedule(cs Case) string {
	data, _ := json.Marshal(cs)
	return string(data)
}

func run(cs Case) ev.Outcome {
	col := ev.Get(prop)
	key := schedule(cs)
	hangMu.Lock()
	cached, isCached := hangCache[key]
	hangMu.Unlock()

	var r result
	if isCached {
		r = cached
	} else {
		for attempt := 0; attempt < 4; attempt++ {
			r = runMesh(cs, stallFirst, capTotal)
			if r.kind != "infra" || r.msg == "malformed case" || r.msg == "malformed join order" {
				break
			}
			col.Count("port-retries", 1)
		}
	}
	switch r.kind {
	case "infra":
		return ev.Outcome{Skip: "infrastructure: " + infraReason(r.msg)}
	case "timeout":
		if !isCached && !col.IsKnown(r.sig) {
			// A budget hit is a violation only if the same schedule hangs
			// again in three fresh executions.
			for i := 0; i < 3; i++ {
				again := runMesh(cs, stallConfirm, capTotal)
				if again.kind != "timeout" {
					col.Count("timeouts-not-reproduced", 1)
					first := r.msg
					if len(first) > 1500 {
						first = first[:1500] + "..."
					}
					col.Note("a mesh hit the watchdog once (%s) and did not hang again on re-execution; counted as skipped. schedule: %s first execution: %s", r.sig, key, first)
					return ev.Outcome{Skip: "watchdog hit not reproduced"}
				}
			}
			hangMu.Lock()
			hangCache[key] = r
			hangMu.Unlock()
		}
		return ev.Fail(r.sig, "%s (a hang is only reported when 4 of 4 executions of the schedule hang, unless it is a listed known finding)\nschedule: %s", r.msg, key)
	case "fail":
		return ev.Fail(r.sig, "%s\nschedule: %s", r.msg, key)
	}

	// Classes.
	n, k := cs.Parties, cs.Conns
	nonzero, total, maxd := 0, 0, 0
	for _, tab := range [][][]int{cs.Dial, cs.Accept, cs.Register} {
		for _, row := range tab {
			for _, d := range row {
				total++
				if d > 0 {
					nonzero++
				}
				if d > maxd {
					maxd = d
				}
			}
		}
	}
	classes := []string{fmt.Sprintf("parties=%d", n), fmt.Sprintf("conns=%d", k)}
	switch {
	case nonzero == 0:
		classes = append(classes, "event-delays=none")
	case nonzero*4 < total:
		classes = append(classes, "event-delays=few")
	default:
		classes = append(classes, "event-delays=many")
	}
	if maxd >= 5000 {
		classes = append(classes, "event-delay>=5ms")
	}
	identity := true
	for i, p := range cs.Order {
		if p != i+1 {
			identity = false
		}
	}
	if !identity {
		classes = append(classes, "join-order-permuted")
	}
	concurrent := false
	for i, g := range cs.JoinGap {
		if i > 0 && g == 0 {
			concurrent = true
		}
	}
	if concurrent {
		classes = append(classes, "concurrent-joins")
	}
	lateLeader := len(cs.ConnectDelay) > 0 && cs.ConnectDelay[0] > 0
	if lateLeader {
		classes = append(classes, "leader-connects-late")
	}
	for p := 1; p < len(cs.ConnectDelay); p++ {
		if cs.ConnectDelay[p] >= 1000 {
			classes = append(classes, "some-joiner-connects-late")
			break
		}
	}
	regDelays := false
	for _, row := range cs.Register {
		for _, d := range row {
			if d > 0 {
				regDelays = true
			}
		}
	}
	if regDelays {
		classes = append(classes, "register-delays")
	}
	if r.reordered {
		classes = append(classes, "accept-order-noncanonical")
	}
	// Non-trivial: a real mesh (>= 3 parties, >= 2 connections per pair) whose
	// schedule was perturbed by at least one event delay.
	return ev.OK(n >= 3 && k >= 2 && nonzero > 0, classes...)
}

func TestMesh(t *testing.T) {
	ev.Check(t, ev.Get(prop), "mesh", genCase, run)
}

func TestReplay(t *testing.T) { ev.Replay(t, ev.Get(prop)) }
