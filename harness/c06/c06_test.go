// C06: oblivious transfer delivers exactly the chosen label.
//
// Units:
//
//	iknp       raw extension: IKNPSender.Send/IKNPReceiver.Receive (both
//	           adversary modes) and SendBits/ReceiveBits, several batches
//	           on ONE initialised pair (per-column PRG streams must stay in
//	           lock step), oracle recv = sent xor choice*Delta
//	ot         the ot.OT implementations RSA, CO, COT, ROT (x malicious x
//	           shared, re-initialisation), several batches per instance,
//	           oracle result[i] == wires[i].L{choice[i]}
//	cohelpers  GenerateCOSenderSetup / BuildCOChoices / EncryptCOCiphertexts
//	           / DecryptCOCiphertexts on P-224, P-256, P-384, P-521
//	sizes      every batch size 1..N of the raw extension (TestSizes)
//	cosizes    deterministic size sweep of the base OTs: CO, the helper
//	           pipeline and RSA on both sides of 128/256/512/1024
//	           (TestCOSizes; its cases are ot / cohelpers cases)
package c06

import (
	"crypto/elliptic"
	"fmt"
	"math/big"
	"testing"

	"github.com/markkurossi/mpc/ot"
	"pgregory.net/rapid"

	"verifharness/internal/ev"
	"verifharness/internal/gen"
)

const prop = "C06"

func init() {
	ev.Register("iknp", runIKNP)
	ev.Register("ot", runOT)
	ev.Register("cohelpers", runHelpers)
}

// ---------------------------------------------------------------------------
// Unit iknp

// IBatch is one extension batch on the shared pair.
type IBatch struct {
	// Op: labels | labels-mal | bits
	Op string `json:"op"`
	N  int    `json:"n"`
	Ch Choice `json:"choice"`
	// Stray (bits only): the bits of the last choice word above n are set,
	// as real callers pass whole random words (gmw/triples.go).
	Stray bool `json:"stray,omitempty"`
}

// ICase is one initialised IKNP pair and its batches.
type ICase struct {
	Base string `json:"base"` // ideal | co
	Seed uint64 `json:"seed"`
	// Delta: nil = drawn by NewIKNPSender from its reader, else {D0, D1}
	// passed as the optional delta.
	Delta   []uint64 `json:"delta,omitempty"`
	Batches []IBatch `json:"batches"`
}

func genICase(t *rapid.T) ICase {
	var cs ICase
	cs.Base = rapid.SampledFrom([]string{"ideal", "ideal", "ideal", "ideal",
		"ideal", "co"}).Draw(t, "base")
	cs.Seed = rapid.Uint64().Draw(t, "seed")
	switch rapid.IntRange(0, 3).Draw(t, "deltamode") {
	case 0:
	case 1: // Delta bit 0 set: the packed-bit form depends on it
		cs.Delta = []uint64{rapid.Uint64().Draw(t, "d0") | 1, rapid.Uint64().Draw(t, "d1")}
	case 2:
		cs.Delta = []uint64{rapid.Uint64().Draw(t, "d0") &^ 1, rapid.Uint64().Draw(t, "d1")}
	default:
		s := gen.NewDRBG(rapid.Uint64().Draw(t, "dseed"), 5)
		cs.Delta = []uint64{s.Uint64(), s.Uint64()}
	}
	nb := rapid.IntRange(1, 6).Draw(t, "nbatches")
	for i := 0; i < nb; i++ {
		var b IBatch
		b.Op = rapid.SampledFrom([]string{"labels", "labels", "labels-mal",
			"bits", "bits"}).Draw(t, "op")
		b.N = drawN(t, 3000)
		b.Ch = drawChoice(t, b.N)
		if b.Op == "bits" {
			b.Stray = rapid.Bool().Draw(t, "stray")
		}
		cs.Batches = append(cs.Batches, b)
	}
	return cs
}

func packBits(b []bool, stray bool) []uint64 {
	n := len(b)
	w := make([]uint64, (n+63)/64)
	for i, f := range b {
		if f {
			w[i/64] |= 1 << (i % 64)
		}
	}
	if stray && n%64 != 0 {
		w[len(w)-1] |= ^uint64(0) << (n % 64)
	}
	return w
}

// partialWordRegion returns the row range [lo, n) of the last chunk of a
// packed-bit batch of n rows that lies in a partial (not 8-byte) tail of the
// chunk's column: rows = n - ofs, byteRows = ceil(rows/8), the full words are
// byteRows/8.  Used only to give the known defect of ReceiveBits a precise
// signature; the oracle itself does not depend on it.
func partialWordRegion(n int) (lo int) {
	ofs := (n - 1) / 512 * 512
	rows := n - ofs
	byteRows := (rows + 7) / 8
	if byteRows%8 == 0 {
		return n
	}
	return ofs + byteRows/8*64
}

type batchFail struct {
	sig, msg string
}

func runIKNP(cs ICase) ev.Outcome {
	if len(cs.Batches) == 0 {
		return ev.Outcome{Skip: "no batches"}
	}
	sp, rp := ot.NewPipe()
	var baseS, baseR ot.OT
	switch cs.Base {
	case "co":
		baseS = ot.NewCO(gen.NewDRBG(cs.Seed, 10))
		baseR = ot.NewCO(gen.NewDRBG(cs.Seed, 11))
	default:
		io := newIdealOT()
		baseS, baseR = io, io
	}
	var delta *ot.Label
	if len(cs.Delta) == 2 {
		delta = &ot.Label{D0: cs.Delta[0], D1: cs.Delta[1]}
	}
	nb := len(cs.Batches)
	choices := make([][]bool, nb)
	for i, b := range cs.Batches {
		if b.N < 1 {
			return ev.Outcome{Skip: "empty batch"}
		}
		choices[i] = b.Ch.bits(b.N)
	}
	sentL := make([][]ot.Label, nb)
	recvL := make([][]ot.Label, nb)
	sentB := make([][]uint64, nb)
	recvB := make([][]uint64, nb)
	var sender *ot.IKNPSender

	serr, rerr, hung := runPair(sp, rp, func() error {
		// As in gmw/triples.go, vole/vole.go and the repository's tests
		// the extension sender initialises the base OT as its sender.
		if err := baseS.InitSender(sp); err != nil {
			return fmt.Errorf("base InitSender: %w", err)
		}
		s, err := ot.NewIKNPSender(baseS, sp, gen.NewDRBG(cs.Seed, 12), delta)
		if err != nil {
			return fmt.Errorf("NewIKNPSender: %w", err)
		}
		sender = s
		for i, b := range cs.Batches {
			switch b.Op {
			case "bits":
				sentB[i] = make([]uint64, (b.N+63)/64)
				err = s.SendBits(b.N, sentB[i])
			default:
				sentL[i], err = s.Send(b.N, b.Op == "labels-mal")
			}
			if err != nil {
				return fmt.Errorf("batch %d (%s n=%d): %w", i, b.Op, b.N, err)
			}
		}
		return nil
	}, func() error {
		if err := baseR.InitReceiver(rp); err != nil {
			return fmt.Errorf("base InitReceiver: %w", err)
		}
		r, err := ot.NewIKNPReceiver(baseR, rp, gen.NewDRBG(cs.Seed, 13))
		if err != nil {
			return fmt.Errorf("NewIKNPReceiver: %w", err)
		}
		for i, b := range cs.Batches {
			switch b.Op {
			case "bits":
				recvB[i] = make([]uint64, (b.N+63)/64)
				err = r.ReceiveBits(packBits(choices[i], b.Stray), recvB[i], b.N)
			default:
				recvL[i] = make([]ot.Label, b.N)
				err = r.Receive(choices[i], recvL[i], b.Op == "labels-mal")
			}
			if err != nil {
				return fmt.Errorf("batch %d (%s n=%d): %w", i, b.Op, b.N, err)
			}
		}
		return nil
	})
	if f := partyFail("iknp", serr, rerr, hung, fmt.Sprintf("base=%s", cs.Base)); f != nil {
		return *f
	}
	D := sender.Delta
	if delta != nil && !D.Equal(*delta) {
		return ev.Fail("iknp/delta-not-used", "NewIKNPSender ignored the given delta")
	}
	d0 := D.Bit(0)

	var fails []batchFail
	for i, b := range cs.Batches {
		ctx := fmt.Sprintf("batch %d/%d op=%s n=%d choice=%s", i, nb, b.Op, b.N, b.Ch.Class)
		if b.Op != "bits" {
			if len(sentL[i]) != b.N {
				fails = append(fails, batchFail{"iknp/labels/count",
					fmt.Sprintf("%s: Send returned %d labels", ctx, len(sentL[i]))})
				continue
			}
			bad, first := 0, -1
			for j := 0; j < b.N; j++ {
				want := sentL[i][j]
				if choices[i][j] {
					want.Xor(D)
				}
				if !recvL[i][j].Equal(want) {
					if bad == 0 {
						first = j
					}
					bad++
				}
			}
			if bad > 0 {
				fails = append(fails, batchFail{"iknp/labels/wrong-label",
					fmt.Sprintf("%s: %d positions violate recv = sent xor choice*Delta, first at %d (choice=%v sent=%v recv=%v Delta=%v)",
						ctx, bad, first, choices[i][first], sentL[i][first], recvL[i][first], D)})
			}
			continue
		}
		var bad []int
		for j := 0; j < b.N; j++ {
			s := sentB[i][j/64] >> (j % 64) & 1
			r := recvB[i][j/64] >> (j % 64) & 1
			var c uint64
			if choices[i][j] && d0 == 1 {
				c = 1
			}
			if r != s^c {
				bad = append(bad, j)
			}
		}
		if len(bad) == 0 {
			continue
		}
		// Is it exactly the footprint of the partial-word defect?
		lo := partialWordRegion(b.N)
		var predicted []int
		if d0 == 1 {
			for j := lo; j < b.N; j++ {
				if choices[i][j] {
					predicted = append(predicted, j)
				}
			}
		}
		sig := "iknp/bits/wrong-bit"
		if fmt.Sprint(bad) == fmt.Sprint(predicted) {
			sig = "iknp/ReceiveBits/partial-word"
		}
		show := bad
		if len(show) > 12 {
			show = show[:12]
		}
		fails = append(fails, batchFail{sig,
			fmt.Sprintf("%s: %d of %d bits violate r = s xor (b & Delta.Bit(0)) with Delta.Bit(0)=%d; positions %v; rows of the last chunk not covered by whole 64-bit choice words start at %d",
				ctx, len(bad), b.N, d0, show, lo)})
	}
	if len(fails) > 0 {
		// A failure that is not the (possibly known) partial-word
		// footprint has priority, so the search continues behind it.
		pick := fails[0]
		for _, f := range fails {
			if f.sig != "iknp/ReceiveBits/partial-word" {
				pick = f
				break
			}
		}
		return ev.Fail(pick.sig, "%s", pick.msg)
	}

	var cl classSet
	cl.add("base=" + cs.Base)
	if delta == nil {
		cl.add("delta=from-reader")
	} else {
		cl.add("delta=given")
	}
	cl.add(fmt.Sprintf("Delta.Bit(0)=%d", d0))
	nt := nb > 1
	for i, b := range cs.Batches {
		cl.add("op="+b.Op, "choice="+b.Ch.Class)
		for _, s := range sizeClasses(b.N) {
			cl.add(b.Op + ":" + s)
		}
		if i > 0 {
			cl.add("op=" + b.Op + "@later-batch")
		}
		if b.Op == "bits" {
			if lo := partialWordRegion(b.N); lo < b.N {
				cl.add("bits:partial-word-tail")
			}
			if b.Stray && b.N%64 != 0 {
				cl.add("bits:stray-choice-bits")
			}
		}
		if nontrivialN(b.N) {
			nt = true
		}
	}
	if nb > 1 {
		cl.add("multi-batch")
	}
	out := ev.OK(nt, cl.list...)
	out.Evals = nb
	return out
}

func TestIKNP(t *testing.T) {
	ev.Check(t, ev.Get(prop), "iknp", genICase, runIKNP)
}

// TestSizes runs every batch size 1..N through a fresh pair: label form,
// malicious label form and packed-bit form in one instance, choices random
// for odd n and all-one for even n, Delta bit 0 alternating in blocks.
func TestSizes(t *testing.T) {
	col := ev.Get(prop)
	maxN := col.N(1100, 3100)
	shard, nshards := ev.Shard()
	ev.Each(t, col, "iknp", func(yield func(ICase) bool) {
		for n := 1; n <= maxN; n++ {
			if n%nshards != shard {
				continue
			}
			ch := Choice{Class: "random", Seed: uint64(n) * 0x9e3779b97f4a7c15}
			if n%2 == 0 {
				ch = Choice{Class: "one"}
			}
			d0 := uint64(0xa5a5a5a5a5a5a5a4)
			if n/3%2 == 0 {
				d0 |= 1
			}
			yield(ICase{Base: "ideal", Seed: uint64(n), Delta: []uint64{d0, uint64(n) * 31},
				Batches: []IBatch{
					{Op: "labels", N: n, Ch: ch},
					{Op: "bits", N: n, Ch: ch, Stray: n%4 < 2},
					{Op: "labels-mal", N: n, Ch: ch},
					{Op: "bits", N: n, Ch: Choice{Class: "random", Seed: uint64(n)}},
				}})
		}
	}, runIKNP)
	col.Note("size sweep: every n in 1..%d x {labels, bits, labels-mal, bits} on one pair (ideal base OT)", maxN)
}

// ---------------------------------------------------------------------------
// Unit ot

// OBatch is one Send/Receive on the shared OT instance pair.
type OBatch struct {
	N  int    `json:"n"`
	Ch Choice `json:"choice"`
	// Reinit: InitSender/InitReceiver are called again before this batch
	// (CO always allows it; COT/ROT only in shared mode, where the call
	// is documented to be ignored).
	Reinit bool `json:"reinit,omitempty"`
}

// OCase is one pair of ot.OT instances and its batches.
type OCase struct {
	Kind    string   `json:"kind"` // rsa | co | cot | rot
	Base    string   `json:"base,omitempty"`
	Mal     bool     `json:"malicious,omitempty"`
	Shared  bool     `json:"shared,omitempty"`
	KeyBits int      `json:"keybits,omitempty"`
	Seed    uint64   `json:"seed"`
	Batches []OBatch `json:"batches"`
	// Blind (rsa only): classes of the receiver's blinding value, one per
	// transfer, cyclic (see rsablind_test.go); empty = uniform randomness.
	Blind []string `json:"blind,omitempty"`
}

func genOCase(t *rapid.T) OCase {
	var cs OCase
	cs.Kind = rapid.SampledFrom([]string{"rsa", "co", "co", "co", "cot", "cot",
		"cot", "cot", "cot", "rot", "rot", "rot", "rot", "rot"}).Draw(t, "kind")
	cs.Seed = rapid.Uint64().Draw(t, "seed")
	// Base OTs (measured: CO about 0.2 ms per wire, RSA-1024 1.3 ms,
	// RSA-2048 9 ms): mostly small batches, a fraction of large ones on
	// both sides of 128/256/512/1024 (see drawBaseN).  RSA-2048 stays
	// small here; the cosizes unit runs it once at n=129.
	maxN, maxB := 3000, 5
	small, large, tenths := 0, 0, 0
	switch cs.Kind {
	case "rsa":
		cs.KeyBits = rapid.SampledFrom([]int{1024, 1024, 1024, 2048}).Draw(t, "keybits")
		maxB = 2
		small, large, tenths = 12, 12, 0
		if cs.KeyBits == 1024 {
			large, tenths = 300, 2
		}
		if rapid.IntRange(0, 2).Draw(t, "blind") > 0 {
			n := rapid.IntRange(1, 6).Draw(t, "nblind")
			for i := 0; i < n; i++ {
				cs.Blind = append(cs.Blind, blindClasses[gen.Uniform(t, len(blindClasses), "blindclass")])
			}
		}
	case "co":
		maxB = 3
		small, large, tenths = 140, 1100, 3
	default:
		cs.Base = rapid.SampledFrom([]string{"ideal", "ideal", "ideal", "co"}).Draw(t, "base")
		cs.Mal = rapid.Bool().Draw(t, "malicious")
		cs.Shared = rapid.Bool().Draw(t, "shared")
	}
	nb := rapid.IntRange(1, maxB).Draw(t, "nbatches")
	for i := 0; i < nb; i++ {
		var b OBatch
		if small > 0 {
			b.N = drawBaseN(t, small, large, tenths)
		} else {
			b.N = drawN(t, maxN)
		}
		b.Ch = drawChoice(t, b.N)
		if i > 0 && (cs.Kind == "co" || cs.Shared) {
			b.Reinit = rapid.IntRange(0, 2).Draw(t, "reinit") == 0
		}
		cs.Batches = append(cs.Batches, b)
	}
	return cs
}

func newOT(cs OCase, role uint64, ideal *idealOT) ot.OT {
	r := gen.NewDRBG(cs.Seed, 20+role)
	switch cs.Kind {
	case "rsa":
		return ot.NewRSA(r, cs.KeyBits)
	case "co":
		return ot.NewCO(r)
	}
	var base ot.OT = ideal
	if cs.Base == "co" {
		base = ot.NewCO(gen.NewDRBG(cs.Seed, 30+role))
	}
	if cs.Kind == "cot" {
		return ot.NewCOT(base, r, cs.Mal, cs.Shared)
	}
	return ot.NewROT(base, r, cs.Mal, cs.Shared)
}

func runOT(cs OCase) ev.Outcome {
	nb := len(cs.Batches)
	if nb == 0 {
		return ev.Outcome{Skip: "no batches"}
	}
	switch cs.Kind {
	case "rsa", "co", "cot", "rot":
	default:
		return ev.Outcome{Skip: "unknown kind"}
	}
	if cs.Kind == "rsa" && cs.KeyBits < 1024 {
		return ev.Outcome{Skip: "RSA key size below Go's minimum"}
	}
	sp, rp := ot.NewPipe()
	ideal := newIdealOT()
	sender := newOT(cs, 0, ideal)
	receiver := newOT(cs, 1, ideal)

	wires := make([][]ot.Wire, nb)
	flags := make([][]bool, nb)
	result := make([][]ot.Label, nb)
	for i, b := range cs.Batches {
		if b.N < 1 {
			return ev.Outcome{Skip: "empty batch"}
		}
		if b.Reinit && !(cs.Kind == "co" || ((cs.Kind == "cot" || cs.Kind == "rot") && cs.Shared)) {
			return ev.Outcome{Skip: "re-init outside the documented contract"}
		}
		if cs.Kind == "rot" {
			wires[i] = make([]ot.Wire, b.N) // filled by ROT.Send
		} else {
			wires[i] = wiresFrom(cs.Seed, 100+uint64(i), b.N)
		}
		flags[i] = b.Ch.bits(b.N)
		result[i] = make([]ot.Label, b.N)
	}
	// The caller's wires must not be changed by Send (except ROT, whose
	// output they are).
	orig := make([][]ot.Wire, nb)
	for i := range wires {
		orig[i] = append([]ot.Wire(nil), wires[i]...)
	}

	var rio ot.IO = rp
	var blind *blindReader
	if cs.Kind == "rsa" && len(cs.Blind) > 0 {
		for _, c := range cs.Blind {
			ok := false
			for _, k := range blindClasses {
				ok = ok || k == c
			}
			if !ok {
				return ev.Outcome{Skip: "unknown blinding class"}
			}
		}
		var ms []*big.Int
		for i := range wires {
			for j, w := range wires[i] {
				l := w.L0
				if flags[i][j] {
					l = w.L1
				}
				ms = append(ms, encryptionBlock((cs.KeyBits+7)/8, l))
			}
		}
		blind = newBlindReader(cs.Seed, 21, cs.Blind, ms)
		receiver = ot.NewRSA(blind, cs.KeyBits)
		rio = &sniffIO{IO: rp, b: blind}
	}

	serr, rerr, hung := runPair(sp, rp, func() error {
		if err := sender.InitSender(sp); err != nil {
			return fmt.Errorf("InitSender: %w", err)
		}
		for i, b := range cs.Batches {
			if b.Reinit {
				if err := sender.InitSender(sp); err != nil {
					return fmt.Errorf("batch %d: InitSender again: %w", i, err)
				}
			}
			if err := sender.Send(wires[i]); err != nil {
				return fmt.Errorf("batch %d (n=%d): Send: %w", i, b.N, err)
			}
		}
		return nil
	}, func() error {
		if err := receiver.InitReceiver(rio); err != nil {
			return fmt.Errorf("InitReceiver: %w", err)
		}
		for i, b := range cs.Batches {
			if b.Reinit {
				if err := receiver.InitReceiver(rp); err != nil {
					return fmt.Errorf("batch %d: InitReceiver again: %w", i, err)
				}
			}
			if err := receiver.Receive(flags[i], result[i]); err != nil {
				return fmt.Errorf("batch %d (n=%d): Receive: %w", i, b.N, err)
			}
		}
		return nil
	})
	name := cs.Kind
	if cs.Mal {
		name += "+malicious"
	}
	if f := partyFail(cs.Kind, serr, rerr, hung, fmt.Sprintf("kind=%s base=%s shared=%v", name, cs.Base, cs.Shared)); f != nil {
		return *f
	}

	for i, b := range cs.Batches {
		bad, first := 0, -1
		other := 0
		for j := 0; j < b.N; j++ {
			want := wires[i][j].L0
			not := wires[i][j].L1
			if flags[i][j] {
				want, not = not, want
			}
			if !result[i][j].Equal(want) {
				if bad == 0 {
					first = j
				}
				bad++
				if result[i][j].Equal(not) {
					other++
				}
			}
		}
		if bad > 0 {
			return ev.Fail(cs.Kind+"/wrong-label",
				"kind=%s base=%s shared=%v batch %d/%d n=%d choice=%s reinit=%v: %d positions do not hold the chosen label (%d of them hold the other label), first at %d: choice=%v got %v, wire %v",
				name, cs.Base, cs.Shared, i, nb, b.N, b.Ch.Class, b.Reinit, bad, other, first,
				flags[i][first], result[i][first], wires[i][first])
		}
		if cs.Kind != "rot" {
			for j := range wires[i] {
				if wires[i][j] != orig[i][j] {
					return ev.Fail(cs.Kind+"/wires-modified",
						"kind=%s batch %d n=%d: Send changed the caller's wire %d", name, i, b.N, j)
				}
			}
		}
	}

	var cl classSet
	cl.add("kind=" + name)
	if cs.Base != "" {
		cl.add("base=" + cs.Base)
	}
	if cs.Kind == "cot" || cs.Kind == "rot" {
		cl.add(fmt.Sprintf("%s:shared=%v", cs.Kind, cs.Shared))
	}
	if cs.Kind == "rsa" {
		cl.add(fmt.Sprintf("rsa:keybits=%d", cs.KeyBits))
	}
	if blind != nil {
		blind.mu.Lock()
		for k, n := range blind.used {
			if n > 0 {
				cl.add("rsa:blinding=" + k)
			}
		}
		blind.mu.Unlock()
	}
	nt := nb > 1
	if cs.Kind == "co" || cs.Kind == "rsa" {
		ns := make([]int, nb)
		for i, b := range cs.Batches {
			ns[i] = b.N
			for _, s := range baseSizeClasses(b.N) {
				cl.add(cs.Kind + ":" + s)
			}
		}
		for _, s := range baseSeqClasses(ns) {
			cl.add(cs.Kind + ":" + s)
		}
	}
	for i, b := range cs.Batches {
		cl.add("choice=" + b.Ch.Class)
		for _, s := range sizeClasses(b.N) {
			cl.add(cs.Kind + ":" + s)
		}
		if i > 0 {
			cl.add(name + "@later-batch")
		}
		if b.Reinit {
			cl.add(cs.Kind + ":re-init")
		}
		if nontrivialN(b.N) {
			nt = true
		}
	}
	out := ev.OK(nt, cl.list...)
	out.Evals = nb
	return out
}

func TestOT(t *testing.T) {
	ev.Check(t, ev.Get(prop), "ot", genOCase, runOT)
}

// ---------------------------------------------------------------------------
// Unit cohelpers

// HBatch is one run of the pure helper pipeline.
type HBatch struct {
	N  int    `json:"n"`
	Ch Choice `json:"choice"`
	// Fresh: sample a new sender setup for this batch (CO.Send does so for
	// every call); otherwise the previous setup is reused.
	Fresh bool `json:"fresh"`
}

// HCase is a sequence of helper runs on one curve with shared readers.
type HCase struct {
	Curve   string   `json:"curve"`
	Seed    uint64   `json:"seed"`
	Batches []HBatch `json:"batches"`
}

func curveByName(name string) elliptic.Curve {
	switch name {
	case "P-224":
		return elliptic.P224()
	case "P-256":
		return elliptic.P256()
	case "P-384":
		return elliptic.P384()
	case "P-521":
		return elliptic.P521()
	}
	return nil
}

func genHCase(t *rapid.T) HCase {
	var cs HCase
	cs.Curve = rapid.SampledFrom([]string{"P-224", "P-256", "P-256", "P-384", "P-521"}).Draw(t, "curve")
	cs.Seed = rapid.Uint64().Draw(t, "seed")
	// Measured per wire (setup + choices + encrypt + decrypt): P-256 0.22 ms,
	// P-224 0.5 ms, P-384 1.4 ms, P-521 3.7 ms.  Large batches on both sides
	// of 128/256/512/1024 are a fraction of the cases, bounded per curve.
	// P-521 stays below 131 wires here; the cosizes unit runs it at 257.
	small, large, tenths := 70, 1100, 3
	switch cs.Curve {
	case "P-224":
		small, large, tenths = 70, 520, 2
	case "P-384":
		small, large, tenths = 20, 260, 1
	case "P-521":
		small, large, tenths = 20, 130, 1
	}
	nb := rapid.IntRange(1, 3).Draw(t, "nbatches")
	for i := 0; i < nb; i++ {
		var b HBatch
		b.N = drawBaseN(t, small, large, tenths)
		b.Ch = drawChoice(t, b.N)
		b.Fresh = i == 0 || rapid.Bool().Draw(t, "fresh")
		cs.Batches = append(cs.Batches, b)
	}
	return cs
}

func runHelpers(cs HCase) ev.Outcome {
	curve := curveByName(cs.Curve)
	if curve == nil || len(cs.Batches) == 0 {
		return ev.Outcome{Skip: "bad case"}
	}
	srand := gen.NewDRBG(cs.Seed, 40)
	rrand := gen.NewDRBG(cs.Seed, 41)
	var setup ot.COSenderSetup
	var cl classSet
	cl.add("curve=" + cs.Curve)
	nt := len(cs.Batches) > 1
	for i, b := range cs.Batches {
		if b.N < 1 {
			return ev.Outcome{Skip: "empty batch"}
		}
		ctx := fmt.Sprintf("curve=%s batch %d/%d n=%d choice=%s fresh=%v", cs.Curve, i, len(cs.Batches), b.N, b.Ch.Class, b.Fresh)
		var err error
		if b.Fresh || i == 0 {
			setup, err = ot.GenerateCOSenderSetup(srand, curve)
			if err != nil {
				return ev.Fail("cohelpers/setup-error", "%s: GenerateCOSenderSetup: %v", ctx, err)
			}
		} else {
			cl.add("setup-reused")
		}
		wires := wiresFrom(cs.Seed, 200+uint64(i), b.N)
		orig := append([]ot.Wire(nil), wires...)
		bits := b.Ch.bits(b.N)
		bundle, points, err := ot.BuildCOChoices(rrand, curve, setup.Ax, setup.Ay, bits)
		if err != nil {
			return ev.Fail("cohelpers/choices-error", "%s: BuildCOChoices: %v", ctx, err)
		}
		if len(points) != b.N {
			return ev.Fail("cohelpers/count", "%s: BuildCOChoices returned %d points", ctx, len(points))
		}
		// The receiver reuses its choice buffer (for the next batch of a
		// pipeline): the bundle is a value of its own - it is what
		// sha2pc persists between rounds - and must not change with it.
		choice := append([]bool(nil), bits...)
		if i%2 == 1 || b.N > 64 {
			for j := range bits {
				bits[j] = !bits[j]
			}
			cl.add("choice-buffer-reused-after-build")
		}
		bits = choice
		cts, err := ot.EncryptCOCiphertexts(curve, setup, points, wires)
		if err != nil {
			return ev.Fail("cohelpers/encrypt-error", "%s: EncryptCOCiphertexts: %v", ctx, err)
		}
		labels, err := ot.DecryptCOCiphertexts(curve, bundle, cts)
		if err != nil {
			return ev.Fail("cohelpers/decrypt-error", "%s: DecryptCOCiphertexts: %v", ctx, err)
		}
		if len(labels) != b.N {
			return ev.Fail("cohelpers/count", "%s: DecryptCOCiphertexts returned %d labels", ctx, len(labels))
		}
		for j := 0; j < b.N; j++ {
			want := orig[j].L0
			if bits[j] {
				want = orig[j].L1
			}
			if !labels[j].Equal(want) {
				return ev.Fail("cohelpers/wrong-label", "%s: position %d: choice=%v got %v, wire %v",
					ctx, j, bits[j], labels[j], orig[j])
			}
		}
		cl.add("choice=" + b.Ch.Class)
		for _, s := range sizeClasses(b.N) {
			cl.add(s)
		}
		bc := baseSizeClasses(b.N)
		cl.add(bc...)
		cl.add(cs.Curve + ":" + bc[0])
		if b.N > 256 && !(b.Fresh || i == 0) {
			cl.add("setup-reused-for-large")
		}
		if b.N > 1 {
			nt = true
		}
	}
	ns := make([]int, len(cs.Batches))
	for i, b := range cs.Batches {
		ns[i] = b.N
	}
	cl.add(baseSeqClasses(ns)...)
	out := ev.OK(nt, cl.list...)
	out.Evals = len(cs.Batches)
	return out
}

func TestCOHelpers(t *testing.T) {
	ev.Check(t, ev.Get(prop), "cohelpers", genHCase, runHelpers)
}

// ---------------------------------------------------------------------------
// Unit cosizes: deterministic size sweep of the base OTs.
//
// Every size of baseBoundaryN (both sides of 128, 256, 512, 1024, and 300)
// runs once per pass through CO.Send/Receive and through the helper
// pipeline on P-256, plus sequences on one instance whose later batch is
// large (with and without re-initialisation / sender-setup reuse), the
// other curves at the sizes they can afford, RSA-1024 around 128 and 256 and
// RSA-2048 once at 129.  Seeds and choice vectors derive from the run's seed
// and the pass number.  The cases are ordinary "ot" / "cohelpers" cases, so a
// failure replays through the same run functions.

var sweepChoice = []string{"random", "one", "zero", "alt0", "random", "alt1", "random"}

func sweepCh(k int, seed uint64) Choice {
	c := Choice{Class: sweepChoice[k%len(sweepChoice)]}
	if c.Class == "random" {
		c.Seed = seed ^ 0x5bd1e995
	}
	return c
}

func sweepSeed(seed uint64, pass, i int) uint64 {
	return seed*0x9e3779b97f4a7c15 + uint64(pass)*1000003 + uint64(i)
}

func sweepSizes(thorough bool) (all, large []int) {
	all = append(all, baseBoundaryN...)
	if thorough {
		all = append(all, 1535, 1536, 1537, 2047, 2048, 2049)
	}
	for _, n := range all {
		if n > 256 {
			large = append(large, n)
		}
	}
	return
}

func sweepOCases(seed uint64, pass int, thorough bool) []OCase {
	var res []OCase
	add := func(kind string, keyBits int, bs ...OBatch) {
		i := len(res)
		sd := sweepSeed(seed, pass, i)
		for j := range bs {
			bs[j].Ch = sweepCh(i+j+pass, sd+uint64(j))
		}
		res = append(res, OCase{Kind: kind, KeyBits: keyBits, Seed: sd, Batches: bs})
	}
	all, large := sweepSizes(thorough)
	for _, n := range all {
		add("co", 0, OBatch{N: n})
	}
	// Sequences on one initialised CO pair with a large later batch.
	smalls := []int{5, 64, 129, 256, 1}
	for j := 0; j < 4; j++ {
		first := smalls[(pass+j)%len(smalls)]
		big := large[(pass*4+j)%len(large)]
		switch j {
		case 0:
			add("co", 0, OBatch{N: first}, OBatch{N: big})
		case 1:
			add("co", 0, OBatch{N: first}, OBatch{N: big, Reinit: true}, OBatch{N: 1})
		case 2:
			add("co", 0, OBatch{N: big}, OBatch{N: first}, OBatch{N: 257 + pass, Reinit: true})
		default:
			add("co", 0, OBatch{N: big}, OBatch{N: big})
		}
	}
	for _, n := range []int{127, 128, 129, 255, 256, 257} {
		add("rsa", 1024, OBatch{N: n})
	}
	add("rsa", 1024, OBatch{N: 3 + pass}, OBatch{N: 130 + pass})
	add("rsa", 2048, OBatch{N: 129 - pass%3})
	return res
}

func sweepHCases(seed uint64, pass int, thorough bool) []HCase {
	var res []HCase
	add := func(curve string, bs ...HBatch) {
		i := len(res)
		sd := sweepSeed(seed, pass, 1000+i)
		for j := range bs {
			bs[j].Ch = sweepCh(i+j+pass+3, sd+uint64(j))
			if j == 0 {
				bs[j].Fresh = true
			}
		}
		res = append(res, HCase{Curve: curve, Seed: sd, Batches: bs})
	}
	all, large := sweepSizes(thorough)
	for _, n := range all {
		add("P-256", HBatch{N: n})
	}
	big := func(j int) int { return large[(pass*3+j)%len(large)] }
	add("P-256", HBatch{N: 3 + pass}, HBatch{N: big(0)})
	add("P-256", HBatch{N: 129}, HBatch{N: big(1)}, HBatch{N: 2, Fresh: true})
	add("P-256", HBatch{N: big(2)}, HBatch{N: 257 + pass}, HBatch{N: 256, Fresh: true})
	for _, n := range []int{127, 128, 129, 255, 256, 257, 513} {
		add("P-224", HBatch{N: n})
	}
	add("P-224", HBatch{N: 2 + pass}, HBatch{N: 257 + pass})
	// P-384 / P-521 are 6x / 17x slower than P-256: one size next to 128
	// and one next to 256 per pass (pass 0: 129 and 257).
	off := (pass+2)%3 - 1
	for _, c := range []string{"P-384", "P-521"} {
		add(c, HBatch{N: 128 + off})
		add(c, HBatch{N: 256 + off})
	}
	return res
}

// sweepClasses marks the classes of a sweep case ("sweep/...") so the
// evidence keeps the distribution of the generated cases of the ot and
// cohelpers units apart from the deterministic sweep.
func sweepClasses(o ev.Outcome) ev.Outcome {
	cl := make([]string, len(o.Classes))
	for i, c := range o.Classes {
		cl[i] = "sweep/" + c
	}
	o.Classes = cl
	return o
}

func TestCOSizes(t *testing.T) {
	col := ev.Get(prop)
	passes := col.N(1, 4)
	shard, nshards := ev.Shard()
	seed := uint64(col.Seed)
	all, _ := sweepSizes(col.Thorough())
	col.Note("base-OT size sweep: %d pass(es) over n in %v through CO.Send/Receive and the P-256 helper pipeline, sequences with a large later batch, P-224/P-384/P-521 and RSA-1024/2048 at bounded sizes", passes, all)
	k := 0
	mine := func() bool {
		k++
		return (k-1)%nshards == shard
	}
	ev.Each(t, col, "ot", func(yield func(OCase) bool) {
		for p := 0; p < passes; p++ {
			for _, cs := range sweepOCases(seed, p, col.Thorough()) {
				if mine() {
					yield(cs)
				}
			}
		}
	}, func(cs OCase) ev.Outcome { return sweepClasses(runOT(cs)) })
	ev.Each(t, col, "cohelpers", func(yield func(HCase) bool) {
		for p := 0; p < passes; p++ {
			for _, cs := range sweepHCases(seed, p, col.Thorough()) {
				if mine() {
					yield(cs)
				}
			}
		}
	}, func(cs HCase) ev.Outcome { return sweepClasses(runHelpers(cs)) })
}

func TestReplay(t *testing.T) { ev.Replay(t, ev.Get(prop)) }
