package c06

import (
	"fmt"
	"time"

	"github.com/markkurossi/mpc/ot"
	"pgregory.net/rapid"

	"verifharness/internal/ev"
	"verifharness/internal/gen"
)

// ---------------------------------------------------------------------------
// Ideal base OT: the trusted-party functionality.  It lets the harness run
// the IKNP extension (and COT/ROT on top of it) without paying 128 elliptic
// curve transfers per instance, so many more extension batches fit into the
// budget.  The CO base is used as well (class "base=co").

type idealOT struct{ ch chan []ot.Wire }

func newIdealOT() *idealOT { return &idealOT{ch: make(chan []ot.Wire, 4)} }

func (o *idealOT) InitSender(io ot.IO) error   { return nil }
func (o *idealOT) InitReceiver(io ot.IO) error { return nil }

func (o *idealOT) Send(wires []ot.Wire) error {
	o.ch <- append([]ot.Wire(nil), wires...)
	return nil
}

func (o *idealOT) Receive(flags []bool, result []ot.Label) error {
	select {
	case w := <-o.ch:
		if len(w) != len(flags) || len(result) < len(flags) {
			return fmt.Errorf("idealOT: length mismatch %d/%d/%d", len(w),
				len(flags), len(result))
		}
		for i, f := range flags {
			if f {
				result[i] = w[i].L1
			} else {
				result[i] = w[i].L0
			}
		}
		return nil
	case <-time.After(hangBudget):
		return fmt.Errorf("idealOT: no sender")
	}
}

// ---------------------------------------------------------------------------
// Two-party runner.

const hangBudget = 60 * time.Second

type panicErr struct {
	site, msg, stack string
}

func (p *panicErr) Error() string {
	return fmt.Sprintf("panic in %s: %s\n%s", p.site, p.msg, p.stack)
}

// runPair runs the sender function and the receiver function on their own
// goroutines over the two pipe ends.  A panic on either side is turned into
// an error; a party that fails closes and drains its pipe end so the peer
// cannot block on it.  hung is true when both did not finish in hangBudget.
func runPair(sp, rp *ot.Pipe, sf, rf func() error) (serr, rerr error, hung bool) {
	type res struct {
		who int
		err error
	}
	ch := make(chan res, 2)
	start := func(who int, p *ot.Pipe, f func() error) {
		go func() {
			var err error
			defer func() {
				if r := recover(); r != nil {
					err = &panicErr{site: ev.PanicSite(), msg: fmt.Sprint(r),
						stack: ev.ShortStack()}
				}
				if err != nil {
					p.Close()
					go p.Drain()
				}
				ch <- res{who, err}
			}()
			err = f()
		}()
	}
	start(0, sp, sf)
	start(1, rp, rf)
	timer := time.NewTimer(hangBudget)
	defer timer.Stop()
	for got := 0; got < 2; got++ {
		select {
		case r := <-ch:
			if r.who == 0 {
				serr = r.err
			} else {
				rerr = r.err
			}
		case <-timer.C:
			hung = true
			got = 2
		}
	}
	// Unblock and end everything that may still be around.
	sp.Close()
	rp.Close()
	if hung || serr != nil || rerr != nil {
		go sp.Drain()
		go rp.Drain()
	}
	return
}

// partyFail turns the errors of runPair into an outcome (nil = both fine).
func partyFail(unit string, serr, rerr error, hung bool, ctx string) *ev.Outcome {
	if hung {
		o := ev.Fail("hang/"+unit, "%s: sender and receiver did not finish within %v (sender err=%v, receiver err=%v)",
			ctx, hangBudget, serr, rerr)
		return &o
	}
	for i, err := range []error{serr, rerr} {
		if pe, ok := err.(*panicErr); ok {
			o := ev.Fail("panic/"+pe.site, "%s: %s side: %v", ctx, side(i), pe)
			return &o
		}
	}
	// Report the root cause: the peer of a failed party only sees EOF /
	// closed pipe.
	if serr != nil && (rerr == nil || !isPipeErr(serr)) {
		o := ev.Fail(unit+"/sender-error", "%s: sender failed: %v (receiver: %v)", ctx, serr, rerr)
		return &o
	}
	if rerr != nil {
		o := ev.Fail(unit+"/receiver-error", "%s: receiver failed: %v (sender: %v)", ctx, rerr, serr)
		return &o
	}
	return nil
}

func isPipeErr(err error) bool {
	s := err.Error()
	return s == "EOF" || s == "io: read/write on closed pipe" || s == "unexpected EOF"
}

func side(i int) string {
	if i == 0 {
		return "sender"
	}
	return "receiver"
}

// ---------------------------------------------------------------------------
// Choice vectors.

// Choice describes a choice vector of any length as plain data.
type Choice struct {
	// Class: zero | one | alt0 (even positions set, the pattern of the
	// repository's tests) | alt1 | random (bits of DRBG(Seed)) | sparse
	// (only Pos set) | dense (all but Pos set).
	Class string `json:"class"`
	Seed  uint64 `json:"seed,omitempty"`
	Pos   []int  `json:"pos,omitempty"`
}

func (c Choice) bits(n int) []bool {
	res := make([]bool, n)
	switch c.Class {
	case "zero":
	case "one":
		for i := range res {
			res[i] = true
		}
	case "alt0":
		for i := range res {
			res[i] = i%2 == 0
		}
	case "alt1":
		for i := range res {
			res[i] = i%2 == 1
		}
	case "random":
		buf := gen.NewDRBG(c.Seed, 77).Bytes((n + 7) / 8)
		for i := range res {
			res[i] = buf[i/8]>>(i%8)&1 == 1
		}
	case "sparse", "dense":
		d := c.Class == "dense"
		for i := range res {
			res[i] = d
		}
		for _, p := range c.Pos {
			if p < 0 {
				p = -p
			}
			res[p%n] = !d
		}
	}
	return res
}

func drawChoice(t *rapid.T, n int) Choice {
	var c Choice
	c.Class = rapid.SampledFrom([]string{"zero", "one", "one", "alt0", "alt1",
		"random", "random", "random", "random", "random", "sparse", "sparse",
		"dense"}).Draw(t, "choice")
	switch c.Class {
	case "random":
		c.Seed = rapid.Uint64().Draw(t, "cseed")
	case "sparse", "dense":
		k := rapid.IntRange(1, 3).Draw(t, "npos")
		for i := 0; i < k; i++ {
			switch rapid.IntRange(0, 3).Draw(t, "posmode") {
			case 0:
				c.Pos = append(c.Pos, n-1)
			case 1:
				c.Pos = append(c.Pos, 0)
			default:
				c.Pos = append(c.Pos, rapid.IntRange(0, n-1).Draw(t, "pos"))
			}
		}
	}
	return c
}

// ---------------------------------------------------------------------------
// Batch sizes.

var boundaryN = []int{1, 2, 7, 8, 9, 63, 64, 65, 127, 128, 129, 255, 256, 257,
	511, 512, 513, 1023, 1024, 1025, 1535, 1536, 1537, 2047, 2048, 2049}

var lowPart = []int{0, 1, 2, 7, 8, 9, 15, 16, 17, 55, 56, 57, 63}

// drawN draws a batch size in 1..maxN: uniform, from the boundary table, or
// constructed as a*512 + b*64 + c (chunk, word and byte boundaries).
func drawN(t *rapid.T, maxN int) int {
	mode := rapid.IntRange(0, 9).Draw(t, "nmode")
	var n int
	switch {
	case mode <= 1:
		n = rapid.IntRange(1, maxN).Draw(t, "n")
	case mode <= 3:
		k := 0
		for k < len(boundaryN) && boundaryN[k] <= maxN {
			k++
		}
		n = boundaryN[rapid.IntRange(0, k-1).Draw(t, "nidx")]
	default:
		a := rapid.IntRange(0, maxN/512).Draw(t, "chunks")
		b := rapid.IntRange(0, 7).Draw(t, "words")
		c := rapid.SampledFrom(lowPart).Draw(t, "low")
		n = a*512 + b*64 + c
	}
	if n < 1 {
		n = 1
	}
	if n > maxN {
		n = maxN
	}
	return n
}

// ---------------------------------------------------------------------------
// Batch sizes of the base OTs (CO, its helper functions, RSA).  They have no
// 512-row chunks; what matters is a sub-batch / buffer boundary anywhere in
// the usual power-of-two range, so sizes on both sides of 128, 256, 512 and
// 1024 must occur, also as a later batch on an initialised instance.

// baseBoundaryN: both sides of 128, 256, 512, 1024 and one size well inside
// the 257..511 range.
var baseBoundaryN = []int{127, 128, 129, 255, 256, 257, 300, 511, 512, 513,
	1023, 1024, 1025}

var baseSmallN = []int{1, 2, 3, 7, 8, 9, 15, 16, 17, 31, 32, 33, 63, 64, 65}

// drawBaseN draws a batch size for a base OT.  mode 0..9: the highest
// `tenths` modes give a large size (<= large), the others a small one in
// 1..small (uniform or from baseSmallN).  Large sizes are an entry of
// baseBoundaryN, a boundary B of {128,256,512,1024} plus a signed offset in
// -40..40 (rapid favours small magnitudes, so both sides next to B are
// frequent), or 129 plus a non-negative offset.  rapid's integers are
// biased towards small values: the small modes have the low mode values, so
// a failing large batch shrinks towards the smallest failing size, and the
// share of large sizes is measured by the classes (n>256 ...), not assumed.
func drawBaseN(t *rapid.T, small, large, tenths int) int {
	mode := rapid.IntRange(0, 9).Draw(t, "nmode")
	if large <= small || large < 130 {
		tenths = 0
	}
	var n int
	switch {
	case mode < 10-tenths:
		if mode%2 == 0 {
			return rapid.IntRange(1, small).Draw(t, "n")
		}
		k := 0
		for k < len(baseSmallN) && baseSmallN[k] <= small {
			k++
		}
		return baseSmallN[rapid.IntRange(0, k-1).Draw(t, "nidx")]
	}
	switch rapid.IntRange(0, 2).Draw(t, "nkind") {
	case 1:
		k := 0
		for k < len(baseBoundaryN) && baseBoundaryN[k] <= large {
			k++
		}
		n = baseBoundaryN[rapid.IntRange(0, k-1).Draw(t, "nbidx")]
	case 0:
		k := 0
		for k < 3 && 128<<(k+1) < large {
			k++
		}
		n = 128<<rapid.IntRange(0, k).Draw(t, "nbound") + rapid.IntRange(-40, 40).Draw(t, "noff")
	default:
		n = 129 + rapid.IntRange(0, large-129).Draw(t, "nlarge")
	}
	if n > large {
		n = large
	}
	return n
}

// baseSizeClasses names the size range of a base-OT batch and, when n is
// within 1 of 128/256/512/1024, the boundary and the side.
func baseSizeClasses(n int) []string {
	var cl []string
	switch {
	case n <= 128:
		cl = append(cl, "n<=128")
	case n <= 256:
		cl = append(cl, "n=129..256")
	case n <= 512:
		cl = append(cl, "n=257..512")
	case n <= 1024:
		cl = append(cl, "n=513..1024")
	default:
		cl = append(cl, "n>1024")
	}
	if n > 256 {
		cl = append(cl, "n>256")
	}
	if n > 512 {
		cl = append(cl, "n>512")
	}
	for _, b := range []int{128, 256, 512, 1024} {
		switch n - b {
		case -1:
			cl = append(cl, fmt.Sprintf("n=%d-1", b))
		case 0:
			cl = append(cl, fmt.Sprintf("n=%d", b))
		case 1:
			cl = append(cl, fmt.Sprintf("n=%d+1", b))
		}
	}
	return cl
}

// baseSeqClasses describes a sequence of base-OT batch sizes on one
// instance: a later batch that is large, and a batch after a large one.
func baseSeqClasses(ns []int) []string {
	var cl []string
	for i, n := range ns {
		if i > 0 && n > 256 {
			cl = append(cl, "multi-batch-with-large")
		}
		if i > 0 && n > 512 {
			cl = append(cl, "multi-batch-with-large>512")
		}
		if i > 0 && ns[i-1] > 256 {
			cl = append(cl, "batch-after-large")
		}
	}
	return cl
}

func sizeClasses(n int) []string {
	var cl []string
	if n%8 != 0 {
		cl = append(cl, "n%8!=0")
	}
	if n%64 != 0 {
		cl = append(cl, "n%64!=0")
	}
	if n%128 != 0 {
		cl = append(cl, "n%128!=0")
	}
	if n > 512 {
		cl = append(cl, "n>512(multi-chunk)")
		switch n % 512 {
		case 0:
			cl = append(cl, "n=k*512")
		case 1:
			cl = append(cl, "n=k*512+1")
		case 511:
			cl = append(cl, "n=k*512-1")
		}
	}
	if n > 1024 {
		cl = append(cl, "n>1024")
	}
	if n < 8 {
		cl = append(cl, "n<8")
	}
	return cl
}

func nontrivialN(n int) bool {
	return n%8 != 0 || n%64 != 0 || n%128 != 0 || n%512 != 0 || n > 512
}

type classSet struct {
	seen map[string]bool
	list []string
}

func (c *classSet) add(s ...string) {
	if c.seen == nil {
		c.seen = map[string]bool{}
	}
	for _, x := range s {
		if !c.seen[x] {
			c.seen[x] = true
			c.list = append(c.list, x)
		}
	}
}

func xorLabel(a, b ot.Label) ot.Label {
	a.Xor(b)
	return a
}

func wiresFrom(seed uint64, stream uint64, n int) []ot.Wire {
	d := gen.NewDRBG(seed, stream)
	w := make([]ot.Wire, n)
	var ld ot.LabelData
	for i := range w {
		d.Read(ld[:])
		w[i].L0.SetData(&ld)
		d.Read(ld[:])
		w[i].L1.SetData(&ld)
	}
	return w
}
