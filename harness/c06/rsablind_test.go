package c06

// Boundary values of the RSA receiver's blinding value k.
//
// RSA.Receive draws k = rand.Int(rand, N) per transfer; the sender returns
// m_b + k, the receiver subtracts k.  A random k is in the top 2^-14 of the
// range (where m_b + k reaches N) about once in 20 000 transfers, so uniform
// randomness never visits that part of the domain.  blindReader hands
// rand.Int chosen values instead: N-1, N-2, ..., and the values around
// N - m_b.  It learns N from the receiver's side of the transport (the sender
// announces its public key in InitSender).

import (
	"math/big"
	"sync"

	"github.com/markkurossi/mpc/ot"

	"verifharness/internal/gen"
)

// Blind classes of one transfer.
var blindClasses = []string{"N-1", "N-2", "N-3", "N-m-1", "N-m", "N-m+1", "N-m+2", "top", "rand", "0", "1"}

type blindReader struct {
	mu   sync.Mutex
	d    *gen.DRBG
	n    *big.Int
	plan []string   // class per transfer (cyclic)
	ms   []*big.Int // encryption block value m_b of every transfer, in order
	call int
	used map[string]int
}

func newBlindReader(seed, stream uint64, plan []string, ms []*big.Int) *blindReader {
	return &blindReader{d: gen.NewDRBG(seed, stream), plan: plan, ms: ms, used: map[string]int{}}
}

func (b *blindReader) setN(n *big.Int) {
	b.mu.Lock()
	b.n = n
	b.mu.Unlock()
}

func (b *blindReader) Read(p []byte) (int, error) {
	b.mu.Lock()
	defer b.mu.Unlock()
	if b.n == nil || len(b.plan) == 0 || len(p) != (b.n.BitLen()+7)/8 || b.call >= len(b.ms) {
		b.d.Read(p)
		return len(p), nil
	}
	cls := b.plan[b.call%len(b.plan)]
	m := b.ms[b.call]
	b.call++
	v := new(big.Int)
	switch cls {
	case "N-1", "N-2", "N-3":
		v.Sub(b.n, big.NewInt(int64(cls[2]-'0')))
	case "N-m-1":
		v.Sub(b.n, m).Sub(v, big.NewInt(1))
	case "N-m":
		v.Sub(b.n, m)
	case "N-m+1":
		v.Sub(b.n, m).Add(v, big.NewInt(1))
	case "N-m+2":
		v.Sub(b.n, m).Add(v, big.NewInt(2))
	case "top":
		// uniformly in the top 2^-12 of the range
		r := new(big.Int).SetBytes(b.d.Bytes(len(p)))
		span := new(big.Int).Rsh(b.n, 12)
		r.Mod(r, span)
		v.Sub(b.n, big.NewInt(1)).Sub(v, r)
	case "0":
	case "1":
		v.SetInt64(1)
	default:
		b.d.Read(p)
		b.used["rand"]++
		return len(p), nil
	}
	if v.Sign() < 0 || v.Cmp(b.n) >= 0 {
		b.d.Read(p)
		b.used["rand"]++
		return len(p), nil
	}
	b.used[cls]++
	v.FillBytes(p)
	return len(p), nil
}

// sniffIO is the receiver's transport; the second data item it receives is
// the sender's modulus (after the algorithm name).
type sniffIO struct {
	ot.IO
	b     *blindReader
	items int
}

func (s *sniffIO) ReceiveData() ([]byte, error) {
	d, err := s.IO.ReceiveData()
	if err == nil {
		s.items++
		if s.items == 2 {
			s.b.setN(new(big.Int).SetBytes(d))
		}
	}
	return d, err
}

// encryptionBlock is the PKCS #1 block type 1 encoding of a label: 00 01 FF..FF
// 00 data, size bytes.
func encryptionBlock(size int, l ot.Label) *big.Int {
	var ld ot.LabelData
	l.GetData(&ld)
	buf := make([]byte, size)
	buf[1] = 1
	for i := 2; i < size-len(ld)-1; i++ {
		buf[i] = 0xff
	}
	copy(buf[size-len(ld):], ld[:])
	return new(big.Int).SetBytes(buf)
}
