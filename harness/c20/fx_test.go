package c20

import (
	"encoding/hex"
	"fmt"
	"sync"
	"testing"

	"github.com/markkurossi/mpc/bmr"
	"github.com/markkurossi/mpc/ot"
	"pgregory.net/rapid"

	"verifharness/internal/ev"
	"verifharness/internal/gen"
)

// FxOp is one gadget call.  Kind "fx": bit multiplication a*b; kind "fxk":
// string multiplication b*s with s a bmr.Label (hex, 4 bytes).
type FxOp struct {
	Kind string `json:"kind"`
	A    uint   `json:"a,omitempty"`
	B    uint   `json:"b"`
	S    string `json:"s,omitempty"`
}

// FxCase is one OT pair (initialised once, as bmr.Peer does) and the sequence
// of gadget calls made on it.
type FxCase struct {
	Seed uint64 `json:"seed"`
	OT   string `json:"ot"` // co | cot | cot-mal
	Ops  []FxOp `json:"ops"`
	// More are further sessions (own OT pair, own pipe) that run at the same
	// time as the first one in this process: a BMR player serves every peer
	// from its own goroutine, so the gadgets of different pairs overlap.
	More [][]FxOp `json:"more,omitempty"`
}

var otKinds = []string{"co", "cot", "cot-mal"}

func labelHex(v uint32) string {
	var l [4]byte
	l[0], l[1], l[2], l[3] = byte(v>>24), byte(v>>16), byte(v>>8), byte(v)
	return hex.EncodeToString(l[:])
}

func drawLabel(t *rapid.T) string {
	switch rapid.IntRange(0, 5).Draw(t, "skind") {
	case 0:
		return labelHex(0)
	case 1:
		return labelHex(0xffffffff)
	case 2:
		return labelHex(1 << uint(rapid.IntRange(0, 31).Draw(t, "sbit")))
	case 3:
		return labelHex(^(uint32(1) << uint(rapid.IntRange(0, 31).Draw(t, "sbit"))))
	default:
		return labelHex(rapid.Uint32().Draw(t, "s"))
	}
}

func drawOp(t *rapid.T) FxOp {
	b := uint(rapid.IntRange(0, 1).Draw(t, "b"))
	if rapid.Bool().Draw(t, "fxk") {
		return FxOp{Kind: "fxk", B: b, S: drawLabel(t)}
	}
	return FxOp{Kind: "fx", A: uint(rapid.IntRange(0, 1).Draw(t, "a")), B: b}
}

func genFx(t *rapid.T) FxCase {
	var cs FxCase
	cs.Seed = rapid.Uint64().Draw(t, "seed")
	// CO is what bmr wires in and it is cheap; COT costs 128 base OTs.
	cs.OT = rapid.SampledFrom([]string{"co", "co", "co", "cot", "cot-mal"}).Draw(t, "ot")
	n := rapid.IntRange(1, 12).Draw(t, "nops")
	for i := 0; i < n; i++ {
		cs.Ops = append(cs.Ops, drawOp(t))
	}
	// One case in three: 1-3 more sessions at the same time.
	if rapid.IntRange(0, 2).Draw(t, "concurrent") == 0 {
		k := rapid.IntRange(1, 3).Draw(t, "more")
		for j := 0; j < k; j++ {
			var ops []FxOp
			m := rapid.IntRange(4, 16).Draw(t, "nops")
			for i := 0; i < m; i++ {
				ops = append(ops, drawOp(t))
			}
			cs.More = append(cs.More, ops)
		}
	}
	return cs
}

func newOT(kind string, seed, stream uint64) ot.OT {
	co := ot.NewCO(gen.NewDRBG(seed, stream))
	switch kind {
	case "cot":
		return ot.NewCOT(co, gen.NewDRBG(seed, stream+1), false, false)
	case "cot-mal":
		return ot.NewCOT(co, gen.NewDRBG(seed, stream+1), true, false)
	}
	return co
}

func parseLabel(s string) (bmr.Label, bool) {
	var l bmr.Label
	b, err := hex.DecodeString(s)
	if err != nil || len(b) != len(l) {
		return l, false
	}
	copy(l[:], b)
	return l, true
}

type fxResult struct {
	bit uint
	lab bmr.Label
}

func runFx(cs FxCase) ev.Outcome {
	if len(cs.More) == 0 {
		return runFxSession(cs.OT, cs.Seed, 0, cs.Ops)
	}
	if len(cs.More) > 7 {
		return ev.Outcome{Skip: "more than 8 sessions"}
	}
	sessions := append([][]FxOp{cs.Ops}, cs.More...)
	outs := make([]ev.Outcome, len(sessions))
	var wg sync.WaitGroup
	for i := range sessions {
		wg.Add(1)
		go func(i int) {
			defer wg.Done()
			outs[i] = runFxSession(cs.OT, cs.Seed, uint64(16*i), sessions[i])
		}(i)
	}
	wg.Wait()
	total := ev.OK(true)
	seen := map[string]bool{fmt.Sprintf("concurrent-sessions=%d", len(sessions)): true}
	for i, o := range outs {
		if o.Skip != "" {
			return o
		}
		if o.Err != "" {
			o.Sig = "concurrent/" + o.Sig
			o.Err = fmt.Sprintf("session %d of %d concurrent sessions: %s", i, len(sessions), o.Err)
			return o
		}
		total.Evals += o.Evals
		for _, c := range o.Classes {
			seen[c] = true
		}
	}
	for c := range seen {
		total.Classes = append(total.Classes, c)
	}
	sortStrings(total.Classes)
	return total
}

// runFxSession runs one OT pair and its gadget calls; stream separates the
// random streams of concurrent sessions.
func runFxSession(kind string, seed, stream uint64, sops []FxOp) ev.Outcome {
	cs := FxCase{Seed: seed, OT: kind, Ops: sops}
	known := false
	for _, k := range otKinds {
		known = known || k == cs.OT
	}
	if !known {
		return ev.Outcome{Skip: "unknown OT kind"}
	}
	if len(cs.Ops) == 0 || len(cs.Ops) > 4096 {
		return ev.Outcome{Skip: "number of ops outside 1..4096"}
	}
	labels := make([]bmr.Label, len(cs.Ops))
	for i, op := range cs.Ops {
		if op.B > 1 || op.A > 1 {
			return ev.Outcome{Skip: "operand bit outside {0,1}"}
		}
		switch op.Kind {
		case "fx":
		case "fxk":
			l, ok := parseLabel(op.S)
			if !ok {
				return ev.Outcome{Skip: "label is not 4 hex bytes"}
			}
			labels[i] = l
		default:
			return ev.Outcome{Skip: "unknown op kind"}
		}
	}

	fp, tp := ot.NewPipe()
	kill := func() {
		fp.Close()
		tp.Close()
	}
	sres := make([]fxResult, len(cs.Ops))
	rres := make([]fxResult, len(cs.Ops))
	names := [2]string{"sender", "receiver"}

	errs, first, hung := runPair(func() (err error) {
		// Same epilogue as a well-behaved peer: close our direction,
		// swallow what the other side still writes.
		defer func() {
			fp.Close()
			fp.Drain()
		}()
		oti := newOT(cs.OT, cs.Seed, stream+1)
		if err := oti.InitSender(fp); err != nil {
			return fmt.Errorf("InitSender: %w", err)
		}
		for i, op := range cs.Ops {
			if op.Kind == "fx" {
				sres[i].bit, err = bmr.FxSend(oti, op.A)
			} else {
				sres[i].lab, err = bmr.FxkSend(oti, labels[i])
			}
			if err != nil {
				return fmt.Errorf("op %d (%s): %w", i, op.Kind, err)
			}
		}
		return nil
	}, func() (err error) {
		defer func() {
			tp.Close()
			tp.Drain()
		}()
		oti := newOT(cs.OT, cs.Seed, stream+3)
		if err := oti.InitReceiver(tp); err != nil {
			return fmt.Errorf("InitReceiver: %w", err)
		}
		for i, op := range cs.Ops {
			if op.Kind == "fx" {
				rres[i].bit, err = bmr.FxReceive(oti, op.B)
			} else {
				rres[i].lab, err = bmr.FxkReceive(oti, op.B)
			}
			if err != nil {
				return fmt.Errorf("op %d (%s): %w", i, op.Kind, err)
			}
		}
		return nil
	}, kill)
	ctx := fmt.Sprintf("ot=%s", cs.OT)
	if first >= 0 || hung {
		return failSide("fx", names, errs, first, hung, ctx)
	}

	seen := map[string]bool{"ot=" + cs.OT: true}
	for i, op := range cs.Ops {
		if op.Kind == "fx" {
			r, xb := sres[i].bit, rres[i].bit
			if r > 1 || xb > 1 {
				return ev.Fail("fx/share-not-a-bit", "%s op %d: Fx(a=%d,b=%d) returned r=%d xb=%d",
					ctx, i, op.A, op.B, r, xb)
			}
			if r^xb != op.A*op.B {
				return ev.Fail(fmt.Sprintf("fx/product/a=%d,b=%d", op.A, op.B),
					"%s op %d of %d: Fx(a=%d,b=%d): r=%d xor xb=%d = %d, want a*b=%d",
					ctx, i, len(cs.Ops), op.A, op.B, r, xb, r^xb, op.A*op.B)
			}
			seen[fmt.Sprintf("fx:a=%d,b=%d", op.A, op.B)] = true
			continue
		}
		// Independent arithmetic on the raw bytes (bmr.Label.Xor/Equal are
		// code under test).
		var want, got [len(bmr.Label{})]byte
		if op.B == 1 {
			want = labels[i]
		}
		for k := range got {
			got[k] = sres[i].lab[k] ^ rres[i].lab[k]
		}
		if got != want {
			return ev.Fail(fmt.Sprintf("fxk/product/b=%d", op.B),
				"%s op %d of %d: Fxk(s=%s,b=%d): r=%x xor xb=%x = %x, want b*s=%x",
				ctx, i, len(cs.Ops), op.S, op.B, sres[i].lab[:], rres[i].lab[:], got[:], want[:])
		}
		seen[fmt.Sprintf("fxk:b=%d", op.B)] = true
		seen["fxk:s="+labelClass(labels[i])] = true
	}
	if len(cs.Ops) > 1 {
		seen["multi-op-session"] = true
	} else {
		seen["single-op-session"] = true
	}
	var classes []string
	for k := range seen {
		classes = append(classes, k)
	}
	sortStrings(classes)
	// Non-trivial: the fixed-operand unit tests only use CO with a fresh
	// pair per call and a random label; every case here differs in at
	// least the operand coverage, so all executed cases count.
	out := ev.OK(true, classes...)
	out.Evals = len(cs.Ops)
	return out
}

func labelClass(l bmr.Label) string {
	v := uint32(l[0])<<24 | uint32(l[1])<<16 | uint32(l[2])<<8 | uint32(l[3])
	switch {
	case v == 0:
		return "zero"
	case v == 0xffffffff:
		return "ones"
	case v&(v-1) == 0:
		return "single-bit"
	case ^v&(^v-1) == 0:
		return "single-zero-bit"
	}
	return "other"
}

func TestFx(t *testing.T) {
	ev.Check(t, ev.Get(prop), "fx", genFx, runFx)
}

// fxAllOps is the enumerated operand table: all (a,b) for Fx; b in {0,1} x
// labels {0, all-ones, every single bit, every single zero bit, 8 fixed
// patterns} for Fxk.
func fxAllOps() []FxOp {
	var ops []FxOp
	for a := uint(0); a < 2; a++ {
		for b := uint(0); b < 2; b++ {
			ops = append(ops, FxOp{Kind: "fx", A: a, B: b})
		}
	}
	var labs []uint32
	labs = append(labs, 0, 0xffffffff)
	for i := 0; i < 32; i++ {
		labs = append(labs, 1<<uint(i))
	}
	for i := 0; i < 32; i++ {
		labs = append(labs, ^(uint32(1) << uint(i)))
	}
	labs = append(labs, 0x01020304, 0x80000001, 0x00ff00ff, 0xff00ff00, 0xdeadbeef,
		0x0000ffff, 0xffff0000, 0x55aa55aa)
	for _, l := range labs {
		for b := uint(0); b < 2; b++ {
			ops = append(ops, FxOp{Kind: "fxk", B: b, S: labelHex(l)})
		}
	}
	return ops
}

// TestFxEnum enumerates the operand table for every OT kind, (1) as one long
// session per kind and repetition, (2) with a fresh pair per call (the shape of
// the repository's own unit tests): all ops for CO, the four Fx operand pairs
// and a label subset for the COT kinds (fresh COT pair = 128 base OTs).
func TestFxEnum(t *testing.T) {
	col := ev.Get(prop)
	reps := col.N(1, 8)
	shard, nshards := ev.Shard()
	all := fxAllOps()
	idx := 0
	fails := 0
	ev.Each(t, col, "fx", func(yield func(FxCase) bool) {
		for rep := 0; rep < reps; rep++ {
			for ki, kind := range otKinds {
				if fails >= maxEnumFailures {
					return
				}
				idx++
				if idx%nshards == shard {
					// Rotate so that every op is the first op of
					// some session across repetitions.
					ops := append(append([]FxOp{}, all[(rep*17)%len(all):]...), all[:(rep*17)%len(all)]...)
					yield(FxCase{Seed: uint64(rep*31 + ki + 1), OT: kind, Ops: ops})
				}
				for oi, op := range all {
					if kind != "co" && op.Kind == "fxk" && oi%9 != rep%9 {
						continue
					}
					idx++
					if idx%nshards != shard {
						continue
					}
					if fails >= maxEnumFailures {
						return
					}
					yield(FxCase{Seed: uint64(100000*rep + 1000*ki + oi + 7), OT: kind,
						Ops: []FxOp{op}})
				}
			}
		}
	}, countFailures(runFx, &fails))
	if fails >= maxEnumFailures {
		col.Note("fx enumeration stopped after %d failing cases", fails)
	}
	col.Note("fx enumeration: %d-op table (all (a,b); b x {0, ones, 32 single bits, 32 single zero bits, 8 patterns}) x OT kinds %v, as one session and as fresh pairs, %d repetition(s)",
		len(all), otKinds, reps)
}
