// C20: OT-based multiplication gadgets return shares of the product.
//
// Unit "vole": vole.Sender.Mul / vole.Receiver.Mul over a p2p.Conn pair, base
// OT = CO (the only kind the repository wires into vole), several Mul calls on
// one pair.  Oracle (math/big): (u_i - r_i) mod p == x_i*y_i mod p for all i,
// both result vectors have the input length, both shares are canonical
// residues (0 <= . < p).
//
// Unit "fx" (fx_test.go): bmr.FxSend/FxReceive and bmr.FxkSend/FxkReceive as a
// sequence of calls on one initialised OT pair (as bmr.Player/Peer do) over
// ot.NewPipe, OT kinds CO, COT(CO) and COT(CO) malicious.
package c20

import (
	"fmt"
	"io"
	"math/big"
	"runtime/debug"
	"strings"
	"testing"
	"time"

	"github.com/markkurossi/mpc/ot"
	"github.com/markkurossi/mpc/p2p"
	"github.com/markkurossi/mpc/vole"
	"pgregory.net/rapid"

	"verifharness/internal/ev"
	"verifharness/internal/gen"
)

const prop = "C20"

func init() {
	ev.Register("vole", runVole)
	ev.Register("fx", runFx)
}

// ---------------------------------------------------------------------------
// Two-party execution helper.

type sideResult struct {
	idx int
	err error
}

// protect runs f and turns a panic on this goroutine into an error.
func protect(f func() error) (err error) {
	defer func() {
		if r := recover(); r != nil {
			err = &panicError{val: fmt.Sprint(r), stack: trimStack(string(debug.Stack()))}
		}
	}()
	return f()
}

type panicError struct {
	val   string
	stack string
}

func (p *panicError) Error() string { return "panic: " + p.val + "\n" + p.stack }

// trimStack keeps the frames of the code under test ("func file:line").
func trimStack(s string) string {
	lines := strings.Split(s, "\n")
	var out []string
	for i := 0; i+1 < len(lines); i++ {
		if strings.HasPrefix(lines[i], "github.com/markkurossi/mpc/") {
			out = append(out, "  "+strings.TrimSpace(lines[i])+" "+strings.TrimSpace(lines[i+1]))
			if len(out) >= 8 {
				break
			}
		}
	}
	return strings.Join(out, "\n")
}

// site names the innermost repository function of the panic stack, e.g.
// "vole.bytes32" or "vole.(*Sender).Mul".
func (p *panicError) site() string {
	l := strings.TrimSpace(strings.SplitN(p.stack, "\n", 2)[0])
	if !strings.HasPrefix(l, "github.com/markkurossi/mpc/") {
		return "unknown"
	}
	fn := strings.TrimPrefix(l, "github.com/markkurossi/mpc/")
	if j := strings.Index(fn, " "); j > 0 {
		fn = fn[:j]
	}
	if j := strings.LastIndex(fn, "("); j > 0 {
		fn = fn[:j]
	}
	return fn
}

const (
	pairTimeout = 10 * time.Second
	pairGrace   = 3 * time.Second
)

// runPair runs the two parties concurrently.  When one fails, or when the
// watchdog fires, kill() is called to unblock the other one.  It returns the
// two errors, which side failed first (-1 = none) and whether the watchdog
// fired.
func runPair(f0, f1 func() error, kill func()) (errs [2]error, first int, hung bool) {
	ch := make(chan sideResult, 2)
	go func() { ch <- sideResult{0, protect(f0)} }()
	go func() { ch <- sideResult{1, protect(f1)} }()
	first = -1
	timer := time.NewTimer(pairTimeout)
	defer timer.Stop()
	got := 0
	for got < 2 {
		select {
		case r := <-ch:
			got++
			errs[r.idx] = r.err
			if r.err != nil && first < 0 {
				first = r.idx
				kill()
			}
		case <-timer.C:
			hung = true
			kill()
			grace := time.NewTimer(pairGrace)
			for got < 2 {
				select {
				case r := <-ch:
					got++
					errs[r.idx] = r.err
				case <-grace.C:
					return errs, first, true
				}
			}
			grace.Stop()
			return errs, first, true
		}
	}
	return errs, first, false
}

func failSide(unit string, names [2]string, errs [2]error, first int, hung bool, ctx string) ev.Outcome {
	if hung {
		return ev.Fail(unit+"/hang", "%s: the two parties did not finish within %v (errors after abort: %s=%v, %s=%v)",
			ctx, pairTimeout, names[0], errs[0], names[1], errs[1])
	}
	err := errs[first]
	if pe, ok := err.(*panicError); ok {
		return ev.Fail("panic/"+pe.site(), "%s: %s panicked: %v", ctx, names[first], pe)
	}
	return ev.Fail(unit+"/error/"+names[first], "%s: %s failed: %v (other side: %v)",
		ctx, names[first], err, errs[1-first])
}

// ---------------------------------------------------------------------------
// In-memory transport for p2p.Conn: the same construction as p2p.Pipe() (two
// io.Pipes), but with the ends kept so that a failed session can be torn down.

type rwPipe struct {
	r *io.PipeReader
	w *io.PipeWriter
}

func (p *rwPipe) Read(b []byte) (int, error)  { return p.r.Read(b) }
func (p *rwPipe) Write(b []byte) (int, error) { return p.w.Write(b) }
func (p *rwPipe) Close() error {
	p.r.Close()
	return p.w.Close()
}

type connPair struct {
	p0, p1 *rwPipe
	c0, c1 *p2p.Conn
}

func newConnPair() *connPair {
	var p0, p1 rwPipe
	p0.r, p1.w = io.Pipe()
	p1.r, p0.w = io.Pipe()
	return &connPair{p0: &p0, p1: &p1, c0: p2p.NewConn(&p0), c1: p2p.NewConn(&p1)}
}

func (cp *connPair) kill() {
	e := fmt.Errorf("session aborted by harness")
	cp.p0.r.CloseWithError(e)
	cp.p0.w.CloseWithError(e)
	cp.p1.r.CloseWithError(e)
	cp.p1.w.CloseWithError(e)
}

// release stops the writer goroutines of both conns.
func (cp *connPair) release(failed bool) {
	if failed {
		// Nothing must be flushed into a dead pipe.
		cp.c0.WritePos = 0
		cp.c1.WritePos = 0
	}
	cp.c0.Close()
	cp.c1.Close()
}

// ---------------------------------------------------------------------------
// Moduli.

var (
	one = big.NewInt(1)
	two = big.NewInt(2)
)

func pow2(k int) *big.Int { return new(big.Int).Lsh(one, uint(k)) }

func mustHex(s string) *big.Int {
	v, ok := new(big.Int).SetString(s, 16)
	if !ok {
		panic("bad hex " + s)
	}
	return v
}

type namedMod struct {
	name string
	p    *big.Int
}

// fixedMods are the moduli named by the property / DESIGN.md; all prime
// (verified in TestModuliTable).
var fixedMods = []namedMod{
	{"2", big.NewInt(2)},
	{"3", big.NewInt(3)},
	{"251", big.NewInt(251)},
	{"65537", big.NewInt(65537)},
	{"p256", mustHex("ffffffff00000001000000000000000000000000ffffffffffffffffffffffff")},
	{"2^255-19", new(big.Int).Sub(pow2(255), big.NewInt(19))},
	{"2^256-189", new(big.Int).Sub(pow2(256), big.NewInt(189))},
	{"secp256k1", mustHex("fffffffffffffffffffffffffffffffffffffffffffffffffffffffefffffc2f")},
}

// nextPrime returns the smallest prime >= n (deterministic).
func nextPrime(n *big.Int) *big.Int {
	if n.Cmp(two) <= 0 {
		return big.NewInt(2)
	}
	c := new(big.Int).Set(n)
	c.SetBit(c, 0, 1)
	for !c.ProbablyPrime(24) {
		c.Add(c, two)
	}
	return c
}

// prevPrime returns the largest prime < n (n >= 3).
func prevPrime(n *big.Int) *big.Int {
	c := new(big.Int).Sub(n, one)
	if c.Cmp(two) <= 0 {
		return big.NewInt(2)
	}
	if c.Bit(0) == 0 {
		c.Sub(c, one)
	}
	for !c.ProbablyPrime(24) {
		c.Sub(c, two)
	}
	return c
}

// kBitValue returns a value of exactly k bits from the stream.
func kBitValue(d *gen.DRBG, k int) *big.Int {
	v := new(big.Int).SetBytes(d.Bytes((k + 7) / 8))
	v.Mod(v, pow2(k))
	v.SetBit(v, k-1, 1)
	return v
}

var boundaryBits = []int{2, 3, 4, 7, 8, 9, 15, 16, 17, 31, 32, 33, 63, 64, 65, 127, 128,
	129, 191, 192, 193, 247, 248, 249, 254, 255, 256}

var allBits = func() []int {
	var r []int
	for k := 2; k <= 256; k++ {
		r = append(r, k)
	}
	return spread(r, 97)
}()

func drawBits(t *rapid.T) int {
	if rapid.Bool().Draw(t, "pbits-boundary") {
		return rapid.SampledFrom(boundaryBits).Draw(t, "pbits")
	}
	return rapid.SampledFrom(allBits).Draw(t, "pbits")
}

// pkindTable is the weighted list of modulus kinds (rapid's IntRange is biased
// towards small values, SampledFrom over a table is not).
var pkindTable = weighted(map[string]int{"fixed": 28, "prime-hi": 12, "prime-lo": 10,
	"prime-rand": 36, "any-odd": 7, "any-even": 7},
	[]string{"fixed", "prime-hi", "prime-lo", "prime-rand", "any-odd", "any-even"})

func weighted(w map[string]int, order []string) []string {
	var res []string
	for _, k := range order {
		for i := 0; i < w[k]; i++ {
			res = append(res, k)
		}
	}
	return spread(res, 37)
}

// spread permutes a table with a stride coprime to its length: rapid prefers
// small indices, and this way the preferred region holds a representative mix
// instead of the head of the list.
func spread[T any](l []T, stride int) []T {
	n := len(l)
	for gcd(stride, n) != 1 {
		stride++
	}
	res := make([]T, n)
	for i := range res {
		res[i] = l[(i*stride)%n]
	}
	return res
}

func gcd(a, b int) int {
	for b != 0 {
		a, b = b, a%b
	}
	return a
}

// drawModulus returns (hex, kind).
func drawModulus(t *rapid.T) (string, string) {
	kind := rapid.SampledFrom(pkindTable).Draw(t, "pkind")
	switch kind {
	case "fixed":
		m := rapid.SampledFrom(fixedMods).Draw(t, "pfixed")
		return m.p.Text(16), "fixed:" + m.name
	case "prime-hi":
		k := drawBits(t)
		return prevPrime(pow2(k)).Text(16), kind
	case "prime-lo":
		k := drawBits(t)
		return nextPrime(pow2(k - 1)).Text(16), kind
	case "prime-rand":
		k := drawBits(t)
		seed := rapid.Uint64().Draw(t, "pseed")
		p := nextPrime(kBitValue(gen.NewDRBG(seed, 9), k))
		if p.BitLen() > k {
			p = prevPrime(pow2(k))
		}
		return p.Text(16), kind
	case "any-odd":
		// Any odd modulus >= 3 (mostly composite): outside the "prime
		// modulus" wording of vole/doc.go, inside "every modulus of at
		// most 256 bits" of the property.
		k := drawBits(t)
		seed := rapid.Uint64().Draw(t, "pseed")
		p := kBitValue(gen.NewDRBG(seed, 9), k)
		p.SetBit(p, 0, 1)
		return p.Text(16), kind
	default:
		k := drawBits(t)
		if k < 3 {
			k = 3
		}
		seed := rapid.Uint64().Draw(t, "pseed")
		p := kBitValue(gen.NewDRBG(seed, 9), k)
		p.SetBit(p, 0, 0)
		return p.Text(16), "any-even"
	}
}

// ---------------------------------------------------------------------------
// Case.

// Spot pins the element pair at one index of a call.
type Spot struct {
	I int    `json:"i"`
	X string `json:"x"` // element class: 0 1 pm1 rand
	Y string `json:"y"`
}

// Call is one Mul call on the pair.
type Call struct {
	M     int    `json:"m"`
	FillX string `json:"fillx"` // rand mix 0 1 pm1
	FillY string `json:"filly"`
	Spots []Spot `json:"spots,omitempty"`
}

// VoleCase is one Sender/Receiver pair and the Mul calls made on it.
type VoleCase struct {
	Seed  uint64 `json:"seed"`
	P     string `json:"p"` // modulus, hex
	PKind string `json:"pkind"`
	Calls []Call `json:"calls"`
}

var boundaryLens = []int{1, 2, 7, 8, 511, 512, 513, 1023, 1024, 1025, 2000}

var (
	elemClasses = []string{"0", "1", "pm1", "rand"}
	fillClasses = []string{"rand", "rand", "rand", "mix", "mix", "0", "1", "pm1"}
)

func drawLen(t *rapid.T) int {
	switch rapid.SampledFrom([]string{"b", "b", "b", "b", "b", "s", "s", "u", "u", "u"}).Draw(t, "mkind") {
	case "b":
		return rapid.SampledFrom(boundaryLens).Draw(t, "m")
	case "s":
		return rapid.IntRange(1, 40).Draw(t, "m")
	default:
		// 1..2000 in two draws so that the upper chunks are not starved
		// by rapid's bias towards small integers.
		return 1 + 500*rapid.SampledFrom([]int{0, 1, 2, 3}).Draw(t, "mq") +
			rapid.IntRange(0, 499).Draw(t, "mr")
	}
}

func drawCall(t *rapid.T) Call {
	c := Call{M: drawLen(t)}
	c.FillX = rapid.SampledFrom(fillClasses).Draw(t, "fillx")
	c.FillY = rapid.SampledFrom(fillClasses).Draw(t, "filly")
	n := rapid.IntRange(0, 6).Draw(t, "nspots")
	for i := 0; i < n; i++ {
		var idx int
		// Interesting positions: both ends and the rows around the
		// 512-row extension chunks.
		cands := []int{0, c.M - 1}
		for _, b := range []int{7, 8, 511, 512, 513, 1023, 1024, 1025, 1535, 1536} {
			if b < c.M {
				cands = append(cands, b)
			}
		}
		if rapid.Bool().Draw(t, "spot-edge") {
			idx = rapid.SampledFrom(cands).Draw(t, "spot")
		} else {
			idx = rapid.IntRange(0, c.M-1).Draw(t, "spot")
		}
		c.Spots = append(c.Spots, Spot{I: idx,
			X: rapid.SampledFrom(elemClasses).Draw(t, "sx"),
			Y: rapid.SampledFrom(elemClasses).Draw(t, "sy")})
	}
	return c
}

func genVole(t *rapid.T) VoleCase {
	var cs VoleCase
	cs.Seed = rapid.Uint64().Draw(t, "seed")
	cs.P, cs.PKind = drawModulus(t)
	n := rapid.SampledFrom([]int{1, 1, 2, 2, 3, 3, 4, 5}).Draw(t, "ncalls")
	for i := 0; i < n; i++ {
		cs.Calls = append(cs.Calls, drawCall(t))
	}
	return cs
}

// elem builds one field element of the class.
func elem(cls string, p *big.Int, d *gen.DRBG) *big.Int {
	switch cls {
	case "0":
		return new(big.Int)
	case "1":
		return new(big.Int).Mod(one, p)
	case "pm1":
		return new(big.Int).Sub(p, one)
	default:
		v := new(big.Int).SetBytes(d.Bytes(40))
		return v.Mod(v, p)
	}
}

func buildVec(fill string, m int, p *big.Int, d *gen.DRBG) []*big.Int {
	v := make([]*big.Int, m)
	for i := range v {
		cls := fill
		if fill == "mix" {
			switch d.Intn(8) {
			case 0:
				cls = "0"
			case 1:
				cls = "1"
			case 2, 3:
				cls = "pm1"
			default:
				cls = "rand"
			}
		}
		v[i] = elem(cls, p, d)
	}
	return v
}

func cloneVec(v []*big.Int) []*big.Int {
	r := make([]*big.Int, len(v))
	for i := range v {
		r[i] = new(big.Int).Set(v[i])
	}
	return r
}

func runVole(cs VoleCase) ev.Outcome {
	p, ok := new(big.Int).SetString(cs.P, 16)
	if !ok || p.Cmp(two) < 0 || p.BitLen() > 256 {
		return ev.Outcome{Skip: "modulus outside [2, 2^256)"}
	}
	if len(cs.Calls) == 0 || len(cs.Calls) > 8 {
		return ev.Outcome{Skip: "number of calls outside 1..8"}
	}
	xs := make([][]*big.Int, len(cs.Calls))
	ys := make([][]*big.Int, len(cs.Calls))
	for ci, c := range cs.Calls {
		if c.M < 1 || c.M > 2000 {
			return ev.Outcome{Skip: "vector length outside 1..2000"}
		}
		xs[ci] = buildVec(c.FillX, c.M, p, gen.NewDRBG(cs.Seed, uint64(10+2*ci)))
		ys[ci] = buildVec(c.FillY, c.M, p, gen.NewDRBG(cs.Seed, uint64(11+2*ci)))
		sd := gen.NewDRBG(cs.Seed, uint64(100+ci))
		for _, s := range c.Spots {
			if s.I < 0 || s.I >= c.M {
				return ev.Outcome{Skip: "spot index outside the vector"}
			}
			xs[ci][s.I] = elem(s.X, p, sd)
			ys[ci][s.I] = elem(s.Y, p, sd)
		}
	}

	cp := newConnPair()
	rs := make([][]*big.Int, len(cs.Calls))
	us := make([][]*big.Int, len(cs.Calls))
	names := [2]string{"sender", "receiver"}

	errs, first, hung := runPair(func() error {
		s, err := vole.NewSender(ot.NewCO(gen.NewDRBG(cs.Seed, 1)), cp.c0,
			gen.NewDRBG(cs.Seed, 2))
		if err != nil {
			return fmt.Errorf("NewSender: %w", err)
		}
		for ci := range cs.Calls {
			rs[ci], err = s.Mul(cloneVec(xs[ci]), new(big.Int).Set(p))
			if err != nil {
				return fmt.Errorf("Mul call %d (m=%d): %w", ci, cs.Calls[ci].M, err)
			}
		}
		return nil
	}, func() error {
		r, err := vole.NewReceiver(ot.NewCO(gen.NewDRBG(cs.Seed, 3)), cp.c1,
			gen.NewDRBG(cs.Seed, 4))
		if err != nil {
			return fmt.Errorf("NewReceiver: %w", err)
		}
		for ci := range cs.Calls {
			us[ci], err = r.Mul(cloneVec(ys[ci]), new(big.Int).Set(p))
			if err != nil {
				return fmt.Errorf("Mul call %d (m=%d): %w", ci, cs.Calls[ci].M, err)
			}
		}
		return nil
	}, cp.kill)
	failed := first >= 0 || hung
	if !hung {
		cp.release(failed)
	}
	ctx := fmt.Sprintf("p=%s (%d bits, %s)", cs.P, p.BitLen(), cs.PKind)
	if failed {
		return failSide("vole", names, errs, first, hung, ctx)
	}

	prime := p.ProbablyPrime(12)
	sigSuffix := ""
	if !prime {
		sigSuffix = "/nonprime-modulus"
	}
	pm1 := new(big.Int).Sub(p, one)
	seen := map[string]bool{}
	total := 0
	ofs := 0
	for ci, c := range cs.Calls {
		if len(rs[ci]) != c.M || len(us[ci]) != c.M {
			return ev.Fail("vole/length"+sigSuffix,
				"%s call %d: m=%d but len(r)=%d len(u)=%d", ctx, ci, c.M, len(rs[ci]), len(us[ci]))
		}
		for i := 0; i < c.M; i++ {
			r, u := rs[ci][i], us[ci][i]
			if r == nil || u == nil {
				return ev.Fail("vole/nil-share"+sigSuffix, "%s call %d index %d: nil share", ctx, ci, i)
			}
			x, y := xs[ci][i], ys[ci][i]
			left := new(big.Int).Sub(u, r)
			left.Mod(left, p)
			right := new(big.Int).Mul(x, y)
			right.Mod(right, p)
			if left.Cmp(right) != 0 {
				return ev.Fail("vole/relation"+sigSuffix,
					"%s call %d (m=%d, rows %d.. of the extension) index %d: u-r mod p = %s, x*y mod p = %s (x=%s y=%s r=%s u=%s)",
					ctx, ci, c.M, ofs, i, left.Text(16), right.Text(16), x.Text(16), y.Text(16), r.Text(16), u.Text(16))
			}
			if r.Sign() < 0 || r.Cmp(p) >= 0 {
				return ev.Fail("vole/share-not-reduced/r"+sigSuffix,
					"%s call %d index %d: sender share r=%s is not in [0,p)", ctx, ci, i, r.Text(16))
			}
			if u.Sign() < 0 || u.Cmp(p) >= 0 {
				return ev.Fail("vole/share-not-reduced/u"+sigSuffix,
					"%s call %d index %d: receiver share u=%s is not in [0,p)", ctx, ci, i, u.Text(16))
			}
			if x.Sign() == 0 || y.Sign() == 0 {
				seen["elem-0"] = true
			}
			if x.Cmp(one) == 0 || y.Cmp(one) == 0 {
				seen["elem-1"] = true
			}
			if x.Cmp(pm1) == 0 || y.Cmp(pm1) == 0 {
				seen["elem-pm1"] = true
			}
			if x.Cmp(pm1) == 0 && y.Cmp(pm1) == 0 {
				seen["both-pm1"] = true
			}
			if right.Sign() != 0 {
				seen["product-nonzero"] = true
			}
		}
		if ci > 0 && ofs%512 != 0 {
			seen["call-starts-off-chunk"] = true
		}
		if ci > 0 && ofs%8 != 0 {
			seen["call-starts-off-byte"] = true
		}
		ofs += c.M
		total += c.M
		seen[lenClass(c.M)] = true
		if c.M > 512 {
			seen["m-crosses-chunk"] = true
		}
	}
	ev.Get(prop).Count("vole-elements", total)

	classes := []string{"pkind=" + strings.SplitN(cs.PKind, ":", 2)[0], bitsClass(p.BitLen()),
		fmt.Sprintf("calls=%d", len(cs.Calls))}
	if strings.HasPrefix(cs.PKind, "fixed:") {
		classes = append(classes, "p="+cs.PKind[6:])
	}
	if prime {
		classes = append(classes, "prime")
	} else {
		classes = append(classes, "nonprime")
	}
	for k := range seen {
		classes = append(classes, k)
	}
	sortStrings(classes)
	isP256 := p.Cmp(fixedMods[4].p) == 0
	nontrivial := seen["m-crosses-chunk"] || !isP256 || seen["elem-0"] || seen["elem-pm1"] ||
		len(cs.Calls) > 1
	out := ev.OK(nontrivial, classes...)
	out.Evals = len(cs.Calls)
	return out
}

func sortStrings(s []string) {
	for i := 1; i < len(s); i++ {
		for j := i; j > 0 && s[j] < s[j-1]; j-- {
			s[j], s[j-1] = s[j-1], s[j]
		}
	}
}

func lenClass(m int) string {
	for _, b := range boundaryLens {
		if m == b {
			return fmt.Sprintf("m=%d", m)
		}
	}
	switch {
	case m < 8:
		return "m<8"
	case m < 512:
		return "m:9..510"
	case m < 1024:
		return "m:514..1022"
	case m < 1536:
		return "m:1026..1535"
	default:
		return "m:1536..1999"
	}
}

func bitsClass(b int) string {
	switch {
	case b <= 8:
		return "pbits<=8"
	case b <= 64:
		return "pbits:9..64"
	case b <= 128:
		return "pbits:65..128"
	case b <= 248:
		return "pbits:129..248"
	case b < 256:
		return "pbits:249..255"
	default:
		return "pbits=256"
	}
}

// maxEnumFailures bounds an enumeration on a broken tree: after that many
// failing cases the rest of the table is not run (every failing case of a
// hanging protocol costs a watchdog period).
const maxEnumFailures = 3

// countFailures wraps a run function and counts its failing outcomes.
func countFailures[C any](run func(C) ev.Outcome, fails *int) func(C) ev.Outcome {
	return func(cs C) ev.Outcome {
		out := run(cs)
		if out.Err != "" {
			*fails++
		}
		return out
	}
}

func TestVole(t *testing.T) {
	ev.Check(t, ev.Get(prop), "vole", genVole, runVole)
}

// TestModuliTable guards the harness' own constants.
func TestModuliTable(t *testing.T) {
	for _, m := range fixedMods {
		if !m.p.ProbablyPrime(32) {
			t.Fatalf("fixed modulus %s is not prime", m.name)
		}
		if m.p.BitLen() > 256 {
			t.Fatalf("fixed modulus %s has %d bits", m.name, m.p.BitLen())
		}
	}
}

// TestVoleGrid runs the boundary table deterministically: every boundary
// length x every fixed modulus as a single call with random elements and the
// special values pinned at both ends and around the chunk borders, plus, per
// modulus, one pair that makes all boundary lengths as consecutive calls.
func TestVoleGrid(t *testing.T) {
	col := ev.Get(prop)
	reps := col.N(1, 4)
	shard, nshards := ev.Shard()
	idx := 0
	fails := 0
	ev.Each(t, col, "vole", func(yield func(VoleCase) bool) {
		for rep := 0; rep < reps; rep++ {
			for mi, md := range fixedMods {
				for li, m := range boundaryLens {
					idx++
					if idx%nshards != shard {
						continue
					}
					if fails >= maxEnumFailures {
						return
					}
					yield(VoleCase{Seed: uint64(1000003*rep + 1009*mi + li + 1),
						P: md.p.Text(16), PKind: "fixed:" + md.name,
						Calls: []Call{gridCall(m, rep+mi+li)}})
				}
				idx++
				if idx%nshards != shard {
					continue
				}
				var calls []Call
				for _, m := range []int{1, 7, 512, 513, 2, 1025, 8} {
					calls = append(calls, gridCall(m, rep+mi))
				}
				yield(VoleCase{Seed: uint64(7000003*rep + 1013*mi + 5),
					P: md.p.Text(16), PKind: "fixed:" + md.name, Calls: calls})
			}
		}
	}, countFailures(runVole, &fails))
	if fails >= maxEnumFailures {
		col.Note("vole grid stopped after %d failing cases", fails)
	}
	col.Note("vole grid: boundary lengths %v x %d fixed moduli x %d repetition(s), plus one 7-call pair per modulus", boundaryLens, len(fixedMods), reps)
}

func gridCall(m, rot int) Call {
	c := Call{M: m, FillX: "rand", FillY: "rand"}
	pos := []int{0, m - 1}
	for _, b := range []int{1, 7, 8, 511, 512, 513, 1023, 1024, 1025} {
		if b < m-1 {
			pos = append(pos, b)
		}
	}
	k := rot
	for _, i := range pos {
		c.Spots = append(c.Spots, Spot{I: i, X: elemClasses[k%4], Y: elemClasses[(k/4+k)%4]})
		k += 5
	}
	return c
}

func TestReplay(t *testing.T) { ev.Replay(t, ev.Get(prop)) }
