// Generators and helpers for (a) sessions with wide inputs (total input-wire
// counts around powers of two / typical block sizes) and (b) sessions in which
// one read of the garbler's random source fails once.
package c04

import (
	"errors"
	"io"
	"sync"

	"github.com/markkurossi/mpc/ot"
	"pgregory.net/rapid"

	"verifharness/internal/gen"
	"verifharness/internal/mpcl"
	"verifharness/internal/ref"
)

// ---------------------------------------------------------------------------
// (b) A random source whose k:th Read fails once.

var errInjected = errors.New("injected transient failure of the random source")

// readRec is one successful Read of the source.
type readRec struct {
	N    int      // requested length
	Head [16]byte // first 16 bytes delivered (all of them for a label read)
}

// faultReader is the garbler's randomness: a DRBG stream that counts and logs
// its reads; the FailAt:th Read (1-based, 0 = never) returns (0, err) once
// and leaves the caller's buffer untouched.  The failed read still consumes
// its bytes of the underlying stream, so every other read returns exactly the
// bytes the same read returns in a run without the failure (the two runs stay
// aligned).
type faultReader struct {
	mu     sync.Mutex
	d      *gen.DRBG
	failAt int
	// chunk > 0: a Read delivers at most chunk bytes (a short read, which
	// the io.Reader contract allows at any time).
	chunk  int
	reads  int
	failed bool
	log    []readRec
}

func newFaultReader(seed, stream uint64, failAt int) *faultReader {
	return &faultReader{d: gen.NewDRBG(seed, stream), failAt: failAt}
}

func (f *faultReader) Read(p []byte) (int, error) {
	f.mu.Lock()
	defer f.mu.Unlock()
	f.reads++
	if f.failAt > 0 && f.reads == f.failAt {
		f.failed = true
		f.d.Bytes(len(p))
		f.log = append(f.log, readRec{N: -len(p)})
		return 0, errInjected
	}
	if f.chunk > 0 && len(p) > f.chunk {
		p = p[:f.chunk]
	}
	f.d.Read(p)
	rec := readRec{N: len(p)}
	copy(rec.Head[:], p)
	f.log = append(f.log, rec)
	return len(p), nil
}

// snapshot returns the number of reads, whether the failure was delivered and
// the read log.
func (f *faultReader) snapshot() (int, bool, []readRec) {
	f.mu.Lock()
	defer f.mu.Unlock()
	return f.reads, f.failed, append([]readRec{}, f.log...)
}

var _ io.Reader = (*faultReader)(nil)

// Fault selects the read that fails, relative to the number n of reads the
// honest run of the same case performs (learnt by running it first).
type Fault struct {
	Mode string `json:"mode"` // "abs": k = K; "end": k = n-K; "rel": k = 1 + K*n/1000
	K    int    `json:"k"`
}

// index returns the 1-based number of the failing read, always inside [1, n].
func (f *Fault) index(n int) int {
	k := 1
	switch f.Mode {
	case "abs":
		k = f.K
	case "end":
		k = n - f.K
	default:
		k = 1 + f.K*n/1000
	}
	if k > n {
		k = n
	}
	if k < 1 {
		k = 1
	}
	return k
}

// shortChunks are the per-Read limits of a short-reading random source: below,
// at and above the label size, and below a plausible buffer size.
var shortChunks = []int{1, 3, 7, 8, 15, 16, 17, 31, 100, 4095}

// drawChunk draws a short-read limit with probability pct/100 (0 = the source
// always fills the buffer).
func drawChunk(t *rapid.T, pct int) int {
	if gen.Uniform(t, 100, "shortreads") >= pct {
		return 0
	}
	return shortChunks[gen.Uniform(t, len(shortChunks), "chunk")]
}

// drawFault draws a fault with probability pct/100.
func drawFault(t *rapid.T, pct int) *Fault {
	if gen.Uniform(t, 100, "fault") >= pct {
		return nil
	}
	switch gen.Uniform(t, 10, "fault_mode") {
	case 0, 1:
		// The first reads: key, R, the first labels.
		return &Fault{Mode: "abs", K: gen.UniformRange(t, 1, 6, "fault_abs")}
	case 2, 3:
		// The last reads.
		return &Fault{Mode: "end", K: gen.UniformRange(t, 0, 3, "fault_end")}
	default:
		return &Fault{Mode: "rel", K: gen.UniformRange(t, 0, 999, "fault_rel")}
	}
}

// readOfR finds the read that delivered the offset r in a read log: a 16-byte
// read whose bytes, with the permute bit set, are r.  It returns the 1-based
// read number or 0.  (An observation on the random stream, it does not assume
// an order of the reads.)
func readOfR(log []readRec, r ot.Label) int {
	var rb ot.LabelData
	r.GetData(&rb)
	for i, rec := range log {
		if rec.N != 16 {
			continue
		}
		h := rec.Head
		h[0] |= 0x80
		if h == [16]byte(rb) {
			return i + 1
		}
	}
	return 0
}

// samePrefix tells whether the first n entries of two read logs are equal.
func samePrefix(a, b []readRec, n int) bool {
	if len(a) < n || len(b) < n {
		return false
	}
	for i := 0; i < n; i++ {
		if a[i] != b[i] {
			return false
		}
	}
	return true
}

// ---------------------------------------------------------------------------
// (a) Wide inputs.

// wideMin is the total input-wire count from which a case counts as wide.
const wideMin = 130

var wideTotals = []int{255, 256, 257, 511, 512, 513, 767, 768, 769, 1023, 1024, 1025,
	1535, 1536, 1537, 2047, 2048, 2049, 3071, 3072, 3073, 4095, 4096, 4097}

// drawWideTotal draws the total number of input wires of a wide case.
func drawWideTotal(t *rapid.T) int {
	switch gen.Uniform(t, 10, "wide_kind") {
	case 0, 1:
		return gen.UniformRange(t, wideMin, 4200, "wide_total")
	case 2, 3:
		// Multiples of the most typical block size.
		return 1024 * gen.UniformRange(t, 1, 4, "wide_k1024")
	default:
		return wideTotals[gen.Uniform(t, len(wideTotals), "wide_table")]
	}
}

// drawSplit splits total >= 2 wires into the garbler's n0 >= 1 and the
// evaluator's n1 >= 1 wires.
func drawSplit(t *rapid.T, total int) int {
	var blocks []int
	for _, b := range []int{128, 256, 512, 1024} {
		if b <= total-1 {
			blocks = append(blocks, b)
		}
	}
	kind := gen.Uniform(t, 8, "split_kind")
	if len(blocks) == 0 && (kind == 2 || kind == 3) {
		kind = 7
	}
	switch kind {
	case 0:
		return 1
	case 1:
		return total - 1
	case 2, 3:
		b := blocks[gen.Uniform(t, len(blocks), "split_block")]
		m := gen.UniformRange(t, 1, (total-1)/b, "split_mult")
		if kind == 2 {
			return b * m // the garbler has a block multiple
		}
		return total - b*m // the evaluator has one
	case 4:
		return total / 2
	case 5:
		return (total + 1) / 2
	default:
		return gen.UniformRange(t, 1, total-1, "split")
	}
}

// drawWideBits draws n input bits without n draws: a pattern or a stream
// expanded from a drawn seed.
func drawWideBits(t *rapid.T, n int, label string) []bool {
	res := make([]bool, n)
	mode := gen.Uniform(t, 10, label+"_mode")
	switch mode {
	case 0:
	case 1:
		for i := range res {
			res[i] = true
		}
	case 2:
		for i := range res {
			res[i] = i%2 == 1
		}
	case 3:
		res[rapid.IntRange(0, n-1).Draw(t, label+"_one")] = true
	default:
		b := gen.NewDRBG(rapid.Uint64().Draw(t, label+"_seed"), 30).Bytes((n + 7) / 8)
		for i := range res {
			res[i] = b[i/8]>>(uint(i)%8)&1 == 1
		}
	}
	return res
}

// drawWideCirc draws a circuit with n0+n1 input wires and a handful of gates;
// the first gate is an AND of a garbler and an evaluator wire so that a table
// is sent.  Operands favour the wires at the ends of the two arguments and at
// block boundaries.
func drawWideCirc(t *rapid.T, n0, n1 int) gen.Circ {
	nin := n0 + n1
	c := gen.Circ{In: []int{n0, n1}}
	nouts := rapid.IntRange(1, 2).Draw(t, "w_nouts")
	for i := 0; i < nouts; i++ {
		c.Out = append(c.Out, rapid.IntRange(1, 3).Draw(t, "w_outw"))
	}
	ngates := c.NumOut() + rapid.IntRange(0, 6).Draw(t, "w_ngates")
	special := []int{0, n0 - 1, n0, nin - 1}
	for _, b := range []int{255, 256, 1023, 1024, 2047, 2048, nin - 1024, nin - 1025} {
		if b >= 0 && b < nin {
			special = append(special, b)
		}
	}
	pick := func(i int, label string) int {
		switch rapid.IntRange(0, 2).Draw(t, label+"_mode") {
		case 0:
			return rapid.SampledFrom(special).Draw(t, label+"_special")
		case 1:
			if i > 0 {
				return nin + rapid.IntRange(0, i-1).Draw(t, label+"_gate")
			}
			fallthrough
		default:
			return rapid.IntRange(0, nin-1).Draw(t, label+"_in")
		}
	}
	ops := []int{ref.AND, ref.XOR, ref.OR, ref.XNOR, ref.INV, ref.AND}
	for i := 0; i < ngates; i++ {
		if i == 0 {
			c.Gates = append(c.Gates, ref.Gate{ref.AND, rapid.IntRange(0, n0-1).Draw(t, "w_g0a"),
				n0 + rapid.IntRange(0, n1-1).Draw(t, "w_g0b"), nin})
			continue
		}
		op := rapid.SampledFrom(ops).Draw(t, "w_op")
		a := pick(i, "w_a")
		b := 0
		if op != ref.INV {
			b = pick(i, "w_b")
		}
		c.Gates = append(c.Gates, ref.Gate{op, a, b, nin + i})
	}
	return c
}

// bitsHex renders a bit vector (wire 0 = bit 0) as 0x... for the MPCL input
// parser.
func bitsHex(bits []bool) string {
	return "0x" + bitsToInt(bits).Text(16)
}

// drawWideProg builds "func main(a0 uintN0, a1 uintN1) uintW" whose body
// combines narrowed (or widened) views of both arguments.
func drawWideProg(t *rapid.T, n0, n1 int) *mpcl.Prog {
	w := rapid.SampledFrom([]int{1, 8, 16, 32}).Draw(t, "sw_out")
	op := rapid.SampledFrom([]string{"^", "&", "|", "+"}).Draw(t, "sw_op")
	T := mpcl.Uint(w)
	arg := func(name string, n int) *mpcl.Expr {
		v := &mpcl.Expr{Op: mpcl.EVar, T: mpcl.Uint(n), Name: name}
		if n == w {
			return v
		}
		return &mpcl.Expr{Op: mpcl.ECast, T: T, A: []*mpcl.Expr{v}}
	}
	e := &mpcl.Expr{Op: mpcl.EBin, T: T, Name: op, A: []*mpcl.Expr{arg("a0", n0), arg("a1", n1)}}
	return &mpcl.Prog{Funcs: []*mpcl.Func{{
		Name:    "main",
		Params:  []mpcl.Param{{Name: "a0", T: mpcl.Uint(n0)}, {Name: "a1", T: mpcl.Uint(n1)}},
		Results: []mpcl.Type{T},
		Body:    []*mpcl.Stmt{{K: mpcl.SReturn, Es: []*mpcl.Expr{e}}},
	}}}
}

// wideClasses describes the input widths of a session for the evidence.
func wideClasses(n0, n1 int) []string {
	total := n0 + n1
	if total < wideMin {
		return nil
	}
	cl := []string{"wide"}
	switch {
	case total%1024 == 0:
		cl = append(cl, "wide-total=multiple-of-1024")
	case total%256 == 0:
		cl = append(cl, "wide-total=multiple-of-256")
	case (total+1)%256 == 0 || (total-1)%256 == 0:
		cl = append(cl, "wide-total=block+-1")
	default:
		cl = append(cl, "wide-total=other")
	}
	switch {
	case n0%128 == 0:
		cl = append(cl, "wide-split=garbler-block-multiple")
	case n1%128 == 0:
		cl = append(cl, "wide-split=evaluator-block-multiple")
	case n0 == 1 || n1 == 1:
		cl = append(cl, "wide-split=one-wire-side")
	default:
		cl = append(cl, "wide-split=other")
	}
	switch {
	case total > 65000:
		cl = append(cl, "wide-size>65000")
	case total > 3000:
		cl = append(cl, "wide-size>3000")
	case total > 1500:
		cl = append(cl, "wide-size>1500")
	}
	return cl
}
