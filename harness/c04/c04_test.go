// C04: the evaluator never receives both labels of a wire; the garbler's
// global offset R stays secret.
package c04

import (
	"bytes"
	"crypto/elliptic"
	"crypto/sha256"
	"fmt"
	"io"
	"math/big"
	"os"
	"path/filepath"
	"strings"
	"sync"
	"testing"
	"time"

	"github.com/markkurossi/mpc/circuit"
	"github.com/markkurossi/mpc/compiler"
	"github.com/markkurossi/mpc/compiler/utils"
	"github.com/markkurossi/mpc/env"
	"github.com/markkurossi/mpc/ot"
	"github.com/markkurossi/mpc/sha2pc"
	"pgregory.net/rapid"

	"verifharness/internal/ev"
	"verifharness/internal/gen"
	"verifharness/internal/mpcl"
	"verifharness/internal/xport"
)

const prop = "C04"

// spyOT observes the wires handed to OT.Send on the garbler's side: for every
// wire L0 xor L1 is the global offset R (the observe point named by the
// property).  It forwards everything unchanged.
type spyOT struct {
	ot.OT
	mu    sync.Mutex
	wires []ot.Wire
}

func (s *spyOT) Send(w []ot.Wire) error {
	s.mu.Lock()
	s.wires = append(s.wires, w...)
	s.mu.Unlock()
	return s.OT.Send(w)
}

// Leak describes one finding in a transcript.
type Leak struct {
	Kind   string // "R-transmitted" | "pair"
	Off1   int
	Off2   int
	Region string
}

// scan looks for R itself and for two 16-byte windows (at any byte offsets)
// that differ by R.  region classifies an offset pair (for known findings).
func scan(transcript []byte, r ot.Label, region func(o1, o2 int) string) []Leak {
	var rb ot.LabelData
	r.GetData(&rb)
	n := len(transcript)
	if n < 16 {
		return nil
	}
	var leaks []Leak
	idx := make(map[[16]byte]int32, n)
	var key [16]byte
	for i := 0; i+16 <= n; i++ {
		copy(key[:], transcript[i:i+16])
		if _, ok := idx[key]; !ok {
			idx[key] = int32(i)
		}
		if key == rb {
			leaks = append(leaks, Leak{Kind: "R-transmitted", Off1: i, Off2: i, Region: region(i, i)})
		}
	}
	seen := map[[2]int]bool{}
	for i := 0; i+16 <= n; i++ {
		for j := 0; j < 16; j++ {
			key[j] = transcript[i+j] ^ rb[j]
		}
		if o, ok := idx[key]; ok {
			a, b := int(o), i
			if a > b {
				a, b = b, a
			}
			if !seen[[2]int{a, b}] {
				seen[[2]int{a, b}] = true
				leaks = append(leaks, Leak{Kind: "pair", Off1: a, Off2: b, Region: region(a, b)})
				if len(leaks) > 600 {
					return leaks
				}
			}
		}
	}
	return leaks
}

func xorLabel(a, b ot.Label) ot.Label {
	a.Xor(b)
	return a
}

// ---------------------------------------------------------------------------
// Modes (a) whole circuit and (b) streaming.

// Case is one session of mode "circuit" or "stream".  With Fault set the
// session is run twice: honestly (which also tells how many reads of the
// random source an honest garbler performs) and with one failing read.
type Case struct {
	Mode  string     `json:"mode"`
	Circ  *gen.Circ  `json:"circ,omitempty"`
	Prog  *mpcl.Prog `json:"prog,omitempty"`
	X     string     `json:"x"`
	Y     string     `json:"y"`
	OT    string     `json:"ot"`
	Seed  uint64     `json:"seed"`
	Fault *Fault     `json:"fault,omitempty"`
	// Src, when set, is a literal MPCL source (mode "stream") that is
	// streamed under a file name inside SrcDir of the repository, so that
	// native("x.circ", ...) finds the circuit files shipped there; both
	// parameters are uint64.
	Src    string `json:"src,omitempty"`
	SrcDir string `json:"srcdir,omitempty"`
	// Chunk > 0: the garbler's random source delivers at most Chunk bytes
	// per Read (short reads).
	Chunk int `json:"chunk,omitempty"`
}

// withChunk turns a case without a fault into a short-read case now and then.
func withChunk(t *rapid.T, cs Case) Case {
	if cs.Fault == nil {
		cs.Chunk = drawChunk(t, shortReadPct)
	}
	return cs
}

const shortReadPct = 8

// Shares of wide and fault-injected cases (percent).
const (
	widePctCircuit  = 13
	widePctStream   = 10
	faultPctCircuit = 10
	faultPctStream  = 14
)

func genCircuitCase(t *rapid.T) Case { return withChunk(t, genCircuitCase0(t)) }

func genStreamCase(t *rapid.T) Case { return withChunk(t, genStreamCase0(t)) }

func genCircuitCase0(t *rapid.T) Case {
	if gen.Uniform(t, 100, "wide") < widePctCircuit {
		total := drawWideTotal(t)
		n0 := drawSplit(t, total)
		c := drawWideCirc(t, n0, total-n0)
		return Case{Mode: "circuit", Circ: &c,
			X:     gen.BitsOf(drawWideBits(t, n0, "x")),
			Y:     gen.BitsOf(drawWideBits(t, total-n0, "y")),
			OT:    rapid.SampledFrom([]string{"co", "cot", "cot", "cot-malicious"}).Draw(t, "ot"),
			Seed:  rapid.Uint64().Draw(t, "seed"),
			Fault: drawFault(t, faultPctCircuit)}
	}
	o := gen.CircOpts{MinArgs: 2, MaxArgs: 2, MaxWidth: 8, MaxGates: 60, MaxOuts: 3, MaxOutWidth: 4}
	c := gen.DrawCirc(t, o)
	return Case{Mode: "circuit", Circ: &c,
		X:     gen.BitsOf(gen.DrawBits(t, c.In[0], "x")),
		Y:     gen.BitsOf(gen.DrawBits(t, c.In[1], "y")),
		OT:    rapid.SampledFrom([]string{"co", "co", "cot", "cot-malicious"}).Draw(t, "ot"),
		Seed:  rapid.Uint64().Draw(t, "seed"),
		Fault: drawFault(t, faultPctCircuit)}
}

// hugeInputs are garbler input widths around the 64k-wire pages of the
// streaming garbler's wire table.
var hugeInputs = []int{65535, 65536, 65537, 65600, 131071, 131073}

const hugePctStream = 3

const nativePctStream = 5

// drawNativeCase builds a program that calls a circuit file shipped with the
// library through native() - directly or through the library function - with a
// run-time value and a constant (the one argument the front end accepts
// although it is narrower than the circuit input: 32 bits for 64).
func drawNativeCase(t *rapid.T) Case {
	circ := []string{"add64.circ", "sub64.circ", "mul64.circ", "div64.circ"}[gen.Uniform(t, 4, "native_circ")]
	fn := map[string]string{"add64.circ": "AddUint64", "sub64.circ": "SubUint64", "mul64.circ": "MulUint64",
		"div64.circ": "DivUint64"}[circ]
	k := []string{"1", "2", "3", "5", "7", "255", "256", "65535", "65537", "0x7fffffff", "0xffffffff",
		"0x100000000", "0xffffffffffffffff"}[gen.Uniform(t, 13, "native_const")]
	dyn := []string{"a ^ b", "a", "b", "a + b", "a & b"}[gen.Uniform(t, 5, "native_dyn")]
	args := dyn + ", " + k
	if circ != "div64.circ" && rapid.Bool().Draw(t, "native_constfirst") {
		args = k + ", " + dyn
	}
	var src, dir string
	switch gen.Uniform(t, 3, "native_form") {
	case 0:
		dir = "pkg/math"
		src = "package main\n\nfunc main(a, b uint64) uint64 {\n\treturn native(\"" + circ + "\", " + args + ")\n}\n"
	case 1:
		dir = "pkg/math"
		src = "package main\n\nfunc main(a, b uint64) uint64 {\n\tx := native(\"" + circ + "\", " + args + ")\n\treturn native(\"add64.circ\", x, b)\n}\n"
	default:
		src = "package main\n\nimport (\n\t\"math\"\n)\n\nfunc main(a, b uint64) uint64 {\n\treturn math." + fn + "(" + args + ")\n}\n"
	}
	x := new(big.Int).SetUint64(rapid.Uint64().Draw(t, "x"))
	y := new(big.Int).SetUint64(rapid.Uint64().Draw(t, "y"))
	return Case{Mode: "stream", Src: src, SrcDir: dir, X: "0x" + x.Text(16), Y: "0x" + y.Text(16),
		OT:   rapid.SampledFrom([]string{"co", "cot"}).Draw(t, "ot"),
		Seed: rapid.Uint64().Draw(t, "seed")}
}

func genStreamCase0(t *rapid.T) Case {
	if gen.Uniform(t, 100, "native") < nativePctStream {
		return drawNativeCase(t)
	}
	if gen.Uniform(t, 100, "huge") < hugePctStream {
		n0 := hugeInputs[gen.Uniform(t, len(hugeInputs), "huge_n0")]
		n1 := gen.UniformRange(t, 1, 64, "huge_n1")
		if rapid.Bool().Draw(t, "huge_swap") {
			// the evaluator has the huge input (correlated OT only:
			// one base OT per wire would take minutes)
			return Case{Mode: "stream", Prog: drawWideProg(t, n1, n0),
				X:    bitsHex(drawWideBits(t, n1, "x")),
				Y:    bitsHex(drawWideBits(t, n0, "y")),
				OT:   "cot",
				Seed: rapid.Uint64().Draw(t, "seed")}
		}
		return Case{Mode: "stream", Prog: drawWideProg(t, n0, n1),
			X:    bitsHex(drawWideBits(t, n0, "x")),
			Y:    bitsHex(drawWideBits(t, n1, "y")),
			OT:   rapid.SampledFrom([]string{"co", "cot"}).Draw(t, "ot"),
			Seed: rapid.Uint64().Draw(t, "seed")}
	}
	if gen.Uniform(t, 100, "wide") < widePctStream {
		total := drawWideTotal(t)
		n0 := drawSplit(t, total)
		return Case{Mode: "stream", Prog: drawWideProg(t, n0, total-n0),
			X:     bitsHex(drawWideBits(t, n0, "x")),
			Y:     bitsHex(drawWideBits(t, total-n0, "y")),
			OT:    rapid.SampledFrom([]string{"co", "cot", "cot"}).Draw(t, "ot"),
			Seed:  rapid.Uint64().Draw(t, "seed"),
			Fault: drawFault(t, faultPctStream)}
	}
	o := mpcl.Opts{NumParams: 2, MaxStmts: 6, MaxDepth: 2, Helpers: 1, Arrays: true,
		Loops: true, ScalarParams: true, MaxWidth: 40, AliasHeavy: rapid.Bool().Draw(t, "alias")}
	if rapid.IntRange(0, 5).Draw(t, "widetypes") == 0 {
		// Types up to 130 bits: widening casts by more than 64 bits,
		// wide constants.
		o.MaxWidth = 130
	}
	p := mpcl.Draw(t, o)
	vec := mpcl.DrawInputs(t, p, 2)
	in := vec[rapid.IntRange(0, len(vec)-1).Draw(t, "vec")]
	return Case{Mode: "stream", Prog: p, X: in[0], Y: in[1],
		OT:    rapid.SampledFrom([]string{"co", "cot"}).Draw(t, "ot"),
		Seed:  rapid.Uint64().Draw(t, "seed"),
		Fault: drawFault(t, faultPctStream)}
}

func makeOT(kind string, seed uint64, party uint64) ot.OT {
	r := gen.NewDRBG(seed, 10+party)
	r2 := gen.NewDRBG(seed, 20+party)
	switch kind {
	case "co":
		return ot.NewCO(r)
	case "cot":
		return ot.NewCOT(ot.NewCO(r), r2, false, false)
	case "cot-malicious":
		return ot.NewCOT(ot.NewCO(r), r2, true, false)
	}
	panic("unknown OT kind " + kind)
}

func bitsToInt(bits []bool) *big.Int {
	v := new(big.Int)
	for i, b := range bits {
		if b {
			v.SetBit(v, i, 1)
		}
	}
	return v
}

// sess is what one execution of a session left behind.
type sess struct {
	skip       string // malformed case
	res        xport.PairOutcome
	wires      []ot.Wire // handed to OT.Send by the garbler
	transcript []byte    // garbler -> evaluator
	n0, n1     int       // input wires of garbler / evaluator
	tables     int
	src        string
	reads      int // reads of the garbler's random source
	failed     bool
	log        []readRec
}

func (s *sess) complete() bool {
	return !s.res.TimedOut && !s.res.Stalled && !s.res.A.Failed() && !s.res.B.Failed()
}

func (s *sess) how() string {
	return fmt.Sprintf("stalled=%v timedout=%v gerr=%v eerr=%v gpanic=%v", s.res.Stalled, s.res.TimedOut,
		s.res.A.Err, s.res.B.Err, s.res.A.Panic != "" || s.res.B.Panic != "")
}

// session runs the two parties of cs once; the failAt:th read of the
// garbler's random source fails (0 = none).
func session(cs Case, failAt int) *sess {
	s := &sess{}
	d := xport.NewDuplex(nil, nil)
	d.Record()
	gConn, eConn := d.Conns()
	spy := &spyOT{OT: makeOT(cs.OT, cs.Seed, 0)}
	eOT := makeOT(cs.OT, cs.Seed, 1)
	rnd := newFaultReader(cs.Seed, 1, failAt)
	if cs.Chunk > 0 {
		rnd.chunk = cs.Chunk
	}
	cfg := &env.Config{Rand: rnd}
	switch cs.Mode {
	case "circuit":
		if cs.Circ == nil || len(cs.Circ.In) != 2 {
			s.skip = "malformed case"
			return s
		}
		circ := cs.Circ.Build()
		x, y := gen.ParseBits(cs.X), gen.ParseBits(cs.Y)
		s.n0, s.n1 = cs.Circ.In[0], cs.Circ.In[1]
		cnt := cs.Circ.OpCounts()
		s.tables = cnt[2] + cnt[3] + cnt[4]
		s.res = xport.RunPair(d,
			func() ([]*big.Int, error) {
				return circuit.Garbler(cfg, gConn, spy, circ, bitsToInt(x), false)
			},
			func() ([]*big.Int, error) {
				return circuit.Evaluator(eConn, eOT, circ, bitsToInt(y), false)
			}, 10*time.Second, 120*time.Second)
	case "stream":
		srcName := "{data}"
		if cs.Src != "" {
			if strings.Contains(cs.SrcDir, "..") || strings.HasPrefix(cs.SrcDir, "/") {
				s.skip = "malformed case"
				return s
			}
			s.src = cs.Src
			s.n0, s.n1 = 64, 64
			if cs.SrcDir != "" {
				srcName = filepath.Join(repoRoot(), cs.SrcDir, "verif-c04-native.mpcl")
			}
		} else {
			if cs.Prog == nil || cs.Prog.Main() == nil || len(cs.Prog.Main().Params) != 2 {
				s.skip = "malformed case"
				return s
			}
			s.src = cs.Prog.Source()
			s.n0 = cs.Prog.Bits(cs.Prog.Main().Params[0].T)
			s.n1 = cs.Prog.Bits(cs.Prog.Main().Params[1].T)
		}
		params := utils.NewParams()
		params.Config = cfg
		sx, _ := circuit.InputSizes([]string{cs.X})
		sy, _ := circuit.InputSizes([]string{cs.Y})
		s.tables = 1
		src := s.src
		s.res = xport.RunPair(d,
			func() ([]*big.Int, error) {
				_, vals, err := compiler.New(params).Stream(gConn, spy, srcName,
					strings.NewReader(src), []string{cs.X}, [][]int{sx, sy})
				return vals, err
			},
			func() ([]*big.Int, error) {
				_, vals, err := circuit.StreamEvaluator(eConn, eOT, []string{cs.Y}, nil, false)
				return vals, err
			}, 10*time.Second, 120*time.Second)
	default:
		s.skip = "unknown mode"
		return s
	}
	d.Close()
	spy.mu.Lock()
	s.wires = append([]ot.Wire{}, spy.wires...)
	spy.mu.Unlock()
	s.transcript = d.Transcript(0)
	s.reads, s.failed, s.log = rnd.snapshot()
	return s
}

// offsetOf derives R from the wires handed to OT.Send: L0 xor L1, the same
// for every wire, permute bit set.
func offsetOf(mode string, wires []ot.Wire) (ot.Label, *ev.Outcome) {
	r := xorLabel(wires[0].L0, wires[0].L1)
	for i, w := range wires {
		if !xorLabel(w.L0, w.L1).Equal(r) {
			o := ev.Fail(mode+"/offset-not-global", "wire %d handed to OT.Send has L0^L1 != that of wire 0", i)
			return r, &o
		}
	}
	if !r.S() {
		o := ev.Fail(mode+"/R-permute-bit", "permute bit of the offset is not set")
		return r, &o
	}
	return r, nil
}

// judge applies the oracle to what the garbler disclosed in one execution:
// the transcript (every byte offset) and the wires handed to OT.Send, of
// which the evaluator obtains one label each, at its choice.
func judge(mode string, s *sess, rs []ot.Label, what string) *ev.Outcome {
	fail := func(sig, format string, a ...interface{}) *ev.Outcome {
		o := ev.Fail(mode+"/"+sig, "%s: %s\n%s", what, fmt.Sprintf(format, a...), s.src)
		return &o
	}
	for _, r := range rs {
		leaks := scan(s.transcript, r, func(a, b int) string { return "transcript" })
		if len(leaks) > 0 {
			l := leaks[0]
			return fail(l.Kind, "%s at byte offsets %d/%d of the %d-byte garbler->evaluator transcript (%d findings)",
				l.Kind, l.Off1, l.Off2, len(s.transcript), len(leaks))
		}
		for i, w := range s.wires {
			if w.L0.Equal(r) || w.L1.Equal(r) {
				return fail("R-handed-to-OT", "wire %d of %d handed to OT.Send has the offset R itself as one of its two labels (the other is zero): the evaluator obtains R by choosing it", i, len(s.wires))
			}
		}
	}
	if len(s.wires) == 0 {
		return nil
	}
	// The evaluator picks which label of an OT wire it gets.  If a label of
	// such a wire is also a label of another OT wire, or is transmitted in
	// the clear, it can hold two values that differ by R.
	idx := make(map[[16]byte]int, 2*len(s.wires))
	var key ot.LabelData
	for i, w := range s.wires {
		for j, l := range []ot.Label{w.L0, w.L1} {
			l.GetData(&key)
			if o, ok := idx[key]; ok && o != i {
				return fail("ot-wires-share-label", "wires %d and %d handed to OT.Send share a label (L%d of the latter): choosing different bits for them yields both labels of a wire", o, i, j)
			}
			idx[key] = i
		}
	}
	t := s.transcript
	for i := 0; i+16 <= len(t); i++ {
		copy(key[:], t[i:i+16])
		if o, ok := idx[key]; ok {
			return fail("ot-wire-label-in-clear", "a label of wire %d handed to OT.Send is also transmitted in the clear at byte offset %d of the transcript: the evaluator can obtain the other label of that wire through the OT", o, i)
		}
	}
	return nil
}

func run(cs Case) ev.Outcome {
	h := session(cs, 0)
	if h.skip != "" {
		return ev.Outcome{Skip: h.skip}
	}
	if !h.complete() {
		// Functional failures are C02/C05's business; without a complete
		// session there is no transcript to judge.
		return ev.Outcome{Skip: "session did not complete (" + h.how() + ")"}
	}
	if len(h.wires) == 0 {
		return ev.Outcome{Skip: "no wire reached OT.Send (evaluator has no input bits)"}
	}
	r, bad := offsetOf(cs.Mode, h.wires)
	if bad != nil {
		return *bad
	}
	hwhat, hmode := "honest run", cs.Mode
	if cs.Chunk > 0 {
		hwhat = fmt.Sprintf("honest run whose random source delivers at most %d bytes per Read", cs.Chunk)
		hmode = cs.Mode + "/short-reads"
	}
	if bad := judge(hmode, h, []ot.Label{r}, hwhat); bad != nil {
		return *bad
	}
	nontrivial := s0(h)
	classes := []string{"mode=" + cs.Mode, "ot=" + cs.OT}
	if cs.Chunk > 0 {
		classes = append(classes, "short-reads", fmt.Sprintf("short-reads=%d", cs.Chunk))
	}
	if cs.Src != "" {
		classes = append(classes, "native-circuit-call")
	}
	wc := wideClasses(h.n0, h.n1)
	classes = append(classes, wc...)
	if len(wc) > 0 && nontrivial {
		classes = append(classes, "wide-nontrivial")
	}
	sum := sha256.New()
	sum.Write(h.transcript)
	evals := 1

	if cs.Fault != nil {
		k := cs.Fault.index(h.reads)
		rRead := readOfR(h.log, r)
		f := session(cs, k)
		if f.res.TimedOut || f.res.Stalled {
			return ev.Outcome{Skip: "fault run did not end by itself (" + f.how() + ")"}
		}
		evals = 2
		classes = append(classes, "fault", "fault-at="+cs.Fault.Mode)
		// Candidates for the offset of the faulty run: what its own
		// OT.Send shows, and the honest run's R when the two runs are
		// identical up to the failing read and R was drawn before it.
		var rs []ot.Label
		if len(f.wires) > 0 {
			rf, bad := offsetOf(cs.Mode+"/fault", f.wires)
			if bad != nil {
				return *bad
			}
			rs = append(rs, rf)
		}
		aligned := f.failed && samePrefix(h.log, f.log, k-1)
		switch {
		case !f.failed:
			classes = append(classes, "fault-hit=never-reached")
		case rRead == 0 || !aligned:
			classes = append(classes, "fault-hit=R-read-unidentified")
		case k < rRead:
			classes = append(classes, "fault-hit=before-R")
		case k == rRead:
			classes = append(classes, "fault-hit=read-of-R")
		default:
			classes = append(classes, "fault-hit=after-R")
			if len(rs) == 0 || !rs[0].Equal(r) {
				rs = append(rs, r)
			}
		}
		if f.complete() {
			classes = append(classes, "fault-end=completed")
		} else if f.res.A.Panic != "" || f.res.B.Panic != "" {
			classes = append(classes, "fault-end=panic")
		} else {
			classes = append(classes, "fault-end=aborted")
		}
		what := fmt.Sprintf("run in which read %d of the %d reads of the garbler's random source fails once (%s)",
			k, h.reads, f.how())
		if bad := judge(cs.Mode+"/fault", f, rs, what); bad != nil {
			return *bad
		}
		if f.failed && len(rs) > 0 && h.n0 >= 1 {
			// The failure was delivered while the offset was known.
			classes = append(classes, "fault-nontrivial")
		} else {
			classes = append(classes, "fault-trivial")
		}
		sum.Write([]byte(fmt.Sprintf("|fault %d|", k)))
		sum.Write(f.transcript)
	}

	out := ev.OK(nontrivial, classes...)
	out.Evals = evals
	out.Key = fmt.Sprintf("%x", sum.Sum(nil))
	sample := map[string]interface{}{"mode": cs.Mode, "x": cs.X, "y": cs.Y, "ot": cs.OT,
		"transcript_bytes": len(h.transcript), "fault": cs.Fault}
	if h.src != "" {
		sample["source"] = h.src
	} else if len(wc) > 0 {
		sample["circ_in"], sample["circ_out"], sample["gates"] = cs.Circ.In, cs.Circ.Out, cs.Circ.Gates
	} else {
		sample["circ"] = cs.Circ
	}
	if len(cs.X) > 80 {
		sample["x"], sample["y"] = fmt.Sprintf("(%d chars)", len(cs.X)), fmt.Sprintf("(%d chars)", len(cs.Y))
	}
	out.Sample = sample
	return out
}

// s0 is the non-triviality rule of a session: the garbler has an input bit
// and sent a garbled table.
func s0(s *sess) bool { return s.n0 >= 1 && s.tables >= 1 }

// ---------------------------------------------------------------------------
// Mode (c): the SHA256(XOR) round protocol.

// ShaCase is one run of the four-round protocol.  With Fault set it is run a
// second time with one failing read of the random source of GarblerRound3
// (the round that garbles, i.e. draws R and the labels).
type ShaCase struct {
	Curve string `json:"curve"`
	A     string `json:"a"` // hex, 32 bytes
	B     string `json:"b"`
	Seed  uint64 `json:"seed"`
	Fault *Fault `json:"fault,omitempty"`
}

var curves = map[string]elliptic.Curve{
	"P-224": elliptic.P224(), "P-256": elliptic.P256(),
	"P-384": elliptic.P384(), "P-521": elliptic.P521(),
}

// faultPctSha is the share of sha2pc cases with a second, fault-injected run.
// It is larger than in the other units: the unit has few cases and the second
// run costs next to nothing as long as the garbler aborts.
const faultPctSha = 34

func genShaCase(t *rapid.T) ShaCase {
	names := []string{"P-256", "P-224", "P-256", "P-384", "P-521"}
	pick := func(label string) string {
		switch rapid.IntRange(0, 3).Draw(t, label+"_mode") {
		case 0:
			return strings.Repeat("00", 32)
		case 1:
			return strings.Repeat("ff", 32)
		default:
			return fmt.Sprintf("%x", gen.NewDRBG(rapid.Uint64().Draw(t, label), 7).Bytes(32))
		}
	}
	return ShaCase{Curve: rapid.SampledFrom(names).Draw(t, "curve"), A: pick("a"), B: pick("b"),
		Seed: rapid.Uint64().Draw(t, "seed"), Fault: drawFault(t, faultPctSha)}
}

func hex32(s string) (res [32]byte) {
	v, _ := new(big.Int).SetString(s, 16)
	if v != nil {
		v.FillBytes(res[:])
	}
	return res
}

var (
	shaCircOnce sync.Once
	shaCirc     *circuit.Circuit
	shaCircErr  error
)

func repoRoot() string {
	if d := os.Getenv("MPCLDIR"); d != "" {
		return d
	}
	return "/repo"
}

// shaCircuit parses the same file the sha2pc package embeds.
func shaCircuit() (*circuit.Circuit, error) {
	shaCircOnce.Do(func() {
		f, err := os.Open(filepath.Join(repoRoot(), "sha2pc", "sha256xor.mpclc"))
		if err != nil {
			shaCircErr = err
			return
		}
		defer f.Close()
		shaCirc, shaCircErr = circuit.ParseMPCLC(f)
	})
	return shaCirc, shaCircErr
}

const hintKey = "sha2pc/round3/OutputHints[i].L0^L1"

// shaRun is one execution of the round protocol.
type shaRun struct {
	skip       string
	bad        *ev.Outcome // violation that is not the known hint finding
	known      int         // hint slots that disclose L0 and L1
	transcript []byte
	r          ot.Label // offset of this run, valid when haveR
	haveR      bool
	round3     bool // GarblerRound3 produced a payload
	reads      int
	failed     bool
	log        []readRec
}

// shaOnce runs the four rounds; the failAt:th read of GarblerRound3's random
// source fails (0 = none).  rh, when non-nil, is the offset of the honest run
// of the same case, valid for this run because the failing read comes after
// the read that delivered it.
func shaOnce(cs ShaCase, failAt int, rh *ot.Label) *shaRun {
	s := &shaRun{}
	curve, ok := curves[cs.Curve]
	if !ok {
		s.skip = "unknown curve"
		return s
	}
	a, b := hex32(cs.A), hex32(cs.B)
	p1, gs, err := sha2pc.GarblerRound1(gen.NewDRBG(cs.Seed, 1), curve)
	if err != nil {
		s.skip = "round1: " + err.Error()
		return s
	}
	p2, es, err := sha2pc.EvaluatorRound2(gen.NewDRBG(cs.Seed, 2), curve, p1, b)
	if err != nil {
		s.skip = "round2: " + err.Error()
		return s
	}
	e1, err := sha2pc.EncodeRound1(curve, p1)
	if err != nil {
		s.skip = "encode round1: " + err.Error()
		return s
	}
	rnd := newFaultReader(cs.Seed, 3, failAt)
	p3, err := sha2pc.GarblerRound3(rnd, curve, gs, a, p2)
	s.reads, s.failed, s.log = rnd.snapshot()
	var e3 []byte
	if err != nil {
		if failAt == 0 {
			s.skip = "round3: " + err.Error()
			return s
		}
		// The garbler gave up: nothing of round 3 is transmitted.
	} else {
		s.round3 = true
		if _, err := sha2pc.EvaluatorRound4(curve, es, p3); err != nil && failAt == 0 {
			s.skip = "round4: " + err.Error()
			return s
		}
		e3, err = sha2pc.EncodeRound3(p3)
		if err != nil {
			s.skip = "encode round3: " + err.Error()
			return s
		}
	}

	// R, independently of what the payload discloses: garble the same
	// circuit from an identical random stream with the identical failure
	// (GarblerRound3 reads the 32-byte key first, then Garble draws R and
	// the input labels), validated against the transmitted garbler input
	// labels.
	var rs []ot.Label
	if s.round3 {
		circ, err := shaCircuit()
		if err != nil {
			s.skip = "cannot parse sha256xor.mpclc: " + err.Error()
			return s
		}
		ref := newFaultReader(cs.Seed, 3, failAt)
		var key [32]byte
		_, kerr := io.ReadFull(ref, key[:])
		g, err := circ.Garble(ref, key[:])
		valid := kerr == nil && err == nil
		if err == nil {
			defer g.Release()
			for i := 0; valid && i < 256; i++ {
				bit := a[i/8]>>(uint(i)%8)&1 == 1
				if !circuit.LabelForBit(g.Wires[i], bit).Equal(p3.GarblerInputs[i]) {
					valid = false
				}
			}
			if valid {
				s.r, s.haveR = g.R, true
				rs = append(rs, g.R)
			}
		}
		if !valid && failAt == 0 {
			s.skip = "derivation of R could not be validated against GarblerInputs"
			return s
		}
	}
	if rh != nil && (len(rs) == 0 || !rs[0].Equal(*rh)) {
		rs = append(rs, *rh)
	}
	if s.round3 && len(rs) == 0 {
		s.skip = "fault run produced a round-3 payload whose offset the harness cannot determine"
		return s
	}

	s.transcript = append(append([]byte{}, e1...), e3...)
	hintStart := len(e1) + len(e3) - 2*256*32
	hintEnd := hintStart + 256*32
	region := func(o1, o2 int) string {
		if s.round3 && o1 >= hintStart && o2 < hintEnd && (o1-hintStart)%32 == 0 && o2 == o1+16 {
			return "hint-slot"
		}
		return "other"
	}
	sigp := "sha2pc/"
	if failAt > 0 {
		sigp = "sha2pc/fault/"
	}
	for ri, r := range rs {
		for _, l := range scan(s.transcript, r, region) {
			if l.Region == "hint-slot" && l.Kind == "pair" {
				if ri == 0 {
					s.known++
				}
				continue
			}
			o := ev.Fail(sigp+l.Kind+"/"+l.Region, "%s at byte offsets %d/%d of EncodeRound1||EncodeRound3 (%d bytes; hint region %d..%d; failing read %d)",
				l.Kind, l.Off1, l.Off2, len(s.transcript), hintStart, hintEnd, failAt)
			s.bad = &o
			return s
		}
	}
	return s
}

func runSha(cs ShaCase) ev.Outcome {
	col := ev.Get(prop)
	h := shaOnce(cs, 0, nil)
	if h.skip != "" {
		return ev.Outcome{Skip: h.skip}
	}
	if h.bad != nil {
		return *h.bad
	}
	classes := []string{"mode=sha2pc", "curve=" + cs.Curve}
	known := h.known
	sum := sha256.New()
	sum.Write(h.transcript)
	evals := 1
	if cs.Fault != nil {
		k := cs.Fault.index(h.reads)
		rRead := readOfR(h.log, h.r)
		var rh *ot.Label
		if rRead > 0 && k > rRead {
			rh = &h.r
		}
		f := shaOnce(cs, k, rh)
		if f.skip != "" {
			return ev.Outcome{Skip: f.skip}
		}
		if !f.failed || !samePrefix(h.log, f.log, k-1) {
			return ev.Outcome{Skip: "fault run of the round protocol is not aligned with the honest run"}
		}
		if f.bad != nil {
			return *f.bad
		}
		evals = 2
		classes = append(classes, "fault", "fault-at="+cs.Fault.Mode)
		switch {
		case rRead == 0:
			classes = append(classes, "fault-hit=R-read-unidentified")
		case k < rRead:
			classes = append(classes, "fault-hit=before-R")
		case k == rRead:
			classes = append(classes, "fault-hit=read-of-R")
		default:
			classes = append(classes, "fault-hit=after-R")
		}
		if f.round3 {
			classes = append(classes, "fault-end=completed")
		} else {
			classes = append(classes, "fault-end=aborted")
		}
		if rh != nil || f.haveR {
			classes = append(classes, "fault-nontrivial")
		} else {
			classes = append(classes, "fault-trivial")
		}
		known += f.known
		sum.Write([]byte(fmt.Sprintf("|fault %d|", k)))
		sum.Write(f.transcript)
	}
	if known > 0 {
		o := ev.Fail(hintKey, "Round3Payload.OutputHints carries both labels of %d output wires: L0 xor L1 = R is disclosed to the evaluator (curve %s)", known, cs.Curve)
		o.Key = fmt.Sprintf("%x", sum.Sum(nil))
		o.Classes = classes
		o.Evals = evals
		if col.IsKnown(hintKey) {
			col.Count("sha2pc_sessions_with_only_the_known_hint_leak", 1)
		}
		return o
	}
	o := ev.OK(true, classes...)
	o.Evals = evals
	o.Key = fmt.Sprintf("%x", sum.Sum(nil))
	return o
}

func init() {
	ev.Register("session", run)
	ev.Register("sha2pc", runSha)
}

func TestCircuit(t *testing.T) {
	ev.Check(t, ev.Get(prop), "session", genCircuitCase, run)
}

func TestStream(t *testing.T) {
	ev.Check(t, ev.Get(prop), "session", genStreamCase, run)
}

func TestSha2pc(t *testing.T) {
	ev.Check(t, ev.Get(prop), "sha2pc", genShaCase, runSha)
}

func TestReplay(t *testing.T) { ev.Replay(t, ev.Get(prop)) }

var _ = bytes.Equal

// ---------------------------------------------------------------------------
// Deviating evaluator: the OT range request.  The evaluator asks the garbler
// to transfer the labels of wires [offset, offset+count).  Whatever range is
// requested, the garbler must never run the OT on one of its OWN input wires:
// it already sent one label of each of them in the clear, so the evaluator
// would hold both labels of a wire.

// RangeCase is a session with a scripted evaluator.
type RangeCase struct {
	Circ   gen.Circ `json:"circ"`
	X      string   `json:"x"`
	Offset int      `json:"offset"`
	Count  int      `json:"count"`
	Seed   uint64   `json:"seed"`
}

func genRangeCase(t *rapid.T) RangeCase {
	o := gen.CircOpts{MinArgs: 2, MaxArgs: 2, MaxWidth: 8, MaxGates: 30, MaxOuts: 2, MaxOutWidth: 3}
	c := gen.DrawCirc(t, o)
	n0, n1 := c.In[0], c.In[1]
	cs := RangeCase{Circ: c, X: gen.BitsOf(gen.DrawBits(t, n0, "x")), Seed: rapid.Uint64().Draw(t, "seed")}
	switch rapid.IntRange(0, 5).Draw(t, "rangekind") {
	case 0: // honest
		cs.Offset, cs.Count = n0, n1
	case 1: // everything
		cs.Offset, cs.Count = 0, n0+n1
	case 2: // same end, earlier start
		cs.Offset = rapid.IntRange(0, n0).Draw(t, "offset")
		cs.Count = n0 + n1 - cs.Offset
	case 3: // garbler's wires only
		cs.Offset, cs.Count = 0, n0
	default:
		cs.Offset = rapid.IntRange(0, n0+n1).Draw(t, "offset2")
		cs.Count = rapid.IntRange(0, n0+n1-cs.Offset).Draw(t, "count2")
	}
	return cs
}

func runRange(cs RangeCase) ev.Outcome {
	c := cs.Circ
	circ := c.Build()
	n0, n1 := c.In[0], c.In[1]
	x := gen.ParseBits(cs.X)
	if len(x) != n0 || cs.Offset < 0 || cs.Count < 0 {
		return ev.Outcome{Skip: "malformed case"}
	}
	d := xport.NewDuplex(nil, nil)
	gConn, eConn := d.Conns()
	spy := &spyOT{OT: ot.NewCO(gen.NewDRBG(cs.Seed, 10))}
	cfg := &env.Config{Rand: gen.NewDRBG(cs.Seed, 1)}
	var clear []ot.Label // garbler input labels sent in the clear
	res := xport.RunPair(d,
		func() ([]*big.Int, error) {
			return circuit.Garbler(cfg, gConn, spy, circ, bitsToInt(x), false)
		},
		func() ([]*big.Int, error) {
			// Scripted evaluator: honest up to the range request.
			if _, err := eConn.ReceiveData(); err != nil { // key
				return nil, err
			}
			ng, err := eConn.ReceiveUint32()
			if err != nil {
				return nil, err
			}
			var label ot.Label
			var ld ot.LabelData
			for i := 0; i < ng; i++ {
				rows, err := eConn.ReceiveUint32()
				if err != nil {
					return nil, err
				}
				for j := 0; j < rows; j++ {
					if err := eConn.ReceiveLabel(&label, &ld); err != nil {
						return nil, err
					}
				}
			}
			for i := 0; i < n0; i++ {
				if err := eConn.ReceiveLabel(&label, &ld); err != nil {
					return nil, err
				}
				clear = append(clear, label)
			}
			eOT := ot.NewCO(gen.NewDRBG(cs.Seed, 11))
			if err := eOT.InitReceiver(eConn); err != nil {
				return nil, err
			}
			if err := eConn.SendUint32(cs.Offset); err != nil {
				return nil, err
			}
			if err := eConn.SendUint32(cs.Count); err != nil {
				return nil, err
			}
			if err := eConn.Flush(); err != nil {
				return nil, err
			}
			flags := make([]bool, cs.Count)
			for i := range flags {
				flags[i] = true
			}
			got := make([]ot.Label, cs.Count)
			if cs.Count > 0 {
				if err := eOT.Receive(flags, got); err != nil {
					return nil, err
				}
			}
			return nil, fmt.Errorf("scripted evaluator stops after the OT")
		}, 2*time.Second, 60*time.Second)
	d.Close()
	_ = res
	spy.mu.Lock()
	wires := spy.wires
	spy.mu.Unlock()
	honest := cs.Offset == n0 && cs.Count == n1
	for wi, w := range wires {
		for i, l := range clear {
			if l.Equal(w.L0) || l.Equal(w.L1) {
				return ev.Fail("circuit/ot-on-garbler-input-wire",
					"the evaluator requested OT wires [%d,%d) (garbler inputs are [0,%d), evaluator inputs [%d,%d)); the garbler ran the OT on a wire (#%d of the request) whose label it had already sent in the clear as its input bit %d: the evaluator can hold both labels of that wire",
					cs.Offset, cs.Offset+cs.Count, n0, n0, n0+n1, wi, i)
			}
		}
	}
	cl := "deviating-range"
	if honest {
		cl = "honest-range"
	}
	served := "ot-refused"
	if len(wires) > 0 {
		served = "ot-served"
	}
	return ev.OK(!honest && n0 >= 1, cl, served)
}

func init() { ev.Register("range", runRange) }

func TestRange(t *testing.T) {
	ev.Check(t, ev.Get(prop), "range", genRangeCase, runRange)
}
