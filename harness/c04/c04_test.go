// C04: the evaluator never receives both labels of a wire; the garbler's
// global offset R stays secret.
package c04

import (
	"bytes"
	"crypto/elliptic"
	"crypto/sha256"
	"fmt"
	"math/big"
	"os"
	"path/filepath"
	"strings"
	"sync"
	"testing"
	"time"

	"github.com/markkurossi/mpc/circuit"
	"github.com/markkurossi/mpc/compiler"
	"github.com/markkurossi/mpc/compiler/utils"
	"github.com/markkurossi/mpc/env"
	"github.com/markkurossi/mpc/ot"
	"github.com/markkurossi/mpc/sha2pc"
	"pgregory.net/rapid"

	"verifharness/internal/ev"
	"verifharness/internal/gen"
	"verifharness/internal/mpcl"
	"verifharness/internal/xport"
)

const prop = "C04"

// spyOT observes the wires handed to OT.Send on the garbler's side: for every
// wire L0 xor L1 is the global offset R (the observe point named by the
// property).  It forwards everything unchanged.
type spyOT struct {
	ot.OT
	mu    sync.Mutex
	wires []ot.Wire
}

func (s *spyOT) Send(w []ot.Wire) error {
	s.mu.Lock()
	s.wires = append(s.wires, w...)
	s.mu.Unlock()
	return s.OT.Send(w)
}

// Leak describes one finding in a transcript.
type Leak struct {
	Kind   string // "R-transmitted" | "pair"
	Off1   int
	Off2   int
	Region string
}

// scan looks for R itself and for two 16-byte windows (at any byte offsets)
// that differ by R.  region classifies an offset pair (for known findings).
func scan(transcript []byte, r ot.Label, region func(o1, o2 int) string) []Leak {
	var rb ot.LabelData
	r.GetData(&rb)
	n := len(transcript)
	if n < 16 {
		return nil
	}
	var leaks []Leak
	idx := make(map[[16]byte]int32, n)
	var key [16]byte
	for i := 0; i+16 <= n; i++ {
		copy(key[:], transcript[i:i+16])
		if _, ok := idx[key]; !ok {
			idx[key] = int32(i)
		}
		if key == rb {
			leaks = append(leaks, Leak{Kind: "R-transmitted", Off1: i, Off2: i, Region: region(i, i)})
		}
	}
	seen := map[[2]int]bool{}
	for i := 0; i+16 <= n; i++ {
		for j := 0; j < 16; j++ {
			key[j] = transcript[i+j] ^ rb[j]
		}
		if o, ok := idx[key]; ok {
			a, b := int(o), i
			if a > b {
				a, b = b, a
			}
			if !seen[[2]int{a, b}] {
				seen[[2]int{a, b}] = true
				leaks = append(leaks, Leak{Kind: "pair", Off1: a, Off2: b, Region: region(a, b)})
				if len(leaks) > 600 {
					return leaks
				}
			}
		}
	}
	return leaks
}

func xorLabel(a, b ot.Label) ot.Label {
	a.Xor(b)
	return a
}

// ---------------------------------------------------------------------------
// Modes (a) whole circuit and (b) streaming.

// Case is one session of mode "circuit" or "stream".
type Case struct {
	Mode  string     `json:"mode"`
	Circ  *gen.Circ  `json:"circ,omitempty"`
	Prog  *mpcl.Prog `json:"prog,omitempty"`
	X     string     `json:"x"`
	Y     string     `json:"y"`
	OT    string     `json:"ot"`
	Seed  uint64     `json:"seed"`
}

func genCircuitCase(t *rapid.T) Case {
	o := gen.CircOpts{MinArgs: 2, MaxArgs: 2, MaxWidth: 8, MaxGates: 60, MaxOuts: 3, MaxOutWidth: 4}
	c := gen.DrawCirc(t, o)
	return Case{Mode: "circuit", Circ: &c,
		X:    gen.BitsOf(gen.DrawBits(t, c.In[0], "x")),
		Y:    gen.BitsOf(gen.DrawBits(t, c.In[1], "y")),
		OT:   rapid.SampledFrom([]string{"co", "co", "cot", "cot-malicious"}).Draw(t, "ot"),
		Seed: rapid.Uint64().Draw(t, "seed")}
}

func genStreamCase(t *rapid.T) Case {
	o := mpcl.Opts{NumParams: 2, MaxStmts: 6, MaxDepth: 2, Helpers: 1, Arrays: true,
		Loops: true, ScalarParams: true, MaxWidth: 40, AliasHeavy: rapid.Bool().Draw(t, "alias")}
	p := mpcl.Draw(t, o)
	vec := mpcl.DrawInputs(t, p, 2)
	in := vec[rapid.IntRange(0, len(vec)-1).Draw(t, "vec")]
	return Case{Mode: "stream", Prog: p, X: in[0], Y: in[1],
		OT:   rapid.SampledFrom([]string{"co", "cot"}).Draw(t, "ot"),
		Seed: rapid.Uint64().Draw(t, "seed")}
}

func makeOT(kind string, seed uint64, party uint64) ot.OT {
	r := gen.NewDRBG(seed, 10+party)
	r2 := gen.NewDRBG(seed, 20+party)
	switch kind {
	case "co":
		return ot.NewCO(r)
	case "cot":
		return ot.NewCOT(ot.NewCO(r), r2, false, false)
	case "cot-malicious":
		return ot.NewCOT(ot.NewCO(r), r2, true, false)
	}
	panic("unknown OT kind " + kind)
}

func bitsToInt(bits []bool) *big.Int {
	v := new(big.Int)
	for i, b := range bits {
		if b {
			v.SetBit(v, i, 1)
		}
	}
	return v
}

func run(cs Case) ev.Outcome {
	d := xport.NewDuplex(nil, nil)
	d.Record()
	gConn, eConn := d.Conns()
	spy := &spyOT{OT: makeOT(cs.OT, cs.Seed, 0)}
	eOT := makeOT(cs.OT, cs.Seed, 1)
	cfg := &env.Config{Rand: gen.NewDRBG(cs.Seed, 1)}
	var res xport.PairOutcome
	garblerBits := 0
	tables := 0
	var src string
	switch cs.Mode {
	case "circuit":
		circ := cs.Circ.Build()
		x, y := gen.ParseBits(cs.X), gen.ParseBits(cs.Y)
		garblerBits = len(x)
		cnt := cs.Circ.OpCounts()
		tables = cnt[2] + cnt[3] + cnt[4]
		res = xport.RunPair(d,
			func() ([]*big.Int, error) {
				return circuit.Garbler(cfg, gConn, spy, circ, bitsToInt(x), false)
			},
			func() ([]*big.Int, error) {
				return circuit.Evaluator(eConn, eOT, circ, bitsToInt(y), false)
			}, 10*time.Second, 120*time.Second)
	case "stream":
		src = cs.Prog.Source()
		params := utils.NewParams()
		params.Config = cfg
		sx, _ := circuit.InputSizes([]string{cs.X})
		sy, _ := circuit.InputSizes([]string{cs.Y})
		garblerBits = cs.Prog.Bits(cs.Prog.Main().Params[0].T)
		tables = 1
		res = xport.RunPair(d,
			func() ([]*big.Int, error) {
				_, vals, err := compiler.New(params).Stream(gConn, spy, "{data}",
					strings.NewReader(src), []string{cs.X}, [][]int{sx, sy})
				return vals, err
			},
			func() ([]*big.Int, error) {
				_, vals, err := circuit.StreamEvaluator(eConn, eOT, []string{cs.Y}, nil, false)
				return vals, err
			}, 10*time.Second, 120*time.Second)
	default:
		return ev.Outcome{Skip: "unknown mode"}
	}
	d.Close()
	if res.TimedOut || res.Stalled || res.A.Failed() || res.B.Failed() {
		// Functional failures are C02/C05's business; without a complete
		// session there is no transcript to judge.
		return ev.Outcome{Skip: fmt.Sprintf("session did not complete (stalled=%v timedout=%v gerr=%v eerr=%v gpanic=%v)",
			res.Stalled, res.TimedOut, res.A.Err, res.B.Err, res.A.Panic != "" || res.B.Panic != "")}
	}
	spy.mu.Lock()
	wires := spy.wires
	spy.mu.Unlock()
	if len(wires) == 0 {
		return ev.Outcome{Skip: "no wire reached OT.Send (evaluator has no input bits)"}
	}
	r := xorLabel(wires[0].L0, wires[0].L1)
	for i, w := range wires {
		if !xorLabel(w.L0, w.L1).Equal(r) {
			return ev.Fail(cs.Mode+"/offset-not-global", "wire %d handed to OT.Send has L0^L1 != that of wire 0", i)
		}
	}
	if !r.S() {
		return ev.Fail(cs.Mode+"/R-permute-bit", "permute bit of the offset is not set")
	}
	transcript := d.Transcript(0)
	leaks := scan(transcript, r, func(a, b int) string { return "transcript" })
	if len(leaks) > 0 {
		l := leaks[0]
		return ev.Fail(cs.Mode+"/"+l.Kind, "%s at byte offsets %d/%d of the %d-byte garbler->evaluator transcript (%d findings)\n%s",
			l.Kind, l.Off1, l.Off2, len(transcript), len(leaks), src)
	}
	classes := []string{"mode=" + cs.Mode, "ot=" + cs.OT}
	out := ev.OK(garblerBits >= 1 && tables >= 1, classes...)
	out.Key = fmt.Sprintf("%x", sha256.Sum256(transcript))
	if src != "" {
		out.Sample = map[string]interface{}{"mode": cs.Mode, "source": src, "x": cs.X, "y": cs.Y,
			"ot": cs.OT, "transcript_bytes": len(transcript)}
	} else {
		out.Sample = map[string]interface{}{"mode": cs.Mode, "circ": cs.Circ, "x": cs.X, "y": cs.Y,
			"ot": cs.OT, "transcript_bytes": len(transcript)}
	}
	return out
}

// ---------------------------------------------------------------------------
// Mode (c): the SHA256(XOR) round protocol.

// ShaCase is one run of the four-round protocol.
type ShaCase struct {
	Curve string `json:"curve"`
	A     string `json:"a"` // hex, 32 bytes
	B     string `json:"b"`
	Seed  uint64 `json:"seed"`
}

var curves = map[string]elliptic.Curve{
	"P-224": elliptic.P224(), "P-256": elliptic.P256(),
	"P-384": elliptic.P384(), "P-521": elliptic.P521(),
}

func genShaCase(t *rapid.T) ShaCase {
	names := []string{"P-256", "P-224", "P-256", "P-384", "P-521"}
	pick := func(label string) string {
		switch rapid.IntRange(0, 3).Draw(t, label+"_mode") {
		case 0:
			return strings.Repeat("00", 32)
		case 1:
			return strings.Repeat("ff", 32)
		default:
			return fmt.Sprintf("%x", gen.NewDRBG(rapid.Uint64().Draw(t, label), 7).Bytes(32))
		}
	}
	return ShaCase{Curve: rapid.SampledFrom(names).Draw(t, "curve"), A: pick("a"), B: pick("b"),
		Seed: rapid.Uint64().Draw(t, "seed")}
}

func hex32(s string) (res [32]byte) {
	v, _ := new(big.Int).SetString(s, 16)
	if v != nil {
		v.FillBytes(res[:])
	}
	return res
}

var (
	shaCircOnce sync.Once
	shaCirc     *circuit.Circuit
	shaCircErr  error
)

func repoRoot() string {
	if d := os.Getenv("MPCLDIR"); d != "" {
		return d
	}
	return "/repo"
}

// shaCircuit parses the same file the sha2pc package embeds.
func shaCircuit() (*circuit.Circuit, error) {
	shaCircOnce.Do(func() {
		f, err := os.Open(filepath.Join(repoRoot(), "sha2pc", "sha256xor.mpclc"))
		if err != nil {
			shaCircErr = err
			return
		}
		defer f.Close()
		shaCirc, shaCircErr = circuit.ParseMPCLC(f)
	})
	return shaCirc, shaCircErr
}

const hintKey = "sha2pc/round3/OutputHints[i].L0^L1"

func runSha(cs ShaCase) ev.Outcome {
	col := ev.Get(prop)
	curve, ok := curves[cs.Curve]
	if !ok {
		return ev.Outcome{Skip: "unknown curve"}
	}
	a, b := hex32(cs.A), hex32(cs.B)
	p1, gs, err := sha2pc.GarblerRound1(gen.NewDRBG(cs.Seed, 1), curve)
	if err != nil {
		return ev.Outcome{Skip: "round1: " + err.Error()}
	}
	p2, es, err := sha2pc.EvaluatorRound2(gen.NewDRBG(cs.Seed, 2), curve, p1, b)
	if err != nil {
		return ev.Outcome{Skip: "round2: " + err.Error()}
	}
	p3, err := sha2pc.GarblerRound3(gen.NewDRBG(cs.Seed, 3), curve, gs, a, p2)
	if err != nil {
		return ev.Outcome{Skip: "round3: " + err.Error()}
	}
	out, err := sha2pc.EvaluatorRound4(curve, es, p3)
	if err != nil {
		return ev.Outcome{Skip: "round4: " + err.Error()}
	}
	_ = out
	e1, err := sha2pc.EncodeRound1(curve, p1)
	if err != nil {
		return ev.Outcome{Skip: "encode round1: " + err.Error()}
	}
	e3, err := sha2pc.EncodeRound3(p3)
	if err != nil {
		return ev.Outcome{Skip: "encode round3: " + err.Error()}
	}

	// R, independently of what the payload discloses: garble the same
	// circuit from an identical random stream (GarblerRound3 reads the
	// 32-byte key first, then Garble draws R and the input labels).
	circ, err := shaCircuit()
	if err != nil {
		return ev.Outcome{Skip: "cannot parse sha256xor.mpclc: " + err.Error()}
	}
	rng := gen.NewDRBG(cs.Seed, 3)
	key := rng.Bytes(32)
	g, err := circ.Garble(rng, key)
	if err != nil {
		return ev.Outcome{Skip: "reference garbling failed: " + err.Error()}
	}
	defer g.Release()
	r := g.R
	// Validate the derivation: the labels so obtained must reproduce the
	// transmitted garbler input labels.
	for i := 0; i < 256; i++ {
		bit := a[i/8]>>(uint(i)%8)&1 == 1
		if !circuit.LabelForBit(g.Wires[i], bit).Equal(p3.GarblerInputs[i]) {
			return ev.Outcome{Skip: "derivation of R could not be validated against GarblerInputs"}
		}
	}

	transcript := append(append([]byte{}, e1...), e3...)
	base := len(e1)
	hintStart := base + len(e3) - 2*256*32
	hintEnd := hintStart + 256*32
	region := func(o1, o2 int) string {
		if o1 >= hintStart && o2 < hintEnd && (o1-hintStart)%32 == 0 && o2 == o1+16 {
			return "hint-slot"
		}
		return "other"
	}
	leaks := scan(transcript, r, region)
	known := 0
	for _, l := range leaks {
		if l.Region == "hint-slot" && l.Kind == "pair" {
			known++
			continue
		}
		return ev.Fail("sha2pc/"+l.Kind+"/"+l.Region, "%s at byte offsets %d/%d of EncodeRound1||EncodeRound3 (%d bytes; hint region %d..%d)",
			l.Kind, l.Off1, l.Off2, len(transcript), hintStart, hintEnd)
	}
	if known > 0 {
		o := ev.Fail(hintKey, "Round3Payload.OutputHints carries both labels of %d output wires: L0 xor L1 = R is disclosed to the evaluator (curve %s)", known, cs.Curve)
		o.Key = fmt.Sprintf("%x", sha256.Sum256(transcript))
		if col.IsKnown(hintKey) {
			col.Count("sha2pc_sessions_with_only_the_known_hint_leak", 1)
		}
		return o
	}
	o := ev.OK(true, "mode=sha2pc", "curve="+cs.Curve)
	o.Key = fmt.Sprintf("%x", sha256.Sum256(transcript))
	return o
}

func init() {
	ev.Register("session", run)
	ev.Register("sha2pc", runSha)
}

func TestCircuit(t *testing.T) {
	ev.Check(t, ev.Get(prop), "session", genCircuitCase, run)
}

func TestStream(t *testing.T) {
	ev.Check(t, ev.Get(prop), "session", genStreamCase, run)
}

func TestSha2pc(t *testing.T) {
	ev.Check(t, ev.Get(prop), "sha2pc", genShaCase, runSha)
}

func TestReplay(t *testing.T) { ev.Replay(t, ev.Get(prop)) }

var _ = bytes.Equal

// ---------------------------------------------------------------------------
// Deviating evaluator: the OT range request.  The evaluator asks the garbler
// to transfer the labels of wires [offset, offset+count).  Whatever range is
// requested, the garbler must never run the OT on one of its OWN input wires:
// it already sent one label of each of them in the clear, so the evaluator
// would hold both labels of a wire.

// RangeCase is a session with a scripted evaluator.
type RangeCase struct {
	Circ   gen.Circ `json:"circ"`
	X      string   `json:"x"`
	Offset int      `json:"offset"`
	Count  int      `json:"count"`
	Seed   uint64   `json:"seed"`
}

func genRangeCase(t *rapid.T) RangeCase {
	o := gen.CircOpts{MinArgs: 2, MaxArgs: 2, MaxWidth: 8, MaxGates: 30, MaxOuts: 2, MaxOutWidth: 3}
	c := gen.DrawCirc(t, o)
	n0, n1 := c.In[0], c.In[1]
	cs := RangeCase{Circ: c, X: gen.BitsOf(gen.DrawBits(t, n0, "x")), Seed: rapid.Uint64().Draw(t, "seed")}
	switch rapid.IntRange(0, 5).Draw(t, "rangekind") {
	case 0: // honest
		cs.Offset, cs.Count = n0, n1
	case 1: // everything
		cs.Offset, cs.Count = 0, n0+n1
	case 2: // same end, earlier start
		cs.Offset = rapid.IntRange(0, n0).Draw(t, "offset")
		cs.Count = n0 + n1 - cs.Offset
	case 3: // garbler's wires only
		cs.Offset, cs.Count = 0, n0
	default:
		cs.Offset = rapid.IntRange(0, n0+n1).Draw(t, "offset2")
		cs.Count = rapid.IntRange(0, n0+n1-cs.Offset).Draw(t, "count2")
	}
	return cs
}

func runRange(cs RangeCase) ev.Outcome {
	c := cs.Circ
	circ := c.Build()
	n0, n1 := c.In[0], c.In[1]
	x := gen.ParseBits(cs.X)
	if len(x) != n0 || cs.Offset < 0 || cs.Count < 0 {
		return ev.Outcome{Skip: "malformed case"}
	}
	d := xport.NewDuplex(nil, nil)
	gConn, eConn := d.Conns()
	spy := &spyOT{OT: ot.NewCO(gen.NewDRBG(cs.Seed, 10))}
	cfg := &env.Config{Rand: gen.NewDRBG(cs.Seed, 1)}
	var clear []ot.Label // garbler input labels sent in the clear
	res := xport.RunPair(d,
		func() ([]*big.Int, error) {
			return circuit.Garbler(cfg, gConn, spy, circ, bitsToInt(x), false)
		},
		func() ([]*big.Int, error) {
			// Scripted evaluator: honest up to the range request.
			if _, err := eConn.ReceiveData(); err != nil { // key
				return nil, err
			}
			ng, err := eConn.ReceiveUint32()
			if err != nil {
				return nil, err
			}
			var label ot.Label
			var ld ot.LabelData
			for i := 0; i < ng; i++ {
				rows, err := eConn.ReceiveUint32()
				if err != nil {
					return nil, err
				}
				for j := 0; j < rows; j++ {
					if err := eConn.ReceiveLabel(&label, &ld); err != nil {
						return nil, err
					}
				}
			}
			for i := 0; i < n0; i++ {
				if err := eConn.ReceiveLabel(&label, &ld); err != nil {
					return nil, err
				}
				clear = append(clear, label)
			}
			eOT := ot.NewCO(gen.NewDRBG(cs.Seed, 11))
			if err := eOT.InitReceiver(eConn); err != nil {
				return nil, err
			}
			if err := eConn.SendUint32(cs.Offset); err != nil {
				return nil, err
			}
			if err := eConn.SendUint32(cs.Count); err != nil {
				return nil, err
			}
			if err := eConn.Flush(); err != nil {
				return nil, err
			}
			flags := make([]bool, cs.Count)
			for i := range flags {
				flags[i] = true
			}
			got := make([]ot.Label, cs.Count)
			if cs.Count > 0 {
				if err := eOT.Receive(flags, got); err != nil {
					return nil, err
				}
			}
			return nil, fmt.Errorf("scripted evaluator stops after the OT")
		}, 2*time.Second, 60*time.Second)
	d.Close()
	_ = res
	spy.mu.Lock()
	wires := spy.wires
	spy.mu.Unlock()
	honest := cs.Offset == n0 && cs.Count == n1
	for wi, w := range wires {
		for i, l := range clear {
			if l.Equal(w.L0) || l.Equal(w.L1) {
				return ev.Fail("circuit/ot-on-garbler-input-wire",
					"the evaluator requested OT wires [%d,%d) (garbler inputs are [0,%d), evaluator inputs [%d,%d)); the garbler ran the OT on a wire (#%d of the request) whose label it had already sent in the clear as its input bit %d: the evaluator can hold both labels of that wire",
					cs.Offset, cs.Offset+cs.Count, n0, n0, n0+n1, wi, i)
			}
		}
	}
	cl := "deviating-range"
	if honest {
		cl = "honest-range"
	}
	served := "ot-refused"
	if len(wires) > 0 {
		served = "ot-served"
	}
	return ev.OK(!honest && n0 >= 1, cl, served)
}

func init() { ev.Register("range", runRange) }

func TestRange(t *testing.T) {
	ev.Check(t, ev.Get(prop), "range", genRangeCase, runRange)
}
