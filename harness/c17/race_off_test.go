//go:build !race

package c17

// raceEnabled tells whether the test binary was built with -race.
const raceEnabled = false

func raceErrors() int { return 0 }
