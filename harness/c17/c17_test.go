// C17: a circuit value is safe to share between goroutines.
//
// One *circuit.Circuit is shared by G goroutines that are released together
// and each run a drawn script of Garble / Eval / Release / Compute calls.  The
// oracles are
//
//  1. the Go race detector (the package is built with -race): the number of
//     reports (runtime.RaceErrors) must not grow while a case runs; the report
//     text is captured from fd 2 and put into the failure record;
//  2. every garbled evaluation decodes to the independent truth-table
//     evaluation (gen.Circ.Eval), every Compute equals it;
//  3. a garbling is bit-for-bit what it was when Garble returned until the
//     moment its owner releases it, and no two simultaneously live garblings
//     share a buffer (addresses of Wires, Gates and the row slab);
//  4. every garbling (and every error) equals the one the same reader produces
//     on a fresh, unshared circuit in a single goroutine.
//
// Between the start barrier and the join the harness performs NO
// synchronisation between the script goroutines (no mutex, channel or atomic):
// any such operation would add happens-before edges and could hide a race of
// the code under test from the detector.  Liveness intervals are therefore
// taken with the monotonic clock and compared after the join.
package c17

import (
	"fmt"
	"os"
	"reflect"
	"runtime"
	"runtime/debug"
	"sort"
	"strings"
	"sync"
	"sync/atomic"
	"syscall"
	"testing"
	"time"
	"unsafe"

	"github.com/markkurossi/mpc/circuit"
	"github.com/markkurossi/mpc/ot"
	"pgregory.net/rapid"

	"verifharness/internal/ev"
	"verifharness/internal/gen"
	"verifharness/internal/ref"
)

const prop = "C17"

// Operation kinds of a script.
const (
	opGER  = "ger"  // Garble -> Eval-check -> Release
	opHold = "hold" // Garble -> hold across Hold further ops -> Eval-check -> Release
	opGRR  = "grr"  // Garble -> Release -> Release
	opCmp  = "cmp"  // Compute
	opFail = "fail" // Garble with a reader whose Fail:th Read fails
)

// Op is one step of a goroutine's script.
type Op struct {
	K    string `json:"k"`
	In   int    `json:"in"`             // index into Case.Inputs
	Hold int    `json:"hold,omitempty"` // opHold: own ops executed before Eval-check+Release
	Fail int    `json:"fail,omitempty"` // opFail: number of the failing Read (1 = R)
	Y    int    `json:"y,omitempty"`    // bit mask of runtime.Gosched() points
}

// Case is one shared circuit and one script per goroutine.
type Case struct {
	Circ   gen.Circ `json:"circ"`
	KeyLen int      `json:"keylen"`
	Seed   uint64   `json:"seed"`
	// Warm is the number of Garble+Release pairs executed on the circuit
	// before the goroutines start; 0 = the lazy pool creation is raced.
	Warm    int      `json:"warm"`
	// Pad adds that many unused gates in front of the circuit: building
	// the scratch pool walks the gate list, so a long list widens the
	// window in which concurrent first uses of the circuit overlap.
	Pad int `json:"pad,omitempty"`
	Inputs  []string `json:"inputs"`
	Scripts [][]Op   `json:"scripts"`
	// Keys: "" = one AES key for all garblings of the case; "fresh" = every
	// garbling has its own key in its own slice; "buffer" = every garbling
	// has its own key, written into the one key buffer its goroutine keeps
	// (Garble and Eval then see a slice whose contents change between
	// calls).
	Keys string `json:"keys,omitempty"`
}

func init() { ev.Register("share", run) }

var opKinds = []string{opGER, opGER, opGER, opGER, opHold, opHold, opHold,
	opGRR, opCmp, opFail}

// genFirstUse draws cases aimed at the lazy creation of the scratch pool: a
// circuit with a long (padded) gate list, no warm-up, 2-4 goroutines that each
// garble, evaluate and release once.  Walking the gate list takes long enough
// that the first uses really overlap.
func genFirstUse(t *rapid.T) Case {
	var cs Case
	o := gen.CircOpts{MinArgs: 1, MaxArgs: 2, MaxWidth: 4, MaxGates: 30, MaxOuts: 2, MaxOutWidth: 3}
	cs.Circ = gen.DrawCirc(t, o)
	cs.KeyLen = rapid.SampledFrom([]int{16, 24, 32}).Draw(t, "keylen")
	cs.Seed = rapid.Uint64().Draw(t, "seed")
	cs.Pad = rapid.SampledFrom([]int{20000, 60000, 150000, -1, -1}).Draw(t, "pad")
	if cs.Pad < 0 {
		// Total wire count on either side of 2^16 (the size at which
		// the streaming code switches its wire-id encoding and any
		// "big circuit" special case would plausibly start).
		base := cs.Circ.NumWires()
		cs.Pad = 65536 - base + rapid.IntRange(-1, 1).Draw(t, "padboundary")
	}
	nin := cs.Circ.NumIn()
	ones := make([]bool, nin)
	for i := range ones {
		ones[i] = true
	}
	// Input 0 is drawn, input 1 is all ones, input 2 all zeros: plain
	// computations that follow each other on the shared circuit differ in
	// every input bit.
	cs.Inputs = []string{gen.BitsOf(gen.DrawBits(t, nin, "in")), gen.BitsOf(ones),
		gen.BitsOf(make([]bool, nin))}
	g := rapid.IntRange(2, 4).Draw(t, "goroutines")
	cs.Scripts = make([][]Op, g)
	for gi := range cs.Scripts {
		cs.Scripts[gi] = []Op{{K: opGER, Y: rapid.IntRange(0, 3).Draw(t, "yield")}}
		// Half of the goroutines also compute in the clear, before and
		// after their garbling.
		if rapid.Bool().Draw(t, "computes") {
			pre := Op{K: opCmp, In: rapid.IntRange(0, 2).Draw(t, "input")}
			cs.Scripts[gi] = append([]Op{pre}, cs.Scripts[gi]...)
			n := rapid.IntRange(1, 3).Draw(t, "ncomputes")
			for i := 0; i < n; i++ {
				cs.Scripts[gi] = append(cs.Scripts[gi], Op{K: opCmp, In: rapid.IntRange(0, 2).Draw(t, "input")})
			}
		}
	}
	return cs
}

func genCase(t *rapid.T) Case {
	var cs Case
	o := gen.CircOpts{MinArgs: 1, MaxArgs: 3, MaxWidth: 4, MaxGates: 40,
		MaxOuts: 3, MaxOutWidth: 3}
	if rapid.IntRange(0, 7).Draw(t, "big") == 0 {
		o.MaxWidth = 16
		o.MaxGates = 300
		o.MaxOutWidth = 9
	}
	cs.Circ = gen.DrawCirc(t, o)
	cs.KeyLen = rapid.SampledFrom([]int{16, 24, 32}).Draw(t, "keylen")
	cs.Seed = rapid.Uint64().Draw(t, "seed")
	cs.Warm = rapid.SampledFrom([]int{0, 0, 0, 1, 2}).Draw(t, "warm")
	cs.Keys = rapid.SampledFrom([]string{"", "fresh", "buffer", "buffer"}).Draw(t, "keys")

	nin := cs.Circ.NumIn()
	ninputs := rapid.IntRange(1, 4).Draw(t, "ninputs")
	for i := 0; i < ninputs; i++ {
		cs.Inputs = append(cs.Inputs, gen.BitsOf(gen.DrawBits(t, nin, "in")))
	}
	maxG, maxOps := 16, 8
	g := rapid.IntRange(2, maxG).Draw(t, "goroutines")
	cs.Scripts = make([][]Op, g)
	for gi := range cs.Scripts {
		n := rapid.IntRange(1, maxOps).Draw(t, "nops")
		for oi := 0; oi < n; oi++ {
			op := Op{K: rapid.SampledFrom(opKinds).Draw(t, "op")}
			op.In = rapid.IntRange(0, ninputs-1).Draw(t, "input")
			switch op.K {
			case opHold:
				op.Hold = rapid.IntRange(1, 4).Draw(t, "hold")
			case opFail:
				op.Fail = rapid.IntRange(1, nin+1).Draw(t, "failat")
			}
			op.Y = rapid.IntRange(0, 7).Draw(t, "yield")
			cs.Scripts[gi] = append(cs.Scripts[gi], op)
		}
	}
	return cs
}

// ---------------------------------------------------------------------------
// Rendering of a case for failure texts (schedule-dependent failures cannot
// be replayed deterministically, so the text carries the scripts).

func (o Op) String() string {
	var s string
	switch o.K {
	case opHold:
		s = fmt.Sprintf("hold%d[i%d]", o.Hold, o.In)
	case opFail:
		s = fmt.Sprintf("fail@%d", o.Fail)
	case opGRR:
		s = "grr"
	default:
		s = fmt.Sprintf("%s[i%d]", o.K, o.In)
	}
	if o.Y != 0 {
		s += fmt.Sprintf("~%d", o.Y)
	}
	return s
}

func scriptsText(cs Case) string {
	var sb strings.Builder
	for gi, sc := range cs.Scripts {
		fmt.Fprintf(&sb, "g%d:", gi)
		for _, op := range sc {
			sb.WriteByte(' ')
			sb.WriteString(op.String())
		}
		sb.WriteByte('\n')
	}
	return sb.String()
}

func describe(cs Case) string {
	cnt := cs.Circ.OpCounts()
	return fmt.Sprintf("goroutines=%d warm=%d keylen=%d circuit in=%v out=%v gates=%d (XOR %d XNOR %d AND %d OR %d INV %d) inputs=%v\nscripts (op[input]~goschedmask; hold<k> = release after k further own ops):\n%s",
		len(cs.Scripts), cs.Warm, cs.KeyLen, cs.Circ.In, cs.Circ.Out,
		len(cs.Circ.Gates), cnt[ref.XOR], cnt[ref.XNOR], cnt[ref.AND],
		cnt[ref.OR], cnt[ref.INV], cs.Inputs, scriptsText(cs))
}

// ---------------------------------------------------------------------------

type failure struct {
	sig string
	msg string
}

// rec is what a goroutine remembers about one Garble call.
type rec struct {
	gi, oi int
	kind   string
	failAt int
	in     int
	due    int
	failed bool // Garble returned an error

	key   []byte // private copy of the AES key of this garbling
	g     *circuit.Garbled
	r     ot.Label
	wires []ot.Wire
	gates [][]ot.Label

	pW, pG, pS, pool uintptr

	// Monotonic nanoseconds: before the Garble call, after it returned,
	// before the (first) Release call, after it returned.
	tCall, tLive, tEnd, tDone int64
}

func (r *rec) name() string { return fmt.Sprintf("g%d/op%d(%s)", r.gi, r.oi, r.kind) }

type world struct {
	cs    Case
	c     gen.Circ
	circ  *circuit.Circuit
	key   []byte
	ins   [][]bool
	want  [][]bool   // value of every wire per input
	outs  [][]string // expected Compute results (binary text) per input
	t0    time.Time
	nin   int
	nw    int
	nout  int
	nrows int // garbled rows of the whole circuit
}

func (w *world) now() int64 { return int64(time.Since(w.t0)) }

type worker struct {
	w       *world
	gi      int
	recs    []*rec
	pending []*rec
	fail    *failure
	calls   int
	keybuf  []byte // Keys == "buffer"
}

func (k *worker) failf(sig, format string, a ...interface{}) {
	if k.fail == nil {
		k.fail = &failure{sig: sig, msg: fmt.Sprintf(format, a...)}
	}
}

func stream(gi, oi int) uint64 { return uint64(16 + gi*1024 + oi) }

func poolOf(g *circuit.Garbled) uintptr {
	f := reflect.ValueOf(g).Elem().FieldByName("pool")
	if !f.IsValid() || f.Kind() != reflect.Ptr {
		return 0
	}
	return f.Pointer()
}

// garble makes one Garble call and snapshots the result.
func (w *world) garble(circ *circuit.Circuit, gi, oi int, kind string,
	failAt int, keybuf []byte) (*rec, *failure) {

	r := &rec{gi: gi, oi: oi, kind: kind, failAt: failAt}
	r.key = w.key
	key := w.key
	if w.cs.Keys == "fresh" || w.cs.Keys == "buffer" {
		r.key = gen.NewDRBG(w.cs.Seed, stream(gi, oi)+500000).Bytes(w.cs.KeyLen)
		key = append([]byte(nil), r.key...)
		if keybuf != nil {
			copy(keybuf, r.key)
			key = keybuf
		}
	}
	rd := &gen.LabelReader{D: gen.NewDRBG(w.cs.Seed, stream(gi, oi)),
		FailAt: failAt}
	r.tCall = w.now()
	g, err := circ.Garble(rd, key)
	r.tLive = w.now()
	if err != nil {
		// Like every real caller, ignore the value when err != nil.
		r.failed = true
		return r, nil
	}
	if g == nil {
		return r, &failure{"garble/nil", r.name() + ": Garble returned nil, nil"}
	}
	r.g = g
	if len(g.Wires) != w.nw || len(g.Gates) != len(w.c.Gates) {
		return r, &failure{"garble/shape",
			fmt.Sprintf("%s: garbling has %d wires / %d gate rows, circuit has %d / %d",
				r.name(), len(g.Wires), len(g.Gates), w.nw, len(w.c.Gates))}
	}
	r.r = g.R
	r.wires = append([]ot.Wire(nil), g.Wires...)
	r.gates = make([][]ot.Label, len(g.Gates))
	for i, row := range g.Gates {
		if len(row) > 0 {
			r.gates[i] = append([]ot.Label(nil), row...)
			if r.pS == 0 {
				r.pS = uintptr(unsafe.Pointer(&row[0]))
			}
		}
	}
	if len(g.Wires) > 0 {
		r.pW = uintptr(unsafe.Pointer(&g.Wires[0]))
	}
	if len(g.Gates) > 0 {
		r.pG = uintptr(unsafe.Pointer(&g.Gates[0]))
	}
	r.pool = poolOf(g)
	return r, nil
}

// diff compares a garbling with a snapshot; "" = identical.
func diff(r ot.Label, wires []ot.Wire, gates [][]ot.Label, sr ot.Label,
	swires []ot.Wire, sgates [][]ot.Label) string {

	if !r.Equal(sr) {
		return "R differs"
	}
	if len(wires) != len(swires) {
		return fmt.Sprintf("%d wires, had %d", len(wires), len(swires))
	}
	for i := range wires {
		if !wires[i].L0.Equal(swires[i].L0) || !wires[i].L1.Equal(swires[i].L1) {
			return fmt.Sprintf("labels of wire %d differ", i)
		}
	}
	if len(gates) != len(sgates) {
		return fmt.Sprintf("%d gate rows, had %d", len(gates), len(sgates))
	}
	for i := range gates {
		if len(gates[i]) != len(sgates[i]) {
			return fmt.Sprintf("gate %d has %d rows, had %d", i, len(gates[i]),
				len(sgates[i]))
		}
		for j := range gates[i] {
			if !gates[i][j].Equal(sgates[i][j]) {
				return fmt.Sprintf("row %d of gate %d differs", j, i)
			}
		}
	}
	return ""
}

// evalCheck evaluates the garbling on input number in and decodes the outputs.
func (w *world) evalCheck(r *rec, in int, keybuf []byte) *failure {
	g := r.g
	key := append([]byte(nil), r.key...)
	if keybuf != nil {
		copy(keybuf, r.key)
		key = keybuf
	}
	wires := make([]ot.Label, w.nw)
	for i := 0; i < w.nin; i++ {
		wires[i] = circuit.LabelForBit(g.Wires[i], w.ins[in][i])
	}
	if err := w.circ.Eval(key, wires, g.Gates); err != nil {
		return &failure{"eval/error", fmt.Sprintf("%s: Eval on input %s: %v",
			r.name(), w.cs.Inputs[in], err)}
	}
	for x := w.nw - w.nout; x < w.nw; x++ {
		bit, err := circuit.BitFromLabel(g.Wires[x], wires[x])
		if err != nil {
			return &failure{"eval/unknown-label",
				fmt.Sprintf("%s: input %s: output wire %d carries neither of its labels",
					r.name(), w.cs.Inputs[in], x)}
		}
		if bit != w.want[in][x] {
			return &failure{"eval/wrong-bit",
				fmt.Sprintf("%s: input %s: output wire %d decodes to %v, truth table gives %v",
					r.name(), w.cs.Inputs[in], x, bit, w.want[in][x])}
		}
	}
	return nil
}

// finish is the Eval-check -> Release tail of a garbling.
func (k *worker) finish(r *rec, y int) {
	w := k.w
	if d := diff(r.g.R, r.g.Wires, r.g.Gates, r.r, r.wires, r.gates); d != "" {
		k.failf("live/content-changed",
			"%s: garbling changed between Garble and its Release (%s): a live garbling's buffers were written by someone else",
			r.name(), d)
	}
	if f := w.evalCheck(r, r.in, k.keybuf); f != nil && k.fail == nil {
		k.fail = f
	}
	k.calls++
	if y&4 != 0 {
		runtime.Gosched()
	}
	r.tEnd = w.now()
	r.g.Release()
	r.tDone = w.now()
	k.calls++
}

func (k *worker) compute(in int) {
	w := k.w
	got, err := w.circ.Compute(gen.SplitBits(w.ins[in], w.c.In))
	k.calls++
	if err != nil {
		k.failf("compute/error", "g%d: Compute(%s): %v", k.gi, w.cs.Inputs[in], err)
		return
	}
	exp := w.outs[in]
	if len(got) != len(exp) {
		k.failf("compute/arity", "g%d: Compute returned %d values, want %d",
			k.gi, len(got), len(exp))
		return
	}
	for i := range exp {
		if got[i].Text(2) != exp[i] {
			k.failf("compute/wrong-value",
				"g%d: input %s: Compute output %d = %s, truth table gives %s",
				k.gi, w.cs.Inputs[in], i, got[i].Text(2), exp[i])
			return
		}
	}
}

func (k *worker) script(ops []Op) {
	defer func() {
		if p := recover(); p != nil {
			st := string(debug.Stack())
			if len(st) > 1500 {
				st = st[:1500]
			}
			k.fail = &failure{"panic/script-goroutine",
				fmt.Sprintf("g%d: panic: %v\n%s", k.gi, p, st)}
		}
	}()
	w := k.w
	for oi, op := range ops {
		if op.Y&1 != 0 {
			runtime.Gosched()
		}
		switch op.K {
		case opCmp:
			k.compute(op.In)

		case opGER, opHold, opGRR, opFail:
			fa := 0
			if op.K == opFail {
				fa = op.Fail
			}
			r, f := w.garble(w.circ, k.gi, oi, op.K, fa, k.keybuf)
			k.calls++
			k.recs = append(k.recs, r)
			r.in = op.In
			if f != nil {
				if k.fail == nil {
					k.fail = f
				}
				return
			}
			if op.Y&2 != 0 {
				runtime.Gosched()
			}
			if r.g == nil {
				break
			}
			switch op.K {
			case opHold:
				r.due = oi + op.Hold
				k.pending = append(k.pending, r)
			case opGRR:
				r.tEnd = w.now()
				r.g.Release()
				r.tDone = w.now()
				if op.Y&4 != 0 {
					runtime.Gosched()
				}
				r.g.Release()
				k.calls += 2
			default:
				k.finish(r, op.Y)
			}
		}
		if k.fail != nil {
			return
		}
		// Held garblings that are due.
		rest := k.pending[:0]
		for _, r := range k.pending {
			if r.due <= oi && r.oi != oi {
				k.finish(r, 0)
			} else {
				rest = append(rest, r)
			}
		}
		k.pending = rest
		if k.fail != nil {
			return
		}
	}
	for _, r := range k.pending {
		k.finish(r, 0)
	}
	k.pending = nil
}

func run(cs Case) ev.Outcome {
	c := cs.Circ.Padded(cs.Pad)
	w := &world{cs: cs, c: c, nin: c.NumIn(), nw: c.NumWires(), nout: c.NumOut()}
	w.circ = c.Build()
	w.key = gen.NewDRBG(cs.Seed, 2).Bytes(cs.KeyLen)
	for _, s := range cs.Inputs {
		in := gen.ParseBits(s)
		for len(in) < w.nin {
			in = append(in, false)
		}
		in = in[:w.nin]
		w.ins = append(w.ins, in)
		full := c.Eval(in)
		w.want = append(w.want, full)
		var texts []string
		for _, v := range gen.SplitBits(c.OutputBits(full), c.Out) {
			texts = append(texts, v.Text(2))
		}
		w.outs = append(w.outs, texts)
	}
	for _, g := range c.Gates {
		switch g[0] {
		case ref.AND:
			w.nrows += 2
		case ref.OR:
			w.nrows += 3
		case ref.INV:
			w.nrows++
		}
	}
	for gi, sc := range cs.Scripts {
		for _, op := range sc {
			if op.In < 0 || op.In >= len(w.ins) {
				return ev.Outcome{Skip: fmt.Sprintf("g%d: input index out of range", gi)}
			}
		}
	}
	if len(cs.Scripts) < 1 {
		return ev.Outcome{Skip: "no scripts"}
	}

	races0 := raceErrors()
	drainTap()
	w.t0 = time.Now()

	fail := func(f *failure) ev.Outcome {
		text := f.msg + "\n" + describe(cs)
		if n := raceErrors() - races0; n > 0 {
			text += fmt.Sprintf("the race detector also printed %d report(s) during this case:\n%s",
				n, clip(drainTap(), 3000))
		}
		return ev.Fail(f.sig, "%s", text)
	}

	// Warm-up: the pool exists and holds released scratch before the start.
	warmPtrs := map[uintptr]bool{}
	for i := 0; i < cs.Warm; i++ {
		r, f := w.garble(w.circ, 999, i, "warm", 0, nil)
		if f != nil {
			return fail(f)
		}
		if r.g == nil {
			return fail(&failure{"garble/error", "warm-up Garble failed"})
		}
		warmPtrs[r.pW] = true
		r.g.Release()
	}

	// Start barrier: every goroutine announces itself and spins on a flag.
	// These atomics order the goroutines only BEFORE their first operation.
	n := len(cs.Scripts)
	workers := make([]*worker, n)
	var ready, start atomic.Int32
	var wg sync.WaitGroup
	for gi := range cs.Scripts {
		k := &worker{w: w, gi: gi}
		if cs.Keys == "buffer" {
			k.keybuf = make([]byte, cs.KeyLen)
		}
		workers[gi] = k
		wg.Add(1)
		go func(ops []Op) {
			defer wg.Done()
			ready.Add(1)
			for spins := 0; start.Load() == 0; spins++ {
				if spins > 2000 {
					runtime.Gosched()
				}
			}
			k.script(ops)
		}(cs.Scripts[gi])
	}
	for spins := 0; int(ready.Load()) < n; spins++ {
		if spins > 2000 {
			runtime.Gosched()
		}
	}
	start.Store(1)
	wg.Wait()

	var all []*rec
	calls := 0
	for _, k := range workers {
		all = append(all, k.recs...)
		calls += k.calls
	}

	// (2)+(3a) failures seen by the goroutines themselves.
	for _, k := range workers {
		if k.fail != nil {
			return fail(k.fail)
		}
	}

	// (3b) no buffer is shared by two simultaneously live garblings.  A
	// garbling is certainly live from the moment Garble returned (tLive) to
	// the moment its owner called Release (tEnd).
	var live []*rec
	for _, r := range all {
		if r.g != nil && r.tEnd > 0 {
			live = append(live, r)
		}
	}
	for i, a := range live {
		for _, b := range live[i+1:] {
			if !(a.tLive < b.tEnd && b.tLive < a.tEnd) {
				continue
			}
			what := ""
			switch {
			case a.pW != 0 && a.pW == b.pW:
				what = "Wires"
			case a.pG != 0 && a.pG == b.pG:
				what = "Gates"
			case a.pS != 0 && a.pS == b.pS:
				what = "gate rows"
			}
			if what != "" {
				return fail(&failure{"live/shared-buffer",
					fmt.Sprintf("%s (live %d..%d ns) and %s (live %d..%d ns) were live at the same time and share the %s buffer",
						a.name(), a.tLive, a.tEnd, b.name(), b.tLive, b.tEnd, what)})
			}
		}
	}

	// (4) every call equals the same call made alone on an unshared circuit.
	alone := c.Build()
	for _, r := range all {
		a, f := w.garble(alone, r.gi, r.oi, r.kind, r.failAt, nil)
		if f != nil {
			return fail(&failure{"alone/" + f.sig, "single-goroutine run: " + f.msg})
		}
		if a.failed != r.failed {
			return fail(&failure{"alone/error-differs",
				fmt.Sprintf("%s: Garble failed=%v when shared, failed=%v when run alone with the same reader",
					r.name(), r.failed, a.failed)})
		}
		if a.g == nil {
			continue
		}
		if d := diff(a.r, a.wires, a.gates, r.r, r.wires, r.gates); d != "" {
			return fail(&failure{"alone/garbling-differs",
				fmt.Sprintf("%s: the garbling differs from the one the same reader gives in a single goroutine on a fresh circuit: %s",
					r.name(), d)})
		}
		a.g.Release()
	}

	// (1) the race detector.
	if nr := raceErrors() - races0; nr > 0 {
		return ev.Fail("race-detector",
			"the race detector reported %d data race(s) while the scripts ran (all functional oracles passed)\n%srace report:\n%s",
			nr, describe(cs), clip(drainTap(), 4000))
	}

	// ---- classification ----------------------------------------------
	sort.Slice(live, func(i, j int) bool { return live[i].tLive < live[j].tLive })
	seen := map[uintptr]int{} // pW -> goroutine that used it last
	reuse, crossReuse, warmReuse := false, false, false
	pools := map[uintptr]bool{}
	var success []*rec
	for _, r := range all {
		if r.g != nil {
			success = append(success, r)
		}
	}
	sort.Slice(success, func(i, j int) bool { return success[i].tLive < success[j].tLive })
	for _, r := range success {
		if r.pool != 0 {
			pools[r.pool] = true
		}
		if warmPtrs[r.pW] {
			reuse, warmReuse = true, true
		}
		if g, ok := seen[r.pW]; ok {
			reuse = true
			if g != r.gi {
				crossReuse = true
			}
		}
		seen[r.pW] = r.gi
	}
	concurrent := false
	maxLive := 0
	for i, a := range success {
		nlive := 1
		for j, b := range success {
			if i == j {
				continue
			}
			end := b.tDone
			if a.tCall < end && b.tCall < a.tDone && a.gi != b.gi {
				concurrent = true
			}
			if b.tLive <= a.tLive && a.tLive < b.tEnd {
				nlive++
			}
		}
		if nlive > maxLive {
			maxLive = nlive
		}
	}
	firstGarble := 0
	kinds := map[string]bool{}
	for _, sc := range cs.Scripts {
		if len(sc) > 0 && sc[0].K != opCmp {
			firstGarble++
		}
		for _, op := range sc {
			kinds[op.K] = true
		}
	}

	var classes []string
	classes = append(classes, "keys="+map[string]string{"": "one-shared", "fresh": "per-garbling", "buffer": "per-goroutine-buffer"}[cs.Keys])
	switch g := len(cs.Scripts); {
	case g <= 2:
		classes = append(classes, "G=2")
	case g <= 4:
		classes = append(classes, "G=3-4")
	case g <= 8:
		classes = append(classes, "G=5-8")
	default:
		classes = append(classes, "G=9-16")
	}
	if cs.Warm == 0 {
		classes = append(classes, "warm=0")
		if firstGarble >= 2 {
			classes = append(classes, "lazy-pool-creation-raced")
		}
	} else {
		classes = append(classes, "warm>0")
	}
	for _, kd := range []string{opGER, opHold, opGRR, opCmp, opFail} {
		if kinds[kd] {
			classes = append(classes, "has-"+kd)
		}
	}
	if concurrent {
		classes = append(classes, "garbled-concurrently")
	}
	if reuse {
		classes = append(classes, "scratch-reused")
	}
	if crossReuse {
		classes = append(classes, "scratch-reused-by-other-goroutine")
	}
	if warmReuse {
		classes = append(classes, "warm-scratch-reused")
	}
	switch {
	case maxLive >= 4:
		classes = append(classes, "max-live>=4")
	case maxLive >= 2:
		classes = append(classes, "max-live=2-3")
	default:
		classes = append(classes, "max-live<=1")
	}
	if len(pools) > 1 {
		classes = append(classes, "pools>1")
	}
	if w.nrows == 0 {
		classes = append(classes, "no-garbled-rows")
	}
	if len(c.Gates) > 60 {
		classes = append(classes, "big-circuit")
	}
	if !raceEnabled {
		classes = append(classes, "NO-RACE-DETECTOR")
	}

	out := ev.OK(concurrent && reuse, classes...)
	out.Evals = calls
	out.Key = fmt.Sprintf("warm=%d\n%s", cs.Warm, scriptsText(cs))
	return out
}

func clip(s string, n int) string {
	if len(s) > n {
		return s[:n] + "\n[... clipped]"
	}
	return s
}

// ---------------------------------------------------------------------------
// fd 2 tap: the race detector writes its reports straight to file descriptor
// 2.  TestMain points fd 2 at a temporary file; drainTap returns what was
// written since the last call and forwards it to the real stderr, so the
// driver's log still contains everything.

var tap struct {
	f    *os.File
	orig *os.File
	off  int64
}

func startTap() {
	if !raceEnabled {
		return
	}
	f, err := os.CreateTemp("", "c17-stderr-*.log")
	if err != nil {
		return
	}
	fd, err := syscall.Dup(2)
	if err != nil {
		f.Close()
		os.Remove(f.Name())
		return
	}
	if err := syscall.Dup3(int(f.Fd()), 2, 0); err != nil {
		syscall.Close(fd)
		f.Close()
		os.Remove(f.Name())
		return
	}
	tap.f = f
	tap.orig = os.NewFile(uintptr(fd), "stderr-orig")
}

func drainTap() string {
	if tap.f == nil {
		return "(race report: see the test log)"
	}
	var sb strings.Builder
	buf := make([]byte, 1<<16)
	for {
		n, err := tap.f.ReadAt(buf, tap.off)
		if n > 0 {
			tap.off += int64(n)
			sb.Write(buf[:n])
			tap.orig.Write(buf[:n])
		}
		if err != nil || n == 0 {
			break
		}
	}
	return sb.String()
}

func stopTap() {
	if tap.f == nil {
		return
	}
	drainTap()
	syscall.Dup3(int(tap.orig.Fd()), 2, 0)
	name := tap.f.Name()
	tap.f.Close()
	os.Remove(name)
	tap.f = nil
}

func TestMain(m *testing.M) {
	startTap()
	code := m.Run()
	stopTap()
	os.Exit(code)
}

func TestShare(t *testing.T) {
	col := ev.Get(prop)
	if !raceEnabled {
		col.Note("test binary built WITHOUT -race: the race-detector oracle was inactive, only the functional oracles ran")
	}
	ev.Check(t, col, "share", genCase, run)
}

func TestFirstUse(t *testing.T) {
	ev.Check(t, ev.Get(prop), "share", genFirstUse, run)
}

func TestReplay(t *testing.T) { ev.Replay(t, ev.Get(prop)) }
