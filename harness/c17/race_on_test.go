//go:build race

package c17

import "runtime"

// raceEnabled tells whether the test binary was built with -race.
const raceEnabled = true

// raceErrors returns the number of data-race reports the race detector has
// printed so far in this process (runtime.RaceErrors exists only in race
// builds; it is the counter package testing itself uses to fail a test with
// "race detected during execution of test").
func raceErrors() int { return runtime.RaceErrors() }
