package c05

// Unit repo: the repository's own annotated test programs (/repo/testsuite:
// language features, library packages, crypto) in streaming mode.  Every
// two-party program is streamed on the inputs of its @Test annotations and
// must return, on both sides, what its whole compiled circuit computes on the
// same inputs.  The generated programs of the other units do not reach the
// library code (native circuits, builtins such as hamming, make, copy, strings).

import (
	"fmt"
	"math/big"
	"os"
	"path/filepath"
	"regexp"
	"sort"
	"strings"
	"testing"
	"time"

	"github.com/markkurossi/mpc/circuit"
	"github.com/markkurossi/mpc/compiler"
	"github.com/markkurossi/mpc/compiler/utils"
	"github.com/markkurossi/mpc/env"
	"github.com/markkurossi/mpc/ot"

	"verifharness/internal/ev"
	"verifharness/internal/gen"
	"verifharness/internal/xport"
)

// RepoCase is one @Test annotation of one program of /repo/testsuite.
type RepoCase struct {
	File  string `json:"file"` // relative to the repository root
	Index int    `json:"index"`
	Line  string `json:"line"`
	Hex   bool   `json:"hex"`
	LSB   bool   `json:"lsb"`
}

func repoRoot() string {
	if d := os.Getenv("MPCLDIR"); d != "" {
		return d
	}
	return "/repo"
}

var reWS = regexp.MustCompile(`\s+`)

func reverseHex(val string) string {
	var prefix string
	if strings.HasPrefix(val, "0x") {
		val = val[2:]
		prefix = "0x"
	}
	var result string
	for i := len(val) - 2; i >= 0; i -= 2 {
		result += val[i : i+2]
	}
	if len(val)%2 == 1 {
		result += val[0:1]
	}
	return prefix + result
}

func annotations(src string) []string {
	lines := strings.Split(src, "\n")
	for i, l := range lines {
		if strings.HasPrefix(l, "func main(") {
			var ann []string
			for j := i - 1; j >= 0 && strings.HasPrefix(strings.TrimSpace(lines[j]), "//"); j-- {
				ann = append([]string{strings.TrimSpace(strings.TrimPrefix(strings.TrimSpace(lines[j]), "//"))}, ann...)
			}
			return ann
		}
	}
	return nil
}

func runRepo(cs RepoCase) ev.Outcome {
	if strings.Contains(cs.File, "..") || !strings.HasPrefix(cs.File, "testsuite/") {
		return ev.Outcome{Skip: "not a testsuite program"}
	}
	path := filepath.Join(repoRoot(), cs.File)
	parts := reWS.Split(strings.TrimSpace(cs.Line), -1)
	var inputValues [][]string
	var inputs []*big.Int
	for i := 1; i < len(parts); i++ {
		part := parts[i]
		if part == "=" {
			break
		}
		var iv []string
		for _, input := range strings.Split(part, ",") {
			if cs.Hex && cs.LSB {
				input = reverseHex(input)
			}
			v, ok := new(big.Int).SetString(input, 0)
			if !ok {
				return ev.Outcome{Skip: "unparsable annotation value"}
			}
			iv = append(iv, input)
			inputs = append(inputs, v)
		}
		inputValues = append(inputValues, iv)
	}
	if len(inputValues) != 2 {
		return ev.Outcome{Skip: "not a two-party program"}
	}
	var inputSizes [][]int
	for _, iv := range inputValues {
		sizes, err := circuit.InputSizes(iv)
		if err != nil {
			return ev.Outcome{Skip: "InputSizes: " + err.Error()}
		}
		inputSizes = append(inputSizes, sizes)
	}
	circ, _, err := compiler.New(utils.NewParams()).CompileFile(path, inputSizes)
	if err != nil {
		return ev.Outcome{Skip: "whole-circuit compile error (C03's vectors unit judges it): " + err.Error()}
	}
	if len(circ.Inputs) != 2 {
		return ev.Outcome{Skip: "not a two-party circuit"}
	}
	// The whole circuit gets the inputs exactly as the streaming parties
	// parse them from their input flags.
	inputs = inputs[:0]
	for i, iv := range inputValues {
		v, err := circ.Inputs[i].Parse(iv)
		if err != nil {
			return ev.Outcome{Skip: "Parse: " + err.Error()}
		}
		inputs = append(inputs, v)
	}
	want, err := circ.Compute(inputs)
	if err != nil {
		return ev.Outcome{Skip: "Compute: " + err.Error()}
	}

	d := xport.NewDuplex(nil, nil)
	gConn, eConn := d.Conns()
	params := utils.NewParams()
	params.Config = &env.Config{Rand: gen.NewDRBG(uint64(cs.Index)+1, 1)}
	gOT := ot.NewCO(gen.NewDRBG(uint64(cs.Index)+1, 2))
	eOT := ot.NewCO(gen.NewDRBG(uint64(cs.Index)+1, 3))
	res := xport.RunPair(d,
		func() ([]*big.Int, error) {
			_, vals, err := compiler.New(params).StreamFile(gConn, gOT, path, inputValues[0], inputSizes)
			return vals, err
		},
		func() ([]*big.Int, error) {
			_, vals, err := circuit.StreamEvaluator(eConn, eOT, inputValues[1], nil, false)
			return vals, err
		}, 20*time.Second, 600*time.Second)
	d.Close()

	desc := fmt.Sprintf("%s @Test #%d (%s)", cs.File, cs.Index, cs.Line)
	switch {
	case res.TimedOut:
		return ev.Outcome{Skip: "time budget exhausted (inconclusive)"}
	case res.A.Panic != "":
		return ev.Fail("repo/stream-garbler/panic/"+xport.PanicSiteOf(res.A.Panic),
			"%s: streaming garbler panicked: %s", desc, res.A.Panic)
	case res.B.Panic != "":
		return ev.Fail("repo/stream-evaluator/panic/"+xport.PanicSiteOf(res.B.Panic),
			"%s: streaming evaluator panicked: %s", desc, res.B.Panic)
	case res.Stalled:
		return ev.Fail("repo/stream/stall", "%s: streaming session stalled", desc)
	case res.A.Err != nil || res.B.Err != nil:
		return ev.Fail("repo/stream/error", "%s: garbler err=%v, evaluator err=%v", desc, res.A.Err, res.B.Err)
	}
	if len(res.A.Vals) != len(want) || len(res.B.Vals) != len(want) {
		return ev.Fail("repo/stream/arity", "%s: streaming returned %d/%d values, whole circuit %d",
			desc, len(res.A.Vals), len(res.B.Vals), len(want))
	}
	for i := range want {
		if res.A.Vals[i].Cmp(res.B.Vals[i]) != 0 {
			return ev.Fail("repo/stream/parties-disagree", "%s: output %d: garbler 0x%s, evaluator 0x%s",
				desc, i, res.A.Vals[i].Text(16), res.B.Vals[i].Text(16))
		}
		if res.A.Vals[i].Cmp(want[i]) != 0 {
			return ev.Fail("repo/stream-vs-whole/"+filepath.Base(filepath.Dir(cs.File)),
				"%s: output %d: streaming 0x%s, whole circuit 0x%s", desc, i, res.A.Vals[i].Text(16), want[i].Text(16))
		}
	}
	o := ev.OK(true, "repo:dir="+filepath.Base(filepath.Dir(cs.File)))
	o.Key = fmt.Sprintf("%s#%d", cs.File, cs.Index)
	return o
}

func init() { ev.Register("repo", runRepo) }

func TestRepo(t *testing.T) {
	col := ev.Get(prop)
	root := repoRoot()
	var files []string
	filepath.Walk(filepath.Join(root, "testsuite"), func(p string, info os.FileInfo, err error) error {
		if err == nil && !info.IsDir() && strings.HasSuffix(p, ".mpcl") {
			files = append(files, p)
		}
		return nil
	})
	sort.Strings(files)
	// Environment: pkg/crypto/sha512/sha512.circ|.mpclc are zero-length in
	// this sandbox; programs that need them cannot compile here.
	sha512Empty := false
	if st, err := os.Stat(filepath.Join(root, "pkg/crypto/sha512/sha512.mpclc")); err == nil && st.Size() == 0 {
		sha512Empty = true
	}
	shard, nshards := ev.Shard()
	ev.Each(t, col, "repo", func(yield func(RepoCase) bool) {
		for fi, f := range files {
			if fi%nshards != shard {
				continue
			}
			data, err := os.ReadFile(f)
			if err != nil {
				continue
			}
			src := string(data)
			rel, _ := filepath.Rel(root, f)
			if sha512Empty && (strings.Contains(src, "crypto/sha512") || strings.Contains(src, "crypto/ed25519") ||
				strings.Contains(src, "crypto/hmac\"") && strings.Contains(src, "Sha512") || strings.Contains(rel, "sha512")) {
				col.Count("excluded_env_sha512_files", 1)
				continue
			}
			ann := annotations(src)
			heavy := false
			for _, a := range ann {
				if strings.HasPrefix(a, "@heavy") {
					heavy = true
				}
			}
			if heavy && !col.Thorough() {
				col.Count("skipped_heavy_files_in_quick", 1)
				continue
			}
			hex, lsb := false, false
			idx := 0
			for _, a := range ann {
				switch {
				case strings.HasPrefix(a, "@Hex"):
					hex = true
				case strings.HasPrefix(a, "@LSB"):
					lsb = true
				case strings.HasPrefix(a, "@Test "):
					// Quick tier: the first two vectors of a program.
					if col.Thorough() || idx < 2 {
						yield(RepoCase{File: rel, Index: idx, Line: a, Hex: hex, LSB: lsb})
					}
					idx++
				}
			}
		}
	}, runRepo)
}
