package c05

import (
	"fmt"
	"math/big"
	"strings"
	"testing"

	"pgregory.net/rapid"

	"verifharness/internal/ev"
	"verifharness/internal/mpcl"
)

// Templates with unsized main parameters: the types are instantiated from the
// sizes of the inputs (garbler's sizes from its input flag, evaluator's sizes
// as received).  These are checked differentially only (streaming vs. whole
// circuit): what an unsized program means is taken from the compiler itself.
var templates = map[string]string{
	"unsized-uint": `package main
func main(a, b uint) (uint, bool, uint) {
	c := a ^ b
	d := c + a
	if a < b {
		d = d - b
	}
	return c, a < b, d >> 1
}
`,
	"unsized-int-branch": `package main
func main(a, b int) (int, int) {
	if a > b {
		return a - b, a
	}
	return b - a, b
}
`,
	"unsized-bytes": `package main
func main(a []byte, b []byte) (byte, int32, byte) {
	var s byte
	var t byte
	for i := 0; i < len(a); i++ {
		s = s ^ a[i]
		t = t + s
	}
	for i := 0; i < len(b); i++ {
		s = s + b[i]
	}
	return s, len(a) + len(b), t
}
`,
}

func init() {
	// The same dynamically indexed read on two slices whose lengths are
	// instantiated from the inputs (the per-instruction circuit cache must
	// distinguish them).
	templates["unsized-bytes-dynidx"] = `package main
func main(a []byte, b []byte) (byte, byte) {
	return a[a[0]&3] + b[b[0]&3], a[b[0]&1] ^ b[a[0]&1]
}
`
}

var templateNames = []string{"unsized-uint", "unsized-int-branch", "unsized-bytes", "unsized-bytes-dynidx"}

func hexDigits(t *rapid.T, n int, label string) string {
	var sb strings.Builder
	sb.WriteString("0x")
	for i := 0; i < n; i++ {
		sb.WriteByte("0123456789abcdef"[rapid.IntRange(0, 15).Draw(t, label)])
	}
	return sb.String()
}

// genNativeMath builds a program that reaches the native circuits shipped with
// package math (add64/sub64/mul64/div64.circ) with a run-time operand and a
// constant, optionally feeding the result into a second native call.  In
// streaming mode a native circuit is streamed as one instruction circuit whose
// input and output wires are mapped onto the program's wire ids.
func genNativeMath(t *rapid.T) Case {
	fns := []string{"AddUint64", "SubUint64", "MulUint64", "DivUint64"}
	fn := fns[rapid.IntRange(0, 3).Draw(t, "fn")]
	k := rapid.SampledFrom([]string{"1", "2", "3", "5", "7", "255", "256", "65535", "65537", "0x7fffffff",
		"0xffffffff", "0x100000000", "0xffffffffffffffff"}).Draw(t, "const")
	dyn := rapid.SampledFrom([]string{"a ^ b", "a", "b", "a + b", "a & b"}).Draw(t, "dyn")
	args := dyn + ", " + k
	if fn != "DivUint64" && rapid.Bool().Draw(t, "constfirst") {
		args = k + ", " + dyn
	}
	var sb strings.Builder
	sb.WriteString("package main\n\nimport (\n\t\"math\"\n)\n\nfunc main(a, b uint64) (uint64, uint64) {\n")
	sb.WriteString("\tx := math." + fn + "(" + args + ")\n")
	switch rapid.IntRange(0, 2).Draw(t, "second") {
	case 0:
		sb.WriteString("\treturn x, b\n")
	case 1:
		sb.WriteString("\treturn x, math.AddUint64(x, b)\n")
	default:
		sb.WriteString("\ty := math.MulUint64(x, 3)\n\treturn math.SubUint64(y, a), x ^ y\n")
	}
	sb.WriteString("}\n")
	cs := Case{Src: sb.String(), Tmpl: "native-math", Seed: rapid.Uint64().Draw(t, "seed")}
	cs.X = []string{hexOf(new(big.Int).SetUint64(rapid.Uint64().Draw(t, "a")))}
	cs.Y = []string{hexOf(new(big.Int).SetUint64(rapid.Uint64().Draw(t, "b")))}
	return cs
}

// libTemplates are small programs over library functions of /repo/pkg that
// the program generator cannot produce (builtins such as hamming, make and
// copy, byte slices, strings); %W is replaced by a drawn width.
var libTemplates = map[string]string{
	"lib-hamming": `package main

import (
	"encoding/binary"
)

func main(a, b uint%W) uint {
	return binary.HammingDistance(a, b)
}
`,
	"lib-hamming-expr": `package main

import (
	"encoding/binary"
)

func main(a, b uint%W) (uint, uint%W) {
	d := binary.HammingDistance(a ^ 0x5, b + 1)
	return d + binary.HammingDistance(a, a ^ b), a & b
}
`,
	"lib-rotate": `package main

import (
	"math/bits"
)

func main(a, b uint32) (uint32, uint32) {
	return bits.RotateLeft32(a, 7) ^ b, bits.RotateLeft32(b, -3) + a
}
`,
	"lib-bytes": `package main

import (
	"bytes"
)

func main(a, b [4]byte) (int, bool, bool) {
	return bytes.Compare(a, b), bytes.Equal(a, b), bytes.HasPrefix(a, b[0:2])
}
`,
	"lib-getput": `package main

import (
	"encoding/binary"
)

func main(a, b [4]byte) (uint32, []byte) {
	x := binary.GetUint32(a) + binary.GetUint32LSB(b)
	buf := make([]byte, 8)
	buf = binary.PutUint32(buf, 0, x)
	buf = binary.PutUint32LSB(buf, 4, x ^ 0xff00ff00)
	return x, buf
}
`,
	"lib-hex": `package main

import (
	"encoding/hex"
)

func main(a, b [4]byte) (string, int) {
	return hex.EncodeToString(a), hex.EncodedLen(len(b))
}
`,
	"lib-copy": `package main

func main(a, b [6]byte) ([8]byte, int) {
	var buf [8]byte
	n := copy(buf, a)
	m := copy(buf[3:], b[1:4])
	return buf, n + m
}
`,
}

var libTemplateNames = []string{"lib-hamming", "lib-hamming", "lib-hamming-expr", "lib-rotate", "lib-bytes", "lib-getput", "lib-hex", "lib-copy"}

func genLibTemplate(t *rapid.T) Case {
	name := rapid.SampledFrom(libTemplateNames).Draw(t, "libtemplate")
	w := rapid.SampledFrom([]int{8, 16, 32, 64, 7, 33, 100}).Draw(t, "libwidth")
	cs := Case{Src: strings.ReplaceAll(libTemplates[name], "%W", fmt.Sprint(w)), Tmpl: name,
		Seed: rapid.Uint64().Draw(t, "seed")}
	digits := 8
	switch name {
	case "lib-hamming", "lib-hamming-expr":
		digits = (w + 3) / 4
	case "lib-copy":
		digits = 12
	}
	val := func(label string) string {
		v, _ := new(big.Int).SetString(hexDigits(t, digits, label)[2:], 16)
		if name == "lib-hamming" || name == "lib-hamming-expr" {
			v.And(v, new(big.Int).Sub(new(big.Int).Lsh(big.NewInt(1), uint(w)), big.NewInt(1)))
			return hexOf(v)
		}
		return "0x" + fmt.Sprintf("%0*s", digits, v.Text(16))
	}
	cs.X = []string{val("a")}
	cs.Y = []string{val("b")}
	return cs
}

// genConstPairs builds a program that applies the same operator to a signed and
// to an unsigned variable of one width, each against a constant, several times:
//
//	main(a intW, b uintW) (R, R, ...) { return a OP k1, b OP k2, a OP k3, ... }
//
// In streaming mode every instruction is compiled into a circuit of its own and
// the circuits are cached by the text of the typed instruction; instructions
// that differ only in signedness (or only in the width of the constant) must
// not share a circuit.
func genConstPairs(t *rapid.T) Case {
	w := rapid.SampledFrom([]int{8, 8, 16, 7, 13, 24, 31, 32}).Draw(t, "cpwidth")
	n := rapid.IntRange(2, 4).Draw(t, "cpterms")
	ops := []string{"==", "==", "==", "!=", "!=", "<", ">", "<=", ">=", "/", "%", "+", "&"}
	op := ops[rapid.IntRange(0, len(ops)-1).Draw(t, "cpop")]
	R := "bool"
	arith := op == "/" || op == "%" || op == "+" || op == "&"
	var results, terms []string
	consts := map[string][]*big.Int{}
	for i := 0; i < n; i++ {
		for _, v := range []string{"a", "b"} {
			lim := w - 1
			if lim > 30 {
				lim = 30
			}
			k := rapid.IntRange(1, 1<<uint(lim)-1).Draw(t, "cpconst")
			if rapid.Bool().Draw(t, "cpsmall") {
				k = 1 + k%9
			}
			ks := fmt.Sprint(k)
			if v == "a" && !arith && w <= 31 && rapid.IntRange(0, 2).Draw(t, "cpneg") == 0 {
				ks = "-" + ks
			}
			kv, _ := new(big.Int).SetString(ks, 10)
			consts[v] = append(consts[v], kv)
			terms = append(terms, fmt.Sprintf("%s %s %s", v, op, ks))
			if arith {
				if v == "a" {
					results = append(results, fmt.Sprintf("int%d", w))
				} else {
					results = append(results, fmt.Sprintf("uint%d", w))
				}
			} else {
				results = append(results, R)
			}
		}
	}
	src := fmt.Sprintf("package main\n\nfunc main(a int%d, b uint%d) (%s) {\n\treturn %s\n}\n",
		w, w, strings.Join(results, ", "), strings.Join(terms, ", "))
	cs := Case{Src: src, Tmpl: "const-pairs", Seed: rapid.Uint64().Draw(t, "seed")}
	mask := new(big.Int).Sub(new(big.Int).Lsh(big.NewInt(1), uint(w)), big.NewInt(1))
	val := func(label string) string {
		v := new(big.Int).SetUint64(rapid.Uint64().Draw(t, label))
		ks := consts[label]
		switch rapid.IntRange(0, 7).Draw(t, label+"class") {
		case 0:
			v = new(big.Int).Set(mask) // -1 / max
		case 1:
			v = new(big.Int).Lsh(big.NewInt(1), uint(w-1)) // min / top bit
		case 2, 3, 4:
			// one of the constants the variable meets
			v = new(big.Int).Set(ks[rapid.IntRange(0, len(ks)-1).Draw(t, label+"const")])
		case 5:
			v = new(big.Int).Add(ks[rapid.IntRange(0, len(ks)-1).Draw(t, label+"const")],
				big.NewInt(int64(rapid.IntRange(-1, 1).Draw(t, label+"delta"))))
		}
		return hexOf(v.And(v, mask))
	}
	cs.X = []string{val("a")}
	cs.Y = []string{val("b")}
	return cs
}

// genTempChains: chains of dead temporaries of two widths (which stock the
// streaming allocator's free lists), then a new wide value, and a return
// statement whose expressions are an alias of the top bits of that value
// added to a narrow value, a value of a third width, and the wide value
// itself - all evaluated as unnamed temporaries of the return statement.
func genTempChains(t *rapid.T) Case {
	n := rapid.SampledFrom([]int{16, 24, 32, 48, 64, 64, 64, 100, 128}).Draw(t, "tcwide")
	m := n / 2
	if rapid.IntRange(0, 2).Draw(t, "tcodd") == 0 {
		m = rapid.IntRange(3, n-1).Draw(t, "tcnarrow")
	}
	k := rapid.SampledFrom([]int{5, 8, 16, 16, 31}).Draw(t, "tcthird")
	if k >= n {
		k = n - 1
	}
	chain := func(v string, terms int) string {
		var parts []string
		for i := 1; i <= terms; i++ {
			parts = append(parts, fmt.Sprintf("(%s + %d)", v, i))
		}
		for len(parts) > 1 {
			var next []string
			for i := 0; i+1 < len(parts); i += 2 {
				next = append(next, "("+parts[i]+" ^ "+parts[i+1]+")")
			}
			if len(parts)%2 == 1 {
				next = append(next, parts[len(parts)-1])
			}
			parts = next
		}
		return parts[0]
	}
	op := rapid.SampledFrom([]string{"*", "*", "+", "-"}).Draw(t, "tcop")
	var sb strings.Builder
	fmt.Fprintf(&sb, "package main\n\nfunc main(a, b uint%d) (uint%d, uint%d, uint%d) {\n", n, m, k, n)
	fmt.Fprintf(&sb, "\tc := uint%d(b)\n", m)
	fmt.Fprintf(&sb, "\tp := %s\n", chain("a", rapid.IntRange(2, 6).Draw(t, "tcp")))
	fmt.Fprintf(&sb, "\tq := %s\n", chain("c", rapid.IntRange(2, 6).Draw(t, "tcq")))
	fmt.Fprintf(&sb, "\tx := p %s b\n", op)
	fmt.Fprintf(&sb, "\treturn uint%d(x>>%d) + q, uint%d(a) + 9, x + a\n}\n", m, n-m, k)
	cs := Case{Src: sb.String(), Tmpl: "temp-chains", Seed: rapid.Uint64().Draw(t, "seed")}
	digits := (n + 3) / 4
	cs.X = []string{fixedWidthHex(t, n, digits, "a")}
	cs.Y = []string{fixedWidthHex(t, n, digits, "b")}
	return cs
}

// fixedWidthHex draws a value below 2^bits written with the given digits.
func fixedWidthHex(t *rapid.T, bits, digits int, label string) string {
	v, _ := new(big.Int).SetString(hexDigits(t, digits, label)[2:], 16)
	v.And(v, new(big.Int).Sub(new(big.Int).Lsh(big.NewInt(1), uint(bits)), big.NewInt(1)))
	return hexOf(v)
}

// genConstWidths: one constant value used at three (or four) different widths
// in one program - as a bare literal next to a value of the first width and
// through typed conversions next to values of the others - in a drawn order.
func genConstWidths(t *rapid.T) Case {
	kind := rapid.SampledFrom([]string{"int", "uint"}).Draw(t, "cwkind")
	all := rapid.Permutation([]int{8, 16, 32, 64, 7, 33, 24, 100}).Draw(t, "cwwidths")
	nw := rapid.IntRange(3, 4).Draw(t, "cwn")
	ws := all[:nw]
	k := rapid.SampledFrom([]int{1, 2, 3, 7, 21, 63}).Draw(t, "cwconst")
	ty := func(w int) string { return fmt.Sprintf("%s%d", kind, w) }
	op := rapid.SampledFrom([]string{"+", "+", "-", "^", "|", "*"}).Draw(t, "cwop")
	// main(a T0, b T1); values of the other widths are casts of a.
	var sb strings.Builder
	var rets, types []string
	fmt.Fprintf(&sb, "package main\n\nfunc main(a %s, b %s) (", ty(ws[0]), ty(ws[1]))
	vals := []string{"a", "b"}
	var decl strings.Builder
	for i := 2; i < nw; i++ {
		v := fmt.Sprintf("c%d", i)
		fmt.Fprintf(&decl, "\t%s := %s(a) + %s(a)\n", v, ty(ws[i]), ty(ws[i]))
		vals = append(vals, v)
	}
	bare := rapid.IntRange(0, nw-1).Draw(t, "cwbare")
	for _, i := range rapid.Permutation(seq(nw)).Draw(t, "cworder") {
		c := fmt.Sprintf("%s(%d)", ty(ws[i]), k)
		if i == bare && ws[i] >= 8 {
			c = fmt.Sprint(k)
		}
		if rapid.Bool().Draw(t, "cwleft") && c != fmt.Sprint(k) {
			rets = append(rets, fmt.Sprintf("%s %s %s", c, op, vals[i]))
		} else {
			rets = append(rets, fmt.Sprintf("%s %s %s", vals[i], op, c))
		}
		types = append(types, ty(ws[i]))
	}
	sb.WriteString(strings.Join(types, ", ") + ") {\n" + decl.String())
	sb.WriteString("\treturn " + strings.Join(rets, ", ") + "\n}\n")
	cs := Case{Src: sb.String(), Tmpl: "const-widths", Seed: rapid.Uint64().Draw(t, "seed")}
	cs.X = []string{fixedWidthHex(t, ws[0], (ws[0]+3)/4, "a")}
	cs.Y = []string{fixedWidthHex(t, ws[1], (ws[1]+3)/4, "b")}
	return cs
}

func seq(n int) []int {
	r := make([]int, n)
	for i := range r {
		r[i] = i
	}
	return r
}

func genTemplate(t *rapid.T) Case {
	switch rapid.IntRange(0, 13).Draw(t, "templatekind") {
	case 12, 13:
		return genConstWidths(t)
	case 10, 11:
		return genTempChains(t)
	case 0, 1:
		return genNativeMath(t)
	case 2, 3, 4:
		return genLibTemplate(t)
	case 5, 6, 7:
		return genConstPairs(t)
	}
	name := rapid.SampledFrom(templateNames).Draw(t, "template")
	cs := Case{Src: templates[name], Tmpl: name, Seed: rapid.Uint64().Draw(t, "seed")}
	switch name {
	case "unsized-bytes-dynidx":
		cs.X = []string{hexDigits(t, 2*rapid.IntRange(4, 9).Draw(t, "alen"), "a")}
		cs.Y = []string{hexDigits(t, 2*rapid.IntRange(4, 9).Draw(t, "blen"), "b")}
	case "unsized-bytes":
		cs.X = []string{hexDigits(t, 2*rapid.IntRange(1, 6).Draw(t, "alen"), "a")}
		cs.Y = []string{hexDigits(t, 2*rapid.IntRange(1, 6).Draw(t, "blen"), "b")}
	default:
		// Both parties' values get the same size (same number of hex
		// digits): mixed sizes are a type error in MPCL.
		n := rapid.IntRange(1, 20).Draw(t, "digits")
		cs.X = []string{hexDigits(t, n, "a")}
		cs.Y = []string{hexDigits(t, n, "b")}
	}
	return cs
}

func TestTemplates(t *testing.T) {
	ev.Check(t, ev.Get(prop), "stream", genTemplate, run)
}

// Big programs: a local array of more than 512 uint128 elements keeps more than
// 65535 wire ids live, so the 32-bit wire-id encoding of the streaming gate
// format and the second 64Ki page of the evaluator's wire store are used.
func genBig(t *rapid.T) Case {
	n := rapid.IntRange(516, 560).Draw(t, "n")
	T := mpcl.Uint(128)
	arrT := mpcl.Array(n, T)
	v := func(name string) *mpcl.Expr { return &mpcl.Expr{Op: mpcl.EVar, T: T, Name: name} }
	arr := &mpcl.Expr{Op: mpcl.EVar, T: arrT, Name: "v1"}
	bin := func(op string, a, b *mpcl.Expr) *mpcl.Expr {
		return &mpcl.Expr{Op: mpcl.EBin, T: T, Name: op, A: []*mpcl.Expr{a, b}}
	}
	idx := func(label string, lo int) *mpcl.Expr {
		return &mpcl.Expr{Op: mpcl.EIndex, T: T, Idx: rapid.IntRange(lo, n-1).Draw(t, label), A: []*mpcl.Expr{arr}}
	}
	ops := []string{"^", "+", "&", "|", "-"}
	op := func(label string) string { return rapid.SampledFrom(ops).Draw(t, label) }
	loopIdx := &mpcl.Expr{Op: mpcl.EIndex, T: T, Name: "i0", A: []*mpcl.Expr{arr}}
	shift := func(e *mpcl.Expr, label string) *mpcl.Expr {
		// Mostly no shift: then every bit of every element reaches
		// the returned accumulator.
		k := rapid.SampledFrom([]int{0, 0, 0, 1, 7, 127}).Draw(t, label)
		return &mpcl.Expr{Op: mpcl.EBin, T: T, Name: "<<", A: []*mpcl.Expr{e,
			{Op: mpcl.ELit, T: mpcl.Uint(32), Val: fmt.Sprint(k)}}}
	}
	body := []*mpcl.Stmt{
		{K: mpcl.SVar, Name: "v1", T: &arrT},
		{K: mpcl.SVar, Name: "v2", T: &T, E: bin(op("op0"), v("a0"), v("a1"))},
		// Every array update makes a new array value with n*128 fresh
		// wire ids: a few dozen iterations already push the ids into
		// the millions (and cost that much memory on both sides).
		{K: mpcl.SFor, Var: "i0", Count: rapid.IntRange(8, 40).Draw(t, "iters"), Body: []*mpcl.Stmt{
			{K: mpcl.SSetIndex, Name: "v1", LoopIdx: "i0", E: bin(op("op1"), v("v2"), v("a0"))},
			{K: mpcl.SAssign, Name: "v2", E: bin(rapid.SampledFrom([]string{"^", "+", "-"}).Draw(t, "op2"), shift(v("v2"), "sh"), loopIdx)},
		}},
		{K: mpcl.SSetIndex, Name: "v1", Idx: rapid.IntRange(513, n-1).Draw(t, "upd"), E: bin("+", v("a1"), v("v2"))},
		{K: mpcl.SReturn, Es: []*mpcl.Expr{
			bin(op("op3"), idx("r0", 513), idx("r1", 0)),
			idx("r3", 0),
			idx("r2", 513),
			v("v2"),
		}},
	}
	p := &mpcl.Prog{Funcs: []*mpcl.Func{{Name: "main",
		Params:  []mpcl.Param{{Name: "a0", T: T}, {Name: "a1", T: T}},
		Results: []mpcl.Type{T, T, T, T}, Body: body}}}
	return Case{Prog: p, Tmpl: "bigarr",
		X:    []string{hexDigits(t, 32, "a")},
		Y:    []string{hexDigits(t, 32, "b")},
		Seed: rapid.Uint64().Draw(t, "seed")}
}

func TestBig(t *testing.T) {
	ev.Check(t, ev.Get(prop), "stream", genBig, run)
}

// Boundary programs: the garbler's input is an array of 2030..2050 uint32
// (64960..65600 input wires), so the values a generated program computes get
// wire ids on both sides of 65535/65536, where the streaming gate encoding
// switches between 16-bit and 32-bit wire ids.
func genBoundary(t *rapid.T) Case {
	n := rapid.IntRange(2030, 2050).Draw(t, "n")
	if rapid.IntRange(0, 2).Draw(t, "straddle") == 0 {
		// The garbler's 65504 bits end just below 2^16: a 64-bit
		// evaluator argument straddles wire id 65536.
		n = 2047
	}
	arrT := mpcl.Array(n, mpcl.Uint(32))
	o := mpcl.Opts{NumParams: 2, MaxStmts: 6, MaxDepth: 2, Arrays: false, Loops: true,
		ScalarParams: true, MaxWidth: 64, NoDiv: true, Param0: &arrT,
		PoolTypes:  []mpcl.Type{mpcl.Uint(32), mpcl.Uint(64)},
		AliasHeavy: rapid.Bool().Draw(t, "alias")}
	p := mpcl.Draw(t, o)
	// The garbler's value: n*8 hex digits (element 0 first, as
	// IOArg.Parse reads array literals).
	x := hexDigits(t, 16, "xhead") + strings.Repeat("5a", n*4-8)
	vec := mpcl.DrawInputs(t, p, 2)
	y := vec[rapid.IntRange(0, len(vec)-1).Draw(t, "vec")][1]
	return Case{Prog: p, Tmpl: "boundary", X: []string{x}, Y: []string{y},
		Seed: rapid.Uint64().Draw(t, "seed")}
}

func TestBoundary(t *testing.T) {
	ev.Check(t, ev.Get(prop), "stream", genBoundary, run)
}
