// C05: streaming mode agrees with whole-circuit mode.
package c05

import (
	"fmt"
	"math/big"
	"strings"
	"testing"
	"time"

	"github.com/markkurossi/mpc/circuit"
	"github.com/markkurossi/mpc/compiler"
	"github.com/markkurossi/mpc/compiler/utils"
	"github.com/markkurossi/mpc/env"
	"github.com/markkurossi/mpc/ot"
	"pgregory.net/rapid"

	"verifharness/internal/ev"
	"verifharness/internal/gen"
	"verifharness/internal/mpcl"
	"verifharness/internal/xport"
)

const prop = "C05"

// Case is one streaming session.  Exactly one of Prog (generated IR, checked
// against the interpreter as well) or Src (templated source; differential
// only) is set.
type Case struct {
	Prog  *mpcl.Prog `json:"prog,omitempty"`
	Src   string     `json:"src,omitempty"`
	Tmpl  string     `json:"tmpl,omitempty"`
	X     []string   `json:"x"` // garbler's input flag (one string per compound member)
	Y     []string   `json:"y"`
	Seed  uint64     `json:"seed"`
	Frags []int      `json:"frags,omitempty"`
	// Reuse: the session is run twice on fresh connections and the named
	// party ("evaluator", "garbler", "both") keeps its ot.OT object, as the
	// streaming evaluator loop of apps/garbled does.
	Reuse string `json:"reuse,omitempty"`
}

func hexOf(v *big.Int) string { return "0x" + v.Text(16) }

func genCase(t *rapid.T) Case {
	o := mpcl.Opts{NumParams: 2, MaxStmts: 9, MaxDepth: 2, Helpers: 1, Arrays: true,
		Structs: true, Loops: true, AliasHeavy: true, ScalarParams: true, MaxWidth: 70}
	if rapid.IntRange(0, 9).Draw(t, "wide") == 0 {
		o.MaxWidth = 130
	}
	o.StructParams = true
	p := mpcl.Draw(t, o)
	vec := mpcl.DrawInputs(t, p, 2)
	in := vec[rapid.IntRange(0, len(vec)-1).Draw(t, "vec")]
	cs := Case{Prog: p, X: memberStrings(p, 0, in[0]), Y: memberStrings(p, 1, in[1]),
		Seed: rapid.Uint64().Draw(t, "seed")}
	if rapid.IntRange(0, 2).Draw(t, "negstr") == 0 {
		// Signed members with their top bit set as negative decimal
		// strings ("-3"), the other way to write them on the command
		// line.
		cs.X, cs.Y = negStrings(p, 0, cs.X), negStrings(p, 1, cs.Y)
	}
	n := rapid.IntRange(0, 3).Draw(t, "nfrags")
	for i := 0; i < n; i++ {
		cs.Frags = append(cs.Frags, rapid.SampledFrom([]int{0, 1, 3, 16, 17, 4095}).Draw(t, "frag"))
	}
	if rapid.IntRange(0, 7).Draw(t, "reuse") == 0 {
		cs.Reuse = rapid.SampledFrom([]string{"evaluator", "evaluator", "garbler", "both"}).Draw(t, "reuseparty")
	}
	return cs
}

// memberStrings turns the packed value of main's parameter i into the input
// flag the parties give: one string for a scalar, one string per field for a
// struct parameter (fields in declaration order).
func memberStrings(p *mpcl.Prog, i int, packed string) []string {
	T := p.Main().Params[i].T
	if T.K != mpcl.KStruct {
		return []string{packed}
	}
	v, _ := new(big.Int).SetString(packed, 0)
	var res []string
	ofs := 0
	for _, f := range p.Struct(T.S).Fields {
		n := p.Bits(f.T)
		m := new(big.Int).Rsh(v, uint(ofs))
		m.And(m, new(big.Int).Sub(new(big.Int).Lsh(big.NewInt(1), uint(n)), big.NewInt(1)))
		res = append(res, hexOf(m))
		ofs += n
	}
	return res
}

// negStrings rewrites the strings of signed integer members whose top bit is
// set as negative decimal numbers with the same two's complement bits.
func negStrings(p *mpcl.Prog, i int, strs []string) []string {
	T := p.Main().Params[i].T
	var ts []mpcl.Type
	if T.K == mpcl.KStruct {
		for _, f := range p.Struct(T.S).Fields {
			ts = append(ts, f.T)
		}
	} else {
		ts = []mpcl.Type{T}
	}
	if len(ts) != len(strs) {
		return strs
	}
	res := append([]string{}, strs...)
	for k, ft := range ts {
		v, ok := new(big.Int).SetString(strs[k], 0)
		if !ok || !ft.Signed() || ft.N < 2 || v.Sign() < 0 || v.Bit(ft.N-1) == 0 || v.BitLen() > ft.N {
			continue
		}
		res[k] = new(big.Int).Sub(v, new(big.Int).Lsh(big.NewInt(1), uint(ft.N))).String()
	}
	return res
}

type ioSig struct {
	Type string
	Bits int
}

func sigOf(io circuit.IO) []ioSig {
	var res []ioSig
	for _, a := range io {
		res = append(res, ioSig{a.Type.String(), int(a.Type.Bits)})
	}
	return res
}

func run(cs Case) ev.Outcome {
	src := cs.Src
	if cs.Prog != nil {
		src = cs.Prog.Source()
	}
	xs, ys := cs.X, cs.Y
	sx, err := circuit.InputSizes(xs)
	if err != nil {
		return ev.Outcome{Skip: "InputSizes: " + err.Error()}
	}
	sy, err := circuit.InputSizes(ys)
	if err != nil {
		return ev.Outcome{Skip: "InputSizes: " + err.Error()}
	}
	inputSizes := [][]int{sx, sy}

	// Whole-circuit reference.
	circ, _, err := compiler.New(utils.NewParams()).Compile(src, inputSizes)
	if err != nil {
		return ev.Fail("compile-error", "whole-circuit compile error: %v\n%s", err, src)
	}
	if len(circ.Inputs) != 2 {
		return ev.Outcome{Skip: "not a two-party program"}
	}
	inX, err := circ.Inputs[0].Parse(xs)
	if err != nil {
		return ev.Outcome{Skip: "Parse x: " + err.Error()}
	}
	inY, err := circ.Inputs[1].Parse(ys)
	if err != nil {
		return ev.Outcome{Skip: "Parse y: " + err.Error()}
	}
	cin, err := mpcl.CircuitInputs(circ, []*big.Int{inX, inY})
	if err != nil {
		return ev.Fail("io-shape", "%v", err)
	}
	want, err := circ.Compute(cin)
	if err != nil {
		return ev.Fail("compute-error", "%v", err)
	}

	// Streaming session(s).
	sessions := 1
	switch cs.Reuse {
	case "":
	case "evaluator", "garbler", "both":
		sessions = 2
	default:
		return ev.Outcome{Skip: "unknown reuse party"}
	}
	var gOT, eOT ot.OT
	var gIO, eIO circuit.IO
	for sn := 0; sn < sessions; sn++ {
		d := xport.NewDuplex(cs.Frags, cs.Frags)
		gConn, eConn := d.Conns()
		params := utils.NewParams()
		params.Config = &env.Config{Rand: gen.NewDRBG(cs.Seed, 1+100*uint64(sn))}
		if gOT == nil || !(cs.Reuse == "garbler" || cs.Reuse == "both") {
			gOT = ot.NewCO(gen.NewDRBG(cs.Seed, 2+100*uint64(sn)))
		}
		if eOT == nil || !(cs.Reuse == "evaluator" || cs.Reuse == "both") {
			eOT = ot.NewCO(gen.NewDRBG(cs.Seed, 3+100*uint64(sn)))
		}
		g, e := gOT, eOT
		res := xport.RunPair(d,
			func() ([]*big.Int, error) {
				io, vals, err := compiler.New(params).Stream(gConn, g, "{data}",
					strings.NewReader(src), xs, inputSizes)
				gIO = io
				return vals, err
			},
			func() ([]*big.Int, error) {
				io, vals, err := circuit.StreamEvaluator(eConn, e, ys, nil, false)
				eIO = io
				return vals, err
			}, 10*time.Second, 180*time.Second)
		d.Close()

		desc := fmt.Sprintf("x=%v y=%v", xs, ys)
		pre := ""
		if sessions > 1 {
			desc = fmt.Sprintf("session %d of %d (%s keeps its OT object): %s", sn+1, sessions, cs.Reuse, desc)
			pre = "reuse/"
		}
		switch {
		case res.TimedOut:
			return ev.Outcome{Skip: "time budget exhausted (inconclusive)"}
		case res.A.Panic != "":
			return ev.Fail(pre+"stream-garbler/panic/"+xport.PanicSiteOf(res.A.Panic),
				"%s: streaming garbler panicked: %s\n%s", desc, res.A.Panic, src)
		case res.B.Panic != "":
			return ev.Fail(pre+"stream-evaluator/panic/"+xport.PanicSiteOf(res.B.Panic),
				"%s: streaming evaluator panicked: %s\n%s", desc, res.B.Panic, src)
		case res.Stalled:
			return ev.Fail(pre+"stream/stall", "%s: streaming session stalled\n%s", desc, src)
		case res.A.Err != nil || res.B.Err != nil:
			return ev.Fail(pre+"stream/error", "%s: garbler err=%v, evaluator err=%v\n%s",
				desc, res.A.Err, res.B.Err, src)
		}
		if len(res.A.Vals) != len(want) || len(res.B.Vals) != len(want) {
			return ev.Fail(pre+"stream/arity", "%s: streaming returned %d/%d values, whole circuit %d\n%s",
				desc, len(res.A.Vals), len(res.B.Vals), len(want), src)
		}
		for i := range want {
			if res.A.Vals[i].Cmp(res.B.Vals[i]) != 0 {
				return ev.Fail(pre+"stream/parties-disagree", "%s: output %d: garbler 0x%s, evaluator 0x%s\n%s",
					desc, i, res.A.Vals[i].Text(16), res.B.Vals[i].Text(16), src)
			}
			if res.A.Vals[i].Cmp(want[i]) != 0 {
				return ev.Fail(pre+"stream-vs-whole/"+featSig(cs), "%s: output %d: streaming 0x%s, whole circuit 0x%s\n%s",
					desc, i, res.A.Vals[i].Text(16), want[i].Text(16), src)
			}
		}
	}
	desc := fmt.Sprintf("x=%v y=%v", xs, ys)
	gs, es, ws := sigOf(gIO), sigOf(eIO), sigOf(circ.Outputs)
	if fmt.Sprint(gs) != fmt.Sprint(es) || fmt.Sprint(gs) != fmt.Sprint(ws) {
		return ev.Fail("stream/output-types", "%s: output types differ: garbler %v, evaluator %v, whole circuit %v\n%s",
			desc, gs, es, ws, src)
	}
	// Anchor: the interpreter (so that a common-mode compiler bug is not
	// masked here; it is C03's finding then).
	if cs.Prog != nil {
		args, _, err := mpcl.ParseInputs(cs.Prog, []string{hexOf(inX), hexOf(inY)})
		if err == nil {
			if exp, err := cs.Prog.Run(args); err == nil {
				for i, r := range cs.Prog.Main().Results {
					if cs.Prog.Pack(r, exp[i]).Cmp(want[i]) != 0 {
						return ev.Outcome{Skip: "whole-circuit result differs from the interpreter (C03 territory)"}
					}
				}
			}
		}
	}

	classes := []string{}
	if cs.Reuse != "" {
		classes = append(classes, "ot-object-reused-by="+cs.Reuse)
	}
	nontrivial := false
	if cs.Prog != nil {
		ssa := ssaListing(src, inputSizes)
		alias := false
		for _, op := range []string{"\tmov", "\tsmov", "\tslice", "\tlshift", "\trshift", "\tsrshift", "\tamov"} {
			if i := strings.Index(ssa, op); i >= 0 {
				alias = true
				if strings.Contains(ssa[i:], "\tgc ") {
					nontrivial = true
				}
			}
		}
		if alias {
			classes = append(classes, "has-alias-instr")
		}
		if nontrivial {
			classes = append(classes, "alias-then-gc")
		}
		classes = append(classes, mpcl.Features(cs.Prog).Classes()...)
		if cs.Tmpl == "bigarr" {
			classes = append(classes, "wire-ids>65535")
			nontrivial = true
		}
		if cs.Tmpl == "boundary" {
			classes = append(classes, "wire-ids-around-65536")
			nontrivial = true
		}
	} else {
		classes = append(classes, "template="+cs.Tmpl)
		nontrivial = true
	}
	out := ev.OK(nontrivial, classes...)
	out.Sample = map[string]interface{}{"source": src, "x": xs, "y": ys}
	return out
}

func featSig(cs Case) string {
	if cs.Prog != nil {
		return mpcl.Features(cs.Prog).Sig()
	}
	return "template/" + cs.Tmpl
}

type nopCloser struct{ *strings.Builder }

func (nopCloser) Close() error { return nil }

func ssaListing(src string, inputSizes [][]int) string {
	params := utils.NewParams()
	var sb strings.Builder
	params.SSAOut = nopCloser{&sb}
	params.NoCircCompile = true
	_, _, err := compiler.New(params).Compile(src, inputSizes)
	if err != nil {
		return ""
	}
	return sb.String()
}

func init() { ev.Register("stream", run) }

func TestStream(t *testing.T) {
	ev.Check(t, ev.Get(prop), "stream", genCase, run)
}

func TestReplay(t *testing.T) { ev.Replay(t, ev.Get(prop)) }
