package c11

import (
	"encoding/hex"
	"encoding/json"
	"flag"
	"fmt"
	"os"
	"path/filepath"
	"strconv"
	"strings"
	"sync/atomic"
	"testing"
	"time"

	"verifharness/internal/ev"
	"verifharness/internal/gen"
)

// ---------------------------------------------------------------------------
// bytes -> Case (data provider for the native fuzz target)

type provider struct {
	b []byte
	i int
}

func (p *provider) next() byte {
	if p.i >= len(p.b) {
		return 0
	}
	v := p.b[p.i]
	p.i++
	return v
}

func (p *provider) more() bool { return p.i < len(p.b) }

const (
	fuzzMaxOps  = 48
	fuzzByteCap = rbufSize + 300*1024
)

// caseFromBytes decodes fuzz input into a history.  Every byte string decodes
// to a valid case (constructive, no rejection).
func caseFromBytes(data []byte) Case {
	p := &provider{b: data}
	var cs Case
	flags := p.next()
	cs.Seed = uint64(p.next())
	dirs := [2]*Dir{&cs.AB, &cs.BA}
	for d, dir := range dirs {
		switch (flags >> (2 * uint(d))) & 3 {
		case 2:
			dir.Sync = true
		case 3:
			dir.Late = true
		}
		nf := int(p.next() % 5)
		for i := 0; i < nf; i++ {
			dir.Frags = append(dir.Frags, fragChoices[int(p.next())%len(fragChoices)])
		}
		nc := int(p.next() % 3)
		for i := 0; i < nc; i++ {
			dir.Chunks = append(dir.Chunks, chunkChoices[int(p.next())%len(chunkChoices)])
		}
	}
	var models [2]wmodel
	var usedMiB [2]bool
	for n := 0; p.more() && n < fuzzMaxOps; n++ {
		kb := p.next()
		d := int(kb >> 7)
		dir, m := dirs[d], &models[d]
		var op Op
		switch int(kb&0x7f) % 13 {
		case 0:
			op = Op{K: kByte, V: uint64(p.next())}
		case 1:
			op = Op{K: kU16, V: uint64(p.next())<<8 | uint64(p.next())}
		case 2:
			op = Op{K: kU32, V: uint64(p.next())<<24 | uint64(p.next())<<16 | uint64(p.next())<<8 | uint64(p.next())}
		case 3:
			op = Op{K: kU32, V: u32Boundary[int(p.next())%len(u32Boundary)]}
		case 4:
			op = Op{K: kData, N: int(p.next())}
		case 5:
			op = Op{K: kData, N: lenBoundary[int(p.next())%len(lenBoundary)]}
		case 6:
			op = Op{K: kData, N: toBoundary(m.pos, int(p.next()%11)-5)}
		case 7:
			op = Op{K: kStr, N: int(p.next())}
		case 8:
			op = Op{K: kLabel, V: uint64(p.next() % 3)}
		case 9:
			op = Op{K: kSizes, N: sizesCounts[int(p.next())%len(sizesCounts)]}
		case 10:
			op = Op{K: kFlush}
		case 11:
			op = Op{K: kFlush, W: !dir.Late}
		case 12:
			if usedMiB[d] {
				op = Op{K: kData, N: int(p.next())}
			} else {
				usedMiB[d] = true
				op = Op{K: kData, N: lenMiB[int(p.next())%len(lenMiB)]}
			}
		}
		if m.total+encLen(op) > fuzzByteCap {
			switch op.K {
			case kData, kStr:
				op.N %= 301
			case kSizes:
				op.N %= 7
			}
		}
		m.apply(op)
		dir.Ops = append(dir.Ops, op)
	}
	return cs
}

func fuzzSeeds() [][]byte {
	var res [][]byte
	// flags, seed, (nfrag, frags.., nchunk, chunks..) x2, ops...
	hand := []string{
		"00 01 00 00 00 00",
		// A->B: data to the buffer end, u32, flush+wait, byte; frag 1
		"00 02 01 02 00 00 00 06 05 02 de ad be ef 0b 00 7f",
		// both directions, sync, boundary payloads
		"0a 03 02 04 05 01 01 02 03 00 00 05 07 85 08 0a 8b 02 00 00 00 01 09 06 88 01",
		// late receiver with ~1 MiB
		"03 04 00 00 00 00 0c 02 01 ff ff 08 00 09 03",
		// many flushes
		"00 05 01 03 00 00 00 00 41 0a 0a 0b 01 12 34 0b 08 02 0a 09 01 0b",
		// ring: three full buffers back to back through tiny fragments
		"02 06 01 02 01 01 00 00 05 07 05 07 05 07 05 0a 06 05 0b 01 00 01",
	}
	for _, h := range hand {
		b, err := hex.DecodeString(strings.ReplaceAll(h, " ", ""))
		if err != nil {
			panic(err)
		}
		res = append(res, b)
	}
	d := gen.NewDRBG(0xC11F, 1)
	for i := 0; i < 24; i++ {
		res = append(res, d.Bytes(8+d.Intn(120)))
	}
	return res
}

// ---------------------------------------------------------------------------
// Native fuzzing plumbing (the workers are separate processes: they count into
// side files, the coordinator books the numbers and replays new crashers).

var (
	isFuzzWorker bool
	fzExecs      atomic.Int64
	fzNontrivial atomic.Int64
	fzKnown      atomic.Int64
	fzHangs      atomic.Int64
)

type fuzzCounts struct {
	Execs, Nontrivial, Known, HangSuspects int64
}

func workerFile(kind string) string {
	out := os.Getenv("VERIF_EV_OUT")
	if out == "" {
		return ""
	}
	return fmt.Sprintf("%s.%s.%d", out, kind, os.Getpid())
}

func writeWorkerCounts() {
	p := workerFile("fw")
	if p == "" {
		return
	}
	data, _ := json.Marshal(fuzzCounts{fzExecs.Load(), fzNontrivial.Load(), fzKnown.Load(), fzHangs.Load()})
	os.WriteFile(p+".tmp", data, 0o644)
	os.Rename(p+".tmp", p)
}

func noteHangSuspect(data []byte) {
	p := workerFile("hang")
	if p == "" {
		return
	}
	f, err := os.OpenFile(p, os.O_APPEND|os.O_CREATE|os.O_WRONLY, 0o644)
	if err != nil {
		return
	}
	fmt.Fprintln(f, hex.EncodeToString(data))
	f.Close()
}

func fuzzOne(t *testing.T, data []byte) {
	col := ev.Get(prop)
	cs := caseFromBytes(data)
	if isFuzzWorker {
		out := run(cs)
		if n := fzExecs.Add(1); n%512 == 0 {
			writeWorkerCounts()
		}
		if out.Nontrivial {
			fzNontrivial.Add(1)
		}
		if out.Err == "" {
			return
		}
		if col.IsKnown(out.Sig) {
			fzKnown.Add(1)
			return
		}
		if strings.HasPrefix(out.Sig, "hang/") {
			// The worker runs with a short time budget (the fuzzing engine
			// kills a call after 10 s): the coordinator decides with the
			// full budget after fuzzing.
			fzHangs.Add(1)
			noteHangSuspect(data)
			writeWorkerCounts()
			return
		}
		writeWorkerCounts()
		t.Fatalf("%s: %s", out.Sig, out.Err)
		return
	}
	// Coordinator (seed corpus / plain run of the target).
	out := run(cs)
	if col.Record("fuzz", cs, out) {
		path := col.Violation("fuzz", cs, out, false)
		t.Errorf("violation sig=%s replay=%s: %s", out.Sig, path, out.Err)
	}
}

// FuzzConn: bytes -> history -> run.
func FuzzConn(f *testing.F) {
	for _, s := range fuzzSeeds() {
		f.Add(s)
	}
	f.Fuzz(func(t *testing.T, data []byte) { fuzzOne(t, data) })
}

func listCrashers() map[string]bool {
	res := map[string]bool{}
	files, _ := filepath.Glob(filepath.Join("testdata", "fuzz", "FuzzConn", "*"))
	for _, f := range files {
		res[f] = true
	}
	return res
}

// decodeCorpusFile reads a "go test fuzz v1" file with one []byte value.
func decodeCorpusFile(path string) ([]byte, error) {
	data, err := os.ReadFile(path)
	if err != nil {
		return nil, err
	}
	lines := strings.Split(strings.TrimSpace(string(data)), "\n")
	if len(lines) != 2 || !strings.HasPrefix(lines[0], "go test fuzz v1") {
		return nil, fmt.Errorf("not a fuzz corpus file")
	}
	s := strings.TrimSpace(lines[1])
	s = strings.TrimPrefix(s, "[]byte(")
	s = strings.TrimSuffix(s, ")")
	u, err := strconv.Unquote(s)
	if err != nil {
		return nil, err
	}
	return []byte(u), nil
}

func TestMain(m *testing.M) {
	flag.Parse()
	fuzzTarget := ""
	if f := flag.Lookup("test.fuzz"); f != nil {
		fuzzTarget = f.Value.String()
	}
	if f := flag.Lookup("test.fuzzworker"); f != nil && f.Value.String() == "true" {
		isFuzzWorker = true
	}
	if isFuzzWorker {
		budgetOverride = 2500 * time.Millisecond
		graceScale = 0.2
		maxTries = 1
		drainWait = 300 * time.Millisecond
		code := m.Run()
		writeWorkerCounts()
		os.Exit(code)
	}
	before := listCrashers()
	code := m.Run()
	if fuzzTarget != "" {
		col := ev.Get(prop)
		var sum fuzzCounts
		var suspects []string
		if out := os.Getenv("VERIF_EV_OUT"); out != "" {
			files, _ := filepath.Glob(out + ".fw.*")
			for _, f := range files {
				var c fuzzCounts
				if data, err := os.ReadFile(f); err == nil && json.Unmarshal(data, &c) == nil {
					sum.Execs += c.Execs
					sum.Nontrivial += c.Nontrivial
					sum.Known += c.Known
					sum.HangSuspects += c.HangSuspects
				}
				os.Remove(f)
			}
			files, _ = filepath.Glob(out + ".hang.*")
			for _, f := range files {
				if data, err := os.ReadFile(f); err == nil {
					for _, l := range strings.Fields(string(data)) {
						if len(suspects) < 20 {
							suspects = append(suspects, l)
						}
					}
				}
				os.Remove(f)
			}
		}
		if sum.Execs > 0 {
			col.Record("fuzz", nil, ev.Outcome{Evals: int(sum.Execs), Classes: []string{"native-fuzz-workers"}})
		}
		col.Count("fuzz_execs", int(sum.Execs))
		col.Count("fuzz_nontrivial_execs", int(sum.Nontrivial))
		col.Count("fuzz_known_finding_hits", int(sum.Known))
		col.Count("fuzz_hang_suspects", int(sum.HangSuspects))
		col.Note("native fuzzing (%s): worker executions are counted by the workers (periodic side files, the last <512 executions of a worker may be missing); their distinct cases are not part of distinct_nontrivial", fuzzTarget)
		// The seed corpus, in-process (the engine hands it to the workers):
		// booked as ordinary cases so that samples / classes are visible.
		for _, sd := range fuzzSeeds() {
			cs := caseFromBytes(sd)
			out := run(cs)
			if col.Record("fuzz", cs, out) {
				col.Violation("fuzz", cs, out, false)
				code = 1
			}
		}
		// Hang suspects of the workers (short budget): decide with the
		// normal budget.
		for _, h := range suspects {
			data, err := hex.DecodeString(h)
			if err != nil {
				continue
			}
			cs := caseFromBytes(data)
			out := run(cs)
			if col.Record("fuzz", cs, out) {
				col.Violation("fuzz", cs, out, false)
				code = 1
			}
		}
		// New crashers.
		for f := range listCrashers() {
			if before[f] {
				continue
			}
			data, err := decodeCorpusFile(f)
			if err != nil {
				col.Note("fuzz crasher %s could not be decoded: %v", f, err)
				continue
			}
			cs := caseFromBytes(data)
			out := run(cs)
			if col.Record("fuzz", cs, out) {
				col.Violation("fuzz", cs, out, false)
			} else {
				col.Note("fuzz crasher %s did not reproduce in-process (outcome err=%q skip=%q); left in place", f, out.Err, out.Skip)
			}
		}
		col.Flush()
	}
	os.Exit(code)
}
