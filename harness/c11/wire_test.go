package c11

import (
	"runtime"

	"verifharness/internal/xport"
)

// wire wraps one end of the shared in-memory Duplex with what C11 needs on top
// of read fragmentation: write splitting (a transport Write reaches the peer in
// several pieces) and a synchronous mode in which a piece must have been read
// by the peer before Write continues (the behaviour of io.Pipe, which p2p.Pipe
// is built on; it makes the writer goroutine slow so that the three-buffer
// ring runs empty and the sender blocks in Flush).
type wire struct {
	s      *session
	end    *xport.End
	out    int // direction this end writes to
	chunks []int
	sync   bool

	zeroReads int // consecutive zero-length reads (reader goroutine only)
}

func (w *wire) Read(p []byte) (int, error) {
	if w.s.isAborted() {
		return 0, xport.ErrClosed
	}
	if len(p) == 0 {
		// A Conn that keeps reading into an empty slice can never make
		// progress: report it at once instead of waiting for the watchdog.
		w.zeroReads++
		if w.zeroReads > 10000 {
			w.s.fail(1-w.out, priRecvErr, "hang/zero-length-read-loop",
				"%s: the receiving Conn called Read with a zero-length buffer more than 10000 times in a row (receiver at op #%d; read window full?)",
				dirName(1-w.out), w.s.recvOp[1-w.out].Load())
			return 0, xport.ErrClosed
		}
	} else {
		w.zeroReads = 0
	}
	n, err := w.end.Read(p)
	// wake a synchronous writer of the incoming direction
	w.s.mu.Lock()
	w.s.cond.Broadcast()
	w.s.mu.Unlock()
	return n, err
}

func (w *wire) Write(p []byte) (int, error) {
	if len(w.chunks) == 0 && !w.sync {
		return w.end.Write(p)
	}
	total := 0
	for i := 0; len(p) > 0; i++ {
		n := len(p)
		if i < len(w.chunks) && w.chunks[i] > 0 && w.chunks[i] < n {
			n = w.chunks[i]
		}
		k, err := w.end.Write(p[:n])
		total += k
		if err != nil {
			return total, err
		}
		p = p[n:]
		if w.sync {
			s := w.s
			s.mu.Lock()
			for !s.aborted && s.dup.Delivered(w.out) < s.dup.Written(w.out) {
				s.cond.Wait()
			}
			s.mu.Unlock()
		} else if len(p) > 0 {
			runtime.Gosched()
		}
	}
	return total, nil
}

func (w *wire) Close() error { return w.end.Close() }
