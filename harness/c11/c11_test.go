// C11: the connection layer (p2p.Conn) is a faithful, ordered, typed byte
// stream.
//
// A case is a history: one list of typed operations per direction (A->B and
// B->A), flush placements, read fragmentation / write splitting of the
// in-memory transport under p2p.NewConn, and a payload seed.  Each Conn is
// driven by exactly one sender goroutine (Send*/Flush/Close) and one receiver
// goroutine (Receive*), which is how every protocol of the repository uses a
// Conn.  The oracle is a list model: the receiver must obtain exactly the
// model values in order, everything sent before a Flush must be receivable
// without any further send, Close must hand everything to the transport, and
// the byte counters must equal what the transport saw.
package c11

import (
	"bytes"
	"fmt"
	"io"
	"os"
	"runtime/debug"
	"strconv"
	"strings"
	"sync"
	"sync/atomic"
	"testing"
	"time"

	"github.com/markkurossi/mpc/ot"
	"github.com/markkurossi/mpc/p2p"
	"pgregory.net/rapid"

	"verifharness/internal/ev"
	"verifharness/internal/gen"
	"verifharness/internal/xport"
)

const (
	prop     = "C11"
	wbufSize = 64 * 1024   // p2p: writeBufSize
	rbufSize = 1024 * 1024 // p2p: readBufSize
	maxData  = 2*rbufSize + 64
	maxSizes = 40000
)

// Operation kinds.
const (
	kByte  = "byte"
	kU16   = "u16"
	kU32   = "u32"
	kData  = "data"
	kStr   = "str"
	kLabel = "label"
	kSizes = "sizes"
	kFlush = "flush"
)

// Op is one typed operation of a sender.
type Op struct {
	K string `json:"k"`
	// V is the value of byte/u16/u32 operations; for label it selects
	// 0 = random, 1 = all zero, 2 = all ones.
	V uint64 `json:"v,omitempty"`
	// N is the payload length (data, str) or the element count (sizes).
	// Contents are regenerated from Case.Seed.
	N int `json:"n,omitempty"`
	// W (flush only): after Flush returned the sender waits until the peer
	// has received every operation sent so far.
	W bool `json:"w,omitempty"`
}

// Dir is one direction of the session.
type Dir struct {
	Ops []Op `json:"ops"`
	// Frags: read fragment sizes the receiving end sees (cycled; 0 = all
	// that is available).
	Frags []int `json:"frags,omitempty"`
	// Chunks: every transport Write of this direction is split into these
	// leading pieces (rest in one piece).
	Chunks []int `json:"chunks,omitempty"`
	// Sync: after every written piece the transport waits until the peer
	// has read it (like io.Pipe): back-pressure fills the buffer ring.
	Sync bool `json:"sync,omitempty"`
	// Late: the receiver starts only after the sender's Close returned, so
	// reads find everything available (whole-buffer reads).  Disables W and
	// Sync of the direction.
	Late bool `json:"late,omitempty"`
}

// Case is one history.
type Case struct {
	Seed uint64 `json:"seed"`
	AB   Dir    `json:"ab"`
	BA   Dir    `json:"ba"`
}

// ---------------------------------------------------------------------------
// Model

var u32Boundary = []uint64{0, 1, 255, 256, 65535, 65536, 1<<24 - 1, 1 << 24,
	1<<31 - 1, 1 << 31, 1<<32 - 2, 1<<32 - 1}

func opStream(dir, idx int) uint64 { return uint64(dir)<<32 | uint64(idx) }

func payload(seed uint64, dir, idx, n int) []byte {
	return gen.NewDRBG(seed, opStream(dir, idx)).Bytes(n)
}

func labelOf(seed uint64, dir, idx int, sel uint64) ot.Label {
	switch sel {
	case 1:
		return ot.Label{}
	case 2:
		return ot.Label{D0: ^uint64(0), D1: ^uint64(0)}
	}
	d := gen.NewDRBG(seed, opStream(dir, idx))
	return ot.Label{D0: d.Uint64(), D1: d.Uint64()}
}

func sizesOf(seed uint64, dir, idx, n int) []int {
	d := gen.NewDRBG(seed, opStream(dir, idx))
	raw := d.Bytes(8 * n)
	res := make([]int, n)
	for i := range res {
		var r uint64
		for _, b := range raw[8*i : 8*i+8] {
			r = r<<8 | uint64(b)
		}
		switch r & 3 {
		case 0:
			res[i] = int(u32Boundary[(r>>8)%uint64(len(u32Boundary))])
		case 1:
			res[i] = int((r >> 8) % 1024)
		default:
			res[i] = int(r >> 32)
		}
	}
	return res
}

// encLen is the number of stream bytes of an operation.
func encLen(op Op) int {
	switch op.K {
	case kByte:
		return 1
	case kU16:
		return 2
	case kU32:
		return 4
	case kData, kStr:
		return 4 + op.N
	case kLabel:
		return 16
	case kSizes:
		return 4 + 4*op.N
	}
	return 0
}

// wmodel mirrors the position inside the 64 KiB write buffer.  It is used by
// the generators (lengths relative to the buffer end) and for the class /
// non-triviality bookkeeping only, never by the oracle.
type wmodel struct {
	pos       int
	total     int
	big       bool // a payload larger than the free space of the buffer
	straddle  bool // a fixed-width value did not fit: partial buffer flushed
	exactFull bool // a payload ended exactly at the buffer end
	implicit  int  // flushes forced by a full buffer
	explicit  int  // Flush calls with pending data
	emptyFl   int  // Flush calls with nothing pending
	nonFlush  int
}

func (m *wmodel) fixed(w int) {
	if m.pos+w > wbufSize {
		if m.pos < wbufSize {
			m.straddle = true
		}
		m.implicit++
		m.pos = 0
	}
	m.pos += w
}

func (m *wmodel) apply(op Op) {
	m.total += encLen(op)
	if op.K != kFlush {
		m.nonFlush++
	}
	switch op.K {
	case kByte:
		m.fixed(1)
	case kU16:
		m.fixed(2)
	case kU32:
		m.fixed(4)
	case kLabel:
		m.fixed(16)
	case kSizes:
		for i := 0; i <= op.N; i++ {
			m.fixed(4)
		}
	case kData, kStr:
		m.fixed(4)
		rem := op.N
		if rem > wbufSize-m.pos {
			m.big = true
		}
		for rem > 0 {
			if m.pos >= wbufSize {
				m.implicit++
				m.pos = 0
			}
			n := wbufSize - m.pos
			if n > rem {
				n = rem
			}
			m.pos += n
			rem -= n
		}
		if m.pos == wbufSize {
			m.exactFull = true
		}
	case kFlush:
		if m.pos > 0 {
			m.explicit++
		} else {
			m.emptyFl++
		}
		m.pos = 0
	}
}

func modelOf(ops []Op) wmodel {
	var m wmodel
	for _, op := range ops {
		m.apply(op)
	}
	return m
}

func validate(d Dir) string {
	for _, op := range d.Ops {
		switch op.K {
		case kByte, kU16, kU32, kLabel, kFlush:
		case kData, kStr:
			if op.N < 0 || op.N > maxData {
				return "bad-length"
			}
		case kSizes:
			if op.N < 0 || op.N > maxSizes {
				return "bad-count"
			}
		default:
			return "bad-kind"
		}
	}
	for _, f := range d.Frags {
		if f < 0 {
			return "bad-frag"
		}
	}
	for _, f := range d.Chunks {
		if f < 0 {
			return "bad-chunk"
		}
	}
	return ""
}

// ---------------------------------------------------------------------------
// Session

type failure struct {
	pri       int // lower = reported first
	who       int
	sig, msg  string
	secondary bool // happened after the session was aborted
}

const (
	priPanic = iota
	priValue
	priSend
	priRecvErr
	priStats
	priEOF
)

type observed struct {
	residue     int // fixed-width receives that started with a partial value buffered
	residueEnd  int // ... with the read window touching the end of the read buffer
	bufFull     int // receives that started with ReadEnd == len(ReadBuf)
	emptyRefill int
}

type session struct {
	cs    Case
	dirs  [2]Dir
	dup   *xport.Duplex
	conns [2]*p2p.Conn
	wires [2]*wire

	mu       sync.Mutex
	cond     *sync.Cond
	aborted  bool
	progress [2]int // verified non-flush operations per direction
	fails    []failure

	senderDone [2]chan struct{}
	atBarrier  [2]atomic.Bool
	sendOp     [2]atomic.Int64
	recvOp     [2]atomic.Int64
	obs        [2]observed
}

func (s *session) isAborted() bool {
	s.mu.Lock()
	defer s.mu.Unlock()
	return s.aborted
}

// abort tears the session down: blocked transport reads/writes fail, waiting
// goroutines wake up.
func (s *session) abort() {
	s.mu.Lock()
	s.aborted = true
	s.cond.Broadcast()
	s.mu.Unlock()
	s.dup.Close()
}

func (s *session) fail(who, pri int, sig, format string, a ...interface{}) {
	s.mu.Lock()
	s.fails = append(s.fails, failure{pri: pri, who: who, sig: sig,
		msg: fmt.Sprintf(format, a...), secondary: s.aborted})
	s.mu.Unlock()
	s.abort()
}

func dirName(d int) string {
	if d == 0 {
		return "A->B"
	}
	return "B->A"
}

func (s *session) guard(who int, done chan<- int) {
	if p := recover(); p != nil {
		st := string(debug.Stack())
		site := xport.PanicSiteOf(st)
		if len(st) > 3000 {
			st = st[:3000]
		}
		s.fail(who, priPanic, "panic/"+site, "panic in harness goroutine %d: %v\n%s", who, p, st)
	}
	done <- who
}

// sender runs the operations of direction d on its Conn and closes it.
func (s *session) sender(d int, done chan<- int) {
	defer s.guard(2+d, done)
	defer close(s.senderDone[d])
	c := s.conns[d]
	dir := s.dirs[d]
	var m wmodel
	var ld ot.LabelData
	for i, op := range dir.Ops {
		s.sendOp[d].Store(int64(i))
		if s.isAborted() {
			c.Close()
			return
		}
		var err error
		switch op.K {
		case kByte:
			err = c.SendByte(byte(op.V))
		case kU16:
			err = c.SendUint16(int(op.V & 0xffff))
		case kU32:
			err = c.SendUint32(int(op.V & 0xffffffff))
		case kData:
			err = c.SendData(payload(s.cs.Seed, d, i, op.N))
		case kStr:
			err = c.SendString(string(payload(s.cs.Seed, d, i, op.N)))
		case kLabel:
			err = c.SendLabel(labelOf(s.cs.Seed, d, i, op.V), &ld)
		case kSizes:
			err = c.SendInputSizes(sizesOf(s.cs.Seed, d, i, op.N))
		case kFlush:
			err = c.Flush()
		}
		if err != nil {
			s.fail(2+d, priSend, "send/"+op.K+"/error",
				"%s op #%d %s(n=%d): error %v", dirName(d), i, op.K, op.N, err)
			c.Close()
			return
		}
		m.apply(op)
		if op.K == kFlush && op.W && !dir.Late {
			// Everything sent so far was flushed: the peer must be able
			// to receive it without any further send.
			s.atBarrier[d].Store(true)
			s.mu.Lock()
			for s.progress[d] < m.nonFlush && !s.aborted {
				s.cond.Wait()
			}
			s.mu.Unlock()
			s.atBarrier[d].Store(false)
		}
	}
	s.sendOp[d].Store(int64(len(dir.Ops)))
	if err := c.Close(); err != nil {
		s.fail(2+d, priSend, "close/error", "%s Close: %v", dirName(d), err)
		return
	}
	// Close returned: nothing may be left in the buffer ring.
	written := s.dup.Written(d)
	if written != m.total {
		s.fail(2+d, priSend, "close/not-all-written",
			"%s: Close returned but the transport saw %d bytes written, the model history encodes to %d",
			dirName(d), written, m.total)
		return
	}
	if sent := c.Stats.Sent.Load(); sent != uint64(written) {
		s.fail(2+d, priStats, "stats/sent",
			"%s: Stats.Sent=%d but the transport saw %d bytes written (model %d)",
			dirName(d), sent, written, m.total)
	}
}

func firstDiff(a, b []byte) int {
	n := len(a)
	if len(b) < n {
		n = len(b)
	}
	for i := 0; i < n; i++ {
		if a[i] != b[i] {
			return i
		}
	}
	return n
}

// receiver performs the typed receives matching direction d's operations on
// the peer's Conn and compares with the model.
func (s *session) receiver(d int, done chan<- int) {
	defer s.guard(d, done)
	c := s.conns[1-d]
	dir := s.dirs[d]
	if dir.Late {
		<-s.senderDone[d]
	}
	obs := &s.obs[d]
	off := 0 // stream offset of the current operation
	var ld ot.LabelData
	for i, op := range dir.Ops {
		if op.K == kFlush {
			continue
		}
		s.recvOp[d].Store(int64(i))
		avail := c.ReadEnd - c.ReadStart
		width := 0
		switch op.K {
		case kByte:
			width = 1
		case kU16:
			width = 2
		case kLabel:
			width = 16
		default:
			width = 4
		}
		if avail > 0 && avail < width {
			obs.residue++
			if c.ReadEnd == len(c.ReadBuf) {
				obs.residueEnd++
			}
		}
		if avail == 0 {
			obs.emptyRefill++
		}
		if c.ReadEnd == len(c.ReadBuf) {
			obs.bufFull++
		}
		where := func() string {
			return fmt.Sprintf("%s op #%d %s at stream offset %d", dirName(d), i, op.K, off)
		}
		recvErr := func(err error) {
			s.fail(d, priRecvErr, "recv/"+op.K+"/error",
				"%s (n=%d): receive failed: %v (transport: %d written, %d delivered)",
				where(), op.N, err, s.dup.Written(d), s.dup.Delivered(d))
		}
		switch op.K {
		case kByte:
			v, err := c.ReceiveByte()
			if err != nil {
				recvErr(err)
				return
			}
			if v != byte(op.V) {
				s.fail(d, priValue, "recv/byte/mismatch", "%s: got %#x, sent %#x", where(), v, byte(op.V))
				return
			}
		case kU16:
			v, err := c.ReceiveUint16()
			if err != nil {
				recvErr(err)
				return
			}
			if v != int(op.V&0xffff) {
				s.fail(d, priValue, "recv/u16/mismatch", "%s: got %d, sent %d", where(), v, op.V&0xffff)
				return
			}
		case kU32:
			v, err := c.ReceiveUint32()
			if err != nil {
				recvErr(err)
				return
			}
			if v != int(op.V&0xffffffff) {
				s.fail(d, priValue, "recv/u32/mismatch", "%s: got %d, sent %d", where(), v, op.V&0xffffffff)
				return
			}
		case kData, kStr:
			want := payload(s.cs.Seed, d, i, op.N)
			var got []byte
			var err error
			if op.K == kData {
				got, err = c.ReceiveData()
			} else {
				var str string
				str, err = c.ReceiveString()
				got = []byte(str)
			}
			if err != nil {
				recvErr(err)
				return
			}
			if !bytes.Equal(got, want) {
				s.fail(d, priValue, "recv/"+op.K+"/mismatch",
					"%s: got %d bytes, sent %d bytes, first difference at payload offset %d",
					where(), len(got), len(want), firstDiff(got, want))
				return
			}
		case kLabel:
			want := labelOf(s.cs.Seed, d, i, op.V)
			var got ot.Label
			if err := c.ReceiveLabel(&got, &ld); err != nil {
				recvErr(err)
				return
			}
			if got.D0 != want.D0 || got.D1 != want.D1 {
				s.fail(d, priValue, "recv/label/mismatch", "%s: got %v, sent %v", where(), got, want)
				return
			}
		case kSizes:
			want := sizesOf(s.cs.Seed, d, i, op.N)
			got, err := c.ReceiveInputSizes()
			if err != nil {
				recvErr(err)
				return
			}
			bad := len(got) != len(want)
			at := -1
			for j := 0; !bad && j < len(got); j++ {
				if got[j] != want[j] {
					bad, at = true, j
				}
			}
			if bad {
				s.fail(d, priValue, "recv/sizes/mismatch",
					"%s: got %d sizes, sent %d, first differing element %d", where(), len(got), len(want), at)
				return
			}
		}
		off += encLen(op)
		s.mu.Lock()
		s.progress[d]++
		s.cond.Broadcast()
		s.mu.Unlock()
	}
	s.recvOp[d].Store(int64(len(dir.Ops)))
	// The sender always ends with Close: after the last value the stream
	// must end.
	v, err := c.ReceiveByte()
	if err == nil {
		s.fail(d, priEOF, "eof/extra-data",
			"%s: after the last operation (stream offset %d) another byte %#x was received instead of EOF",
			dirName(d), off, v)
		return
	}
	if err != io.EOF {
		s.fail(d, priEOF, "eof/other-error",
			"%s: after the last operation the receive failed with %v instead of EOF", dirName(d), err)
		return
	}
	delivered := s.dup.Delivered(d)
	if delivered != off {
		s.fail(d, priStats, "recv/total",
			"%s: transport delivered %d bytes, the model history encodes to %d", dirName(d), delivered, off)
		return
	}
	if r := c.Stats.Recvd.Load(); r != uint64(delivered) {
		s.fail(d, priStats, "stats/recvd",
			"%s: peer Stats.Recvd=%d but the transport delivered %d bytes", dirName(d), r, delivered)
	}
}

// ---------------------------------------------------------------------------
// run

var (
	budgetOverride time.Duration // set by the fuzz worker
	graceScale     = 1.0
	maxTries       = 3
	confirmedHang  atomic.Bool
	drainWait      = 2 * time.Second
)

func budgetFor(total int) time.Duration {
	if budgetOverride > 0 {
		return budgetOverride
	}
	if s := os.Getenv("VERIF_C11_BUDGET_MS"); s != "" {
		if ms, err := strconv.Atoi(s); err == nil && ms > 0 {
			return time.Duration(ms) * time.Millisecond
		}
	}
	return 10*time.Second + time.Duration(total/(1<<20))*10*time.Second
}

type attempt struct {
	hang    string // "" = all goroutines returned
	hangMsg string
	fail    *failure
	obs     [2]observed
}

// graces for the flush-barrier stall detection, per attempt.
var barrierGrace = []time.Duration{500 * time.Millisecond, 1500 * time.Millisecond, 5 * time.Second}

func runOnce(cs Case, try int) attempt {
	s := &session{cs: cs, dirs: [2]Dir{cs.AB, cs.BA}}
	s.cond = sync.NewCond(&s.mu)
	for d := 0; d < 2; d++ {
		if s.dirs[d].Late {
			s.dirs[d].Sync = false
		}
		s.senderDone[d] = make(chan struct{})
	}
	s.dup = xport.NewDuplex(cs.AB.Frags, cs.BA.Frags)
	s.wires[0] = &wire{s: s, end: s.dup.A, out: 0, chunks: s.dirs[0].Chunks, sync: s.dirs[0].Sync}
	s.wires[1] = &wire{s: s, end: s.dup.B, out: 1, chunks: s.dirs[1].Chunks, sync: s.dirs[1].Sync}
	s.conns[0] = p2p.NewConn(s.wires[0])
	s.conns[1] = p2p.NewConn(s.wires[1])

	total := modelOf(cs.AB.Ops).total + modelOf(cs.BA.Ops).total
	done := make(chan int, 4)
	go s.sender(0, done)
	go s.sender(1, done)
	go s.receiver(0, done)
	go s.receiver(1, done)

	grace := barrierGrace[try%len(barrierGrace)]
	grace = time.Duration(float64(grace) * graceScale)
	deadline := time.NewTimer(budgetFor(total))
	defer deadline.Stop()
	tick := time.NewTicker(20 * time.Millisecond)
	defer tick.Stop()
	pending := map[int]bool{0: true, 1: true, 2: true, 3: true}
	var res attempt
	names := []string{"receiver A->B", "receiver B->A", "sender A->B", "sender B->A"}
	describe := func() string {
		msg := ""
		for who := 0; who < 4; who++ {
			if !pending[who] {
				continue
			}
			d := who % 2
			if who >= 2 {
				msg += fmt.Sprintf("%s stuck at op #%d of %d (at flush barrier: %v); ",
					names[who], s.sendOp[d].Load(), len(s.dirs[d].Ops), s.atBarrier[d].Load())
			} else {
				msg += fmt.Sprintf("%s stuck at op #%d of %d; ",
					names[who], s.recvOp[d].Load(), len(s.dirs[d].Ops))
			}
		}
		for d := 0; d < 2; d++ {
			msg += fmt.Sprintf("%s transport: %d written, %d delivered; ", dirName(d),
				s.dup.Written(d), s.dup.Delivered(d))
		}
		return msg
	}
loop:
	for len(pending) > 0 {
		select {
		case who := <-done:
			delete(pending, who)
		case <-tick.C:
			for d := 0; d < 2; d++ {
				if s.atBarrier[d].Load() && s.dup.OneSidedStall(d, grace) &&
					s.dup.Written(d) == s.dup.Delivered(d) && s.atBarrier[d].Load() {
					res.hang = "hang/flush-barrier"
					res.hangMsg = fmt.Sprintf("%s: the sender flushed and waits for the peer, the peer is blocked in Read with nothing in flight for %v: flushed data is not receivable. %s",
						dirName(d), grace, describe())
					break loop
				}
			}
		case <-deadline.C:
			res.hang = "hang/watchdog"
			res.hangMsg = "session did not finish within its time budget: " + describe()
			break loop
		}
	}
	if res.hang != "" {
		s.abort()
		// Give the goroutines a moment to unwind (a spinning one leaks).
		t := time.NewTimer(drainWait)
	drain:
		for len(pending) > 0 {
			select {
			case who := <-done:
				delete(pending, who)
			case <-t.C:
				break drain
			}
		}
		t.Stop()
	}
	// A failure recorded before the hang was declared explains more than the
	// hang itself.
	s.mu.Lock()
	var best *failure
	for i := range s.fails {
		f := &s.fails[i]
		if f.secondary {
			continue
		}
		if best == nil || f.pri < best.pri || (f.pri == best.pri && f.who < best.who) {
			best = f
		}
	}
	s.mu.Unlock()
	if best != nil {
		cp := *best
		res.fail = &cp
		if res.hang != "" {
			res.hang = ""
		}
	}
	res.obs = s.obs
	return res
}

func minPosFrag(d Dir) int {
	m := 0
	for _, f := range d.Frags {
		if f > 0 && (m == 0 || f < m) {
			m = f
		}
	}
	return m
}

func run(cs Case) ev.Outcome {
	for _, d := range []Dir{cs.AB, cs.BA} {
		if why := validate(d); why != "" {
			return ev.Outcome{Skip: why}
		}
	}
	var at attempt
	hangs := 0
	tries := maxTries
	if confirmedHang.Load() {
		// A hang was already confirmed three times in this process (the
		// verdict is settled, this is shrinking / further enumeration, and
		// spinning goroutines of earlier attempts may still eat CPU).
		tries = 1
	}
	for try := 0; try < tries; try++ {
		if tries == 1 {
			try = len(barrierGrace) - 1
		}
		at = runOnce(cs, try)
		if at.hang == "" {
			break
		}
		hangs++
	}
	if at.fail != nil {
		return ev.Fail(at.fail.sig, "%s", at.fail.msg)
	}
	if at.hang != "" {
		if tries == maxTries {
			confirmedHang.Store(true)
		}
		return ev.Fail(at.hang, "reproduced in %d of %d attempts: %s", hangs, tries, at.hangMsg)
	}

	mods := [2]wmodel{modelOf(cs.AB.Ops), modelOf(cs.BA.Ops)}
	dirs := [2]Dir{cs.AB, cs.BA}
	var classes []string
	add := func(c string) {
		for _, x := range classes {
			if x == c {
				return
			}
		}
		classes = append(classes, c)
	}
	nontrivial := false
	if hangs > 0 {
		add("hang-not-reproduced")
	}
	active := 0
	for d := 0; d < 2; d++ {
		m := mods[d]
		if m.total > 0 {
			active++
		}
		if m.big {
			add("payload>free-space")
			nontrivial = true
		}
		if m.straddle {
			add("fixed-width-straddles-wbuf-end")
		}
		if m.exactFull {
			add("payload-ends-at-wbuf-end")
		}
		if m.implicit > 0 {
			add("implicit-flush")
		}
		if m.implicit+m.explicit >= 3 {
			add("ring-cycled(>=3 buffers)")
		}
		if m.emptyFl > 0 {
			add("flush-with-nothing-pending")
		}
		if m.total > rbufSize {
			add("stream>1MiB")
		}
		if m.total == 0 {
			add("empty-direction")
		}
		if f := minPosFrag(dirs[d]); f > 0 && f < 4 && m.total > 0 {
			add("frag<4")
			nontrivial = true
		}
		o := at.obs[d]
		if o.residue > 0 {
			add("refill-with-residue")
			nontrivial = true
		}
		if o.residueEnd > 0 {
			add("refill-with-residue-at-rbuf-end")
		}
		if o.bufFull > 0 {
			add("read-buffer-full")
		}
		if dirs[d].Late && m.total > 0 {
			add("late-receiver")
		}
		if dirs[d].Sync && m.total > 0 {
			add("sync-transport")
		}
		if len(dirs[d].Chunks) > 0 && m.total > 0 {
			add("write-splitting")
		}
		for _, op := range dirs[d].Ops {
			switch {
			case op.K == kFlush && op.W && !dirs[d].Late:
				add("flush-barrier")
			case op.K == kData && op.N == 0, op.K == kStr && op.N == 0:
				add("empty-payload")
			case op.K == kData && op.N >= rbufSize-4:
				add("payload~1MiB")
			case op.K == kSizes && op.N == 0:
				add("empty-sizes")
			}
			add("op:" + op.K)
		}
	}
	if active == 2 {
		add("both-directions")
	}
	return ev.OK(nontrivial, classes...)
}

// ---------------------------------------------------------------------------
// Generator

var (
	lenBoundary  = []int{0, 1, 15, 16, 17, 4095, 65535, 65536, 65537, 196607, 196608, 196609}
	lenMiB       = []int{rbufSize - 5, rbufSize - 4, rbufSize - 3, rbufSize - 1, rbufSize, rbufSize + 1}
	fragChoices  = []int{0, 0, 1, 1, 2, 3, 4, 5, 15, 16, 17, 4095, 65535, 65536, 65537, rbufSize}
	chunkChoices = []int{0, 1, 2, 3, 4, 5, 15, 16, 17, 4096, 65535}
	sizesCounts  = []int{0, 1, 2, 3, 5, 8, 16382, 16383, 16384}
	kinds        = []string{kByte, kByte, kU16, kU16, kU32, kU32, kU32, kData, kData, kData, kData, kData,
		kStr, kStr, kLabel, kLabel, kSizes, kSizes, kFlush, kFlush, kFlush}
	dirByteCap = 2*rbufSize + 300*1024
)

func drawList(t *rapid.T, label string, choices []int, max int) []int {
	n := rapid.IntRange(0, max).Draw(t, label+"_n")
	var res []int
	for i := 0; i < n; i++ {
		res = append(res, rapid.SampledFrom(choices).Draw(t, label))
	}
	return res
}

// toBoundary returns a payload length that makes the operation end delta
// bytes after the end of the current write buffer (negative: before).
func toBoundary(pos, delta int) int {
	if pos+4 > wbufSize {
		pos = 0
	}
	n := wbufSize - (pos + 4) + delta
	for n < 0 {
		n += wbufSize
	}
	return n
}

func drawLen(t *rapid.T, m *wmodel, usedMiB *bool) int {
	sel := rapid.IntRange(0, 99).Draw(t, "len_sel")
	n := 0
	switch {
	case sel < 30:
		n = rapid.SampledFrom(lenBoundary).Draw(t, "len_boundary")
	case sel < 48:
		n = toBoundary(m.pos, rapid.IntRange(-5, 5).Draw(t, "len_delta"))
	case sel < 51 && !*usedMiB:
		n = rapid.SampledFrom(lenMiB).Draw(t, "len_mib")
		*usedMiB = true
	default:
		n = rapid.IntRange(0, 300).Draw(t, "len_small")
	}
	if m.total+n > dirByteCap {
		n = n % 301
	}
	return n
}

func drawDir(t *rapid.T, name string) Dir {
	var d Dir
	var m wmodel
	usedMiB := false
	nops := rapid.IntRange(0, 24).Draw(t, name+"_nops")
	mode := rapid.IntRange(0, 9).Draw(t, name+"_mode")
	switch {
	case mode == 0:
		d.Late = true
	case mode <= 3:
		d.Sync = true
	}
	for i := 0; i < nops; i++ {
		op := Op{K: rapid.SampledFrom(kinds).Draw(t, "kind")}
		switch op.K {
		case kByte:
			op.V = uint64(rapid.IntRange(0, 255).Draw(t, "byte"))
		case kU16:
			op.V = uint64(rapid.IntRange(0, 65535).Draw(t, "u16"))
		case kU32:
			if rapid.Bool().Draw(t, "u32_boundary") {
				op.V = rapid.SampledFrom(u32Boundary).Draw(t, "u32_b")
			} else {
				op.V = rapid.Uint64Range(0, 1<<32-1).Draw(t, "u32")
			}
		case kData:
			op.N = drawLen(t, &m, &usedMiB)
		case kStr:
			if rapid.IntRange(0, 9).Draw(t, "str_sel") == 0 {
				op.N = drawLen(t, &m, &usedMiB)
			} else {
				op.N = rapid.IntRange(0, 64).Draw(t, "str_len")
			}
		case kLabel:
			op.V = uint64(rapid.SampledFrom([]int{0, 0, 0, 0, 1, 2}).Draw(t, "label_sel"))
		case kSizes:
			op.N = rapid.SampledFrom(sizesCounts).Draw(t, "sizes_n")
			if op.N > 1000 && m.total+4*op.N > dirByteCap {
				op.N = 3
			}
		case kFlush:
			op.W = !d.Late && rapid.IntRange(0, 2).Draw(t, "flush_wait") == 0
		}
		m.apply(op)
		d.Ops = append(d.Ops, op)
	}
	d.Frags = drawList(t, name+"_frag", fragChoices, 6)
	d.Chunks = drawList(t, name+"_chunk", chunkChoices, 3)
	return d
}

func genCase(t *rapid.T) Case {
	var cs Case
	cs.Seed = rapid.Uint64().Draw(t, "seed")
	cs.AB = drawDir(t, "ab")
	cs.BA = drawDir(t, "ba")
	return cs
}

func init() {
	ev.Register("history", run)
	ev.Register("edges", run)
	ev.Register("fuzz", run)
}

func TestHistory(t *testing.T) {
	ev.Check(t, ev.Get(prop), "history", genCase, run)
}

func TestReplay(t *testing.T) { ev.Replay(t, ev.Get(prop)) }

// TestEdges enumerates two boundary sub-domains:
//
//	write side: every operation kind starting at every position of the last
//	20 bytes of the 64 KiB write buffer (and at its very end), followed by a
//	marker, under several read fragmentations, with and without a flush
//	barrier before it;
//	read side: every operation kind starting 0..19 bytes before the 1 MiB
//	mark of the stream, received by a late receiver (first read fills the
//	whole 1 MiB read buffer) or through 1..3-byte fragments around the mark.
func TestEdges(t *testing.T) {
	col := ev.Get(prop)
	// After 12 failing cases the rest of the enumeration is skipped (on a
	// broken tree every further case costs stall-detection time and adds
	// nothing).
	failed := 0
	runEdge := func(cs Case) ev.Outcome {
		if failed >= 12 {
			return ev.Outcome{Skip: "enumeration-cut-after-12-violations"}
		}
		out := run(cs)
		if out.Err != "" && !col.IsKnown(out.Sig) {
			failed++
			if strings.HasPrefix(out.Sig, "hang/") {
				failed += 5 // expensive: at most two of them
			}
		}
		return out
	}
	ev.Each(t, col, "edges", func(yield func(Case) bool) {
		fragSets := [][]int{nil, {1}, {2}, {3}, {65536}, {65535, 1}}
		type tail struct {
			name string
			ops  func(pos int) []Op
		}
		tails := []tail{
			{"byte", func(int) []Op { return []Op{{K: kByte, V: 0xa5}} }},
			{"u16", func(int) []Op { return []Op{{K: kU16, V: 0xbeef}} }},
			{"u32", func(int) []Op { return []Op{{K: kU32, V: 0xdeadbeef}} }},
			{"label", func(int) []Op { return []Op{{K: kLabel}} }},
			{"sizes0", func(int) []Op { return []Op{{K: kSizes, N: 0}} }},
			{"sizes3", func(int) []Op { return []Op{{K: kSizes, N: 3}} }},
			{"data0", func(int) []Op { return []Op{{K: kData, N: 0}} }},
			{"data1", func(int) []Op { return []Op{{K: kData, N: 1}} }},
			{"str5", func(int) []Op { return []Op{{K: kStr, N: 5}} }},
			{"data-fit-1", func(p int) []Op { return []Op{{K: kData, N: toBoundary(p, -1)}} }},
			{"data-fit", func(p int) []Op { return []Op{{K: kData, N: toBoundary(p, 0)}} }},
			{"data-fit+1", func(p int) []Op { return []Op{{K: kData, N: toBoundary(p, 1)}} }},
			{"data64k", func(int) []Op { return []Op{{K: kData, N: 65536}} }},
			{"data192k+1", func(int) []Op { return []Op{{K: kData, N: 196609}} }},
		}
		seed := uint64(0xC11)
		// write side
		for back := 0; back <= 20; back++ {
			pos := wbufSize - back
			for ti, tl := range tails {
				for fi, fr := range fragSets {
					if fi >= 4 && back > 6 {
						continue
					}
					small := fi >= 1 && fi <= 3
					if small && (ti >= len(tails)-2 || back%2 == 1 && back > 8) {
						continue // large payloads through tiny fragments: cost only
					}
					for variant := 0; variant < 2; variant++ {
						if small && variant == 1 {
							continue
						}
						var ops []Op
						if variant == 1 {
							// a flushed (and acknowledged) prefix first:
							// the buffer in use is then not the first
							// one of the ring
							ops = append(ops, Op{K: kU16, V: 7}, Op{K: kFlush, W: true})
						}
						ops = append(ops, Op{K: kData, N: pos - 4})
						ops = append(ops, tl.ops(pos)...)
						ops = append(ops, Op{K: kU16, V: 0x1234})
						cs := Case{Seed: seed, AB: Dir{Ops: ops, Frags: fr}}
						if variant == 1 {
							cs.BA = Dir{Ops: []Op{{K: kByte, V: 1}}}
						}
						seed++
						if !yield(cs) {
							return
						}
					}
				}
			}
		}
		// read side
		for back := 0; back <= 19; back++ {
			for _, tl := range tails[:9] {
				for variant := 0; variant < 3; variant++ {
					prefix := rbufSize - back - 4
					ops := []Op{{K: kData, N: prefix}}
					ops = append(ops, tl.ops(0)...)
					ops = append(ops, Op{K: kU32, V: 0x01020304}, Op{K: kLabel, V: 2})
					d := Dir{Ops: ops}
					switch variant {
					case 0:
						d.Late = true
					case 1:
						d.Late = true
						d.Frags = []int{rbufSize - 1, 1, 2}
					case 2:
						d.Frags = []int{rbufSize - back - 1, 1, 3, 2}
					}
					cs := Case{Seed: seed, BA: d}
					seed++
					if !yield(cs) {
						return
					}
				}
			}
		}
	}, runEdge)
	ev.Register("edges", run)
}
