// C03: the compiled circuit computes what the MPCL program means.
package c03

import (
	"fmt"
	"math/big"
	"strings"
	"testing"

	"github.com/markkurossi/mpc/circuit"
	"github.com/markkurossi/mpc/compiler"
	"github.com/markkurossi/mpc/compiler/utils"
	"pgregory.net/rapid"

	"verifharness/internal/ev"
	"verifharness/internal/mpcl"
)

const prop = "C03"

// Case is a program and a list of input vectors (one hex bit pattern per
// parameter of main; arrays packed little-endian element by element).
type Case struct {
	Prog   *mpcl.Prog `json:"prog"`
	Inputs [][]string `json:"inputs"`
}

func genCase(t *rapid.T) Case {
	o := mpcl.Opts{MaxStmts: 10, MaxDepth: 3, Helpers: 2, Arrays: true,
		Structs: true, Loops: true, ArrayParams: true, DynIndex: true, StructParams: true, PlainDiv: true, PkgConsts: true}
	p := mpcl.Draw(t, o)
	return Case{Prog: p, Inputs: mpcl.DrawInputs(t, p, 8)}
}

func run(cs Case) ev.Outcome {
	return Check(cs.Prog, cs.Inputs, utils.NewParams())
}

// Check compiles the program and compares Compute with the interpreter.
func Check(p *mpcl.Prog, inputs [][]string, params *utils.Params) ev.Outcome {
	src := p.Source()
	circ, _, err := compiler.New(params).Compile(src, nil)
	if err != nil {
		return ev.Fail("compile-error/"+errClass(err), "compile error: %v\n%s", err, src)
	}
	main := p.Main()
	nontrivialInput := false
	for _, vec := range inputs {
		args, packed, err := mpcl.ParseInputs(p, vec)
		if err != nil {
			return ev.Outcome{Skip: "bad input vector: " + err.Error()}
		}
		want, err := p.Run(args)
		if mpcl.IsDivZero(err) {
			ev.Get(prop).Count("input-vectors-skipped-division-by-zero", 1)
			continue
		}
		if err != nil {
			return ev.Outcome{Skip: "interpreter: " + err.Error()}
		}
		cin, err := mpcl.CircuitInputs(circ, packed)
		if err != nil {
			return ev.Fail("io-shape", "%v\n%s", err, src)
		}
		got, err := circ.Compute(cin)
		if err != nil {
			return ev.Fail("compute-error", "Compute: %v\n%s", err, src)
		}
		if len(got) != len(main.Results) {
			return ev.Fail("arity", "circuit has %d outputs, main returns %d values\n%s",
				len(got), len(main.Results), src)
		}
		for i, r := range main.Results {
			exp := p.Pack(r, want[i])
			if int(circ.Outputs[i].Type.Bits) != p.Bits(r) {
				return ev.Fail("output-width", "output %d has %d bits, type %s has %d\n%s",
					i, circ.Outputs[i].Type.Bits, r, p.Bits(r), src)
			}
			if got[i].Cmp(exp) != 0 {
				return ev.Fail("wrong-result/"+mpcl.Features(p).Sig(),
					"inputs %v: result %d (%s) = 0x%s, interpreter gives 0x%s\n%s",
					vec, i, r, got[i].Text(16), exp.Text(16), src)
			}
		}
		for _, v := range packed {
			if v.Sign() != 0 {
				nontrivialInput = true
			}
		}
	}
	f := mpcl.Features(p)
	out := ev.OK(f.Nontrivial() && nontrivialInput, f.Classes()...)
	out.Evals = len(inputs)
	out.Sample = map[string]interface{}{"source": src, "inputs": inputs}
	return out
}

func errClass(err error) string {
	s := err.Error()
	// Strip the position prefix "{data}:L:C: ".
	if i := strings.Index(s, ": "); i >= 0 && strings.HasPrefix(s, "{") {
		s = s[i+2:]
	}
	words := strings.Fields(s)
	if len(words) > 4 {
		words = words[:4]
	}
	return strings.Join(words, "_")
}

func init() { ev.Register("program", run) }

func TestProgram(t *testing.T) {
	ev.Check(t, ev.Get(prop), "program", genCase, run)
}

// genPhi draws a branch-merging program (see mpcl.DrawPhiProg).
func genPhi(t *rapid.T) Case {
	p := mpcl.DrawPhiProg(t, rapid.IntRange(2, 3).Draw(t, "nparams"))
	return Case{Prog: p, Inputs: mpcl.DrawInputsN(t, p, 12, 24)}
}

func TestPhi(t *testing.T) {
	ev.Check(t, ev.Get(prop), "program", genPhi, run)
}

func TestReplay(t *testing.T) { ev.Replay(t, ev.Get(prop)) }

var _ = fmt.Sprint
var _ = big.NewInt
var _ *circuit.Circuit
