package c03

// Unit negconst: negative literals in signed contexts.
//
// The general program generator draws literals from [0, 2^(N-1)); this unit
// covers the other half: one-statement programs in which a negative literal
// meets a value of type intN - as an operand, as an initialiser, in one arm of
// a branch, as a call argument, as a result.  Up to 32 bits the compiled
// circuit must agree with the interpreter or the compiler must reject the
// program ("cannot use ..." for a literal it considers too wide).  Above 32
// bits the pinned tree reads the literal as its 32-bit pattern (-5 becomes
// 4294967291: an untyped constant is an mpa.Int without signedness, the C12
// root cause); a mismatch is that known finding exactly when every output
// equals what the interpreter computes for the literal 2^32+k, anything else is
// a violation of its own.

import (
	"fmt"
	"math/big"
	"strings"
	"testing"

	"github.com/markkurossi/mpc/compiler"
	"github.com/markkurossi/mpc/compiler/utils"
	"pgregory.net/rapid"

	"verifharness/internal/ev"
	"verifharness/internal/gen"
	"verifharness/internal/mpcl"
)

// NegCase is one template instance.
type NegCase struct {
	Form   string     `json:"form"`
	W      int        `json:"w"`
	Op     string     `json:"op,omitempty"`
	K      string     `json:"k"` // negative decimal literal
	Swap   bool       `json:"swap,omitempty"`
	Inputs [][]string `json:"inputs"`
}

var (
	negForms  = []string{"binop", "binop", "binop", "var", "phi", "assign", "ret", "arg", "opassign"}
	negOps    = []string{"+", "-", "*", "/", "%", "&", "|", "^", "<", "<=", ">", ">=", "==", "!="}
	negWidths = []int{8, 13, 16, 24, 31, 32, 33, 40, 63, 64, 65, 100}
	negMags   = []string{"1", "2", "3", "5", "7", "100", "127", "128", "255", "256", "32767", "32768",
		"65536", "2147483647", "2147483648"}
)

func buildNeg(cs NegCase, lit string) *mpcl.Prog {
	T := mpcl.Int(cs.W)
	a := &mpcl.Expr{Op: mpcl.EVar, T: T, Name: "a"}
	b := &mpcl.Expr{Op: mpcl.EVar, T: T, Name: "b"}
	k := &mpcl.Expr{Op: mpcl.ELit, T: T, Val: lit}
	ret := func(es ...*mpcl.Expr) *mpcl.Stmt { return &mpcl.Stmt{K: mpcl.SReturn, Es: es} }
	bin := func(op string, R mpcl.Type, l, r *mpcl.Expr) *mpcl.Expr {
		return &mpcl.Expr{Op: mpcl.EBin, T: R, Name: op, A: []*mpcl.Expr{l, r}}
	}
	main := &mpcl.Func{Name: "main", Params: []mpcl.Param{{Name: "a", T: T}, {Name: "b", T: T}}}
	p := &mpcl.Prog{Funcs: []*mpcl.Func{main}}
	switch cs.Form {
	case "binop":
		R := T
		switch cs.Op {
		case "<", "<=", ">", ">=", "==", "!=":
			R = mpcl.Bool()
		}
		l, r := a, k
		if cs.Swap && cs.Op != "/" && cs.Op != "%" {
			l, r = k, a
		}
		main.Results = []mpcl.Type{R, T}
		main.Body = []*mpcl.Stmt{ret(bin(cs.Op, R, l, r), b)}
	case "var":
		Tc := T
		main.Results = []mpcl.Type{T, T}
		main.Body = []*mpcl.Stmt{{K: mpcl.SVar, Name: "c", T: &Tc, E: k},
			ret(bin("+", T, &mpcl.Expr{Op: mpcl.EVar, T: T, Name: "c"}, a), b)}
	case "phi":
		zero := &mpcl.Expr{Op: mpcl.ELit, T: T, Val: "0"}
		d := &mpcl.Expr{Op: mpcl.EVar, T: T, Name: "d"}
		main.Results = []mpcl.Type{T, T}
		main.Body = []*mpcl.Stmt{{K: mpcl.SDefine, Name: "d", E: a},
			{K: mpcl.SIf, E: bin(">", mpcl.Bool(), b, zero), Then: []*mpcl.Stmt{{K: mpcl.SAssign, Name: "d", E: k}}},
			ret(d, bin("^", T, d, b))}
	case "assign":
		d := &mpcl.Expr{Op: mpcl.EVar, T: T, Name: "d"}
		main.Results = []mpcl.Type{T, T}
		main.Body = []*mpcl.Stmt{{K: mpcl.SDefine, Name: "d", E: a}, {K: mpcl.SAssign, Name: "d", E: k},
			ret(bin("+", T, d, b), a)}
	case "opassign":
		d := &mpcl.Expr{Op: mpcl.EVar, T: T, Name: "d"}
		op := cs.Op
		switch op {
		case "+", "-", "*", "&", "|", "^":
		default:
			op = "+"
		}
		main.Results = []mpcl.Type{T, T}
		main.Body = []*mpcl.Stmt{{K: mpcl.SDefine, Name: "d", E: a}, {K: mpcl.SOpAssign, Name: "d", Op: op, E: k},
			ret(d, b)}
	case "ret":
		main.Results = []mpcl.Type{T, T}
		main.Body = []*mpcl.Stmt{ret(k, bin("^", T, a, b))}
	case "arg":
		x := &mpcl.Expr{Op: mpcl.EVar, T: T, Name: "x"}
		y := &mpcl.Expr{Op: mpcl.EVar, T: T, Name: "y"}
		f := &mpcl.Func{Name: "f0", Params: []mpcl.Param{{Name: "x", T: T}, {Name: "y", T: T}},
			Results: []mpcl.Type{T}, Body: []*mpcl.Stmt{ret(bin("-", T, x, y))}}
		p.Funcs = []*mpcl.Func{f, main}
		main.Results = []mpcl.Type{T, T}
		main.Body = []*mpcl.Stmt{ret(&mpcl.Expr{Op: mpcl.ECall, T: T, Name: "f0", A: []*mpcl.Expr{k, a}}, b)}
	default:
		return nil
	}
	return p
}

func genNeg(t *rapid.T) NegCase {
	cs := NegCase{Form: negForms[gen.Uniform(t, len(negForms), "form")],
		W:  negWidths[gen.Uniform(t, len(negWidths), "w")],
		Op: negOps[gen.Uniform(t, len(negOps), "op")]}
	// |k| <= 2^(W-1), so that k is a value of intW.
	lim := new(big.Int).Lsh(big.NewInt(1), uint(cs.W-1))
	for {
		m, _ := new(big.Int).SetString(negMags[gen.Uniform(t, len(negMags), "mag")], 10)
		if m.Cmp(lim) <= 0 {
			cs.K = "-" + m.String()
			break
		}
	}
	cs.Swap = rapid.Bool().Draw(t, "swap")
	p := buildNeg(cs, cs.K)
	cs.Inputs = mpcl.DrawInputsN(t, p, 10, 24)
	return cs
}

func runNeg(cs NegCase) ev.Outcome {
	if cs.W < 2 || cs.W > 130 || !strings.HasPrefix(cs.K, "-") {
		return ev.Outcome{Skip: "malformed case"}
	}
	kv, ok := new(big.Int).SetString(cs.K, 10)
	if !ok || kv.Sign() >= 0 || new(big.Int).Neg(kv).Cmp(new(big.Int).Lsh(big.NewInt(1), uint(cs.W-1))) > 0 {
		return ev.Outcome{Skip: "literal is not a negative value of the type"}
	}
	p := buildNeg(cs, cs.K)
	if p == nil {
		return ev.Outcome{Skip: "unknown form"}
	}
	src := p.Source()
	wclass := "w<=32"
	if cs.W > 32 {
		wclass = "w>32"
	}
	classes := []string{"negconst:form=" + cs.Form, "negconst:" + wclass}
	circ, _, err := compiler.New(utils.NewParams()).Compile(src, nil)
	if err != nil {
		msg := err.Error()
		// Below 32 bits the compiler types the literal int32 and refuses to
		// narrow it in most positions; the program has no other int32.
		if cs.W < 32 && strings.Contains(msg, "int32") {
			// A clean rejection produces no circuit.
			ev.Get(prop).Count("negconst-rejected-by-compiler/"+wclass, 1)
			out := ev.OK(false, append(classes, "negconst:rejected")...)
			return out
		}
		return ev.Fail("negconst/compile-error/"+errClass(err), "compile error: %v\n%s", err, src)
	}
	// The program the pinned tree effectively compiles above 32 bits: the
	// literal read as its 32-bit pattern.
	var alt *mpcl.Prog
	if cs.W > 32 && new(big.Int).Neg(kv).Cmp(new(big.Int).Lsh(big.NewInt(1), 31)) <= 0 {
		alt = buildNeg(cs, new(big.Int).Add(new(big.Int).Lsh(big.NewInt(1), 32), kv).String())
	}
	main := p.Main()
	mismatch, altAgrees := "", alt != nil
	evals := 0
	for _, vec := range cs.Inputs {
		args, packed, err := mpcl.ParseInputs(p, vec)
		if err != nil {
			return ev.Outcome{Skip: "bad input vector: " + err.Error()}
		}
		want, err := p.Run(args)
		if mpcl.IsDivZero(err) {
			continue
		}
		if err != nil {
			return ev.Outcome{Skip: "interpreter: " + err.Error()}
		}
		cin, err := mpcl.CircuitInputs(circ, packed)
		if err != nil {
			return ev.Fail("io-shape", "%v\n%s", err, src)
		}
		got, err := circ.Compute(cin)
		if err != nil {
			return ev.Fail("compute-error", "%v", err)
		}
		evals++
		var wantAlt []mpcl.Value
		if alt != nil {
			wantAlt, err = alt.Run(args)
			if err != nil {
				altAgrees = false
			}
		}
		for i, r := range main.Results {
			exp := p.Pack(r, want[i])
			if i >= len(got) || got[i].Cmp(exp) != 0 {
				if mismatch == "" {
					g := "<missing>"
					if i < len(got) {
						g = "0x" + got[i].Text(16)
					}
					mismatch = fmt.Sprintf("inputs %v: result %d (%s) = %s, interpreter gives 0x%s", vec, i, r, g, exp.Text(16))
				}
			}
			if wantAlt != nil && (i >= len(got) || got[i].Cmp(alt.Pack(r, wantAlt[i])) != 0) {
				altAgrees = false
			}
		}
	}
	if mismatch != "" {
		if altAgrees {
			return ev.Fail("negconst/w>32/literal-read-as-32bit-pattern",
				"%s (every output equals the program with the literal %s replaced by 2^32%s)\n%s", mismatch, cs.K, cs.K, src)
		}
		return ev.Fail("negconst/"+wclass+"/"+cs.Form+"/wrong", "%s\n%s", mismatch, src)
	}
	out := ev.OK(true, classes...)
	out.Evals = evals
	out.Sample = map[string]interface{}{"source": src, "inputs": len(cs.Inputs)}
	return out
}

func init() { ev.Register("negconst", runNeg) }

func TestNegConst(t *testing.T) {
	ev.Check(t, ev.Get(prop), "negconst", genNeg, runNeg)
}
