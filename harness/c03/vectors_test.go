package c03

import (
	"fmt"
	"math/big"
	"os"
	"path/filepath"
	"reflect"
	"regexp"
	"sort"
	"strings"
	"testing"

	"github.com/markkurossi/mpc"
	"github.com/markkurossi/mpc/circuit"
	"github.com/markkurossi/mpc/compiler"
	"github.com/markkurossi/mpc/compiler/utils"

	"verifharness/internal/ev"
)

// VecCase is one @Test annotation of one program shipped in /repo/testsuite.
type VecCase struct {
	File  string `json:"file"` // relative to the repository root
	Index int    `json:"index"`
	Line  string `json:"line"`
	Hex   bool   `json:"hex"`
	LSB   bool   `json:"lsb"`
}

func repoRoot() string {
	if d := os.Getenv("MPCLDIR"); d != "" {
		return d
	}
	return "/repo"
}

var reWS = regexp.MustCompile(`\s+`)

func reverseHex(val string) string {
	var prefix string
	if strings.HasPrefix(val, "0x") {
		val = val[2:]
		prefix = "0x"
	}
	var result string
	for i := len(val) - 2; i >= 0; i -= 2 {
		result += val[i : i+2]
	}
	if len(val)%2 == 1 {
		result += val[0:1]
	}
	return prefix + result
}

// annotations returns the comment lines that directly precede `func main(`.
func annotations(src string) []string {
	lines := strings.Split(src, "\n")
	for i, l := range lines {
		if strings.HasPrefix(l, "func main(") {
			var ann []string
			for j := i - 1; j >= 0 && strings.HasPrefix(strings.TrimSpace(lines[j]), "//"); j-- {
				ann = append([]string{strings.TrimSpace(strings.TrimPrefix(strings.TrimSpace(lines[j]), "//"))}, ann...)
			}
			return ann
		}
	}
	return nil
}

type compKey struct {
	file  string
	sizes string
}

var vecCache = map[compKey]*circuit.Circuit{}

func runVector(cs VecCase) ev.Outcome {
	path := filepath.Join(repoRoot(), cs.File)
	parts := reWS.Split(strings.TrimSpace(cs.Line), -1)
	var inputValues [][]string
	var inputs, outputs []*big.Int
	sep := false
	for i := 1; i < len(parts); i++ {
		part := parts[i]
		if part == "=" {
			sep = true
			continue
		}
		var iv []string
		for _, input := range strings.Split(part, ",") {
			var v *big.Int
			if input != "_" {
				v = new(big.Int)
				if cs.Hex && cs.LSB {
					input = reverseHex(input)
				}
				if _, ok := v.SetString(input, 0); !ok {
					return ev.Outcome{Skip: "unparsable annotation value"}
				}
			}
			if sep {
				outputs = append(outputs, v)
			} else {
				iv = append(iv, input)
				inputs = append(inputs, v)
			}
		}
		if !sep {
			inputValues = append(inputValues, iv)
		}
	}
	var inputSizes [][]int
	for _, iv := range inputValues {
		sizes, err := circuit.InputSizes(iv)
		if err != nil {
			return ev.Outcome{Skip: "InputSizes: " + err.Error()}
		}
		inputSizes = append(inputSizes, sizes)
	}
	key := compKey{cs.File, fmt.Sprint(inputSizes)}
	circ, ok := vecCache[key]
	if !ok {
		var err error
		circ, _, err = compiler.New(utils.NewParams()).CompileFile(path, inputSizes)
		if err != nil {
			return ev.Fail("vector/compile-error/"+cs.File, "%s: compile error: %v", cs.File, err)
		}
		vecCache[key] = circ
	}
	results, err := circ.Compute(inputs)
	if err != nil {
		return ev.Fail("vector/compute-error/"+cs.File, "%s: Compute: %v", cs.File, err)
	}
	if len(results) != len(outputs) {
		return ev.Fail("vector/arity/"+cs.File, "%s: got %d results, annotation has %d",
			cs.File, len(results), len(outputs))
	}
	for idx := range results {
		out := circ.Outputs[idx]
		rr := mpc.Result(cp(results[idx]), out)
		re := mpc.Result(cp(outputs[idx]), out)
		if !reflect.DeepEqual(rr, re) {
			return ev.Fail("vector/mismatch/"+cs.File, "%s @Test #%d (%s): result %d = %v, expected %v",
				cs.File, cs.Index, cs.Line, idx, rr, re)
		}
	}
	o := ev.OK(true, "dir="+filepath.Base(filepath.Dir(cs.File)))
	o.Key = fmt.Sprintf("%s#%d", cs.File, cs.Index)
	return o
}

// cp copies a value (mpc.Result may modify its argument); "_" stays nil.
func cp(v *big.Int) *big.Int {
	if v == nil {
		return nil
	}
	return new(big.Int).Set(v)
}

func init() { ev.Register("vectors", runVector) }

// heavy lists programs that are only run in the thorough tier (measured
// compile time above a few seconds).
var heavyDirs = map[string]bool{}

func TestVectors(t *testing.T) {
	col := ev.Get(prop)
	root := repoRoot()
	var files []string
	filepath.Walk(filepath.Join(root, "testsuite"), func(p string, info os.FileInfo, err error) error {
		if err == nil && !info.IsDir() && strings.HasSuffix(p, ".mpcl") {
			files = append(files, p)
		}
		return nil
	})
	sort.Strings(files)
	// Environment: pkg/crypto/sha512/sha512.circ|.mpclc are zero-length in
	// this sandbox; programs that need them cannot compile here.
	sha512Empty := false
	if st, err := os.Stat(filepath.Join(root, "pkg/crypto/sha512/sha512.mpclc")); err == nil && st.Size() == 0 {
		sha512Empty = true
	}
	shard, nshards := ev.Shard()
	ev.Each(t, col, "vectors", func(yield func(VecCase) bool) {
		for fi, f := range files {
			if fi%nshards != shard {
				continue
			}
			data, err := os.ReadFile(f)
			if err != nil {
				continue
			}
			src := string(data)
			rel, _ := filepath.Rel(root, f)
			if sha512Empty && (strings.Contains(src, "crypto/sha512") || strings.Contains(src, "crypto/ed25519") ||
				strings.Contains(src, "crypto/hmac\"") && strings.Contains(src, "Sha512") || strings.Contains(rel, "sha512")) {
				col.Count("excluded_env_sha512_files", 1)
				continue
			}
			ann := annotations(src)
			heavy := false
			for _, a := range ann {
				if strings.HasPrefix(a, "@heavy") {
					heavy = true
				}
			}
			if heavy && !col.Thorough() {
				col.Count("skipped_heavy_files_in_quick", 1)
				continue
			}
			hex, lsb := false, false
			idx := 0
			for _, a := range ann {
				switch {
				case strings.HasPrefix(a, "@Hex"):
					hex = true
				case strings.HasPrefix(a, "@LSB"):
					lsb = true
				case strings.HasPrefix(a, "@Test "):
					yield(VecCase{File: rel, Index: idx, Line: a, Hex: hex, LSB: lsb})
					idx++
				}
			}
		}
	}, runVector)
}
