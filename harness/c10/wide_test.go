package c10

import (
	"strings"
	"testing"

	"verifharness/internal/ev"
)

// TestWideLevel runs an AND level that is wider than a completely filled
// triple pool (33 batches of 8192 triples = 270336) after the parties have
// been idle between Connect and Run, so the offline dealer has filled the pool
// and gone to sleep: the online phase must wake it up again.  (One case is
// slow: hundreds of thousands of triples are dealt.)
func TestWideLevel(t *testing.T) {
	col := ev.Get(prop)
	ns := []int{2}
	if col.Thorough() {
		ns = []int{2, 3}
	}
	ev.Each(t, col, "protocol", func(yield func(Case) bool) {
		for _, n := range ns {
			w := 300000
			cs := Case{N: n, Fixed: "andtree", Width: w}
			for i := 0; i < n; i++ {
				// Alternating patterns; the AND of all is not constant.
				pat := []string{"f", "7", "d"}[i%3]
				cs.Inputs = append(cs.Inputs, "0x"+strings.Repeat(pat, w/4))
			}
			cs.Sched.JoinOrder = seq(1, n)
			cs.Sched.JoinDelay = make([]int, n)
			cs.Sched.ConnDelay = make([]int, n)
			cs.Sched.BodyDelay = make([]int, n)
			for i := range cs.Sched.BodyDelay {
				cs.Sched.BodyDelay[i] = 3000
			}
			yield(cs)
		}
	}, run)
}
