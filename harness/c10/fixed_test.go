package c10

// Hand-written n-party programs with known AND structure (several AND levels,
// AND batches whose size is not a multiple of 64, one level wider than a
// generated triple batch) and an independent math/big model each.

import (
	"fmt"
	"math/big"
	"regexp"
	"strconv"
	"strings"
)

type fixedProg struct {
	name   string
	signed bool
	// widths the program is instantiated with
	widths []int
	// body returns the result list and the statements of main for n parties.
	source func(n, w int) string
	// model computes the results from the (unsigned, w-bit) inputs; results
	// are bit patterns of the result types.
	model func(in []*big.Int, w int) []*big.Int
}

func maskW(w int) *big.Int {
	m := new(big.Int).Lsh(big.NewInt(1), uint(w))
	return m.Sub(m, big.NewInt(1))
}

func wrapW(v *big.Int, w int) *big.Int {
	return new(big.Int).And(v, maskW(w)) // big.Int.And is two's complement for negatives
}

func signedW(v *big.Int, w int) *big.Int {
	if v.Bit(w-1) == 1 {
		return new(big.Int).Sub(v, new(big.Int).Lsh(big.NewInt(1), uint(w)))
	}
	return new(big.Int).Set(v)
}

func header(n, w int, typ string, results string) string {
	var sb strings.Builder
	sb.WriteString("package main\n\nfunc main(")
	for i := 0; i < n; i++ {
		if i > 0 {
			sb.WriteString(", ")
		}
		fmt.Fprintf(&sb, "a%d %s%d", i, typ, w)
	}
	fmt.Fprintf(&sb, ") %s {\n", results)
	return sb.String()
}

var smallWidths = []int{1, 2, 7, 13, 24, 31, 32, 33, 63, 64, 65, 100, 127, 128, 130, 200}

var fixedProgs = []fixedProg{
	{
		// n-1 AND levels, every level one batch of w ANDs.
		name:   "andtree",
		widths: append(append([]int{}, smallWidths...), 4097, 5000),
		source: func(n, w int) string {
			var terms []string
			for i := 0; i < n; i++ {
				terms = append(terms, fmt.Sprintf("a%d", i))
			}
			return header(n, w, "uint", fmt.Sprintf("uint%d", w)) +
				"\treturn " + strings.Join(terms, " & ") + "\n}\n"
		},
		model: func(in []*big.Int, w int) []*big.Int {
			r := maskW(w)
			for _, v := range in {
				r.And(r, v)
			}
			return []*big.Int{r}
		},
	},
	{
		// No AND gate at all: only the local XOR / INV rules and the input
		// and output sharing are exercised (never counted as non-trivial).
		name:   "xor",
		widths: []int{1, 7, 64, 65, 130},
		source: func(n, w int) string {
			var terms []string
			for i := 0; i < n; i++ {
				terms = append(terms, fmt.Sprintf("a%d", i))
			}
			return header(n, w, "uint", fmt.Sprintf("(uint%d, uint%d)", w, w)) +
				"\treturn " + strings.Join(terms, " ^ ") + ", a0 ^ 1\n}\n"
		},
		model: func(in []*big.Int, w int) []*big.Int {
			r := new(big.Int)
			for _, v := range in {
				r.Xor(r, v)
			}
			return []*big.Int{r, new(big.Int).Xor(in[0], big.NewInt(1))}
		},
	},
	{
		// Multiplier: many levels, batches of very different sizes.
		name:   "mac",
		widths: []int{2, 3, 7, 8, 13, 16, 24, 33},
		source: func(n, w int) string {
			return header(n, w, "uint", fmt.Sprintf("uint%d", w)) +
				fmt.Sprintf("\treturn a0 * a1 + a%d\n}\n", n-1)
		},
		model: func(in []*big.Int, w int) []*big.Int {
			r := new(big.Int).Mul(in[0], in[1])
			r.Add(r, in[len(in)-1])
			return []*big.Int{wrapW(r, w)}
		},
	},
	{
		// Majority of three: ORs (eliminated for GMW), two results.
		name:   "maj",
		widths: append(append([]int{}, smallWidths...), 4097),
		source: func(n, w int) string {
			l := n - 1
			return header(n, w, "uint", fmt.Sprintf("(uint%d, uint%d)", w, w)) +
				fmt.Sprintf("\treturn (a0 & a1) | (a1 & a%d) | (a0 & a%d), a0 ^ a%d\n}\n", l, l, l)
		},
		model: func(in []*big.Int, w int) []*big.Int {
			a, b, c := in[0], in[1], in[len(in)-1]
			r := new(big.Int).And(a, b)
			r.Or(r, new(big.Int).And(b, c))
			r.Or(r, new(big.Int).And(a, c))
			return []*big.Int{r, new(big.Int).Xor(a, c)}
		},
	},
	{
		// Comparator, subtractors and a mux; XOR of the remaining inputs.
		name:   "absdiff",
		widths: smallWidths,
		source: func(n, w int) string {
			var sb strings.Builder
			sb.WriteString(header(n, w, "uint", fmt.Sprintf("uint%d", w)))
			fmt.Fprintf(&sb, "\tvar r uint%d\n\tif a0 < a1 {\n\t\tr = a1 - a0\n\t} else {\n\t\tr = a0 - a1\n\t}\n", w)
			sb.WriteString("\treturn r")
			for i := 2; i < n; i++ {
				fmt.Fprintf(&sb, " ^ a%d", i)
			}
			sb.WriteString("\n}\n")
			return sb.String()
		},
		model: func(in []*big.Int, w int) []*big.Int {
			r := new(big.Int).Sub(in[0], in[1])
			r.Abs(r)
			for _, v := range in[2:] {
				r.Xor(r, v)
			}
			return []*big.Int{r}
		},
	},
	{
		// Adder chain (parallel-prefix adders for GMW).
		name:   "sum",
		widths: smallWidths,
		source: func(n, w int) string {
			var terms []string
			for i := 0; i < n; i++ {
				terms = append(terms, fmt.Sprintf("a%d", i))
			}
			return header(n, w, "uint", fmt.Sprintf("uint%d", w)) +
				"\treturn " + strings.Join(terms, " + ") + "\n}\n"
		},
		model: func(in []*big.Int, w int) []*big.Int {
			r := new(big.Int)
			for _, v := range in {
				r.Add(r, v)
			}
			return []*big.Int{wrapW(r, w)}
		},
	},
	{
		// AND, shift, XOR, add per input, two rounds: deep and mixed.
		name:   "mix",
		widths: []int{2, 7, 13, 24, 33, 65, 100},
		source: func(n, w int) string {
			var sb strings.Builder
			sb.WriteString(header(n, w, "uint", fmt.Sprintf("uint%d", w)))
			sb.WriteString("\tx := a0\n")
			for round := 0; round < 2; round++ {
				for i := 1; i < n; i++ {
					fmt.Fprintf(&sb, "\tx = ((x & a%d) ^ (x >> 1)) + a%d\n", i, i)
				}
			}
			sb.WriteString("\treturn x\n}\n")
			return sb.String()
		},
		model: func(in []*big.Int, w int) []*big.Int {
			x := new(big.Int).Set(in[0])
			for round := 0; round < 2; round++ {
				for _, a := range in[1:] {
					t := new(big.Int).And(x, a)
					t.Xor(t, new(big.Int).Rsh(x, 1))
					t.Add(t, a)
					x = wrapW(t, w)
				}
			}
			return []*big.Int{x}
		},
	},
	{
		// Unsigned division and remainder by a non-zero divisor (the GMW
		// target uses its own, very deep, divider circuit).
		name:   "divmod",
		widths: []int{2, 7, 8, 13, 16, 24},
		source: func(n, w int) string {
			return header(n, w, "uint", fmt.Sprintf("(uint%d, uint%d)", w, w)) +
				fmt.Sprintf("\td := a1 | 1\n\treturn a0 / d, a%d %% d\n}\n", n-1)
		},
		model: func(in []*big.Int, w int) []*big.Int {
			d := new(big.Int).Or(in[1], big.NewInt(1))
			return []*big.Int{new(big.Int).Quo(in[0], d), new(big.Int).Rem(in[len(in)-1], d)}
		},
	},
	{
		// Signed minimum of all inputs: signed comparators and muxes.
		name:   "smin",
		signed: true,
		widths: []int{2, 7, 13, 24, 33, 64, 65, 100},
		source: func(n, w int) string {
			var sb strings.Builder
			sb.WriteString(header(n, w, "int", fmt.Sprintf("int%d", w)))
			sb.WriteString("\tm := a0\n")
			for i := 1; i < n; i++ {
				fmt.Fprintf(&sb, "\tif a%d < m {\n\t\tm = a%d\n\t}\n", i, i)
			}
			sb.WriteString("\treturn m\n}\n")
			return sb.String()
		},
		model: func(in []*big.Int, w int) []*big.Int {
			m := signedW(in[0], w)
			for _, v := range in[1:] {
				s := signedW(v, w)
				if s.Cmp(m) < 0 {
					m = s
				}
			}
			return []*big.Int{wrapW(m, w)}
		},
	},
}

func fixedByName(name string) *fixedProg {
	for i := range fixedProgs {
		if fixedProgs[i].name == name {
			return &fixedProgs[i]
		}
	}
	return nil
}

var paramRef = regexp.MustCompile(`\ba[0-9]+\b`)

// rotateParams rewrites the body of a hand-written program so that it refers
// to parameter a[(i+rot) mod n] where it referred to a[i]; the parameter list
// itself is unchanged.
func rotateParams(src string, n, rot int) string {
	if rot == 0 {
		return src
	}
	i := strings.Index(src, "{\n")
	if i < 0 {
		return src
	}
	return src[:i] + paramRef.ReplaceAllStringFunc(src[i:], func(m string) string {
		k, _ := strconv.Atoi(m[1:])
		return fmt.Sprintf("a%d", (k+rot)%n)
	})
}
