package c10

// In-process GMW networks over loopback TCP: port allocation, the drawn
// start schedule, per-party goroutines, the watchdog and the teardown.

import (
	"fmt"
	"net"
	"runtime/debug"
	"strings"
	"sync"
	"sync/atomic"
	"time"

	"github.com/markkurossi/mpc/gmw"
)

// Sched is the drawn start schedule of one network.  All delays are in
// milliseconds and indexed by party id.
type Sched struct {
	// JoinOrder is a permutation of 1..n-1: the order in which the joiners
	// call JoinNetwork (the leader is created first, JoinNetwork dials it).
	JoinOrder []int `json:"join_order"`
	// JoinDelay[p] is slept before party p is created / joins.
	JoinDelay []int `json:"join_delay"`
	// ConnDelay[p] is slept by party p before Connect.
	ConnDelay []int `json:"conn_delay"`
	// BodyDelay[p] is slept by party p between Connect and Run / the first Get.
	BodyDelay []int `json:"body_delay"`
}

func (s Sched) String() string {
	return fmt.Sprintf("join order [0 %s], delay before create/join %v ms, before Connect %v ms, before Run/Get %v ms",
		strings.Trim(fmt.Sprint(s.JoinOrder), "[]"), s.JoinDelay, s.ConnDelay, s.BodyDelay)
}

func (s Sched) valid(n int) bool {
	if len(s.JoinOrder) != n-1 || len(s.JoinDelay) != n || len(s.ConnDelay) != n ||
		len(s.BodyDelay) != n {
		return false
	}
	seen := make([]bool, n)
	for _, id := range s.JoinOrder {
		if id < 1 || id >= n || seen[id] {
			return false
		}
		seen[id] = true
	}
	for _, l := range [][]int{s.JoinDelay, s.ConnDelay, s.BodyDelay} {
		for _, d := range l {
			if d < 0 || d > 10000 {
				return false
			}
		}
	}
	return true
}

type party struct {
	id    int
	nw    *gmw.Network
	once  sync.Once
	cerr  error
	cdone chan struct{}
	phase atomic.Value // string
}

// close calls Network.Close exactly once (a second call would wait forever
// for the triple pool's completion value).  It may be called from any
// goroutine; every caller waits for the one call to finish.
func (p *party) close() error {
	p.once.Do(func() {
		defer close(p.cdone)
		defer func() {
			if r := recover(); r != nil {
				p.cerr = fmt.Errorf("panic in Close: %v", r)
			}
		}()
		p.cerr = p.nw.Close()
	})
	<-p.cdone
	return p.cerr
}

// netResult is the outcome of one network execution.
type netResult struct {
	kind string // "ok", "infra", "fail", "timeout"
	sig  string
	msg  string
}

type partyDone struct {
	id  int
	sig string
	err string
}

func sleepMs(ms int) {
	if ms > 0 {
		time.Sleep(time.Duration(ms) * time.Millisecond)
	}
}

// freeAddrs asks the kernel for n free loopback ports.  The listeners are
// closed again because gmw.CreateNetwork / JoinNetwork listen themselves and
// the joiners' addresses must be concrete (they are distributed by the
// leader and dialled by the other parties).
func freeAddrs(n int) ([]string, error) {
	var ls []net.Listener
	var addrs []string
	defer func() {
		for _, l := range ls {
			l.Close()
		}
	}()
	for i := 0; i < n; i++ {
		l, err := net.Listen("tcp", "127.0.0.1:0")
		if err != nil {
			return nil, err
		}
		ls = append(ls, l)
		addrs = append(addrs, l.Addr().String())
	}
	return addrs, nil
}

func isInfra(err error) bool {
	s := err.Error()
	return strings.Contains(s, "address already in use") ||
		strings.Contains(s, "too many open files") ||
		strings.Contains(s, "cannot assign requested address")
}

func errClass(err string) string {
	// Drop addresses and numbers so that signatures stay few.
	var sb strings.Builder
	words := strings.Fields(err)
	for i, w := range words {
		if i >= 6 {
			break
		}
		if strings.ContainsAny(w, "0123456789") {
			w = "#"
		}
		if sb.Len() > 0 {
			sb.WriteByte('_')
		}
		sb.WriteString(strings.Trim(w, ":,"))
	}
	return sb.String()
}

// runNet creates an n-party GMW network according to the schedule; every
// party calls Connect(sizes[p]) and then body(p, nw).  After body returned
// the party closes its network.  The first failure of any party ends the
// execution (the remaining parties would wait forever for the failed one);
// all networks are then closed from the outside.
func runNet(n int, sc Sched, sizes [][]int, budget time.Duration,
	body func(p int, nw *gmw.Network) (sig string, err error)) netResult {

	if n < 2 || !sc.valid(n) || len(sizes) != n {
		return netResult{kind: "infra", msg: "malformed case"}
	}
	addrs, err := freeAddrs(n)
	if err != nil {
		return netResult{kind: "infra", msg: "port allocation: " + err.Error()}
	}

	parties := make([]*party, n)
	done := make(chan partyDone, n)
	var wg sync.WaitGroup

	teardown := func() {
		for _, p := range parties {
			if p != nil {
				go p.close()
			}
		}
		// Give the party goroutines a moment to return; whatever is still
		// blocked after that is leaked (it only happens after a failure).
		ch := make(chan struct{})
		go func() { wg.Wait(); close(ch) }()
		select {
		case <-ch:
		case <-time.After(3 * time.Second):
			leaked.Add(1)
		}
	}

	partyMain := func(p *party) {
		defer wg.Done()
		res := partyDone{id: p.id}
		defer func() {
			if r := recover(); r != nil {
				res.sig = "panic/party-goroutine"
				res.err = fmt.Sprintf("party %d panicked in phase %v: %v\n%s", p.id,
					p.phase.Load(), r, shortStack())
			}
			done <- res
		}()
		sleepMs(sc.ConnDelay[p.id])
		p.phase.Store("Connect")
		if err := p.nw.Connect(sizes[p.id]); err != nil {
			res.sig = "connect/error/" + errClass(err.Error())
			res.err = fmt.Sprintf("party %d: Connect: %v", p.id, err)
			return
		}
		if got := p.nw.NumParties(); got != n {
			res.sig = "connect/num-parties"
			res.err = fmt.Sprintf("party %d: NumParties() = %d after Connect, want %d", p.id, got, n)
			return
		}
		if got := p.nw.InputSizes(); fmt.Sprint(got) != fmt.Sprint(sizes) {
			res.sig = "connect/input-sizes"
			res.err = fmt.Sprintf("party %d: InputSizes() = %v after Connect, the parties passed %v",
				p.id, got, sizes)
			return
		}
		sleepMs(sc.BodyDelay[p.id])
		p.phase.Store("Run/Get")
		if sig, err := body(p.id, p.nw); err != nil {
			res.sig = sig
			res.err = fmt.Sprintf("party %d: %v", p.id, err)
			return
		}
		p.phase.Store("Close")
		if err := p.close(); err != nil {
			res.sig = "close/error/" + errClass(err.Error())
			res.err = fmt.Sprintf("party %d: Close after a successful run: %v", p.id, err)
			return
		}
		p.phase.Store("done")
	}

	start := func(id int, nw *gmw.Network) {
		p := &party{id: id, nw: nw, cdone: make(chan struct{})}
		p.phase.Store("created")
		parties[id] = p
		wg.Add(1)
		go partyMain(p)
	}

	// Leader first, then the joiners in the drawn order.
	sleepMs(sc.JoinDelay[0])
	nw, err := gmw.CreateNetwork(addrs[0], n)
	if err != nil {
		if isInfra(err) {
			return netResult{kind: "infra", msg: "CreateNetwork: " + err.Error()}
		}
		return netResult{kind: "fail", sig: "create/error/" + errClass(err.Error()),
			msg: "CreateNetwork: " + err.Error()}
	}
	start(0, nw)
	for _, id := range sc.JoinOrder {
		sleepMs(sc.JoinDelay[id])
		nw, err := gmw.JoinNetwork(addrs[0], addrs[id], id)
		if err != nil {
			teardown()
			if isInfra(err) {
				return netResult{kind: "infra", msg: "JoinNetwork: " + err.Error()}
			}
			return netResult{kind: "fail", sig: "join/error/" + errClass(err.Error()),
				msg: fmt.Sprintf("JoinNetwork(party %d): %v", id, err)}
		}
		start(id, nw)
	}

	timer := time.NewTimer(budget)
	defer timer.Stop()
	for finished := 0; finished < n; {
		select {
		case r := <-done:
			if r.err != "" {
				teardown()
				return netResult{kind: "fail", sig: r.sig, msg: r.err}
			}
			finished++
		case <-timer.C:
			var ph []string
			for _, p := range parties {
				ph = append(ph, fmt.Sprintf("party %d in %v", p.id, p.phase.Load()))
			}
			teardown()
			first := "done"
			for _, name := range []string{"created", "Connect", "Run/Get", "Close"} {
				for _, p := range parties {
					if first == "done" && p.phase.Load() == name {
						first = name
					}
				}
			}
			return netResult{kind: "timeout", sig: "hang/" + first,
				msg: fmt.Sprintf("no completion within %v: %s", budget, strings.Join(ph, ", "))}
		}
	}
	wg.Wait()
	return netResult{kind: "ok"}
}

var leaked atomic.Int64

func shortStack() string {
	lines := strings.Split(string(debug.Stack()), "\n")
	var keep []string
	for _, l := range lines {
		if strings.Contains(l, "markkurossi/mpc") {
			keep = append(keep, strings.TrimSpace(l))
		}
		if len(keep) >= 8 {
			break
		}
	}
	return strings.Join(keep, "\n")
}
