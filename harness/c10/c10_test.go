// C10: GMW — every party outputs f(inputs); the dealt triples are valid.
//
// Unit protocol: n in 2..5 parties run gmw.Network over loopback TCP inside
// this process on an n-party circuit compiled for utils.TargetGMW (+
// AssignLevels, exactly as apps/garbled does).  Every party's Run must return
// nil and outputs equal to Circuit.Compute of the same circuit and to an
// independent model of the program (the shared MPCL interpreter, or a math/big
// closure for the hand-written programs).
//
// Unit triples: after Connect every party asks its TriplePool for the same
// sequence of sizes; for every delivered word
// (xor_i A_i) & (xor_i B_i) == xor_i C_i.
package c10

import (
	"encoding/json"
	"fmt"
	"math/big"
	"strings"
	"sync"
	"sync/atomic"
	"testing"
	"time"

	"github.com/markkurossi/mpc/circuit"
	"github.com/markkurossi/mpc/compiler"
	"github.com/markkurossi/mpc/compiler/utils"
	"github.com/markkurossi/mpc/gmw"
	"pgregory.net/rapid"

	"verifharness/internal/ev"
	"verifharness/internal/gen"
	"verifharness/internal/mpcl"
)

const prop = "C10"

var (
	watchdog          = 60 * time.Second
	watchdogAfterHang = 15 * time.Second
)

// Case of the protocol unit.
type Case struct {
	N int `json:"n"`
	// Prog is a generated program (nil when Fixed is set).
	Prog *mpcl.Prog `json:"prog,omitempty"`
	// Fixed names a hand-written program instantiated with Width.
	Fixed string `json:"fixed,omitempty"`
	Width int    `json:"width,omitempty"`
	// Rot rotates the parameters a hand-written program refers to: the body
	// uses a[(i+Rot) mod n] where the plain program uses a[i] (same gate
	// counts, different wiring).  Only drawn by the unit rounds.
	Rot int `json:"rot,omitempty"`
	// Inputs holds one bit pattern (0x..) per party.
	Inputs []string `json:"inputs"`
	Sched  Sched    `json:"sched"`
}

func genSched(t *rapid.T, n int) Sched {
	var sc Sched
	sc.JoinOrder = rapid.Permutation(seq(1, n)).Draw(t, "joinorder")
	// Modes: "none" = all parties start at the same moment, "all" = every
	// step of every party is delayed, "mixed" = a coin per step.
	mode := rapid.SampledFrom([]string{"mixed", "mixed", "mixed", "none", "all"}).Draw(t, "delaymode")
	delay := func(label string) []int {
		res := make([]int, n)
		for i := range res {
			if mode == "all" || (mode == "mixed" && rapid.Bool().Draw(t, label+"?")) {
				res[i] = rapid.IntRange(1, 20).Draw(t, label)
			}
		}
		return res
	}
	sc.JoinDelay = delay("joindelay")
	sc.ConnDelay = delay("conndelay")
	sc.BodyDelay = delay("bodydelay")
	return sc
}

func seq(lo, hi int) []int {
	res := []int{}
	for i := lo; i < hi; i++ {
		res = append(res, i)
	}
	return res
}

// drawBits draws a w-bit pattern: boundary patterns, dense, sparse or uniform
// (wide values are expanded from a drawn seed by the harness DRBG).
func drawBits(t *rapid.T, w int) *big.Int {
	all := maskW(w)
	switch rapid.IntRange(0, 6).Draw(t, "bitsmode") {
	case 0:
		return new(big.Int)
	case 1:
		return all
	case 2:
		return new(big.Int).Lsh(big.NewInt(1), uint(w-1))
	}
	seed := rapid.Uint64().Draw(t, "bitsseed")
	d := gen.NewDRBG(seed, 10)
	v := new(big.Int).SetBytes(d.Bytes((w + 7) / 8))
	v.And(v, all)
	switch rapid.IntRange(0, 2).Draw(t, "density") {
	case 0: // dense: ones except where two random patterns are both one
		u := new(big.Int).SetBytes(d.Bytes((w + 7) / 8))
		v.And(v, u)
		v.Xor(v, all)
	case 1: // sparse
		u := new(big.Int).SetBytes(d.Bytes((w + 7) / 8))
		v.And(v, u)
	}
	return v
}

func genCase(t *rapid.T) Case {
	n := rapid.IntRange(2, 5).Draw(t, "n")
	cs := Case{N: n}
	if rapid.SampledFrom([]string{"generated", "generated", "fixed"}).Draw(t, "kind") == "fixed" {
		fp := fixedProgs[rapid.IntRange(0, len(fixedProgs)-1).Draw(t, "fixedprog")]
		cs.Fixed = fp.name
		cs.Width = fp.widths[rapid.IntRange(0, len(fp.widths)-1).Draw(t, "fixedwidth")]
		for i := 0; i < n; i++ {
			cs.Inputs = append(cs.Inputs, "0x"+drawBits(t, cs.Width).Text(16))
		}
	} else {
		o := mpcl.Opts{NumParams: n, MaxStmts: 6, MaxDepth: 3, Helpers: 1,
			MaxWidth: 24, Arrays: true, Loops: true,
			NoDiv: rapid.Bool().Draw(t, "nodiv")}
		cs.Prog = mpcl.Draw(t, o)
		cs.Inputs = mpcl.DrawInputsN(t, cs.Prog, 0, 2)[0]
	}
	cs.Sched = genSched(t, n)
	return cs
}

// compiled is everything the oracle needs to know about a case's program.
type compiled struct {
	src    string
	circ   *circuit.Circuit
	inputs []*big.Int // one packed value per party
	model  []*big.Int // expected outputs by the independent model
	feat   string
}

func compileErrClass(err error) string {
	s := err.Error()
	if i := strings.Index(s, ": "); i >= 0 && strings.HasPrefix(s, "{") {
		s = s[i+2:]
	}
	words := strings.Fields(s)
	if len(words) > 4 {
		words = words[:4]
	}
	return strings.Join(words, "_")
}

// compileGMW compiles for the GMW target and assigns the AND-depth levels the
// way apps/garbled/main.go (loadCircuit) does.
func compileGMW(src string) (circ *circuit.Circuit, err error) {
	defer func() {
		if r := recover(); r != nil {
			err = fmt.Errorf("compiler panic: %v", r)
		}
	}()
	params := utils.NewParams()
	defer params.Close()
	params.Target = utils.TargetGMW
	circ, _, err = compiler.New(params).Compile(src, nil)
	if err != nil {
		return nil, err
	}
	circ.AssignLevels(params.Target)
	return circ, nil
}

func prepare(cs Case) (*compiled, *ev.Outcome) {
	c, out := prepareModel(cs)
	if out != nil {
		return nil, out
	}
	if out := c.compile(cs.N); out != nil {
		return nil, out
	}
	return c, nil
}

// prepareModel builds the source, the packed inputs and the model outputs of
// a case without compiling anything.
func prepareModel(cs Case) (*compiled, *ev.Outcome) {
	skip := func(why string) (*compiled, *ev.Outcome) {
		return nil, &ev.Outcome{Skip: why}
	}
	c := &compiled{}
	if cs.N < 2 || cs.N > 8 || len(cs.Inputs) != cs.N {
		return skip("malformed case")
	}
	if cs.Fixed != "" {
		fp := fixedByName(cs.Fixed)
		if fp == nil || cs.Width < 1 {
			return skip("malformed case")
		}
		if cs.Rot < 0 || cs.Rot >= cs.N {
			return skip("malformed case")
		}
		c.src = rotateParams(fp.source(cs.N, cs.Width), cs.N, cs.Rot)
		c.feat = "fixed-" + fp.name
		for _, s := range cs.Inputs {
			v, ok := new(big.Int).SetString(s, 0)
			if !ok || v.Sign() < 0 {
				return skip("malformed case")
			}
			c.inputs = append(c.inputs, v.And(v, maskW(cs.Width)))
		}
		seen := make([]*big.Int, cs.N)
		for i := range seen {
			seen[i] = c.inputs[(i+cs.Rot)%cs.N]
		}
		c.model = fp.model(seen, cs.Width)
	} else {
		if cs.Prog == nil || cs.Prog.Main() == nil || len(cs.Prog.Main().Params) != cs.N {
			return skip("malformed case")
		}
		p := cs.Prog
		c.src = p.Source()
		c.feat = mpcl.Features(p).Sig()
		args, packed, err := mpcl.ParseInputs(p, cs.Inputs)
		if err != nil {
			return skip("bad input vector")
		}
		c.inputs = packed
		want, err := p.Run(args)
		if err != nil {
			return skip("interpreter: " + err.Error())
		}
		for i, r := range p.Main().Results {
			c.model = append(c.model, p.Pack(r, want[i]))
		}
	}
	return c, nil
}

// compile compiles c.src for the GMW target into c.circ.
func (c *compiled) compile(n int) *ev.Outcome {
	circ, err := compileGMW(c.src)
	if err != nil {
		// Whether a program compiles for the GMW target is the business of
		// C03/C07 (compiler, circuit library), not of the protocol.
		ev.Get(prop).Count("compile-failed/"+compileErrClass(err), 1)
		fmt.Printf("c10: skipped, program does not compile for TargetGMW: %v\n%s\n", err, c.src)
		return &ev.Outcome{Skip: "program does not compile for TargetGMW (C03/C07 domain)"}
	}
	c.circ = circ
	if circ.NumParties() != n {
		o := ev.Fail("circuit/arity", "circuit has %d parties, main has %d parameters\n%s",
			circ.NumParties(), n, c.src)
		return &o
	}
	return nil
}

// shape is the AND structure of a levelled circuit, computed independently of
// AssignLevels.
type shape struct {
	levels    int   // AND depth of the circuit (number of AND levels)
	batches   []int // number of AND gates per AND level
	partial   bool  // some batch size is not a multiple of 64
	maxBatch  int
	badGate   int // first gate whose Level differs from its AND depth, -1
	wantLevel int
	statLevel uint64
	ops       [circuit.Count]int
}

func analyse(c *circuit.Circuit) shape {
	depth := make([]int, c.NumWires)
	sh := shape{badGate: -1}
	max := 0
	for i, g := range c.Gates {
		l := depth[g.Input0]
		if g.Op != circuit.INV && depth[g.Input1] > l {
			l = depth[g.Input1]
		}
		if int(g.Level) != l && sh.badGate < 0 {
			sh.badGate, sh.wantLevel = i, l
		}
		if int(g.Op) < len(sh.ops) {
			sh.ops[g.Op]++
		}
		out := l
		if g.Op == circuit.AND {
			for len(sh.batches) <= l {
				sh.batches = append(sh.batches, 0)
			}
			sh.batches[l]++
			out++
		}
		depth[g.Output] = out
		if out > max {
			max = out
		}
	}
	sh.levels = max
	sh.statLevel = c.Stats[circuit.NumLevels]
	for _, b := range sh.batches {
		if b%64 != 0 {
			sh.partial = true
		}
		if b > sh.maxBatch {
			sh.maxBatch = b
		}
	}
	return sh
}

func hexList(l []*big.Int) string {
	var s []string
	for _, v := range l {
		if v == nil {
			s = append(s, "nil")
		} else {
			h := v.Text(16)
			if len(h) > 70 {
				h = fmt.Sprintf("%s…%s(%d bits)", h[:24], h[len(h)-24:], v.BitLen())
			}
			s = append(s, "0x"+h)
		}
	}
	return "[" + strings.Join(s, " ") + "]"
}

func equalLists(a, b []*big.Int) bool {
	if len(a) != len(b) {
		return false
	}
	for i := range a {
		if a[i] == nil || b[i] == nil || a[i].Cmp(b[i]) != 0 {
			return false
		}
	}
	return true
}

func clip(s string, n int) string {
	if len(s) > n {
		return s[:n] + "…"
	}
	return s
}

// memberSizes is what a party passes to Connect: the sizes of its inputs (the
// real caller passes circuit.InputSizes of its -i flag values).
func memberSizes(in circuit.IOArg) []int {
	if len(in.Compound) == 0 {
		return []int{int(in.Type.Bits)}
	}
	var res []int
	for _, m := range in.Compound {
		res = append(res, int(m.Type.Bits))
	}
	return res
}

var (
	hangMu        sync.Mutex
	hangCache     = map[string]netResult{}
	hangConfirmed atomic.Bool
)

// settle turns a network result into an outcome; it implements the retry
// rules: port collisions are retried, a watchdog hit is a violation only if
// the same case hangs again on two re-runs.
func settle(key string, sched Sched, exec func(budget time.Duration) netResult) (netResult, *ev.Outcome) {
	col := ev.Get(prop)
	hangMu.Lock()
	r, cached := hangCache[key]
	hangMu.Unlock()
	budget, reruns := watchdog, 2
	if hangConfirmed.Load() {
		// A hang has already been established in this process with the
		// full budget; cases tried while shrinking it get a shorter one.
		budget, reruns = watchdogAfterHang, 1
	}
	if !cached {
		for attempt := 0; attempt < 4; attempt++ {
			r = exec(budget)
			if r.kind != "infra" || r.msg == "malformed case" {
				break
			}
			col.Count("infra-retries", 1)
		}
	}
	switch r.kind {
	case "infra":
		return r, &ev.Outcome{Skip: "infrastructure: " + errClass(r.msg)}
	case "timeout":
		if !cached {
			for i := 0; i < reruns; i++ {
				again := exec(budget)
				if again.kind != "timeout" {
					col.Count("watchdog-hit-not-reproduced", 1)
					col.Note("a network hit the %v watchdog once and completed on re-execution (skipped): %s; schedule: %s",
						watchdog, r.msg, sched)
					return r, &ev.Outcome{Skip: "watchdog hit not reproduced"}
				}
			}
			hangMu.Lock()
			hangCache[key] = r
			hangMu.Unlock()
			hangConfirmed.Store(true)
		}
		o := ev.Fail(r.sig, "%s (every execution of the case hit the watchdog: %d of %d)\nschedule: %s",
			r.msg, reruns+1, reruns+1, sched)
		return r, &o
	case "fail":
		o := ev.Fail(r.sig, "%s\nschedule: %s", r.msg, sched)
		return r, &o
	}
	return r, nil
}

func caseKey(cs interface{}) string {
	data, _ := json.Marshal(cs)
	return string(data)
}

func run(cs Case) ev.Outcome {
	c, out := prepare(cs)
	if out != nil {
		return *out
	}
	n := cs.N
	circ := c.circ
	describe := func() string {
		return fmt.Sprintf("n=%d inputs=%s\n%s", n, clip(fmt.Sprint(cs.Inputs), 600), clip(c.src, 3000))
	}

	// AssignLevels(TargetGMW) "computes the gate AND depth".
	sh := analyse(circ)
	if sh.badGate >= 0 {
		g := circ.Gates[sh.badGate]
		return ev.Fail("levels/and-depth-mismatch/"+g.Op.String(),
			"AssignLevels(TargetGMW): gate %d (%v) has Level %d, its AND depth is %d\n%s",
			sh.badGate, g, g.Level, sh.wantLevel, describe())
	}
	if sh.statLevel != uint64(sh.levels) {
		return ev.Fail("levels/num-levels", "Stats[NumLevels] = %d, AND depth of the circuit is %d\n%s",
			sh.statLevel, sh.levels, describe())
	}

	// Plain evaluation.
	cin, err := mpcl.CircuitInputs(circ, c.inputs)
	if err != nil {
		return ev.Fail("circuit/io-shape", "%v\n%s", err, describe())
	}
	plain, err := circ.Compute(cin)
	if err != nil {
		return ev.Fail("circuit/compute-error", "Compute: %v\n%s", err, describe())
	}
	if !equalLists(plain, c.model) {
		// The circuit compiled for TargetGMW does not compute the
		// program: a compiler / circuit library defect (C03, C07, C09),
		// not a protocol defect.  C10 speaks about the protocol
		// relative to the plain evaluation of the circuit, so the case
		// is counted and skipped here.
		ev.Get(prop).Count("compiled-circuit-differs-from-model/"+c.feat, 1)
		fmt.Printf("c10: skipped, GMW circuit differs from the model: Compute = %s, model = %s\n%s\n",
			hexList(plain), hexList(c.model), describe())
		return ev.Outcome{Skip: "GMW-compiled circuit differs from the program model (C03/C07/C09 domain)"}
	}

	sizes := make([][]int, n)
	for i := range sizes {
		sizes[i] = memberSizes(circ.Inputs[i])
	}
	var outs [][]*big.Int
	exec := func(budget time.Duration) netResult {
		res := make([][]*big.Int, n)
		r := runNet(n, cs.Sched, sizes, budget, func(p int, nw *gmw.Network) (string, error) {
			got, err := nw.Run(new(big.Int).Set(c.inputs[p]), circ, false)
			if err != nil {
				return "run/error/" + errClass(err.Error()), fmt.Errorf("Run: %v", err)
			}
			res[p] = got
			if !equalLists(got, plain) {
				return "run/wrong-output", fmt.Errorf("Run returned %s, plain evaluation of the circuit gives %s",
					hexList(got), hexList(plain))
			}
			return "", nil
		})
		if r.kind == "ok" {
			outs = res
		}
		if r.kind == "fail" || r.kind == "timeout" {
			r.msg += fmt.Sprintf("\nAND batches per level %v\n%s", sh.batches, describe())
		}
		return r
	}
	_, fail := settle(caseKey(cs), cs.Sched, exec)
	if fail != nil {
		return *fail
	}
	for p := 0; p < n; p++ {
		if !equalLists(outs[p], plain) {
			return ev.Fail("run/wrong-output", "party %d: Run returned %s, plain evaluation gives %s\n%s",
				p, hexList(outs[p]), hexList(plain), describe())
		}
	}

	classes := []string{fmt.Sprintf("n=%d", n)}
	add := func(b bool, s string) {
		if b {
			classes = append(classes, s)
		}
	}
	add(cs.Fixed != "", "fixed-program")
	add(cs.Fixed != "", "fixed:"+cs.Fixed)
	add(cs.Fixed == "", "generated-program")
	add(cs.Fixed == "" && sh.levels >= 2 && sh.partial, "generated-program-nontrivial")
	add(cs.Fixed == "" && (strings.Contains(c.src, " / ") || strings.Contains(c.src, " % ")), "generated-program-with-division")
	add(sh.levels == 0, "and-levels=0")
	add(sh.levels == 1, "and-levels=1")
	add(sh.levels >= 2, "and-levels>=2")
	add(sh.levels >= 8, "and-levels>=8")
	add(sh.levels >= 32, "and-levels>=32")
	add(sh.partial, "batch-not-multiple-of-64")
	add(sh.maxBatch > 64, "batch>64")
	add(sh.maxBatch > 4096, "batch>4096")
	add(sh.ops[circuit.INV] > 0, "has-INV")
	add(sh.ops[circuit.XNOR] > 0, "has-XNOR")
	total := 0
	for _, b := range sh.batches {
		total += b
	}
	add(total > 4096, "ands>4096(second-triple-batch)")
	nz := false
	for _, v := range plain {
		if v.Sign() != 0 {
			nz = true
		}
	}
	add(nz, "nonzero-output")
	d0 := true
	for _, l := range [][]int{cs.Sched.JoinDelay, cs.Sched.ConnDelay, cs.Sched.BodyDelay} {
		for _, d := range l {
			if d != 0 {
				d0 = false
			}
		}
	}
	add(d0, "no-delays")
	o := ev.OK(sh.levels >= 2 && sh.partial, classes...)
	o.Sample = map[string]interface{}{"n": n, "source": clip(c.src, 1500),
		"inputs": clip(fmt.Sprint(cs.Inputs), 400), "and_batches": sh.batches,
		"schedule": cs.Sched.String(), "outputs": clip(hexList(plain), 400)}
	return o
}

func init() { ev.Register("protocol", run) }

func TestProtocol(t *testing.T) {
	ev.Check(t, ev.Get(prop), "protocol", genCase, run)
	if n := leaked.Load(); n > 0 {
		ev.Get(prop).Count("networks-leaked-after-failure", int(n))
	}
	ev.Get(prop).Flush()
}

func TestReplay(t *testing.T) { ev.Replay(t, ev.Get(prop)) }
