package c10

// Unit rounds: ONE connected network (one Connect, one triple pool) is used
// for 1-4 consecutive evaluations.  gmw.Network.Run takes the circuit and the
// input as arguments and re-initialises the per-run state of the party itself,
// so a connected network - with its base OTs and its running triple pool - can
// evaluate any sequence of n-party circuits.  The rounds use independently
// drawn programs (the same one again, another one, an earlier one again) and
// fresh inputs; every party's result of every round must be the plain
// evaluation of THAT round's circuit on THAT round's inputs.

import (
	"fmt"
	"math/big"
	"strings"
	"testing"
	"time"

	"github.com/markkurossi/mpc/circuit"
	"github.com/markkurossi/mpc/gmw"
	"pgregory.net/rapid"

	"verifharness/internal/ev"
	"verifharness/internal/mpcl"
)

// ProgSpec is one program of a rounds case (see Case for the fields).
type ProgSpec struct {
	Prog  *mpcl.Prog `json:"prog,omitempty"`
	Fixed string     `json:"fixed,omitempty"`
	Width int        `json:"width,omitempty"`
	Rot   int        `json:"rot,omitempty"`
}

// RoundsCase: round r evaluates program Progs[Seq[r]] on Inputs[r].
type RoundsCase struct {
	N     int        `json:"n"`
	Progs []ProgSpec `json:"progs"`
	// Seq[r] is the index of the program of round r.
	Seq []int `json:"seq"`
	// Inputs[r] holds one bit pattern per party for round r.
	Inputs [][]string `json:"inputs"`
	// Fresh[r]: the round gets a circuit object of its own (the program is
	// compiled again) instead of the object of the program's first round.
	Fresh []bool `json:"fresh"`
	// RoundDelay[r][p] ms are slept by party p before Run of round r >= 1.
	RoundDelay [][]int `json:"round_delay"`
	Sched      Sched   `json:"sched"`
}

// Sequences of programs (letters = distinct programs).  F,F,G (repeat, then
// another circuit) and F,G,F (back to an earlier circuit) are always among
// the frequent ones.
var roundPatterns = []string{
	"FFG", "FGF", "FFG", "FGF", "FG", "FG", "FGH", "FGG", "FGFG", "FFGG", "FGHF", "FGGF", "FFFG", "FF", "F",
}

// widths at which every hand-written program except divmod (<= 24) and mac
// (<= 33) can be instantiated cheaply.
var commonWidths = []int{2, 7, 13, 24, 24, 65, 100}

func fixedAllows(fp *fixedProg, w int) bool {
	if fp.name == "xor" {
		return true
	}
	for _, x := range fp.widths {
		if x == w {
			return true
		}
	}
	return false
}

func genRoundsCase(t *rapid.T) RoundsCase {
	n := rapid.IntRange(2, 5).Draw(t, "n")
	cs := RoundsCase{N: n}
	pat := rapid.SampledFrom(roundPatterns).Draw(t, "pattern")
	nprogs := 0
	for _, ch := range pat {
		k := int(ch - 'F')
		cs.Seq = append(cs.Seq, k)
		if k+1 > nprogs {
			nprogs = k + 1
		}
	}
	// same-width: hand-written programs of one common width, so that every
	// round has the input sizes the parties announced in Connect; twins: one
	// hand-written program and its parameter rotations (equal gate and wire
	// counts, different wiring).
	mode := rapid.SampledFrom([]string{"same-width", "same-width", "twins", "fixed", "generated", "generated", "mixed"}).Draw(t, "progmode")
	common := commonWidths[rapid.IntRange(0, len(commonWidths)-1).Draw(t, "commonwidth")]
	var cands []int
	for i := range fixedProgs {
		if fixedAllows(&fixedProgs[i], common) {
			cands = append(cands, i)
		}
	}
	twin := cands[rapid.IntRange(0, len(cands)-1).Draw(t, "twinprog")]
	for j := 0; j < nprogs; j++ {
		var sp ProgSpec
		kind := mode
		if mode == "mixed" {
			kind = rapid.SampledFrom([]string{"fixed", "generated"}).Draw(t, "kind")
		}
		switch kind {
		case "generated":
			o := mpcl.Opts{NumParams: n, MaxStmts: 5, MaxDepth: 3, Helpers: 1,
				MaxWidth: 24, Arrays: true, Loops: true,
				NoDiv: rapid.IntRange(0, 3).Draw(t, "div") != 0}
			sp.Prog = mpcl.Draw(t, o)
		case "fixed":
			fp := fixedProgs[rapid.IntRange(0, len(fixedProgs)-1).Draw(t, "fixedprog")]
			sp.Fixed = fp.name
			sp.Width = fp.widths[rapid.IntRange(0, len(fp.widths)-1).Draw(t, "fixedwidth")]
			sp.Rot = rapid.IntRange(0, n-1).Draw(t, "rot")
		case "twins":
			// n >= 2 rotations exist; with more programs than rotations the
			// later ones move on to the next program of the list.
			idx := twin
			if j >= n {
				idx = cands[(indexOf(cands, twin)+j/n)%len(cands)]
			}
			sp.Fixed, sp.Width, sp.Rot = fixedProgs[idx].name, common, j%n
		default: // same-width
			sp.Fixed = fixedProgs[cands[rapid.IntRange(0, len(cands)-1).Draw(t, "fixedprog")]].name
			sp.Width = common
			sp.Rot = rapid.IntRange(0, n-1).Draw(t, "rot")
		}
		// Distinct letters are distinct programs: a hand-written program
		// that equals an earlier one moves to the next rotation / program.
		for tries := 0; sp.Fixed != "" && tries < 64 && specIn(sp, cs.Progs); tries++ {
			sp.Rot++
			if sp.Rot >= n {
				sp.Rot = 0
				i := indexOfName(sp.Fixed)
				for k := 1; k <= len(fixedProgs); k++ {
					fp := &fixedProgs[(i+k)%len(fixedProgs)]
					if fixedAllows(fp, sp.Width) {
						sp.Fixed = fp.name
						break
					}
				}
			}
		}
		cs.Progs = append(cs.Progs, sp)
	}
	for r, k := range cs.Seq {
		sp := cs.Progs[k]
		var in []string
		if sp.Prog != nil {
			in = mpcl.DrawInputsN(t, sp.Prog, 0, 2)[0]
		} else {
			for i := 0; i < n; i++ {
				in = append(in, "0x"+drawBits(t, sp.Width).Text(16))
			}
		}
		cs.Inputs = append(cs.Inputs, in)
		first := true
		for _, e := range cs.Seq[:r] {
			first = first && e != k
		}
		cs.Fresh = append(cs.Fresh, !first && rapid.IntRange(0, 3).Draw(t, "fresh") == 0)
	}
	cs.Sched = genSched(t, n)
	dmode := rapid.SampledFrom([]string{"none", "none", "mixed", "all"}).Draw(t, "rounddelaymode")
	for r := range cs.Seq {
		d := make([]int, n)
		for p := range d {
			if r > 0 && (dmode == "all" || (dmode == "mixed" && rapid.Bool().Draw(t, "rounddelay?"))) {
				d[p] = rapid.IntRange(1, 10).Draw(t, "rounddelay")
			}
		}
		cs.RoundDelay = append(cs.RoundDelay, d)
	}
	return cs
}

func indexOf(l []int, v int) int {
	for i, x := range l {
		if x == v {
			return i
		}
	}
	return 0
}

func indexOfName(name string) int {
	for i := range fixedProgs {
		if fixedProgs[i].name == name {
			return i
		}
	}
	return 0
}

func specIn(sp ProgSpec, l []ProgSpec) bool {
	for _, x := range l {
		if x.Fixed == sp.Fixed && x.Width == sp.Width && x.Rot == sp.Rot {
			return true
		}
	}
	return false
}

func (cs RoundsCase) valid() bool {
	R := len(cs.Seq)
	if cs.N < 2 || cs.N > 8 || R < 1 || R > 8 || len(cs.Progs) < 1 || len(cs.Inputs) != R ||
		len(cs.Fresh) != R || len(cs.RoundDelay) != R {
		return false
	}
	for r, k := range cs.Seq {
		if k < 0 || k >= len(cs.Progs) || len(cs.Inputs[r]) != cs.N || len(cs.RoundDelay[r]) != cs.N {
			return false
		}
		for _, d := range cs.RoundDelay[r] {
			if d < 0 || d > 10000 {
				return false
			}
		}
	}
	return true
}

func (cs RoundsCase) pattern() string {
	var sb strings.Builder
	for _, k := range cs.Seq {
		sb.WriteByte(byte('F' + k))
	}
	return sb.String()
}

// roundData is what one round evaluates and expects.
type roundData struct {
	prog   int
	src    string
	circ   *circuit.Circuit
	inputs []*big.Int
	plain  []*big.Int
	sh     shape
	sizes  string // input sizes of the circuit
}

func circuitSizes(c *circuit.Circuit) [][]int {
	sizes := make([][]int, len(c.Inputs))
	for i := range sizes {
		sizes[i] = memberSizes(c.Inputs[i])
	}
	return sizes
}

func runRounds(cs RoundsCase) ev.Outcome {
	if !cs.valid() {
		return ev.Outcome{Skip: "malformed case"}
	}
	n := cs.N
	R := len(cs.Seq)
	rounds := make([]roundData, R)
	firstCirc := map[int]*circuit.Circuit{}
	freshObjects := 0
	for r, k := range cs.Seq {
		sp := cs.Progs[k]
		c, out := prepareModel(Case{N: n, Prog: sp.Prog, Fixed: sp.Fixed, Width: sp.Width, Rot: sp.Rot, Inputs: cs.Inputs[r]})
		if out != nil {
			return *out
		}
		if prev, ok := firstCirc[k]; ok && !cs.Fresh[r] {
			c.circ = prev
		} else {
			if out := c.compile(n); out != nil {
				return *out
			}
			if ok {
				freshObjects++
			} else {
				firstCirc[k] = c.circ
			}
		}
		sh := analyse(c.circ)
		if sh.badGate >= 0 || sh.statLevel != uint64(sh.levels) {
			// Reported by the unit protocol (levels/...).
			return ev.Outcome{Skip: "AssignLevels result differs from the AND depth (unit protocol reports it)"}
		}
		cin, err := mpcl.CircuitInputs(c.circ, c.inputs)
		if err != nil {
			return ev.Fail("circuit/io-shape", "%v\n%s", err, c.src)
		}
		plain, err := c.circ.Compute(cin)
		if err != nil {
			return ev.Fail("circuit/compute-error", "Compute: %v\n%s", err, c.src)
		}
		if !equalLists(plain, c.model) {
			ev.Get(prop).Count("compiled-circuit-differs-from-model/"+c.feat, 1)
			return ev.Outcome{Skip: "GMW-compiled circuit differs from the program model (C03/C07/C09 domain)"}
		}
		rounds[r] = roundData{prog: k, src: c.src, circ: c.circ, inputs: c.inputs, plain: plain, sh: sh,
			sizes: fmt.Sprint(circuitSizes(c.circ))}
	}

	describe := func() string {
		var sb strings.Builder
		fmt.Fprintf(&sb, "n=%d, %d rounds on one connected network, programs %s, fresh circuit object %v, delay before the rounds %v ms\n",
			n, R, cs.pattern(), cs.Fresh, cs.RoundDelay)
		for r, rd := range rounds {
			fmt.Fprintf(&sb, "round %d: program %c, inputs %s, expected %s, AND batches per level %s\n", r, 'F'+rd.prog,
				clip(fmt.Sprint(cs.Inputs[r]), 300), clip(hexList(rd.plain), 300), clip(fmt.Sprint(rd.sh.batches), 300))
		}
		done := map[int]bool{}
		for _, rd := range rounds {
			if !done[rd.prog] {
				done[rd.prog] = true
				fmt.Fprintf(&sb, "program %c:\n%s\n", 'F'+rd.prog, clip(rd.src, 1500))
			}
		}
		return sb.String()
	}
	// relation of round r to the round before it.
	rel := func(r int) string {
		if rounds[r].src == rounds[r-1].src {
			return "same-circuit"
		}
		return "other-circuit"
	}

	var outs [][][]*big.Int
	exec := func(budget time.Duration) netResult {
		res := make([][][]*big.Int, R)
		for r := range res {
			res[r] = make([][]*big.Int, n)
		}
		nr := runNet(n, cs.Sched, circuitSizes(rounds[0].circ), budget, func(p int, nw *gmw.Network) (string, error) {
			for r, rd := range rounds {
				where, sig := "Run", "run"
				if r > 0 {
					sleepMs(cs.RoundDelay[r][p])
					where = fmt.Sprintf("Run number %d on the connected network (round %d, %s as the round before)", r+1, r, rel(r))
					sig = "rerun/" + rel(r)
				}
				got, err := nw.Run(new(big.Int).Set(rd.inputs[p]), rd.circ, false)
				if err != nil {
					return sig + "/error/" + errClass(err.Error()), fmt.Errorf("%s: %v", where, err)
				}
				res[r][p] = got
				if !equalLists(got, rd.plain) {
					return sig + "/wrong-output", fmt.Errorf("%s returned %s, plain evaluation of the round's circuit gives %s",
						where, hexList(got), hexList(rd.plain))
				}
			}
			return "", nil
		})
		if nr.kind == "ok" {
			outs = res
		}
		if nr.kind == "fail" || nr.kind == "timeout" {
			nr.msg += "\n" + describe()
		}
		return nr
	}
	_, fail := settle(caseKey(cs), cs.Sched, exec)
	if fail != nil {
		return *fail
	}
	for r, rd := range rounds {
		for p := 0; p < n; p++ {
			if !equalLists(outs[r][p], rd.plain) {
				return ev.Fail("run/wrong-output", "round %d, party %d: Run returned %s, plain evaluation gives %s\n%s",
					r, p, hexList(outs[r][p]), hexList(rd.plain), describe())
			}
		}
	}

	classes := []string{fmt.Sprintf("n=%d", n), fmt.Sprintf("rounds=%d", R), "pattern=" + cs.pattern()}
	add := func(b bool, s string) {
		if b {
			classes = append(classes, s)
		}
	}
	var change, repeat, back, nontrivial, sizesDiffer, grow, shrink, moreLevels, fewerLevels, twin, delayed bool
	var sameThenOther bool
	totalAnds := 0
	for r, rd := range rounds {
		for _, b := range rd.sh.batches {
			totalAnds += b
		}
		sizesDiffer = sizesDiffer || rd.sizes != rounds[0].sizes
		for _, d := range cs.RoundDelay[r] {
			delayed = delayed || d > 0
		}
		if r == 0 {
			continue
		}
		prev := rounds[r-1]
		if rel(r) == "same-circuit" {
			repeat = true
			continue
		}
		change = true
		sameThenOther = sameThenOther || (r >= 2 && rounds[r-2].src == prev.src)
		for _, e := range rounds[:r-1] {
			back = back || e.src == rd.src
		}
		nontrivial = nontrivial || rd.sh.levels >= 1
		grow = grow || rd.circ.NumWires > prev.circ.NumWires
		shrink = shrink || rd.circ.NumWires < prev.circ.NumWires
		moreLevels = moreLevels || rd.sh.levels > prev.sh.levels
		fewerLevels = fewerLevels || rd.sh.levels < prev.sh.levels
		twin = twin || (rd.circ.NumWires == prev.circ.NumWires && rd.circ.NumGates == prev.circ.NumGates &&
			fmt.Sprint(rd.sh.batches) == fmt.Sprint(prev.sh.batches))
	}
	gens, fixed := 0, 0
	for _, sp := range cs.Progs {
		if sp.Prog != nil {
			gens++
		} else {
			fixed++
		}
	}
	add(gens > 0 && fixed == 0, "programs=generated")
	add(gens == 0 && fixed > 0, "programs=hand-written")
	add(gens > 0 && fixed > 0, "programs=both")
	add(change, "circuit-changes-between-rounds")
	add(change && nontrivial, "circuit-changes-to-one-with-AND-levels")
	add(repeat, "same-circuit-twice-in-a-row")
	add(sameThenOther, "same-circuit-twice-then-another(F,F,G)")
	add(back, "back-to-an-earlier-circuit(F,G,F)")
	add(R > 1 && !sizesDiffer, "input-sizes-as-announced-in-all-rounds")
	add(sizesDiffer, "input-sizes-differ-from-the-announced")
	add(grow, "next-circuit-has-more-wires")
	add(shrink, "next-circuit-has-fewer-wires")
	add(moreLevels, "next-circuit-has-more-AND-levels")
	add(fewerLevels, "next-circuit-has-fewer-AND-levels")
	add(twin, "next-circuit-same-shape-other-wiring")
	add(freshObjects > 0, "repeated-program-as-new-circuit-object")
	add(delayed, "delays-between-rounds")
	add(totalAnds > 4096, "ands>4096-over-all-rounds(second-triple-batch)")
	o := ev.OK(change && nontrivial, classes...)
	o.Evals = R
	var progs []string
	for _, rd := range rounds {
		progs = append(progs, clip(rd.src, 500))
	}
	o.Sample = map[string]interface{}{"n": n, "pattern": cs.pattern(), "round_sources": progs,
		"inputs": clip(fmt.Sprint(cs.Inputs), 400), "schedule": cs.Sched.String()}
	return o
}

func init() { ev.Register("rounds", runRounds) }

func TestRounds(t *testing.T) {
	ev.Check(t, ev.Get(prop), "rounds", genRoundsCase, runRounds)
	if n := leaked.Load(); n > 0 {
		ev.Get(prop).Count("networks-leaked-after-failure", int(n))
	}
	ev.Get(prop).Flush()
}
