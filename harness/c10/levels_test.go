package c10

// Unit levels: the level assignment the GMW evaluation relies on, for hand-made
// circuits that are far deeper or wider than compiled programs: chains of
// 65534..70000 AND gates (each one level deeper than the one before), with some
// XOR/INV links and a few wide levels.  Circuit.AssignLevels(TargetGMW) must
// give every gate a level that is not smaller than the levels of the gates it
// reads and strictly greater than the level of an AND gate it reads (an AND
// output only exists after the communication round of its level), and the
// gates must stay in an order in which inputs precede their uses.  The protocol
// itself is run by the other units; a 66000-round session takes minutes.

import (
	"fmt"
	"testing"

	"github.com/markkurossi/mpc/circuit"
	"github.com/markkurossi/mpc/compiler/utils"
	"pgregory.net/rapid"

	"verifharness/internal/ev"
	"verifharness/internal/gen"
	"verifharness/internal/ref"
)

// LevelCase is one chain circuit.
type LevelCase struct {
	Depth int    `json:"depth"` // AND gates in the chain
	Every int    `json:"every"` // an XOR/INV link after every Every AND gates (0 = none)
	Wide  int    `json:"wide"`  // extra AND gates hanging off the middle of the chain, all on one level
	Seed  uint64 `json:"seed"`
}

var levelDepths = []int{1, 2, 255, 256, 257, 4095, 4096, 65534, 65535, 65536, 65537, 66000, 70000}

func genLevels(t *rapid.T) LevelCase {
	return LevelCase{
		Depth: levelDepths[gen.Uniform(t, len(levelDepths), "depth")],
		Every: rapid.SampledFrom([]int{0, 0, 1, 3, 100}).Draw(t, "every"),
		Wide:  rapid.SampledFrom([]int{0, 0, 5, 300}).Draw(t, "wide"),
		Seed:  rapid.Uint64().Draw(t, "seed"),
	}
}

func runLevels(cs LevelCase) ev.Outcome {
	if cs.Depth < 1 || cs.Depth > 200000 || cs.Every < 0 || cs.Wide < 0 || cs.Wide > 5000 {
		return ev.Outcome{Skip: "malformed case"}
	}
	// Inputs: two 8-bit arguments; wire 0..15.  chain: w = AND(w, in[k]).
	c := gen.Circ{In: []int{8, 8}, Out: []int{1, 1}}
	nin := 16
	next := nin
	prev := 0
	emit := func(op, a, b int) int {
		c.Gates = append(c.Gates, ref.Gate{op, a, b, next})
		next++
		return next - 1
	}
	d := gen.NewDRBG(cs.Seed, 5)
	mid := -1
	for i := 0; i < cs.Depth; i++ {
		prev = emit(ref.AND, prev, 1+int(d.Bytes(1)[0])%(nin-1))
		if cs.Every > 0 && (i+1)%cs.Every == 0 {
			if d.Bytes(1)[0]&1 == 0 {
				prev = emit(ref.XOR, prev, 1+int(d.Bytes(1)[0])%(nin-1))
			} else {
				prev = emit(ref.INV, prev, 0)
			}
		}
		if i == cs.Depth/2 {
			mid = prev
		}
	}
	side := mid
	for i := 0; i < cs.Wide; i++ {
		w := emit(ref.AND, mid, 1+i%(nin-1))
		side = emit(ref.XOR, side, w)
	}
	// outputs: the end of the chain and the side accumulator
	emit(ref.XOR, prev, 0)
	emit(ref.XOR, side, 0)

	circ := c.Build()
	circ.AssignLevels(utils.TargetGMW)
	if msg := levelsValid(circ, nin); msg != "" {
		return ev.Fail("levels/invalid", "chain of %d AND gates (link every %d, %d side gates): %s", cs.Depth, cs.Every, cs.Wide, msg)
	}
	maxLevel := 0
	for _, g := range circ.Gates {
		if int(g.Level) > maxLevel {
			maxLevel = int(g.Level)
		}
	}
	if maxLevel < cs.Depth-1 {
		return ev.Fail("levels/too-few", "chain of %d AND gates has only %d levels", cs.Depth, maxLevel+1)
	}
	cl := "levels:depth<65536"
	if cs.Depth >= 65536 {
		cl = "levels:depth>=65536"
	}
	out := ev.OK(cs.Depth > 256, cl)
	out.Evals = 1
	return out
}

func levelsValid(c *circuit.Circuit, nin int) string {
	producer := make([]int, c.NumWires) // gate index + 1
	for i, g := range c.Gates {
		producer[g.Output] = i + 1
	}
	for i, g := range c.Gates {
		ins := []circuit.Wire{g.Input0}
		if g.Op != circuit.INV {
			ins = append(ins, g.Input1)
		}
		for _, w := range ins {
			if int(w) < nin {
				continue
			}
			pi := producer[w] - 1
			if pi < 0 {
				return fmt.Sprintf("gate %d reads wire %d that no gate assigns", i, w)
			}
			if pi >= i {
				return fmt.Sprintf("gate %d reads wire %d assigned by later gate %d", i, w, pi)
			}
			p := c.Gates[pi]
			if p.Level > g.Level {
				return fmt.Sprintf("gate %d (level %d) reads the output of gate %d (level %d)", i, g.Level, pi, p.Level)
			}
			if p.Op == circuit.AND && p.Level >= g.Level {
				return fmt.Sprintf("gate %d (level %d) reads AND gate %d of the same level", i, g.Level, pi)
			}
		}
	}
	return ""
}

func init() { ev.Register("levels", runLevels) }

func TestLevels(t *testing.T) {
	ev.Check(t, ev.Get(prop), "levels", genLevels, runLevels)
}
