package c10

// Unit triples: validity of the Beaver triples handed out by the triple pool.

import (
	"fmt"
	"math/bits"
	"testing"
	"time"

	"github.com/markkurossi/mpc/gmw"
	"pgregory.net/rapid"

	"verifharness/internal/ev"
)

// TripleCase: every party calls Pool.Get(Sizes[j]) for j = 0..m-1.
type TripleCase struct {
	N     int   `json:"n"`
	Sizes []int `json:"sizes"`
	// Reuse: one Triples value per party, cleared after every request (what
	// Network.andBatchFlush does); otherwise a fresh Triples per request.
	Reuse bool `json:"reuse"`
	// GetDelay[p] ms are slept by party p between its requests (parties
	// consume at different speeds).
	GetDelay []int `json:"get_delay"`
	Sched    Sched `json:"sched"`
}

var tripleAnchors = []int{1, 63, 64, 65, 4095, 4096, 4097, 9000}

const maxTripleTotal = 60000

func genTripleCase(t *rapid.T) TripleCase {
	n := rapid.IntRange(2, 5).Draw(t, "n")
	cs := TripleCase{N: n, Reuse: rapid.Bool().Draw(t, "reuse")}
	m := rapid.IntRange(1, 8).Draw(t, "requests")
	total := 0
	for j := 0; j < m; j++ {
		k := tripleAnchors[rapid.IntRange(0, len(tripleAnchors)-1).Draw(t, "anchor")]
		switch rapid.IntRange(0, 3).Draw(t, "jitter?") {
		case 0:
			k += rapid.IntRange(-70, 70).Draw(t, "jitter")
		case 1:
			k = rapid.IntRange(1, 12500).Draw(t, "size")
		}
		if k < 1 {
			k = 1
		}
		if total+k > maxTripleTotal {
			break
		}
		total += k
		cs.Sizes = append(cs.Sizes, k)
	}
	cs.GetDelay = make([]int, n)
	for i := range cs.GetDelay {
		if rapid.SampledFrom([]bool{false, false, true}).Draw(t, "getdelay?") {
			cs.GetDelay[i] = rapid.IntRange(1, 5).Draw(t, "getdelay")
		}
	}
	cs.Sched = genSched(t, n)
	return cs
}

type tripleWords struct {
	words   int
	a, b, c []uint64
}

// batchBoundary tells whether the word range [start, end) contains a boundary
// between two generated batches in its interior.  The first generated batch
// has 4096 triples (64 words), every later one 8192 (128 words).
func batchBoundary(start, end int) (first, later bool) {
	for b := 64; b < end; b += 128 {
		if b > start {
			if b == 64 {
				first = true
			} else {
				later = true
			}
		}
	}
	return
}

func runTriples(cs TripleCase) ev.Outcome {
	n := cs.N
	if n < 2 || n > 8 || len(cs.Sizes) == 0 || len(cs.GetDelay) != n {
		return ev.Outcome{Skip: "malformed case"}
	}
	total := 0
	for _, k := range cs.Sizes {
		if k < 1 {
			return ev.Outcome{Skip: "malformed case"}
		}
		total += k
	}
	if total > 4*maxTripleTotal {
		return ev.Outcome{Skip: "malformed case"}
	}
	sizes := make([][]int, n)
	for i := range sizes {
		sizes[i] = []int{8}
	}
	var got [][]tripleWords
	exec := func(budget time.Duration) netResult {
		res := make([][]tripleWords, n)
		r := runNet(n, cs.Sched, sizes, budget, func(p int, nw *gmw.Network) (string, error) {
			t := new(gmw.Triples)
			for j, k := range cs.Sizes {
				if j > 0 {
					sleepMs(cs.GetDelay[p])
				}
				if !cs.Reuse {
					t = new(gmw.Triples)
				}
				nw.Pool.Get(k, t)
				want := (k + 63) / 64
				if t.Words != want || len(t.A) < want || len(t.B) < want || len(t.C) < want {
					return "triples/get-word-count", fmt.Errorf(
						"Pool.Get(%d) (request %d of %v): Words = %d, len(A,B,C) = %d,%d,%d, want %d words",
						k, j, cs.Sizes, t.Words, len(t.A), len(t.B), len(t.C), want)
				}
				tw := tripleWords{words: want,
					a: append([]uint64(nil), t.A[:want]...),
					b: append([]uint64(nil), t.B[:want]...),
					c: append([]uint64(nil), t.C[:want]...)}
				res[p] = append(res[p], tw)
				if cs.Reuse {
					t.Clear()
				}
			}
			return "", nil
		})
		if r.kind == "ok" {
			got = res
		}
		if r.kind == "fail" || r.kind == "timeout" {
			r.msg += fmt.Sprintf("\nn=%d, requested sizes %v, reuse=%v, delay between requests %v ms",
				n, cs.Sizes, cs.Reuse, cs.GetDelay)
		}
		return r
	}
	_, fail := settle(caseKey(cs), cs.Sched, exec)
	if fail != nil {
		return *fail
	}

	// (xor_i A_i) & (xor_i B_i) == xor_i C_i for every delivered word.
	ofs := 0
	crossFirst, crossLater, waitLikely := false, false, false
	zeroWords, words := 0, 0
	for j, k := range cs.Sizes {
		w := (k + 63) / 64
		for i := 0; i < w; i++ {
			var a, b, c uint64
			for p := 0; p < n; p++ {
				a ^= got[p][j].a[i]
				b ^= got[p][j].b[i]
				c ^= got[p][j].c[i]
			}
			words++
			if a == 0 && b == 0 && c == 0 {
				zeroWords++
			}
			if a&b != c {
				where := "interior"
				if i == w-1 {
					where = "last-word-of-request"
				}
				if f, l := batchBoundary(ofs+i-1, ofs+i+1); f || l {
					where = "first-word-of-generated-batch"
				}
				return ev.Fail("triples/invalid/"+where,
					"n=%d, sizes %v, reuse=%v: request %d (Get(%d)), word %d (word %d of the stream): "+
						"xorA=%016x xorB=%016x xorC=%016x, (xorA&xorB)^xorC=%016x (%d wrong triples in the word)\nschedule: %s",
					n, cs.Sizes, cs.Reuse, j, k, i, ofs+i, a, b, c, a&b^c,
					bits.OnesCount64(a&b^c), cs.Sched)
			}
		}
		f, l := batchBoundary(ofs, ofs+w)
		crossFirst = crossFirst || f
		crossLater = crossLater || l
		if w > 128 {
			waitLikely = true
		}
		ofs += w
	}

	classes := []string{fmt.Sprintf("n=%d", n), fmt.Sprintf("requests=%d", len(cs.Sizes))}
	add := func(b bool, s string) {
		if b {
			classes = append(classes, s)
		}
	}
	add(crossFirst, "request-crosses-4096-batch-boundary")
	add(crossLater, "request-crosses-8192-batch-boundary")
	add(waitLikely, "request-larger-than-a-batch")
	add(cs.Reuse, "reuse+Clear")
	add(!cs.Reuse, "fresh-Triples")
	add(ofs > 64, "more-than-one-batch-consumed")
	partial := false
	for _, k := range cs.Sizes {
		if k%64 != 0 {
			partial = true
		}
	}
	add(partial, "size-not-multiple-of-64")
	// Not an oracle (the values come from crypto/rand): all-zero words would
	// make the relation vacuous, so their number is reported.
	add(zeroWords > 0, "some-all-zero-word")
	add(zeroWords == words, "ALL-WORDS-ZERO(vacuous)")
	o := ev.OK(crossFirst || crossLater, classes...)
	o.Evals = len(cs.Sizes)
	return o
}

func init() { ev.Register("triples", runTriples) }

func TestTriples(t *testing.T) {
	ev.Check(t, ev.Get(prop), "triples", genTripleCase, runTriples)
	if n := leaked.Load(); n > 0 {
		ev.Get(prop).Count("networks-leaked-after-failure", int(n))
	}
	ev.Get(prop).Flush()
}
