package c07

import (
	"fmt"
	"testing"
	"time"
)

func TestZZTiming(t *testing.T) {
	for _, id := range []string{"NewIDivider", "NewUDivider", "NewUDividerGoldschmidtFast", "NewUDividerLong", "NewUDividerRestoring", "NewUDividerArray", "NewMultiplier", "NewKaratsubaMultiplier", "NewWallaceMultiplier", "NewArrayMultiplier", "Hamming", "NewKoggeStoneAdder"} {
		for _, gmw := range []bool{false, true} {
			for _, w := range []int{16, 32, 41, 64, 130} {
				for _, wr := range []int{w, 2*w + 3} {
					cs := Case{B: id, GMW: gmw, W: []int{w, w}, WR: wr, P: 8, Mode: "div",
						Vals: [][]string{{"3", "2"}}}
					if id == "NewMultiplier" {
						cs.P = 0
					}
					t0 := time.Now()
					out := run(cs)
					fmt.Printf("TIMING %-28s gmw=%-5v w=%3d wr=%3d %8.1fms err=%v\n", id, gmw, w, wr, float64(time.Since(t0).Microseconds())/1000, out.Err != "")
				}
			}
		}
	}
}
