package c07

// Unit operands: a builder must leave its operands alone.  The operand slices a
// builder receives are the compiler's persistent wire vectors of program
// values; an instruction that follows reads the same slices.  The circuit of
// this unit returns the builder's result AND, connected after the builder ran,
// every operand again; the echoed operands must carry the operand values (and
// the result must still be exact).

import (
	"fmt"
	"math/big"
	"testing"

	"github.com/markkurossi/mpc/circuit"
	"github.com/markkurossi/mpc/compiler/circuits"
	"github.com/markkurossi/mpc/compiler/utils"
	"github.com/markkurossi/mpc/types"

	"verifharness/internal/ev"
)

func buildEcho(cs *Case, sp *spec) (circ *circuit.Circuit, berr error, pmsg string) {
	defer func() {
		if r := recover(); r != nil {
			pmsg = fmt.Sprintf("%v at %s", r, panicSite())
		}
	}()
	params := utils.NewParams()
	if cs.GMW {
		params.Target = utils.TargetGMW
	}
	params.OptPruneGates = cs.Prune
	calloc := circuits.NewAllocator()

	var inputs, outputs circuit.IO
	var inWires []*circuits.Wire
	var ops []wires
	for i, w := range cs.W {
		inputs = append(inputs, ioArg(fmt.Sprintf("i%d", i), w))
		ws := calloc.Wires(types.Size(w))
		ops = append(ops, ws)
		inWires = append(inWires, ws...)
	}
	outW := cs.outWidths()
	for i, w := range outW {
		outputs = append(outputs, ioArg(fmt.Sprintf("o%d", i), w))
	}
	for i, w := range cs.W {
		outputs = append(outputs, ioArg(fmt.Sprintf("e%d", i), w))
	}
	cc, err := circuits.NewCompiler(params, calloc, inputs, outputs, inWires, nil)
	if err != nil {
		return nil, err, ""
	}
	cc.ZeroWire()
	cc.OneWire()
	var res []wires
	for _, w := range outW {
		res = append(res, calloc.Wires(types.Size(w)))
	}
	if err := sp.build(cc, cs, ops, res); err != nil {
		return nil, err, ""
	}
	connect := func(ws wires) {
		for _, w := range ws {
			o := calloc.Wire()
			cc.ID(w, o)
			cc.OutputWires = append(cc.OutputWires, o)
		}
	}
	for _, r := range res {
		connect(r)
	}
	// The operands as an instruction after this one finds them.
	for _, op := range ops {
		connect(op)
	}
	for _, o := range cc.OutputWires {
		o.SetOutput(true)
	}
	cc.ConstPropagate()
	cc.ShortCircuitXORZero()
	if params.OptPruneGates {
		cc.Prune()
	}
	return cc.Compile(), nil, ""
}

func runOperands(cs Case) ev.Outcome {
	sp, ok := specs[cs.B]
	if !ok {
		return ev.Outcome{Skip: "unknown builder"}
	}
	if why := cs.valid(sp); why != "" {
		return ev.Outcome{Skip: "invalid case: " + why}
	}
	if len(cs.Vals) == 0 {
		return ev.Outcome{Skip: "the operands unit needs explicit operand values"}
	}
	desc := fmt.Sprintf("%s target=%s widths=%v result=%d p=%d mode=%q prune=%v",
		cs.B, cs.target(), cs.W, cs.WR, cs.P, cs.Mode, cs.Prune)
	circ, berr, pmsg := buildEcho(&cs, sp)
	if pmsg != "" || berr != nil {
		// The builders unit judges panics and errors.
		return ev.Outcome{Skip: "builder fails (judged by the builders unit)"}
	}
	outW := cs.outWidths()
	evals := 0
	for _, tuple := range cs.Vals {
		if len(tuple) != len(cs.W) {
			return ev.Outcome{Skip: "invalid case: value tuple"}
		}
		in := make([]*big.Int, len(tuple))
		for i, s := range tuple {
			v, ok := new(big.Int).SetString(s, 16)
			if !ok || v.Sign() < 0 || v.BitLen() > cs.W[i] {
				return ev.Outcome{Skip: "invalid case: value"}
			}
			in[i] = v
		}
		got, err := circ.Compute(in)
		if err != nil || len(got) != len(outW)+len(cs.W) {
			return ev.Fail(cs.B+"/"+cs.target()+"/operands/compute-error", "%s: Compute: %v (%d results)", desc, err, len(got))
		}
		evals++
		for i := range cs.W {
			if got[len(outW)+i].Cmp(in[i]) != 0 {
				return ev.Fail(cs.B+"/"+cs.target()+"/operand-modified",
					"%s: operands (%s): after the builder ran, operand %d reads 0x%s instead of 0x%s (the builder changed the caller's operand slice)",
					desc, hexes(in), i, got[len(outW)+i].Text(16), in[i].Text(16))
			}
		}
		if want := sp.oracle(&cs, in); want != nil {
			for i := range want {
				exp := new(big.Int).Mod(want[i], new(big.Int).Lsh(big.NewInt(1), uint(outW[i])))
				if exp.Cmp(got[i]) != 0 {
					// The builders unit reports wrong results with
					// their precise signature.
					return ev.Outcome{Skip: "result differs (judged by the builders unit)"}
				}
			}
		}
	}
	out := ev.OK(true, "operands:builder="+cs.B, "operands:target="+cs.target())
	out.Evals = evals
	return out
}

func init() { ev.Register("operands", runOperands) }

func TestOperands(t *testing.T) {
	ev.Check(t, ev.Get(prop), "operands", genCase, runOperands)
}
