package c07

import (
	"fmt"
	"math/big"
	"testing"
)

func TestZZGold(t *testing.T) {
	for _, n := range []int{12, 16, 17, 24, 32, 33, 64} {
		sp := specs["NewUDividerGoldschmidtFast"]
		cs := Case{B: "NewUDividerGoldschmidtFast", GMW: true, W: []int{n, n}, WR: n, Mode: "div"}
		circ, err, pm := buildCircuit(&cs, sp)
		if err != nil || pm != "" {
			t.Fatal(err, pm)
		}
		ones := new(big.Int).Sub(new(big.Int).Lsh(big.NewInt(1), uint(n)), big.NewInt(1))
		bad := 0
		first := ""
		lim := int64(3000)
		if n >= 64 {
			lim = 800
		}
		for _, a := range []*big.Int{ones, new(big.Int).Sub(ones, big.NewInt(1)), new(big.Int).Rsh(ones, 1), new(big.Int).Rsh(ones, 3)} {
			for b := int64(1); b < lim; b++ {
				bb := big.NewInt(b)
				if bb.BitLen() > n {
					break
				}
				got, _ := circ.Compute([]*big.Int{a, bb})
				want := new(big.Int).Quo(a, bb)
				if got[0].Cmp(want) != 0 {
					bad++
					if first == "" {
						first = fmt.Sprintf("%s / %d = %s, circuit %s", a.Text(16), b, want.Text(16), got[0].Text(16))
					}
				}
			}
		}
		fmt.Printf("GOLD n=%d gates=%d bad=%d first: %s\n", n, circ.NumGates, bad, first)
	}
}
