// C07: arithmetic and logic circuit builders are exact for every width.
//
// Every builder of /repo/compiler/circuits is driven the way
// ssa.Program.CompileCircuit/Circuit drives it (fresh compiler, operand wires
// are the circuit's input wires, a fresh result slice is handed to the
// builder, the possibly replaced slice elements are connected to output wires
// with cc.ID, then ConstPropagate, ShortCircuitXORZero, optional Prune,
// Compile) and the compiled circuit is evaluated.  The oracle is math/big
// reduced modulo 2^(result width).
package c07

import (
	"fmt"
	"math/big"
	"runtime"
	"runtime/debug"
	"strings"
	"testing"

	"github.com/markkurossi/mpc/circuit"
	"github.com/markkurossi/mpc/compiler/circuits"
	"github.com/markkurossi/mpc/compiler/utils"
	"github.com/markkurossi/mpc/types"
	"pgregory.net/rapid"

	"verifharness/internal/ev"
)

const prop = "C07"

// Case is one circuit (builder, target, widths, parameter) and the operand
// values it is evaluated on.
type Case struct {
	B     string `json:"b"`               // builder (Go function name)
	GMW   bool   `json:"gmw"`             // Params.Target = TargetGMW
	Prune bool   `json:"prune,omitempty"` // Params.OptPruneGates
	W     []int  `json:"w"`               // operand widths
	WR    int    `json:"wr"`              // result width
	P     int    `json:"p,omitempty"`     // multiplier threshold/limit, bit index, element size
	Mode  string `json:"mode,omitempty"`  // dividers: div (q only), mod (r only), both
	// Vals are operand tuples in hex; empty = all 2^(sum W) assignments.
	Vals [][]string `json:"vals,omitempty"`
}

func init() {
	ev.Register("builders", run)
	// Building circuits allocates millions of small objects.
	debug.SetGCPercent(400)
}

// ---------------------------------------------------------------------------
// Builder table.

type wires = []*circuits.Wire

type spec struct {
	id     string
	family string // addsub, mul, bin, udiv, idiv, ucmp, icmp, logic, bittest, mux, index
	nops   int
	signed bool
	build  func(cc *circuits.Compiler, cs *Case, in []wires, out []wires) error
	// oracle returns the exact (unreduced) results, one per output, or nil
	// when the operand tuple is outside the property (zero divisor,
	// out-of-range index).
	oracle func(cs *Case, in []*big.Int) []*big.Int
}

type bin3 func(cc *circuits.Compiler, x, y, z []*circuits.Wire) error
type div4 func(cc *circuits.Compiler, a, b, q, r []*circuits.Wire) error

func b3(f bin3) func(*circuits.Compiler, *Case, []wires, []wires) error {
	return func(cc *circuits.Compiler, cs *Case, in []wires, out []wires) error {
		return f(cc, in[0], in[1], out[0])
	}
}

func bdiv(f div4) func(*circuits.Compiler, *Case, []wires, []wires) error {
	return func(cc *circuits.Compiler, cs *Case, in []wires, out []wires) error {
		switch cs.Mode {
		case "div":
			return f(cc, in[0], in[1], out[0], nil)
		case "mod":
			return f(cc, in[0], in[1], nil, out[0])
		default:
			return f(cc, in[0], in[1], out[0], out[1])
		}
	}
}

func one(v *big.Int) []*big.Int { return []*big.Int{v} }

func boolInt(b bool) *big.Int {
	if b {
		return big.NewInt(1)
	}
	return big.NewInt(0)
}

// signedWidth is the width at which the signed builders read the sign: they
// zero-pad the shorter operand first (cc.ZeroPad), so the longer operand is
// two's complement at its own width and a shorter operand is a non-negative
// magnitude.  ssa.Program.Circuit relies on exactly this: it sign-extends
// non-constant signed operands to the widest operand itself and leaves
// (non-negative) constants short.
func (cs *Case) signedWidth() int { return imax(cs.W[0], cs.W[1]) }

// toSigned interprets the w-bit value v as two's complement.
func toSigned(v *big.Int, w int) *big.Int {
	if v.Bit(w-1) == 0 {
		return v
	}
	return new(big.Int).Sub(v, new(big.Int).Lsh(big.NewInt(1), uint(w)))
}

func divModes(cs *Case, q, r *big.Int) []*big.Int {
	switch cs.Mode {
	case "div":
		return one(q)
	case "mod":
		return one(r)
	default:
		return []*big.Int{q, r}
	}
}

func udivOracle(cs *Case, in []*big.Int) []*big.Int {
	if in[1].Sign() == 0 {
		return nil
	}
	q, r := new(big.Int).QuoRem(in[0], in[1], new(big.Int))
	return divModes(cs, q, r)
}

// Signed division truncates toward zero; the remainder is |a| mod |b| (doc
// comment of NewIDivider: operands are made positive, only the quotient is
// negated; pinned by testsuite/lang/modi.mpcl).
func idivOracle(cs *Case, in []*big.Int) []*big.Int {
	a := toSigned(in[0], cs.signedWidth())
	b := toSigned(in[1], cs.signedWidth())
	if b.Sign() == 0 {
		return nil
	}
	q := new(big.Int).Quo(a, b)
	r := new(big.Int).Mod(new(big.Int).Abs(a), new(big.Int).Abs(b))
	return divModes(cs, q, r)
}

func cmpOracle(signed bool, ok func(c int) bool) func(*Case, []*big.Int) []*big.Int {
	return func(cs *Case, in []*big.Int) []*big.Int {
		x, y := in[0], in[1]
		if signed {
			x, y = toSigned(x, cs.signedWidth()), toSigned(y, cs.signedWidth())
		}
		return one(boolInt(ok(x.Cmp(y))))
	}
}

func arith(f func(z, x, y *big.Int) *big.Int) func(*Case, []*big.Int) []*big.Int {
	return func(cs *Case, in []*big.Int) []*big.Int {
		return one(f(new(big.Int), in[0], in[1]))
	}
}

func popcount(v *big.Int) int {
	n := 0
	for i := 0; i < v.BitLen(); i++ {
		n += int(v.Bit(i))
	}
	return n
}

// indexBits mirrors the documentation of NewIndex: the minimum number of index
// bits (at least one) that covers all n elements.
func indexBits(n int) int {
	bits := 1
	for 1<<bits < n {
		bits++
	}
	return bits
}

func indexOracle(cs *Case, in []*big.Int) []*big.Int {
	size := cs.P
	n := cs.W[0] / size
	bits := indexBits(n)
	idx := new(big.Int).And(in[1], new(big.Int).Sub(new(big.Int).Lsh(big.NewInt(1), uint(bits)), big.NewInt(1)))
	if idx.Cmp(big.NewInt(int64(n))) >= 0 {
		return nil // element does not exist: not covered by the property
	}
	i := int(idx.Int64())
	el := new(big.Int).Rsh(in[0], uint(i*size))
	el.And(el, new(big.Int).Sub(new(big.Int).Lsh(big.NewInt(1), uint(size)), big.NewInt(1)))
	return one(el)
}

var specs = map[string]*spec{}
var specOrder []string

func reg(s *spec) {
	specs[s.id] = s
	specOrder = append(specOrder, s.id)
}

func init() {
	add := arith((*big.Int).Add)
	sub := arith((*big.Int).Sub)
	mul := arith((*big.Int).Mul)

	reg(&spec{id: "NewAdder", family: "addsub", nops: 2, build: b3(circuits.NewAdder), oracle: add})
	reg(&spec{id: "NewKoggeStoneAdder", family: "addsub", nops: 2, build: b3(circuits.NewKoggeStoneAdder), oracle: add})
	reg(&spec{id: "NewSubtractor", family: "addsub", nops: 2, build: b3(circuits.NewSubtractor), oracle: sub})
	reg(&spec{id: "NewKoggeStoneSubtractor", family: "addsub", nops: 2, build: b3(circuits.NewKoggeStoneSubtractor), oracle: sub})

	reg(&spec{id: "NewMultiplier", family: "mul", nops: 2, oracle: mul,
		build: func(cc *circuits.Compiler, cs *Case, in []wires, out []wires) error {
			return circuits.NewMultiplier(cc, cs.P, in[0], in[1], out[0])
		}})
	reg(&spec{id: "NewArrayMultiplier", family: "mul", nops: 2, build: b3(circuits.NewArrayMultiplier), oracle: mul})
	reg(&spec{id: "NewKaratsubaMultiplier", family: "mul", nops: 2, oracle: mul,
		build: func(cc *circuits.Compiler, cs *Case, in []wires, out []wires) error {
			return circuits.NewKaratsubaMultiplier(cc, cs.P, in[0], in[1], out[0])
		}})
	reg(&spec{id: "NewWallaceMultiplier", family: "mul", nops: 2, build: b3(circuits.NewWallaceMultiplier), oracle: mul})

	reg(&spec{id: "NewBinaryAND", family: "bin", nops: 2, build: b3(circuits.NewBinaryAND), oracle: arith((*big.Int).And)})
	reg(&spec{id: "NewBinaryOR", family: "bin", nops: 2, build: b3(circuits.NewBinaryOR), oracle: arith((*big.Int).Or)})
	reg(&spec{id: "NewBinaryXOR", family: "bin", nops: 2, build: b3(circuits.NewBinaryXOR), oracle: arith((*big.Int).Xor)})
	reg(&spec{id: "NewBinaryClear", family: "bin", nops: 2, build: b3(circuits.NewBinaryClear), oracle: arith((*big.Int).AndNot)})
	reg(&spec{id: "Hamming", family: "bin", nops: 2, build: b3(circuits.Hamming),
		oracle: func(cs *Case, in []*big.Int) []*big.Int {
			return one(big.NewInt(int64(popcount(new(big.Int).Xor(in[0], in[1])))))
		}})

	reg(&spec{id: "NewUDivider", family: "udiv", nops: 2, build: bdiv(circuits.NewUDivider), oracle: udivOracle})
	reg(&spec{id: "NewUDividerLong", family: "udiv", nops: 2, build: bdiv(circuits.NewUDividerLong), oracle: udivOracle})
	reg(&spec{id: "NewUDividerRestoring", family: "udiv", nops: 2, build: bdiv(circuits.NewUDividerRestoring), oracle: udivOracle})
	reg(&spec{id: "NewUDividerArray", family: "udiv", nops: 2, build: bdiv(circuits.NewUDividerArray), oracle: udivOracle})
	reg(&spec{id: "NewUDividerGoldschmidtFast", family: "udiv", nops: 2, build: bdiv(circuits.NewUDividerGoldschmidtFast), oracle: udivOracle})
	reg(&spec{id: "NewIDivider", family: "idiv", nops: 2, signed: true, build: bdiv(circuits.NewIDivider), oracle: idivOracle})

	lt := func(c int) bool { return c < 0 }
	le := func(c int) bool { return c <= 0 }
	gt := func(c int) bool { return c > 0 }
	ge := func(c int) bool { return c >= 0 }
	reg(&spec{id: "NewUintLtComparator", family: "ucmp", nops: 2, build: b3(circuits.NewUintLtComparator), oracle: cmpOracle(false, lt)})
	reg(&spec{id: "NewUintLeComparator", family: "ucmp", nops: 2, build: b3(circuits.NewUintLeComparator), oracle: cmpOracle(false, le)})
	reg(&spec{id: "NewUintGtComparator", family: "ucmp", nops: 2, build: b3(circuits.NewUintGtComparator), oracle: cmpOracle(false, gt)})
	reg(&spec{id: "NewUintGeComparator", family: "ucmp", nops: 2, build: b3(circuits.NewUintGeComparator), oracle: cmpOracle(false, ge)})
	reg(&spec{id: "NewEqComparator", family: "ucmp", nops: 2, build: b3(circuits.NewEqComparator), oracle: cmpOracle(false, func(c int) bool { return c == 0 })})
	reg(&spec{id: "NewNeqComparator", family: "ucmp", nops: 2, build: b3(circuits.NewNeqComparator), oracle: cmpOracle(false, func(c int) bool { return c != 0 })})
	reg(&spec{id: "NewIntLtComparator", family: "icmp", nops: 2, signed: true, build: b3(circuits.NewIntLtComparator), oracle: cmpOracle(true, lt)})
	reg(&spec{id: "NewIntLeComparator", family: "icmp", nops: 2, signed: true, build: b3(circuits.NewIntLeComparator), oracle: cmpOracle(true, le)})
	reg(&spec{id: "NewIntGtComparator", family: "icmp", nops: 2, signed: true, build: b3(circuits.NewIntGtComparator), oracle: cmpOracle(true, gt)})
	reg(&spec{id: "NewIntGeComparator", family: "icmp", nops: 2, signed: true, build: b3(circuits.NewIntGeComparator), oracle: cmpOracle(true, ge)})

	reg(&spec{id: "NewLogicalAND", family: "logic", nops: 2, build: b3(circuits.NewLogicalAND), oracle: arith((*big.Int).And)})
	reg(&spec{id: "NewLogicalOR", family: "logic", nops: 2, build: b3(circuits.NewLogicalOR), oracle: arith((*big.Int).Or)})

	reg(&spec{id: "NewBitSetTest", family: "bittest", nops: 1,
		build: func(cc *circuits.Compiler, cs *Case, in []wires, out []wires) error {
			return circuits.NewBitSetTest(cc, in[0], types.Size(cs.P), out[0])
		},
		oracle: func(cs *Case, in []*big.Int) []*big.Int { return one(big.NewInt(int64(in[0].Bit(cs.P)))) }})
	reg(&spec{id: "NewBitClrTest", family: "bittest", nops: 1,
		build: func(cc *circuits.Compiler, cs *Case, in []wires, out []wires) error {
			return circuits.NewBitClrTest(cc, in[0], types.Size(cs.P), out[0])
		},
		oracle: func(cs *Case, in []*big.Int) []*big.Int { return one(big.NewInt(int64(1 - in[0].Bit(cs.P)))) }})

	// Operands: cond, t, f.
	reg(&spec{id: "NewMUX", family: "mux", nops: 3,
		build: func(cc *circuits.Compiler, cs *Case, in []wires, out []wires) error {
			return circuits.NewMUX(cc, in[0], in[1], in[2], out[0])
		},
		oracle: func(cs *Case, in []*big.Int) []*big.Int {
			if in[0].Sign() != 0 {
				return one(in[1])
			}
			return one(in[2])
		}})
	// Operands: array (n elements of P bits), index.
	reg(&spec{id: "NewIndex", family: "index", nops: 2,
		build: func(cc *circuits.Compiler, cs *Case, in []wires, out []wires) error {
			return circuits.NewIndex(cc, cs.P, in[0], in[1], out[0])
		},
		oracle: indexOracle})
}

func (cs *Case) outWidths() []int {
	if cs.Mode == "both" {
		return []int{cs.WR, cs.WR}
	}
	return []int{cs.WR}
}

// valid checks the structural preconditions of a case (needed for replay
// files and as documentation of what the generators produce).
func (cs *Case) valid(sp *spec) string {
	if len(cs.W) != sp.nops {
		return "operand count"
	}
	for _, w := range cs.W {
		if w < 1 || w > 600 {
			return "operand width"
		}
	}
	if cs.WR < 1 || cs.WR > 900 {
		return "result width"
	}
	switch sp.family {
	case "udiv", "idiv":
		if cs.Mode != "div" && cs.Mode != "mod" && cs.Mode != "both" {
			return "mode"
		}
	case "ucmp", "icmp", "bittest":
		if cs.WR != 1 {
			return "result width must be 1"
		}
	case "logic":
		if cs.WR != 1 || cs.W[0] != 1 || cs.W[1] != 1 {
			return "logical operators are 1-bit"
		}
	case "mux":
		if cs.W[0] != 1 || cs.WR != imax(cs.W[1], cs.W[2]) {
			return "mux widths"
		}
	case "index":
		if cs.P < 1 || cs.W[0]%cs.P != 0 || cs.WR != cs.P {
			return "index widths"
		}
	}
	if cs.P < 0 {
		return "parameter"
	}
	if cs.B == "NewKaratsubaMultiplier" && cs.P < 3 {
		return "karatsuba limit < 3 does not terminate"
	}
	return ""
}

func imax(a, b int) int {
	if a > b {
		return a
	}
	return b
}

func imin(a, b int) int {
	if a < b {
		return a
	}
	return b
}

// ---------------------------------------------------------------------------
// Signatures and classes.

func (cs *Case) target() string {
	if cs.GMW {
		return "gmw"
	}
	return "yao"
}

// relation names the width relation that matters for the builder family.
func (cs *Case) relation(sp *spec) string {
	switch sp.family {
	case "addsub":
		mx := imax(cs.W[0], cs.W[1])
		switch {
		case cs.WR <= mx:
			return "wr<=max"
		case cs.WR == mx+1:
			return "wr=max+1"
		}
		return "wr>max+1"
	case "mul":
		mx := imax(cs.W[0], cs.W[1])
		r := "wr>2max"
		switch {
		case cs.WR <= mx:
			r = "wr<=max"
		case cs.WR <= 2*mx:
			r = "max<wr<=2max"
		}
		if cs.B == "NewKaratsubaMultiplier" && cs.P < 8 {
			r += ",limit<8"
		}
		return r
	case "bin":
		mx := imax(cs.W[0], cs.W[1])
		if cs.B == "Hamming" && mx == 1 {
			return "wx=wy=1"
		}
		switch {
		case cs.WR < mx:
			return "wr<max"
		case cs.WR == mx:
			return "wr=max"
		}
		return "wr>max"
	case "udiv", "idiv":
		// n = max(wx, wy): real callers pass wr = wx or wr = wy.
		op, n := "wx=wy", imax(cs.W[0], cs.W[1])
		if cs.W[0] < cs.W[1] {
			op = "wx<wy"
		} else if cs.W[0] > cs.W[1] {
			op = "wx>wy"
		}
		switch {
		case cs.WR < n:
			return op + ",wr<n"
		case cs.WR > n:
			return op + ",wr>n"
		}
		return op + ",wr=n"
	case "ucmp", "icmp":
		if cs.W[0] != cs.W[1] {
			return "wx!=wy"
		}
		return "wx=wy"
	case "mux":
		if cs.W[1] != cs.W[2] {
			return "wt!=wf"
		}
		return "wt=wf"
	case "index":
		n := cs.W[0] / cs.P
		if n&(n-1) == 0 {
			return "n=2^k"
		}
		return "n!=2^k"
	case "bittest":
		if cs.P >= cs.W[0] {
			return "idx>=w"
		}
		return "idx<w"
	}
	return "1bit"
}

// vclass names the operand-value class (or, for dividers on the relation every
// real caller uses, the error class) that matters for a family.  i is the
// index of the wrong output, got/exp its observed and exact value.
func (cs *Case) vclass(sp *spec, in []*big.Int, i int, got, exp *big.Int) string {
	if cs.B == "NewSubtractor" || cs.B == "NewKoggeStoneSubtractor" {
		if in[0].Cmp(in[1]) < 0 {
			return "/x<y"
		}
		return "/x>=y"
	}
	if sp.family != "udiv" && sp.family != "idiv" {
		return ""
	}
	rel := cs.relation(sp)
	if cs.goldschmidt() {
		// Known finding F11: the Goldschmidt quotient estimate can be 2
		// too large while only a +/-1 correction exists.  Quotient off
		// by exactly 2 (remainder by exactly 2*|b|) gets one
		// relation-independent signature per builder/target; every
		// other error keeps its relation-specific signature.
		if c := cs.errClass(sp, in, i, got, exp); c == "/q+2" || c == "/q-2" || c == "/r-2b" || c == "/r+2b" {
			return "/goldschmidt-off-by-2"
		}
	}
	if sp.family == "idiv" && strings.HasSuffix(rel, "wr>n") {
		w := cs.signedWidth()
		if in[0].Bit(w-1) != in[1].Bit(w-1) {
			return "/negative-quotient"
		}
		return "/nonnegative-quotient"
	}
	if rel != "wx=wy,wr=n" {
		return ""
	}
	return cs.errClass(sp, in, i, got, exp)
}

// goldschmidt tells whether the case is built on NewUDividerGoldschmidtFast.
func (cs *Case) goldschmidt() bool {
	switch cs.B {
	case "NewUDividerGoldschmidtFast":
		return true
	case "NewUDivider", "NewIDivider":
		return cs.target() == "gmw"
	}
	return false
}

// errClass classifies a wrong divider output: quotient off by k, remainder off
// by k*|divisor| (|k| <= 3), modulo 2^wr.
func (cs *Case) errClass(sp *spec, in []*big.Int, i int, got, exp *big.Int) string {
	// The dividers compute n = max(wx, wy) bit values and truncate or
	// zero-extend them to the result width: the error is classified modulo
	// 2^m with m = min(wr, n) (for the unsigned family; the signed family
	// negates at the result width).
	m := cs.WR
	if sp.family == "udiv" {
		if n := imax(cs.W[0], cs.W[1]); n < m {
			m = n
		}
		if got.BitLen() > m {
			return ""
		}
		exp = new(big.Int).And(exp, new(big.Int).Sub(new(big.Int).Lsh(big.NewInt(1), uint(m)), big.NewInt(1)))
	}
	if m < 2 {
		return ""
	}
	// Error class: quotient off by k, remainder off by k*|divisor| (|k| <= 3).
	half := new(big.Int).Lsh(big.NewInt(1), uint(m-1))
	d := new(big.Int).Sub(got, exp)
	if d.CmpAbs(half) > 0 {
		if d.Sign() > 0 {
			d.Sub(d, new(big.Int).Lsh(half, 1))
		} else {
			d.Add(d, new(big.Int).Lsh(half, 1))
		}
	}
	isRem := cs.Mode == "mod" || (cs.Mode == "both" && i == 1)
	if !isRem {
		if d.CmpAbs(big.NewInt(3)) <= 0 {
			return fmt.Sprintf("/q%+d", d.Int64())
		}
		return "/q-far-off"
	}
	b := in[1]
	if sp.family == "idiv" {
		b = new(big.Int).Abs(toSigned(b, cs.signedWidth()))
	}
	// got = exp + k*b modulo 2^wr (a wrong quotient q+k' gives k = -k').
	mod := new(big.Int).Lsh(half, 1)
	for k := int64(-3); k <= 3; k++ {
		v := new(big.Int).Mul(big.NewInt(k), b)
		v.Add(v, exp)
		v.Mod(v, mod)
		if k != 0 && v.Cmp(got) == 0 {
			return fmt.Sprintf("/r%+db", k)
		}
	}
	return "/r-far-off"
}

func (cs *Case) sig(sp *spec, vclass, kind string) string {
	if vclass == "/goldschmidt-off-by-2" {
		return fmt.Sprintf("%s/%s%s/%s", cs.B, cs.target(), vclass, kind)
	}
	return fmt.Sprintf("%s/%s/%s%s/%s", cs.B, cs.target(), cs.relation(sp), vclass, kind)
}

func widthBucket(w int) string {
	switch {
	case w <= 7:
		return "w<=7"
	case w <= 22:
		return "w8-22"
	case w <= 41:
		return "w23-41"
	case w <= 73:
		return "w42-73"
	}
	return "w>=74"
}

func (cs *Case) classes(sp *spec) []string {
	cl := []string{"builder=" + cs.B, "family=" + sp.family, "target=" + cs.target(),
		sp.family + ":" + cs.relation(sp)}
	mx := 0
	for _, w := range cs.W {
		mx = imax(mx, w)
	}
	cl = append(cl, widthBucket(mx))
	if sp.nops == 2 && sp.family != "index" {
		switch {
		case cs.W[0] == cs.W[1]:
			cl = append(cl, "wx=wy")
		case cs.W[0] < cs.W[1]:
			cl = append(cl, "wx<wy")
		default:
			cl = append(cl, "wx>wy")
		}
		if sp.signed && cs.W[0] != cs.W[1] {
			cl = append(cl, "signed-unequal-widths")
		}
	}
	if cs.Prune {
		cl = append(cl, "prune")
	}
	if cs.Mode != "" {
		cl = append(cl, "mode="+cs.Mode)
	}
	if len(cs.Vals) == 0 {
		cl = append(cl, "all-values")
	}
	return cl
}

// ---------------------------------------------------------------------------
// Driving a builder like ssa.Program.CompileCircuit does.

func ioArg(name string, bits int) circuit.IOArg {
	return circuit.IOArg{Name: name, Type: types.Info{Type: types.TUint,
		IsConcrete: true, Bits: types.Size(bits)}}
}

func panicSite() string {
	pcs := make([]uintptr, 40)
	n := runtime.Callers(3, pcs)
	frames := runtime.CallersFrames(pcs[:n])
	var lines []string
	for {
		f, more := frames.Next()
		if strings.Contains(f.Function, "markkurossi/mpc") {
			name := f.Function[strings.LastIndex(f.Function, "/")+1:]
			lines = append(lines, fmt.Sprintf("%s (%s:%d)", name,
				f.File[strings.LastIndex(f.File, "/")+1:], f.Line))
			if len(lines) >= 4 {
				break
			}
		}
		if !more {
			break
		}
	}
	return strings.Join(lines, " <- ")
}

func buildCircuit(cs *Case, sp *spec) (circ *circuit.Circuit, berr error, pmsg string) {
	defer func() {
		if r := recover(); r != nil {
			pmsg = fmt.Sprintf("%v at %s", r, panicSite())
		}
	}()
	params := utils.NewParams()
	if cs.GMW {
		params.Target = utils.TargetGMW
	}
	params.OptPruneGates = cs.Prune
	calloc := circuits.NewAllocator()

	var inputs, outputs circuit.IO
	var inWires []*circuits.Wire
	var ops []wires
	for i, w := range cs.W {
		inputs = append(inputs, ioArg(fmt.Sprintf("i%d", i), w))
		ws := calloc.Wires(types.Size(w))
		ops = append(ops, ws)
		inWires = append(inWires, ws...)
	}
	outW := cs.outWidths()
	for i, w := range outW {
		outputs = append(outputs, ioArg(fmt.Sprintf("o%d", i), w))
	}
	cc, err := circuits.NewCompiler(params, calloc, inputs, outputs, inWires, nil)
	if err != nil {
		return nil, err, ""
	}
	// CompileCircuit: prog.DefineConstants(cc.ZeroWire(), cc.OneWire()).
	cc.ZeroWire()
	cc.OneWire()

	var res []wires
	for _, w := range outW {
		res = append(res, calloc.Wires(types.Size(w)))
	}
	if err := sp.build(cc, cs, ops, res); err != nil {
		return nil, err, ""
	}
	// Ret instruction.
	for _, r := range res {
		for _, w := range r {
			o := calloc.Wire()
			cc.ID(w, o)
			cc.OutputWires = append(cc.OutputWires, o)
		}
	}
	for _, o := range cc.OutputWires {
		o.SetOutput(true)
	}
	cc.ConstPropagate()
	cc.ShortCircuitXORZero()
	if params.OptPruneGates {
		cc.Prune()
	}
	return cc.Compile(), nil, ""
}

// ---------------------------------------------------------------------------
// Bit-sliced evaluation of a compiled circuit on 64 assignments at once (the
// all-values mode).  circuit.Circuit.Compute is used for explicit values and
// is cross-checked against this evaluator on three assignments per circuit.

var lanePattern = [6]uint64{0xAAAAAAAAAAAAAAAA, 0xCCCCCCCCCCCCCCCC,
	0xF0F0F0F0F0F0F0F0, 0xFF00FF00FF00FF00, 0xFFFF0000FFFF0000,
	0xFFFFFFFF00000000}

func evalBlock(c *circuit.Circuit, nin int, block uint64, w []uint64) error {
	for i := range w {
		w[i] = 0
	}
	for i := 0; i < nin; i++ {
		if i < 6 {
			w[i] = lanePattern[i]
		} else if block>>(uint(i)-6)&1 == 1 {
			w[i] = ^uint64(0)
		}
	}
	for _, g := range c.Gates {
		switch g.Op {
		case circuit.XOR:
			w[g.Output] = w[g.Input0] ^ w[g.Input1]
		case circuit.XNOR:
			w[g.Output] = ^(w[g.Input0] ^ w[g.Input1])
		case circuit.AND:
			w[g.Output] = w[g.Input0] & w[g.Input1]
		case circuit.OR:
			w[g.Output] = w[g.Input0] | w[g.Input1]
		case circuit.INV:
			w[g.Output] = ^w[g.Input0]
		default:
			return fmt.Errorf("invalid gate %v", g.Op)
		}
	}
	return nil
}

type failures struct {
	first map[string]string
	order []string
	count map[string]int
}

func (f *failures) add(sig, format string, a ...interface{}) {
	if f.first == nil {
		f.first = map[string]string{}
		f.count = map[string]int{}
	}
	if _, ok := f.first[sig]; !ok {
		f.first[sig] = fmt.Sprintf(format, a...)
		f.order = append(f.order, sig)
	}
	f.count[sig]++
}

// outcome prefers a failure that is not a known finding, so that the search
// continues behind known findings.
func (f *failures) outcome(col *ev.Collector) (ev.Outcome, bool) {
	if len(f.order) == 0 {
		return ev.Outcome{}, false
	}
	pick := f.order[0]
	for _, s := range f.order {
		if !col.IsKnown(s) {
			pick = s
			break
		}
	}
	return ev.Fail(pick, "%s (%d evaluations of this case failed with this signature)",
		f.first[pick], f.count[pick]), true
}

func hexes(in []*big.Int) string {
	var s []string
	for _, v := range in {
		s = append(s, "0x"+v.Text(16))
	}
	return strings.Join(s, ", ")
}

func run(cs Case) ev.Outcome {
	col := ev.Get(prop)
	sp, ok := specs[cs.B]
	if !ok {
		return ev.Outcome{Skip: "unknown builder"}
	}
	if why := cs.valid(sp); why != "" {
		return ev.Outcome{Skip: "invalid case: " + why}
	}
	nin := 0
	for _, w := range cs.W {
		nin += w
	}
	outW := cs.outWidths()
	if len(cs.Vals) == 0 && (nin > 22 || cs.WR > 60) {
		return ev.Outcome{Skip: "all-values case too wide"}
	}
	desc := fmt.Sprintf("%s target=%s widths=%v result=%d p=%d mode=%q prune=%v",
		cs.B, cs.target(), cs.W, cs.WR, cs.P, cs.Mode, cs.Prune)

	circ, berr, pmsg := buildCircuit(&cs, sp)
	if pmsg != "" {
		return ev.Fail(cs.sig(sp, "", "panic"), "%s: builder panics: %s", desc, pmsg)
	}
	if berr != nil {
		return ev.Fail(cs.sig(sp, "", "error"), "%s: builder returns error: %v", desc, berr)
	}
	nout := 0
	for _, w := range outW {
		nout += w
	}
	if circ.Inputs.Size() != nin || circ.Outputs.Size() != nout || circ.NumWires < nin+nout {
		return ev.Fail(cs.sig(sp, "", "shape"), "%s: compiled circuit has %d inputs, %d outputs, %d wires",
			desc, circ.Inputs.Size(), circ.Outputs.Size(), circ.NumWires)
	}
	masks := make([]*big.Int, len(outW))
	for i, w := range outW {
		masks[i] = new(big.Int).Lsh(big.NewInt(1), uint(w))
	}

	var fl failures
	evals, outside := 0, 0
	check := func(in []*big.Int, got []*big.Int) {
		want := sp.oracle(&cs, in)
		if want == nil {
			outside++
			return
		}
		evals++
		for i := range want {
			exp := new(big.Int).Mod(want[i], masks[i])
			if exp.Cmp(got[i]) != 0 {
				fl.add(cs.sig(sp, cs.vclass(sp, in, i, got[i], exp), "wrong"),
					"%s: operands (%s): output %d = 0x%s, exact result mod 2^%d = 0x%s",
					desc, hexes(in), i, got[i].Text(16), outW[i], exp.Text(16))
				return
			}
		}
	}

	if len(cs.Vals) > 0 {
		for _, tuple := range cs.Vals {
			if len(tuple) != len(cs.W) {
				return ev.Outcome{Skip: "invalid case: value tuple"}
			}
			in := make([]*big.Int, len(tuple))
			for i, s := range tuple {
				v, ok := new(big.Int).SetString(s, 16)
				if !ok || v.Sign() < 0 || v.BitLen() > cs.W[i] {
					return ev.Outcome{Skip: "invalid case: value"}
				}
				in[i] = v
			}
			got, err := circ.Compute(in)
			if err != nil {
				return ev.Fail(cs.sig(sp, "", "compute-error"), "%s: Compute: %v", desc, err)
			}
			check(in, got)
		}
	} else {
		w := make([]uint64, circ.NumWires)
		total := uint64(1) << uint(nin)
		base := circ.NumWires - nout
		in := make([]*big.Int, len(cs.W))
		got := make([]*big.Int, len(outW))
		split := func(v uint64) {
			for i, wd := range cs.W {
				in[i] = new(big.Int).SetUint64(v & (1<<uint(wd) - 1))
				v >>= uint(wd)
			}
		}
		for block := uint64(0); block*64 < total; block++ {
			if err := evalBlock(circ, nin, block, w); err != nil {
				return ev.Fail(cs.sig(sp, "", "compute-error"), "%s: %v", desc, err)
			}
			for lane := uint64(0); lane < 64 && block*64+lane < total; lane++ {
				split(block*64 + lane)
				pos := base
				for i, wd := range outW {
					var g uint64
					for b := 0; b < wd; b++ {
						g |= (w[pos] >> lane & 1) << uint(b)
						pos++
					}
					got[i] = new(big.Int).SetUint64(g)
				}
				check(in, got)
			}
		}
		// Cross-check the library evaluator on three assignments.
		for _, v := range []uint64{0, total / 3, total - 1} {
			split(v)
			ref, err := circ.Compute(in)
			if err != nil {
				return ev.Fail(cs.sig(sp, "", "compute-error"), "%s: Compute: %v", desc, err)
			}
			if err := evalBlock(circ, nin, v/64, w); err != nil {
				return ev.Fail(cs.sig(sp, "", "compute-error"), "%s: %v", desc, err)
			}
			pos := base
			for i, wd := range outW {
				for b := 0; b < wd; b++ {
					if uint(w[pos]>>(v%64)&1) != ref[i].Bit(b) {
						return ev.Fail("harness/evaluators-disagree",
							"%s: operands (%s): Circuit.Compute and the bit-sliced evaluator disagree on output %d bit %d",
							desc, hexes(in), i, b)
					}
					pos++
				}
			}
		}
	}

	if out, bad := fl.outcome(col); bad {
		out.Evals = imax(evals, 1)
		out.Classes = cs.classes(sp)
		return out
	}
	if evals == 0 {
		return ev.Outcome{Skip: "no operand tuple inside the property"}
	}
	mx := 0
	uneq := false
	for _, w := range cs.W {
		mx = imax(mx, w)
		if w != cs.W[0] {
			uneq = true
		}
	}
	// Non-trivial: widths unequal, or result width != max, or width >= 9, or
	// an operand with the top bit set (always present in all-values mode).
	nontrivial := uneq || cs.WR != mx || mx >= 9 || len(cs.Vals) == 0
	if !nontrivial {
		for _, tuple := range cs.Vals {
			for i, s := range tuple {
				v, _ := new(big.Int).SetString(s, 16)
				if v.Bit(cs.W[i]-1) == 1 {
					nontrivial = true
				}
			}
		}
	}
	out := ev.OK(nontrivial, cs.classes(sp)...)
	out.Evals = evals
	if outside > 0 {
		col.Count("operand-tuples-outside-property(zero divisor/no such element)", outside)
	}
	return out
}

// ---------------------------------------------------------------------------
// Generators.

// Algorithm-switch widths: the Karatsuba threshold table switches at 16-21,
// 37-41, 71-78; Goldschmidt uses the ROM for n >= 4 (m = min(8, n-1)) and
// changes its iteration count with n; 2^k and 2^k +/- 1.  Groups are ordered
// by cost: rapid biases towards the first ones.
var switchGroups = [][]int{
	{15, 16, 17, 18, 19, 20, 21, 22, 23},
	{15, 16, 17, 18, 19, 20, 21, 22, 23},
	{8, 9, 10},
	{36, 37, 38, 39, 40, 41, 42},
	{31, 32, 33},
	{36, 37, 38, 39, 40, 41, 42},
	{63, 64, 65},
	{70, 71, 72, 73, 78, 79},
	{127, 128, 129, 130},
}

// Widths for builders whose circuits grow quickly (Goldschmidt divider and
// everything that dispatches to it): 0.05 s at 16 bits, 0.3 s at 32, 1-3 s at
// 64, 10-50 s at 130.
func heavy(b string, gmw bool) bool {
	switch b {
	case "NewUDividerGoldschmidtFast":
		return true
	case "NewUDivider", "NewIDivider":
		return gmw
	}
	return false
}

// pick draws a categorical choice in [0, n).  rapid's integer generators are
// strongly biased towards small values (good for widths and operands, where
// small is simple), which would distort categorical choices: the first builder
// of a list got 42% of the cases.  The raw draw is therefore mixed
// (splitmix64 finaliser, a bijection) before it is reduced.
func pick(t *rapid.T, label string, n int) int {
	z := rapid.Uint64().Draw(t, label) + 0x9e3779b97f4a7c15
	z = (z ^ (z >> 30)) * 0xbf58476d1ce4e5b9
	z = (z ^ (z >> 27)) * 0x94d049bb133111eb
	z ^= z >> 31
	return int(z % uint64(n))
}

func pickFrom[T any](t *rapid.T, label string, xs []T) T {
	return xs[pick(t, label, len(xs))]
}

func drawHeavyWidth(t *rapid.T, label string) int {
	j := pick(t, label+"-heavy", 200)
	switch {
	case j < 150:
		return pickFrom(t, label, []int{8, 9, 10, 15, 16, 17, 18, 21, 22, 24})
	case j < 188:
		return pickFrom(t, label, []int{31, 32, 33})
	case j < 196:
		return pickFrom(t, label, []int{40, 41})
	case j < 199:
		return pickFrom(t, label, []int{63, 64, 65})
	}
	if ev.Get(prop).Thorough() {
		return pickFrom(t, label, []int{127, 128, 129, 130})
	}
	return 64
}

func drawWidth(t *rapid.T, label string, hv bool) int {
	// Low draws (rapid's bias) select the algorithm-switch table.
	k := pick(t, label+"-kind", 100)
	switch {
	case k < 55:
		if hv {
			return drawHeavyWidth(t, label)
		}
		return pickFrom(t, label, pickFrom(t, label+"-group", switchGroups))
	case k < 75:
		if hv {
			return rapid.IntRange(1, 33).Draw(t, label)
		}
		return rapid.IntRange(1, 130).Draw(t, label)
	}
	return rapid.IntRange(1, 7).Draw(t, label)
}

func drawValue(t *rapid.T, w int, label string) *big.Int {
	one := big.NewInt(1)
	k := pick(t, label+"-kind", 12)
	switch k {
	case 0:
		return big.NewInt(0)
	case 1:
		return big.NewInt(1)
	case 2: // all ones
		return new(big.Int).Sub(new(big.Int).Lsh(one, uint(w)), one)
	case 3, 4, 5: // 2^k, 2^k-1, 2^k+1
		e := rapid.IntRange(0, w-1).Draw(t, label+"-exp")
		v := new(big.Int).Lsh(one, uint(e))
		if k == 4 {
			v.Sub(v, one)
		} else if k == 5 {
			v.Add(v, one)
		}
		return v.And(v, new(big.Int).Sub(new(big.Int).Lsh(one, uint(w)), one))
	}
	// Random, half of them with the top bit forced.
	v := new(big.Int)
	for i := 0; i < w; i += 32 {
		v.Lsh(v, 32)
		v.Or(v, new(big.Int).SetUint64(uint64(rapid.Uint32().Draw(t, label+"-bits"))))
	}
	v.And(v, new(big.Int).Sub(new(big.Int).Lsh(one, uint(w)), one))
	if k >= 9 {
		v.SetBit(v, w-1, 1)
	}
	if k == 11 && w > 1 { // small magnitude negative / near the top
		v.Sub(new(big.Int).Lsh(one, uint(w)), big.NewInt(int64(1+rapid.IntRange(0, 7).Draw(t, label+"-near"))))
		v.And(v, new(big.Int).Sub(new(big.Int).Lsh(one, uint(w)), one))
	}
	return v
}

var builderWeights = []struct {
	id string
	n  int
}{
	{"NewMultiplier", 8}, {"NewKaratsubaMultiplier", 6}, {"NewIDivider", 6}, {"NewUDivider", 5},
	{"NewSubtractor", 4}, {"NewKoggeStoneSubtractor", 3}, {"NewWallaceMultiplier", 3}, {"NewArrayMultiplier", 3},
	{"NewUDividerGoldschmidtFast", 3}, {"NewAdder", 4}, {"NewKoggeStoneAdder", 3},
	{"NewUDividerLong", 2}, {"NewUDividerRestoring", 2}, {"NewUDividerArray", 2},
	{"Hamming", 3}, {"NewIndex", 4}, {"NewMUX", 3},
	{"NewIntLtComparator", 2}, {"NewIntLeComparator", 2}, {"NewIntGtComparator", 2}, {"NewIntGeComparator", 2},
	{"NewUintLtComparator", 1}, {"NewUintLeComparator", 1}, {"NewUintGtComparator", 1}, {"NewUintGeComparator", 1},
	{"NewEqComparator", 2}, {"NewNeqComparator", 1},
	{"NewBinaryAND", 1}, {"NewBinaryOR", 1}, {"NewBinaryXOR", 1}, {"NewBinaryClear", 1},
	{"NewBitSetTest", 1}, {"NewBitClrTest", 1}, {"NewLogicalAND", 1}, {"NewLogicalOR", 1},
}

var weightedBuilders []string

func init() {
	for _, b := range builderWeights {
		for i := 0; i < b.n; i++ {
			weightedBuilders = append(weightedBuilders, b.id)
		}
	}
}

func genCase(t *rapid.T) Case {
	var cs Case
	cs.B = pickFrom(t, "builder", weightedBuilders)
	sp := specs[cs.B]
	cs.GMW = rapid.Bool().Draw(t, "gmw")
	cs.Prune = pick(t, "prune", 4) == 0
	hv := heavy(cs.B, cs.GMW)

	twoWidths := func() (int, int) {
		wx := drawWidth(t, "wx", hv)
		k := pick(t, "wy-rel", 100)
		switch {
		case k < 30:
			return wx, drawWidth(t, "wy", hv)
		case k < 50: // the other operand is an untyped constant: int32/int64
			c := pickFrom(t, "const-width", []int{32, 32, 64})
			if k < 40 {
				return wx, c
			}
			return c, wx
		}
		return wx, wx
	}
	resultWidth := func(wx, wy int) int {
		mn, mx := imin(wx, wy), imax(wx, wy)
		switch pick(t, "wr-kind", 10) {
		case 0:
			return mn
		case 1, 2, 3:
			return mx
		case 4:
			return mx + 1
		case 5, 6:
			return 2 * mx
		case 7:
			return 2*mx + 3
		}
		return rapid.IntRange(1, 2*mx+3).Draw(t, "wr")
	}

	switch sp.family {
	case "addsub", "mul", "bin":
		wx, wy := twoWidths()
		cs.W = []int{wx, wy}
		cs.WR = resultWidth(wx, wy)
		switch cs.B {
		case "NewMultiplier":
			cs.P = pickFrom(t, "threshold", []int{0, 0, 8, 9, 16, 21})
		case "NewKaratsubaMultiplier":
			cs.P = pickFrom(t, "limit", []int{4, 8, 9, 10, 11, 12, 16, 19, 21})
		}
	case "udiv", "idiv":
		wx, wy := twoWidths()
		cs.W = []int{wx, wy}
		cs.Mode = pickFrom(t, "mode", []string{"div", "div", "mod", "mod", "both"})
		// Real callers pass a result as wide as one of the operands; other
		// result widths are drawn less often.
		if pick(t, "wr-real", 10) < 7 {
			cs.WR = pickFrom(t, "wr", []int{wx, wy, imax(wx, wy)})
		} else {
			cs.WR = resultWidth(wx, wy)
		}
	case "ucmp", "icmp":
		wx, wy := twoWidths()
		cs.W = []int{wx, wy}
		cs.WR = 1
	case "logic":
		cs.W = []int{1, 1}
		cs.WR = 1
	case "bittest":
		w := drawWidth(t, "wx", false)
		cs.W = []int{w}
		cs.P = rapid.IntRange(0, w+2).Draw(t, "bit")
		cs.WR = 1
	case "mux":
		wt, wf := twoWidths()
		cs.W = []int{1, wt, wf}
		cs.WR = imax(wt, wf)
	case "index":
		size := pickFrom(t, "size", []int{1, 2, 3, 7, 8, 9, 32, 33})
		n := rapid.IntRange(1, 17).Draw(t, "n")
		iw := pickFrom(t, "index-width", []int{1, 2, 3, 4, 5, 6, 8, 32, 64, 70})
		cs.W = []int{n * size, iw}
		cs.P = size
		cs.WR = size
	}

	nvals := rapid.IntRange(4, 10).Draw(t, "nvals")
	for i := 0; i < nvals; i++ {
		var tuple []string
		for j, w := range cs.W {
			v := drawValue(t, w, fmt.Sprintf("v%d", j))
			if (sp.family == "udiv" || sp.family == "idiv") && i%3 == 1 {
				// Largest quotients: dividend near 2^w (or near the most
				// positive signed value), small divisor.  Reciprocal based
				// dividers are most sensitive here.
				if j == 0 {
					top := w
					if sp.family == "idiv" && pick(t, "v0-positive", 2) == 0 {
						top = imax(cs.W[0], cs.W[1]) - 1
					}
					v.Lsh(big.NewInt(1), uint(imin(top, w)))
					v.Sub(v, big.NewInt(int64(1+rapid.IntRange(0, 3).Draw(t, "v0-near"))))
					if v.Sign() < 0 {
						v.SetInt64(0)
					}
				} else {
					v.SetInt64(int64(rapid.IntRange(1, 5000).Draw(t, "v1-small")))
					v.And(v, new(big.Int).Sub(new(big.Int).Lsh(big.NewInt(1), uint(w)), big.NewInt(1)))
				}
			}
			if (sp.family == "udiv" || sp.family == "idiv") && j == 1 && v.Sign() == 0 {
				v.SetInt64(1) // divisor is never zero (constructive, no rejection)
			}
			if sp.family == "index" && j == 1 && i%2 == 0 {
				// Half of the indices address an existing element.
				n := cs.W[0] / cs.P
				v.Mod(v, big.NewInt(int64(n)))
				v.And(v, new(big.Int).Sub(new(big.Int).Lsh(big.NewInt(1), uint(w)), big.NewInt(1)))
			}
			tuple = append(tuple, v.Text(16))
		}
		cs.Vals = append(cs.Vals, tuple)
	}
	return cs
}

func TestBuilders(t *testing.T) {
	ev.Check(t, ev.Get(prop), "builders", genCase, run)
}

// TestExhaustive enumerates, for every builder and both targets, all operand
// width pairs up to maxW bits, every result width 1..2*max+3 (where the
// builder accepts more than one) and all operand values.
func TestExhaustive(t *testing.T) {
	col := ev.Get(prop)
	maxW := col.N(5, 7)
	deepW := maxW + 3
	shard, nshards := ev.Shard()
	idx := 0
	ev.Each(t, col, "builders", func(yield func(Case) bool) {
		emit := func(cs Case) {
			idx++
			if idx%nshards != shard {
				return
			}
			yield(cs)
		}
		for _, id := range specOrder {
			sp := specs[id]
			for _, gmw := range []bool{false, true} {
				// Pruning is alternated so that both settings are covered.
				switch sp.family {
				case "addsub", "mul", "bin":
					params := []int{0}
					if id == "NewKaratsubaMultiplier" {
						params = []int{4, 8}
					}
					for _, p := range params {
						for wx := 1; wx <= maxW; wx++ {
							for wy := 1; wy <= maxW; wy++ {
								for wr := 1; wr <= 2*imax(wx, wy)+3; wr++ {
									emit(Case{B: id, GMW: gmw, Prune: idx%2 == 0,
										W: []int{wx, wy}, WR: wr, P: p})
								}
							}
						}
					}
				case "udiv", "idiv":
					for _, mode := range []string{"div", "mod", "both"} {
						for wx := 1; wx <= maxW; wx++ {
							for wy := 1; wy <= maxW; wy++ {
								for wr := 1; wr <= 2*imax(wx, wy)+3; wr++ {
									emit(Case{B: id, GMW: gmw, Prune: idx%2 == 0,
										W: []int{wx, wy}, WR: wr, Mode: mode})
								}
							}
						}
					}
				case "ucmp", "icmp":
					for wx := 1; wx <= maxW; wx++ {
						for wy := 1; wy <= maxW; wy++ {
							emit(Case{B: id, GMW: gmw, Prune: idx%2 == 0,
								W: []int{wx, wy}, WR: 1})
						}
					}
				case "logic":
					emit(Case{B: id, GMW: gmw, W: []int{1, 1}, WR: 1})
				case "bittest":
					for wx := 1; wx <= maxW+2; wx++ {
						for bit := 0; bit <= wx+1; bit++ {
							emit(Case{B: id, GMW: gmw, Prune: idx%2 == 0,
								W: []int{wx}, WR: 1, P: bit})
						}
					}
				case "mux":
					for wt := 1; wt <= maxW; wt++ {
						for wf := 1; wf <= maxW; wf++ {
							emit(Case{B: id, GMW: gmw, Prune: idx%2 == 0,
								W: []int{1, wt, wf}, WR: imax(wt, wf)})
						}
					}
				case "index":
					for size := 1; size <= 3; size++ {
						for n := 1; n*size <= 2*maxW; n++ {
							for iw := 1; iw <= 5; iw++ {
								emit(Case{B: id, GMW: gmw, Prune: idx%2 == 0,
									W: []int{n * size, iw}, WR: size, P: size})
							}
						}
					}
				}
			}
		}
		// Deep part: the width relation every real caller uses (equal operand
		// widths, result as wide as the operands; also 2n for multipliers and
		// n+1 for adders) for wider operands, all values.  The Goldschmidt
		// divider (and what dispatches to it) goes one bit further.
		for n := maxW + 1; n <= deepW+1; n++ {
			for _, id := range specOrder {
				sp := specs[id]
				for _, gmw := range []bool{false, true} {
					if n > deepW && !heavy(id, gmw) {
						continue
					}
					cs := Case{B: id, GMW: gmw, Prune: idx%2 == 0, W: []int{n, n}, WR: n}
					switch sp.family {
					case "addsub":
						emit(cs)
						cs.WR = n + 1
						emit(cs)
					case "mul":
						if id == "NewKaratsubaMultiplier" {
							cs.P = 4
						}
						emit(cs)
						cs.WR = 2 * n
						emit(cs)
					case "bin":
						emit(cs)
					case "udiv", "idiv":
						cs.Mode = "both"
						emit(cs)
					case "ucmp", "icmp":
						cs.WR = 1
						emit(cs)
					}
				}
			}
		}
	}, run)
	col.Note("deep exhaustive sub-run: two-operand builders x {Yao,GMW} x equal operand widths %d..%d (Goldschmidt based dividers ..%d) x result width n (n+1 for adders/subtractors, 2n for multipliers as well) x all operand values", maxW+1, deepW, deepW+1)
	col.Note("exhaustive sub-run: every builder x {Yao,GMW} x all operand width pairs <= %d bits x every result width 1..2*max+3 (fixed result width for comparators, mux, index, bit tests) x all operand values", maxW)
}

func TestReplay(t *testing.T) { ev.Replay(t, ev.Get(prop)) }
