// C02: two-party protocol — both parties obtain f(x, y).
package c02

import (
	"fmt"
	"math/big"
	"sync"
	"testing"
	"time"

	"github.com/markkurossi/mpc/circuit"
	"github.com/markkurossi/mpc/compiler"
	"github.com/markkurossi/mpc/compiler/utils"
	"github.com/markkurossi/mpc/env"
	"github.com/markkurossi/mpc/ot"
	"github.com/markkurossi/mpc/types"
	"pgregory.net/rapid"

	"verifharness/internal/ev"
	"verifharness/internal/gen"
	"verifharness/internal/mpcl"
	"verifharness/internal/xport"
)

const prop = "C02"

// Case is one protocol session.
type Case struct {
	// Exactly one of Circ / Prog is used: a hand-made circuit or the index
	// of a compiled MPCL program.
	Circ *gen.Circ `json:"circ,omitempty"`
	Prog string    `json:"prog,omitempty"`
	// Gen is a generated two-party MPCL program (compiled with the default
	// parameters); the oracle is still the gate-level evaluation of the
	// compiled circuit.
	Gen     *mpcl.Prog `json:"gen,omitempty"`
	X       string     `json:"x"` // garbler input bits, LSB first
	Y       string     `json:"y"` // evaluator input bits
	OT      string     `json:"ot"`
	Seed    uint64     `json:"seed"`
	FragsGE []int      `json:"frags_ge"` // evaluator's read fragmentation
	FragsEG []int      `json:"frags_eg"`
	// Reuse (OT kind co only): Earlier sessions on fresh connections run
	// before the judged one, and the named party ("evaluator", "garbler",
	// "both") keeps its ot.OT object across all of them, as the evaluator
	// loop of apps/garbled does; the other party starts each session with
	// a new object.
	Reuse   string `json:"reuse,omitempty"`
	Earlier int    `json:"earlier,omitempty"`
	// NegIn: an input of a signed scalar argument whose top bit is set is
	// handed over as the negative big.Int of the same two's complement
	// bits - what IOArg.Parse returns for "-3", i.e. what the command
	// line tools pass.
	NegIn bool `json:"neg_in,omitempty"`
}

// Compiled programs: name -> source.  Shapes the hand-made generator does not
// produce (real compiler output: multi-output, 1-bit, odd and unequal widths).
var progs = map[string]string{
	"add7_5": `package main
func main(a uint7, b uint5) uint8 { return uint8(a) + uint8(b) }`,
	"mul_multi": `package main
func main(a uint6, b uint6) (uint12, bool, uint3) {
	return uint12(a) * uint12(b), a > b, uint3(a ^ b)
}`,
	"cmp1": `package main
func main(a bool, b bool) (bool, bool) { return a && b, a != b }`,
	"signed": `package main
func main(a int9, b int9) (int9, int9, bool) {
	if a < b {
		return b - a, a / (b | 1), true
	}
	return a - b, a % (b | 1), false
}`,
	"array": `package main
func main(a [3]uint4, b uint4) (uint4, [3]uint4) {
	var r [3]uint4
	var s uint4
	for i := 0; i < 3; i++ {
		r[i] = a[i] ^ b
		s = s + a[i]
	}
	return s, r
}`,
	"wide": `package main
func main(a uint33, b uint17) uint33 { return a*uint33(b) + (a >> 3) }`,
}

var progNames = []string{"add7_5", "mul_multi", "cmp1", "signed", "array", "wide"}

var (
	compMu    sync.Mutex
	compCache = map[string]*circuit.Circuit{}
)

func compiled(name string) (*circuit.Circuit, error) {
	compMu.Lock()
	defer compMu.Unlock()
	if c, ok := compCache[name]; ok {
		return c, nil
	}
	src, ok := progs[name]
	if !ok {
		return nil, fmt.Errorf("unknown program %q", name)
	}
	c, _, err := compiler.New(utils.NewParams()).Compile(src, nil)
	if err != nil {
		return nil, err
	}
	compCache[name] = c
	return c, nil
}

var fragChoices = []int{0, 0, 1, 2, 3, 15, 16, 17, 31, 4095, 8191, 8192, 10000, 20000, 65537}

func drawFrags(t *rapid.T, label string) []int {
	n := rapid.IntRange(0, 5).Draw(t, label+"_n")
	var res []int
	for i := 0; i < n; i++ {
		res = append(res, rapid.SampledFrom(fragChoices).Draw(t, label))
	}
	return res
}

// COT is always built over the CO base OT: the IKNP set-up runs the base OT
// with reversed roles, which the RSA OT does not support (nobody pairs them).
// drawWide draws n input bits; long vectors are expanded from a drawn seed
// (one rapid draw per bit would make such cases very slow to generate).
func drawWide(t *rapid.T, n int, label string) []bool {
	if n <= 64 {
		return gen.DrawBits(t, n, label)
	}
	d := gen.NewDRBG(rapid.Uint64().Draw(t, label+"_seed"), 99)
	raw := d.Bytes((n + 7) / 8)
	res := make([]bool, n)
	mode := rapid.IntRange(0, 5).Draw(t, label+"_mode")
	for i := range res {
		switch mode {
		case 0:
		case 1:
			res[i] = true
		default:
			res[i] = raw[i/8]>>(uint(i)%8)&1 == 1
		}
	}
	return res
}

var (
	foldWidths     = []int{127, 128, 129, 255, 256, 257, 511, 512, 513, 1023, 1024, 1025, 2047, 2048, 2049, 4095, 4096, 4097}
	foldWidthsHuge = []int{8191, 8192, 8193, 16385, 65535, 65536, 65537}
)

var otKinds = []string{"co", "co", "cot", "cot-malicious", "rsa"}

func genCase(t *rapid.T) Case {
	var cs Case
	kind := rapid.IntRange(0, 4).Draw(t, "source")
	var nx, ny int
	if kind == 0 && rapid.Bool().Draw(t, "generated") {
		o := mpcl.Opts{NumParams: 2, MaxStmts: 5, MaxDepth: 2, Helpers: 1, Arrays: true,
			Loops: true, ScalarParams: true, MaxWidth: 24}
		cs.Gen = mpcl.Draw(t, o)
		main := cs.Gen.Main()
		nx, ny = cs.Gen.Bits(main.Params[0].T), cs.Gen.Bits(main.Params[1].T)
	} else if kind == 0 {
		cs.Prog = rapid.SampledFrom(progNames).Draw(t, "prog")
		c, err := compiled(cs.Prog)
		if err != nil {
			t.Fatalf("harness: compile %s: %v", cs.Prog, err)
		}
		nx, ny = int(c.Inputs[0].Type.Bits), int(c.Inputs[1].Type.Bits)
	} else if kind == 1 && rapid.IntRange(0, 4).Draw(t, "fold") == 0 {
		// Fold circuits: every input wire of both parties reaches an
		// output; input widths around the block sizes of label
		// generation, label transfer and OT extension, up to beyond
		// 2^16 wires.
		tab := foldWidths
		if rapid.IntRange(0, 2).Draw(t, "foldhuge") == 0 {
			tab = foldWidthsHuge
		}
		nx = tab[gen.Uniform(t, len(tab), "foldx")]
		ny = tab[gen.Uniform(t, len(tab), "foldy")]
		if rapid.Bool().Draw(t, "foldsmallside") {
			if rapid.Bool().Draw(t, "foldsmallx") {
				nx = rapid.IntRange(1, 9).Draw(t, "foldnx")
			} else {
				ny = rapid.IntRange(1, 9).Draw(t, "foldny")
			}
		}
		c := gen.DrawFold(t, []int{nx, ny}, rapid.IntRange(1, 4).Draw(t, "foldouts"))
		cs.Circ = &c
	} else {
		o := gen.CircOpts{MinArgs: 2, MaxArgs: 2, MaxWidth: 9, MaxGates: 60,
			MaxOuts: 4, MaxOutWidth: 5}
		if rapid.IntRange(0, 7).Draw(t, "wideins") == 0 {
			// Evaluator inputs of more than 1024 bits: several
			// chunks / check blocks of the OT extension.
			o.MaxWidth = 2600
			o.MinWidth1 = 1000
		}
		switch rapid.IntRange(0, 11).Draw(t, "wideouts") {
		case 0, 1:
			// Many output wires (results of more than 64 bits).
			o.MaxOutWidth = 40
			o.MaxGates = 120
		case 2:
			// Outputs on both sides of the machine word sizes.
			o.OutTable = []int{1, 7, 31, 32, 33, 63, 64, 64, 65, 127, 128, 129}
			o.MaxOuts = 3
			o.MaxGates = 450
		}
		// A party without input (what main(a T, b _) compiles to).
		o.ZeroWidthArgs = 16
		c := gen.DrawCirc(t, o)
		cs.Circ = &c
		nx, ny = c.In[0], c.In[1]
	}
	cs.X = gen.BitsOf(drawWide(t, nx, "x"))
	cs.Y = gen.BitsOf(drawWide(t, ny, "y"))
	cs.OT = rapid.SampledFrom(otKinds).Draw(t, "ot")
	if ny > 10 && cs.OT == "rsa" {
		cs.OT = "co"
	}
	if ny > 3000 && cs.OT == "co" {
		// One base OT per wire would take tens of seconds.
		cs.OT = "cot"
	}
	if ny > 1024 && rapid.Bool().Draw(t, "wide_malicious") {
		// Several check blocks of the malicious-mode extension.
		cs.OT = "cot-malicious"
	}
	cs.Seed = rapid.Uint64().Draw(t, "seed")
	if cs.OT == "co" && nx+ny <= 600 && rapid.IntRange(0, 3).Draw(t, "reuse") == 0 {
		cs.Reuse = rapid.SampledFrom([]string{"evaluator", "evaluator", "garbler", "both", "roles"}).Draw(t, "reuseparty")
		cs.Earlier = rapid.IntRange(1, 2).Draw(t, "earlier")
	}
	if cs.OT == "rsa" && ny <= 10 && rapid.IntRange(0, 1).Draw(t, "rsaroles") == 0 {
		// Two parties that keep their RSA OT objects and swap the
		// garbler and evaluator roles from session to session.
		cs.Reuse = "roles"
		cs.Earlier = 2
	}
	cs.FragsGE = drawFrags(t, "frag_ge")
	cs.FragsEG = drawFrags(t, "frag_eg")
	cs.NegIn = kind == 0 && rapid.IntRange(0, 2).Draw(t, "negin") > 0
	return cs
}

// rsaBudget limits the number of RSA sessions per process (key generation
// costs 0.1–1 s each).
var (
	rsaMu   sync.Mutex
	rsaUsed int
)

func rsaAllowed(limit int) bool {
	rsaMu.Lock()
	defer rsaMu.Unlock()
	if rsaUsed >= limit {
		return false
	}
	rsaUsed++
	return true
}

func makeOT(kind string, seed uint64, party uint64) ot.OT {
	r := gen.NewDRBG(seed, 10+party)
	r2 := gen.NewDRBG(seed, 20+party)
	switch kind {
	case "co":
		return ot.NewCO(r)
	case "rsa":
		return ot.NewRSA(r, 2048)
	case "cot":
		return ot.NewCOT(ot.NewCO(r), r2, false, false)
	case "cot-malicious":
		return ot.NewCOT(ot.NewCO(r), r2, true, false)
	}
	panic("unknown OT kind " + kind)
}

// vary derives the inputs of an earlier session from those of the judged one:
// rotated by k positions, every third bit inverted.
func vary(bits []bool, k int) []bool {
	n := len(bits)
	res := make([]bool, n)
	for i := range res {
		res[i] = bits[(i+k)%n] != ((i+k)%3 == 0)
	}
	return res
}

func bitsToInt(bits []bool) *big.Int {
	v := new(big.Int)
	for i, b := range bits {
		if b {
			v.SetBit(v, i, 1)
		}
	}
	return v
}

// asSigned returns v - 2^bits for a signed scalar argument whose top bit is
// set in v, and v otherwise.
func asSigned(v *big.Int, arg circuit.IOArg) *big.Int {
	n := int(arg.Type.Bits)
	if arg.Type.Type != types.TInt || len(arg.Compound) > 1 || n == 0 || v.Bit(n-1) == 0 {
		return v
	}
	return new(big.Int).Sub(v, new(big.Int).Lsh(big.NewInt(1), uint(n)))
}

func run(cs Case) ev.Outcome {
	col := ev.Get(prop)
	var circ *circuit.Circuit
	var err error
	if cs.Circ != nil {
		circ = cs.Circ.Build()
	} else if cs.Gen != nil {
		circ, _, err = compiler.New(utils.NewParams()).Compile(cs.Gen.Source(), nil)
		if err != nil {
			return ev.Outcome{Skip: "generated program does not compile (C03's domain): " + err.Error()}
		}
	} else {
		circ, err = compiled(cs.Prog)
		if err != nil {
			return ev.Outcome{Skip: "compile failed: " + err.Error()}
		}
	}
	if len(circ.Inputs) != 2 {
		return ev.Outcome{Skip: "not a 2-party circuit"}
	}
	nx, ny := int(circ.Inputs[0].Type.Bits), int(circ.Inputs[1].Type.Bits)
	x, y := gen.ParseBits(cs.X), gen.ParseBits(cs.Y)
	if len(x) != nx || len(y) != ny {
		return ev.Outcome{Skip: "input width mismatch"}
	}
	kind := cs.OT
	if kind == "rsa" {
		if !rsaAllowed(col.N(3, 12)) {
			kind = "co"
		}
	}

	// Reference: independent evaluation of the gate list, split per output.
	var gc gen.Circ
	if cs.Circ != nil {
		gc = *cs.Circ
	} else {
		gc = gen.FromCircuit(circ)
	}
	all := append(append([]bool{}, x...), y...)
	wires := gc.Eval(all)
	var outWidths []int
	for _, o := range circ.Outputs {
		outWidths = append(outWidths, int(o.Type.Bits))
	}
	want := gen.SplitBits(gc.OutputBits(wires), outWidths)

	sessions := 1
	if cs.Reuse != "" {
		if !(kind == "co" || (kind == "rsa" && cs.Reuse == "roles")) || cs.Earlier < 1 || cs.Earlier > 4 {
			return ev.Outcome{Skip: "OT reuse is generated for the co kind (and role swapping for rsa) with 1-4 earlier sessions"}
		}
		switch cs.Reuse {
		case "evaluator", "garbler", "both", "roles":
		default:
			return ev.Outcome{Skip: "unknown reuse party"}
		}
		sessions = cs.Earlier + 1
	}
	var gOT, eOT, partyP, partyQ ot.OT
	for sn := 0; sn < sessions; sn++ {
		last := sn == sessions-1
		// Earlier sessions use other inputs (rotated and partly inverted).
		sx, sy := x, y
		if !last {
			sx, sy = vary(x, sn+1), vary(y, sn+2)
		}
		swant := want
		if !last {
			sw := gc.Eval(append(append([]bool{}, sx...), sy...))
			swant = gen.SplitBits(gc.OutputBits(sw), outWidths)
		}
		d := xport.NewDuplex(cs.FragsGE, cs.FragsEG)
		gConn, eConn := d.Conns()
		cfg := &env.Config{Rand: gen.NewDRBG(cs.Seed, 1+100*uint64(sn))}
		if cs.Reuse == "roles" {
			// Two parties keep their OT objects; the roles alternate,
			// ending with P as the garbler of the judged session.
			if partyP == nil {
				partyP, partyQ = makeOT(kind, cs.Seed, 0), makeOT(kind, cs.Seed, 1)
			}
			if (sessions-1-sn)%2 == 0 {
				gOT, eOT = partyP, partyQ
			} else {
				gOT, eOT = partyQ, partyP
			}
		} else {
			if gOT == nil || !(cs.Reuse == "garbler" || cs.Reuse == "both") {
				gOT = makeOT(kind, cs.Seed, 100*uint64(sn))
			}
			if eOT == nil || !(cs.Reuse == "evaluator" || cs.Reuse == "both") {
				eOT = makeOT(kind, cs.Seed, 100*uint64(sn)+1)
			}
		}
		gIn, eIn := bitsToInt(sx), bitsToInt(sy)
		if cs.NegIn {
			gIn, eIn = asSigned(gIn, circ.Inputs[0]), asSigned(eIn, circ.Inputs[1])
		}
		g, e := gOT, eOT

		res := xport.RunPair(d,
			func() ([]*big.Int, error) {
				return circuit.Garbler(cfg, gConn, g, circ, gIn, false)
			},
			func() ([]*big.Int, error) {
				return circuit.Evaluator(eConn, e, circ, eIn, false)
			}, 10*time.Second, 120*time.Second)
		d.Close()

		desc := fmt.Sprintf("ot=%s x=%s y=%s", kind, gen.BitsOf(sx), gen.BitsOf(sy))
		if gIn.Sign() < 0 || eIn.Sign() < 0 {
			desc += fmt.Sprintf(" (as big.Int: x=%v y=%v)", gIn, eIn)
		}
		pre := ""
		if sessions > 1 {
			desc = fmt.Sprintf("session %d of %d (%s keeps its OT object): %s", sn+1, sessions, cs.Reuse, desc)
			pre = "reuse/"
		}
		if res.TimedOut {
			return ev.Outcome{Skip: "time budget exhausted (inconclusive)"}
		}
		if res.A.Panic != "" {
			return ev.Fail(pre+"garbler/panic/"+xport.PanicSiteOf(res.A.Panic),
				"%s: garbler panicked: %s", desc, res.A.Panic)
		}
		if res.B.Panic != "" {
			return ev.Fail(pre+"evaluator/panic/"+xport.PanicSiteOf(res.B.Panic),
				"%s: evaluator panicked: %s", desc, res.B.Panic)
		}
		if res.Stalled {
			return ev.Fail(pre+"stall/"+kind, "%s: session stalled (both parties blocked reading)", desc)
		}
		if res.A.Err != nil || res.B.Err != nil {
			return ev.Fail(pre+"error/"+kind, "%s: garbler err=%v evaluator err=%v",
				desc, res.A.Err, res.B.Err)
		}
		if len(res.A.Vals) != len(swant) || len(res.B.Vals) != len(swant) {
			return ev.Fail(pre+"arity", "%s: garbler returned %d values, evaluator %d, want %d",
				desc, len(res.A.Vals), len(res.B.Vals), len(swant))
		}
		for i := range swant {
			if res.A.Vals[i].Cmp(res.B.Vals[i]) != 0 {
				return ev.Fail(pre+"parties-disagree", "%s: output %d: garbler %s, evaluator %s (reference %s)",
					desc, i, res.A.Vals[i].Text(2), res.B.Vals[i].Text(2), swant[i].Text(2))
			}
			if res.A.Vals[i].Cmp(swant[i]) != 0 {
				return ev.Fail(pre+"wrong-result", "%s: output %d: both parties returned %s, reference evaluation gives %s",
					desc, i, res.A.Vals[i].Text(2), swant[i].Text(2))
			}
		}
	}

	classes := []string{"ot=" + kind}
	if cs.Reuse != "" {
		classes = append(classes, "ot-object-reused-by="+cs.Reuse)
	}
	if cs.Gen != nil {
		classes = append(classes, "compiled", "generated-program")
	} else if cs.Prog != "" {
		classes = append(classes, "compiled")
	} else {
		classes = append(classes, "hand-made")
	}
	if len(want) > 1 {
		classes = append(classes, "multi-output")
	}
	if nx != ny {
		classes = append(classes, "unequal-input-widths")
	}
	if ny > 1024 {
		classes = append(classes, "evaluator-input>1024bits")
	}
	if nx := int(circ.Inputs[0].Type.Bits); nx > 4096 {
		classes = append(classes, "garbler-input>4096bits")
	}
	if int(circ.Inputs[0].Type.Bits)+int(circ.Inputs[1].Type.Bits) > 65536 {
		classes = append(classes, "input-wires>65536")
	}
	if len(cs.FragsGE) > 0 || len(cs.FragsEG) > 0 {
		classes = append(classes, "fragmented")
	}
	for _, f := range append(append([]int{}, cs.FragsGE...), cs.FragsEG...) {
		if f > 0 && f < 4 {
			classes = append(classes, "frag<4")
			break
		}
	}
	nontrivial := ny >= 1 && gc.NonFreeReachesOutput()
	return ev.OK(nontrivial, classes...)
}

func init() { ev.Register("session", run) }

func TestSession(t *testing.T) {
	ev.Check(t, ev.Get(prop), "session", genCase, run)
}

func TestReplay(t *testing.T) { ev.Replay(t, ev.Get(prop)) }
