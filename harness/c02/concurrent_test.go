package c02

import (
	"fmt"
	"math/big"
	"sync"
	"testing"
	"time"

	"github.com/markkurossi/mpc/circuit"
	"github.com/markkurossi/mpc/env"
	"pgregory.net/rapid"

	"verifharness/internal/ev"
	"verifharness/internal/gen"
	"verifharness/internal/xport"
)

// ConcCase runs several protocol sessions at the same time on ONE circuit
// value (a server that garbles the same compiled circuit for several peers).
// Every session must still return f(x, y).
type ConcCase struct {
	Circ     gen.Circ `json:"circ"`
	Sessions []struct {
		X, Y    string
		Seed    uint64
		DelayUS int `json:"delay_us"` // start delay of this session
	} `json:"sessions"`
}

func genConcCase(t *rapid.T) ConcCase {
	var cs ConcCase
	o := gen.CircOpts{MinArgs: 2, MaxArgs: 2, MaxWidth: 8, MaxGates: 40, MaxOuts: 3, MaxOutWidth: 4}
	cs.Circ = gen.DrawCirc(t, o)
	n := rapid.IntRange(2, 4).Draw(t, "sessions")
	cs.Sessions = make([]struct {
		X, Y    string
		Seed    uint64
		DelayUS int `json:"delay_us"`
	}, n)
	for i := range cs.Sessions {
		s := &cs.Sessions[i]
		s.X = gen.BitsOf(gen.DrawBits(t, cs.Circ.In[0], "x"))
		s.Y = gen.BitsOf(gen.DrawBits(t, cs.Circ.In[1], "y"))
		s.Seed = rapid.Uint64().Draw(t, "seed")
		s.DelayUS = rapid.SampledFrom([]int{0, 0, 500, 1000, 2000, 4000, 8000}).Draw(t, "delay")
	}
	return cs
}

func runConc(cs ConcCase) ev.Outcome {
	c := cs.Circ
	circ := c.Build() // shared by all sessions
	var outWidths []int
	for _, o := range circ.Outputs {
		outWidths = append(outWidths, int(o.Type.Bits))
	}
	type result struct {
		res  xport.PairOutcome
		want []*big.Int
	}
	results := make([]result, len(cs.Sessions))
	var wg sync.WaitGroup
	for i := range cs.Sessions {
		s := cs.Sessions[i]
		x, y := gen.ParseBits(s.X), gen.ParseBits(s.Y)
		if len(x) != c.In[0] || len(y) != c.In[1] {
			return ev.Outcome{Skip: "input width mismatch"}
		}
		wires := c.Eval(append(append([]bool{}, x...), y...))
		results[i].want = gen.SplitBits(c.OutputBits(wires), outWidths)
		wg.Add(1)
		go func(i int) {
			defer wg.Done()
			time.Sleep(time.Duration(s.DelayUS) * time.Microsecond)
			d := xport.NewDuplex(nil, nil)
			gConn, eConn := d.Conns()
			cfg := &env.Config{Rand: gen.NewDRBG(s.Seed, 1)}
			gOT, eOT := makeOT("co", s.Seed, 0), makeOT("co", s.Seed, 1)
			results[i].res = xport.RunPair(d,
				func() ([]*big.Int, error) {
					return circuit.Garbler(cfg, gConn, gOT, circ, bitsToInt(x), false)
				},
				func() ([]*big.Int, error) {
					return circuit.Evaluator(eConn, eOT, circ, bitsToInt(y), false)
				}, 10*time.Second, 120*time.Second)
			d.Close()
		}(i)
	}
	wg.Wait()
	for i, r := range results {
		desc := fmt.Sprintf("session %d of %d running concurrently on one circuit value (x=%s y=%s)",
			i, len(results), cs.Sessions[i].X, cs.Sessions[i].Y)
		switch {
		case r.res.TimedOut:
			return ev.Outcome{Skip: "time budget exhausted (inconclusive)"}
		case r.res.A.Panic != "":
			return ev.Fail("concurrent/garbler/panic/"+xport.PanicSiteOf(r.res.A.Panic), "%s: %s", desc, r.res.A.Panic)
		case r.res.B.Panic != "":
			return ev.Fail("concurrent/evaluator/panic/"+xport.PanicSiteOf(r.res.B.Panic), "%s: %s", desc, r.res.B.Panic)
		case r.res.Stalled:
			return ev.Fail("concurrent/stall", "%s: session stalled", desc)
		case r.res.A.Err != nil || r.res.B.Err != nil:
			return ev.Fail("concurrent/error", "%s: garbler err=%v, evaluator err=%v", desc, r.res.A.Err, r.res.B.Err)
		}
		for k := range r.want {
			if k >= len(r.res.A.Vals) || k >= len(r.res.B.Vals) ||
				r.res.A.Vals[k].Cmp(r.want[k]) != 0 || r.res.B.Vals[k].Cmp(r.want[k]) != 0 {
				return ev.Fail("concurrent/wrong-result", "%s: output %d differs from the reference %s",
					desc, k, r.want[k].Text(2))
			}
		}
	}
	out := ev.OK(c.NonFreeReachesOutput(), fmt.Sprintf("concurrent-sessions=%d", len(results)))
	out.Evals = len(results)
	return out
}

func init() { ev.Register("concurrent", runConc) }

func TestConcurrent(t *testing.T) {
	ev.Check(t, ev.Get(prop), "concurrent", genConcCase, runConc)
}
