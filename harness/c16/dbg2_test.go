package c16

import (
	"fmt"
	"os"
	"testing"
	"time"
)

func TestDebugSdiff(t *testing.T) {
	if os.Getenv("VERIF_C16_DEBUG") == "" {
		t.Skip()
	}
	ss := enumSessions()
	for _, i := range []int{9, 9, 8, 5, 9} {
		t0 := time.Now()
		h := runHonest(ss[i])
		fmt.Fprintf(os.Stderr, "DBG session %d: %v %q\n", i, time.Since(t0), h.Skip)
	}
}
