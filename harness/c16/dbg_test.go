package c16

import (
	"fmt"
	"os"
	"testing"
	"time"
)

func TestDebugTiming(t *testing.T) {
	if os.Getenv("VERIF_C16_DEBUG") == "" {
		t.Skip()
	}
	for i, s := range enumSessions() {
		t0 := time.Now()
		h := runHonest(s)
		d := time.Since(t0)
		fmt.Fprintf(os.Stderr, "DBG session %d %s %s%s ot=%s: %v skip=%q lens=%v\n", i, s.Mode, s.Prog, circName(s), s.OT, d, h.Skip, h.Lens)
		for _, sg := range h.Layout {
			fmt.Fprintf(os.Stderr, "DBG    %s [%d,%d) %s\n", dirName[sg.Dir], sg.Start, sg.End, sg.Kind)
		}
		s.OT = "cot"
		t0 = time.Now()
		h = runHonest(s)
		fmt.Fprintf(os.Stderr, "DBG   with cot: %v skip=%q lens=%v\n", time.Since(t0), h.Skip, h.Lens)
	}
}
