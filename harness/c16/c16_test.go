// C16: the garbler never reports a wrong result under message corruption.
//
// A case is an honest two-party session (whole-circuit circuit.Garbler /
// circuit.Evaluator, or streaming compiler.Stream / circuit.StreamEvaluator
// wired like apps/garbled) plus one corruption of one direction's byte stream.
// The oracle looks at the garbler's return value only: an error, an aborted
// (stalled) session and a crash are allowed; a nil error with outputs different
// from the reference evaluation is the violation.
package c16

import (
	"bytes"
	"encoding/hex"
	"fmt"
	"hash/fnv"
	"os"
	"sort"
	"strings"
	"sync"
	"testing"

	"pgregory.net/rapid"

	"verifharness/internal/ev"
	"verifharness/internal/gen"
	"verifharness/internal/mpcl"
	"verifharness/internal/ref"
	"verifharness/internal/xport"
)

const prop = "C16"

// Case is a session and one corruption.
type Case struct {
	S Session    `json:"s"`
	C Corruption `json:"c"`
	// Twice: the corrupted session is run two times in a row in one worker
	// process (a message that was rejected must be rejected again).
	Twice bool `json:"twice,omitempty"`
}

var dirName = [2]string{"g2e", "e2g"}

func maskType(m []byte) string {
	switch {
	case len(m) == 0:
		return "empty"
	case len(m) >= 32 && len(m)%16 == 0 && bytes.Equal(m[:16], m[16:32]):
		return "repeated-per-label"
	case len(m) > 1:
		return "burst"
	case m[0] == 0xff:
		return "0xff"
	case m[0]&(m[0]-1) == 0 && m[0] != 0:
		return "single-bit"
	case m[0] == 0:
		return "zero"
	}
	return "random-byte"
}

func sourceOf(s Session) string {
	switch {
	case s.Circ != nil:
		return "hand-made"
	case s.Prog != "":
		return "fixed-prog"
	case s.Gen != nil:
		return "generated-prog"
	}
	return "none"
}

func circuitHash(s Session) string {
	h := fnv.New64a()
	fmt.Fprintf(h, "%s|%s|", s.Mode, s.Prog)
	if s.Circ != nil {
		fmt.Fprintf(h, "%v", *s.Circ)
	}
	if s.Gen != nil {
		h.Write([]byte(s.Gen.Source()))
	}
	return fmt.Sprintf("%016x", h.Sum64())
}

func describe(cs Case, rep Reply) map[string]interface{} {
	m := map[string]interface{}{
		"mode": cs.S.Mode, "source": sourceOf(cs.S), "x": cs.S.X, "y": cs.S.Y,
		"ot": cs.S.OT, "seed": cs.S.Seed,
		"corruption": fmt.Sprintf("%s offset %d mask %s (kind %s; transcript lengths g2e=%d e2g=%d)",
			dirName[cs.C.Dir&1], cs.C.Off, cs.C.Mask, rep.Kind, rep.Lens[0], rep.Lens[1]),
		"garbler": fmt.Sprintf("ok=%v err=%q vals=%v", rep.GOK, rep.GErr, rep.GVals),
		"want":    rep.Want,
	}
	switch {
	case cs.S.Prog != "":
		m["program"] = cs.S.Prog
	case cs.S.Gen != nil:
		m["program"] = cs.S.Gen.Source()
	case cs.S.Circ != nil:
		m["circuit"] = fmt.Sprintf("in=%v out=%v gates=%d ops=%v", cs.S.Circ.In,
			cs.S.Circ.Out, len(cs.S.Circ.Gates), cs.S.Circ.OpCounts())
	}
	return m
}

func eqTexts(a, b []string) bool {
	if len(a) != len(b) {
		return false
	}
	for i := range a {
		if a[i] != b[i] {
			return false
		}
	}
	return true
}

// judge applies the oracle to a worker's answer.
func judge(cs Case, rep Reply) ev.Outcome {
	col := ev.Get(prop)
	if rep.Skip != "" {
		reason := rep.Skip
		col.Note("skipped session (%s): %s", short(reason, 300), short(sessionKey(cs.S), 4000))
		if i := strings.Index(reason, ":"); i > 0 {
			reason = reason[:i]
		}
		return ev.Outcome{Skip: reason}
	}
	if rep.TimedOut {
		col.Note("session time budget exhausted: %s offset %d mask %s (kind %s) of %s", dirName[cs.C.Dir&1],
			cs.C.Off, cs.C.Mask, rep.Kind, short(sessionKey(cs.S), 400))
		return ev.Outcome{Skip: "session time budget exhausted (inconclusive)"}
	}
	if !rep.GDone {
		col.Note("garbler did not return within 5 s after the connection was closed: %s offset %d mask %s",
			dirName[cs.C.Dir&1], cs.C.Off, cs.C.Mask)
		return ev.Outcome{Skip: "garbler did not return after the abort (inconclusive)"}
	}
	mask := cs.C.bytes()
	dir := dirName[cs.C.Dir&1]
	classes := []string{"mode=" + cs.S.Mode, "dir=" + dir, "kind=" + dir + "/" + rep.Kind,
		"mask=" + maskType(mask), "ot=" + cs.S.OT, "source=" + sourceOf(cs.S)}
	if len(cs.S.FragsGE)+len(cs.S.FragsEG) > 0 {
		classes = append(classes, "fragmented")
	}
	classes = append(classes, shapeClasses(rep, dir)...)
	nontrivial := rep.Hits > 0

	var outcome string
	switch {
	case rep.GPanic != "":
		outcome = "garbler-crash"
		col.Note("garbler panic site (allowed by the property, but a robustness defect): %s [%s/%s]",
			xport.PanicSiteOf(rep.GPanic), dir, rep.Kind)
	case !rep.GOK:
		if rep.Stalled {
			outcome = "stall"
		} else {
			outcome = "garbler-error"
		}
	case eqTexts(rep.GVals, rep.Want):
		if rep.Hits > 0 {
			outcome = "correct-despite-corruption"
		} else {
			outcome = "corruption-not-transmitted"
		}
	default:
		out := ev.Fail("wrong-result/"+cs.S.Mode+"/"+dir+"/"+rep.Kind,
			"garbler returned wrong result as success: got %v, reference %v; %s session (%s), x=%s y=%s ot=%s seed=%d; corruption %s offset %d mask %s (message kind %s, %d of the flips hit transmitted bytes); evaluator: ok=%v err=%q vals=%v",
			rep.GVals, rep.Want, cs.S.Mode, sourceOf(cs.S), cs.S.X, cs.S.Y, cs.S.OT, cs.S.Seed,
			dir, cs.C.Off, cs.C.Mask, rep.Kind, rep.Hits, rep.EOK, rep.EErr, rep.EVals)
		col.Count("wrong-result-cases/"+out.Sig, 1)
		col.Note("wrong result: %s %s offset %d mask %s (%s): got %v want %v", sourceOf(cs.S)+":"+cs.S.Prog, dir,
			cs.C.Off, cs.C.Mask, rep.Kind, rep.GVals, rep.Want)
		return out
	}
	classes = append(classes, "outcome="+outcome, "outcome="+outcome+"/"+cs.S.Mode+"/"+dir)
	col.Count("worker-ms/"+outcome, int(rep.ElapsedMs))
	if rep.ElapsedMs > 5000 {
		col.Note("slow case (%d ms, outcome %s): %s offset %d mask %s (kind %s) of %s", rep.ElapsedMs, outcome,
			dir, cs.C.Off, cs.C.Mask, rep.Kind, short(sessionKey(cs.S), 400))
	}
	if rep.EPanic != "" {
		classes = append(classes, "evaluator-crash")
		col.Note("evaluator panic site (not part of this property): %s [%s/%s]",
			xport.PanicSiteOf(rep.EPanic), dir, rep.Kind)
	} else if !rep.EOK {
		classes = append(classes, "evaluator-error-or-abort")
	} else if !eqTexts(rep.EVals, rep.Want) {
		classes = append(classes, "evaluator-wrong-output(not-C16)")
	}
	out := ev.OK(nontrivial, classes...)
	out.Key = fmt.Sprintf("%s|%s|%s|%s|%d|%d|%d|%s", circuitHash(cs.S), cs.S.X, cs.S.Y, cs.S.OT, cs.S.Seed,
		cs.C.Dir, cs.C.Off, cs.C.Mask)
	out.Sample = describe(cs, rep)
	return out
}

// shapeClasses: widths beyond one machine word and, for a corruption inside a
// label list, whether the label's index is >= 64 (for a returned output label
// also the true value of that result bit).
func shapeClasses(rep Reply, dir string) []string {
	var cl []string
	if rep.NOut > 64 {
		cl = append(cl, "wide/result-bits>64")
		if strings.Contains(rep.WantBits[64:], "1") {
			cl = append(cl, "wide/reference-has-1-bits-at-index>=64")
		}
	}
	if rep.NX > 64 {
		cl = append(cl, "wide/garbler-input>64")
	}
	if rep.NY > 64 {
		cl = append(cl, "wide/evaluator-input>64")
	}
	if rep.LabelIdx >= 64 {
		c := "wide/" + dir + "/" + rep.Kind + "-index>=64"
		cl = append(cl, c)
		if rep.Kind == "output-labels" && rep.LabelIdx < len(rep.WantBits) {
			cl = append(cl, c+"/true-bit="+rep.WantBits[rep.LabelIdx:rep.LabelIdx+1])
		}
	}
	return cl
}

func run(cs Case) ev.Outcome {
	if cs.C.Dir != 0 && cs.C.Dir != 1 || cs.C.Off < 0 {
		return ev.Outcome{Skip: "malformed corruption"}
	}
	if cs.Twice {
		c1, c2 := cs.C, cs.C
		st := Step{X: cs.S.X, Y: cs.S.Y, Seed: cs.S.Seed, C: &c1}
		st2 := st
		st2.C = &c2
		st2.Seed = cs.S.Seed + 1
		sc := SeqCase{S: cs.S, Steps: []Step{st, st2}, Procs: 1}
		sc.S.X, sc.S.Y, sc.S.Seed = "", "", 0
		return runSeq(sc)
	}
	p := getPool()
	req := Request{S: cs.S, C: &cs.C}
	if os.Getenv("VERIF_C16_HONEST_ONLY") == "1" {
		// Debugging aid: only check that the session's honest run is usable.
		req.C = nil
	}
	rep, err := p.do(req)
	if err != nil {
		if d, ok := err.(errWorkerDied); ok {
			ev.Get(prop).Count("worker-deaths", 1)
			return ev.Outcome{Skip: "worker process killed: " + d.why + " (inconclusive)"}
		}
		return ev.Outcome{Skip: "harness: " + err.Error()}
	}
	if os.Getenv("VERIF_C16_DEBUG") != "" {
		fmt.Fprintf(os.Stderr, "DBG case %s %s ot=%s %s/%s mask=%s: %d ms stalled=%v gok=%v recycle=%v gerr=%q eerr=%q\n", cs.S.Mode, sourceOf(cs.S), cs.S.OT,
			dirName[cs.C.Dir], rep.Kind, cs.C.Mask, rep.ElapsedMs, rep.Stalled, rep.GOK, rep.Recycle, rep.GErr, rep.EErr)
	}
	if req.C == nil && rep.Skip == "" {
		return ev.Outcome{Skip: "honest-only mode"}
	}
	return judge(cs, rep)
}

// ---------------------------------------------------------------------------
// Generator of the sampling unit.

// uni draws a (nearly) uniform value in [0, n): rapid's integer generators are
// deliberately biased to small values, which would starve the later message
// kinds and mask types.
func uni(t *rapid.T, n int, label string) int {
	if n <= 1 {
		return 0
	}
	return int(uniBits(t, 24, label) % uint64(n))
}

func uniBits(t *rapid.T, bits int, label string) uint64 {
	var v uint64
	for i := 0; i < bits; i++ {
		if rapid.Bool().Draw(t, label) {
			v |= 1 << uint(i)
		}
	}
	return v
}

var fragChoices = []int{0, 1, 2, 3, 15, 16, 17, 31, 4095}

func drawFrags(t *rapid.T, label string) []int {
	n := rapid.IntRange(1, 4).Draw(t, label+"_n")
	var res []int
	for i := 0; i < n; i++ {
		res = append(res, rapid.SampledFrom(fragChoices).Draw(t, label))
	}
	return res
}

var genOpts = mpcl.Opts{NumParams: 2, MaxStmts: 3, MaxDepth: 2, MaxWidth: 5,
	NoDiv: true, ScalarParams: true}

// genOptsWide: integer widths up to 130 bits (about half of the programs have
// more than 64 result bits).
var genOptsWide = mpcl.Opts{NumParams: 2, MaxStmts: 3, MaxDepth: 2,
	NoDiv: true, ScalarParams: true}

var gateOps = []int{ref.XOR, ref.XNOR, ref.AND, ref.OR, ref.INV}

// drawWideCirc draws a hand-made circuit with more than 64 result bits in one
// to three results (among them the shapes 70+9, 64+k, k+64, exactly 65) and
// inputs of a few bits or of 65..100 bits.
func drawWideCirc(t *rapid.T) gen.Circ {
	width := func(label string) int {
		if uni(t, 3, label+"_wide") == 0 {
			return 65 + uni(t, 36, label)
		}
		return 1 + uni(t, 8, label)
	}
	c := gen.Circ{In: []int{width("nx"), width("ny")}}
	switch uni(t, 7, "outshape") {
	case 0:
		c.Out = []int{65 + uni(t, 40, "outw")}
	case 1:
		c.Out = []int{70, 9}
	case 2:
		c.Out = []int{1 + uni(t, 63, "outw"), 64}
	case 3:
		c.Out = []int{64, 1 + uni(t, 20, "outw")}
	case 4:
		c.Out = []int{33 + uni(t, 20, "outw"), 33 + uni(t, 20, "outw"), 1 + uni(t, 8, "outw")}
	case 5:
		c.Out = []int{65}
	default:
		c.Out = []int{128}
	}
	nin, nout := c.NumIn(), c.NumOut()
	ngates := nout + uni(t, 40, "nmid")
	for i := 0; i < ngates; i++ {
		defined := nin + i
		op := gateOps[rapid.IntRange(0, len(gateOps)-1).Draw(t, "op")]
		pick := func(label string) int {
			// Recent wires (depth), inputs (fan-out), anything.
			switch rapid.IntRange(0, 2).Draw(t, label+"_mode") {
			case 0:
				return defined - 1 - rapid.IntRange(0, min(defined-1, 7)).Draw(t, label+"_back")
			case 1:
				return rapid.IntRange(0, nin-1).Draw(t, label+"_in")
			}
			return rapid.IntRange(0, defined-1).Draw(t, label)
		}
		in0, in1 := pick("a"), 0
		if op != ref.INV {
			in1 = pick("b")
		}
		c.Gates = append(c.Gates, ref.Gate{op, in0, in1, nin + i})
	}
	return c
}

func genSession(t *rapid.T) Session {
	var s Session
	if uni(t, 100, "mode") < 55 {
		s.Mode = "circ"
	} else {
		s.Mode = "stream"
	}
	var nx, ny int
	src := uni(t, 100, "source")
	wide := uni(t, 100, "wide") < 22
	switch {
	case wide && s.Mode == "circ" && src < 40:
		c := drawWideCirc(t)
		s.Circ = &c
		nx, ny = c.In[0], c.In[1]
	case wide && src < 80:
		s.Prog = wideProgNames[uni(t, len(wideProgNames), "wideprog")]
		fp := fixedByName(s.Prog)
		nx, ny = fp.XT.Bits, fp.YT.Bits
	case wide:
		p := mpcl.Draw(t, genOptsWide)
		s.Gen = p
		main := p.Main()
		nx, ny = p.Bits(main.Params[0].T), p.Bits(main.Params[1].T)
	case s.Mode == "circ" && src < 70:
		o := gen.CircOpts{MinArgs: 2, MaxArgs: 2, MaxWidth: 6, MaxGates: 24,
			MaxOuts: 3, MaxOutWidth: 3}
		c := gen.DrawCirc(t, o)
		s.Circ = &c
		nx, ny = c.In[0], c.In[1]
	case (s.Mode == "circ" && src < 90) || (s.Mode == "stream" && src < 65):
		s.Prog = fixedProgNames[uni(t, len(fixedProgNames), "prog")]
		fp := fixedByName(s.Prog)
		nx, ny = fp.XT.Bits, fp.YT.Bits
	default:
		p := mpcl.Draw(t, genOpts)
		s.Gen = p
		main := p.Main()
		nx, ny = p.Bits(main.Params[0].T), p.Bits(main.Params[1].T)
	}
	s.X = gen.BitsOf(gen.DrawBits(t, nx, "x"))
	s.Y = gen.BitsOf(gen.DrawBits(t, ny, "y"))
	if uni(t, 100, "ot") < 15 {
		s.OT = "cot"
	} else {
		s.OT = "co"
	}
	s.Seed = rapid.Uint64().Draw(t, "seed")
	if uni(t, 4, "fragmented") == 0 {
		s.FragsGE = drawFrags(t, "frag_ge")
		s.FragsEG = drawFrags(t, "frag_eg")
	}
	return s
}

func drawMask(t *rapid.T) string {
	var m []byte
	switch k := uni(t, 100, "masktype"); {
	case k < 35:
		m = []byte{1 << uint(uni(t, 8, "bit"))}
	case k < 50:
		m = []byte{0xff}
	case k < 70:
		m = []byte{byte(1 + uni(t, 255, "maskbyte"))}
	default:
		n := 2 + uni(t, 31, "burstlen")
		m = make([]byte, n)
		m[0] = byte(1 + uni(t, 255, "burst0"))
		for i := 1; i < n; i++ {
			m[i] = byte(uniBits(t, 8, "burst"))
		}
	}
	return hex.EncodeToString(m)
}

// kindsOf lists the message kinds of a direction in transcript order.
func kindsOf(lay []Seg, dir int) []string {
	seen := map[string]bool{}
	var r []string
	for _, s := range lay {
		if s.Dir == dir && !seen[s.Kind] {
			seen[s.Kind] = true
			r = append(r, s.Kind)
		}
	}
	return r
}

// drawCorruption draws one corruption of a session whose honest layout is
// rep (err != nil or rep.Skip != "": no layout, any offset of a short
// transcript).  focus: "" = direction drawn, message kind uniform (80%) or any
// offset incl. slightly beyond the end (20%); "outlabel" = a byte of a
// returned output label (evaluator -> garbler) at a uniformly drawn label
// index; "late" = the garbler's final result message or beyond the end of the
// garbler -> evaluator transcript (nothing the garbler's result depends on).
func drawCorruption(t *rapid.T, rep Reply, err error, focus string) Corruption {
	var c Corruption
	if uni(t, 10, "dir") < 6 {
		c.Dir = 0
	} else {
		c.Dir = 1
	}
	usable := err == nil && rep.Skip == ""
	var segs []Seg
	total := 600
	switch {
	case usable && focus == "outlabel":
		c.Dir = 1
		for _, sg := range rep.Layout {
			if sg.Dir == 1 && sg.Kind == "output-labels" {
				segs = append(segs, sg)
			}
		}
		if len(segs) > 0 {
			sg := segs[0]
			nl := (sg.End - sg.Start) / 16
			idx := uni(t, nl, "label")
			if nl > 64 && uni(t, 3, "highlabel") == 0 {
				idx = 64 + uni(t, nl-64, "label")
			}
			pos := 0
			switch uni(t, 4, "labelbyte") {
			case 0:
			case 1:
				pos = 15
			default:
				pos = uni(t, 16, "labelpos")
			}
			c.Off = sg.Start + 16*idx + pos
			c.Mask = drawMask(t)
			if nl-idx >= 2 && uni(t, 3, "repeated") == 0 {
				// The same damage on 2-4 consecutive labels.
				k := 2 + uni(t, min(3, nl-idx-1), "repeat")
				pat := make([]byte, 16)
				switch uni(t, 3, "pattern") {
				case 0:
					for i := range pat {
						pat[i] = 0xff
					}
				case 1:
					pat[0] = byte(1 + uni(t, 255, "pat0"))
					for i := 1; i < 16; i++ {
						pat[i] = byte(uniBits(t, 8, "pat"))
					}
				default:
					pat[0] = byte(1 + uni(t, 255, "pat0"))
				}
				c.Off = sg.Start + 16*idx
				c.Mask = strings.Repeat(hex.EncodeToString(pat), k)
			}
			return c
		}
	case usable && focus == "evalarg":
		// The description of the evaluator's argument in the streaming
		// program header (name, type text, sizes).
		c.Dir = 0
		for _, sg := range rep.Layout {
			if sg.Dir == 0 && strings.HasPrefix(sg.Kind, "evalarg") {
				segs = append(segs, sg)
			}
		}
	case usable && focus == "late":
		c.Dir = 0
		if uni(t, 3, "beyond") == 0 {
			c.Off = rep.Lens[0] + uni(t, 8, "offset")
			c.Mask = drawMask(t)
			return c
		}
		for _, sg := range rep.Layout {
			if sg.Dir == 0 && sg.Kind == "result" {
				segs = append(segs, sg)
			}
		}
	case usable:
		total = rep.Lens[c.Dir]
		kinds := kindsOf(rep.Layout, c.Dir)
		if len(kinds) > 0 && uni(t, 10, "stratified") < 8 {
			kind := kinds[uni(t, len(kinds), "kind")]
			for _, sg := range rep.Layout {
				if sg.Dir == c.Dir && sg.Kind == kind {
					segs = append(segs, sg)
				}
			}
		}
	}
	if len(segs) > 0 {
		sg := segs[uni(t, len(segs), "segment")]
		n := sg.End - sg.Start
		switch uni(t, 10, "position") {
		case 0:
			c.Off = sg.Start
		case 1:
			c.Off = sg.End - 1
		case 2:
			c.Off = sg.Start + min(n-1, uni(t, 4, "head"))
		default:
			c.Off = sg.Start + uni(t, n, "offset")
		}
	} else {
		if total < 1 {
			total = 1
		}
		// Uniform over the transcript and slightly beyond its end (a
		// corruption that is never transmitted must change nothing).
		c.Off = uni(t, total+total/50+1, "offset")
	}
	c.Mask = drawMask(t)
	return c
}

func genCase(t *rapid.T) Case {
	s := genSession(t)
	// The honest run of the same seeds gives the transcript lengths and the
	// message-kind map, so that offsets can be stratified by kind.
	rep, err := getPool().do(Request{S: s})
	focus := ""
	if uni(t, 10, "focus") == 0 {
		// The mechanism the property names first: a returned output label.
		focus = "outlabel"
	}
	return Case{S: s, C: drawCorruption(t, rep, err, focus)}
}

func init() {
	unexplained = func(msg string) { ev.Get(prop).Note("%s", msg) }
	ev.Register("sample", run)
	ev.Register("enumerate", run)
}

func TestSample(t *testing.T) {
	ev.Check(t, ev.Get(prop), "sample", genCase, run)
	finish()
}

func finish() {
	col := ev.Get(prop)
	if p := thePool; p != nil {
		col.Count("worker-spawns", int(p.spawns.Swap(0)))
	}
	col.Flush()
}

func TestReplay(t *testing.T) { ev.Replay(t, ev.Get(prop)) }

// ---------------------------------------------------------------------------
// Enumeration: every offset of both directions of the fixed sessions.

func enumMasks(s Session, dir, off int) []string {
	d := gen.NewDRBG(s.Seed, uint64(1000+dir)<<32|uint64(off))
	res := []string{"01", "02", "04", "08", "10", "20", "40", "80", "ff"}
	for i := 0; i < 2; i++ {
		// A random byte that is neither a single bit nor 0xff.
		rb := byte(d.Intn(255) + 1)
		for rb&(rb-1) == 0 || rb == 0xff {
			rb = rb*5 + 3
		}
		res = append(res, hex.EncodeToString([]byte{rb}))
	}
	for i := 0; i < 2; i++ {
		burst := d.Bytes(2 + d.Intn(31))
		if burst[0] == 0 {
			burst[0] = 0x5a
		}
		res = append(res, hex.EncodeToString(burst))
	}
	return res
}

func contains(list []string, v string) bool {
	for _, x := range list {
		if x == v {
			return true
		}
	}
	return false
}

// segStart returns the start of the segment that holds the offset.
func segStart(lay []Seg, dir, off int) int {
	for _, s := range lay {
		if s.Dir == dir && off >= s.Start && off < s.End {
			return s.Start
		}
	}
	return -1
}

func caseHash(seed int64, i int) uint64 {
	h := fnv.New64a()
	fmt.Fprintf(h, "%d/%d", seed, i)
	return h.Sum64()
}

func TestEnumerate(t *testing.T) {
	col := ev.Get(prop)
	p := getPool()
	shard, nsh := ev.Shard()
	const maxLen = 4096

	var all []Case
	must := map[int]bool{}                   // indices into all that the quick tier always runs
	only := os.Getenv("VERIF_C16_ENUM_ONLY") // comma separated program/circuit names
	for si, s := range enumSessions() {
		if only != "" && !strings.Contains(","+only+",", ","+s.Prog+circName(s)+",") {
			continue
		}
		rep, err := p.do(Request{S: s, WantTrans: true})
		if err != nil || rep.Skip != "" {
			t.Errorf("enumerated session %d cannot run honestly: %v %s", si, err, rep.Skip)
			continue
		}
		if rep.LayoutErr != "" {
			t.Errorf("enumerated session %d: message-kind map failed: %s", si, rep.LayoutErr)
		}
		wide := isWideSession(s)
		if wide {
			// A wide session must exercise result / label / OT wire indices
			// beyond one machine word with both bit values.
			if err := checkWide(s, rep); err != nil {
				t.Errorf("enumerated session %d (%s %s%s): %v", si, s.Mode, s.Prog, circName(s), err)
			}
		}
		if shard == 0 {
			col.Note("enumerated session %d (%s %s%s x=%s y=%s): honest transcripts g2e=%d e2g=%d bytes",
				si, s.Mode, s.Prog, circName(s), s.X, s.Y, rep.Lens[0], rep.Lens[1])
		}
		for dir := 0; dir < 2; dir++ {
			n := rep.Lens[dir]
			if n > maxLen && !wide {
				col.Note("enumerated session %d: direction %s has %d bytes, only the first %d are enumerated",
					si, dirName[dir], n, maxLen)
				n = maxLen
			}
			lo, hi := 0, n
			if r := os.Getenv("VERIF_C16_ENUM_RANGE"); r != "" { // "dir:lo-hi", debugging aid
				var rd, rl, rh int
				if k, _ := fmt.Sscanf(r, "%d:%d-%d", &rd, &rl, &rh); k == 3 {
					if rd != dir {
						continue
					}
					lo, hi = max(rl, 0), min(rh, n)
				}
			}
			var honest []byte
			if len(rep.Trans) == 2 {
				honest, _ = hex.DecodeString(rep.Trans[dir])
			}
			for off := lo; off < hi; off++ {
				kind := kindAt(rep.Layout, dir, off)
				masks := enumMasks(s, dir, off)
				run := map[string]bool{} // masks the quick tier always runs
				st := segStart(rep.Layout, dir, off)
				if wide {
					masks = wideMasks(masks, kind, dir, off, st, s.Seed)
				}
				// The evaluator's argument description of the array / struct /
				// slice sessions is small and decides what the evaluator feeds in.
				if (s.Prog == "arrarg" || s.Prog == "structarg" || s.Prog == "slicearg") &&
					strings.HasPrefix(kind, "evalarg-") {
					for _, m := range []string{"01", "02", "04", "80"} {
						run[m] = true
					}
				}
				// A decimal digit of a type text: every other digit (another
				// width or count that may still be consistent with the sizes).
				if strings.HasSuffix(kind, "-text") && off < len(honest) &&
					honest[off] >= '0' && honest[off] <= '9' {
					for d := byte('0'); d <= '9'; d++ {
						if m := hex.EncodeToString([]byte{d ^ honest[off]}); d != honest[off] {
							if !contains(masks, m) {
								masks = append(masks, m)
							}
							if kind == "evalarg-text" {
								run[m] = true
							}
						}
					}
				}
				// Labels: the select (point-and-permute) bit = top bit of a
				// label's first byte, and the lowest bit of its last byte.
				if labelKinds[kind] && st >= 0 {
					switch (off - st) % 16 {
					case 0:
						run["80"] = true
					case 15:
						run["01"] = true
					}
				}
				// Returned output labels: the same damage on two or four
				// whole labels (inverted labels), which an aggregated
				// validity check could let cancel.
				if kind == "output-labels" && st >= 0 && (off-st)%16 == 0 {
					for _, nl := range []int{2, 4} {
						if kindAt(rep.Layout, dir, off+16*nl-1) != kind {
							continue
						}
						m := strings.Repeat("ff", 16*nl)
						masks = append(masks, m)
						if off == st || off == st+16 {
							run[m] = true
						}
					}
				}
				// Streaming: the wire id the evaluator returns for a result
				// bit (low byte of each 4-byte id).
				if wide && kind == "return-ids" && st >= 0 && (off-st)%4 == 3 {
					run["01"] = true
				}
				for _, m := range masks {
					if run[m] {
						must[len(all)] = true
					}
					all = append(all, Case{S: s, C: Corruption{Dir: dir, Off: off, Mask: m},
						Twice: run[m] && strings.HasPrefix(kind, "evalarg-")})
				}
			}
		}
	}
	// Thorough: everything, split over the shards.  Quick: a seed-dependent
	// subset of about N cases.
	limit := 0
	if !col.Thorough() {
		limit = col.N(500, 0)
	}
	var mine []Case
	for i, cs := range all {
		if limit > 0 && !must[i] {
			if caseHash(col.Seed, i)%uint64(len(all)) >= uint64(limit) {
				continue
			}
		}
		if i%nsh != shard {
			continue
		}
		mine = append(mine, cs)
	}
	col.Count("enumerate-domain", len(all)/max(nsh, 1))
	col.Count("enumerate-always-run", len(must)/max(nsh, 1))

	// Execute with all workers busy, book the outcomes in order.
	futures := make([]chan ev.Outcome, len(mine))
	for i := range futures {
		futures[i] = make(chan ev.Outcome, 1)
	}
	sem := make(chan struct{}, p.size())
	go func() {
		for i := range mine {
			sem <- struct{}{}
			go func(i int) {
				defer func() { <-sem }()
				futures[i] <- run(mine[i])
			}(i)
		}
	}()
	var pending *ev.Outcome
	var pmu sync.Mutex
	ev.Each(t, col, "enumerate", func(yield func(Case) bool) {
		for i, cs := range mine {
			out := <-futures[i]
			pmu.Lock()
			pending = &out
			pmu.Unlock()
			if !yield(cs) {
				return
			}
		}
	}, func(cs Case) ev.Outcome {
		pmu.Lock()
		o := pending
		pending = nil
		pmu.Unlock()
		if o != nil {
			return *o
		}
		return run(cs)
	})
	finish()
}

// isWideSession tells whether an enumerated session has results (or inputs)
// wider than 64 bits.  Its transcripts are long: the enumeration covers every
// offset, but with all 13 masks only on the first and last byte of every
// label and on the small header-like message kinds (see wideMasks).
func isWideSession(s Session) bool {
	return isWideProg(s.Prog) || circName(s) == "widemix"
}

// smallKinds are the message kinds of a few bytes per session.
var smallKinds = map[string]bool{"key-len": true, "key": true, "ot-range": true, "result": true,
	"input-sizes": true, "op-result": true, "header-len": true, "header-text": true,
	"evalarg-len": true, "evalarg-text": true, "circ-header": true, "op": true, "return-ids": true}

// wideMasks thins the 13 masks of an offset of a wide session.
func wideMasks(masks []string, kind string, dir, off, st int, seed uint64) []string {
	h := caseHash(int64(seed)+int64(dir), off)
	pick := func(k int) []string {
		var r []string
		for i := 0; i < k; i++ {
			m := masks[(h>>uint(8*i))%uint64(len(masks))]
			if !contains(r, m) {
				r = append(r, m)
			}
		}
		return r
	}
	switch {
	case smallKinds[kind]:
		return masks
	case labelKinds[kind] && st >= 0:
		pos := (off - st) % 16
		switch {
		case kind == "output-labels" && (pos == 0 || pos == 15):
			return masks
		case kind == "output-labels":
			return pick(2)
		case pos == 0:
			return append([]string{"80", "ff"}, masks[9])
		case pos == 15:
			return append([]string{"01", "ff"}, masks[10])
		case pos == 1+int(caseHash(int64(seed), off-pos)%14):
			return pick(1)
		}
		return nil
	}
	return pick(1)
}

// checkWide verifies the premises of a wide enumerated session: more than 64
// result bits, and the reference result has 1 bits and 0 bits at indices >= 64.
func checkWide(s Session, rep Reply) error {
	if rep.NOut <= 64 {
		return fmt.Errorf("wide session has only %d result bits", rep.NOut)
	}
	ones, zeros := 0, 0
	for i, b := range rep.WantBits {
		if i >= 64 {
			if b == '1' {
				ones++
			} else {
				zeros++
			}
		}
	}
	if ones < 4 || zeros < 4 {
		return fmt.Errorf("reference result has %d one bits and %d zero bits at indices >= 64 (want >= 4 of each)", ones, zeros)
	}
	return nil
}

func circName(s Session) string {
	if s.Circ == nil {
		return ""
	}
	for name, c := range fixedCircs {
		if fmt.Sprint(c) == fmt.Sprint(*s.Circ) {
			return name
		}
	}
	return "circuit"
}

// ---------------------------------------------------------------------------
// Self-check of the harness' premises: the honest session is reproducible
// (same seeds => byte-identical transcripts in both directions), agrees with
// the reference, and the message-kind map covers both transcripts exactly.

func TestHonest(t *testing.T) {
	col := ev.Get(prop)
	var list []Session
	list = append(list, enumSessions()...)
	for _, fp := range fixedProgs {
		for _, mode := range []string{"circ", "stream"} {
			for _, otk := range []string{"co", "cot"} {
				x := strings.Repeat("1", fp.XT.Bits)
				y := "1" + strings.Repeat("0", fp.YT.Bits-1)
				list = append(list, Session{Mode: mode, Prog: fp.Name, X: x, Y: y,
					OT: otk, Seed: 7, FragsGE: []int{1, 17}, FragsEG: []int{3}})
			}
		}
	}
	kinds := map[string]bool{}
	for i, s := range list {
		before := layoutErrors.Load()
		h1 := runHonest(s)
		h2 := runHonest(s)
		if h1.Skip != "" || h2.Skip != "" {
			t.Errorf("session %d (%s %s%s): honest run unusable: %s %s", i, s.Mode, s.Prog,
				circName(s), h1.Skip, h2.Skip)
			continue
		}
		if layoutErrors.Load() != before {
			t.Errorf("session %d (%s %s%s): message-kind map: %v", i, s.Mode, s.Prog,
				circName(s), lastLayoutError.Load())
		}
		for dir := 0; dir < 2; dir++ {
			if !bytes.Equal(h1.Trans[dir], h2.Trans[dir]) {
				t.Errorf("session %d (%s %s%s): honest transcript %s is not reproducible (%d vs %d bytes)",
					i, s.Mode, s.Prog, circName(s), dirName[dir], len(h1.Trans[dir]), len(h2.Trans[dir]))
			}
		}
		for _, sg := range h1.Layout {
			kinds[dirName[sg.Dir]+"/"+sg.Kind] = true
		}
		col.Count("honest-sessions-reproducible/"+s.Mode+"/"+s.OT, 1)
	}
	var ks []string
	for k := range kinds {
		ks = append(ks, k)
	}
	sort.Strings(ks)
	col.Note("message kinds seen in honest transcripts: %s", strings.Join(ks, " "))
	col.Flush()
}

var _ = os.Getenv
