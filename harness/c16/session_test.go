package c16

import (
	"encoding/binary"
	"encoding/hex"
	"encoding/json"
	"fmt"
	"math/big"
	"runtime/debug"
	"strings"
	"time"

	"github.com/markkurossi/mpc/circuit"
	"github.com/markkurossi/mpc/compiler"
	"github.com/markkurossi/mpc/compiler/utils"
	"github.com/markkurossi/mpc/env"
	"github.com/markkurossi/mpc/ot"
	"github.com/markkurossi/mpc/p2p"

	"verifharness/internal/gen"
	"verifharness/internal/mpcl"
	"verifharness/internal/xport"
)

// Session is one honest two-party run: what is computed, on which inputs, how.
type Session struct {
	Mode    string     `json:"mode"`           // "circ" (whole circuit) | "stream"
	Circ    *gen.Circ  `json:"circ,omitempty"` // hand-made circuit (mode circ)
	Prog    string     `json:"prog,omitempty"` // fixed program (either mode)
	Gen     *mpcl.Prog `json:"gen,omitempty"`  // generated program (either mode)
	X       string     `json:"x"`              // garbler input bits, LSB first
	Y       string     `json:"y"`              // evaluator input bits
	OT      string     `json:"ot"`             // "co" | "cot"
	Seed    uint64     `json:"seed"`
	FragsGE []int      `json:"frags_ge,omitempty"` // evaluator's read fragments
	FragsEG []int      `json:"frags_eg,omitempty"`
}

// Corruption XORs Mask[i] into byte Off+i of direction Dir (0: garbler ->
// evaluator, 1: evaluator -> garbler).
type Corruption struct {
	Dir  int    `json:"dir"`
	Off  int    `json:"off"`
	Mask string `json:"mask"` // hex, one byte per corrupted position
}

func (c Corruption) bytes() []byte {
	b, _ := hex.DecodeString(c.Mask)
	return b
}

func (c Corruption) flips() []xport.Flip {
	var r []xport.Flip
	for i, m := range c.bytes() {
		if m != 0 {
			r = append(r, xport.Flip{Off: c.Off + i, Mask: m})
		}
	}
	return r
}

// Seg is one stretch of a direction's honest transcript.
type Seg struct {
	Dir   int    `json:"dir"`
	Start int    `json:"start"`
	End   int    `json:"end"`
	Kind  string `json:"kind"`
}

func bitsToInt(bits []bool) *big.Int {
	v := new(big.Int)
	for i, b := range bits {
		if b {
			v.SetBit(v, i, 1)
		}
	}
	return v
}

// prepared is a session resolved to what the parties need + the reference
// result.
type prepared struct {
	s      Session
	nx, ny int
	outs   []int
	want   []*big.Int
	gIn    *big.Int
	eIn    *big.Int
	circ   *circuit.Circuit // mode circ
	src    string           // mode stream
	xArgs  []string
	yArgs  []string
	// params, when set, is the compiler parameter block that the streaming
	// garbler of this session shares with other sessions of the process
	// (sequences); nil = a fresh one per session.
	params *utils.Params
}

// argStrings renders a party's input the way it is given on the command line
// of apps/garbled: one string per scalar / array, one per struct member.
func argStrings(t argT, v *big.Int) []string {
	field := func(ofs, n int) *big.Int {
		f := new(big.Int).Rsh(v, uint(ofs))
		return f.And(f, new(big.Int).Sub(new(big.Int).Lsh(big.NewInt(1), uint(n)), big.NewInt(1)))
	}
	switch t.Kind {
	case "bool":
		if v.Sign() != 0 {
			return []string{"1"}
		}
		return []string{"0"}
	case "array", "slice":
		// IOArg.Parse: the hex digits list the elements, element 0 first.
		s := "0x"
		for i := 0; i*t.Elem < t.Bits; i++ {
			s += fmt.Sprintf("%0*x", t.Elem/4, field(i*t.Elem, t.Elem))
		}
		return []string{s}
	case "struct":
		var r []string
		ofs := 0
		for _, m := range t.Members {
			r = append(r, "0x"+field(ofs, m).Text(16))
			ofs += m
		}
		return r
	}
	return []string{"0x" + v.Text(16)}
}

func prepare(s Session) (*prepared, error) {
	p := &prepared{s: s}
	x, y := gen.ParseBits(s.X), gen.ParseBits(s.Y)
	p.gIn, p.eIn = bitsToInt(x), bitsToInt(y)
	var xt, yt argT
	switch {
	case s.Circ != nil:
		if s.Mode != "circ" {
			return nil, fmt.Errorf("hand-made circuits only run in mode circ")
		}
		if len(s.Circ.In) != 2 {
			return nil, fmt.Errorf("not a 2-party circuit")
		}
		p.nx, p.ny = s.Circ.In[0], s.Circ.In[1]
		p.outs = s.Circ.Out
		if len(x) != p.nx || len(y) != p.ny {
			return nil, fmt.Errorf("input width mismatch")
		}
		wires := s.Circ.Eval(append(append([]bool{}, x...), y...))
		p.want = gen.SplitBits(s.Circ.OutputBits(wires), p.outs)
		p.circ = s.Circ.Build()
	case s.Prog != "":
		fp := fixedByName(s.Prog)
		if fp == nil {
			return nil, fmt.Errorf("unknown program %q", s.Prog)
		}
		p.src = fp.Src
		xt, yt = fp.XT, fp.YT
		p.nx, p.ny = xt.Bits, yt.Bits
		p.outs = fp.Outs
		if len(x) != p.nx || len(y) != p.ny {
			return nil, fmt.Errorf("input width mismatch")
		}
		p.want = fp.ref(p.gIn, p.eIn)
	case s.Gen != nil:
		main := s.Gen.Main()
		if main == nil || len(main.Params) != 2 {
			return nil, fmt.Errorf("generated program is not 2-party")
		}
		for i, pa := range main.Params {
			if !pa.T.IsInt() {
				return nil, fmt.Errorf("parameter %d is not an integer scalar", i)
			}
		}
		p.src = s.Gen.Source()
		kind := func(t mpcl.Type) string {
			if t.Signed() {
				return "int"
			}
			return "uint"
		}
		xt = argT{Kind: kind(main.Params[0].T), Bits: s.Gen.Bits(main.Params[0].T)}
		yt = argT{Kind: kind(main.Params[1].T), Bits: s.Gen.Bits(main.Params[1].T)}
		p.nx, p.ny = xt.Bits, yt.Bits
		if len(x) != p.nx || len(y) != p.ny {
			return nil, fmt.Errorf("input width mismatch")
		}
		args, _, err := mpcl.ParseInputs(s.Gen, []string{"0x" + p.gIn.Text(16), "0x" + p.eIn.Text(16)})
		if err != nil {
			return nil, err
		}
		res, err := s.Gen.Run(args)
		if err != nil {
			return nil, fmt.Errorf("interpreter: %v", err)
		}
		if len(res) != len(main.Results) {
			return nil, fmt.Errorf("interpreter arity")
		}
		for i, r := range main.Results {
			p.outs = append(p.outs, s.Gen.Bits(r))
			p.want = append(p.want, s.Gen.Pack(r, res[i]))
		}
	default:
		return nil, fmt.Errorf("empty session")
	}
	if p.src != "" {
		p.xArgs, p.yArgs = argStrings(xt, p.gIn), argStrings(yt, p.eIn)
		if s.Mode == "circ" {
			key := s.Prog
			if key == "" {
				key = "gen:" + p.src
			}
			var sizes [][]int
			if fp := fixedByName(s.Prog); fp != nil {
				sizes = fp.Sizes
			}
			c, err := compiledCircuit(key, p.src, sizes)
			if err != nil {
				return nil, fmt.Errorf("compile: %v", err)
			}
			if len(c.Inputs) != 2 || int(c.Inputs[0].Type.Bits) != p.nx ||
				int(c.Inputs[1].Type.Bits) != p.ny {
				return nil, fmt.Errorf("compiled circuit has unexpected inputs")
			}
			p.circ = c
		}
	}
	if s.Mode != "circ" && s.Mode != "stream" {
		return nil, fmt.Errorf("unknown mode %q", s.Mode)
	}
	return p, nil
}

func makeOT(kind string, seed uint64, party uint64) (ot.OT, error) {
	r := gen.NewDRBG(seed, 10+party)
	r2 := gen.NewDRBG(seed, 20+party)
	switch kind {
	case "co":
		return ot.NewCO(r), nil
	case "cot":
		return ot.NewCOT(ot.NewCO(r), r2, false, false), nil
	}
	return nil, fmt.Errorf("unknown OT kind %q", kind)
}

// mark is the logical stream position of one party when it enters/leaves an
// OT call: bytes handed to the connection so far and bytes consumed so far.
type mark struct {
	Event string
	Sent  int
	Rcvd  int
}

// markOT wraps the OT so that the harness learns where the OT messages lie in
// both transcripts (the library functions under test run all phases in one
// call).  It only observes.
type markOT struct {
	inner ot.OT
	conn  *p2p.Conn
	marks []mark
}

func (m *markOT) note(ev string) {
	m.marks = append(m.marks, mark{
		Event: ev,
		Sent:  int(m.conn.Stats.Sent.Load()) + m.conn.WritePos,
		Rcvd:  int(m.conn.Stats.Recvd.Load()) - (m.conn.ReadEnd - m.conn.ReadStart),
	})
}

func (m *markOT) InitSender(io ot.IO) error {
	m.note("init+")
	defer m.note("init-")
	return m.inner.InitSender(io)
}

func (m *markOT) InitReceiver(io ot.IO) error {
	m.note("init+")
	defer m.note("init-")
	return m.inner.InitReceiver(io)
}

func (m *markOT) Send(wires []ot.Wire) error {
	m.note("xfer+")
	defer m.note("xfer-")
	return m.inner.Send(wires)
}

func (m *markOT) Receive(flags []bool, result []ot.Label) error {
	m.note("xfer+")
	defer m.note("xfer-")
	return m.inner.Receive(flags, result)
}

func (m *markOT) at(ev string) (mark, bool) {
	for _, k := range m.marks {
		if k.Event == ev {
			return k, true
		}
	}
	return mark{}, false
}

// runResult is what one execution of a session gives.
type runResult struct {
	Pair   xport.PairOutcome
	Trans  [2][]byte // recorded transcripts (honest runs only)
	Hits   int
	GMarks *markOT
	EMarks *markOT
	Leaked bool // a party did not return although the pipe was closed
}

const (
	stallGrace       = 100 * time.Millisecond
	honestStallGrace = 2 * time.Second
	// The stall condition must hold on this many consecutive 2 ms ticks:
	// xport.Duplex.Stalled is also true in the instant between a party
	// handing its last buffer to p2p.Conn's writer goroutine and that
	// goroutine writing it, if the party computed for longer than the grace
	// before (base OTs on a loaded machine).
	stallTicks = 8
)

// runPair is xport.RunPair with a stall condition that has to persist.
func runPair(d *xport.Duplex, a, b func() ([]*big.Int, error),
	grace, budget time.Duration) xport.PairOutcome {

	type res struct {
		who int
		r   xport.PartyResult
	}
	ch := make(chan res, 2)
	start := func(who int, f func() ([]*big.Int, error)) {
		go func() {
			var r xport.PartyResult
			defer func() {
				if p := recover(); p != nil {
					r.Panic = fmt.Sprintf("%v\n%s", p, trimStack(debug.Stack()))
				}
				r.Done = true
				ch <- res{who, r}
			}()
			r.Vals, r.Err = f()
		}()
	}
	start(0, a)
	start(1, b)

	var out xport.PairOutcome
	deadline := time.Now().Add(budget)
	pending := 2
	tick := time.NewTicker(2 * time.Millisecond)
	defer tick.Stop()
	var closedAt time.Time
	seen := 0
	for pending > 0 {
		select {
		case r := <-ch:
			pending--
			seen = 0
			if r.who == 0 {
				out.A = r.r
			} else {
				out.B = r.r
			}
			if r.r.Failed() {
				d.Close()
				if closedAt.IsZero() {
					closedAt = time.Now()
				}
			}
		case <-tick.C:
			now := time.Now()
			if !closedAt.IsZero() {
				if now.Sub(closedAt) > 5*time.Second {
					return out // a party does not return: give up on it
				}
				continue
			}
			stalled := false
			if pending == 2 {
				stalled = d.Stalled(grace)
			} else if out.A.Done {
				stalled = d.OneSidedStall(0, grace)
			} else {
				stalled = d.OneSidedStall(1, grace)
			}
			if stalled {
				seen++
			} else {
				seen = 0
			}
			if seen >= stallTicks {
				out.Stalled = true
				d.Close()
				closedAt = now
			} else if now.After(deadline) {
				out.TimedOut = true
				d.Close()
				closedAt = now
			}
		}
	}
	return out
}

func trimStack(st []byte) string {
	lines := strings.Split(string(st), "\n")
	var keep []string
	for i := 0; i < len(lines) && len(keep) < 24; i++ {
		l := lines[i]
		if strings.Contains(l, "runtime/debug") || strings.Contains(l, "runtime/panic") {
			continue
		}
		keep = append(keep, l)
	}
	return strings.Join(keep, "\n")
}

var sessionBudget = 20 * time.Second

// execute runs the session, optionally corrupted.  Everything random comes
// from DRBGs keyed by the session seed (the streaming garbler's key comes from
// crypto/rand.Reader, which the worker process replaces, see setGlobalRand).
func execute(p *prepared, corr *Corruption, record bool) (*runResult, error) {
	s := p.s
	setGlobalRand(s.Seed)
	d := xport.NewDuplex(s.FragsGE, s.FragsEG)
	if record {
		d.Record()
	}
	if corr != nil {
		d.Corrupt(corr.Dir, corr.flips())
	}
	gConn := p2p.NewConn(d.A)
	eConn := p2p.NewConn(d.B)
	gInner, err := makeOT(s.OT, s.Seed, 0)
	if err != nil {
		return nil, err
	}
	eInner, err := makeOT(s.OT, s.Seed, 1)
	if err != nil {
		return nil, err
	}
	gOT := &markOT{inner: gInner, conn: gConn}
	eOT := &markOT{inner: eInner, conn: eConn}
	cfg := &env.Config{Rand: gen.NewDRBG(s.Seed, 1)}

	var gf, ef func() ([]*big.Int, error)
	switch s.Mode {
	case "circ":
		gf = func() ([]*big.Int, error) {
			return circuit.Garbler(cfg, gConn, gOT, p.circ, p.gIn, false)
		}
		ef = func() ([]*big.Int, error) {
			return circuit.Evaluator(eConn, eOT, p.circ, p.eIn, false)
		}
	case "stream":
		// As apps/garbled/streaming.go: the evaluator first announces the
		// sizes of its inputs, the garbler compiles and streams.
		gf = func() ([]*big.Int, error) {
			gSizes, err := circuit.InputSizes(p.xArgs)
			if err != nil {
				return nil, err
			}
			sizes, err := gConn.ReceiveInputSizes()
			if err != nil {
				return nil, err
			}
			params := p.params
			if params == nil {
				params = utils.NewParams()
			}
			params.Config = cfg
			_, vals, err := compiler.New(params).Stream(gConn, gOT, "{data}",
				strings.NewReader(p.src), p.xArgs, [][]int{gSizes, sizes})
			return vals, err
		}
		ef = func() ([]*big.Int, error) {
			eSizes, err := circuit.InputSizes(p.yArgs)
			if err != nil {
				return nil, err
			}
			if err := eConn.SendInputSizes(eSizes); err != nil {
				return nil, err
			}
			if err := eConn.Flush(); err != nil {
				return nil, err
			}
			_, vals, err := circuit.StreamEvaluator(eConn, eOT, p.yArgs, nil, false)
			return vals, err
		}
	}

	res := &runResult{GMarks: gOT, EMarks: eOT}
	grace := stallGrace
	if corr == nil {
		grace = honestStallGrace
	}
	res.Pair = runPair(d, gf, ef, grace, sessionBudget)
	d.Close()
	if record {
		res.Trans[0] = d.Transcript(0)
		res.Trans[1] = d.Transcript(1)
	}
	if corr != nil {
		res.Hits = d.Hits(corr.Dir)
	}
	res.Leaked = !res.Pair.A.Done || !res.Pair.B.Done
	if !res.Leaked {
		// Stop the connections' writer goroutines.
		closeQuietly(gConn)
		closeQuietly(eConn)
	}
	return res, nil
}

func closeQuietly(c *p2p.Conn) {
	defer func() { recover() }()
	c.Close()
}

// ---------------------------------------------------------------------------
// Layout of the honest transcripts (message-kind map).

type walker struct {
	dir  int
	data []byte
	pos  int
	segs []Seg
	err  error
}

func (w *walker) take(n int, kind string) []byte {
	if w.err != nil {
		return nil
	}
	if n < 0 || w.pos+n > len(w.data) {
		w.err = fmt.Errorf("dir %d: %s: need %d bytes at %d, transcript has %d",
			w.dir, kind, n, w.pos, len(w.data))
		return nil
	}
	b := w.data[w.pos : w.pos+n]
	if n > 0 {
		if k := len(w.segs); k > 0 && w.segs[k-1].Kind == kind && w.segs[k-1].End == w.pos {
			w.segs[k-1].End += n
		} else {
			w.segs = append(w.segs, Seg{Dir: w.dir, Start: w.pos, End: w.pos + n, Kind: kind})
		}
	}
	w.pos += n
	return b
}

func (w *walker) u32(kind string) int {
	b := w.take(4, kind)
	if b == nil {
		return 0
	}
	return int(binary.BigEndian.Uint32(b))
}

func (w *walker) upTo(end int, kind string) {
	if w.err != nil {
		return
	}
	if end < w.pos {
		w.err = fmt.Errorf("dir %d: %s: position %d is already past %d", w.dir, kind, w.pos, end)
		return
	}
	w.take(end-w.pos, kind)
}

func (w *walker) data32(lenKind, kind string) []byte {
	n := w.u32(lenKind)
	return w.take(n, kind)
}

// arg walks one argument description (sendArgument); pfx is "header" or, for
// the evaluator's own argument, "evalarg" (the evaluator parses its input
// with that description).
func (w *walker) arg(pfx string) {
	w.data32(pfx+"-len", pfx+"-text") // name
	w.data32(pfx+"-len", pfx+"-text") // type
	w.u32(pfx + "-len")               // bits
	n := w.u32(pfx + "-len")
	for i := 0; i < n && w.err == nil && i < 64; i++ {
		w.arg(pfx)
	}
}

var tableRows = map[int]int{0: 0, 1: 0, 2: 2, 3: 3, 4: 1}

// layout computes the message-kind map of both directions of an honest run.
func layout(p *prepared, r *runResult) ([]Seg, error) {
	gi, ok1 := r.GMarks.at("init+")
	gx, ok2 := r.GMarks.at("xfer-")
	ei, ok3 := r.EMarks.at("init+")
	eie, ok4 := r.EMarks.at("init-")
	exs, ok5 := r.EMarks.at("xfer+")
	ex, ok6 := r.EMarks.at("xfer-")
	if !(ok1 && ok2 && ok3 && ok4 && ok5 && ok6) {
		return nil, fmt.Errorf("OT phase marks missing")
	}
	nout := 0
	for _, o := range p.outs {
		nout += o
	}
	ge := &walker{dir: 0, data: r.Trans[0]}
	eg := &walker{dir: 1, data: r.Trans[1]}
	switch p.s.Mode {
	case "circ":
		ge.u32("key-len")
		ge.take(32, "key")
		ng := ge.u32("table-count")
		if ng != p.circ.NumGates {
			return nil, fmt.Errorf("gate count %d in transcript, circuit has %d", ng, p.circ.NumGates)
		}
		for i := 0; i < ng && ge.err == nil; i++ {
			rows := ge.u32("table-count")
			if rows != tableRows[int(p.circ.Gates[i].Op)] {
				return nil, fmt.Errorf("gate %d: %d rows in transcript", i, rows)
			}
			ge.take(16*rows, "rows")
		}
		ge.take(16*p.nx, "garbler-input-labels")
		if ge.err == nil && ge.pos != gi.Sent {
			return nil, fmt.Errorf("g->e: OT starts at %d, walker is at %d", gi.Sent, ge.pos)
		}
		ge.upTo(gx.Sent, "ot")
		ge.data32("result", "result")

		eg.upTo(eie.Sent, "ot")
		eg.upTo(exs.Sent, "ot-range")
		eg.upTo(ex.Sent, "ot")
		eg.take(16*nout, "output-labels")
	case "stream":
		ge.u32("key-len")
		ge.take(32, "key")
		ge.arg("header")
		ge.arg("evalarg")
		no := ge.u32("header-len")
		for i := 0; i < no && ge.err == nil && i < 64; i++ {
			ge.arg("header")
		}
		ge.u32("header-len") // number of steps
		ge.take(16*p.nx, "garbler-input-labels")
		if ge.err == nil && ge.pos != gi.Sent {
			return nil, fmt.Errorf("g->e: OT starts at %d, walker is at %d", gi.Sent, ge.pos)
		}
		ge.upTo(gx.Sent, "ot")
	ops:
		for ge.err == nil {
			op := ge.u32("op")
			switch op {
			case circuit.OpCircuit:
				ge.u32("circ-header") // step
				ngates := ge.u32("circ-header")
				ge.u32("circ-header") // tmp wires
				ge.u32("circ-header") // wires
				for i := 0; i < ngates && ge.err == nil; i++ {
					b := ge.take(1, "gate-op")
					if b == nil {
						break
					}
					gop := b[0]
					ws := 4
					if gop&0x10 != 0 {
						ws = 2
					}
					gop &^= 0xf0
					rows, ok := tableRows[int(gop)]
					if !ok {
						return nil, fmt.Errorf("g->e: bad gate op %d at %d", gop, ge.pos-1)
					}
					nw := 3
					if gop == 4 {
						nw = 2
					}
					ge.take(nw*ws, "wire-id")
					ge.take(16*rows, "rows")
				}
			case circuit.OpReturn:
				ge.take(4*nout, "return-ids")
				break ops
			default:
				return nil, fmt.Errorf("g->e: unexpected op %d at %d", op, ge.pos-4)
			}
		}
		ge.data32("result", "result")

		ns := eg.u32("input-sizes")
		eg.take(4*ns, "input-sizes")
		if eg.err == nil && eg.pos != ei.Sent {
			return nil, fmt.Errorf("e->g: OT starts at %d, walker is at %d", ei.Sent, eg.pos)
		}
		eg.upTo(ex.Sent, "ot")
		eg.u32("op-result")
		eg.take(16*nout, "output-labels")
	}
	if p.s.OT == "co" {
		ge.segs = splitCOCiphertexts(ge.segs, r.Trans[0], p.ny)
	}
	for _, w := range []*walker{ge, eg} {
		if w.err != nil {
			return nil, w.err
		}
		if w.pos != len(w.data) {
			return nil, fmt.Errorf("dir %d: walker stops at %d, transcript has %d bytes",
				w.dir, w.pos, len(w.data))
		}
	}
	return append(ge.segs, eg.segs...), nil
}

// splitCOCiphertexts marks the label ciphertexts of the CO OT (the last 2*ny
// records "length 16 + 16 bytes" of the garbler's OT messages) as kind
// ot-labels: a flipped ciphertext bit is a flipped bit of the label the
// evaluator decrypts.
func splitCOCiphertexts(segs []Seg, data []byte, ny int) []Seg {
	var res []Seg
	for _, sg := range segs {
		n := 40 * ny
		if sg.Kind != "ot" || sg.Dir != 0 || ny == 0 || sg.End-sg.Start < n {
			res = append(res, sg)
			continue
		}
		start := sg.End - n
		ok := true
		for i := 0; i < 2*ny; i++ {
			if binary.BigEndian.Uint32(data[start+20*i:]) != 16 {
				ok = false
			}
		}
		if !ok {
			res = append(res, sg)
			continue
		}
		if start > sg.Start {
			res = append(res, Seg{Dir: 0, Start: sg.Start, End: start, Kind: "ot"})
		}
		for i := 0; i < 2*ny; i++ {
			o := start + 20*i
			res = append(res, Seg{Dir: 0, Start: o, End: o + 4, Kind: "ot"},
				Seg{Dir: 0, Start: o + 4, End: o + 20, Kind: "ot-labels"})
		}
	}
	return res
}

// labelKinds are the message kinds that consist of 16-byte labels.
var labelKinds = map[string]bool{"garbler-input-labels": true, "output-labels": true,
	"rows": true, "ot-labels": true}

// ---------------------------------------------------------------------------

// honest is the cached honest run of a session.
type honest struct {
	P      *prepared
	Lens   [2]int
	Layout []Seg
	Trans  [2][]byte
	Skip   string // non-empty: the session cannot be used
}

func sameVals(a, b []*big.Int) bool {
	if len(a) != len(b) {
		return false
	}
	for i := range a {
		if a[i] == nil || b[i] == nil || a[i].Cmp(b[i]) != 0 {
			return false
		}
	}
	return true
}

func valsText(v []*big.Int) string {
	var parts []string
	for _, x := range v {
		if x == nil {
			parts = append(parts, "nil")
		} else {
			parts = append(parts, "0b"+x.Text(2))
		}
	}
	return "[" + strings.Join(parts, " ") + "]"
}

func runHonest(s Session) *honest {
	h := &honest{}
	p, err := prepare(s)
	if err != nil {
		h.Skip = "prepare: " + err.Error()
		return h
	}
	h.P = p
	r, err := execute(p, nil, true)
	if err != nil {
		h.Skip = "execute: " + err.Error()
		return h
	}
	switch {
	case r.Pair.TimedOut:
		h.Skip = "honest run: time budget exhausted"
	case r.Pair.A.Panic != "" || r.Pair.B.Panic != "":
		h.Skip = "honest run: a party panicked (not this property): " +
			xport.PanicSiteOf(r.Pair.A.Panic+r.Pair.B.Panic)
	case r.Pair.Stalled:
		h.Skip = "honest run stalled (not this property)"
	case r.Pair.A.Err != nil || r.Pair.B.Err != nil:
		h.Skip = fmt.Sprintf("honest run failed (not this property): garbler %v, evaluator %v",
			r.Pair.A.Err, r.Pair.B.Err)
	case !sameVals(r.Pair.A.Vals, p.want):
		h.Skip = fmt.Sprintf("honest run disagrees with the reference (not this property): garbler %s, reference %s",
			valsText(r.Pair.A.Vals), valsText(p.want))
	}
	if h.Skip != "" {
		return h
	}
	h.Trans = r.Trans
	h.Lens = [2]int{len(r.Trans[0]), len(r.Trans[1])}
	lay, err := layout(p, r)
	if err != nil {
		// The kind map is only used for stratification and classes.
		lay = []Seg{{Dir: 0, Start: 0, End: h.Lens[0], Kind: "unknown"},
			{Dir: 1, Start: 0, End: h.Lens[1], Kind: "unknown"}}
		layoutErrors.Add(1)
		lastLayoutError.Store(err.Error())
	}
	h.Layout = lay
	return h
}

func kindAt(lay []Seg, dir, off int) string {
	for _, s := range lay {
		if s.Dir == dir && off >= s.Start && off < s.End {
			return s.Kind
		}
	}
	return "beyond-transcript"
}

func sessionKey(s Session) string {
	b, _ := json.Marshal(s)
	return string(b)
}
