package c16

import (
	"bufio"
	crand "crypto/rand"
	"encoding/hex"
	"encoding/json"
	"fmt"
	"io"
	"math/big"
	"os"
	"os/exec"
	"runtime"
	"runtime/debug"
	"strconv"
	"strings"
	"sync"
	"sync/atomic"
	"syscall"
	"testing"
	"time"

	"verifharness/internal/gen"
	"verifharness/internal/xport"
)

// Corrupted sessions run in worker subprocesses (this test binary re-executed
// with VERIF_C16_WORKER=1): a corrupted length field can make a party allocate
// tens of gigabytes, which the Go runtime answers with an unrecoverable fatal
// error.  The worker lowers its own address-space limit, the parent restarts a
// dead worker and books the case as inconclusive.  The limit is deliberately
// low: a large allocation that the runtime places on previously used heap pages
// is zeroed completely (resident memory), so allocations that succeed must stay
// small enough for many workers to run side by side.

// Request is one unit of work for a worker: the honest layout of a session
// (C == nil) or one corrupted run.
type Request struct {
	ID        int         `json:"id"`
	S         Session     `json:"s"`
	C         *Corruption `json:"c,omitempty"`
	WantTrans bool        `json:"want_trans,omitempty"` // with the layout: the honest transcripts
	Seq       *SeqCase    `json:"seq,omitempty"`        // a sequence of sessions on one circuit value (S, C unused)
}

// Reply is the worker's answer.
type Reply struct {
	ID        int      `json:"id"`
	Skip      string   `json:"skip,omitempty"`
	Lens      [2]int   `json:"lens"`
	Layout    []Seg    `json:"layout,omitempty"`
	Trans     []string `json:"trans,omitempty"` // hex, per direction
	LayoutErr string   `json:"layout_err,omitempty"`
	Kind      string   `json:"kind,omitempty"`
	Hits      int      `json:"hits"`
	GDone     bool     `json:"g_done"`
	GOK       bool     `json:"g_ok"` // garbler returned a nil error
	GErr      string   `json:"g_err,omitempty"`
	GVals     []string `json:"g_vals,omitempty"`
	GPanic    string   `json:"g_panic,omitempty"`
	EDone     bool     `json:"e_done"`
	EOK       bool     `json:"e_ok"`
	EErr      string   `json:"e_err,omitempty"`
	EVals     []string `json:"e_vals,omitempty"`
	EPanic    string   `json:"e_panic,omitempty"`
	Want      []string `json:"want,omitempty"`
	Stalled   bool     `json:"stalled,omitempty"`
	TimedOut  bool     `json:"timed_out,omitempty"`
	Recycle   bool     `json:"recycle,omitempty"`
	ElapsedMs int64    `json:"ms"`
	// Shape of the session: input widths, number of result bits, the
	// reference result as one bit string (result bit 0 first).
	NX       int    `json:"nx,omitempty"`
	NY       int    `json:"ny,omitempty"`
	NOut     int    `json:"nout,omitempty"`
	WantBits string `json:"want_bits,omitempty"`
	// LabelIdx is the index (wire / result bit) of the label that the
	// corruption's first byte lies in, -1 when it is not in a label list.
	LabelIdx int `json:"label_idx"`
	// Steps are the answers of a sequence request.
	Steps []StepReply `json:"steps,omitempty"`
}

// wantBits renders the reference result as a bit string in result-bit order.
func wantBits(p *prepared) string {
	var sb strings.Builder
	for i, w := range p.outs {
		for b := 0; b < w; b++ {
			if i < len(p.want) && p.want[i] != nil && p.want[i].Bit(b) == 1 {
				sb.WriteByte('1')
			} else {
				sb.WriteByte('0')
			}
		}
	}
	return sb.String()
}

// labelIndex returns the index of the label (garbler input wire, OT wire,
// result bit) that holds the offset; -1 for table rows and non-label kinds.
func labelIndex(lay []Seg, dir, off int) int {
	nth := 0
	for _, s := range lay {
		if s.Dir != dir {
			continue
		}
		in := off >= s.Start && off < s.End
		switch s.Kind {
		case "output-labels", "garbler-input-labels":
			if in {
				return (off - s.Start) / 16
			}
		case "ot-labels":
			// Two ciphertexts per OT wire, one segment each.
			if in {
				return nth / 2
			}
			nth++
		default:
			if in {
				return -1
			}
		}
	}
	return -1
}

var (
	layoutErrors    atomic.Int64
	lastLayoutError atomic.Value
)

// constReader is the deterministic stand-in for crypto/rand.Reader: every Read
// returns the start of one DRBG stream of the session seed.  The only reader
// of the global source in a session is the streaming garbler's key
// (compiler/ssa/streamer.go), which ignores env.Config.Rand.
type constReader struct{ seed uint64 }

func (c constReader) Read(p []byte) (int, error) {
	gen.NewDRBG(c.seed, 99).Read(p)
	return len(p), nil
}

var globalRandMu sync.Mutex

func setGlobalRand(seed uint64) {
	globalRandMu.Lock()
	crand.Reader = constReader{seed}
	globalRandMu.Unlock()
}

func texts(v []*big.Int) []string {
	var r []string
	for _, x := range v {
		if x == nil {
			r = append(r, "nil")
		} else {
			r = append(r, x.Text(2))
		}
	}
	return r
}

// ---------------------------------------------------------------------------
// Worker side.

var (
	honestMu    sync.Mutex
	honestCache = map[string]*honest{}
	honestOrder []string
)

func honestFor(s Session) *honest {
	key := sessionKey(s)
	honestMu.Lock()
	defer honestMu.Unlock()
	if h, ok := honestCache[key]; ok {
		return h
	}
	h := runHonest(s)
	honestCache[key] = h
	honestOrder = append(honestOrder, key)
	if len(honestOrder) > 6 {
		delete(honestCache, honestOrder[0])
		honestOrder = honestOrder[1:]
	}
	return h
}

func short(s string, n int) string {
	if len(s) > n {
		return s[:n] + "…"
	}
	return s
}

// handle executes one request (in the worker, or in-process for debugging).
func handle(req Request) (rep Reply) {
	t0 := time.Now()
	rep.ID = req.ID
	rep.LabelIdx = -1
	defer func() { rep.ElapsedMs = time.Since(t0).Milliseconds() }()
	if req.Seq != nil {
		handleSeq(req.Seq, &rep)
		return
	}
	h := honestFor(req.S)
	if h.Skip != "" {
		rep.Skip = h.Skip
		return
	}
	rep.Lens = h.Lens
	rep.NX, rep.NY = h.P.nx, h.P.ny
	for _, o := range h.P.outs {
		rep.NOut += o
	}
	rep.WantBits = wantBits(h.P)
	if layoutErrors.Load() > 0 {
		if v, ok := lastLayoutError.Load().(string); ok {
			rep.LayoutErr = v
		}
	}
	if req.C == nil {
		rep.Layout = h.Layout
		if req.WantTrans {
			rep.Trans = []string{hex.EncodeToString(h.Trans[0]), hex.EncodeToString(h.Trans[1])}
		}
		return
	}
	rep.Kind = kindAt(h.Layout, req.C.Dir, req.C.Off)
	rep.LabelIdx = labelIndex(h.Layout, req.C.Dir, req.C.Off)
	rep.Want = texts(h.P.want)
	r, err := execute(h.P, req.C, false)
	if err != nil {
		rep.Skip = "execute: " + err.Error()
		return
	}
	rep.Hits = r.Hits
	a, b := r.Pair.A, r.Pair.B
	rep.GDone, rep.EDone = a.Done, b.Done
	rep.GOK = a.Done && a.Err == nil && a.Panic == ""
	rep.EOK = b.Done && b.Err == nil && b.Panic == ""
	if a.Err != nil {
		rep.GErr = short(a.Err.Error(), 300)
	}
	if b.Err != nil {
		rep.EErr = short(b.Err.Error(), 300)
	}
	rep.GPanic, rep.EPanic = short(a.Panic, 1500), short(b.Panic, 1500)
	if rep.GOK {
		rep.GVals = texts(a.Vals)
	}
	if rep.EOK {
		rep.EVals = texts(b.Vals)
	}
	rep.Stalled, rep.TimedOut = r.Pair.Stalled, r.Pair.TimedOut
	if r.Leaked {
		rep.Recycle = true
	}
	return
}

func workerMemLimit() uint64 {
	gb := 3.25
	if s := os.Getenv("VERIF_C16_WORKER_MEM_GB"); s != "" {
		if v, err := strconv.ParseFloat(s, 64); err == nil && v > 0 {
			gb = v
		}
	}
	return uint64(gb * float64(1<<30))
}

func workerMain() {
	lim := workerMemLimit()
	var cur syscall.Rlimit
	if err := syscall.Getrlimit(syscall.RLIMIT_AS, &cur); err == nil {
		if cur.Max != ^uint64(0) && cur.Max < lim {
			lim = cur.Max
		}
		syscall.Setrlimit(syscall.RLIMIT_AS, &syscall.Rlimit{Cur: lim, Max: lim})
	}
	debug.SetGCPercent(200)
	in := bufio.NewReaderSize(os.Stdin, 1<<20)
	out := os.NewFile(3, "reply")
	if out == nil {
		fmt.Fprintln(os.Stderr, "c16 worker: no reply pipe")
		os.Exit(3)
	}
	enc := json.NewEncoder(out)
	for {
		line, err := in.ReadBytes('\n')
		if len(line) > 0 {
			var req Request
			if jerr := json.Unmarshal(line, &req); jerr != nil {
				fmt.Fprintf(os.Stderr, "c16 worker: bad request: %v\n", jerr)
				os.Exit(3)
			}
			rep := handle(req)
			var ms runtime.MemStats
			runtime.ReadMemStats(&ms)
			if ms.Sys > 1<<30 {
				rep.Recycle = true
			}
			if eerr := enc.Encode(rep); eerr != nil {
				os.Exit(3)
			}
			if rep.Recycle {
				os.Exit(0)
			}
		}
		if err != nil {
			os.Exit(0)
		}
	}
}

// ---------------------------------------------------------------------------
// Parent side.

type tailBuf struct {
	mu   sync.Mutex
	head []byte
	buf  []byte
}

func (t *tailBuf) Write(p []byte) (int, error) {
	t.mu.Lock()
	if len(t.head) < 6144 {
		t.head = append(t.head, p[:min(len(p), 6144-len(t.head))]...)
	}
	t.buf = append(t.buf, p...)
	if len(t.buf) > 8192 {
		t.buf = t.buf[len(t.buf)-4096:]
	}
	t.mu.Unlock()
	return len(p), nil
}

func (t *tailBuf) String() string {
	t.mu.Lock()
	defer t.mu.Unlock()
	return string(t.head) + "\n...\n" + string(t.buf)
}

type workerProc struct {
	cmd    *exec.Cmd
	in     io.WriteCloser
	out    *bufio.Reader
	outF   *os.File
	stderr *tailBuf
}

func spawnWorker() (*workerProc, error) {
	rp, wp, err := os.Pipe()
	if err != nil {
		return nil, err
	}
	cmd := exec.Command(os.Args[0])
	var envv []string
	for _, e := range os.Environ() {
		if strings.HasPrefix(e, "VERIF_EV_OUT=") || strings.HasPrefix(e, "VERIF_REPLAY") {
			continue
		}
		envv = append(envv, e)
	}
	cmd.Env = append(envv, "VERIF_C16_WORKER=1")
	cmd.ExtraFiles = []*os.File{wp}
	tb := &tailBuf{}
	cmd.Stderr = tb
	cmd.Stdout = nil
	in, err := cmd.StdinPipe()
	if err != nil {
		rp.Close()
		wp.Close()
		return nil, err
	}
	if err := cmd.Start(); err != nil {
		rp.Close()
		wp.Close()
		return nil, err
	}
	wp.Close()
	return &workerProc{cmd: cmd, in: in, out: bufio.NewReaderSize(rp, 1<<20),
		outF: rp, stderr: tb}, nil
}

func (w *workerProc) kill() string {
	w.in.Close()
	// Give a dying process a moment to finish on its own so that its exit
	// status tells how it died.
	done := make(chan struct{})
	go func() { w.cmd.Wait(); close(done) }()
	select {
	case <-done:
	case <-time.After(500 * time.Millisecond):
		w.cmd.Process.Kill()
		<-done
	}
	w.outF.Close()
	if w.cmd.ProcessState != nil {
		return w.cmd.ProcessState.String()
	}
	return "no exit status"
}

func (w *workerProc) retire() {
	w.in.Close()
	done := make(chan struct{})
	go func() { w.cmd.Wait(); close(done) }()
	select {
	case <-done:
	case <-time.After(3 * time.Second):
		w.cmd.Process.Kill()
		<-done
	}
	w.outF.Close()
}

type pool struct {
	slots  chan *workerProc // nil = spawn on demand
	inproc bool
	mu     sync.Mutex
	nextID int
	spawns atomic.Int64
	deaths atomic.Int64
}

var (
	poolOnce sync.Once
	thePool  *pool
)

func getPool() *pool {
	poolOnce.Do(func() {
		n := 4
		if s := os.Getenv("VERIF_C16_WORKERS"); s != "" {
			if v, err := strconv.Atoi(s); err == nil && v > 0 {
				n = v
			}
		}
		p := &pool{inproc: os.Getenv("VERIF_C16_INPROC") == "1"}
		if p.inproc {
			n = 1
		}
		p.slots = make(chan *workerProc, n)
		for i := 0; i < n; i++ {
			p.slots <- nil
		}
		thePool = p
	})
	return thePool
}

func (p *pool) size() int { return cap(p.slots) }

// errWorkerDied is returned by do when the worker process went away while it
// worked on the request.
type errWorkerDied struct{ why string }

func (e errWorkerDied) Error() string { return "worker died: " + e.why }

func deathReason(stderr string, timedOut bool) string {
	switch {
	case timedOut:
		return "no answer within the hard time limit"
	case strings.Contains(stderr, "out of memory") || strings.Contains(stderr, "cannot allocate memory"):
		return "out of memory in " + oomParty(stderr) + " (allocation from a corrupted length field)"
	case strings.Contains(stderr, "pthread_create failed") || strings.Contains(stderr, "failed to create new OS thread"):
		return "thread creation failed under the address-space limit (after a large allocation from a corrupted length field)"
	case strings.Contains(stderr, "fatal error:"):
		i := strings.Index(stderr, "fatal error:")
		line := stderr[i:]
		if j := strings.IndexByte(line, '\n'); j > 0 {
			line = line[:j]
		}
		return short(line, 80)
	}
	return "unknown"
}

// oomParty names the party whose goroutine made the fatal allocation.
func oomParty(stderr string) string {
	i := strings.Index(stderr, "fatal error:")
	if i < 0 {
		return "unknown party"
	}
	tr := stderr[i:]
	if j := strings.Index(tr, "\n\ngoroutine "); j >= 0 {
		tr = tr[j+2:]
		if k := strings.Index(tr, "\n\n"); k >= 0 {
			tr = tr[:k]
		}
	}
	switch {
	case strings.Contains(tr, "circuit.Evaluator(") || strings.Contains(tr, "circuit.StreamEvaluator("):
		return "the evaluator"
	case strings.Contains(tr, "circuit.Garbler(") || strings.Contains(tr, ").Stream(") ||
		strings.Contains(tr, "ReceiveInputSizes"):
		return "the garbler"
	}
	return "unknown party"
}

var unexplained = func(string) {}

// do sends one request to a worker and waits for the answer.
func (p *pool) do(req Request) (Reply, error) {
	w := <-p.slots
	if p.inproc {
		defer func() { p.slots <- nil }()
		return handle(req), nil
	}
	if w == nil {
		var err error
		w, err = spawnWorker()
		if err != nil {
			p.slots <- nil
			return Reply{}, fmt.Errorf("cannot start worker: %v", err)
		}
		p.spawns.Add(1)
	}
	p.mu.Lock()
	p.nextID++
	req.ID = p.nextID
	p.mu.Unlock()
	data, _ := json.Marshal(req)
	data = append(data, '\n')

	type answer struct {
		rep Reply
		err error
	}
	ch := make(chan answer, 1)
	go func() {
		if _, err := w.in.Write(data); err != nil {
			ch <- answer{err: err}
			return
		}
		line, err := w.out.ReadBytes('\n')
		if err != nil {
			ch <- answer{err: err}
			return
		}
		var rep Reply
		if err := json.Unmarshal(line, &rep); err != nil {
			ch <- answer{err: err}
			return
		}
		ch <- answer{rep: rep}
	}()
	hard := 2*sessionBudget + 20*time.Second
	select {
	case a := <-ch:
		if a.err != nil {
			status := w.kill()
			p.deaths.Add(1)
			p.slots <- nil
			if os.Getenv("VERIF_C16_DEBUG") != "" {
				fmt.Fprintf(os.Stderr, "DBG worker died (%v) on %s\nDBG stderr tail: %s\n", a.err, data, w.stderr.String())
			}
			why := deathReason(w.stderr.String(), false)
			if why == "unknown" {
				why = "unexplained"
				unexplained(fmt.Sprintf("worker died without a fatal-error message: read error %v, %s, stderr %q, request %s",
					a.err, status, short(w.stderr.String(), 600), short(string(data), 500)))
			}
			return Reply{}, errWorkerDied{why}
		}
		if a.rep.Recycle {
			w.retire()
			p.slots <- nil
		} else {
			p.slots <- w
		}
		if a.rep.ID != req.ID {
			return Reply{}, fmt.Errorf("worker answered request %d, expected %d", a.rep.ID, req.ID)
		}
		return a.rep, nil
	case <-time.After(hard):
		w.kill()
		p.deaths.Add(1)
		p.slots <- nil
		return Reply{}, errWorkerDied{deathReason("", true)}
	}
}

func (p *pool) shutdown() {
	for i := 0; i < cap(p.slots); i++ {
		select {
		case w := <-p.slots:
			if w != nil {
				w.retire()
			}
		case <-time.After(5 * time.Second):
			return
		}
	}
}

func TestMain(m *testing.M) {
	if os.Getenv("VERIF_C16_WORKER") == "1" {
		workerMain()
		os.Exit(0)
	}
	code := m.Run()
	if thePool != nil {
		thePool.shutdown()
	}
	os.Exit(code)
}

var _ = xport.ErrClosed
