package c16

import (
	"fmt"
	"math/big"
	"sync"

	"github.com/markkurossi/mpc/circuit"
	"github.com/markkurossi/mpc/compiler"
	"github.com/markkurossi/mpc/compiler/utils"

	"verifharness/internal/gen"
	"verifharness/internal/ref"
)

// argT is the type of a parameter of a fixed program.
type argT struct {
	Kind    string // "uint" | "int" | "bool" | "array" / "slice" (of uint) | "struct" (of uint members)
	Bits    int    // total width
	Elem    int    // array, slice: element width (a multiple of 4)
	Members []int  // struct: member widths
}

// fixedProg is a small two-party MPCL program with a reference function
// written in Go (raw bit patterns in, raw bit patterns out).
type fixedProg struct {
	Name   string
	Src    string
	XT, YT argT
	Outs   []int
	Ref    func(x, y uint64) []uint64
	// RefBig is the reference of the programs with inputs wider than 64 bits
	// (Ref is nil for them).
	RefBig func(x, y *big.Int) []*big.Int
	Sizes  [][]int // input sizes for unsized (slice) parameters, whole-circuit compile
}

// ref evaluates the program's reference function.
func (fp *fixedProg) ref(x, y *big.Int) []*big.Int {
	if fp.RefBig != nil {
		return fp.RefBig(x, y)
	}
	return u64s(fp.Ref(x.Uint64(), y.Uint64()))
}

// wrapN reduces v to n bits (two's complement).
func wrapN(v *big.Int, n int) *big.Int {
	m := new(big.Int).Lsh(big.NewInt(1), uint(n))
	r := new(big.Int).Mod(v, m)
	return r
}

func sext(v uint64, bits int) int64 {
	if v&(1<<uint(bits-1)) != 0 {
		return int64(v) - (1 << uint(bits))
	}
	return int64(v)
}

func b2u(b bool) uint64 {
	if b {
		return 1
	}
	return 0
}

var fixedProgs = []fixedProg{
	{
		Name: "and1",
		Src: `package main
func main(a bool, b bool) (bool, bool) { return a && b, a != b }`,
		XT: argT{Kind: "bool", Bits: 1}, YT: argT{Kind: "bool", Bits: 1}, Outs: []int{1, 1},
		Ref: func(x, y uint64) []uint64 { return []uint64{x & y, x ^ y} },
	},
	{
		Name: "add4",
		Src: `package main
func main(a uint4, b uint4) uint4 { return a + b }`,
		XT: argT{Kind: "uint", Bits: 4}, YT: argT{Kind: "uint", Bits: 4}, Outs: []int{4},
		Ref: func(x, y uint64) []uint64 { return []uint64{(x + y) & 15} },
	},
	{
		Name: "cmpsub",
		Src: `package main
func main(a uint5, b uint3) (uint5, bool) {
	if a > uint5(b) {
		return a - uint5(b), true
	}
	return a ^ uint5(b), false
}`,
		XT: argT{Kind: "uint", Bits: 5}, YT: argT{Kind: "uint", Bits: 3}, Outs: []int{5, 1},
		Ref: func(x, y uint64) []uint64 {
			if x > y {
				return []uint64{(x - y) & 31, 1}
			}
			return []uint64{x ^ y, 0}
		},
	},
	{
		Name: "mul3",
		Src: `package main
func main(a uint3, b uint3) uint6 { return uint6(a) * uint6(b) }`,
		XT: argT{Kind: "uint", Bits: 3}, YT: argT{Kind: "uint", Bits: 3}, Outs: []int{6},
		Ref: func(x, y uint64) []uint64 { return []uint64{(x * y) & 63} },
	},
	{
		Name: "sdiff",
		Src: `package main
func main(a int5, b int5) (int5, bool) { return a - b, a < b }`,
		XT: argT{Kind: "int", Bits: 5}, YT: argT{Kind: "int", Bits: 5}, Outs: []int{5, 1},
		Ref: func(x, y uint64) []uint64 {
			return []uint64{(x - y) & 31, b2u(sext(x, 5) < sext(y, 5))}
		},
	},
	{
		Name: "logic",
		Src: `package main
func main(a uint6, b uint4) (uint6, uint4) {
	return (a & 0x2d) | (uint6(b) << 1), uint4(a >> 2) & b
}`,
		XT: argT{Kind: "uint", Bits: 6}, YT: argT{Kind: "uint", Bits: 4}, Outs: []int{6, 4},
		Ref: func(x, y uint64) []uint64 {
			return []uint64{(x & 0x2d) | ((y << 1) & 63), ((x >> 2) & 15) & y}
		},
	},
}

// Programs for three suspected weaknesses of streaming mode: the evaluator
// parses its own input with the argument description the garbler sends (array
// type text, member Bits of a compound argument), and outputs that are another
// wire XOR a constant (OpReturn wire ids).
var extraProgs = []fixedProg{
	{
		Name: "arrarg",
		Src: `package main
func main(a uint4, b [3]uint4) uint4 { return a + b[0] + b[2] }`,
		XT: argT{Kind: "uint", Bits: 4}, YT: argT{Kind: "array", Bits: 12, Elem: 4}, Outs: []int{4},
		Ref: func(x, y uint64) []uint64 { return []uint64{(x + (y & 15) + (y >> 8 & 15)) & 15} },
	},
	{
		Name: "structarg",
		Src: `package main
type E struct {
	p uint4
	q uint3
	r uint4
}
func main(a uint4, b E) (uint4, uint3) { return a + b.p - b.r, b.q }`,
		XT: argT{Kind: "uint", Bits: 4}, YT: argT{Kind: "struct", Bits: 11, Members: []int{4, 3, 4}},
		Outs: []int{4, 3},
		Ref: func(x, y uint64) []uint64 {
			return []uint64{(x + (y & 15) - (y >> 7 & 15)) & 15, y >> 4 & 7}
		},
	},
	{
		// Unsized evaluator parameter: instantiated from the sizes the
		// evaluator announces (16 bits = two elements).
		Name: "slicearg",
		Src: `package main
func main(a uint8, b []uint8) uint8 { return a + b[0] + b[1] }`,
		XT: argT{Kind: "uint", Bits: 8}, YT: argT{Kind: "slice", Bits: 16, Elem: 8}, Outs: []int{8},
		Ref:   func(x, y uint64) []uint64 { return []uint64{(x + (y & 255) + (y >> 8 & 255)) & 255} },
		Sizes: [][]int{{8}, {16}},
	},
	{
		Name: "xorconst",
		Src: `package main
func main(a uint4, b uint4) (uint4, bool) { return a ^ b ^ 0xf, !(a < b) }`,
		XT: argT{Kind: "uint", Bits: 4}, YT: argT{Kind: "uint", Bits: 4}, Outs: []int{4, 1},
		Ref: func(x, y uint64) []uint64 { return []uint64{x ^ y ^ 15, b2u(!(x < y))} },
	},
}

// Programs whose result (and, for some, whose inputs) are wider than 64 bits:
// result bit indices, label indices and OT wire indices beyond one machine
// word.
var wideProgs = []fixedProg{
	{
		Name: "add128",
		Src: `package main
func main(a uint128, b uint128) uint128 { return a + b }`,
		XT: argT{Kind: "uint", Bits: 128}, YT: argT{Kind: "uint", Bits: 128}, Outs: []int{128},
		RefBig: func(x, y *big.Int) []*big.Int {
			return []*big.Int{wrapN(new(big.Int).Add(x, y), 128)}
		},
	},
	{
		Name: "mix100",
		Src: `package main
func main(a uint100, b uint100) uint100 { return (a + b) ^ (a & b) }`,
		XT: argT{Kind: "uint", Bits: 100}, YT: argT{Kind: "uint", Bits: 100}, Outs: []int{100},
		RefBig: func(x, y *big.Int) []*big.Int {
			s := wrapN(new(big.Int).Add(x, y), 100)
			return []*big.Int{s.Xor(s, new(big.Int).And(x, y))}
		},
	},
	{
		// Two results of 70 and 9 bits, narrow evaluator input (cheap OT).
		Name: "wide2",
		Src: `package main
func main(a uint70, b uint9) (uint70, uint9) {
	return a ^ (uint70(b) << 61) ^ (uint70(b) << 30), b + uint9(a >> 60)
}`,
		XT: argT{Kind: "uint", Bits: 70}, YT: argT{Kind: "uint", Bits: 9}, Outs: []int{70, 9},
		RefBig: func(x, y *big.Int) []*big.Int {
			r := new(big.Int).Xor(x, wrapN(new(big.Int).Lsh(y, 61), 70))
			r.Xor(r, wrapN(new(big.Int).Lsh(y, 30), 70))
			q := new(big.Int).Add(y, wrapN(new(big.Int).Rsh(x, 60), 9))
			return []*big.Int{r, wrapN(q, 9)}
		},
	},
	{
		// Wide evaluator input, narrow garbler input.
		Name: "widey",
		Src: `package main
func main(a uint8, b uint96) uint96 { return (b + uint96(a)) | (b >> 3) }`,
		XT: argT{Kind: "uint", Bits: 8}, YT: argT{Kind: "uint", Bits: 96}, Outs: []int{96},
		RefBig: func(x, y *big.Int) []*big.Int {
			s := wrapN(new(big.Int).Add(x, y), 96)
			return []*big.Int{s.Or(s, new(big.Int).Rsh(y, 3))}
		},
	},
}

func isWideProg(name string) bool {
	for i := range wideProgs {
		if wideProgs[i].Name == name {
			return true
		}
	}
	return false
}

var wideProgNames = func() []string {
	var r []string
	for _, p := range wideProgs {
		r = append(r, p.Name)
	}
	return r
}()

func init() {
	fixedProgs = append(fixedProgs, extraProgs...)
	fixedProgs = append(fixedProgs, wideProgs...)
	fixedCircs["widemix"] = wideMixCirc()
}

// wideMixCirc is a hand-made circuit with a 5-bit garbler input, a 67-bit
// evaluator input and two results of 70 and 9 bits: 67 first-level gates
// m[j] = op(x[j%5], y[j]) of all binary kinds, 79 result gates over pairs of
// first-level wires.
func wideMixCirc() gen.Circ {
	const nx, ny = 5, 67
	c := gen.Circ{In: []int{nx, ny}, Out: []int{70, 9}}
	ops := []int{ref.AND, ref.XOR, ref.OR, ref.XNOR}
	w := nx + ny
	for j := 0; j < ny; j++ {
		c.Gates = append(c.Gates, ref.Gate{ops[j%4], j % nx, nx + j, w})
		w++
	}
	mid := nx + ny
	ops2 := []int{ref.XOR, ref.AND, ref.XNOR, ref.OR, ref.INV}
	for i := 0; i < 79; i++ {
		c.Gates = append(c.Gates, ref.Gate{ops2[i%5], mid + i%ny, mid + (i*7+3)%ny, w})
		w++
	}
	return c
}

var fixedProgNames = func() []string {
	var r []string
	for _, p := range fixedProgs {
		r = append(r, p.Name)
	}
	for _, p := range extraProgs {
		r = append(r, p.Name)
	}
	return r
}()

func fixedByName(name string) *fixedProg {
	for i := range fixedProgs {
		if fixedProgs[i].Name == name {
			return &fixedProgs[i]
		}
	}
	return nil
}

var (
	compMu    sync.Mutex
	compCache = map[string]*circuit.Circuit{}
)

// compiledCircuit compiles MPCL source into a whole circuit (cached by key).
func compiledCircuit(key, src string, sizes [][]int) (*circuit.Circuit, error) {
	compMu.Lock()
	defer compMu.Unlock()
	if c, ok := compCache[key]; ok {
		return c, nil
	}
	c, _, err := compiler.New(utils.NewParams()).Compile(src, sizes)
	if err != nil {
		return nil, err
	}
	if c == nil {
		return nil, fmt.Errorf("no circuit produced")
	}
	if len(compCache) > 64 {
		compCache = map[string]*circuit.Circuit{}
	}
	compCache[key] = c
	return c, nil
}

func u64s(vals []uint64) []*big.Int {
	var r []*big.Int
	for _, v := range vals {
		r = append(r, new(big.Int).SetUint64(v))
	}
	return r
}

// Hand-made circuits of the enumerated (exhaustive) sessions.  Gate =
// {op, in0, in1, out}; inputs first, outputs last.
var fixedCircs = map[string]gen.Circ{
	// 2+2 inputs, every gate kind, two outputs of widths 1 and 2.
	"mix": {In: []int{2, 2}, Out: []int{1, 2}, Gates: []ref.Gate{
		{ref.AND, 0, 2, 4},
		{ref.OR, 1, 3, 5},
		{ref.XOR, 4, 5, 6},
		{ref.INV, 6, 0, 7},
		{ref.XNOR, 4, 1, 8},
		{ref.AND, 7, 3, 9},
		{ref.OR, 8, 2, 10},
		{ref.XOR, 9, 10, 11},
	}},
	// AND-only chain, one output bit: every table row matters or is unused.
	"andchain": {In: []int{3, 3}, Out: []int{1}, Gates: []ref.Gate{
		{ref.AND, 0, 3, 6},
		{ref.AND, 1, 4, 7},
		{ref.AND, 2, 5, 8},
		{ref.AND, 6, 7, 9},
		{ref.AND, 9, 8, 10},
	}},
	// Free gates only (the key and tables are irrelevant), 3 output bits.
	"free": {In: []int{3, 2}, Out: []int{3}, Gates: []ref.Gate{
		{ref.XOR, 0, 3, 5},
		{ref.XNOR, 1, 4, 6},
		{ref.XOR, 2, 3, 7},
		{ref.XNOR, 5, 6, 8},
		{ref.XOR, 6, 7, 9},
		{ref.XOR, 7, 5, 10},
	}},
	// OR/INV heavy, outputs {2,1}, an input-to-output path through INV only.
	"orinv": {In: []int{2, 3}, Out: []int{2, 1}, Gates: []ref.Gate{
		{ref.INV, 0, 0, 5},
		{ref.OR, 1, 2, 6},
		{ref.INV, 3, 0, 7},
		{ref.OR, 5, 7, 8},
		{ref.OR, 6, 4, 9},
		{ref.INV, 9, 0, 10},
		{ref.OR, 8, 10, 11},
		{ref.INV, 4, 0, 12},
	}},
}

// enumSessions are the sessions whose every transcript offset is corrupted in
// the thorough tier (6 whole-circuit, 4 streaming, two input/seed variants of
// each).
func enumSessions() []Session {
	mk := func(mode, circ, prog, x, y string, seed uint64) Session {
		s := Session{Mode: mode, Prog: prog, X: x, Y: y, OT: "co", Seed: seed}
		if circ != "" {
			c := fixedCircs[circ]
			s.Circ = &c
		}
		return s
	}
	base := []Session{
		mk("circ", "mix", "", "10", "11", 101),
		mk("circ", "andchain", "", "111", "111", 102),
		mk("circ", "free", "", "101", "01", 103),
		mk("circ", "orinv", "", "01", "100", 104),
		mk("circ", "", "add4", "1101", "0110", 105),
		mk("circ", "", "cmpsub", "10110", "101", 106),
		mk("stream", "", "and1", "1", "1", 201),
		mk("stream", "", "add4", "1011", "0111", 202),
		mk("stream", "", "cmpsub", "01101", "110", 203),
		mk("stream", "", "sdiff", "11010", "01100", 204),
	}
	// Second variant of every session: complemented inputs (other active
	// labels, other table rows in use) and another seed.
	inv := func(b string) string {
		r := []byte(b)
		for i := range r {
			r[i] ^= 1
		}
		return string(r)
	}
	res := append([]Session{}, base...)
	for _, s := range base {
		v := s
		v.X, v.Y, v.Seed = inv(s.X), inv(s.Y), s.Seed+1000
		res = append(res, v)
	}
	// Streaming sessions for the suspected weaknesses (one variant each).
	res = append(res,
		mk("stream", "", "arrarg", "1010", "110001011110", 301),
		mk("stream", "", "structarg", "0110", "10110111001", 302),
		mk("stream", "", "xorconst", "1001", "0101", 303),
		mk("stream", "", "slicearg", "10110010", "1000000001000000", 304))
	// Wide sessions: more than 64 result bits (one of 128, one of 100, 70+9
	// in both modes and as a hand-made circuit, 96 with a 96-bit evaluator
	// input), inputs from a fixed pseudo-random pattern so that the reference
	// has 1 bits and 0 bits at result indices >= 64 (checked by checkWide).
	bits := func(n int, stream uint64) string {
		raw := gen.NewDRBG(4242, stream).Bytes((n + 7) / 8)
		b := make([]byte, n)
		for i := range b {
			b[i] = '0' + raw[i/8]>>uint(i%8)&1
		}
		return string(b)
	}
	res = append(res,
		mk("circ", "", "add128", bits(128, 1), bits(128, 2), 401),
		mk("stream", "", "mix100", bits(100, 3), bits(100, 4), 402),
		mk("circ", "", "wide2", bits(70, 5), bits(9, 6), 403),
		mk("stream", "", "wide2", bits(70, 7), bits(9, 8), 404),
		mk("circ", "widemix", "", bits(5, 9), bits(67, 10), 405),
		mk("stream", "", "widey", bits(8, 11), bits(96, 12), 406))
	return res
}
