package c16

import (
	"fmt"
	"math/big"
	"sync"

	"github.com/markkurossi/mpc/circuit"
	"github.com/markkurossi/mpc/compiler"
	"github.com/markkurossi/mpc/compiler/utils"

	"verifharness/internal/gen"
	"verifharness/internal/ref"
)

// argT is the type of a parameter of a fixed program.
type argT struct {
	Kind    string // "uint" | "int" | "bool" | "array" / "slice" (of uint) | "struct" (of uint members)
	Bits    int    // total width
	Elem    int    // array, slice: element width (a multiple of 4)
	Members []int  // struct: member widths
}

// fixedProg is a small two-party MPCL program with a reference function
// written in Go (raw bit patterns in, raw bit patterns out).
type fixedProg struct {
	Name   string
	Src    string
	XT, YT argT
	Outs   []int
	Ref    func(x, y uint64) []uint64
	Sizes  [][]int // input sizes for unsized (slice) parameters, whole-circuit compile
}

func sext(v uint64, bits int) int64 {
	if v&(1<<uint(bits-1)) != 0 {
		return int64(v) - (1 << uint(bits))
	}
	return int64(v)
}

func b2u(b bool) uint64 {
	if b {
		return 1
	}
	return 0
}

var fixedProgs = []fixedProg{
	{
		Name: "and1",
		Src: `package main
func main(a bool, b bool) (bool, bool) { return a && b, a != b }`,
		XT: argT{Kind: "bool", Bits: 1}, YT: argT{Kind: "bool", Bits: 1}, Outs: []int{1, 1},
		Ref: func(x, y uint64) []uint64 { return []uint64{x & y, x ^ y} },
	},
	{
		Name: "add4",
		Src: `package main
func main(a uint4, b uint4) uint4 { return a + b }`,
		XT: argT{Kind: "uint", Bits: 4}, YT: argT{Kind: "uint", Bits: 4}, Outs: []int{4},
		Ref: func(x, y uint64) []uint64 { return []uint64{(x + y) & 15} },
	},
	{
		Name: "cmpsub",
		Src: `package main
func main(a uint5, b uint3) (uint5, bool) {
	if a > uint5(b) {
		return a - uint5(b), true
	}
	return a ^ uint5(b), false
}`,
		XT: argT{Kind: "uint", Bits: 5}, YT: argT{Kind: "uint", Bits: 3}, Outs: []int{5, 1},
		Ref: func(x, y uint64) []uint64 {
			if x > y {
				return []uint64{(x - y) & 31, 1}
			}
			return []uint64{x ^ y, 0}
		},
	},
	{
		Name: "mul3",
		Src: `package main
func main(a uint3, b uint3) uint6 { return uint6(a) * uint6(b) }`,
		XT: argT{Kind: "uint", Bits: 3}, YT: argT{Kind: "uint", Bits: 3}, Outs: []int{6},
		Ref: func(x, y uint64) []uint64 { return []uint64{(x * y) & 63} },
	},
	{
		Name: "sdiff",
		Src: `package main
func main(a int5, b int5) (int5, bool) { return a - b, a < b }`,
		XT: argT{Kind: "int", Bits: 5}, YT: argT{Kind: "int", Bits: 5}, Outs: []int{5, 1},
		Ref: func(x, y uint64) []uint64 {
			return []uint64{(x - y) & 31, b2u(sext(x, 5) < sext(y, 5))}
		},
	},
	{
		Name: "logic",
		Src: `package main
func main(a uint6, b uint4) (uint6, uint4) {
	return (a & 0x2d) | (uint6(b) << 1), uint4(a >> 2) & b
}`,
		XT: argT{Kind: "uint", Bits: 6}, YT: argT{Kind: "uint", Bits: 4}, Outs: []int{6, 4},
		Ref: func(x, y uint64) []uint64 {
			return []uint64{(x & 0x2d) | ((y << 1) & 63), ((x >> 2) & 15) & y}
		},
	},
}

// Programs for three suspected weaknesses of streaming mode: the evaluator
// parses its own input with the argument description the garbler sends (array
// type text, member Bits of a compound argument), and outputs that are another
// wire XOR a constant (OpReturn wire ids).
var extraProgs = []fixedProg{
	{
		Name: "arrarg",
		Src: `package main
func main(a uint4, b [3]uint4) uint4 { return a + b[0] + b[2] }`,
		XT: argT{Kind: "uint", Bits: 4}, YT: argT{Kind: "array", Bits: 12, Elem: 4}, Outs: []int{4},
		Ref: func(x, y uint64) []uint64 { return []uint64{(x + (y & 15) + (y >> 8 & 15)) & 15} },
	},
	{
		Name: "structarg",
		Src: `package main
type E struct {
	p uint4
	q uint3
	r uint4
}
func main(a uint4, b E) (uint4, uint3) { return a + b.p - b.r, b.q }`,
		XT: argT{Kind: "uint", Bits: 4}, YT: argT{Kind: "struct", Bits: 11, Members: []int{4, 3, 4}},
		Outs: []int{4, 3},
		Ref: func(x, y uint64) []uint64 {
			return []uint64{(x + (y & 15) - (y >> 7 & 15)) & 15, y >> 4 & 7}
		},
	},
	{
		// Unsized evaluator parameter: instantiated from the sizes the
		// evaluator announces (16 bits = two elements).
		Name: "slicearg",
		Src: `package main
func main(a uint8, b []uint8) uint8 { return a + b[0] + b[1] }`,
		XT: argT{Kind: "uint", Bits: 8}, YT: argT{Kind: "slice", Bits: 16, Elem: 8}, Outs: []int{8},
		Ref:   func(x, y uint64) []uint64 { return []uint64{(x + (y & 255) + (y >> 8 & 255)) & 255} },
		Sizes: [][]int{{8}, {16}},
	},
	{
		Name: "xorconst",
		Src: `package main
func main(a uint4, b uint4) (uint4, bool) { return a ^ b ^ 0xf, !(a < b) }`,
		XT: argT{Kind: "uint", Bits: 4}, YT: argT{Kind: "uint", Bits: 4}, Outs: []int{4, 1},
		Ref: func(x, y uint64) []uint64 { return []uint64{x ^ y ^ 15, b2u(!(x < y))} },
	},
}

func init() { fixedProgs = append(fixedProgs, extraProgs...) }

var fixedProgNames = func() []string {
	var r []string
	for _, p := range fixedProgs {
		r = append(r, p.Name)
	}
	for _, p := range extraProgs {
		r = append(r, p.Name)
	}
	return r
}()

func fixedByName(name string) *fixedProg {
	for i := range fixedProgs {
		if fixedProgs[i].Name == name {
			return &fixedProgs[i]
		}
	}
	return nil
}

var (
	compMu    sync.Mutex
	compCache = map[string]*circuit.Circuit{}
)

// compiledCircuit compiles MPCL source into a whole circuit (cached by key).
func compiledCircuit(key, src string, sizes [][]int) (*circuit.Circuit, error) {
	compMu.Lock()
	defer compMu.Unlock()
	if c, ok := compCache[key]; ok {
		return c, nil
	}
	c, _, err := compiler.New(utils.NewParams()).Compile(src, sizes)
	if err != nil {
		return nil, err
	}
	if c == nil {
		return nil, fmt.Errorf("no circuit produced")
	}
	if len(compCache) > 64 {
		compCache = map[string]*circuit.Circuit{}
	}
	compCache[key] = c
	return c, nil
}

func u64s(vals []uint64) []*big.Int {
	var r []*big.Int
	for _, v := range vals {
		r = append(r, new(big.Int).SetUint64(v))
	}
	return r
}

// Hand-made circuits of the enumerated (exhaustive) sessions.  Gate =
// {op, in0, in1, out}; inputs first, outputs last.
var fixedCircs = map[string]gen.Circ{
	// 2+2 inputs, every gate kind, two outputs of widths 1 and 2.
	"mix": {In: []int{2, 2}, Out: []int{1, 2}, Gates: []ref.Gate{
		{ref.AND, 0, 2, 4},
		{ref.OR, 1, 3, 5},
		{ref.XOR, 4, 5, 6},
		{ref.INV, 6, 0, 7},
		{ref.XNOR, 4, 1, 8},
		{ref.AND, 7, 3, 9},
		{ref.OR, 8, 2, 10},
		{ref.XOR, 9, 10, 11},
	}},
	// AND-only chain, one output bit: every table row matters or is unused.
	"andchain": {In: []int{3, 3}, Out: []int{1}, Gates: []ref.Gate{
		{ref.AND, 0, 3, 6},
		{ref.AND, 1, 4, 7},
		{ref.AND, 2, 5, 8},
		{ref.AND, 6, 7, 9},
		{ref.AND, 9, 8, 10},
	}},
	// Free gates only (the key and tables are irrelevant), 3 output bits.
	"free": {In: []int{3, 2}, Out: []int{3}, Gates: []ref.Gate{
		{ref.XOR, 0, 3, 5},
		{ref.XNOR, 1, 4, 6},
		{ref.XOR, 2, 3, 7},
		{ref.XNOR, 5, 6, 8},
		{ref.XOR, 6, 7, 9},
		{ref.XOR, 7, 5, 10},
	}},
	// OR/INV heavy, outputs {2,1}, an input-to-output path through INV only.
	"orinv": {In: []int{2, 3}, Out: []int{2, 1}, Gates: []ref.Gate{
		{ref.INV, 0, 0, 5},
		{ref.OR, 1, 2, 6},
		{ref.INV, 3, 0, 7},
		{ref.OR, 5, 7, 8},
		{ref.OR, 6, 4, 9},
		{ref.INV, 9, 0, 10},
		{ref.OR, 8, 10, 11},
		{ref.INV, 4, 0, 12},
	}},
}

// enumSessions are the sessions whose every transcript offset is corrupted in
// the thorough tier (6 whole-circuit, 4 streaming, two input/seed variants of
// each).
func enumSessions() []Session {
	mk := func(mode, circ, prog, x, y string, seed uint64) Session {
		s := Session{Mode: mode, Prog: prog, X: x, Y: y, OT: "co", Seed: seed}
		if circ != "" {
			c := fixedCircs[circ]
			s.Circ = &c
		}
		return s
	}
	base := []Session{
		mk("circ", "mix", "", "10", "11", 101),
		mk("circ", "andchain", "", "111", "111", 102),
		mk("circ", "free", "", "101", "01", 103),
		mk("circ", "orinv", "", "01", "100", 104),
		mk("circ", "", "add4", "1101", "0110", 105),
		mk("circ", "", "cmpsub", "10110", "101", 106),
		mk("stream", "", "and1", "1", "1", 201),
		mk("stream", "", "add4", "1011", "0111", 202),
		mk("stream", "", "cmpsub", "01101", "110", 203),
		mk("stream", "", "sdiff", "11010", "01100", 204),
	}
	// Second variant of every session: complemented inputs (other active
	// labels, other table rows in use) and another seed.
	inv := func(b string) string {
		r := []byte(b)
		for i := range r {
			r[i] ^= 1
		}
		return string(r)
	}
	res := append([]Session{}, base...)
	for _, s := range base {
		v := s
		v.X, v.Y, v.Seed = inv(s.X), inv(s.Y), s.Seed+1000
		res = append(res, v)
	}
	// Streaming sessions for the suspected weaknesses (one variant each).
	res = append(res,
		mk("stream", "", "arrarg", "1010", "110001011110", 301),
		mk("stream", "", "structarg", "0110", "10110111001", 302),
		mk("stream", "", "xorconst", "1001", "0101", 303),
		mk("stream", "", "slicearg", "10110010", "1000000001000000", 304))
	return res
}
