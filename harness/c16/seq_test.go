package c16

// Unit sequence: 2-4 sessions IN SEQUENCE on the SAME *circuit.Circuit value
// (whole-circuit mode) or with the same compiler parameter block (streaming
// mode) inside one worker process, each with its own inputs, seeds and (maybe)
// corruption.  The oracle is the one of the single-session units, applied to
// every session of the sequence: the garbler returns an error / aborts, or its
// values equal the reference for THAT session's inputs.  State that a failed
// session leaves behind in the circuit value (pooled garbling scratch) and that
// leaks into a later session's result is a violation.

import (
	"encoding/json"
	"fmt"
	"runtime"
	"runtime/debug"
	"strings"
	"testing"

	"pgregory.net/rapid"

	"github.com/markkurossi/mpc/circuit"
	"github.com/markkurossi/mpc/compiler"
	"github.com/markkurossi/mpc/compiler/utils"

	"verifharness/internal/ev"
	"verifharness/internal/gen"
	"verifharness/internal/xport"
)

// Step is one session of a sequence.
type Step struct {
	X    string      `json:"x"` // garbler input bits, LSB first
	Y    string      `json:"y"`
	Seed uint64      `json:"seed"`
	C    *Corruption `json:"c,omitempty"` // nil: honest session
	// GC: two garbage collections before the session (sync.Pool contents
	// do not survive them).
	GC bool `json:"gc,omitempty"`
}

// SeqCase is a sequence of sessions that share what is computed and how
// (S.Mode, circuit / program, OT kind, fragmentation; S.X, S.Y and S.Seed are
// not used).
type SeqCase struct {
	S     Session `json:"s"`
	Steps []Step  `json:"steps"`
	// Procs is GOMAXPROCS inside the worker while the sequence runs (0 =
	// unchanged): with 1 a sync.Pool hands a session the scratch that the
	// session before it put back.
	Procs int `json:"procs"`
}

func (sc SeqCase) session(k int) Session {
	s := sc.S
	s.X, s.Y, s.Seed = sc.Steps[k].X, sc.Steps[k].Y, sc.Steps[k].Seed
	return s
}

// StepReply is the worker's answer for one session of a sequence.
type StepReply struct {
	Ran      bool     `json:"ran"`
	Kind     string   `json:"kind,omitempty"`
	LabelIdx int      `json:"label_idx"`
	Hits     int      `json:"hits"`
	Lens     [2]int   `json:"lens"`
	GDone    bool     `json:"g_done"`
	GOK      bool     `json:"g_ok"`
	GErr     string   `json:"g_err,omitempty"`
	GVals    []string `json:"g_vals,omitempty"`
	GPanic   string   `json:"g_panic,omitempty"`
	EOK      bool     `json:"e_ok"`
	EErr     string   `json:"e_err,omitempty"`
	EVals    []string `json:"e_vals,omitempty"`
	EPanic   string   `json:"e_panic,omitempty"`
	Want     []string `json:"want,omitempty"`
	WantBits string   `json:"want_bits,omitempty"`
	Stalled  bool     `json:"stalled,omitempty"`
	TimedOut bool     `json:"timed_out,omitempty"`
}

// ---------------------------------------------------------------------------
// Worker side.

// freshCircuit builds the circuit value that the sessions of one sequence
// share.  It is never taken from (or put into) the cache of compiled circuits:
// a sequence starts from a circuit value nobody used before, so that a case
// means the same thing whenever it is replayed.
func freshCircuit(p *prepared) (*circuit.Circuit, error) {
	if p.s.Circ != nil {
		return p.s.Circ.Build(), nil
	}
	var sizes [][]int
	if fp := fixedByName(p.s.Prog); fp != nil {
		sizes = fp.Sizes
	}
	c, _, err := compiler.New(utils.NewParams()).Compile(p.src, sizes)
	if err != nil {
		return nil, err
	}
	if c == nil {
		return nil, fmt.Errorf("no circuit produced")
	}
	if len(c.Inputs) != 2 || int(c.Inputs[0].Type.Bits) != p.nx || int(c.Inputs[1].Type.Bits) != p.ny {
		return nil, fmt.Errorf("compiled circuit has unexpected inputs")
	}
	return c, nil
}

func handleSeq(sc *SeqCase, rep *Reply) {
	if len(sc.Steps) == 0 || len(sc.Steps) > 8 {
		rep.Skip = "malformed sequence"
		return
	}
	// Every session must be usable on its own (honest run succeeds and
	// agrees with the reference): anything else is another property's
	// defect.  These runs use other circuit values (the cache).
	hs := make([]*honest, len(sc.Steps))
	for k := range sc.Steps {
		hs[k] = honestFor(sc.session(k))
		if hs[k].Skip != "" {
			rep.Skip = hs[k].Skip
			return
		}
	}
	rep.NX, rep.NY = hs[0].P.nx, hs[0].P.ny
	for _, o := range hs[0].P.outs {
		rep.NOut += o
	}
	var shared *circuit.Circuit
	var params *utils.Params
	if sc.S.Mode == "circ" {
		c, err := freshCircuit(hs[0].P)
		if err != nil {
			rep.Skip = "compile: " + err.Error()
			return
		}
		shared = c
	} else {
		params = utils.NewParams()
	}

	if sc.Procs > 0 {
		defer runtime.GOMAXPROCS(runtime.GOMAXPROCS(sc.Procs))
	}
	// No garbage collection between the sessions unless the step asks for
	// it (a process that serves sessions back to back); the soft memory
	// limit of the process still applies.
	defer debug.SetGCPercent(debug.SetGCPercent(-1))

	rep.Steps = make([]StepReply, len(sc.Steps))
	for k, st := range sc.Steps {
		sr := &rep.Steps[k]
		sr.LabelIdx = -1
		h := hs[k]
		sr.Lens = h.Lens
		sr.Want = texts(h.P.want)
		sr.WantBits = wantBits(h.P)
		if st.C != nil {
			sr.Kind = kindAt(h.Layout, st.C.Dir, st.C.Off)
			sr.LabelIdx = labelIndex(h.Layout, st.C.Dir, st.C.Off)
		}
		if st.GC {
			runtime.GC()
			runtime.GC()
		}
		p := *h.P
		if shared != nil {
			p.circ = shared
		}
		p.params = params
		r, err := execute(&p, st.C, false)
		if err != nil {
			rep.Skip = "execute: " + err.Error()
			return
		}
		sr.Ran = true
		sr.Hits = r.Hits
		a, b := r.Pair.A, r.Pair.B
		sr.GDone = a.Done
		sr.GOK = a.Done && a.Err == nil && a.Panic == ""
		sr.EOK = b.Done && b.Err == nil && b.Panic == ""
		if a.Err != nil {
			sr.GErr = short(a.Err.Error(), 300)
		}
		if b.Err != nil {
			sr.EErr = short(b.Err.Error(), 300)
		}
		sr.GPanic, sr.EPanic = short(a.Panic, 1500), short(b.Panic, 1500)
		if sr.GOK {
			sr.GVals = texts(a.Vals)
		}
		if sr.EOK {
			sr.EVals = texts(b.Vals)
		}
		sr.Stalled, sr.TimedOut = r.Pair.Stalled, r.Pair.TimedOut
		if r.Leaked || r.Pair.TimedOut {
			// A party is still running: nothing after this session can
			// be judged.
			rep.Recycle = true
			return
		}
	}
}

// ---------------------------------------------------------------------------
// Oracle.

func stepOwn(st Step, sr StepReply) string {
	if st.C == nil {
		return "honest"
	}
	return dirName[st.C.Dir&1] + "/" + sr.Kind
}

func stepText(k int, st Step, sr StepReply) string {
	own := "honest"
	if st.C != nil {
		own = fmt.Sprintf("%s offset %d mask %s (kind %s", dirName[st.C.Dir&1], st.C.Off, st.C.Mask, sr.Kind)
		if sr.LabelIdx >= 0 {
			own += fmt.Sprintf(", label %d", sr.LabelIdx)
		}
		own += fmt.Sprintf(", %d flips transmitted)", sr.Hits)
	}
	res := "not run"
	if sr.Ran {
		res = fmt.Sprintf("garbler ok=%v err=%q vals=%v reference=%v", sr.GOK, sr.GErr, sr.GVals, sr.Want)
	}
	gc := ""
	if st.GC {
		gc = " gc-before"
	}
	return fmt.Sprintf("[session %d: x=%s y=%s seed=%d%s; %s; %s]", k, st.X, st.Y, st.Seed, gc, own, res)
}

// staleVisible: the failing session f resolved a 1 bit (below the damaged
// label lim, or anywhere when lim < 0) where the reference of the later session
// has a 0 bit.
func staleVisible(failed, later string, lim int) bool {
	for i := 0; i < len(failed) && i < len(later); i++ {
		if lim >= 0 && i >= lim {
			break
		}
		if failed[i] == '1' && later[i] == '0' {
			return true
		}
	}
	return false
}

func judgeSeq(sc SeqCase, rep Reply) ev.Outcome {
	col := ev.Get(prop)
	if rep.Skip != "" {
		reason := rep.Skip
		col.Note("skipped sequence (%s): %s", short(reason, 300), short(sessionKey(sc.S), 2000))
		if i := strings.Index(reason, ":"); i > 0 {
			reason = reason[:i]
		}
		return ev.Outcome{Skip: reason}
	}
	if len(rep.Steps) != len(sc.Steps) {
		return ev.Outcome{Skip: "harness: sequence answer has the wrong length"}
	}
	source := sourceOf(sc.S)
	classes := []string{"mode=" + sc.S.Mode, "ot=" + sc.S.OT, "source=" + source,
		fmt.Sprintf("steps=%d", len(sc.Steps)), fmt.Sprintf("procs=%d", sc.Procs)}
	if rep.NOut > 64 {
		classes = append(classes, "wide/result-bits>64")
	}
	if rep.NY > 64 {
		classes = append(classes, "wide/evaluator-input>64")
	}
	hits, ran := 0, 0
	outcomes := make([]string, len(sc.Steps))
	var descr []string
	for k, st := range sc.Steps {
		descr = append(descr, stepText(k, st, rep.Steps[k]))
	}
	prevFailed := false // an earlier session ended with an error / abort / crash
	for k, st := range sc.Steps {
		sr := rep.Steps[k]
		if !sr.Ran {
			outcomes[k] = "not-run"
			continue
		}
		ran++
		hits += sr.Hits
		own := stepOwn(st, sr)
		classes = append(classes, "step="+own)
		if k == len(sc.Steps)-1 {
			classes = append(classes, "last-step="+own)
		}
		if st.GC {
			classes = append(classes, "gc-before-step")
		}
		switch {
		case sr.TimedOut:
			outcomes[k] = "time-budget"
		case !sr.GDone:
			outcomes[k] = "garbler-did-not-return"
		case sr.GPanic != "":
			outcomes[k] = "garbler-crash"
			col.Note("garbler panic site (allowed by the property, but a robustness defect): %s [sequence, %s]",
				xport.PanicSiteOf(sr.GPanic), own)
		case !sr.GOK && sr.Stalled:
			outcomes[k] = "stall"
		case !sr.GOK:
			outcomes[k] = "garbler-error"
		case eqTexts(sr.GVals, sr.Want):
			outcomes[k] = "correct"
		default:
			after := "after-completed-sessions"
			if k == 0 {
				after = "first"
			} else if prevFailed {
				after = "after-failed-session"
			}
			sig := "wrong-result/sequence/" + sc.S.Mode + "/" + own + "/" + after
			out := ev.Fail(sig,
				"session %d of a sequence on one %s: garbler returned wrong result as success: got %v, reference %v (%s session, %s, ot=%s, GOMAXPROCS %d). Sessions: %s",
				k, map[string]string{"circ": "circuit value", "stream": "compiler parameter block"}[sc.S.Mode],
				sr.GVals, sr.Want, sc.S.Mode, source, sc.S.OT, sc.Procs, strings.Join(descr, " "))
			col.Count(fmt.Sprintf("wrong-result-cases/%s/procs=%d", sig, sc.Procs), 1)
			col.Note("wrong result in a sequence: session %d (%s, %s) got %v want %v: %s", k, own, after,
				sr.GVals, sr.Want, short(strings.Join(descr, " "), 1500))
			return out
		}
		classes = append(classes, "step-outcome="+outcomes[k])
		if outcomes[k] != "correct" {
			prevFailed = true
		}
	}
	// Patterns: what did a later session that ran to the end come after?
	for j := 1; j < len(sc.Steps); j++ {
		if outcomes[j] != "correct" {
			continue
		}
		pat := "completed-after-completed"
		for i := 0; i < j; i++ {
			if outcomes[i] == "correct" || outcomes[i] == "not-run" {
				continue
			}
			si, ri := sc.Steps[i], rep.Steps[i]
			if si.C != nil && si.C.Dir == 1 && ri.Kind == "output-labels" && ri.LabelIdx >= 1 &&
				outcomes[i] == "garbler-error" {
				pat = "completed-after-decode-loop-failure"
				if staleVisible(ri.WantBits, rep.Steps[j].WantBits, ri.LabelIdx) {
					classes = append(classes, "pattern=completed-after-decode-loop-failure/earlier-1-bits-on-later-0-bits")
				}
				break
			}
			pat = "completed-after-other-failure"
		}
		classes = append(classes, "pattern="+pat)
	}
	out := ev.OK(hits > 0 && ran >= 2, classes...)
	b, _ := json.Marshal(sc.Steps)
	out.Key = fmt.Sprintf("seq|%s|%s|%d|%s", circuitHash(sc.S), sc.S.OT, sc.Procs, b)
	out.Evals = ran
	out.Sample = map[string]interface{}{"mode": sc.S.Mode, "source": source, "ot": sc.S.OT,
		"procs": sc.Procs, "sessions": descr, "program": progText(sc.S)}
	return out
}

func progText(s Session) string {
	switch {
	case s.Prog != "":
		return s.Prog
	case s.Gen != nil:
		return s.Gen.Source()
	case s.Circ != nil:
		return fmt.Sprintf("circuit in=%v out=%v gates=%d ops=%v", s.Circ.In, s.Circ.Out,
			len(s.Circ.Gates), s.Circ.OpCounts())
	}
	return ""
}

func runSeq(sc SeqCase) ev.Outcome {
	if len(sc.Steps) == 0 || len(sc.Steps) > 8 || sc.Procs < 0 || sc.Procs > 64 {
		return ev.Outcome{Skip: "malformed sequence"}
	}
	for _, st := range sc.Steps {
		if st.C != nil && (st.C.Dir != 0 && st.C.Dir != 1 || st.C.Off < 0) {
			return ev.Outcome{Skip: "malformed corruption"}
		}
	}
	rep, err := getPool().do(Request{Seq: &sc})
	if err != nil {
		if d, ok := err.(errWorkerDied); ok {
			ev.Get(prop).Count("worker-deaths", 1)
			return ev.Outcome{Skip: "worker process killed: " + d.why + " (inconclusive)"}
		}
		return ev.Outcome{Skip: "harness: " + err.Error()}
	}
	return judgeSeq(sc, rep)
}

// ---------------------------------------------------------------------------
// Generator.

func flipBits(b string) string {
	r := []byte(b)
	for i := range r {
		r[i] ^= 1
	}
	return string(r)
}

func genSeq(t *rapid.T) SeqCase {
	// What is computed: as in unit sample (hand-made circuits, fixed and
	// generated programs, wide ones included); its drawn inputs and seed are
	// those of the first session.
	s := genSession(t)
	sc := SeqCase{S: s}
	sc.S.X, sc.S.Y, sc.S.Seed = "", "", 0
	// 1 in 5 cases leaves GOMAXPROCS alone; the minimal draw is 1 so that
	// shrinking does not turn a state-carrying failure into a flaky one.
	if uni(t, 5, "procs") < 4 {
		sc.Procs = 1
	}
	n := 2 + uni(t, 3, "nsteps")
	nx, ny := len(s.X), len(s.Y)
	for k := 0; k < n; k++ {
		var st Step
		if k == 0 {
			st.X, st.Y, st.Seed = s.X, s.Y, s.Seed
		} else {
			prev := sc.Steps[k-1]
			switch uni(t, 4, "inputs") {
			case 0:
				// Complement of the session before: other active
				// labels, (often) result bits that were 1 are 0 now.
				st.X, st.Y = flipBits(prev.X), flipBits(prev.Y)
			case 1:
				st.X, st.Y = strings.Repeat("0", nx), strings.Repeat("0", ny)
			default:
				st.X = gen.BitsOf(gen.DrawBits(t, nx, "x"))
				st.Y = gen.BitsOf(gen.DrawBits(t, ny, "y"))
			}
			st.Seed = rapid.Uint64().Draw(t, "seed")
			st.GC = uni(t, 10, "gc") == 0
		}
		// What happens to this session.  Earlier ones: mostly damaged (a
		// returned output label at a drawn index makes the garbler fail in
		// the middle of its decode loop); the last one: mostly honest or
		// damaged where the garbler's result cannot depend on it.
		plan := ""
		r := uni(t, 100, "plan")
		if k > 0 && sc.Steps[k-1].C != nil && uni(t, 100, "repeat") < 30 {
			// The same damage arrives again: same inputs, same
			// corruption as in the session before (what a rejected
			// message left behind must not make its repetition pass).
			prev := sc.Steps[k-1]
			st.X, st.Y = prev.X, prev.Y
			cc := *prev.C
			st.C = &cc
			sc.Steps = append(sc.Steps, st)
			continue
		}
		if s.Mode == "stream" && uni(t, 100, "evalargplan") < 20 {
			plan = "evalarg"
		} else if k < n-1 {
			switch {
			case r < 45:
				plan = "outlabel"
			case r < 75:
				plan = "any"
			case r < 88:
				plan = "honest"
			default:
				plan = "late"
			}
		} else {
			switch {
			case r < 45:
				plan = "honest"
			case r < 75:
				plan = "late"
			case r < 88:
				plan = "any"
			default:
				plan = "outlabel"
			}
		}
		if plan != "honest" {
			step := sc
			step.Steps = append(append([]Step{}, sc.Steps...), st)
			rep, err := getPool().do(Request{S: step.session(k)})
			if plan == "any" {
				plan = ""
			}
			c := drawCorruption(t, rep, err, plan)
			st.C = &c
		}
		sc.Steps = append(sc.Steps, st)
	}
	return sc
}

func init() { ev.Register("sequence", runSeq) }

func TestSequence(t *testing.T) {
	ev.Check(t, ev.Get(prop), "sequence", genSeq, runSeq)
	finish()
}
