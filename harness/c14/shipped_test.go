// shipped_test.go: second source of circuits: the circuit files shipped in the
// repository and circuits compiled from small MPCL programs (the I/O shapes the
// real compiler emits: struct inputs with compound members, slices, arrays,
// strings).  Each is written in both formats, parsed back and compared with
// itself (gates, counts, signature), re-marshalled and evaluated.
package c14

import (
	"bytes"
	"fmt"
	"math/big"
	"os"
	"path/filepath"
	"strings"
	"testing"

	"github.com/markkurossi/mpc/circuit"
	"github.com/markkurossi/mpc/compiler"
	"github.com/markkurossi/mpc/compiler/utils"

	"verifharness/internal/ev"
	"verifharness/internal/gen"
	"verifharness/internal/ref"
)

// SrcCase names a circuit from the second source.
type SrcCase struct {
	File  string  `json:"file,omitempty"` // relative to the repository root
	MPCL  string  `json:"mpcl,omitempty"` // program text
	Sizes [][]int `json:"sizes,omitempty"`
	Seed  uint64  `json:"seed"`
}

func init() { ev.Register("shipped", runSource) }

func repoRoot() string {
	if d := os.Getenv("MPCLDIR"); d != "" {
		return d
	}
	return "/repo"
}

var shippedFiles = []string{
	"apps/circuit/not.circ", "apps/circuit/and.circ", "bmr/testdata/3party.mpclc",
	"pkg/math/add64.circ", "pkg/math/sub64.circ", "pkg/math/mul64.circ", "pkg/math/div64.circ",
	"pkg/crypto/aes/aes_128.circ", "pkg/crypto/sha256/sha256.circ",
	"pkg/crypto/chacha20/chacha20block.mpclc",
}

var programs = []SrcCase{
	{MPCL: `package main
type Inner struct {
	P uint3
	Q [2]bool
}
type Pt struct {
	X int8
	Y uint16
	F bool
	A [3]uint4
	In Inner
}
func main(a Pt, b []uint8, d [2]Inner) (int16, [2]uint8, Pt, []uint8, string, bool) {
	var r [2]uint8
	r[0] = b[0]
	r[1] = b[1]
	return int16(a.X) + int16(a.Y), r, a, b, "ab", a.F
}`, Sizes: [][]int{{0}, {24}, {0}}},
	{MPCL: `package main
func main(a, b uint7) (uint7, bool) {
	return a * b + a, a > b
}`},
	{MPCL: `package main
type S struct {
	K [4]byte
	N int32
}
func main(g S, e S) (S, [4]byte, int32) {
	var k [4]byte
	gk := g.K
	ek := e.K
	for i := 0; i < 4; i++ {
		k[i] = gk[i] ^ ek[3-i]
	}
	return e, k, g.N - e.N
}`},
}

func loadSource(cs SrcCase) (*circuit.Circuit, error) {
	if cs.File != "" {
		return circuit.Parse(filepath.Join(repoRoot(), cs.File))
	}
	params := utils.NewParams()
	defer params.Close()
	c, _, err := compiler.New(params).Compile(cs.MPCL, cs.Sizes)
	return c, err
}

func ioEqual(what string, a, b circuit.IO, names bool) string {
	if len(a) != len(b) {
		return fmt.Sprintf("%s: %d arguments, want %d", what, len(a), len(b))
	}
	for i := range a {
		at := fmt.Sprintf("%s[%d]", what, i)
		if a[i].Type.Bits != b[i].Type.Bits {
			return fmt.Sprintf("%s: %d bits, want %d", at, a[i].Type.Bits, b[i].Type.Bits)
		}
		if !names {
			continue
		}
		if a[i].Name != b[i].Name {
			return fmt.Sprintf("%s: name %q, want %q", at, a[i].Name, b[i].Name)
		}
		if a[i].Type.String() != b[i].Type.String() || a[i].Type.Type != b[i].Type.Type {
			return fmt.Sprintf("%s: type %s, want %s", at, a[i].Type, b[i].Type)
		}
		if s := ioEqual(at+".Compound", a[i].Compound, b[i].Compound, true); s != "" {
			return s
		}
	}
	return ""
}

func gatesEqual(a, b *circuit.Circuit) string {
	if a.NumGates != b.NumGates || a.NumWires != b.NumWires || len(a.Gates) != len(b.Gates) {
		return fmt.Sprintf("NumGates/NumWires/len(Gates) %d/%d/%d, want %d/%d/%d",
			a.NumGates, a.NumWires, len(a.Gates), b.NumGates, b.NumWires, len(b.Gates))
	}
	for i := range a.Gates {
		x, y := a.Gates[i], b.Gates[i]
		if x.Op != y.Op || x.Input0 != y.Input0 || x.Output != y.Output ||
			(x.Op != circuit.INV && x.Input1 != y.Input1) {
			return fmt.Sprintf("gate %d: %v, want %v", i, x, y)
		}
	}
	for op := circuit.XOR; op <= circuit.INV; op++ {
		if a.Stats[op] != b.Stats[op] {
			return fmt.Sprintf("Stats[%s] %d, want %d", op, a.Stats[op], b.Stats[op])
		}
	}
	return ""
}

func runSource(cs SrcCase) ev.Outcome {
	orig, err := loadSource(cs)
	if err != nil {
		if cs.File != "" {
			if st, serr := os.Stat(filepath.Join(repoRoot(), cs.File)); serr != nil || st.Size() == 0 {
				return ev.Outcome{Skip: "file missing or empty"}
			}
			return ev.Fail("shipped/parse-error", "%s: %v", cs.File, err)
		}
		return ev.Outcome{Skip: "program does not compile: " + err.Error()}
	}
	name := cs.File
	if name == "" {
		name = "compiled program"
	}
	if which, detail := validate(orig); which != "" {
		return ev.Fail("shipped/invalid/"+which, "%s: %s", name, detail)
	}

	// Reference evaluation of the gate list on a few inputs.
	nin := orig.Inputs.Size()
	nout := orig.Outputs.Size()
	model := make([]ref.Gate, len(orig.Gates))
	for i, g := range orig.Gates {
		model[i] = ref.Gate{int(g.Op), int(g.Input0), int(g.Input1), int(g.Output)}
	}
	var flatW, outW []int
	for _, a := range orig.Inputs {
		if len(a.Compound) > 0 {
			for _, m := range a.Compound {
				flatW = append(flatW, int(m.Type.Bits))
			}
		} else {
			flatW = append(flatW, int(a.Type.Bits))
		}
	}
	var topW []int
	for _, a := range orig.Inputs {
		topW = append(topW, int(a.Type.Bits))
	}
	for _, a := range orig.Outputs {
		outW = append(outW, int(a.Type.Bits))
	}
	d := gen.NewDRBG(cs.Seed, 14)
	type sample struct {
		in   []bool
		want []*big.Int
	}
	var samples []sample
	for k := 0; k < 3; k++ {
		in := make([]bool, nin)
		raw := d.Bytes((nin + 7) / 8)
		for i := range in {
			in[i] = raw[i/8]>>(i%8)&1 == 1
		}
		wires := ref.EvalGates(orig.NumWires, model, in)
		samples = append(samples, sample{in, gen.SplitBits(wires[orig.NumWires-nout:], outW)})
	}
	compute := func(c *circuit.Circuit, widths []int) string {
		for _, s := range samples {
			got, err := c.Compute(gen.SplitBits(s.in, widths))
			if err != nil {
				return fmt.Sprintf("Compute: %v", err)
			}
			if len(got) != len(s.want) {
				return fmt.Sprintf("Compute returned %d values, want %d", len(got), len(s.want))
			}
			for i := range got {
				if got[i].Cmp(s.want[i]) != 0 {
					return fmt.Sprintf("output %d = %s, reference evaluation gives %s", i,
						got[i].Text(16), s.want[i].Text(16))
				}
			}
		}
		return ""
	}

	classes := []string{}
	if cs.File != "" {
		classes = append(classes, "source=file")
	} else {
		classes = append(classes, "source=compiled")
	}
	for _, a := range orig.Inputs {
		if len(a.Compound) > 0 {
			classes = append(classes, "compound-input")
			break
		}
	}

	// Native format.
	var buf bytes.Buffer
	if err := orig.Marshal(&buf); err != nil {
		return ev.Fail("mpclc/roundtrip/marshal-error", "%s: Marshal: %v", name, err)
	}
	lay := walkMPCLC(buf.Bytes())
	sig := func(s string) string {
		if lay.AcrossBuffer {
			return sigAcrossBuffer
		}
		return "mpclc/roundtrip/" + s
	}
	res, _ := guardedParse("mpclc", buf.Bytes())
	switch {
	case res.timedOut:
		return ev.Fail("mpclc/hang", "%s: ParseMPCLC did not return", name)
	case res.panicMsg != "":
		return ev.Fail(sig("panic"), "%s: ParseMPCLC panicked: %s\n%s", name, res.panicMsg, res.stack)
	case res.err != nil:
		return ev.Fail(sig("parse-error"), "%s: ParseMPCLC rejects what Marshal wrote: %v", name, res.err)
	}
	if s := gatesEqual(res.circ, orig); s != "" {
		return ev.Fail(sig("gates"), "%s: %s", name, s)
	}
	if s := ioEqual("Inputs", res.circ.Inputs, orig.Inputs, true); s != "" {
		return ev.Fail(sig("signature"), "%s: %s", name, s)
	}
	if s := ioEqual("Outputs", res.circ.Outputs, orig.Outputs, true); s != "" {
		return ev.Fail(sig("signature"), "%s: %s", name, s)
	}
	var buf2 bytes.Buffer
	if err := res.circ.Marshal(&buf2); err != nil || !bytes.Equal(buf.Bytes(), buf2.Bytes()) {
		return ev.Fail(sig("remarshal"), "%s: re-marshalled bytes differ (err=%v)", name, err)
	}
	if s := compute(res.circ, flatW); s != "" {
		return ev.Fail(sig("compute"), "%s: %s", name, s)
	}

	// Bristol.
	buf.Reset()
	orig.MarshalBristol(&buf)
	res, _ = guardedParse("bristol", buf.Bytes())
	switch {
	case res.timedOut:
		return ev.Fail("bristol/hang", "%s: ParseBristol did not return", name)
	case res.panicMsg != "":
		return ev.Fail("bristol/roundtrip/panic", "%s: ParseBristol panicked: %s\n%s", name, res.panicMsg, res.stack)
	case res.err != nil:
		return ev.Fail("bristol/roundtrip/parse-error", "%s: ParseBristol rejects what MarshalBristol wrote: %v", name, res.err)
	}
	if s := gatesEqual(res.circ, orig); s != "" {
		return ev.Fail("bristol/roundtrip/gates", "%s: %s", name, s)
	}
	if s := ioEqual("Inputs", res.circ.Inputs, orig.Inputs, false); s != "" {
		return ev.Fail("bristol/roundtrip/sizes", "%s: %s", name, s)
	}
	if s := ioEqual("Outputs", res.circ.Outputs, orig.Outputs, false); s != "" {
		return ev.Fail("bristol/roundtrip/sizes", "%s: %s", name, s)
	}
	buf2.Reset()
	res.circ.MarshalBristol(&buf2)
	if !bytes.Equal(buf.Bytes(), buf2.Bytes()) {
		return ev.Fail("bristol/roundtrip/remarshal", "%s: re-marshalled text differs", name)
	}
	if s := compute(res.circ, topW); s != "" {
		return ev.Fail("bristol/roundtrip/compute", "%s: %s", name, s)
	}
	if strings.HasSuffix(cs.File, ".circ") {
		classes = append(classes, "bristol-file")
	}
	out := ev.OK(true, classes...)
	out.Evals = 2 + 2*len(samples)
	return out
}

func TestShipped(t *testing.T) {
	col := ev.Get(prop)
	ev.Each(t, col, "shipped", func(yield func(SrcCase) bool) {
		for i, f := range shippedFiles {
			yield(SrcCase{File: f, Seed: uint64(col.Seed) + uint64(i)})
		}
		for i, p := range programs {
			p.Seed = uint64(col.Seed) + 100 + uint64(i)
			yield(p)
		}
	}, runSource)
}
