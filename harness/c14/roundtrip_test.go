// roundtrip_test.go: units mpclc-roundtrip and bristol-roundtrip.
package c14

import (
	"bytes"
	"fmt"
	"io"
	"math/big"
	"testing"

	"github.com/markkurossi/mpc/circuit"
	"pgregory.net/rapid"

	"verifharness/internal/ev"
	"verifharness/internal/gen"
	"verifharness/internal/ref"
)

// RTCase is one circuit written, parsed back, written again and evaluated.
type RTCase struct {
	Base Base `json:"base"`
	// Inputs are 0/1 strings over the input wires; empty = all 2^n.
	Inputs []string `json:"inputs"`
	// Fault: a marshalling of the same circuit that FAILS runs first in the
	// same process - into a writer that reports an error after Fault.After
	// bytes ("writer") or with one gate of an unsupported type ("gate").
	// Its error is not judged; what it leaves behind must not reach the
	// marshalling that follows.
	Fault *RTFault `json:"fault,omitempty"`
}

// RTFault describes the failing marshalling of RTCase.Fault.
type RTFault struct {
	Kind  string `json:"kind"` // writer | gate
	After int    `json:"after,omitempty"`
	Gate  int    `json:"gate,omitempty"`
}

type failAfter struct {
	left int
}

func (w *failAfter) Write(p []byte) (int, error) {
	if len(p) > w.left {
		n := w.left
		w.left = 0
		return n, fmt.Errorf("injected write error")
	}
	w.left -= len(p)
	return len(p), nil
}

// preFault performs the failing marshalling.  Neither its error nor a panic is
// judged (an in-memory circuit with an unsupported gate type is not a circuit
// the property speaks about; MarshalBristol panics on it): only its effect on
// the marshalling that follows is.
func preFault(c *circuit.Circuit, f *RTFault, bristol bool) (sig, msg string) {
	defer func() { recover() }()
	var w io.Writer = io.Discard
	switch f.Kind {
	case "writer":
		w = &failAfter{left: f.After}
	case "gate":
		if len(c.Gates) == 0 {
			return "", ""
		}
		c.Gates = append([]circuit.Gate{}, c.Gates...)
		c.Gates[((f.Gate%len(c.Gates))+len(c.Gates))%len(c.Gates)].Op = 77
	default:
		return "", ""
	}
	if bristol {
		c.MarshalBristol(w)
	} else {
		c.Marshal(w)
	}
	return "", ""
}

func drawFault(t *rapid.T, ngates int) *RTFault {
	if rapid.IntRange(0, 7).Draw(t, "fault") != 0 {
		return nil
	}
	if rapid.Bool().Draw(t, "faultgate") {
		return &RTFault{Kind: "gate", Gate: rapid.IntRange(0, 1<<20).Draw(t, "gate")}
	}
	after := rapid.SampledFrom([]int{0, 1, 4, 19, 20, 21, 64, 100, 1000, 4095, 4096, 65535, 65536, 70000}).Draw(t, "after")
	return &RTFault{Kind: "writer", After: after}
}

func init() {
	ev.Register("mpclc-roundtrip", runRoundTripMPCLC)
	ev.Register("bristol-roundtrip", runRoundTripBristol)
}

func rtOpts(t *rapid.T) BaseOpts {
	o := BaseOpts{TypeDepth: 2, Circ: gen.CircOpts{MinArgs: 1, MaxArgs: 3, MaxWidth: 12,
		MaxGates: 40, MaxOuts: 4, MaxOutWidth: 5, AllowZeroWidth: true}}
	switch rapid.IntRange(0, 15).Draw(t, "size") {
	case 0:
		// wide / long
		o.Circ.MaxWidth = 70
		o.Circ.MaxGates = 300
		o.Circ.MaxOutWidth = 16
		o.TypeDepth = 3
	case 1:
		// enough gates for the gate section to cross several 4 KiB blocks
		o.Circ.MaxGates = 1500
	case 2, 3:
		o.Circ.MaxWidth = 3
		o.Circ.MaxGates = 4
		o.Circ.MaxOuts = 1
		o.Circ.MaxOutWidth = 2
	}
	return o
}

func drawInputs(t *rapid.T, nin int) []string {
	if nin <= 4 {
		return nil
	}
	var res []string
	n := rapid.IntRange(1, 8).Draw(t, "ninputs")
	for i := 0; i < n; i++ {
		res = append(res, gen.BitsOf(gen.DrawBits(t, nin, "in")))
	}
	return res
}

// manyOutputs builds a circuit with n one-bit outputs (output i = XOR of two
// of the 16 input wires): the output line of its Bristol header is longer than
// any fixed line buffer (64 KiB at n = 32766).
func manyOutputs(n int) Base {
	var b Base
	b.Circ.In = []int{8, 8}
	b.In = []ArgD{{Name: NameD{S: "i0"}, T: TypeD{K: "uint", Bits: 8}}, {Name: NameD{S: "i1"}, T: TypeD{K: "uint", Bits: 8}}}
	for i := 0; i < n; i++ {
		b.Circ.Out = append(b.Circ.Out, 1)
		b.Out = append(b.Out, ArgD{Name: NameD{S: fmt.Sprintf("o%d", i)}, T: TypeD{K: "uint", Bits: 1}})
		b.Circ.Gates = append(b.Circ.Gates, ref.Gate{ref.XOR, i % 16, (i*7 + 3) % 16, 16 + i})
	}
	return b
}

// genRoundTripBristol is genRoundTrip plus, rarely, a circuit with tens of
// thousands of outputs (one input assignment: decoding 32766 outputs is slow).
func genRoundTripBristol(t *rapid.T) RTCase {
	if rapid.IntRange(0, 399).Draw(t, "manyoutputs") == 0 {
		var cs RTCase
		cs.Base = manyOutputs(rapid.SampledFrom([]int{32765, 32766, 32767}).Draw(t, "noutputs"))
		cs.Inputs = []string{gen.BitsOf(gen.DrawBits(t, 16, "in"))}
		return cs
	}
	return genRoundTrip(t)
}

func genRoundTrip(t *rapid.T) RTCase {
	var cs RTCase
	cs.Base = drawBase(t, rtOpts(t))
	cs.Inputs = drawInputs(t, cs.Base.Circ.NumIn())
	cs.Fault = drawFault(t, len(cs.Base.Circ.Gates))
	return cs
}

// genRoundTripMPCLC additionally draws the "long name" class: the first
// string of the file does not fit into the first 4 KiB buffer fill.  The name
// consists of NUL bytes on purpose: with finding F10 open the parser reads the
// four bytes following the cut as the next length field and allocates that
// much (an ASCII name makes it allocate 1-2 GB twice); NULs read as length 0.
func genRoundTripMPCLC(t *rapid.T) RTCase {
	cs := genRoundTrip(t)
	if rapid.IntRange(0, 19).Draw(t, "long_name") == 0 {
		n := rapid.SampledFrom([]int{4073, 4096, 4097, 5000, 8192, 10000}).Draw(t, "long_len")
		cs.Base.In[0].Name = NameD{Hex: "00", Rep: n}
	}
	return cs
}

func assignments(nin int, inputs []string) [][]bool {
	var res [][]bool
	if len(inputs) == 0 {
		if nin > 12 {
			nin = 12
		}
		for v := 0; v < 1<<nin; v++ {
			a := make([]bool, nin)
			for i := range a {
				a[i] = v>>i&1 == 1
			}
			res = append(res, a)
		}
		return res
	}
	for _, s := range inputs {
		res = append(res, gen.ParseBits(s))
	}
	return res
}

func padBits(a []bool, n int) []bool {
	for len(a) < n {
		a = append(a, false)
	}
	return a[:n]
}

// sameGates compares the parsed gate list with the model.
func sameGates(c *circuit.Circuit, model []ref.Gate) string {
	if len(c.Gates) != len(model) {
		return fmt.Sprintf("%d gates, want %d", len(c.Gates), len(model))
	}
	for i, g := range c.Gates {
		m := model[i]
		in1 := m[2]
		if m[0] == ref.INV {
			in1 = 0
		}
		if int(g.Op) != m[0] || int(g.Input0) != m[1] || int(g.Input1) != in1 || int(g.Output) != m[3] {
			return fmt.Sprintf("gate %d: parsed %s(%d,%d)->%d, written %s(%d,%d)->%d",
				i, g.Op, g.Input0, g.Input1, g.Output, ref.OpName(m[0]), m[1], in1, m[3])
		}
	}
	return ""
}

func sameStats(c *circuit.Circuit, model gen.Circ) string {
	cnt := model.OpCounts()
	for op := 0; op < 5; op++ {
		if c.Stats[op] != uint64(cnt[op]) {
			return fmt.Sprintf("Stats[%s]=%d, circuit has %d", ref.OpName(op), c.Stats[op], cnt[op])
		}
	}
	return ""
}

// sameSignature compares a parsed argument list with the expected signature:
// name, type text, kind, bits and, recursively, compound members.
func sameSignature(what string, got circuit.IO, want []flat) string {
	if len(got) != len(want) {
		return fmt.Sprintf("%s: %d arguments, want %d", what, len(got), len(want))
	}
	for i, w := range want {
		g := got[i]
		at := fmt.Sprintf("%s[%d]", what, i)
		if g.Name != w.Name {
			return fmt.Sprintf("%s: name %q (%d bytes), want %q (%d bytes)", at,
				clip(g.Name), len(g.Name), clip(w.Name), len(w.Name))
		}
		if g.Type.String() != w.Text {
			return fmt.Sprintf("%s: type %q, want %q", at, g.Type.String(), w.Text)
		}
		if int(g.Type.Bits) != w.Bits {
			return fmt.Sprintf("%s: %d bits, want %d", at, g.Type.Bits, w.Bits)
		}
		if kindName(g.Type.Type.String()) != w.Kind {
			return fmt.Sprintf("%s: kind %s, want %s", at, g.Type.Type, w.Kind)
		}
		if s := sameSignature(at+".Compound", g.Compound, w.Sub); s != "" {
			return s
		}
	}
	return ""
}

func kindName(s string) string { return s }

func clip(s string) string {
	if len(s) > 40 {
		return s[:40] + "…"
	}
	return s
}

// sameFunction evaluates the parsed circuit with the library's Compute and
// compares with the reference evaluation of the model.
func sameFunction(c *circuit.Circuit, model gen.Circ, widths []int, asg [][]bool) (int, string) {
	n := 0
	for _, in := range asg {
		in = padBits(in, model.NumIn())
		want := gen.SplitBits(model.OutputBits(model.Eval(in)), model.Out)
		got, err := c.Compute(gen.SplitBits(in, widths))
		if err != nil {
			return n, fmt.Sprintf("Compute on input %s: %v", gen.BitsOf(in), err)
		}
		if len(got) != len(want) {
			return n, fmt.Sprintf("Compute returned %d values, want %d", len(got), len(want))
		}
		for i := range want {
			if got[i].Cmp(want[i]) != 0 {
				return n, fmt.Sprintf("input %s: output %d = %s, reference evaluation gives %s",
					gen.BitsOf(in), i, got[i].Text(2), want[i].Text(2))
			}
		}
		n++
	}
	return n, ""
}

func circClasses(c gen.Circ) []string {
	var classes []string
	cnt := c.OpCounts()
	if cnt[ref.INV] == len(c.Gates) {
		classes = append(classes, "inv-only")
	}
	if cnt[ref.INV] > 0 {
		classes = append(classes, "has-INV")
	}
	switch {
	case len(c.Gates) > 315:
		classes = append(classes, "gates>4KiB")
	case len(c.Gates) <= 4:
		classes = append(classes, "gates<=4")
	}
	return classes
}

func runRoundTripMPCLC(cs RTCase) ev.Outcome {
	b := cs.Base
	if !b.consistent() {
		return ev.Outcome{Skip: "inconsistent case"}
	}
	orig := b.Build()

	// The harness' own type text must be what the library prints, else
	// the model is wrong (or Info.String is).
	for i, a := range b.In {
		if orig.Inputs[i].Type.String() != a.T.Text() {
			return ev.Fail("types/string", "Info.String()=%q for %+v, expected %q",
				orig.Inputs[i].Type.String(), a.T, a.T.Text())
		}
	}

	if cs.Fault != nil {
		if sig, msg := preFault(b.Build(), cs.Fault, false); sig != "" {
			return ev.Fail("mpclc/"+sig, "%s", msg)
		}
	}
	var buf bytes.Buffer
	if err := orig.Marshal(&buf); err != nil {
		return ev.Fail("mpclc/roundtrip/marshal-error", "Marshal: %v", err)
	}
	data := buf.Bytes()
	lay := walkMPCLC(data)
	if !lay.HeaderOK || lay.Rest != len(data) || len(lay.Gates) != len(b.Circ.Gates) {
		return ev.Fail("mpclc/roundtrip/layout",
			"Marshal output is not laid out as the format says: header complete=%v, %d gate records (want %d), %d trailing bytes",
			lay.HeaderOK, len(lay.Gates), len(b.Circ.Gates), len(data)-lay.Rest)
	}
	// Input class of F10 (see mLayout.AcrossBuffer).
	sig := func(s string) string {
		if lay.AcrossBuffer {
			return sigAcrossBuffer
		}
		return "mpclc/roundtrip/" + s
	}

	res, slow := guardedParse("mpclc", data)
	if res.timedOut {
		return ev.Fail("mpclc/hang", "ParseMPCLC did not return on a valid file of %d bytes", len(data))
	}
	if res.panicMsg != "" {
		return ev.Fail(sig("panic"), "ParseMPCLC panicked on a valid file: %s\n%s", res.panicMsg, res.stack)
	}
	if res.err != nil {
		return ev.Fail(sig("parse-error"), "ParseMPCLC rejects what Marshal wrote (%d bytes, I/O section ends at %d): %v",
			len(data), lay.GatesOff, clip(res.err.Error()))
	}
	c2 := res.circ
	if c2.NumGates != len(b.Circ.Gates) || c2.NumWires != b.Circ.NumWires() {
		return ev.Fail(sig("counts"), "parsed NumGates=%d NumWires=%d, written %d/%d",
			c2.NumGates, c2.NumWires, len(b.Circ.Gates), b.Circ.NumWires())
	}
	if s := sameGates(c2, b.Circ.Gates); s != "" {
		return ev.Fail(sig("gates"), "%s", s)
	}
	if s := sameStats(c2, b.Circ); s != "" {
		return ev.Fail(sig("stats"), "%s", s)
	}
	if s := sameSignature("Inputs", c2.Inputs, signature(b.In, true)); s != "" {
		return ev.Fail(sig("signature"), "%s", s)
	}
	if s := sameSignature("Outputs", c2.Outputs, signature(b.Out, false)); s != "" {
		return ev.Fail(sig("signature"), "%s", s)
	}
	var buf2 bytes.Buffer
	if err := c2.Marshal(&buf2); err != nil {
		return ev.Fail(sig("remarshal"), "Marshal of the parsed circuit: %v", err)
	}
	if !bytes.Equal(buf2.Bytes(), data) {
		return ev.Fail(sig("remarshal"), "re-marshalled bytes differ at offset %d (lengths %d / %d)",
			firstDiff(buf2.Bytes(), data), buf2.Len(), len(data))
	}
	asg := assignments(b.Circ.NumIn(), cs.Inputs)
	n, s := sameFunction(c2, b.Circ, b.flatInputWidths(), asg)
	if s != "" {
		return ev.Fail(sig("compute"), "%s", s)
	}

	classes := append(b.typeClasses(), circClasses(b.Circ)...)
	if lay.AcrossBuffer {
		classes = append(classes, "string-across-4KiB-buffer")
	}
	if slow {
		classes = append(classes, "slow-once")
	}
	out := ev.OK(true, classes...)
	out.Evals = 1 + n
	return out
}

func firstDiff(a, b []byte) int {
	for i := 0; i < len(a) && i < len(b); i++ {
		if a[i] != b[i] {
			return i
		}
	}
	if len(a) < len(b) {
		return len(a)
	}
	return len(b)
}

func runRoundTripBristol(cs RTCase) ev.Outcome {
	b := cs.Base
	if !b.consistent() {
		return ev.Outcome{Skip: "inconsistent case"}
	}
	orig := b.Build()
	if cs.Fault != nil {
		if sig, msg := preFault(b.Build(), cs.Fault, true); sig != "" {
			return ev.Fail("bristol/"+sig, "%s", msg)
		}
	}
	var buf bytes.Buffer
	if err := orig.MarshalBristol(&buf); err != nil {
		return ev.Fail("bristol/roundtrip/marshal-error", "MarshalBristol: %v", err)
	}
	data := buf.Bytes()
	res, slow := guardedParse("bristol", data)
	if res.timedOut {
		return ev.Fail("bristol/hang", "ParseBristol did not return on a valid file of %d bytes", len(data))
	}
	if res.panicMsg != "" {
		return ev.Fail("bristol/roundtrip/panic", "ParseBristol panicked on a valid file: %s\n%s",
			res.panicMsg, res.stack)
	}
	if res.err != nil {
		return ev.Fail("bristol/roundtrip/parse-error", "ParseBristol rejects what MarshalBristol wrote: %v\n%s",
			res.err, clip(string(data)))
	}
	c2 := res.circ
	if c2.NumGates != len(b.Circ.Gates) || c2.NumWires != b.Circ.NumWires() {
		return ev.Fail("bristol/roundtrip/counts", "parsed NumGates=%d NumWires=%d, written %d/%d",
			c2.NumGates, c2.NumWires, len(b.Circ.Gates), b.Circ.NumWires())
	}
	if s := sameGates(c2, b.Circ.Gates); s != "" {
		return ev.Fail("bristol/roundtrip/gates", "%s", s)
	}
	if s := sameStats(c2, b.Circ); s != "" {
		return ev.Fail("bristol/roundtrip/stats", "%s", s)
	}
	sizes := func(what string, io circuit.IO, want []int) string {
		if len(io) != len(want) {
			return fmt.Sprintf("%s: %d arguments, want %d", what, len(io), len(want))
		}
		for i, w := range want {
			if int(io[i].Type.Bits) != w {
				return fmt.Sprintf("%s[%d]: %d bits, want %d", what, i, io[i].Type.Bits, w)
			}
		}
		return ""
	}
	if s := sizes("Inputs", c2.Inputs, b.Circ.In); s != "" {
		return ev.Fail("bristol/roundtrip/sizes", "%s", s)
	}
	if s := sizes("Outputs", c2.Outputs, b.Circ.Out); s != "" {
		return ev.Fail("bristol/roundtrip/sizes", "%s", s)
	}
	var buf2 bytes.Buffer
	c2.MarshalBristol(&buf2)
	if !bytes.Equal(buf2.Bytes(), data) {
		return ev.Fail("bristol/roundtrip/remarshal", "re-marshalled text differs at offset %d",
			firstDiff(buf2.Bytes(), data))
	}
	asg := assignments(b.Circ.NumIn(), cs.Inputs)
	n, s := sameFunction(c2, b.Circ, b.Circ.In, asg)
	if s != "" {
		return ev.Fail("bristol/roundtrip/compute", "%s", s)
	}
	classes := circClasses(b.Circ)
	for _, w := range b.Circ.In {
		if w == 0 {
			classes = append(classes, "zero-width-input")
			break
		}
	}
	for _, a := range b.In {
		if a.T.K == "struct" {
			classes = append(classes, "compound-input")
			break
		}
	}
	if slow {
		classes = append(classes, "slow-once")
	}
	out := ev.OK(true, classes...)
	out.Evals = 1 + n
	return out
}

func TestRoundTripMPCLC(t *testing.T) {
	ev.Check(t, ev.Get(prop), "mpclc-roundtrip", genRoundTripMPCLC, runRoundTripMPCLC)
}

func TestRoundTripBristol(t *testing.T) {
	ev.Check(t, ev.Get(prop), "bristol-roundtrip", genRoundTripBristol, runRoundTripBristol)
}

func TestReplay(t *testing.T) { ev.Replay(t, ev.Get(prop)) }

var _ = big.NewInt
