// C14: circuit files round-trip; parsers reject malformed files gracefully.
//
// model_test.go: plain-data description of typed circuit I/O (names, types,
// compound members) in the shapes the MPCL compiler emits, the builders that
// turn it into circuit.IOArg values the way compiler/ast/package.go does, and
// the constructive generators.
package c14

import (
	"encoding/hex"
	"fmt"
	"strings"

	"github.com/markkurossi/mpc/circuit"
	"github.com/markkurossi/mpc/types"
	"pgregory.net/rapid"

	"verifharness/internal/gen"
	"verifharness/internal/ref"
)

const prop = "C14"

// NameD describes a name: S (valid UTF-8) or Hex (arbitrary bytes), repeated
// Rep times (Rep <= 1: once).  JSON would mangle raw bytes, hence Hex.
type NameD struct {
	S   string `json:"s,omitempty"`
	Hex string `json:"hex,omitempty"`
	Rep int    `json:"rep,omitempty"`
}

func (n NameD) String() string {
	s := n.S
	if n.Hex != "" {
		b, err := hex.DecodeString(n.Hex)
		if err == nil {
			s = string(b)
		}
	}
	if n.Rep > 1 {
		return strings.Repeat(s, n.Rep)
	}
	return s
}

// TypeD describes a type.  K: bool,int,uint,string (leaf, Bits wide),
// array/slice (N elements of El), struct (Fields).
type TypeD struct {
	K      string   `json:"k"`
	Bits   int      `json:"bits,omitempty"`
	N      int      `json:"n,omitempty"`
	El     *TypeD   `json:"el,omitempty"`
	Fields []FieldD `json:"fields,omitempty"`
}

// FieldD is a struct field.
type FieldD struct {
	Name NameD `json:"name"`
	T    TypeD `json:"t"`
}

// ArgD is one circuit input or output argument.
type ArgD struct {
	Name NameD `json:"name"`
	T    TypeD `json:"t"`
}

// Width is the number of wires of the type.
func (t TypeD) Width() int {
	switch t.K {
	case "array", "slice":
		if t.El == nil {
			return 0
		}
		return t.N * t.El.Width()
	case "struct":
		n := 0
		for _, f := range t.Fields {
			n += f.T.Width()
		}
		return n
	default:
		return t.Bits
	}
}

// Text is the harness' own rendering of the type text the format stores
// (what types.Info.String documents: kind name + bits, [n]T, []T, structN).
func (t TypeD) Text() string {
	switch t.K {
	case "array":
		return fmt.Sprintf("[%d]%s", t.N, t.El.Text())
	case "slice":
		return "[]" + t.El.Text()
	case "struct":
		return fmt.Sprintf("struct%d", t.Width())
	default:
		return fmt.Sprintf("%s%d", t.K, t.Bits)
	}
}

// Info builds the types.Info the way the compiler's type resolver does.
func (t TypeD) Info() types.Info {
	w := types.Size(t.Width())
	switch t.K {
	case "bool":
		return types.Info{Type: types.TBool, IsConcrete: true, Bits: w, MinBits: w}
	case "int":
		return types.Info{Type: types.TInt, IsConcrete: true, Bits: w, MinBits: w}
	case "uint":
		return types.Info{Type: types.TUint, IsConcrete: true, Bits: w, MinBits: w}
	case "string":
		return types.Info{Type: types.TString, IsConcrete: true, Bits: w, MinBits: w}
	case "array", "slice":
		el := t.El.Info()
		k := types.TArray
		if t.K == "slice" {
			k = types.TSlice
		}
		return types.Info{Type: k, IsConcrete: true, Bits: w, MinBits: w,
			ElementType: &el, ArraySize: types.Size(t.N)}
	case "struct":
		info := types.Info{Type: types.TStruct, IsConcrete: true, Bits: w, MinBits: w}
		var ofs types.Size
		for _, f := range t.Fields {
			fi := f.T.Info()
			fi.Offset = ofs
			ofs += fi.Bits
			info.Struct = append(info.Struct, types.StructField{
				Name: f.Name.String(), Type: fi})
		}
		return info
	}
	panic("c14: bad type kind " + t.K)
}

// flat is one leaf of the signature: what the format stores per argument.
type flat struct {
	Name string
	Text string
	Bits int
	Kind string
	Sub  []flat
}

// flatten lists the compound members of a struct the way
// compiler/ast/package.go flattenStruct does: nested structs are expanded,
// everything else (arrays included) is one member.
func flatten(t TypeD) []flat {
	var res []flat
	if t.K != "struct" {
		return res
	}
	for _, f := range t.Fields {
		if f.T.K == "struct" {
			res = append(res, flatten(f.T)...)
		} else {
			res = append(res, flat{Name: f.Name.String(), Text: f.T.Text(),
				Bits: f.T.Width(), Kind: f.T.K})
		}
	}
	return res
}

// signature is the expected signature of an argument list.  Inputs of struct
// type carry compound members, outputs never do (as compiled).
func signature(args []ArgD, inputs bool) []flat {
	var res []flat
	for _, a := range args {
		f := flat{Name: a.Name.String(), Text: a.T.Text(), Bits: a.T.Width(),
			Kind: a.T.K}
		if inputs {
			f.Sub = flatten(a.T)
		}
		res = append(res, f)
	}
	return res
}

func buildIO(args []ArgD, inputs bool) circuit.IO {
	var res circuit.IO
	for _, a := range args {
		arg := circuit.IOArg{Name: a.Name.String(), Type: a.T.Info()}
		if inputs && a.T.K == "struct" {
			for _, m := range flattenInfo(arg.Type) {
				arg.Compound = append(arg.Compound, m)
			}
		}
		res = append(res, arg)
	}
	return res
}

func flattenInfo(t types.Info) circuit.IO {
	var res circuit.IO
	for _, f := range t.Struct {
		if f.Type.Type == types.TStruct {
			res = append(res, flattenInfo(f.Type)...)
		} else {
			res = append(res, circuit.IOArg{Name: f.Name, Type: f.Type})
		}
	}
	return res
}

// Base is a well-formed circuit with typed I/O.
type Base struct {
	Circ gen.Circ `json:"circ"`
	In   []ArgD   `json:"in"`
	Out  []ArgD   `json:"out"`
}

// consistent tells whether the argument types have the widths the gate list
// was drawn for (always true for generated cases; hand-edited replays may
// break it).
func (b Base) consistent() bool {
	if len(b.In) != len(b.Circ.In) || len(b.Out) != len(b.Circ.Out) {
		return false
	}
	for i, a := range b.In {
		if a.T.Width() != b.Circ.In[i] {
			return false
		}
	}
	for i, a := range b.Out {
		if a.T.Width() != b.Circ.Out[i] {
			return false
		}
	}
	return true
}

// Build makes the library's circuit value.
func (b Base) Build() *circuit.Circuit {
	c := b.Circ.Build()
	c.Inputs = buildIO(b.In, true)
	c.Outputs = buildIO(b.Out, false)
	return c
}

// flatInputWidths are the widths Compute expects one value for.
func (b Base) flatInputWidths() []int {
	var res []int
	for _, a := range b.In {
		m := flatten(a.T)
		if len(m) == 0 {
			res = append(res, a.T.Width())
			continue
		}
		for _, f := range m {
			res = append(res, f.Bits)
		}
	}
	return res
}

// ---------------------------------------------------------------------------
// Generators

var identNames = []string{"a", "b", "key", "msg", "x0", "val_1", "G", "E",
	"%ret0{1,1}i16", "%ret1{1,1}arr16", "%_{0,1}u8", "data"}

var unicodeNames = []string{"ключ", "鍵", "näppäin", "κ", "🔑", "á", "‮name",
	"x y", "ｕｉｎｔ８"}

var binaryNames = []string{"00", "0a", "ff", "00000001", "c328", "e28082",
	"202020", "0d0a", "7f", "ffffffff", "000f4241"}

// drawName draws a short name (<= ~120 bytes).
func drawName(t *rapid.T, label string) NameD {
	switch rapid.IntRange(0, 9).Draw(t, label+"_kind") {
	case 0, 1:
		return NameD{}
	case 2, 3, 4, 5:
		return NameD{S: rapid.SampledFrom(identNames).Draw(t, label)}
	case 6:
		return NameD{S: rapid.SampledFrom(unicodeNames).Draw(t, label)}
	case 7:
		return NameD{Hex: rapid.SampledFrom(binaryNames).Draw(t, label)}
	case 8:
		// medium long
		return NameD{S: rapid.SampledFrom([]string{"n", "ab", "long_"}).Draw(t, label),
			Rep: rapid.IntRange(2, 24).Draw(t, label+"_rep")}
	default:
		return NameD{S: rapid.StringMatching(`[a-zA-Z_][a-zA-Z0-9_]{0,8}`).Draw(t, label)}
	}
}

func divisors(w int) []int {
	var res []int
	for k := 1; k <= w && k <= 64; k++ {
		if w%k == 0 {
			res = append(res, k)
		}
	}
	return res
}

// drawType draws a type of exactly w wires.  depth bounds nesting.
func drawType(t *rapid.T, w int, depth int, label string) TypeD {
	// Kinds that fit.
	kinds := []string{"int", "uint", "uint"}
	if w == 1 {
		kinds = append(kinds, "bool", "bool")
	}
	if w%8 == 0 {
		kinds = append(kinds, "string")
	}
	if depth > 0 {
		kinds = append(kinds, "array", "array", "slice")
		if w >= 1 {
			kinds = append(kinds, "struct", "struct")
		}
	}
	k := rapid.SampledFrom(kinds).Draw(t, label+"_k")
	switch k {
	case "array", "slice":
		if w == 0 {
			// [0]T or [n] of zero-width elements does not occur; use [0]uintK.
			el := TypeD{K: "uint", Bits: rapid.SampledFrom([]int{1, 8, 32}).Draw(t, label+"_elw")}
			return TypeD{K: k, N: 0, El: &el}
		}
		ds := divisors(w)
		n := rapid.SampledFrom(ds).Draw(t, label+"_n")
		el := drawType(t, w/n, depth-1, label+"e")
		return TypeD{K: k, N: n, El: &el}
	case "struct":
		nf := rapid.IntRange(1, 4).Draw(t, label+"_nf")
		if nf > w {
			nf = w
		}
		if nf < 1 {
			nf = 1
		}
		// Composition of w into nf parts >= 1 (cut points), then
		// optionally one extra zero-width field.
		rest := w
		var fields []FieldD
		for i := 0; i < nf; i++ {
			part := rest
			if i < nf-1 {
				part = rapid.IntRange(1, rest-(nf-1-i)).Draw(t, label+"_part")
			}
			rest -= part
			fields = append(fields, FieldD{
				Name: drawFieldName(t, label+"_fn"),
				T:    drawType(t, part, depth-1, fmt.Sprintf("%sf%d", label, i)),
			})
		}
		return TypeD{K: "struct", Fields: fields}
	default:
		return TypeD{K: k, Bits: w}
	}
}

func drawFieldName(t *rapid.T, label string) NameD {
	if rapid.IntRange(0, 5).Draw(t, label+"_k") == 0 {
		return drawName(t, label)
	}
	return NameD{S: rapid.SampledFrom([]string{"X", "Y", "Flag", "Arr", "inner",
		"a", "b", "Ключ"}).Draw(t, label)}
}

// BaseOpts bounds the base generator.
type BaseOpts struct {
	Circ      gen.CircOpts
	TypeDepth int
}

// drawBase draws a circuit and types its arguments.  All names are short, so
// the I/O section of the file stays far below 4 KiB.
func drawBase(t *rapid.T, o BaseOpts) Base {
	var b Base
	b.Circ = gen.DrawCirc(t, o.Circ)
	if rapid.IntRange(0, 15).Draw(t, "inv_only") == 0 {
		// INV-only circuit (the class the property names explicitly).
		for i := range b.Circ.Gates {
			b.Circ.Gates[i][0] = ref.INV
			b.Circ.Gates[i][2] = 0
		}
	}
	plain := rapid.IntRange(0, 7).Draw(t, "plain_io") == 0
	for i, w := range b.Circ.In {
		if plain {
			b.In = append(b.In, ArgD{Name: NameD{S: fmt.Sprintf("i%d", i)},
				T: TypeD{K: "uint", Bits: w}})
			continue
		}
		b.In = append(b.In, ArgD{Name: drawName(t, "in_name"),
			T: drawType(t, w, o.TypeDepth, fmt.Sprintf("in%d", i))})
	}
	for i, w := range b.Circ.Out {
		if plain {
			b.Out = append(b.Out, ArgD{Name: NameD{S: fmt.Sprintf("o%d", i)},
				T: TypeD{K: "uint", Bits: w}})
			continue
		}
		b.Out = append(b.Out, ArgD{Name: drawName(t, "out_name"),
			T: drawType(t, w, o.TypeDepth, fmt.Sprintf("out%d", i))})
	}
	return b
}

// typeClasses labels the shapes present in the signature.
func (b Base) typeClasses() []string {
	seen := map[string]bool{}
	var walk func(t TypeD, top bool)
	walk = func(t TypeD, top bool) {
		seen["type="+t.K] = true
		switch t.K {
		case "array", "slice":
			if t.El != nil {
				if t.El.K == "array" || t.El.K == "slice" {
					seen["type=nested-array"] = true
				}
				if t.El.K == "struct" {
					seen["type=array-of-struct"] = true
				}
				walk(*t.El, false)
			}
		case "struct":
			for _, f := range t.Fields {
				if f.T.K == "struct" {
					seen["type=nested-struct"] = true
				}
				walk(f.T, false)
			}
		}
		if t.Width() == 0 {
			seen["type=zero-width"] = true
		}
	}
	nameClass := func(n NameD) {
		s := n.String()
		switch {
		case s == "":
			seen["name=empty"] = true
		case n.Hex != "":
			seen["name=binary"] = true
		case len(s) >= 4073:
			seen["name=over-4KiB"] = true
		case len(s) > 40:
			seen["name=long"] = true
		default:
			ascii := true
			for i := 0; i < len(s); i++ {
				if s[i] >= 0x80 {
					ascii = false
				}
			}
			if ascii {
				seen["name=ident"] = true
			} else {
				seen["name=unicode"] = true
			}
		}
	}
	for _, a := range b.In {
		walk(a.T, true)
		nameClass(a.Name)
		if a.T.K == "struct" {
			seen["compound-input"] = true
		}
	}
	for _, a := range b.Out {
		walk(a.T, true)
		nameClass(a.Name)
	}
	var res []string
	for k := range seen {
		res = append(res, k)
	}
	// deterministic order
	for i := 1; i < len(res); i++ {
		for j := i; j > 0 && res[j] < res[j-1]; j-- {
			res[j], res[j-1] = res[j-1], res[j]
		}
	}
	return res
}
