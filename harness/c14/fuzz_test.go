// fuzz_test.go: raw-bytes units (replay of arbitrary byte strings), the fixed
// hostile seed list, the native fuzz targets FuzzParseMPCLC/FuzzParseBristol
// and the TestMain glue that turns what the fuzzing engine found into the
// harness' evidence and replay files.
//
// How the native fuzzing is wired: the driver starts the test binary with
// -test.fuzz (thorough tier).  The coordinator process runs the seeds, then
// the engine's workers (the same binary with -test.fuzzworker) run the fuzz
// function.  Workers only count (side files next to VERIF_EV_OUT) and fail the
// target with t.Fatalf; Go then writes the (minimised) crasher to
// testdata/fuzz/<Target>/<hash> under this package directory.  After m.Run
// returns, the coordinator replays every new crasher through the same oracle
// in-process and books the reproducible ones as violations of unit
// mpclc-raw / bristol-raw (with a replay file the driver can re-run).
package c14

import (
	"bytes"
	"encoding/binary"
	"encoding/hex"
	"encoding/json"
	"flag"
	"fmt"
	"os"
	"path/filepath"
	"strconv"
	"strings"
	"sync/atomic"
	"testing"
	"time"

	"verifharness/internal/ev"
	"verifharness/internal/gen"
	"verifharness/internal/ref"
)

// RawCase is an arbitrary byte string offered to one parser.
type RawCase struct {
	Format string `json:"format"`
	Hex    string `json:"hex,omitempty"`
	Note   string `json:"note,omitempty"`
	// Nested > 0: instead of Hex, a native-format file with no gates and
	// one 1-bit input whose type text is "[]" x Nested + "uint1".  Its name
	// has 4068 bytes so that the type text starts at file offset 4096 and
	// is read completely whether or not finding F10 is fixed.
	Nested int `json:"nested,omitempty"`
	// BudgetMS overrides the per-call time budget (0 = default).
	BudgetMS int `json:"budget_ms,omitempty"`
}

func nestedTypeFile(depth int) []byte {
	text := strings.Repeat("[]", depth) + "uint1"
	data := be32(0x63726300, 0, 1, 1, 0, 4068)
	data = append(data, make([]byte, 4068)...)
	data = append(data, be32(uint32(len(text)))...)
	data = append(data, text...)
	return append(data, be32(1, 0)...)
}

func init() {
	ev.Register("mpclc-raw", runRaw)
	ev.Register("bristol-raw", runRaw)
}

func runRaw(cs RawCase) ev.Outcome {
	data, err := hex.DecodeString(cs.Hex)
	if err != nil {
		return ev.Outcome{Skip: "bad hex"}
	}
	b := budget()
	if cs.BudgetMS > 0 {
		b = time.Duration(cs.BudgetMS) * time.Millisecond
	}
	if cs.Nested > 0 {
		if cs.Nested > 400000 {
			return ev.Outcome{Skip: "nesting beyond the precondition"}
		}
		data = nestedTypeFile(cs.Nested)
	}
	v := checkBytesB(ev.Get(prop), cs.Format, data, b)
	if v.Skip != "" {
		return ev.Outcome{Skip: v.Skip}
	}
	if v.Err != "" {
		out := ev.Fail(v.Sig, "%s", v.Err)
		out.Key = sha(cs.Format, data)
		return out
	}
	classes := []string{"result=" + v.Class}
	if cs.Nested > 0 {
		classes = append(classes, "nested-array-type-text")
	}
	out := ev.OK(v.Gates >= 1 || cs.Nested > 0, classes...)
	out.Key = sha(cs.Format, data)
	return out
}

// ---------------------------------------------------------------------------
// Seeds

func seedBases() []Base {
	u := func(n int) TypeD { return TypeD{K: "uint", Bits: n} }
	el := u(4)
	return []Base{
		{ // and.circ
			Circ: gen.Circ{In: []int{1, 1}, Out: []int{1}, Gates: []ref.Gate{{ref.AND, 0, 1, 2}}},
			In:   []ArgD{{Name: NameD{S: "a"}, T: u(1)}, {Name: NameD{S: "b"}, T: u(1)}},
			Out:  []ArgD{{Name: NameD{S: "%ret0"}, T: TypeD{K: "bool", Bits: 1}}},
		},
		{ // INV only
			Circ: gen.Circ{In: []int{1}, Out: []int{1}, Gates: []ref.Gate{{ref.INV, 0, 0, 1}}},
			In:   []ArgD{{T: u(1)}},
			Out:  []ArgD{{T: u(1)}},
		},
		{ // struct input with compound members, array output, all ops
			Circ: gen.Circ{In: []int{13, 2}, Out: []int{2, 1},
				Gates: []ref.Gate{{ref.XOR, 0, 13, 15}, {ref.XNOR, 1, 14, 16}, {ref.OR, 15, 16, 17},
					{ref.INV, 17, 0, 18}, {ref.AND, 18, 12, 19}, {ref.XOR, 19, 19, 20}, {ref.INV, 20, 0, 21},
					{ref.AND, 2, 3, 22}}},
			In: []ArgD{
				{Name: NameD{S: "pt"}, T: TypeD{K: "struct", Fields: []FieldD{
					{Name: NameD{S: "X"}, T: TypeD{K: "int", Bits: 4}},
					{Name: NameD{S: "A"}, T: TypeD{K: "array", N: 2, El: &el}},
					{Name: NameD{S: "F"}, T: TypeD{K: "bool", Bits: 1}}}}},
				{Name: NameD{S: "ключ"}, T: TypeD{K: "slice", N: 2, El: &TypeD{K: "bool", Bits: 1}}},
			},
			Out: []ArgD{{Name: NameD{S: "%ret0{1,1}arr2"}, T: TypeD{K: "array", N: 2, El: &TypeD{K: "uint", Bits: 1}}},
				{Name: NameD{}, T: TypeD{K: "bool", Bits: 1}}},
		},
	}
}

func be32(vals ...uint32) []byte {
	var b []byte
	for _, v := range vals {
		b = binary.BigEndian.AppendUint32(b, v)
	}
	return b
}

// mpclcSeeds: valid files, the F9 input, and hostile constants.
func mpclcSeeds() [][]byte {
	var res [][]byte
	for _, b := range seedBases() {
		var buf bytes.Buffer
		if b.Build().Marshal(&buf) == nil {
			res = append(res, buf.Bytes())
		}
	}
	valid := res[0]
	// one valid gate more than declared (candidate finding F9)
	res = append(res, append(append([]byte{}, valid...), 2, 0, 0, 0, 0, 0, 0, 0, 1, 0, 0, 0, 2))
	res = append(res,
		[]byte{},
		[]byte("crc\x00"),
		be32(0x63726300, 0, 0, 0, 0),
		be32(0x63726300, 0, 1, 0, 0),
		be32(0x63726300, 1, 1, 0, 0),
		be32(0x63726300, 1000000, 1000000, 0, 0),
		be32(0x63726300, 0xffffffff, 0xffffffff, 0xffffffff, 0xffffffff),
		be32(0x63726300, 0, 0, 1, 0, 0xffffffff),
		be32(0x63726300, 0, 0, 1, 0, 1000000),
		append(be32(0x63726300, 0, 1, 1, 0, 0, 5), append([]byte("uint1"), be32(1, 1000000)...)...),
		append(be32(0x63726300, 0, 1, 1, 0, 0, 5), append([]byte("uint1"), be32(0x80000000, 0)...)...),
		append(be32(0x63726300, 1, 2, 1, 0, 0, 5), append([]byte("uint1"), append(be32(1, 0), 4, 0, 0, 0, 0, 0, 0, 0, 1)...)...),
		append(be32(0x63726300, 1, 2, 1, 0, 0, 5), append([]byte("uint1"), append(be32(1, 0), 4, 0, 0, 0, 1, 0, 0, 0, 1)...)...),
		append(be32(0x63726300, 1, 2, 1, 0, 0, 5), append([]byte("uint1"), append(be32(1, 0), 5, 0, 0, 0, 0, 0, 0, 0, 1)...)...),
		append(be32(0x63726300, 0, 1, 1, 0, 0, 14), append([]byte("[][][][][][]u1"), be32(1, 0)...)...),
	)
	return res
}

func bristolSeeds() [][]byte {
	var res [][]byte
	for _, b := range seedBases() {
		var buf bytes.Buffer
		b.Build().MarshalBristol(&buf)
		res = append(res, buf.Bytes())
	}
	for _, s := range []string{
		"", "\n", "1 3\n2 1 1\n1 1\n\n2 1 0 1 2 AND\n",
		"1 3\n2 1 1\n1 1\n\n2 1 0 1 2 AND\n2 1 0 1 2 AND\n",
		"2 3\n2 1 1\n1 1\n\n2 1 0 1 2 AND\n",
		"1 2\n1 1\n1 1\n1 1 0 1 INV",
		"1 2\n1 1\n1 1\n1 1 1 1 INV\n",
		"1 2\n1 1\n1 1\n1 1 0 4294967296 INV\n",
		"1 2\n1 1\n1 1\n1 1 0 4294967295 INV\n",
		"1 2\n1 1\n1 1\n0 1 1 INV\n",
		"1 2\n1 1\n1 1\n1 0 0 INV\n",
		"1 2\n1 1\n1 1\n1 2 0 1 1 INV\n",
		"1 2\n1 1\n1 1\n9223372036854775807 9223372036854775807 0 1 INV\n",
		"1 2\n-1\n1 1\n1 1 0 1 INV\n",
		"1 2\n1 1\n-1\n1 1 0 1 INV\n",
		"1 2\n1 0\n1 1\n1 1 0 1 INV\n",
		"1 2\n2 1 4294967295\n1 1\n1 1 0 1 INV\n",
		"1000000 1000000\n1 1\n1 1\n",
		"-1 -1\n", "1\n", "1 2 3\n", "1 2\n\n\n", "0 0\n0\n0\n", "0 1\n1 1\n0\n",
		"1 2\r\n1 1\r\n1 1\r\n\r\n1 1 0 1 INV\r\n",
		"1\t2\n1\t1\n1\t1\n1\t1\t0\t1\tINV\n",
		"1 2\n1 1\n1 1\n1 1 0 1 NOT\n",
		"1 2\n1 1\n1 1\n2 1 0 0 1 INV\n",
		"1 2\n1 1\n1 1\n1 1 0 1 XOR\n",
	} {
		res = append(res, []byte(s))
	}
	return res
}

// TestHostile runs the fixed seed lists (also the fuzz seeds) in every tier.
func TestHostile(t *testing.T) {
	col := ev.Get(prop)
	ev.Each(t, col, "mpclc-raw", func(yield func(RawCase) bool) {
		for _, s := range mpclcSeeds() {
			yield(RawCase{Format: "mpclc", Hex: hex.EncodeToString(s)})
		}
	}, runRaw)
	ev.Each(t, col, "bristol-raw", func(yield func(RawCase) bool) {
		for _, s := range bristolSeeds() {
			yield(RawCase{Format: "bristol", Hex: hex.EncodeToString(s)})
		}
	}, runRaw)
	// Cost of nested array type texts (declared string length <= 200 KB,
	// well inside the precondition).  The small ones are plain robustness
	// cases; the last one is decided by the hang guard with a 3 s budget
	// (9 s on the re-run): types.Parse of the unchanged tree needs minutes.
	ev.Each(t, col, "mpclc-raw", func(yield func(RawCase) bool) {
		for _, d := range []int{1, 10, 100, 1000, 2000} {
			yield(RawCase{Format: "mpclc", Nested: d})
		}
		yield(RawCase{Format: "mpclc", Nested: 100000, BudgetMS: 3000})
	}, runRaw)
}

// ---------------------------------------------------------------------------
// Native fuzzing

var (
	isFuzzWorker bool
	fuzzExecs    atomic.Int64
	fuzzSkipped  atomic.Int64
	fuzzAccepted atomic.Int64
	fuzzRejected atomic.Int64
	fuzzKnown    atomic.Int64
	fuzzPast     atomic.Int64
)

type fuzzCounts struct {
	Execs, Skipped, Accepted, Rejected, Known, PastHeader int64
}

func workerFile() string {
	out := os.Getenv("VERIF_EV_OUT")
	if out == "" {
		return ""
	}
	return fmt.Sprintf("%s.fw.%d", out, os.Getpid())
}

func writeWorkerCounts() {
	p := workerFile()
	if p == "" {
		return
	}
	data, _ := json.Marshal(fuzzCounts{fuzzExecs.Load(), fuzzSkipped.Load(), fuzzAccepted.Load(),
		fuzzRejected.Load(), fuzzKnown.Load(), fuzzPast.Load()})
	os.WriteFile(p+".tmp", data, 0o644)
	os.Rename(p+".tmp", p)
}

func fuzzOne(t *testing.T, format string, data []byte) {
	col := ev.Get(prop)
	v := checkBytes(col, format, data)
	if isFuzzWorker {
		if n := fuzzExecs.Add(1); n%2048 == 0 {
			writeWorkerCounts()
		}
		switch {
		case v.Skip != "":
			fuzzSkipped.Add(1)
		case v.Err != "" && col.IsKnown(v.Sig):
			fuzzKnown.Add(1)
		case v.Class == "accepted":
			fuzzAccepted.Add(1)
		case v.Class == "rejected":
			fuzzRejected.Add(1)
		}
		if v.Gates >= 1 {
			fuzzPast.Add(1)
		}
		if v.Err != "" && !col.IsKnown(v.Sig) {
			t.Fatalf("%s: %s", v.Sig, v.Err)
		}
		return
	}
	// Coordinator (seed corpus, or a plain run of the target): book it
	// like any other raw case.
	unit := format + "-raw"
	cs := RawCase{Format: format, Hex: hex.EncodeToString(data), Note: "fuzz seed"}
	out := runRaw(cs)
	if col.Record(unit, cs, out) {
		path := col.Violation(unit, cs, out, false)
		t.Errorf("violation sig=%s replay=%s: %s", out.Sig, path, out.Err)
	}
}

func FuzzParseMPCLC(f *testing.F) {
	for _, s := range mpclcSeeds() {
		f.Add(s)
	}
	f.Fuzz(func(t *testing.T, data []byte) { fuzzOne(t, "mpclc", data) })
}

func FuzzParseBristol(f *testing.F) {
	for _, s := range bristolSeeds() {
		f.Add(s)
	}
	f.Fuzz(func(t *testing.T, data []byte) { fuzzOne(t, "bristol", data) })
}

func listCrashers() map[string]bool {
	res := map[string]bool{}
	files, _ := filepath.Glob(filepath.Join("testdata", "fuzz", "Fuzz*", "*"))
	for _, f := range files {
		res[f] = true
	}
	return res
}

// decodeCorpusFile reads a "go test fuzz v1" file with one []byte value.
func decodeCorpusFile(path string) ([]byte, error) {
	data, err := os.ReadFile(path)
	if err != nil {
		return nil, err
	}
	lines := strings.Split(strings.TrimSpace(string(data)), "\n")
	if len(lines) != 2 || !strings.HasPrefix(lines[0], "go test fuzz v1") {
		return nil, fmt.Errorf("not a fuzz corpus file")
	}
	s := strings.TrimSpace(lines[1])
	s = strings.TrimPrefix(s, "[]byte(")
	s = strings.TrimSuffix(s, ")")
	u, err := strconv.Unquote(s)
	if err != nil {
		return nil, err
	}
	return []byte(u), nil
}

func TestMain(m *testing.M) {
	flag.Parse()
	fuzzTarget := ""
	if f := flag.Lookup("test.fuzz"); f != nil {
		fuzzTarget = f.Value.String()
	}
	if f := flag.Lookup("test.fuzzworker"); f != nil && f.Value.String() == "true" {
		isFuzzWorker = true
	}
	if isFuzzWorker {
		code := m.Run()
		writeWorkerCounts()
		os.Exit(code)
	}
	before := listCrashers()
	code := m.Run()
	if fuzzTarget != "" {
		col := ev.Get(prop)
		format := "mpclc"
		if strings.Contains(strings.ToLower(fuzzTarget), "bristol") {
			format = "bristol"
		}
		unit := format + "-raw"
		// Worker counters.
		var sum fuzzCounts
		if out := os.Getenv("VERIF_EV_OUT"); out != "" {
			files, _ := filepath.Glob(out + ".fw.*")
			for _, f := range files {
				var c fuzzCounts
				if data, err := os.ReadFile(f); err == nil && json.Unmarshal(data, &c) == nil {
					sum.Execs += c.Execs
					sum.Skipped += c.Skipped
					sum.Accepted += c.Accepted
					sum.Rejected += c.Rejected
					sum.Known += c.Known
					sum.PastHeader += c.PastHeader
				}
				os.Remove(f)
			}
		}
		if n := sum.Execs - sum.Skipped; n > 0 {
			col.Record(unit, nil, ev.Outcome{Evals: int(n), Classes: []string{"native-fuzz-workers"}})
		}
		col.Count("fuzz_"+format+"_execs", int(sum.Execs))
		col.Count("fuzz_"+format+"_precondition_skips", int(sum.Skipped))
		col.Count("fuzz_"+format+"_accepted", int(sum.Accepted))
		col.Count("fuzz_"+format+"_rejected", int(sum.Rejected))
		col.Count("fuzz_"+format+"_known_finding_hits", int(sum.Known))
		col.Count("fuzz_"+format+"_past_header", int(sum.PastHeader))
		col.Note("native fuzzing (%s): worker executions are counted by the workers themselves (periodic side files), the last <2048 executions of a worker may be missing", fuzzTarget)
		// New crashers.
		for f := range listCrashers() {
			if before[f] {
				continue
			}
			data, err := decodeCorpusFile(f)
			if err != nil {
				col.Note("fuzz crasher %s could not be decoded: %v", f, err)
				continue
			}
			cs := RawCase{Format: format, Hex: hex.EncodeToString(data), Note: "fuzz crasher " + f}
			out := runRaw(cs)
			if col.Record(unit, cs, out) {
				col.Violation(unit, cs, out, false)
			} else {
				col.Note("fuzz crasher %s did not reproduce in-process (outcome err=%q skip=%q); left in place", f, out.Err, out.Skip)
			}
		}
		col.Flush()
	}
	os.Exit(code)
}
