// malformed_test.go: units mpclc-malformed and bristol-malformed: structured
// mutations of valid files, offered to the parsers under the oracle of
// oracle_test.go.
package c14

import (
	"bytes"
	"crypto/sha256"
	"encoding/binary"
	"encoding/hex"
	"fmt"
	"strconv"
	"strings"
	"testing"

	"pgregory.net/rapid"

	"verifharness/internal/ev"
	"verifharness/internal/gen"
)

// Mut is one mutation step; the meaning of A, B, V depends on K.  Every
// parameter is reduced modulo what the current bytes offer, so every step is
// applicable (or a counted no-op) whatever the bytes look like.
type Mut struct {
	K   string `json:"k"`
	A   int    `json:"a,omitempty"`
	B   int    `json:"b,omitempty"`
	V   uint64 `json:"v,omitempty"`
	Hex string `json:"hex,omitempty"`
}

// MalCase is a valid file (Marshal/MarshalBristol of Base) and mutations.
type MalCase struct {
	Base Base  `json:"base"`
	Muts []Mut `json:"muts"`
}

func init() {
	ev.Register("mpclc-malformed", runMalformedMPCLC)
	ev.Register("bristol-malformed", runMalformedBristol)
}

func malOpts(t *rapid.T) BaseOpts {
	o := BaseOpts{TypeDepth: 2, Circ: gen.CircOpts{MinArgs: 1, MaxArgs: 3, MaxWidth: 6,
		MaxGates: 12, MaxOuts: 2, MaxOutWidth: 3, AllowZeroWidth: true}}
	switch rapid.IntRange(0, 9).Draw(t, "size") {
	case 0:
		o.Circ.MaxGates = 400 // gate section crosses 4 KiB
		o.Circ.MaxWidth = 20
	case 1, 2:
		o.Circ.MaxGates = 3
		o.Circ.MaxWidth = 2
		o.Circ.MaxOuts = 1
		o.Circ.MaxOutWidth = 1
	}
	return o
}

var garbage = []string{"00", "ff", "04", "05", "0000000000000000", "ffffffffffffffff",
	"0400000000", "020000000000000000", "0a", "200a", "67617262616765",
	"0400000000000000", "00000000000000000000000000", "03ffffffffffffffffffffffff",
	"3120310a", "0a0a0a", "322031203020302030204e4f540a", "2d310a", "e280a8"}

// Order matters a little: rapid favours the front of a SampledFrom list.
var mpclcKinds = []string{"splice32", "ext-gates", "type-text", "dup-gate", "bitflip",
	"swap-gates", "splice32", "del-gate", "splice-op", "swap32", "ext-gates", "ins-bytes",
	"ext-garbage", "trunc-field", "type-text", "trunc-off", "trunc-tail", "splice32", "bitflip"}

var bristolKinds = []string{"splice-token", "ext-gates", "dup-line", "bitflip", "swap-tokens",
	"op-text", "ws", "del-line", "swap-lines", "splice-token", "ins-bytes", "ext-garbage",
	"trunc-line", "trunc-token", "trunc-off", "trunc-tail", "ext-gates", "splice-token", "ws"}

func drawMuts(t *rapid.T, kinds []string) []Mut {
	n := rapid.SampledFrom([]int{1, 1, 1, 1, 2, 2, 3}).Draw(t, "nmuts")
	var res []Mut
	for i := 0; i < n; i++ {
		m := Mut{K: rapid.SampledFrom(kinds).Draw(t, "mut")}
		m.A = rapid.IntRange(0, 4095).Draw(t, "A")
		m.B = rapid.IntRange(0, 63).Draw(t, "B")
		switch m.K {
		case "splice32", "splice-token", "ext-gates", "dup-gate", "del-gate", "dup-line",
			"del-line", "type-text", "ws", "op-text":
			m.V = rapid.Uint64().Draw(t, "V")
		case "ext-garbage", "ins-bytes":
			m.Hex = rapid.SampledFrom(garbage).Draw(t, "garbage")
		}
		res = append(res, m)
	}
	return res
}

func genMalformedMPCLC(t *rapid.T) MalCase {
	return MalCase{Base: drawBase(t, malOpts(t)), Muts: drawMuts(t, mpclcKinds)}
}

func genMalformedBristol(t *rapid.T) MalCase {
	return MalCase{Base: drawBase(t, malOpts(t)), Muts: drawMuts(t, bristolKinds)}
}

// ---------------------------------------------------------------------------
// Native format mutations

var hostileTypes = []string{"", "b", "bool", "byte", "rune", "int", "uint", "i8", "u8", "s8",
	"b1", "string", "struct", "structx", "float32", "*uint8", "[", "]", "[]", "[]]", "[2]",
	"[2", "[99999999999]uint8", "[2147483647]uint2147483647", "[2][3][4]int4", "uint4294967296",
	"uint2147483648", "uint-1", "[-1]uint8", "[+1]uint8", " uint8", "uint8 ", "uint8\n",
	"uint８", "[٣]uint8", "[0]uint8", "[1]bool", "uint8[2]", "[2]uint8[3]", "array8", "slice8",
	"ptr8", "nil", "<Undefined>", "Uint8", "\x00", "uint\x008", "[2]\n[3]uint8"}

func put32(data []byte, off int, v uint32) { binary.BigEndian.PutUint32(data[off:], v) }
func get32(data []byte, off int) uint32    { return binary.BigEndian.Uint32(data[off:]) }

func spliceBytes(data []byte, from, to int, repl []byte) []byte {
	res := make([]byte, 0, len(data)-(to-from)+len(repl))
	res = append(res, data[:from]...)
	res = append(res, repl...)
	res = append(res, data[to:]...)
	return res
}

func unhex(s string) []byte {
	b, _ := hex.DecodeString(s)
	return b
}

// boundary32 lists the values spliced into 32-bit fields.
func boundary32(cur, ng, nw uint32, rest int, v uint64) []uint32 {
	mod := uint32(1)
	if nw > 0 {
		mod = nw
	}
	return []uint32{0, 1, cur - 1, cur + 1, ng - 1, ng, ng + 1, nw - 1, nw, nw + 1,
		1 << 16, 1000000, 1000001, 1<<31 - 1, 1 << 31, 1<<32 - 1,
		uint32(rest), uint32(rest + 1), uint32(v % uint64(mod)), uint32(v % uint64(mod)),
		uint32(v % uint64(mod)), uint32(v)}
}

// mutateMPCLC applies one step; the label names the step (and "-noop" when
// the bytes offered nothing to apply it to).
func mutateMPCLC(data []byte, m Mut) ([]byte, string) {
	l := walkMPCLC(data)
	noop := func() ([]byte, string) { return data, m.K + "-noop" }
	data = append([]byte{}, data...)
	switch m.K {
	case "trunc-field":
		if len(l.Fields) == 0 {
			return noop()
		}
		f := l.Fields[m.A%len(l.Fields)]
		cut := f.Off
		if m.B%4 == 3 { // inside the field
			cut += 1 + m.B/4%3
		}
		if cut > len(data) {
			cut = len(data)
		}
		return data[:cut], m.K
	case "trunc-off":
		return data[:m.A%(len(data)+1)], m.K
	case "trunc-tail":
		n := 1 + m.A%13
		if n > len(data) {
			n = len(data)
		}
		return data[:len(data)-n], m.K
	case "ext-garbage":
		return append(data, unhex(m.Hex)...), m.K
	case "ins-bytes":
		off := m.A % (len(data) + 1)
		if len(l.Fields) > 0 && m.B%2 == 0 {
			off = l.Fields[m.A%len(l.Fields)].Off
		}
		return spliceBytes(data, off, off, unhex(m.Hex)), m.K
	case "bitflip":
		if len(data) == 0 {
			return noop()
		}
		data[m.A%len(data)] ^= 1 << (m.B % 8)
		return data, m.K
	case "splice32":
		if len(l.U32) == 0 {
			return noop()
		}
		f := l.Fields[l.U32[m.A%len(l.U32)]]
		tbl := boundary32(get32(data, f.Off), l.NumGates, l.NumWires, len(data)-f.Off-4, m.V)
		put32(data, f.Off, tbl[m.B%len(tbl)])
		return data, fmt.Sprintf("%s/%s", m.K, fieldName(f.Kind))
	case "swap32":
		if len(l.U32) < 2 {
			return noop()
		}
		f := l.Fields[l.U32[m.A%len(l.U32)]]
		// mostly a neighbour, sometimes any field
		j := (m.A%len(l.U32) + 1 + m.B%3) % len(l.U32)
		if m.B >= 48 {
			j = m.B * 131 % len(l.U32)
		}
		g := l.Fields[l.U32[j]]
		a, b := get32(data, f.Off), get32(data, g.Off)
		put32(data, f.Off, b)
		put32(data, g.Off, a)
		return data, m.K
	case "splice-op":
		if len(l.Gates) == 0 {
			return noop()
		}
		ops := []byte{0, 1, 2, 3, 4, 4, 5, 6, 7, 0xff, 0x80, byte(m.B)}
		data[l.Gates[m.A%len(l.Gates)].Off] = ops[m.B%len(ops)]
		return data, m.K
	case "dup-gate", "del-gate", "swap-gates", "ext-gates":
		if !l.HeaderOK {
			return noop()
		}
		return mutateGates(data, l, m)
	case "type-text":
		var ts []mString
		for _, s := range l.Strings {
			if s.IsType && s.Off+s.Len <= len(data) {
				ts = append(ts, s)
			}
		}
		if len(ts) == 0 {
			return noop()
		}
		s := ts[m.A%len(ts)]
		var text string
		label := m.K
		if m.B%8 == 7 {
			// nested array type text; depth bounded (see the report
			// about the cost of types.Parse on such texts)
			depth := 1 + int(m.V%400)
			text = strings.Repeat([]string{"[]", "[2]", "[0]"}[m.V>>16%3], depth) + "uint1"
			label += "/nested"
		} else {
			text = hostileTypes[int(m.V%uint64(len(hostileTypes)))]
		}
		if m.B%16 < 14 {
			put32(data, s.LenOff, uint32(len(text)))
		} else {
			label += "/stale-length"
		}
		return spliceBytes(data, s.Off, s.Off+s.Len, []byte(text)), label
	}
	return noop()
}

func fieldName(kind int) string {
	return []string{"magic", "numgates", "numwires", "numinputs", "numoutputs", "strlen",
		"bits", "numcompound", "op", "wire"}[kind]
}

func gateRecord(op byte, in0, in1, out uint32) []byte {
	var b []byte
	b = append(b, op)
	b = binary.BigEndian.AppendUint32(b, in0)
	if op != 4 {
		b = binary.BigEndian.AppendUint32(b, in1)
	}
	b = binary.BigEndian.AppendUint32(b, out)
	return b
}

func mutateGates(data []byte, l *mLayout, m Mut) ([]byte, string) {
	ng, nw := l.NumGates, l.NumWires
	label := m.K
	bumpGates := func(d int) {
		if m.V&1 == 1 {
			put32(data, 4, uint32(int64(ng)+int64(d)))
			label += "+count"
		}
	}
	switch m.K {
	case "ext-gates":
		if nw == 0 {
			return data, m.K + "-noop"
		}
		k := 1 + m.A%3
		v := m.V >> 2
		var ext []byte
		newWires := uint32(0)
		for i := 0; i < k; i++ {
			op := byte(v % 5)
			v /= 5
			in0 := uint32(v % uint64(nw))
			v /= 7
			in1 := uint32(v % uint64(nw))
			v /= 7
			out := uint32(v % uint64(nw)) // reassigns an existing wire
			if m.B%3 == 1 {
				out = nw + newWires // a further wire
				newWires++
			}
			ext = append(ext, gateRecord(op, in0, in1, out)...)
		}
		if m.B%3 == 1 {
			label += "/new-wire"
			if m.V&2 == 2 {
				put32(data, 8, nw+newWires)
				label += "+wires"
			}
		} else {
			label += "/old-wire"
		}
		bumpGates(k)
		// Behind the gate records that are there; trailing junk stays.
		return spliceBytes(data, l.Rest, l.Rest, ext), label
	case "dup-gate":
		if len(l.Gates) == 0 {
			return data, m.K + "-noop"
		}
		g := l.Gates[m.A%len(l.Gates)]
		rec := append([]byte{}, data[g.Off:g.Off+g.Len]...)
		at := g.Off + g.Len
		if m.B%2 == 1 {
			at = l.Rest
		}
		bumpGates(1)
		return spliceBytes(data, at, at, rec), label
	case "del-gate":
		if len(l.Gates) == 0 {
			return data, m.K + "-noop"
		}
		g := l.Gates[m.A%len(l.Gates)]
		bumpGates(-1)
		return spliceBytes(data, g.Off, g.Off+g.Len, nil), label
	case "swap-gates":
		if len(l.Gates) < 2 {
			return data, m.K + "-noop"
		}
		i := m.A % len(l.Gates)
		j := (i + 1 + m.B%4) % len(l.Gates)
		if i == j {
			return data, m.K + "-noop"
		}
		if i > j {
			i, j = j, i
		}
		gi, gj := l.Gates[i], l.Gates[j]
		var res []byte
		res = append(res, data[:gi.Off]...)
		res = append(res, data[gj.Off:gj.Off+gj.Len]...)
		res = append(res, data[gi.Off+gi.Len:gj.Off]...)
		res = append(res, data[gi.Off:gi.Off+gi.Len]...)
		res = append(res, data[gj.Off+gj.Len:]...)
		return res, label
	}
	return data, m.K + "-noop"
}

func sha(format string, data []byte) string {
	h := sha256.Sum256(data)
	return format + ":" + hex.EncodeToString(h[:12])
}

func finish(col *ev.Collector, unit, format string, b Base, data []byte, labels []string) ev.Outcome {
	v := checkBytes(col, format, data)
	if v.Skip != "" {
		return ev.Outcome{Skip: v.Skip}
	}
	if v.Err != "" {
		out := ev.Fail(v.Sig, "%s\nmutations: %s", v.Err, strings.Join(labels, ", "))
		out.Key = sha(format, data)
		return out
	}
	classes := append([]string{}, labels...)
	classes = append(classes, "result="+v.Class)
	if v.Slow {
		classes = append(classes, "slow-once")
	}
	typed := false
	for _, a := range append(append([]ArgD{}, b.In...), b.Out...) {
		if a.T.K == "struct" || a.T.K == "array" || a.T.K == "slice" {
			typed = true
		}
	}
	if v.Gates >= 1 {
		classes = append(classes, "past-header")
	}
	out := ev.OK(v.Gates >= 1 || (format == "mpclc" && typed), classes...)
	out.Key = sha(format, data)
	return out
}

func runMalformedMPCLC(cs MalCase) ev.Outcome {
	if !cs.Base.consistent() {
		return ev.Outcome{Skip: "inconsistent case"}
	}
	var buf bytes.Buffer
	if err := cs.Base.Build().Marshal(&buf); err != nil {
		return ev.Outcome{Skip: "Marshal failed (see round-trip unit)"}
	}
	data := buf.Bytes()
	var labels []string
	for _, m := range cs.Muts {
		var label string
		data, label = mutateMPCLC(data, m)
		labels = append(labels, "mut="+label)
	}
	return finish(ev.Get(prop), "mpclc-malformed", "mpclc", cs.Base, data, labels)
}

// ---------------------------------------------------------------------------
// Bristol mutations

var hostileNumbers = []string{"65536", "1000000", "1000001", "2147483647", "2147483648",
	"4294967295", "4294967296", "9223372036854775807", "9223372036854775808",
	"18446744073709551616", "999999999999999999999999999999", "-1", "-0", "+1", "007", "1e3",
	"0x10", "", "１", "1_0", "1.0", "0b1", " ", "\t", "1\x00", "NaN"}

var hostileOps = []string{"xor", "NOT", "EQ", "EQW", "MAND", "NAND", "", "INV\x00", "XORX",
	"AND ", "0", "ＸＯＲ", "XNOR", "OR", "INV", "AND", "XOR"}

func tokText(data []byte, t bToken) string { return string(data[t.Off:t.End]) }

func allTokens(l *bLayout) []bToken {
	var res []bToken
	for _, ln := range l.Lines {
		res = append(res, ln.Tokens...)
	}
	return res
}

func headerInts(data []byte, l *bLayout) (ng, nw int64, ok bool) {
	if len(l.Lines) == 0 || len(l.Lines[0].Tokens) < 2 {
		return 0, 0, false
	}
	a, err1 := strconv.ParseInt(tokText(data, l.Lines[0].Tokens[0]), 10, 64)
	b, err2 := strconv.ParseInt(tokText(data, l.Lines[0].Tokens[1]), 10, 64)
	if err1 != nil || err2 != nil || a < 0 || b < 0 || a > maxDeclared || b > maxDeclared {
		return 0, 0, false
	}
	return a, b, true
}

func mutateBristol(data []byte, m Mut) ([]byte, string) {
	l := walkBristol(data)
	noop := func() ([]byte, string) { return data, m.K + "-noop" }
	data = append([]byte{}, data...)
	toks := allTokens(l)
	lineEnd := func(ln bLine) int { // end including the newline
		if ln.End < len(data) {
			return ln.End + 1
		}
		return ln.End
	}
	switch m.K {
	case "trunc-line":
		if len(l.Lines) == 0 {
			return noop()
		}
		ln := l.Lines[m.A%len(l.Lines)]
		if m.B%3 == 2 {
			return data[:ln.End], m.K + "/no-newline"
		}
		return data[:ln.Off], m.K
	case "trunc-token":
		if len(toks) == 0 {
			return noop()
		}
		t := toks[m.A%len(toks)]
		switch m.B % 3 {
		case 0:
			return data[:t.Off], m.K
		case 1:
			return data[:t.End], m.K
		default:
			return append(data[:t.End:t.End], '\n'), m.K + "/newline"
		}
	case "trunc-off":
		return data[:m.A%(len(data)+1)], m.K
	case "trunc-tail":
		n := 1 + m.A%8
		if n > len(data) {
			n = len(data)
		}
		return data[:len(data)-n], m.K
	case "ext-garbage":
		return append(data, unhex(m.Hex)...), m.K
	case "ins-bytes":
		off := m.A % (len(data) + 1)
		if len(toks) > 0 && m.B%2 == 0 {
			off = toks[m.A%len(toks)].Off
		}
		return spliceBytes(data, off, off, unhex(m.Hex)), m.K
	case "bitflip":
		if len(data) == 0 {
			return noop()
		}
		data[m.A%len(data)] ^= 1 << (m.B % 8)
		return data, m.K
	case "splice-token":
		if len(toks) == 0 {
			return noop()
		}
		// Bias towards the header (first three lines).
		idx := m.A % len(toks)
		nh := 0
		for i := 0; i < 3 && i < len(l.Lines); i++ {
			nh += len(l.Lines[i].Tokens)
		}
		where := "gate"
		if m.B >= 32 && nh > 0 {
			idx = m.A % nh
		}
		if idx < nh {
			where = "header"
		}
		t := toks[idx]
		ng, nw, _ := headerInts(data, l)
		cur, _ := strconv.ParseInt(tokText(data, t), 10, 64)
		mod := nw
		if mod <= 0 {
			mod = 1
		}
		var vals []string
		for _, x := range []int64{0, 1, cur - 1, cur + 1, ng - 1, ng + 1, nw - 1, nw, nw + 1,
			int64(m.V % uint64(mod)), int64(m.V % uint64(mod)), int64(m.V % uint64(mod))} {
			vals = append(vals, strconv.FormatInt(x, 10))
		}
		vals = append(vals, hostileNumbers...)
		return spliceBytes(data, t.Off, t.End, []byte(vals[int(m.V>>20%uint64(len(vals)))])),
			m.K + "/" + where
	case "swap-tokens":
		if len(toks) < 2 {
			return noop()
		}
		i := m.A % len(toks)
		j := (i + 1 + m.B%4) % len(toks)
		if i == j {
			return noop()
		}
		if i > j {
			i, j = j, i
		}
		a, b := toks[i], toks[j]
		var res []byte
		res = append(res, data[:a.Off]...)
		res = append(res, data[b.Off:b.End]...)
		res = append(res, data[a.End:b.Off]...)
		res = append(res, data[a.Off:a.End]...)
		res = append(res, data[b.End:]...)
		return res, m.K
	case "op-text":
		if len(l.Lines) < 4 {
			return noop()
		}
		ln := l.Lines[3+m.A%(len(l.Lines)-3)]
		t := ln.Tokens[len(ln.Tokens)-1]
		return spliceBytes(data, t.Off, t.End, []byte(hostileOps[int(m.V%uint64(len(hostileOps)))])), m.K
	case "dup-line", "del-line", "swap-lines":
		if len(l.Lines) == 0 {
			return noop()
		}
		i := m.A % len(l.Lines)
		// Bias towards gate lines.
		if len(l.Lines) > 3 && m.B%4 != 0 {
			i = 3 + m.A%(len(l.Lines)-3)
		}
		ln := l.Lines[i]
		label := m.K
		if i < 3 {
			label += "/header"
		}
		bump := func(d int64) {
			ng, _, ok := headerInts(data, l)
			if ok && m.V&1 == 1 && i >= 3 {
				label += "+count"
				t := l.Lines[0].Tokens[0]
				// The header is in front of every gate line, so
				// offsets behind it shift uniformly.
				repl := []byte(strconv.FormatInt(ng+d, 10))
				shift := len(repl) - (t.End - t.Off)
				data = spliceBytes(data, t.Off, t.End, repl)
				for k := range l.Lines {
					if k > 0 {
						l.Lines[k].Off += shift
						l.Lines[k].End += shift
					}
				}
				ln = l.Lines[i]
			}
		}
		switch m.K {
		case "dup-line":
			bump(1)
			rec := append([]byte{}, data[ln.Off:ln.End]...)
			rec = append(rec, '\n')
			at := lineEnd(ln)
			if at == ln.End { // last line without newline
				rec = append([]byte{'\n'}, rec...)
			}
			return spliceBytes(data, at, at, rec), label
		case "del-line":
			bump(-1)
			return spliceBytes(data, ln.Off, lineEnd(ln), nil), label
		default:
			j := (i + 1 + m.B/4%3) % len(l.Lines)
			if i == j {
				return noop()
			}
			a, b := l.Lines[i], l.Lines[j]
			if a.Off > b.Off {
				a, b = b, a
			}
			var res []byte
			res = append(res, data[:a.Off]...)
			res = append(res, data[b.Off:b.End]...)
			res = append(res, data[a.End:b.Off]...)
			res = append(res, data[a.Off:a.End]...)
			res = append(res, data[b.End:]...)
			return res, label
		}
	case "ext-gates":
		ng, nw, ok := headerInts(data, l)
		if !ok || nw == 0 {
			return noop()
		}
		label := m.K
		k := 1 + m.A%3
		v := m.V >> 2
		var ext []byte
		if len(data) > 0 && data[len(data)-1] != '\n' {
			ext = append(ext, '\n')
		}
		var newWires int64
		for i := 0; i < k; i++ {
			op := int(v % 5)
			v /= 5
			in0 := int64(v % uint64(nw))
			v /= 7
			in1 := int64(v % uint64(nw))
			v /= 7
			out := int64(v % uint64(nw))
			if m.B%3 == 1 {
				out = nw + newWires
				newWires++
			}
			name := []string{"XOR", "XNOR", "AND", "OR", "INV"}[op]
			if op == 4 {
				ext = append(ext, fmt.Sprintf("1 1 %d %d %s\n", in0, out, name)...)
			} else {
				ext = append(ext, fmt.Sprintf("2 1 %d %d %d %s\n", in0, in1, out, name)...)
			}
		}
		if m.B%3 == 1 {
			label += "/new-wire"
		} else {
			label += "/old-wire"
		}
		data = append(data, ext...)
		t0, t1 := l.Lines[0].Tokens[0], l.Lines[0].Tokens[1]
		// Patch the second token first so the first one's offsets stay valid.
		if m.B%3 == 1 && m.V&2 == 2 {
			data = spliceBytes(data, t1.Off, t1.End, []byte(strconv.FormatInt(nw+newWires, 10)))
			label += "+wires"
		}
		if m.V&1 == 1 {
			data = spliceBytes(data, t0.Off, t0.End, []byte(strconv.FormatInt(ng+int64(k), 10)))
			label += "+count"
		}
		return data, label
	case "ws":
		mode := int(m.V % 9)
		label := fmt.Sprintf("%s/%d", m.K, mode)
		switch mode {
		case 0:
			return bytes.ReplaceAll(data, []byte(" "), []byte("\t")), label
		case 1:
			return bytes.ReplaceAll(data, []byte("\n"), []byte("\r\n")), label
		case 2: // no blank line after the header
			return bytes.Replace(data, []byte("\n\n"), []byte("\n"), 1), label
		case 3:
			return bytes.ReplaceAll(data, []byte("\n"), []byte("\n\n")), label
		case 4:
			return bytes.ReplaceAll(data, []byte("\n"), []byte(" \n  ")), label
		case 5: // one non-ASCII space
			i := bytes.IndexByte(data[m.A%(len(data)+1):], ' ')
			if i < 0 {
				return noop()
			}
			i += m.A % (len(data) + 1)
			return spliceBytes(data, i, i+1, []byte(" ")), label
		case 6:
			return bytes.TrimRight(data, "\n"), label
		case 7:
			return append([]byte("\n \n\t\n"), data...), label
		default:
			return bytes.ReplaceAll(data, []byte(" "), []byte("  ")), label
		}
	}
	return noop()
}

func runMalformedBristol(cs MalCase) ev.Outcome {
	if !cs.Base.consistent() {
		return ev.Outcome{Skip: "inconsistent case"}
	}
	var buf bytes.Buffer
	cs.Base.Build().MarshalBristol(&buf)
	data := buf.Bytes()
	var labels []string
	for _, m := range cs.Muts {
		var label string
		data, label = mutateBristol(data, m)
		labels = append(labels, "mut="+label)
	}
	return finish(ev.Get(prop), "bristol-malformed", "bristol", cs.Base, data, labels)
}

func TestMalformedMPCLC(t *testing.T) {
	ev.Check(t, ev.Get(prop), "mpclc-malformed", genMalformedMPCLC, runMalformedMPCLC)
}

func TestMalformedBristol(t *testing.T) {
	ev.Check(t, ev.Get(prop), "bristol-malformed", genMalformedBristol, runMalformedBristol)
}
