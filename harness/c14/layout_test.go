// layout_test.go: the harness' own readers of the two file layouts.  They do
// not share code with circuit/parser.go; they are used (a) to find field
// boundaries for structured mutations, (b) as the pre-scanner implementing the
// property's precondition "declared sizes are at most a million", and (c) to
// name the input class of a failure.
package c14

import (
	"encoding/binary"
	"math/big"
	"strings"
)

const maxDeclared = 1000000

// Field kinds of the native format.
const (
	fMagic = iota
	fNumGates
	fNumWires
	fNumInputs
	fNumOutputs
	fStrLen  // length prefix of a name or type string
	fBits    // Type.Bits of an argument
	fNumComp // number of compound members
	fOp      // gate operation byte (1 byte)
	fWire    // gate input/output wire id
)

type mField struct {
	Off  int
	Kind int
}

type mString struct {
	LenOff int // offset of the u32 length prefix
	Off    int // offset of the first content byte
	Len    int // declared length
	IsType bool
}

type mGate struct {
	Off int
	Len int // 13 or 9
}

// mLayout is what the walker found in a byte string read as the native format.
type mLayout struct {
	Fields  []mField  // every fixed-size field that is completely present
	U32     []int     // indices into Fields of the 32-bit fields
	Strings []mString // every string whose length prefix is present
	Gates   []mGate   // complete gate records with a known operation
	// HeaderOK: the five header words and all declared arguments are
	// completely present.
	HeaderOK bool
	GatesOff int    // where the gate records start (HeaderOK only)
	Rest     int    // offset of the first byte after the last complete gate record
	TooBig   string // non-empty: a declared size exceeds maxDeclared
	// AcrossBuffer is the input class of finding F10: a string is declared
	// to extend beyond the bytes a 4096-byte buffered reader holds at that
	// point although the file continues (see bufModel).
	AcrossBuffer bool
	NumGates         uint32
	NumWires         uint32
}

// bufModel tracks which part of the file a reader with a 4096-byte buffer
// (bufio's default, what every buffered file reader in Go uses) holds while the
// file is consumed sequentially: small reads refill an empty buffer with the
// next <= 4096 bytes; a read of >= 4096 bytes on an empty buffer goes directly
// to the file.  It only serves to name the input class of finding F10 and to
// keep inputs of that class out of the malformed-input units while the finding
// is open.
type bufModel struct {
	size    int
	pos     int // consumed
	fillEnd int // buffer holds [pos, fillEnd)
}

func (b *bufModel) small(n int) {
	for n > 0 {
		if b.pos == b.fillEnd {
			b.fillEnd = min(b.pos+4096, b.size)
			if b.fillEnd == b.pos {
				return
			}
		}
		k := min(n, b.fillEnd-b.pos)
		b.pos += k
		n -= k
	}
}

// str consumes a string of n bytes; it reports whether a single buffered read
// would return fewer bytes although the file has more.
func (b *bufModel) str(n int) bool {
	if n == 0 {
		return false
	}
	if b.pos == b.fillEnd {
		if n >= 4096 {
			b.pos = min(b.pos+n, b.size)
			b.fillEnd = b.pos
			return false
		}
		b.fillEnd = min(b.pos+4096, b.size)
	}
	avail := b.fillEnd - b.pos
	if n <= avail {
		b.pos += n
		return false
	}
	short := b.fillEnd < b.size
	b.small(n)
	return short
}

func walkMPCLC(data []byte) *mLayout {
	l := &mLayout{}
	pos := 0
	bm := &bufModel{size: len(data)}
	u32 := func(kind int) (uint32, bool) {
		if pos+4 > len(data) {
			return 0, false
		}
		bm.small(4)
		v := binary.BigEndian.Uint32(data[pos:])
		l.U32 = append(l.U32, len(l.Fields))
		l.Fields = append(l.Fields, mField{Off: pos, Kind: kind})
		pos += 4
		return v, true
	}
	declared := func(what string, v uint32) bool {
		if v > maxDeclared {
			l.TooBig = what
			return false
		}
		return true
	}
	var hdr [5]uint32
	for i := 0; i < 5; i++ {
		v, ok := u32(fMagic + i)
		if !ok {
			return l
		}
		hdr[i] = v
		if i > 0 && !declared([]string{"", "NumGates", "NumWires", "NumInputs", "NumOutputs"}[i], v) {
			return l
		}
	}
	l.NumGates, l.NumWires = hdr[1], hdr[2]

	str := func(isType bool) bool {
		lenOff := pos
		n, ok := u32(fStrLen)
		if !ok {
			return false
		}
		if !declared("string length", n) {
			return false
		}
		l.Strings = append(l.Strings, mString{LenOff: lenOff, Off: pos, Len: int(n), IsType: isType})
		if bm.str(int(n)) {
			l.AcrossBuffer = true
		}
		if pos+int(n) > len(data) {
			pos = len(data)
			return false
		}
		pos += int(n)
		return true
	}
	// Arguments: explicit stack instead of recursion (hostile nesting).
	pending := []uint64{uint64(hdr[3]) + uint64(hdr[4])}
	for len(pending) > 0 {
		top := len(pending) - 1
		if pending[top] == 0 {
			pending = pending[:top]
			continue
		}
		pending[top]--
		if !str(false) || !str(true) {
			return l
		}
		bits, ok := u32(fBits)
		if !ok || !declared("Bits", bits) {
			return l
		}
		nc, ok := u32(fNumComp)
		if !ok || !declared("compound count", nc) {
			return l
		}
		if nc > 0 {
			pending = append(pending, uint64(nc))
		}
	}
	l.HeaderOK = true
	l.GatesOff = pos
	l.Rest = pos
	for pos < len(data) {
		op := data[pos]
		var n int
		switch {
		case op <= 3:
			n = 13
		case op == 4:
			n = 9
		default:
			return l
		}
		if pos+n > len(data) {
			return l
		}
		l.Gates = append(l.Gates, mGate{Off: pos, Len: n})
		l.Fields = append(l.Fields, mField{Off: pos, Kind: fOp})
		for o := pos + 1; o < pos+n; o += 4 {
			l.U32 = append(l.U32, len(l.Fields))
			l.Fields = append(l.Fields, mField{Off: o, Kind: fWire})
		}
		pos += n
		l.Rest = pos
	}
	return l
}

// ---------------------------------------------------------------------------
// Bristol

type bToken struct {
	Off, End int
}

type bLine struct {
	Off, End int // End excludes the newline
	Tokens   []bToken
}

// bLayout is the line/token structure of a text; blank lines are skipped like
// every Bristol reader does.
type bLayout struct {
	Lines  []bLine // non-blank lines
	TooBig string
}

func isSpaceByte(c byte) bool {
	return c == ' ' || c == '\t' || c == '\r' || c == '\v' || c == '\f'
}

func walkBristol(data []byte) *bLayout {
	l := &bLayout{}
	pos := 0
	for pos <= len(data) {
		end := pos
		for end < len(data) && data[end] != '\n' {
			end++
		}
		var ln bLine
		ln.Off, ln.End = pos, end
		i := pos
		for i < end {
			for i < end && isSpaceByte(data[i]) {
				i++
			}
			s := i
			for i < end && !isSpaceByte(data[i]) {
				i++
			}
			if i > s {
				ln.Tokens = append(ln.Tokens, bToken{Off: s, End: i})
			}
		}
		if len(ln.Tokens) > 0 && strings.TrimSpace(string(data[pos:end])) != "" {
			l.Lines = append(l.Lines, ln)
		}
		if end >= len(data) {
			break
		}
		pos = end + 1
	}
	// Declared sizes: every token of the three header lines, and the two
	// arity tokens of every gate line.  Wire ids are not sizes.
	for li, ln := range l.Lines {
		for ti, tk := range ln.Tokens {
			if li >= 3 && ti >= 2 {
				break
			}
			if tooBigDecimal(string(data[tk.Off:tk.End])) {
				if li < 3 {
					l.TooBig = "header size"
				} else {
					l.TooBig = "gate arity"
				}
				return l
			}
		}
	}
	return l
}

// tooBigDecimal: the token contains a decimal number (optionally signed,
// possibly surrounded by other non-space characters that some integer parser
// might trim) greater than maxDeclared.  Deliberately conservative: any run of
// digits inside the token counts.
func tooBigDecimal(tok string) bool {
	i := 0
	for i < len(tok) {
		if tok[i] < '0' || tok[i] > '9' {
			i++
			continue
		}
		j := i
		for j < len(tok) && (tok[j] >= '0' && tok[j] <= '9' || tok[j] == '_') {
			j++
		}
		digits := strings.ReplaceAll(tok[i:j], "_", "")
		digits = strings.TrimLeft(digits, "0")
		if len(digits) > 7 {
			return true
		}
		if len(digits) == 7 {
			v, _ := new(big.Int).SetString(digits, 10)
			if v.Cmp(big.NewInt(maxDeclared)) > 0 {
				return true
			}
		}
		i = j
	}
	return false
}
