// oracle_test.go: guarded parser invocation (panic + hang guard), the validity
// predicate of an accepted circuit and the verdict for one byte string.
package c14

import (
	"bytes"
	"fmt"
	"os"
	"strconv"
	"strings"
	"time"

	"github.com/markkurossi/mpc/circuit"

	"verifharness/internal/ev"
)

// Signatures of the two findings the design document lists as candidates.
const (
	// F9: ParseMPCLC indexes gates[gate] without a bound.
	sigMoreGates = "mpclc/panic/more-gates-than-declared"
	// F10: parseString does a single bufio Read; a string that extends
	// beyond what the 4 KiB buffer holds at that point is cut short and
	// parsing continues misaligned (input class: mLayout.AcrossBuffer).
	sigAcrossBuffer = "mpclc/roundtrip/string-across-4KiB-buffer"
)

type parseResult struct {
	circ      *circuit.Circuit
	err       error
	panicMsg  string
	panicSite string
	stack     string
	timedOut  bool
}

func budget() time.Duration {
	if s := os.Getenv("VERIF_C14_BUDGET_MS"); s != "" {
		if n, err := strconv.Atoi(s); err == nil && n > 0 {
			return time.Duration(n) * time.Millisecond
		}
	}
	return 10 * time.Second
}

func parseDirect(format string, data []byte) (res parseResult) {
	defer func() {
		if r := recover(); r != nil {
			res.panicMsg = fmt.Sprint(r)
			res.panicSite = ev.PanicSite()
			res.stack = ev.ShortStack()
		}
	}()
	switch format {
	case "mpclc":
		res.circ, res.err = circuit.ParseMPCLC(bytes.NewReader(data))
	case "bristol":
		res.circ, res.err = circuit.ParseBristol(bytes.NewReader(data))
	default:
		panic("c14: unknown format " + format)
	}
	return res
}

func parseWithin(format string, data []byte, d time.Duration) parseResult {
	ch := make(chan parseResult, 1)
	go func() { ch <- parseDirect(format, data) }()
	tm := time.NewTimer(d)
	defer tm.Stop()
	select {
	case r := <-ch:
		return r
	case <-tm.C:
		return parseResult{timedOut: true}
	}
}

// guardedParse runs the parser under the per-case budget.  A case over budget
// is run again with three times the budget; only if that also does not finish
// is it reported as a hang.  slowOnce tells that the first run was over budget
// but the second was not.
func guardedParse(format string, data []byte) (res parseResult, slowOnce bool) {
	return guardedParseB(format, data, budget())
}

func guardedParseB(format string, data []byte, b time.Duration) (res parseResult, slowOnce bool) {
	res = parseWithin(format, data, b)
	if !res.timedOut {
		return res, false
	}
	res = parseWithin(format, data, 3*b)
	return res, !res.timedOut
}

// validate is the property's predicate for an accepted circuit: every gate
// input is an input wire or the output of an earlier gate, every wire below
// NumWires is an input or assigned by some gate, len(Gates) == NumGates.
func validate(c *circuit.Circuit) (which, detail string) {
	if c == nil {
		return "nil-circuit", "parser returned neither a circuit nor an error"
	}
	if len(c.Gates) != c.NumGates {
		return "gate-count", fmt.Sprintf("len(Gates)=%d, NumGates=%d", len(c.Gates), c.NumGates)
	}
	if c.NumWires < 0 {
		return "wire-count", fmt.Sprintf("NumWires=%d", c.NumWires)
	}
	var nin int64
	for i, a := range c.Inputs {
		if a.Type.Bits < 0 {
			return "negative-size", fmt.Sprintf("input %d has %d bits", i, a.Type.Bits)
		}
		nin += int64(a.Type.Bits)
	}
	if nin > int64(c.NumWires) {
		return "inputs-exceed-wires", fmt.Sprintf("%d input wires, NumWires=%d", nin, c.NumWires)
	}
	defined := make([]bool, c.NumWires)
	for i := int64(0); i < nin; i++ {
		defined[i] = true
	}
	nw := circuit.Wire(c.NumWires)
	for gi, g := range c.Gates {
		if g.Op > circuit.INV {
			return "bad-op", fmt.Sprintf("gate %d has operation %d", gi, g.Op)
		}
		if g.Input0 >= nw || !defined[g.Input0] {
			return "input-undefined", fmt.Sprintf("gate %d (%s): input0 wire %d is not defined before use",
				gi, g.Op, g.Input0)
		}
		if g.Op != circuit.INV && (g.Input1 >= nw || !defined[g.Input1]) {
			return "input-undefined", fmt.Sprintf("gate %d (%s): input1 wire %d is not defined before use",
				gi, g.Op, g.Input1)
		}
		if g.Output >= nw {
			return "output-out-of-range", fmt.Sprintf("gate %d: output wire %d >= NumWires %d",
				gi, g.Output, c.NumWires)
		}
		defined[g.Output] = true
	}
	for w, d := range defined {
		if !d {
			return "wire-unassigned", fmt.Sprintf("wire %d is neither an input nor assigned by a gate", w)
		}
	}
	return "", ""
}

// verdict of one byte string offered to one parser.
type verdict struct {
	Skip     string
	Sig, Err string
	Class    string // rejected | accepted
	Slow     bool
	Gates    int // records the walker saw (non-triviality)
}

func hexHead(data []byte) string {
	const max = 96
	if len(data) <= max {
		return fmt.Sprintf("%x", data)
	}
	return fmt.Sprintf("%x… (%d bytes)", data[:max], len(data))
}

// checkBytes applies the malformed-input oracle.
func checkBytes(col *ev.Collector, format string, data []byte) verdict {
	return checkBytesB(col, format, data, budget())
}

// sigNestedType: ParseMPCLC -> types.Parse needs time quadratic in the length
// of a nested array type text.
const sigNestedType = "mpclc/hang/nested-array-type-text"

func checkBytesB(col *ev.Collector, format string, data []byte, b time.Duration) verdict {
	var v verdict
	var ml *mLayout
	switch format {
	case "mpclc":
		ml = walkMPCLC(data)
		if ml.TooBig != "" {
			return verdict{Skip: "precondition: declared " + ml.TooBig + " > 10^6"}
		}
		if ml.AcrossBuffer && col.IsKnown(sigAcrossBuffer) {
			// Behind the open finding F10 the parser continues
			// misaligned and reads lengths out of string contents:
			// excluded by construction while the finding is open.
			return verdict{Skip: "input class of open finding " + sigAcrossBuffer}
		}
		if ml.HeaderOK {
			v.Gates = len(ml.Gates)
		}
	case "bristol":
		bl := walkBristol(data)
		if bl.TooBig != "" {
			return verdict{Skip: "precondition: declared " + bl.TooBig + " > 10^6"}
		}
		if len(bl.Lines) > 3 {
			v.Gates = len(bl.Lines) - 3
		}
	}
	res, slow := guardedParseB(format, data, b)
	v.Slow = slow
	switch {
	case res.timedOut:
		v.Sig = format + "/hang"
		if format == "mpclc" {
			for _, s := range ml.Strings {
				if s.IsType && s.Off+s.Len <= len(data) &&
					bytes.Count(data[s.Off:s.Off+s.Len], []byte("[")) >= 1000 {
					v.Sig = sigNestedType
				}
			}
		}
		v.Err = fmt.Sprintf("parser did not return within %v, and again not within %v on a re-run; input (%d bytes) %s",
			b, 3*b, len(data), hexHead(data))
	case res.panicMsg != "":
		v.Sig = format + "/panic/" + res.panicSite
		if format == "mpclc" && ml.HeaderOK && uint64(len(ml.Gates)) > uint64(ml.NumGates) &&
			strings.Contains(res.panicMsg, "index out of range") {
			v.Sig = sigMoreGates
		}
		v.Err = fmt.Sprintf("parser panicked: %s\n%sinput %s", res.panicMsg, res.stack, hexHead(data))
	case res.err != nil:
		v.Class = "rejected"
	default:
		if which, detail := validate(res.circ); which != "" {
			v.Sig = format + "/accepted-invalid/" + which
			v.Err = fmt.Sprintf("parser accepted the input but the circuit is not well formed: %s; input %s",
				detail, hexHead(data))
		} else {
			v.Class = "accepted"
		}
	}
	return v
}
