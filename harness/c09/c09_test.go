// C09: compiler options and targets never change a program's meaning.
package c09

import (
	"crypto/sha256"
	"fmt"
	"math/big"
	"testing"

	"github.com/markkurossi/mpc/circuit"
	"github.com/markkurossi/mpc/compiler"
	"github.com/markkurossi/mpc/compiler/utils"
	"pgregory.net/rapid"

	"verifharness/internal/ev"
	"verifharness/internal/mpcl"
)

const prop = "C09"

// Case is a program with input vectors; every configuration is tried on it.
type Case struct {
	Prog   *mpcl.Prog `json:"prog"`
	Inputs [][]string `json:"inputs"`
	// Warm, when set, is compiled (both targets) before the measured
	// program: compiler-internal caches must not leak between programs.
	Warm *mpcl.Prog `json:"warm,omitempty"`
}

// Config is one set of compiler options.
type Config struct {
	Prune     bool
	Threshold int
	Target    utils.Target
}

func (c Config) String() string {
	return fmt.Sprintf("prune=%v/mult-threshold=%d/target=%s", c.Prune, c.Threshold, c.Target)
}

var thresholds = []int{0, 8, 9, 12, 21, 64}

func configs() []Config {
	var res []Config
	for _, target := range []utils.Target{utils.TargetYao, utils.TargetGMW} {
		for _, prune := range []bool{false, true} {
			for _, th := range thresholds {
				res = append(res, Config{prune, th, target})
			}
		}
	}
	return res
}

func genCase(t *rapid.T) Case {
	o := mpcl.Opts{MaxStmts: 7, MaxDepth: 3, Helpers: 1, Arrays: true, Loops: true, DynIndex: true, ArrayParams: true, StructParams: true, Structs: true, PlainDiv: true,
		MulHeavy: rapid.IntRange(0, 9).Draw(t, "mulheavy") < 7, MaxWidth: maxWidth()}
	p := mpcl.Draw(t, o)
	// All assignments when the inputs have <= 13 bits (thorough) or <= 11
	// bits (quick), else 64 vectors.  (The property's quantifier mentions 16
	// bits; 2^16 vectors x 24 configurations per program made the thorough
	// tier exceed its time budget, so the exhaustive bound is 13 bits and
	// the case count is higher instead.)
	exh := 11
	if ev.Get(prop).Thorough() {
		exh = 13
	}
	return Case{Prog: p, Inputs: mpcl.DrawInputsN(t, p, exh, nvec())}
}

func gateHash(c *circuit.Circuit) string {
	h := sha256.New()
	for _, g := range c.Gates {
		fmt.Fprintf(h, "%d,%d,%d,%d;", g.Op, g.Input0, g.Input1, g.Output)
	}
	return fmt.Sprintf("%x", h.Sum(nil)[:8])
}

// levelsValid checks the precondition the GMW runner relies on after
// AssignLevels(TargetGMW): gates are sorted so that every gate's inputs are
// produced at a level <= its own, and an AND gate's output is only consumed
// at a strictly higher level.
func levelsValid(c *circuit.Circuit) string {
	nin := c.Inputs.Size()
	producer := make([]int, c.NumWires) // gate index + 1
	for i, g := range c.Gates {
		producer[g.Output] = i + 1
	}
	for i, g := range c.Gates {
		ins := []circuit.Wire{g.Input0}
		if g.Op != circuit.INV {
			ins = append(ins, g.Input1)
		}
		for _, w := range ins {
			if int(w) < nin {
				continue
			}
			pi := producer[w] - 1
			if pi < 0 {
				return fmt.Sprintf("gate %d reads wire %d that no gate assigns", i, w)
			}
			if pi >= i {
				return fmt.Sprintf("gate %d reads wire %d assigned by later gate %d", i, w, pi)
			}
			p := c.Gates[pi]
			if p.Level > g.Level {
				return fmt.Sprintf("gate %d (level %d) reads output of gate %d (level %d)", i, g.Level, pi, p.Level)
			}
			if p.Op == circuit.AND && p.Level >= g.Level {
				return fmt.Sprintf("gate %d (level %d) reads AND gate %d of the same level %d", i, g.Level, pi, p.Level)
			}
		}
	}
	return ""
}

func run(cs Case) ev.Outcome {
	p := cs.Prog
	src := p.Source()
	main := p.Main()

	// Reference results per input vector.
	type vec struct {
		cin    []*big.Int
		want   []*big.Int
		desc   string
		packed []*big.Int
		// divZero: the interpreter stopped at a division by zero;
		// want is the output of the first configuration.
		divZero bool
	}
	var vecs []vec
	cfgs := configs()
	if cs.Warm != nil {
		wsrc := cs.Warm.Source()
		for _, target := range []utils.Target{utils.TargetYao, utils.TargetGMW} {
			params := utils.NewParams()
			params.Target = target
			compiler.New(params).Compile(wsrc, nil)
		}
	}
	divOp := singleDivMod(p)
	knownDivErr := true // every mismatch so far is the known off-by-2 error
	hashes := map[string]bool{}
	var first *circuit.Circuit
	var failing []Config
	var firstFail string
	firstDivZero := false
	for ci, cfg := range cfgs {
		params := utils.NewParams()
		params.OptPruneGates = cfg.Prune
		params.CircMultArrayTreshold = cfg.Threshold
		params.Target = cfg.Target
		circ, _, err := compiler.New(params).Compile(src, nil)
		if err != nil {
			return ev.Fail("compile-error/"+cfg.String(), "compile error under %s: %v\n%s", cfg, err, src)
		}
		circ.AssignLevels(cfg.Target)
		if cfg.Target == utils.TargetGMW {
			if msg := levelsValid(circ); msg != "" {
				return ev.Fail("gmw-levels", "%s: %s\n%s", cfg, msg, src)
			}
		}
		hashes[gateHash(circ)] = true
		if ci == 0 {
			first = circ
			for _, in := range cs.Inputs {
				args, packed, err := mpcl.ParseInputs(p, in)
				if err != nil {
					return ev.Outcome{Skip: "bad input vector"}
				}
				want, err := p.Run(args)
				divZero := mpcl.IsDivZero(err)
				if err != nil && !divZero {
					return ev.Outcome{Skip: "interpreter: " + err.Error()}
				}
				cin, err := mpcl.CircuitInputs(circ, packed)
				if err != nil {
					return ev.Fail("io-shape", "%v\n%s", err, src)
				}
				v := vec{cin: cin, desc: fmt.Sprint(in), packed: packed}
				if divZero {
					// The language does not say what x / 0 is, the
					// property still does: every configuration computes
					// the same function.  The first configuration's
					// output is the reference for such a vector.
					ev.Get(prop).Count("input-vectors-with-division-by-zero", 1)
					v.desc += " (division by zero: reference = " + cfg.String() + ")"
					v.divZero = true
					v.want, err = circ.Compute(cin)
					if err != nil {
						return ev.Fail("compute-error", "%s: %v", cfg, err)
					}
				} else {
					for i, r := range main.Results {
						v.want = append(v.want, p.Pack(r, want[i]))
					}
				}
				vecs = append(vecs, v)
			}
		} else if circ.Inputs.Size() != first.Inputs.Size() || circ.Outputs.Size() != first.Outputs.Size() {
			return ev.Fail("signature-differs/"+cfg.String(), "%s: I/O sizes differ from the default configuration\n%s", cfg, src)
		}
	vectors:
		for _, v := range vecs {
			got, err := circ.Compute(v.cin)
			if err != nil {
				return ev.Fail("compute-error", "%s: %v", cfg, err)
			}
			for i := range v.want {
				if i >= len(got) || got[i].Cmp(v.want[i]) != 0 {
					var g string
					if i < len(got) {
						g = got[i].Text(16)
					}
					if len(failing) == 0 || failing[len(failing)-1] != cfg {
						failing = append(failing, cfg)
					}
					if firstFail == "" {
						firstFail = fmt.Sprintf("%s: inputs %s: result %d = 0x%s, reference 0x%s",
							cfg, v.desc, i, g, v.want[i].Text(16))
						firstDivZero = v.divZero
					}
					if divOp != "" && i < len(got) && cfg.Target == utils.TargetGMW {
						// One-operator division: look at every
						// mismatch and tell the known error
						// from any other.
						if !offByTwo(divOp, main.Results[0], v.packed[1], got[i], v.want[i]) {
							if knownDivErr {
								firstFail = fmt.Sprintf("%s: inputs %s: result %d = 0x%s, reference 0x%s",
									cfg, v.desc, i, g, v.want[i].Text(16))
							}
							knownDivErr = false
						}
						continue vectors
					}
					break vectors
				}
			}
		}
	}
	if len(failing) > 0 {
		gmwOnly := true
		for _, c := range failing {
			if c.Target != utils.TargetGMW {
				gmwOnly = false
			}
		}
		f := mpcl.Features(p)
		sig := "wrong-result/" + failing[0].String()
		if gmwOnly && f.Div {
			// Only GMW-target circuits disagree and the program
			// divides: the GMW target's Goldschmidt divider (see the
			// open C07 finding) is the only divider-specific code.
			sig = "gmw-only/program-has-div-or-mod"
			if divOp != "" {
				// One-operator division programs are judged
				// precisely: only "off by exactly 2" is the known
				// error.
				if knownDivErr {
					sig = "gmw-only/goldschmidt-off-by-2"
				} else {
					sig = "wrong-result/" + failing[0].String() + "/div-not-off-by-2"
				}
			}
		}
		if firstDivZero {
			sig = "differs-on-division-by-zero/" + failing[0].String()
		}
		return ev.Fail(sig, "%d of %d configurations disagree with the reference; first: %s\n%s",
			len(failing), len(cfgs), firstFail, src)
	}
	f := mpcl.Features(p)
	classes := f.Classes()
	classes = append(classes, fmt.Sprintf("distinct-gate-lists=%d", bucket(len(hashes))))
	out := ev.OK(len(hashes) >= 2, classes...)
	out.Evals = len(cfgs) * len(vecs)
	out.Sample = map[string]interface{}{"source": src, "inputs": cs.Inputs,
		"configs": len(cfgs), "distinct_gate_lists": len(hashes)}
	return out
}

func bucket(n int) int {
	switch {
	case n <= 4:
		return n
	case n <= 8:
		return 8
	default:
		return 24
	}
}

func init() { ev.Register("configs", run) }

func TestConfigs(t *testing.T) {
	ev.Check(t, ev.Get(prop), "configs", genCase, run)
}

func TestReplay(t *testing.T) { ev.Replay(t, ev.Get(prop)) }

// maxWidth bounds operand widths: GMW-target dividers and Wallace multipliers
// of 60-70 bits take seconds to build, so the quick tier stays at or below 33 bits.
func maxWidth() int {
	if ev.Get(prop).Thorough() {
		return 72
	}
	return 33
}

// nvec is the number of drawn input vectors for programs whose inputs are too
// wide for exhaustive enumeration: 64 (one simulation pass) in the thorough
// tier, 24 in the quick tier, which spends its budget on more programs.
func nvec() int {
	if ev.Get(prop).Thorough() {
		return 64
	}
	return 24
}
