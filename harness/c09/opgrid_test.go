package c09

// Unit opgrid: one-operator programs `main(a T, b T) R { return a OP b }` at
// boundary widths under all 24 configurations.  The general program generator
// (unit configs) reaches a particular (operator, width, input pattern)
// combination only now and then; this unit visits them systematically, so a
// configuration-dependent builder error (an adder stage count at a width that
// is not a power of two, a multiplier split at an odd width) does not depend on
// the luck of one seed.

import (
	"testing"

	"pgregory.net/rapid"

	"verifharness/internal/ev"
	"verifharness/internal/gen"
	"verifharness/internal/mpcl"
)

var gridOps = []string{"+", "-", "*", "/", "%", "&", "|", "^", "&^",
	"==", "!=", "<", "<=", ">", ">=", "<<", ">>", "neg", "widen", "narrow"}

// gridWidths are drawn uniformly; the thorough tier adds wide ones.
var gridWidthsQuick = []int{1, 2, 3, 5, 6, 7, 8, 9, 11, 12, 13, 15, 16, 17, 19, 21, 23, 24, 25,
	27, 29, 31, 32, 33, 37, 40, 41, 47, 48, 63, 64, 65}
var gridWidthsThorough = []int{66, 71, 72, 80, 81, 95, 96, 97, 127, 128, 129, 130}

func genGrid(t *rapid.T) Case {
	op := gridOps[gen.Uniform(t, len(gridOps), "op")]
	ws := gridWidthsQuick
	if ev.Get(prop).Thorough() {
		ws = append(append([]int{}, ws...), gridWidthsThorough...)
	}
	w := ws[gen.Uniform(t, len(ws), "width")]
	if op == "/" || op == "%" {
		// GMW dividers of 60+ bits take seconds to build (x 12
		// configurations).
		lim := 33
		if ev.Get(prop).Thorough() {
			lim = 72
		}
		for w > lim {
			w = ws[gen.Uniform(t, len(ws), "width")]
		}
	}
	if (op == "/" || op == "%") && w < 2 {
		w = 2
	}
	T := mpcl.Uint(w)
	if w >= 2 && rapid.Bool().Draw(t, "signed") {
		T = mpcl.Int(w)
	}
	a := &mpcl.Expr{Op: mpcl.EVar, T: T, Name: "a"}
	b := &mpcl.Expr{Op: mpcl.EVar, T: T, Name: "b"}
	R := T
	var e *mpcl.Expr
	switch op {
	case "==", "!=", "<", "<=", ">", ">=":
		R = mpcl.Bool()
		e = &mpcl.Expr{Op: mpcl.EBin, T: R, Name: op, A: []*mpcl.Expr{a, b}}
	case "<<", ">>":
		k := rapid.IntRange(0, w+1).Draw(t, "shift")
		e = &mpcl.Expr{Op: mpcl.EBin, T: T, Name: op, A: []*mpcl.Expr{a,
			{Op: mpcl.ELit, T: mpcl.Uint(32), Val: itoa(k)}}}
		// keep b in use: xor it in
		e = &mpcl.Expr{Op: mpcl.EBin, T: T, Name: "^", A: []*mpcl.Expr{e, b}}
	case "neg":
		e = &mpcl.Expr{Op: mpcl.EUn, T: T, Name: "-", A: []*mpcl.Expr{a}}
		e = &mpcl.Expr{Op: mpcl.EBin, T: T, Name: "^", A: []*mpcl.Expr{e, b}}
	case "widen":
		// T(a) op T(b) computed at a wider type from narrower inputs.
		nw := ws[gen.Uniform(t, len(ws), "narrowwidth")]
		if nw >= w {
			nw = (w + 1) / 2
		}
		S := mpcl.Type{K: T.K, N: nw}
		if nw < 2 {
			S = mpcl.Uint(nw)
			T = mpcl.Uint(w)
		}
		a = &mpcl.Expr{Op: mpcl.EVar, T: S, Name: "a"}
		b = &mpcl.Expr{Op: mpcl.EVar, T: S, Name: "b"}
		ca := &mpcl.Expr{Op: mpcl.ECast, T: T, A: []*mpcl.Expr{a}}
		cb := &mpcl.Expr{Op: mpcl.ECast, T: T, A: []*mpcl.Expr{b}}
		sub := []string{"+", "-", "*"}[gen.Uniform(t, 3, "widenop")]
		e = &mpcl.Expr{Op: mpcl.EBin, T: T, Name: sub, A: []*mpcl.Expr{ca, cb}}
		R = T
		p := &mpcl.Prog{Funcs: []*mpcl.Func{{Name: "main",
			Params:  []mpcl.Param{{Name: "a", T: S}, {Name: "b", T: S}},
			Results: []mpcl.Type{R},
			Body:    []*mpcl.Stmt{{K: mpcl.SReturn, Es: []*mpcl.Expr{e}}}}}}
		return Case{Prog: p, Inputs: mpcl.DrawInputsN(t, p, 10, gridVectors())}
	case "narrow":
		nw := (w + 1) / 2
		S := mpcl.Type{K: T.K, N: nw}
		if nw < 2 {
			S = mpcl.Uint(nw)
		}
		sub := []string{"+", "-", "*"}[gen.Uniform(t, 3, "narrowop")]
		e = &mpcl.Expr{Op: mpcl.EBin, T: T, Name: sub, A: []*mpcl.Expr{a, b}}
		e = &mpcl.Expr{Op: mpcl.ECast, T: S, A: []*mpcl.Expr{e}}
		R = S
	default:
		e = &mpcl.Expr{Op: mpcl.EBin, T: T, Name: op, A: []*mpcl.Expr{a, b}}
	}
	p := &mpcl.Prog{Funcs: []*mpcl.Func{{Name: "main",
		Params:  []mpcl.Param{{Name: "a", T: a.T}, {Name: "b", T: b.T}},
		Results: []mpcl.Type{R},
		Body:    []*mpcl.Stmt{{K: mpcl.SReturn, Es: []*mpcl.Expr{e}}}}}}
	return Case{Prog: p, Inputs: mpcl.DrawInputsN(t, p, 10, gridVectors())}
}

func itoa(k int) string {
	if k == 0 {
		return "0"
	}
	s := ""
	for k > 0 {
		s = string(rune('0'+k%10)) + s
		k /= 10
	}
	return s
}

// gridVectors: one-operator programs are cheap to evaluate, so they get more
// input vectors than the generated programs.
func gridVectors() int {
	if ev.Get(prop).Thorough() {
		return 128
	}
	return 48
}

func init() { ev.Register("opgrid", run) }

func TestOpGrid(t *testing.T) {
	ev.Check(t, ev.Get(prop), "opgrid", genGrid, run)
}
