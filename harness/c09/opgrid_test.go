package c09

// Unit opgrid: one-operator programs `main(a T, b T) R { return a OP b }` at
// boundary widths under all 24 configurations.  The general program generator
// (unit configs) reaches a particular (operator, width, input pattern)
// combination only now and then; this unit visits them systematically, so a
// configuration-dependent builder error (an adder stage count at a width that
// is not a power of two, a multiplier split at an odd width) does not depend on
// the luck of one seed.

import (
	"math/big"
	"testing"

	"pgregory.net/rapid"

	"verifharness/internal/ev"
	"verifharness/internal/gen"
	"verifharness/internal/mpcl"
)

var gridOps = []string{"+", "-", "*", "/", "%", "&", "|", "^", "&^",
	"==", "!=", "<", "<=", ">", ">=", "<<", ">>", "neg", "widen", "narrow"}

// gridWidths are drawn uniformly; the thorough tier adds wide ones.
var gridWidthsQuick = []int{1, 2, 3, 5, 6, 7, 8, 9, 11, 12, 13, 15, 16, 17, 19, 21, 23, 24, 25,
	27, 29, 31, 32, 33, 37, 40, 41, 47, 48, 63, 64, 65}
var gridWidthsThorough = []int{66, 71, 72, 80, 81, 95, 96, 97, 127, 128, 129, 130}

func genGrid(t *rapid.T) Case {
	p := gridProg(t)
	cs := Case{Prog: p}
	// Half of the cases compile another one-operator program first (in the
	// same process, on its own Params objects): caches inside the compiler
	// must not carry anything from one program into the next.
	if rapid.Bool().Draw(t, "warm") {
		cs.Warm = gridProg(t)
	}
	cs.Inputs = mpcl.DrawInputsN(t, p, 10, gridVectors())
	return cs
}

// gridLiterals are positive constants around the sizes a constant can have
// inside the compiler.
var gridLiterals = []string{"1", "2", "3", "5", "10", "255", "256", "65535", "65537",
	"2147483647", "2147483648", "2147483653", "4294967291", "4294967295", "4294967296",
	"4294967297", "9223372036854775808", "18446744073709551615", "18446744073709551616"}

// gridLiteral returns, one time in four, a literal of type T for the right
// operand of op (never zero), nil otherwise or when T is too narrow.
func gridLiteral(t *rapid.T, T mpcl.Type, op string, force bool) *mpcl.Expr {
	if !force && (gen.Uniform(t, 4, "literal-operand") != 0 || T.N < 3) {
		return nil
	}
	max := new(big.Int).Lsh(big.NewInt(1), uint(T.N))
	if T.Signed() {
		max.Rsh(max, 1)
	}
	var fit []string
	for _, l := range gridLiterals {
		v, _ := new(big.Int).SetString(l, 10)
		if v.Cmp(max) < 0 {
			fit = append(fit, l)
		}
	}
	// The largest ones that fit are the interesting ones.
	if len(fit) > 6 && gen.Uniform(t, 2, "literal-high") == 0 {
		fit = fit[len(fit)-6:]
	}
	return &mpcl.Expr{Op: mpcl.ELit, T: T, Val: fit[gen.Uniform(t, len(fit), "literal")]}
}

func gridProg(t *rapid.T) *mpcl.Prog {
	switch lv := gen.Uniform(t, 9, "levels"); {
	case lv < 3:
		return gridProg2(t)
	case lv < 5:
		return gridProg3(t)
	case lv < 7:
		return gridProg4(t)
	}
	op := gridOps[gen.Uniform(t, len(gridOps), "op")]
	ws := gridWidthsQuick
	if ev.Get(prop).Thorough() {
		ws = append(append([]int{}, ws...), gridWidthsThorough...)
	}
	w := ws[gen.Uniform(t, len(ws), "width")]
	if op == "/" || op == "%" {
		// GMW dividers of 60+ bits take seconds to build (x 12
		// configurations).
		lim := 33
		if ev.Get(prop).Thorough() {
			lim = 72
		}
		for w > lim {
			w = ws[gen.Uniform(t, len(ws), "width")]
		}
	}
	if (op == "/" || op == "%") && w < 2 {
		w = 2
	}
	forceLit := false
	if (op == "/" || op == "%") && gen.Uniform(t, 3, "literal-divisor") == 0 {
		// A constant divisor that is narrower than the dividend.
		forceLit = true
		w = []int{33, 33, 34, 40}[gen.Uniform(t, 4, "literal-divisor-width")]
	}
	T := mpcl.Uint(w)
	if w >= 2 && rapid.Bool().Draw(t, "signed") {
		T = mpcl.Int(w)
	}
	a := &mpcl.Expr{Op: mpcl.EVar, T: T, Name: "a"}
	b := &mpcl.Expr{Op: mpcl.EVar, T: T, Name: "b"}
	R := T
	var e *mpcl.Expr
	switch op {
	case "==", "!=", "<", "<=", ">", ">=":
		R = mpcl.Bool()
		e = &mpcl.Expr{Op: mpcl.EBin, T: R, Name: op, A: []*mpcl.Expr{a, b}}
	case "<<", ">>":
		k := rapid.IntRange(0, w+1).Draw(t, "shift")
		e = &mpcl.Expr{Op: mpcl.EBin, T: T, Name: op, A: []*mpcl.Expr{a,
			{Op: mpcl.ELit, T: mpcl.Uint(32), Val: itoa(k)}}}
		// keep b in use: xor it in
		e = &mpcl.Expr{Op: mpcl.EBin, T: T, Name: "^", A: []*mpcl.Expr{e, b}}
	case "neg":
		e = &mpcl.Expr{Op: mpcl.EUn, T: T, Name: "-", A: []*mpcl.Expr{a}}
		e = &mpcl.Expr{Op: mpcl.EBin, T: T, Name: "^", A: []*mpcl.Expr{e, b}}
	case "widen":
		// T(a) op T(b) computed at a wider type from narrower inputs.
		nw := ws[gen.Uniform(t, len(ws), "narrowwidth")]
		if nw >= w {
			nw = (w + 1) / 2
		}
		S := mpcl.Type{K: T.K, N: nw}
		if nw < 2 {
			S = mpcl.Uint(nw)
			T = mpcl.Uint(w)
		}
		a = &mpcl.Expr{Op: mpcl.EVar, T: S, Name: "a"}
		b = &mpcl.Expr{Op: mpcl.EVar, T: S, Name: "b"}
		ca := &mpcl.Expr{Op: mpcl.ECast, T: T, A: []*mpcl.Expr{a}}
		cb := &mpcl.Expr{Op: mpcl.ECast, T: T, A: []*mpcl.Expr{b}}
		sub := []string{"+", "-", "*"}[gen.Uniform(t, 3, "widenop")]
		e = &mpcl.Expr{Op: mpcl.EBin, T: T, Name: sub, A: []*mpcl.Expr{ca, cb}}
		R = T
		p := &mpcl.Prog{Funcs: []*mpcl.Func{{Name: "main",
			Params:  []mpcl.Param{{Name: "a", T: S}, {Name: "b", T: S}},
			Results: []mpcl.Type{R},
			Body:    []*mpcl.Stmt{{K: mpcl.SReturn, Es: []*mpcl.Expr{e}}}}}}
		return p
	case "narrow":
		nw := (w + 1) / 2
		S := mpcl.Type{K: T.K, N: nw}
		if nw < 2 {
			S = mpcl.Uint(nw)
		}
		sub := []string{"+", "-", "*"}[gen.Uniform(t, 3, "narrowop")]
		e = &mpcl.Expr{Op: mpcl.EBin, T: T, Name: sub, A: []*mpcl.Expr{a, b}}
		e = &mpcl.Expr{Op: mpcl.ECast, T: S, A: []*mpcl.Expr{e}}
		R = S
	default:
		e = &mpcl.Expr{Op: mpcl.EBin, T: T, Name: op, A: []*mpcl.Expr{a, b}}
		if lit := gridLiteral(t, T, op, forceLit); lit != nil {
			// A literal right operand (a constant has its own width
			// inside the compiler: 32 bits up to 2^32-1, 64 bits above);
			// b stays in use.
			e = &mpcl.Expr{Op: mpcl.EBin, T: T, Name: op, A: []*mpcl.Expr{a, lit}}
			e = &mpcl.Expr{Op: mpcl.EBin, T: T, Name: "^", A: []*mpcl.Expr{e, b}}
		}
	}
	p := &mpcl.Prog{Funcs: []*mpcl.Func{{Name: "main",
		Params:  []mpcl.Param{{Name: "a", T: a.T}, {Name: "b", T: b.T}},
		Results: []mpcl.Type{R},
		Body:    []*mpcl.Stmt{{K: mpcl.SReturn, Es: []*mpcl.Expr{e}}}}}}
	return p
}

// singleDivMod returns "/" or "%" when the program is main(a T, b T) T
// { return a / b } (or %), else "".
func singleDivMod(p *mpcl.Prog) string {
	m := p.Main()
	if len(p.Funcs) != 1 || len(m.Body) != 1 || m.Body[0].K != mpcl.SReturn || len(m.Body[0].Es) != 1 {
		return ""
	}
	e := m.Body[0].Es[0]
	if e.Op != mpcl.EBin || (e.Name != "/" && e.Name != "%") || len(e.A) != 2 ||
		e.A[0].Op != mpcl.EVar || e.A[1].Op != mpcl.EVar || !e.T.IsInt() {
		return ""
	}
	return e.Name
}

// offByTwo tells whether a wrong quotient / remainder of a one-operator
// division program is the known Goldschmidt error (open C07 finding): the
// quotient is off by exactly 2, the remainder by exactly 2*|b|, modulo 2^n.
func offByTwo(op string, T mpcl.Type, b, got, want *big.Int) bool {
	n := T.N
	mod := new(big.Int).Lsh(big.NewInt(1), uint(n))
	d := new(big.Int).Sub(got, want)
	d.Mod(d, mod)
	unit := big.NewInt(1)
	if op == "%" {
		bb := new(big.Int).Set(b)
		if T.Signed() {
			bb = mpcl.ToSigned(b, n)
		}
		unit = bb.Abs(bb)
	}
	two := new(big.Int).Lsh(unit, 1)
	two.Mod(two, mod)
	neg := new(big.Int).Sub(mod, two)
	neg.Mod(neg, mod)
	return d.Cmp(two) == 0 || d.Cmp(neg) == 0
}

func itoa(k int) string {
	if k == 0 {
		return "0"
	}
	s := ""
	for k > 0 {
		s = string(rune('0'+k%10)) + s
		k /= 10
	}
	return s
}

// gridVectors: one-operator programs are cheap to evaluate, so they get more
// input vectors than the generated programs.
func gridVectors() int {
	if ev.Get(prop).Thorough() {
		return 128
	}
	return 48
}

func init() { ev.Register("opgrid", run) }

func TestOpGrid(t *testing.T) {
	ev.Check(t, ev.Get(prop), "opgrid", genGrid, run)
}


var innerOps = []string{"+", "-", "*", "&", "|", "^"}
var outerOps = []string{"+", "-", "*", "/", "%", "&", "|", "^", "&^", "==", "!=", "<", "<=", ">", ">="}

// gridProg2 builds a two-level program: an inner operator on the inputs, a
// step that makes some bits of the intermediate value compile-time constants
// (mask with a literal, shift, narrowing followed by widening), and an outer
// operator that combines the deep, partially constant value with a shallow
// one (an input):  main(a T, b T) R { return mask(a OP1 b) OP2 b }.
func gridProg2(t *rapid.T) *mpcl.Prog {
	ws := gridWidthsQuick
	if ev.Get(prop).Thorough() {
		ws = append(append([]int{}, ws...), gridWidthsThorough...)
	}
	op1 := innerOps[gen.Uniform(t, len(innerOps), "op1")]
	op2 := outerOps[gen.Uniform(t, len(outerOps), "op2")]
	w := ws[gen.Uniform(t, len(ws), "width")]
	lim := 130
	if op2 == "/" || op2 == "%" {
		lim = 33
		if ev.Get(prop).Thorough() {
			lim = 72
		}
	}
	for w > lim || w < 2 {
		w = ws[gen.Uniform(t, len(ws), "width")]
	}
	T := mpcl.Uint(w)
	if rapid.Bool().Draw(t, "signed") {
		T = mpcl.Int(w)
	}
	a := &mpcl.Expr{Op: mpcl.EVar, T: T, Name: "a"}
	b := &mpcl.Expr{Op: mpcl.EVar, T: T, Name: "b"}
	inner := &mpcl.Expr{Op: mpcl.EBin, T: T, Name: op1, A: []*mpcl.Expr{a, b}}
	k := rapid.IntRange(1, w-1).Draw(t, "k")
	lowmask := new(big.Int).Sub(new(big.Int).Lsh(big.NewInt(1), uint(k)), big.NewInt(1))
	lit := func(v *big.Int) *mpcl.Expr { return &mpcl.Expr{Op: mpcl.ELit, T: T, Val: "0x" + v.Text(16)} }
	var masked *mpcl.Expr
	switch gen.Uniform(t, 6, "mask") {
	case 0:
		masked = &mpcl.Expr{Op: mpcl.EBin, T: T, Name: "&", A: []*mpcl.Expr{inner, lit(lowmask)}}
	case 1:
		masked = &mpcl.Expr{Op: mpcl.EBin, T: T, Name: "|", A: []*mpcl.Expr{inner, lit(lowmask)}}
	case 2:
		masked = &mpcl.Expr{Op: mpcl.EBin, T: T, Name: "<<", A: []*mpcl.Expr{inner,
			{Op: mpcl.ELit, T: mpcl.Uint(32), Val: itoa(k)}}}
	case 3:
		masked = &mpcl.Expr{Op: mpcl.EBin, T: T, Name: ">>", A: []*mpcl.Expr{inner,
			{Op: mpcl.ELit, T: mpcl.Uint(32), Val: itoa(k)}}}
	case 4:
		// narrow, then widen again (same signedness)
		S := mpcl.Type{K: T.K, N: k}
		if k < 2 {
			S = mpcl.Type{K: T.K, N: 2}
		}
		if S.N >= w {
			masked = inner
		} else {
			masked = &mpcl.Expr{Op: mpcl.ECast, T: T, A: []*mpcl.Expr{{Op: mpcl.ECast, T: S, A: []*mpcl.Expr{inner}}}}
		}
	default:
		masked = inner
	}
	shallow := b
	if rapid.Bool().Draw(t, "shallow-a") {
		shallow = a
	}
	l, r := masked, shallow
	if rapid.Bool().Draw(t, "swap") {
		l, r = shallow, masked
	}
	R := T
	switch op2 {
	case "==", "!=", "<", "<=", ">", ">=":
		R = mpcl.Bool()
	}
	e := &mpcl.Expr{Op: mpcl.EBin, T: R, Name: op2, A: []*mpcl.Expr{l, r}}
	body := []*mpcl.Stmt{{K: mpcl.SReturn, Es: []*mpcl.Expr{e}}}
	if R.K == mpcl.KBool && rapid.Bool().Draw(t, "branch") {
		// Use the comparison as a branch condition.
		R = T
		body = []*mpcl.Stmt{
			{K: mpcl.SIf, E: e, Then: []*mpcl.Stmt{{K: mpcl.SReturn, Es: []*mpcl.Expr{a}}}},
			{K: mpcl.SReturn, Es: []*mpcl.Expr{b}},
		}
	}
	return &mpcl.Prog{Funcs: []*mpcl.Func{{Name: "main",
		Params:  []mpcl.Param{{Name: "a", T: T}, {Name: "b", T: T}},
		Results: []mpcl.Type{R}, Body: body}}}
}


var elemOps = []string{"+", "-", "*", "/", "%", "&", "|", "^", "&^", "==", "!=", "<", "<=", ">", ">="}

// gridProg3 builds an aggregate-element program: one operator applied to one
// member of an array or struct parameter and an operand of another width (an
// untyped literal - 32 bits inside the compiler - or a widened / same-typed
// scalar), after which EVERY member of the aggregate is returned as well:
//
//	main(a [n]T, b T) (R, T, ..., T) { x := a[i] OP 3; return x, a[0], ..., a[n-1] }
//
// A builder that extends, pads or truncates its operand slices in place is
// harmless for a scalar operand and damages the neighbours of an aggregate
// member (seeded change C09-seed4-c09-3, which the general generator reaches
// only in the thorough tier).
func gridProg3(t *rapid.T) *mpcl.Prog {
	op := elemOps[gen.Uniform(t, len(elemOps), "op")]
	var w int
	switch gen.Uniform(t, 4, "wclass") {
	case 0:
		w = []int{8, 16, 32, 64}[gen.Uniform(t, 4, "w")]
	case 1:
		w = rapid.IntRange(2, 31).Draw(t, "w")
	case 2:
		w = rapid.IntRange(2, 16).Draw(t, "w")
	default:
		w = []int{31, 33, 40, 63, 65}[gen.Uniform(t, 5, "w")]
	}
	if (op == "/" || op == "%") && w > 33 {
		w = 33
	}
	T := mpcl.Uint(w)
	if rapid.Bool().Draw(t, "signed") {
		T = mpcl.Int(w)
	}
	n := rapid.IntRange(2, 5).Draw(t, "members")
	i := gen.Uniform(t, n, "member")
	p := &mpcl.Prog{}
	var AT mpcl.Type
	member := func(k int) *mpcl.Expr {
		return &mpcl.Expr{Op: mpcl.EIndex, T: T, Idx: k, A: []*mpcl.Expr{{Op: mpcl.EVar, T: AT, Name: "a"}}}
	}
	if rapid.Bool().Draw(t, "struct") {
		sd := mpcl.StructDef{Name: "S0"}
		for k := 0; k < n; k++ {
			sd.Fields = append(sd.Fields, mpcl.Field{Name: "F" + itoa(k), T: T})
		}
		p.Structs = []mpcl.StructDef{sd}
		AT = mpcl.Type{K: mpcl.KStruct, S: "S0"}
		member = func(k int) *mpcl.Expr {
			return &mpcl.Expr{Op: mpcl.EField, T: T, Name: "F" + itoa(k), A: []*mpcl.Expr{{Op: mpcl.EVar, T: AT, Name: "a"}}}
		}
	} else {
		AT = mpcl.Array(n, T)
	}
	b := &mpcl.Expr{Op: mpcl.EVar, T: T, Name: "b"}
	// The other operand.
	var rhs *mpcl.Expr
	switch k := gen.Uniform(t, 5, "rhs"); {
	case k < 3 || op == "/" || op == "%":
		// untyped literal that fits T as a non-negative value
		maxBits := w
		if T.Signed() {
			maxBits = w - 1
		}
		if maxBits > 31 {
			maxBits = 31
		}
		v := rapid.IntRange(1, 1<<uint(maxBits)-1).Draw(t, "lit")
		if rapid.Bool().Draw(t, "smalllit") {
			v = 1 + v%7
			if v > 1<<uint(maxBits)-1 {
				v = 1
			}
		}
		rhs = &mpcl.Expr{Op: mpcl.ELit, T: T, Val: itoa(v)}
	case k == 3:
		rhs = b
	default:
		rhs = member((i + 1) % n)
	}
	l, r := member(i), rhs
	if op != "/" && op != "%" && rapid.Bool().Draw(t, "swap") {
		l, r = rhs, member(i)
	}
	R := T
	switch op {
	case "==", "!=", "<", "<=", ">", ">=":
		R = mpcl.Bool()
	}
	e := &mpcl.Expr{Op: mpcl.EBin, T: R, Name: op, A: []*mpcl.Expr{l, r}}
	body := []*mpcl.Stmt{{K: mpcl.SDefine, Name: "x", E: e}}
	rets := []*mpcl.Expr{{Op: mpcl.EVar, T: R, Name: "x"}}
	results := []mpcl.Type{R}
	for k := 0; k < n; k++ {
		rets = append(rets, member(k))
		results = append(results, T)
	}
	// keep b in use
	rets = append(rets, b)
	results = append(results, T)
	body = append(body, &mpcl.Stmt{K: mpcl.SReturn, Es: rets})
	p.Funcs = []*mpcl.Func{{Name: "main",
		Params:  []mpcl.Param{{Name: "a", T: AT}, {Name: "b", T: T}},
		Results: results, Body: body}}
	return p
}


var pairOps = []string{"/", "%", "/", "%", "*", "+", "-", "<", "==", ">>"}

// gridProg4 applies the same operator at two widths in one program, in either
// order:
//
//	main(a T, b T) (S, T) { x := S(a) OP S(b); y := a OP b; return x, y }
//
// Builders keep per-compilation state (constant wires, tables, scratch
// vectors); what the first instance leaves behind must not reach the second one
// (seeded change C09-seed8-c09-1: a cached all-zero vector modified in place by
// the GMW divider of the narrower division).
func gridProg4(t *rapid.T) *mpcl.Prog {
	op := pairOps[gen.Uniform(t, len(pairOps), "op")]
	lim := 65
	if op == "/" || op == "%" {
		lim = 24
		if ev.Get(prop).Thorough() {
			lim = 48
		}
	}
	w := rapid.IntRange(3, lim).Draw(t, "w")
	nw := rapid.IntRange(2, w-1).Draw(t, "nw")
	signed := rapid.Bool().Draw(t, "signed")
	T, S := mpcl.Uint(w), mpcl.Uint(nw)
	if signed {
		T, S = mpcl.Int(w), mpcl.Int(nw)
	}
	a := &mpcl.Expr{Op: mpcl.EVar, T: T, Name: "a"}
	b := &mpcl.Expr{Op: mpcl.EVar, T: T, Name: "b"}
	cast := func(e *mpcl.Expr) *mpcl.Expr { return &mpcl.Expr{Op: mpcl.ECast, T: S, A: []*mpcl.Expr{e}} }
	apply := func(R mpcl.Type, l, r *mpcl.Expr) (*mpcl.Expr, mpcl.Type) {
		switch op {
		case "<", "==":
			return &mpcl.Expr{Op: mpcl.EBin, T: mpcl.Bool(), Name: op, A: []*mpcl.Expr{l, r}}, mpcl.Bool()
		case ">>":
			k := rapid.IntRange(0, R.N).Draw(t, "shift")
			e := &mpcl.Expr{Op: mpcl.EBin, T: R, Name: op, A: []*mpcl.Expr{l,
				{Op: mpcl.ELit, T: mpcl.Uint(32), Val: itoa(k)}}}
			return &mpcl.Expr{Op: mpcl.EBin, T: R, Name: "^", A: []*mpcl.Expr{e, r}}, R
		case "/", "%":
			// keep the divisor non-zero: (r | 1)
			one := &mpcl.Expr{Op: mpcl.ELit, T: R, Val: "1"}
			d := &mpcl.Expr{Op: mpcl.EBin, T: R, Name: "|", A: []*mpcl.Expr{r, one}}
			return &mpcl.Expr{Op: mpcl.EBin, T: R, Name: op, A: []*mpcl.Expr{l, d}}, R
		}
		return &mpcl.Expr{Op: mpcl.EBin, T: R, Name: op, A: []*mpcl.Expr{l, r}}, R
	}
	en, RN := apply(S, cast(a), cast(b))
	ew, RW := apply(T, a, b)
	sn := &mpcl.Stmt{K: mpcl.SDefine, Name: "x", E: en}
	sw := &mpcl.Stmt{K: mpcl.SDefine, Name: "y", E: ew}
	body := []*mpcl.Stmt{sn, sw}
	if rapid.Bool().Draw(t, "widefirst") {
		body = []*mpcl.Stmt{sw, sn}
	}
	body = append(body, &mpcl.Stmt{K: mpcl.SReturn, Es: []*mpcl.Expr{
		{Op: mpcl.EVar, T: RN, Name: "x"}, {Op: mpcl.EVar, T: RW, Name: "y"}}})
	return &mpcl.Prog{Funcs: []*mpcl.Func{{Name: "main",
		Params:  []mpcl.Param{{Name: "a", T: T}, {Name: "b", T: T}},
		Results: []mpcl.Type{RN, RW}, Body: body}}}
}
