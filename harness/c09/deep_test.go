package c09

// Unit deep: a program whose GMW circuit is deeper than 65535 AND levels (a
// subtractive loop, about 25 levels per round).  Level numbers are only used by
// the GMW target (gate order, communication rounds); they must not wrap or
// saturate in a narrow integer.  The program is compiled for Yao and for GMW
// with pruning off and on; the GMW level order is validated and all three
// circuits are evaluated against the loop executed in Go.

import (
	"fmt"
	"math/big"
	"testing"

	"github.com/markkurossi/mpc/compiler"
	"github.com/markkurossi/mpc/compiler/utils"

	"verifharness/internal/ev"
)

// DeepCase is the number of loop rounds.
type DeepCase struct {
	Rounds int `json:"rounds"`
}

func deepSource(rounds int) string {
	return fmt.Sprintf(`package main

func main(a uint8, b uint8) uint8 {
	for i := 0; i < %d; i++ {
		if a > b {
			a = a - b
		} else {
			b = b - a
		}
	}
	return a + b
}
`, rounds)
}

func deepRef(a, b uint8, rounds int) uint8 {
	for i := 0; i < rounds; i++ {
		if a > b {
			a = a - b
		} else {
			b = b - a
		}
	}
	return a + b
}

func runDeep(cs DeepCase) ev.Outcome {
	if cs.Rounds < 1 || cs.Rounds > 12000 {
		return ev.Outcome{Skip: "malformed case"}
	}
	src := deepSource(cs.Rounds)
	inputs := [][2]uint8{{0, 0}, {1, 255}, {255, 1}, {240, 36}, {97, 13}, {128, 127}, {200, 200}, {3, 250}}
	levels := 0
	evals := 0
	for _, cfg := range []Config{{Target: utils.TargetYao}, {Target: utils.TargetGMW}, {Target: utils.TargetGMW, Prune: true}} {
		params := utils.NewParams()
		params.OptPruneGates = cfg.Prune
		params.Target = cfg.Target
		circ, _, err := compiler.New(params).Compile(src, nil)
		if err != nil {
			return ev.Fail("deep/compile-error/"+cfg.String(), "%d rounds, %s: %v", cs.Rounds, cfg, err)
		}
		circ.AssignLevels(cfg.Target)
		if cfg.Target == utils.TargetGMW {
			if msg := levelsValid(circ); msg != "" {
				return ev.Fail("deep/gmw-levels", "%d rounds, %s: %s", cs.Rounds, cfg, msg)
			}
			for _, g := range circ.Gates {
				if int(g.Level) > levels {
					levels = int(g.Level)
				}
			}
		}
		for _, in := range inputs {
			got, err := circ.Compute([]*big.Int{big.NewInt(int64(in[0])), big.NewInt(int64(in[1]))})
			if err != nil {
				return ev.Fail("deep/compute-error", "%s: %v", cfg, err)
			}
			evals++
			if want := deepRef(in[0], in[1], cs.Rounds); len(got) != 1 || got[0].Int64() != int64(want) {
				return ev.Fail("deep/wrong-result/"+cfg.String(), "%d rounds, %s: main(%d, %d) = %v, the loop gives %d",
					cs.Rounds, cfg, in[0], in[1], got, want)
			}
		}
	}
	cl := fmt.Sprintf("deep:gmw-levels<=65535 (%d)", levels)
	if levels > 65535 {
		cl = "deep:gmw-levels>65535"
	}
	out := ev.OK(levels > 65535, cl)
	out.Evals = evals
	return out
}

func init() { ev.Register("deep", runDeep) }

func TestDeep(t *testing.T) {
	col := ev.Get(prop)
	ev.Each(t, col, "deep", func(yield func(DeepCase) bool) {
		rounds := []int{7600}
		if col.Thorough() {
			rounds = []int{7200, 7300, 7600, 9000}
		}
		for _, r := range rounds {
			if !yield(DeepCase{Rounds: r}) {
				return
			}
		}
	}, runDeep)
}
