package c12

import (
	"fmt"
	"math/big"
	"testing"

	"pgregory.net/rapid"

	"verifharness/internal/ev"
)

// SharedCase: one numeric constant used with two different declared types in
// one program.  Constants are identified by their value in the compiler
// (ssa.Value.Name = "$<value>") and carry their own bit size next to the
// declared type, so the two uses can interfere.  Each use alone passes the
// operand check of the fold unit (otherwise the case is skipped: that is the
// signature operand/...).
type SharedCase struct {
	V      Lit      `json:"v"`
	Kind1  string   `json:"kind1"`
	Bits1  int      `json:"bits1"`
	Kind2  string   `json:"kind2"`
	Bits2  int      `json:"bits2"`
	Cons   string   `json:"cons"` // consumer: + ^ <
	Define bool     `json:"define"`
	// Helper: the constant reaches its consumer through a helper with an
	// unsized parameter, `func h(x uint) uint { return x <Helper> x }`,
	// which is instantiated once per call: the same expression is folded
	// with two constants of equal value and different width.
	Helper string `json:"helper,omitempty"`
	Z      []string `json:"z"`
	W      []string `json:"w"`
}

func init() { ev.Register("shared", runShared) }

func (cs SharedCase) sources() (pconst, prun string) {
	t1, t2 := typeName(cs.Kind1, cs.Bits1), typeName(cs.Kind2, cs.Bits2)
	r1, r2 := t1, t2
	if cs.Cons == "<" {
		r1, r2 = "bool", "bool"
	}
	c1, c2 := spellAs(cs.V, t1), spellAs(cs.V, t2)
	if cs.Helper != "" {
		h := fmt.Sprintf("func h(x %s) %s {\n\treturn x %s x\n}\n", cs.Kind1, cs.Kind1, cs.Helper)
		pconst = fmt.Sprintf("package main\n%sfunc main(z %s, w %s) (%s, %s) {\n\treturn h(%s) %s z, h(%s) %s w\n}\n",
			h, t1, t2, r1, r2, c1, cs.Cons, c2, cs.Cons)
		prun = fmt.Sprintf("package main\n%sfunc main(x1 %s, x2 %s, z %s, w %s) (%s, %s) {\n\treturn h(x1) %s z, h(x2) %s w\n}\n",
			h, t1, t2, t1, t2, r1, r2, cs.Cons, cs.Cons)
		return
	}
	if cs.Define {
		pconst = fmt.Sprintf("package main\nfunc main(z %s, w %s) (%s, %s) {\n\ta := %s\n\tb := %s\n\treturn a %s z, b %s w\n}\n",
			t1, t2, r1, r2, c1, c2, cs.Cons, cs.Cons)
	} else {
		pconst = fmt.Sprintf("package main\nfunc main(z %s, w %s) (%s, %s) {\n\treturn %s %s z, %s %s w\n}\n",
			t1, t2, r1, r2, c1, cs.Cons, c2, cs.Cons)
	}
	prun = fmt.Sprintf("package main\nfunc main(x1 %s, x2 %s, z %s, w %s) (%s, %s) {\n\treturn x1 %s z, x2 %s w\n}\n",
		t1, t2, t1, t2, r1, r2, cs.Cons, cs.Cons)
	return
}

func runShared(cs SharedCase) ev.Outcome {
	col := ev.Get(prop)
	for _, t := range [][2]interface{}{{cs.Kind1, cs.Bits1}, {cs.Kind2, cs.Bits2}} {
		probe := Case{Op: "lit", Kind: t[0].(string), Bits: t[1].(int), A: cs.V, Bind: "inline"}
		// operandCheck looks at the operands of a binary operator: use
		// "+" with the constant on both sides.
		probe.Op, probe.B = "+", cs.V
		fail, reject := probe.operandCheck()
		if fail != nil {
			return ev.Outcome{Skip: "constant alone is a known operand defect"}
		}
		if reject != "" {
			return ev.Outcome{Skip: "constant rejected"}
		}
	}
	pconst, prun := cs.sources()
	pr := compileRun(prun)
	if pr.err != "" || pr.panic != "" {
		col.Note("shared: P_run does not compile: %s%s\n%s", pr.err, pr.panic, prun)
		return ev.Outcome{Skip: "P_run does not compile"}
	}
	sig := fmt.Sprintf("shared/%s,%s/%s", widthClass(cs.Bits1), widthClass(cs.Bits2),
		coarseSign(cs.V, cs.Kind1, cs.Bits1))
	pc := compile(pconst)
	if pc.panic != "" {
		return ev.Fail("foldpanic/"+panicSite(pc.panic)+"/shared", "compiler panics: %s\n%s", pc.panic, pconst)
	}
	if cs.Helper != "" {
		if cs.Kind1 != "uint" || cs.Kind2 != "uint" {
			return ev.Outcome{Skip: "the helper form is generated for unsigned types"}
		}
		sig += "/helper"
	}
	classes := []string{"cons=" + consName(cs.Cons),
		"widths=" + widthClass(cs.Bits1) + "," + widthClass(cs.Bits2),
		"sign=" + coarseSign(cs.V, cs.Kind1, cs.Bits1)}
	if pc.err != "" {
		return ev.OK(false, append(classes, "rejected")...)
	}
	v := parse(cs.V.V)
	evals := 0
	for i := range cs.Z {
		in := []*big.Int{pattern(parse(cs.Z[i]), cs.Bits1), pattern(parse(cs.W[i]), cs.Bits2)}
		got, err := compute(pc, in)
		if err != nil {
			return ev.Fail(sig, "Compute(P_const): %v\n%s", err, pconst)
		}
		want, err := compute(pr, append([]*big.Int{pattern(v, cs.Bits1), pattern(v, cs.Bits2)}, in...))
		if err != nil {
			return ev.Outcome{Skip: "Compute(P_run) failed"}
		}
		evals++
		for k := range want {
			if k >= len(got) || got[k].Cmp(want[k]) != 0 {
				out := ev.Fail(sig, "result %d: z=%s w=%s: P_const gives %v, P_run(x1=x2=%s) gives %v\n%s",
					k, in[0], in[1], got, cs.V.V, want, pconst)
				out.Evals = evals
				return out
			}
		}
	}
	out := ev.OK(true, classes...)
	out.Evals = evals
	out.Sample = map[string]interface{}{"case": cs, "p_const": pconst}
	return out
}

// helperValue is v <op> v in uintN arithmetic.
func helperValue(op string, v *big.Int, bits int) *big.Int {
	r := new(big.Int)
	switch op {
	case "*":
		r.Mul(v, v)
	case "+":
		r.Add(v, v)
	case "&", "|":
		r.Set(v)
	}
	return pattern(r, bits)
}

func consName(c string) string {
	switch c {
	case "+":
		return "add"
	case "^":
		return "xor"
	}
	return "lt"
}

func genShared(t *rapid.T) SharedCase {
	var cs SharedCase
	cs.Kind1 = rapid.SampledFrom([]string{"int", "uint"}).Draw(t, "kind1")
	cs.Kind2 = rapid.SampledFrom([]string{"int", "uint"}).Draw(t, "kind2")
	cs.Bits1 = drawWidth(t, "bits1")
	cs.Bits2 = drawWidth(t, "bits2")
	// The value must be representable in both types: draw it in the
	// intersection of the ranges.
	kind, bits := cs.Kind1, cs.Bits1
	mn1, mx1 := minMax(cs.Kind1, cs.Bits1)
	mn2, mx2 := minMax(cs.Kind2, cs.Bits2)
	v := drawValue(t, kind, bits, "v")
	if v.Cmp(mn2) < 0 || v.Cmp(mx2) > 0 {
		// Fold into the second range (constructive, no rejection).
		span := new(big.Int).Sub(mx2, mn2)
		span.Add(span, big.NewInt(1))
		v = new(big.Int).Mod(v, span)
		v.Add(v, mn2)
		if v.Cmp(mn1) < 0 {
			v.Set(mn1)
		}
		if v.Cmp(mx1) > 0 {
			v.Set(mx1)
		}
		if v.Cmp(mn2) < 0 || v.Cmp(mx2) > 0 {
			v.SetInt64(0)
		}
	}
	cs.V = Lit{V: v.String(), Neg: "cast", Hex: rapid.IntRange(0, 4).Draw(t, "hex") == 0}
	cs.Cons = rapid.SampledFrom([]string{"+", "^", "<"}).Draw(t, "cons")
	cs.Define = rapid.Bool().Draw(t, "define")
	for i := 0; i < 3; i++ {
		cs.Z = append(cs.Z, wrap(drawBits(t, cs.Bits1, "z"), cs.Kind1, cs.Bits1).String())
		cs.W = append(cs.W, wrap(drawBits(t, cs.Bits2, "w"), cs.Kind2, cs.Bits2).String())
	}
	cs.Z[0], cs.W[0] = "0", "0"
	if cs.Kind1 == "uint" && cs.Kind2 == "uint" && cs.Bits1 != cs.Bits2 && rapid.IntRange(0, 1).Draw(t, "helper") == 0 {
		cs.Helper = rapid.SampledFrom([]string{"*", "*", "*", "+", "+", "&", "|", "^", "-"}).Draw(t, "helperop")
		if rapid.Bool().Draw(t, "helpercmp") {
			// Additive consumers of a wrongly typed result are
			// rejected by the compiler; a comparison shows its value.
			cs.Cons = "<"
		}
		// Consumer operands around the helper's result at either width,
		// so that a comparison tells the two apart.
		for _, bits := range []int{cs.Bits1, cs.Bits2} {
			r := helperValue(cs.Helper, v, bits)
			for d := int64(0); d <= 1; d++ {
				x := new(big.Int).Add(r, big.NewInt(d))
				cs.Z = append(cs.Z, pattern(x, cs.Bits1).String())
				cs.W = append(cs.W, pattern(x, cs.Bits2).String())
			}
		}
	}
	return cs
}

func TestShared(t *testing.T) {
	ev.Check(t, ev.Get(prop), "shared", genShared, runShared)
}
