package c12

import (
	"fmt"
	"math/big"
	"os"
	"sort"
	"strings"
	"testing"

	"pgregory.net/rapid"

	"verifharness/internal/ev"
)

// gridValues returns the small boundary set used by the enumeration.
func gridValues(kind string, bits int, full bool) []*big.Int {
	mn, mx := minMax(kind, bits)
	one := big.NewInt(1)
	cand := []*big.Int{new(big.Int), one, big.NewInt(3), mx, mn, big.NewInt(-1),
		big.NewInt(-5)}
	if full {
		cand = append(cand, big.NewInt(2), big.NewInt(7), big.NewInt(-7),
			new(big.Int).Sub(mx, one), new(big.Int).Add(mn, one),
			pow2(31), new(big.Int).Sub(pow2(32), one), pow2(63),
			new(big.Int).Sub(pow2(64), one), new(big.Int).Neg(pow2(31)),
			new(big.Int).Neg(pow2(32)), new(big.Int).Neg(pow2(63)))
	}
	if kind == "uint" {
		cand = append(cand, pow2(bits-1))
	}
	var res []*big.Int
	seen := map[string]bool{}
	for _, c := range cand {
		if c.Cmp(mn) < 0 || c.Cmp(mx) > 0 || seen[c.String()] {
			continue
		}
		seen[c.String()] = true
		res = append(res, c)
	}
	return res
}

func fixedRuntime(cs *Case, salt int) {
	rk, rb := cs.resultType()
	if rk == "bool" {
		for i := 0; i < 4; i++ {
			cs.Z = append(cs.Z, fmt.Sprint((37*i+salt)%256))
			cs.W = append(cs.W, fmt.Sprint((91*i+3*salt+1)%256))
			cs.Q = append(cs.Q, i%2 == 0)
		}
		return
	}
	mn, mx := minMax(rk, rb)
	alt := new(big.Int)
	for i := 0; i < rb; i += 2 {
		alt.SetBit(alt, i, 1)
	}
	fixed := []*big.Int{new(big.Int), big.NewInt(1), mx, mn, wrap(big.NewInt(-1), rk, rb),
		wrap(alt, rk, rb), wrap(big.NewInt(int64(salt)*2654435761+12345), rk, rb)}
	for i, f := range fixed {
		cs.Z = append(cs.Z, f.String())
		cs.W = append(cs.W, fixed[(i+3)%len(fixed)].String())
	}
}

// gridCases enumerates operator x signedness x width x boundary operand
// values (all pairs) with all contexts; spelling dimensions rotate.
func gridCases(widths []int, full, allCtx bool, yield func(Case) bool) {
	shard, nshards := ev.Shard()
	idx := 0
	emit := func(cs Case) {
		idx++
		if idx%nshards != shard {
			return
		}
		cs.Bind = binds[idx%len(binds)]
		cs.Res = ress[(idx/3)%len(ress)]
		if allCtx {
			cs.Ctxs = []string{"*"}
		} else {
			names := cs.ctxNames()
			for i := 0; i < 2; i++ {
				cs.Ctxs = append(cs.Ctxs, names[(idx+i*7)%len(names)])
			}
			nn := cs.numNames()
			cs.Ctxs = append(cs.Ctxs, nn[(idx/2)%len(nn)])
		}
		rk, rb := cs.resultType()
		mv := meetValues(rk, rb)
		cs.C = Lit{V: mv[(idx/5)%len(mv)].String()}
		fixedRuntime(&cs, idx)
		yield(cs)
	}
	lit := func(v *big.Int, kind string, bits, n int) Lit {
		l := Lit{V: v.String(), Hex: n%5 == 4}
		if v.Sign() < 0 {
			l.Neg = negSpelling(kind, bits, v, n)
		}
		return l
	}
	for _, bits := range widths {
		for _, kind := range []string{"int", "uint"} {
			vals := gridValues(kind, bits, full)
			for _, opn := range intOps {
				op := ops[opn]
				for ai, a := range vals {
					base := Case{Op: opn, Kind: kind, Bits: bits,
						A: lit(a, kind, bits, idx+ai)}
					switch {
					case opn == "cast":
						for _, d := range []int{-9, -1, 1, 31, 40} {
							b2 := bits + d
							if b2 < 1 || b2 > 130 {
								continue
							}
							for _, k2 := range []string{"int", "uint"} {
								if d > 0 && kind == "int" && k2 == "uint" {
									continue
								}
								cs := base
								cs.Kind2, cs.Bits2 = k2, b2
								emit(cs)
							}
						}
					case op.shift:
						for _, k := range []int{0, 1, bits - 1, bits, bits + 1} {
							if k < 0 {
								continue
							}
							cs := base
							cs.B = Lit{V: fmt.Sprint(k)}
							emit(cs)
						}
					case op.unary:
						emit(base)
					default:
						for bi, b := range vals {
							cs := base
							cs.B = lit(b, kind, bits, idx+bi+1)
							emit(cs)
						}
					}
				}
			}
		}
	}
	for _, opn := range boolOps {
		for a := 0; a < 2; a++ {
			for b := 0; b < 2; b++ {
				if ops[opn].unary && b == 1 {
					continue
				}
				for range binds {
					emit(Case{Op: opn, Kind: "bool", Bits: 1,
						A: Lit{V: fmt.Sprint(a)}, B: Lit{V: fmt.Sprint(b)}})
				}
			}
		}
	}
}

// TestGrid is the enumerated unit.
func TestGrid(t *testing.T) {
	col := ev.Get(prop)
	widths := []int{1, 8, 32, 33, 64, 65}
	full := false
	if col.N(1, 2) >= 2 {
		widths = widthTable
		full = true
	}
	ev.Each(t, col, "fold", func(yield func(Case) bool) {
		gridCases(widths, full, false, yield)
	}, run)
	col.Note("grid sub-run: operators x {int,uint} x widths %v x all pairs of boundary operand values x all contexts", widths)
}

// TestSurvey (development aid, C12_SURVEY=<out file>): lists every failing
// signature of the grid with a count and one example.
func TestSurvey(t *testing.T) {
	path := os.Getenv("C12_SURVEY")
	if path == "" {
		t.Skip("C12_SURVEY not set")
	}
	widths := []int{1, 8, 32, 33, 64, 65, 128}
	if os.Getenv("C12_SURVEY_FULL") != "" {
		widths = widthTable
	}
	count := map[string]int{}
	example := map[string]string{}
	total := 0
	gridCases(widths, os.Getenv("C12_SURVEY_FULL") != "", true, func(cs Case) bool {
		total++
		var fails []ev.Outcome
		func() {
			defer func() {
				if r := recover(); r != nil {
					fails = []ev.Outcome{ev.Fail("panic-in-harness", "%v", r)}
				}
			}()
			fails, _ = evaluate(cs)
		}()
		for _, f := range fails {
			count[f.Sig]++
			if _, ok := example[f.Sig]; !ok {
				example[f.Sig] = f.Err
			}
		}
		return true
	})
	var sigs []string
	for s := range count {
		sigs = append(sigs, s)
	}
	sort.Strings(sigs)
	var sb strings.Builder
	fmt.Fprintf(&sb, "# %d cases, %d signatures\n", total, len(sigs))
	for _, s := range sigs {
		fmt.Fprintf(&sb, "%s\t%d\n", s, count[s])
	}
	os.WriteFile(path, []byte(sb.String()), 0o644)
	sb.Reset()
	for _, s := range sigs {
		fmt.Fprintf(&sb, "=== %s (%d)\n%s\n", s, count[s], example[s])
	}
	os.WriteFile(path+".examples", []byte(sb.String()), 0o644)
}

// TestSurveyRandom (development aid, C12_SURVEY=<out file>): runs the rapid
// generators of both units without failing and lists every signature seen.
func TestSurveyRandom(t *testing.T) {
	path := os.Getenv("C12_SURVEY")
	if path == "" {
		t.Skip("C12_SURVEY not set")
	}
	count := map[string]int{}
	example := map[string]string{}
	total := 0
	rapid.Check(t, func(rt *rapid.T) {
		total++
		var fails []ev.Outcome
		if total%8 == 0 {
			cs := genShared(rt)
			if out := runShared(cs); out.Err != "" {
				fails = []ev.Outcome{out}
			}
		} else {
			cs := genCase(rt)
			func() {
				defer func() {
					if r := recover(); r != nil {
						fails = []ev.Outcome{ev.Fail("panic-in-harness", "%v", r)}
					}
				}()
				fails, _ = evaluate(cs)
			}()
		}
		for _, f := range fails {
			count[f.Sig]++
			if _, ok := example[f.Sig]; !ok {
				example[f.Sig] = f.Err
			}
		}
	})
	var sigs []string
	for s := range count {
		sigs = append(sigs, s)
	}
	sort.Strings(sigs)
	var sb strings.Builder
	fmt.Fprintf(&sb, "# %d cases, %d signatures\n", total, len(sigs))
	for _, s := range sigs {
		fmt.Fprintf(&sb, "%s\t%d\n", s, count[s])
	}
	os.WriteFile(path, []byte(sb.String()), 0o644)
	sb.Reset()
	for _, s := range sigs {
		fmt.Fprintf(&sb, "=== %s (%d)\n%s\n", s, count[s], example[s])
	}
	os.WriteFile(path+".examples", []byte(sb.String()), 0o644)
}
