package c12

import (
	"fmt"
	"os"
	"testing"
	"time"
)

func TestTiming(t *testing.T) {
	if os.Getenv("C12_TIMING") == "" {
		t.Skip()
	}
	for _, bits := range []int{8, 32, 64, 65, 130} {
		for _, op := range []string{"+", "*", "/", "<"} {
			cs := Case{Op: op, Kind: "int", Bits: bits, A: Lit{V: "-1", Neg: "cast"}, B: Lit{V: "1"}, Bind: "inline", Res: "define"}
			fixedRuntime(&cs, 1)
			t0 := time.Now()
			evaluate(cs)
			d1 := time.Since(t0)
			t0 = time.Now()
			cs.A.V = "0"
			evaluate(cs)
			fmt.Fprintf(os.Stderr, "TIMING bits=%d op=%s first=%v second(cached prun)=%v\n", bits, op, d1, time.Since(t0))
		}
	}
}
