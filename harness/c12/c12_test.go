// C12: constant folding equals circuit evaluation.
//
// One case = one operator applied to typed constants (the operands, each
// representable in its declared type, spelled the way MPCL users spell typed
// constants) consumed by every context of a fixed list.  For each context two
// programs are compiled with the same compiler: P_const (operator over the
// constants; the only input is the run-time value z used by the context) and
// P_run (same text, but the operands arrive as the run-time inputs x, y of
// the same types).  For all z of a boundary set
//
//	Compute(P_const)(z) == Compute(P_run)(a, b, z)
//
// must hold.  Both sides are outputs of the same back end, so only folding
// can make them differ.  The SSA listing of P_const is used to confirm that
// folding happened (the operator's instruction is gone); otherwise the
// context is booked as not_folded and compared under a separate signature
// prefix (nofold/): it is not evidence for the property.  A compile error on
// P_const is a clean rejection (counted); a Go panic is a violation.
package c12

import (
	"fmt"
	"math/big"
	"os"
	"runtime"
	"sort"
	"strings"
	"sync"
	"testing"

	"github.com/markkurossi/mpc/circuit"
	"github.com/markkurossi/mpc/compiler"
	"github.com/markkurossi/mpc/compiler/utils"
	"pgregory.net/rapid"

	"verifharness/internal/ev"
)

const prop = "C12"

// Lit is one constant operand.
type Lit struct {
	// V is the mathematical value (decimal, may be negative); for bool
	// operands "0" or "1".
	V string `json:"v"`
	// Neg tells how a negative value is spelled: "cast" = T(-k),
	// "unary" = -T(k).
	Neg string `json:"neg,omitempty"`
	// Hex spells the magnitude as a hexadecimal literal.
	Hex bool `json:"hex,omitempty"`
}

// Case is one operator over typed constants.
type Case struct {
	// Op: + - * / % & | ^ &^ << >> < <= > >= == != && || neg not cast
	Op   string `json:"op"`
	Kind string `json:"kind"` // int | uint | bool
	Bits int    `json:"bits"`
	// Cast target (Op == "cast").
	Kind2 string `json:"kind2,omitempty"`
	Bits2 int    `json:"bits2,omitempty"`
	A     Lit    `json:"a"`
	// B is the second operand; for << and >> the (untyped) shift count.
	B Lit `json:"b"`
	// Bind: how the operands are bound: inline | define (a := T(lit)) |
	// const (package level untyped const, T(ca)) | tconst (package level
	// typed const) | vardecl (var a T = T(lit)).
	Bind string `json:"bind"`
	// Res: how the folded value is bound: inline | define (e := ..) |
	// var (var e T = ..).
	Res string `json:"res"`
	// Z are the run-time values of z (decimal, bit patterns of the result
	// type), W those of the second run-time value, Q of the bool one.
	Z []string `json:"z"`
	W []string `json:"w"`
	Q []bool   `json:"q"`
	// Ctxs lists the consuming contexts to evaluate besides "ret" (which
	// is always evaluated); ["*"] = all contexts of the result type.
	Ctxs []string `json:"ctxs"`
	// C is the constant (of the result type) that the folded value meets
	// in the consumers clt, cge, ceq, cdiv, cmod, cand.
	C Lit `json:"c"`
	// probe marks the internal re-evaluation of a folded consumer.
	probe bool
}

func init() { ev.Register("fold", run) }

// ---------------------------------------------------------------------------
// Types and values.

func typeName(kind string, bits int) string {
	if kind == "bool" {
		return "bool"
	}
	return fmt.Sprintf("%s%d", kind, bits)
}

func pow2(n int) *big.Int { return new(big.Int).Lsh(big.NewInt(1), uint(n)) }

func minMax(kind string, bits int) (*big.Int, *big.Int) {
	switch kind {
	case "int":
		return new(big.Int).Neg(pow2(bits - 1)), new(big.Int).Sub(pow2(bits-1), big.NewInt(1))
	case "uint":
		return new(big.Int), new(big.Int).Sub(pow2(bits), big.NewInt(1))
	}
	return new(big.Int), big.NewInt(1)
}

func parse(s string) *big.Int {
	v, ok := new(big.Int).SetString(s, 10)
	if !ok {
		panic("bad number " + s)
	}
	return v
}

// pattern returns the bits-wide two's complement bit pattern of v.
func pattern(v *big.Int, bits int) *big.Int {
	return new(big.Int).And(v, new(big.Int).Sub(pow2(bits), big.NewInt(1)))
}

// wrap reduces v to the value range of the type.
func wrap(v *big.Int, kind string, bits int) *big.Int {
	p := pattern(v, bits)
	if kind == "int" && p.Bit(bits-1) == 1 {
		p.Sub(p, pow2(bits))
	}
	return p
}

func widthClass(bits int) string {
	switch {
	case bits <= 32:
		return "le32"
	case bits <= 64:
		return "33..64"
	}
	return "gt64"
}

func signClass(l Lit, kind string, bits int) string {
	if kind == "bool" {
		if l.V == "1" {
			return "true"
		}
		return "false"
	}
	v := parse(l.V)
	mn, _ := minMax(kind, bits)
	switch {
	case v.Sign() == 0:
		return "zero"
	case v.Sign() < 0 && v.Cmp(mn) == 0:
		if l.Neg == "unary" {
			return "umin"
		}
		return "min"
	case v.Sign() < 0:
		if l.Neg == "unary" {
			return "uneg"
		}
		return "neg"
	case kind == "uint" && v.Bit(bits-1) == 1:
		return "top"
	}
	return "pos"
}

// spell renders the literal as a typed constant expression.
func spell(l Lit, kind string, bits int) string {
	if kind == "bool" {
		if l.V == "1" {
			return "true"
		}
		return "false"
	}
	return spellAs(l, typeName(kind, bits))
}

func magnitude(l Lit) (string, bool) {
	v := parse(l.V)
	neg := v.Sign() < 0
	v.Abs(v)
	if l.Hex {
		return "0x" + v.Text(16), neg
	}
	return v.String(), neg
}

func spellAs(l Lit, tn string) string {
	m, neg := magnitude(l)
	if !neg {
		return fmt.Sprintf("%s(%s)", tn, m)
	}
	if l.Neg == "unary" {
		return fmt.Sprintf("-%s(%s)", tn, m)
	}
	return fmt.Sprintf("%s(-%s)", tn, m)
}

// untyped renders the literal without its type (package level const).
func untyped(l Lit) string {
	m, neg := magnitude(l)
	if neg {
		return "-" + m
	}
	return m
}

// ---------------------------------------------------------------------------
// Operators.

type opInfo struct {
	name   string   // used in signatures
	ssa    []string // SSA opcodes of the run-time instruction
	result string   // "same" | "bool" | "cast"
	unary  bool
	shift  bool
	bool   bool // operands are bool
}

var ops = map[string]opInfo{
	"+":    {name: "add", ssa: []string{"iadd", "uadd"}, result: "same"},
	"-":    {name: "sub", ssa: []string{"isub", "usub"}, result: "same"},
	"*":    {name: "mul", ssa: []string{"imult", "umult"}, result: "same"},
	"/":    {name: "div", ssa: []string{"idiv", "udiv"}, result: "same"},
	"%":    {name: "mod", ssa: []string{"imod", "umod"}, result: "same"},
	"&":    {name: "and", ssa: []string{"band"}, result: "same"},
	"|":    {name: "or", ssa: []string{"bor"}, result: "same"},
	"^":    {name: "xor", ssa: []string{"bxor"}, result: "same"},
	"&^":   {name: "andnot", ssa: []string{"bclr"}, result: "same"},
	"<<":   {name: "shl", ssa: []string{"lshift"}, result: "same", shift: true},
	">>":   {name: "shr", ssa: []string{"rshift", "srshift"}, result: "same", shift: true},
	"<":    {name: "lt", ssa: []string{"ilt", "ult"}, result: "bool"},
	"<=":   {name: "le", ssa: []string{"ile", "ule"}, result: "bool"},
	">":    {name: "gt", ssa: []string{"igt", "ugt"}, result: "bool"},
	">=":   {name: "ge", ssa: []string{"ige", "uge"}, result: "bool"},
	"==":   {name: "eq", ssa: []string{"eq"}, result: "bool"},
	"!=":   {name: "ne", ssa: []string{"neq"}, result: "bool"},
	"neg":  {name: "neg", ssa: []string{"isub", "usub"}, result: "same", unary: true},
	"not":  {name: "not", ssa: []string{"not"}, result: "bool", unary: true, bool: true},
	"&&":   {name: "land", ssa: []string{"and"}, result: "bool", bool: true},
	"||":   {name: "lor", ssa: []string{"or"}, result: "bool", bool: true},
	"cast": {name: "cast", ssa: []string{"mov", "smov"}, result: "cast", unary: true},
	// lit: the typed constant itself (T(k), T(-k), -T(k)) handed to the
	// consumer; the folded operators are the unary minus and the cast of
	// the spelling.
	"lit": {name: "lit", result: "same", unary: true},
}

var intOps = []string{"+", "-", "*", "/", "%", "&", "|", "^", "&^", "<<", ">>",
	"<", "<=", ">", ">=", "==", "!=", "neg", "cast", "lit"}
var boolOps = []string{"==", "!=", "not", "&&", "||"}

// Contexts consuming the folded value e.  %e is replaced by the value's
// spelling, z/w are run-time values of e's type, q a run-time bool.
type ctxInfo struct {
	name string
	ret  string // result type: "T" (type of e), "bool", "W" (wider type)
	body string // statements, newline separated, using %e
}

var intCtx = []ctxInfo{
	{"ret", "T", "return %e"},
	{"add", "T", "return %e + z"},
	{"radd", "T", "return z + %e"},
	{"sub", "T", "return %e - z"},
	{"rsub", "T", "return z - %e"},
	{"mul", "T", "return %e * z"},
	{"div", "T", "return %e / (z | 1)"},
	{"mod", "T", "return %e % (z | 1)"},
	{"lt", "bool", "return %e < z"},
	{"rlt", "bool", "return z < %e"},
	{"ge", "bool", "return %e >= z"},
	{"eq", "bool", "return %e == z"},
	{"shr", "T", "return %e >> 1"},
	{"shl", "T", "return %e << 1"},
	{"band", "T", "return %e & z"},
	{"xor", "T", "return %e ^ z"},
	{"if", "T", "if %e < z {\n\t\treturn z\n\t}\n\treturn w"},
	{"widen", "W", "return %W(%e) + v"},
	// The folded value meets another constant (%c, %d = non-zero): the
	// whole expression is folded, the compiler reads e as a number.
	{"clt", "bool", "return %e < %c"},
	{"cge", "bool", "return %e >= %c"},
	{"ceq", "bool", "return %e == %c"},
	// ... and an untyped constant (%u).
	{"ult", "bool", "return %e < %u"},
	{"uge", "bool", "return %e >= %u"},
	{"ueq", "bool", "return %e == %u"},
	{"cdiv", "T", "return %e / %d"},
	{"cmod", "T", "return %e % %d"},
	// The compiler itself uses the folded value as a number: constant
	// shift count, constant array index.  No P_run exists for these
	// (MPCL has no run-time shift counts): the oracle is the math/big
	// model of the operator.
	{"cntshr", "N", "return n >> %e"},
	{"cntshl", "N", "return n << %e"},
	{"index", "I", "return arr[%e]"},
}

var boolCtx = []ctxInfo{
	{"ret", "bool", "return %e"},
	{"if", "U", "if %e {\n\t\treturn z\n\t}\n\treturn w"},
	{"phi", "U", "var r uint8 = w\n\tif %e {\n\t\tr = z + 1\n\t}\n\treturn r"},
	{"not", "bool", "return !%e"},
	{"and", "bool", "return %e && q"},
	{"or", "bool", "return %e || q"},
	{"eq", "bool", "return %e == q"},
	{"ceq", "bool", "return %e == %c"},
	{"cand", "bool", "return %e && %c"},
}

// ctxGroup: "" = run-time consumer of the original list, "const" = the
// folded value meets another constant, "num" = the compiler uses the folded
// value as a number (shift count, array index).
func ctxGroup(name string) string {
	switch name {
	case "clt", "cge", "ceq", "cdiv", "cmod", "cand", "ult", "uge", "ueq":
		return "const"
	case "cntshr", "cntshl", "index":
		return "num"
	}
	return ""
}

const indexLen = 8

// resultType returns kind and width of the operator's result.
func (cs Case) resultType() (string, int) {
	switch ops[cs.Op].result {
	case "bool":
		return "bool", 1
	case "cast":
		return cs.Kind2, cs.Bits2
	}
	return cs.Kind, cs.Bits
}

// ---------------------------------------------------------------------------
// Program text.

// sources returns the text of P_const and P_run for one context.
func (cs Case) sources(cx ctxInfo) (pconst, prun string) {
	op := ops[cs.Op]
	tn := typeName(cs.Kind, cs.Bits)
	rk, rb := cs.resultType()
	rtn := typeName(rk, rb)
	wide := typeName(rk, rb+7)

	var globals, binds []string
	var a, b string
	operand := func(name string, l Lit) string {
		switch cs.Bind {
		case "define":
			binds = append(binds, fmt.Sprintf("%s := %s", name, spell(l, cs.Kind, cs.Bits)))
			return name
		case "vardecl":
			binds = append(binds, fmt.Sprintf("var %s %s = %s", name, tn, spell(l, cs.Kind, cs.Bits)))
			return name
		case "const":
			if cs.Kind == "bool" {
				globals = append(globals, fmt.Sprintf("const c%s = %s", name, spell(l, cs.Kind, cs.Bits)))
				return "c" + name
			}
			if m, neg := magnitude(l); neg && l.Neg == "unary" {
				globals = append(globals, fmt.Sprintf("const c%s = %s", name, m))
				return fmt.Sprintf("-%s(c%s)", tn, name)
			}
			globals = append(globals, fmt.Sprintf("const c%s = %s", name, untyped(l)))
			return fmt.Sprintf("%s(c%s)", tn, name)
		case "tconst":
			if cs.Kind == "bool" {
				globals = append(globals, fmt.Sprintf("const c%s bool = %s", name, spell(l, cs.Kind, cs.Bits)))
			} else if m, neg := magnitude(l); neg && l.Neg == "unary" {
				globals = append(globals, fmt.Sprintf("const c%s %s = %s", name, tn, m))
				return "-c" + name
			} else {
				globals = append(globals, fmt.Sprintf("const c%s %s = %s", name, tn, untyped(l)))
			}
			return "c" + name
		}
		return spell(l, cs.Kind, cs.Bits)
	}
	a = operand("a", cs.A)
	expr := func(a, b string) string {
		switch {
		case cs.Op == "neg":
			return "-" + a
		case cs.Op == "not":
			return "!" + a
		case cs.Op == "lit":
			return a
		case cs.Op == "cast":
			return fmt.Sprintf("%s(%s)", rtn, a)
		case op.shift:
			return fmt.Sprintf("%s %s %s", a, cs.Op, cs.B.V)
		}
		return fmt.Sprintf("%s %s %s", a, cs.Op, b)
	}
	if !op.unary && !op.shift {
		b = operand("b", cs.B)
	}
	cexpr := expr(a, b)
	rexpr := expr("x", "y")

	body := func(e string, binds []string) string {
		lines := append([]string{}, binds...)
		ref := "e"
		res := cs.Res
		if res == "var" && ctxGroup(cx.name) == "num" {
			// A variable is not a constant shift count / index.
			res = "inline"
		}
		switch res {
		case "define":
			lines = append(lines, "e := "+e)
		case "var":
			lines = append(lines, fmt.Sprintf("var e %s = %s", rtn, e))
		default:
			ref = "(" + e + ")"
		}
		txt := strings.ReplaceAll(cx.body, "%e", ref)
		txt = strings.ReplaceAll(txt, "%W", wide)
		if strings.Contains(txt, "%c") || strings.Contains(txt, "%d") || strings.Contains(txt, "%u") {
			c := cs.C
			if c.V == "" {
				c.V = "1"
			}
			txt = strings.ReplaceAll(txt, "%c", spell(c, rk, rb))
			txt = strings.ReplaceAll(txt, "%u", untyped(c))
			if parse(c.V).Sign() == 0 {
				c.V = "1"
			}
			txt = strings.ReplaceAll(txt, "%d", spell(c, rk, rb))
		}
		lines = append(lines, txt)
		return "\t" + strings.Join(lines, "\n\t") + "\n"
	}

	// Run-time parameters of the context.
	var params, ret string
	if rk == "bool" {
		params = "z uint8, w uint8, q bool"
	} else {
		params = fmt.Sprintf("z %s, w %s, v %s", rtn, rtn, wide)
	}
	switch cx.ret {
	case "N":
		params, ret = "n uint64", "uint64"
	case "I":
		params, ret = fmt.Sprintf("arr [%d]uint8", indexLen), "uint8"
	case "T":
		ret = rtn
	case "W":
		ret = wide
	case "U":
		ret = "uint8"
	default:
		ret = "bool"
	}
	var rparams string
	if op.unary || op.shift {
		rparams = fmt.Sprintf("x %s, ", tn)
	} else {
		rparams = fmt.Sprintf("x %s, y %s, ", tn, tn)
	}

	var g string
	if len(globals) > 0 {
		g = strings.Join(globals, "\n") + "\n"
	}
	pconst = fmt.Sprintf("package main\n%sfunc main(%s) %s {\n%s}\n",
		g, params, ret, body(cexpr, binds))
	prun = fmt.Sprintf("package main\nfunc main(%s%s) %s {\n%s}\n",
		rparams, params, ret, body(rexpr, nil))
	return
}

// ---------------------------------------------------------------------------
// Compilation.

type compiled struct {
	circ  *circuit.Circuit
	ops   map[string]int // SSA opcode -> count
	err   string
	panic string
}

var (
	runCacheMu sync.Mutex
	runCache   = map[string]*compiled{}
)

func compile(src string) (res *compiled) {
	res = &compiled{}
	defer func() {
		if r := recover(); r != nil {
			res.panic = fmt.Sprintf("%v\n%s", r, stack())
		}
	}()
	params := utils.NewParams()
	defer params.Close()
	prog, _, err := compiler.New(params).CompileSSA("c12.mpcl",
		strings.NewReader(src), nil)
	if err != nil {
		res.err = err.Error()
		return
	}
	res.ops = map[string]int{}
	for _, st := range prog.Steps {
		res.ops[st.Instr.Op.String()]++
	}
	circ, err := prog.CompileCircuit(params)
	if err != nil {
		res.err = "circuit: " + err.Error()
		return
	}
	res.circ = circ
	return
}

func compileRun(src string) *compiled {
	runCacheMu.Lock()
	c, ok := runCache[src]
	runCacheMu.Unlock()
	if ok {
		return c
	}
	c = compile(src)
	runCacheMu.Lock()
	if len(runCache) >= 300 {
		// Bounded: wide division circuits are megabytes each.
		runCache = map[string]*compiled{}
	}
	runCache[src] = c
	runCacheMu.Unlock()
	return c
}

func stack() string {
	pcs := make([]uintptr, 48)
	n := runtime.Callers(3, pcs)
	frames := runtime.CallersFrames(pcs[:n])
	var sb strings.Builder
	count := 0
	for {
		fr, more := frames.Next()
		if strings.Contains(fr.Function, "markkurossi/mpc") {
			file := fr.File
			if i := strings.Index(file, "/compiler/"); i >= 0 {
				file = file[i+1:]
			}
			fmt.Fprintf(&sb, "  %s (%s:%d)\n", fr.Function, file, fr.Line)
			count++
		}
		if !more || count >= 8 {
			break
		}
	}
	return sb.String()
}

func panicSite(st string) string {
	for _, line := range strings.Split(st, "\n") {
		line = strings.TrimSpace(line)
		if strings.Contains(line, "markkurossi/mpc") {
			fn := strings.Fields(line)[0]
			if i := strings.LastIndex(fn, "/"); i >= 0 {
				fn = fn[i+1:]
			}
			return fn
		}
	}
	return "unknown"
}

func compute(c *compiled, in []*big.Int) (res []*big.Int, err error) {
	defer func() {
		if r := recover(); r != nil {
			err = fmt.Errorf("panic in Compute: %v", r)
		}
	}()
	return c.circ.Compute(in)
}

// ---------------------------------------------------------------------------
// Reference model of the operator (only used to tell which side is wrong and
// to count disagreements of P_run with math/big; never a verdict).

func model(cs Case) *big.Int {
	op := ops[cs.Op]
	a := parse(cs.A.V)
	var b *big.Int
	if !op.unary {
		b = parse(cs.B.V)
	}
	bi := func(c bool) *big.Int {
		if c {
			return big.NewInt(1)
		}
		return new(big.Int)
	}
	rk, rb := cs.resultType()
	var r *big.Int
	switch cs.Op {
	case "+":
		r = new(big.Int).Add(a, b)
	case "-":
		r = new(big.Int).Sub(a, b)
	case "*":
		r = new(big.Int).Mul(a, b)
	case "/":
		if b.Sign() == 0 {
			return nil
		}
		r = new(big.Int).Quo(a, b)
	case "%":
		if b.Sign() == 0 {
			return nil
		}
		// testsuite/lang/modi.mpcl: |a| mod |b|
		r = new(big.Int).Rem(new(big.Int).Abs(a), new(big.Int).Abs(b))
	case "&":
		r = new(big.Int).And(a, b)
	case "|":
		r = new(big.Int).Or(a, b)
	case "^":
		r = new(big.Int).Xor(a, b)
	case "&^":
		r = new(big.Int).AndNot(a, b)
	case "<<":
		r = new(big.Int).Lsh(a, uint(b.Int64()))
	case ">>":
		r = new(big.Int).Rsh(a, uint(b.Int64()))
	case "<":
		return bi(a.Cmp(b) < 0)
	case "<=":
		return bi(a.Cmp(b) <= 0)
	case ">":
		return bi(a.Cmp(b) > 0)
	case ">=":
		return bi(a.Cmp(b) >= 0)
	case "==":
		return bi(a.Cmp(b) == 0)
	case "!=":
		return bi(a.Cmp(b) != 0)
	case "neg":
		r = new(big.Int).Neg(a)
	case "not":
		return bi(a.Sign() == 0)
	case "&&":
		return bi(a.Sign() != 0 && b.Sign() != 0)
	case "||":
		return bi(a.Sign() != 0 || b.Sign() != 0)
	case "cast", "lit":
		r = a
	}
	return pattern(wrap(r, rk, rb), rb)
}

// ---------------------------------------------------------------------------
// run.

// coarseSign maps an operand to the class used in signatures: neg (minimum
// and both spellings included); top (unsigned, most significant bit of the
// type set); msb (non-negative value whose constant has the most significant
// bit of its own 32/64/minimal size set although the type is wider: bit
// length exactly 32 in a type above 32 bits, exactly 64 in a type above 64
// bits, or above 64); pos (all other non-negative values, zero included).
func coarseSign(l Lit, kind string, bits int) string {
	switch c := signClass(l, kind, bits); c {
	case "neg", "min", "uneg", "umin":
		return "neg"
	case "top", "true", "false":
		return c
	}
	switch n := parse(l.V).BitLen(); {
	case n > 64, n == 64 && bits > 64, n == 32 && bits > 32:
		return "msb"
	}
	return "pos"
}

// ctxClass groups the consuming contexts: value (the folded value is
// already wrong when returned as is); shape (the low N bits are right but a
// consumer that looks at the constant as a number of its type - comparison,
// division, modulo, or the folded consumers >> 1, << 1, widening cast - sees
// another number); wrap (run-time consumers that depend on the low N bits
// only); bool (consumers of a folded boolean).
func ctxClass(name string, boolResult bool) string {
	switch name {
	case "cntshr", "cntshl":
		return "shiftcount"
	case "index":
		return "index"
	}
	if boolResult {
		return "bool"
	}
	switch name {
	case "clt", "cge", "ceq", "cdiv", "cmod", "ult", "uge", "ueq":
		return "shape"
	case "lt", "rlt", "ge", "eq", "if", "div", "mod", "shr", "shl", "widen":
		return "shape"
	case "add", "radd", "sub", "rsub", "mul", "xor", "band":
		return "wrap"
	}
	return name
}

// worstSign returns the operand class of the case for signatures: the
// "worst" class among the operands in the order neg > top > msb > pos.
func (cs Case) worstSign() string {
	op := ops[cs.Op]
	classes := []string{coarseSign(cs.A, cs.Kind, cs.Bits)}
	if !op.unary && !op.shift {
		classes = append(classes, coarseSign(cs.B, cs.Kind, cs.Bits))
	}
	if cs.Kind == "bool" {
		return strings.Join(classes, ",")
	}
	for _, want := range []string{"neg", "top", "msb"} {
		for _, c := range classes {
			if c == want {
				return want
			}
		}
	}
	return "pos"
}

func (cs Case) signature(ctx string) string {
	op := ops[cs.Op]
	kind := cs.Kind
	wc := widthClass(cs.Bits)
	if kind == "bool" {
		wc = "1"
	}
	signs := cs.worstSign()
	switch {
	case cs.Op == "cast":
		// Casts: direction and target kind instead of the operand
		// class (the combinations are rare events otherwise).
		dir := "widen"
		if cs.Bits2 < cs.Bits {
			dir = "narrow"
		}
		signs = fmt.Sprintf("%s-%s", dir, cs.Kind2)
	case op.shift:
		if parse(cs.B.V).Int64() >= int64(cs.Bits) {
			signs += ",k>=N"
		}
	}
	return fmt.Sprintf("%s/%s/%s/%s/%s", op.name, kind, wc, signs, ctx)
}

type ctxResult struct {
	name   string
	class  string // overrides ctxClass(name) in the signature
	folded bool
	diff   string // description of the first differing z, "" = equal
	reject string
	panic  string
	evals  int
	valueZ string
}

// chained tells whether the consumer is folded itself when e is constant.
func chained(ctx string) bool {
	return ctx == "shr" || ctx == "shl" || ctx == "widen" || ctxGroup(ctx) == "const"
}

func (cs Case) contexts() []ctxInfo {
	rk, _ := cs.resultType()
	list := intCtx
	if rk == "bool" {
		list = boolCtx
	}
	if cs.Op == "lit" && !cs.probe {
		// T(k) >> 1 is the case (>>, k, 1): no chained consumers.
		var l []ctxInfo
		for _, c := range list {
			if !chained(c.name) {
				l = append(l, c)
			}
		}
		list = l
	}
	if len(cs.Ctxs) == 1 && cs.Ctxs[0] == "*" {
		return list
	}
	var res []ctxInfo
	for _, c := range list {
		want := c.name == "ret"
		for _, n := range cs.Ctxs {
			want = want || n == c.name
		}
		if want {
			res = append(res, c)
		}
	}
	return res
}

func run(cs Case) ev.Outcome {
	fails, out := evaluate(cs)
	if len(fails) > 0 {
		// Report the first failure that is not a known finding, so that
		// the search continues behind the known ones.
		col := ev.Get(prop)
		pick := fails[0]
		for _, f := range fails {
			if !col.IsKnown(f.Sig) {
				pick = f
				break
			}
		}
		return pick
	}
	return out
}

// operandCheck compiles "return <operand>" for every integer operand with the
// case's binding style and compares with the operand's value.  It returns a
// failure (signature operand/...), a rejection text, or neither.
func (cs Case) operandCheck() (fail *ev.Outcome, reject string) {
	op := ops[cs.Op]
	if cs.Kind == "bool" {
		return nil, ""
	}
	lits := []Lit{cs.A}
	if !op.unary && !op.shift {
		lits = append(lits, cs.B)
	}
	for _, l := range lits {
		probe := Case{Op: "lit", Kind: cs.Kind, Bits: cs.Bits, A: l, Bind: cs.Bind,
			Res: "inline"}
		src, _ := probe.sources(intCtx[0])
		pc := compileRun(src)
		if pc.panic != "" {
			f := ev.Fail(fmt.Sprintf("foldpanic/%s/lit/%s/%s", panicSite(pc.panic),
				cs.Kind, widthClass(cs.Bits)), "compiler panics on %s\n%s", src, pc.panic)
			return &f, ""
		}
		if pc.err != "" {
			return nil, pc.err
		}
		zero := new(big.Int)
		got, err := compute(pc, []*big.Int{zero, zero, zero})
		want := pattern(parse(l.V), cs.Bits)
		if err != nil || len(got) != 1 || got[0].Cmp(want) != 0 {
			f := ev.Fail(fmt.Sprintf("operand/%s/%s/%s", cs.Kind, widthClass(cs.Bits),
				signClass(l, cs.Kind, cs.Bits)),
				"the typed constant does not read back as its value: want %s (bit pattern of %s), got %v (%v)\n%s",
				want, l.V, got, err, src)
			return &f, ""
		}
	}
	return nil, ""
}

// consumerBroken tells whether the (folded) consumer context fails in the
// same way when it is applied to the correct constant, spelled as a literal.
func (cs Case) consumerBroken(ctx, value string) bool {
	if value == "" {
		return false
	}
	rk, rb := cs.resultType()
	l := Lit{V: value, Neg: "cast"}
	v := parse(value)
	_, mx := minMax(rk, rb)
	if v.Sign() < 0 && new(big.Int).Neg(v).Cmp(mx) <= 0 {
		l.Neg = "unary"
	}
	probe := Case{Op: "lit", Kind: rk, Bits: rb, A: l, Bind: "inline", Res: cs.Res,
		Z: cs.Z, W: cs.W, Q: cs.Q, C: cs.C, Ctxs: []string{ctx}, probe: true}
	fails, _ := evaluateOp(probe, false)
	return len(fails) > 0
}

// evalNumber evaluates a consumer in which the compiler itself uses the folded
// value as a number (constant shift count, constant array index) against the
// math/big model of the operator.  Only unsigned results and non-negative
// signed results of non-negative operands are used.
func (cs Case) evalNumber(cx ctxInfo) (ctxResult, bool) {
	res := ctxResult{name: cx.name, folded: true}
	rk, rb := cs.resultType()
	if rk == "bool" || cs.Bind == "vardecl" || (cs.Kind == "int" && cs.worstSign() != "pos") {
		return res, false
	}
	m := model(cs)
	if m == nil {
		return res, false
	}
	k := wrap(m, rk, rb)
	if k.Sign() < 0 {
		return res, false
	}
	pconst, _ := cs.sources(cx)
	valid := k.BitLen() < 32
	if cx.name == "index" {
		valid = k.Cmp(big.NewInt(indexLen)) < 0
	}
	pc := compile(pconst)
	switch {
	case pc.panic != "":
		res.panic = pc.panic + "program:\n" + pconst
		return res, true
	case pc.err != "":
		if !valid {
			res.reject = pc.err
			return res, true
		}
		res.class = ctxClass(cx.name, false) + "-rejected"
		res.diff = fmt.Sprintf("the folded value is %s, a valid constant %s, but the program is rejected: %s\nP_const:\n%s",
			k, ctxClass(cx.name, false), pc.err, pconst)
		return res, true
	}
	if !valid {
		// Accepted although out of range: implementation defined.
		return res, false
	}
	mask64 := new(big.Int).Sub(pow2(64), big.NewInt(1))
	for i := 0; i < 3 && i < len(cs.Z); i++ {
		var in, want *big.Int
		switch cx.name {
		case "cntshr":
			in = pattern(new(big.Int).Mul(parse(cs.Z[i]), big.NewInt(0x9e3779b97f4a7c15>>1)), 64)
			in.SetBit(in, 63, 1)
			want = new(big.Int).Rsh(in, uint(k.Int64()))
		case "cntshl":
			in = pattern(new(big.Int).Mul(parse(cs.Z[i]), big.NewInt(0x9e3779b97f4a7c15>>1)), 64)
			in.SetBit(in, 0, 1)
			if k.Int64() >= 64 {
				want = new(big.Int)
			} else {
				want = new(big.Int).Lsh(in, uint(k.Int64()))
				want.And(want, mask64)
			}
		default:
			in = new(big.Int)
			for e := 0; e < indexLen; e++ {
				in.Or(in, new(big.Int).Lsh(big.NewInt(int64(0x11*(e+1)+i)), uint(8*e)))
			}
			want = big.NewInt(int64(0x11*(int(k.Int64())+1) + i))
		}
		got, err := compute(pc, []*big.Int{in})
		res.evals++
		if err != nil || len(got) != 1 || got[0].Cmp(want) != 0 {
			res.diff = fmt.Sprintf("input %s: P_const gives %v (%v), the model (folded value %s) gives %s\nP_const:\n%s",
				in, got, err, k, want, pconst)
			break
		}
	}
	return res, true
}

// evaluate runs all contexts of the case and returns every failure (one per
// failing context) or, when there is none, the passing outcome.
func evaluate(cs Case) ([]ev.Outcome, ev.Outcome) {
	return evaluateOp(cs, true)
}

func evaluateOp(cs Case, checkOperands bool) ([]ev.Outcome, ev.Outcome) {
	col := ev.Get(prop)
	op, ok := ops[cs.Op]
	if !ok {
		return nil, ev.Outcome{Skip: "unknown operator"}
	}
	rk, rb := cs.resultType()
	if checkOperands && cs.Op != "lit" {
		fail, reject := cs.operandCheck()
		if fail != nil {
			return []ev.Outcome{*fail}, ev.Outcome{}
		}
		if reject != "" {
			col.Count("rejected_operand", 1)
			return nil, ev.OK(false, "op="+op.name, "bind="+cs.Bind, "operand-rejected")
		}
	}

	// Run-time inputs of the operands.
	var opIn []*big.Int
	opIn = append(opIn, pattern(parse(cs.A.V), cs.Bits))
	if !op.unary && !op.shift {
		opIn = append(opIn, pattern(parse(cs.B.V), cs.Bits))
	}
	divZero := (cs.Op == "/" || cs.Op == "%") && parse(cs.B.V).Sign() == 0

	classes := []string{
		"op=" + op.name, "kind=" + cs.Kind, "width=" + widthClass(cs.Bits),
		"bind=" + cs.Bind, "res=" + cs.Res,
		"a=" + signClass(cs.A, cs.Kind, cs.Bits),
	}
	if !op.unary && !op.shift {
		classes = append(classes, "b="+signClass(cs.B, cs.Kind, cs.Bits))
	}
	if divZero {
		classes = append(classes, "div-by-zero")
	}

	var results []ctxResult
	var sample string
	nz := len(cs.Z)
	for _, cx := range cs.contexts() {
		switch ctxGroup(cx.name) {
		case "const":
			// Signed: non-negative operands only (the negative
			// family is an open finding).
			if cs.C.V == "" || (cs.Kind == "int" && cs.worstSign() == "neg") {
				continue
			}
		case "num":
			if res, ok := cs.evalNumber(cx); ok {
				results = append(results, res)
			}
			continue
		}
		pconst, prun := cs.sources(cx)
		if cx.name == "ret" {
			sample = pconst
		}
		res := ctxResult{name: cx.name}
		pr := compileRun(prun)
		if pr.panic != "" || pr.err != "" {
			col.Count("prun_compile_failed", 1)
			col.Note("P_run does not compile (%s%s), e.g.:\n%s", pr.err, pr.panic, prun)
			continue
		}
		pc := compile(pconst)
		switch {
		case pc.panic != "":
			res.panic = pc.panic + "program:\n" + pconst
		case pc.err != "":
			res.reject = pc.err
		default:
			nc, nr := 0, 0
			for _, o := range op.ssa {
				nc += pc.ops[o]
				nr += pr.ops[o]
			}
			res.folded = nc < nr || cs.Op == "lit"
			for i := 0; i < nz && !divZero; i++ {
				var in []*big.Int
				if rk == "bool" {
					q := new(big.Int)
					if cs.Q[i%len(cs.Q)] {
						q.SetInt64(1)
					}
					in = []*big.Int{pattern(parse(cs.Z[i]), 8),
						pattern(parse(cs.W[i]), 8), q}
				} else {
					in = []*big.Int{pattern(parse(cs.Z[i]), rb),
						pattern(parse(cs.W[i]), rb),
						pattern(parse(cs.W[i]), rb+7)}
				}
				got, err := compute(pc, in)
				if err != nil {
					res.diff = fmt.Sprintf("Compute(P_const): %v", err)
					break
				}
				want, err := compute(pr, append(append([]*big.Int{}, opIn...), in...))
				if err != nil {
					return nil, ev.Outcome{Skip: "Compute(P_run) failed: " + err.Error()}
				}
				res.evals++
				if cx.name == "ret" && i == 0 && len(want) > 0 {
					res.valueZ = wrap(want[0], rk, rb).String()
				}
				if len(got) != len(want) || got[0].Cmp(want[0]) != 0 {
					res.diff = fmt.Sprintf("inputs z=%s w=%s: P_const gives %s, P_run(a=%s, b=%s) gives %s\nP_const:\n%s",
						in[0], in[1], got[0], cs.A.V, cs.B.V, want[0], pconst)
					break
				}
				if cx.name == "ret" && i == 0 {
					res.valueZ = wrap(want[0], rk, rb).String()
					if m := model(cs); m != nil && m.Cmp(want[0]) != 0 {
						col.Count("prun_differs_from_model", 1)
						col.Note("P_run disagrees with the math/big model (C03 business): %s: model %s, P_run %s",
							cs.signature("ret"), m, want[0])
					}
				}
			}
		}
		results = append(results, res)
	}

	// Book-keeping and verdict.
	evals := 0
	folded := 0
	for _, r := range results {
		if ctxGroup(r.name) != "" && r.evals > 0 {
			col.Count("compared_"+ctxGroup(r.name)+"_"+r.name, 1)
		} else if ctxGroup(r.name) != "" && r.reject != "" {
			col.Count("rejected_"+ctxGroup(r.name)+"_"+r.name, 1)
		}
	}
	retDiffers, retNofoldDiffers := false, false
	var retValue string
	for _, r := range results {
		if r.name == "ret" {
			retValue = r.valueZ
			if r.diff != "" && !r.folded {
				retNofoldDiffers = true
			}
		}
		evals += r.evals
		if r.folded {
			folded++
		}
		if r.reject != "" {
			col.Count("rejected_contexts", 1)
		} else if r.panic == "" && !r.folded {
			col.Count("not_folded_contexts", 1)
		}
		if r.name == "ret" && r.diff != "" && r.folded {
			retDiffers = true
		}
	}
	var fails []ev.Outcome
	for _, r := range results {
		switch {
		case r.panic != "":
			sig := fmt.Sprintf("foldpanic/%s/%s/%s/%s", panicSite(r.panic),
				op.name, cs.Kind, widthClass(cs.Bits))
			fails = append(fails, ev.Fail(sig, "compiler panics on P_const (context %s): %s",
				r.name, r.panic))
		case r.diff != "":
			ctx := ctxClass(r.name, rk == "bool")
			if r.class != "" {
				ctx = r.class
			}
			prefix := "fold/"
			if !r.folded {
				prefix = "nofold/"
			}
			if retDiffers || retNofoldDiffers {
				// The value itself is wrong: one signature for
				// all consumers.
				ctx = "value"
			} else if chained(r.name) && !cs.probe &&
				cs.consumerBroken(r.name, retValue) {
				// The consumer is folded as well and fails in the
				// same way on the correct constant: that is the
				// business of the case (consumer operator, value).
				col.Count("chained_consumer_defect_not_attributed", 1)
				continue
			}
			sig := prefix + cs.signature(ctx)
			if !r.folded {
				// Not folded: not evidence for the property, one
				// signature per operator, kind and width class.
				sig = fmt.Sprintf("nofold/%s/%s/%s", op.name, cs.Kind, widthClass(cs.Bits))
			}
			fails = append(fails, ev.Fail(sig,
				"folded and run-time results differ in context %s: %s", r.name, r.diff))
		}
	}
	if len(fails) > 0 {
		for i := range fails {
			fails[i].Evals = evals
		}
		return fails, ev.Outcome{}
	}

	var rejected, notFolded []string
	for _, r := range results {
		if r.reject != "" {
			rejected = append(rejected, r.name)
		} else if !r.folded {
			notFolded = append(notFolded, r.name)
		}
	}
	if len(rejected) == len(results) && len(results) > 0 {
		classes = append(classes, "rejected-all")
	} else if len(rejected) > 0 {
		classes = append(classes, "rejected-some")
	}
	if len(notFolded) > 0 {
		classes = append(classes, "not-folded-some")
	}
	if folded > 0 {
		classes = append(classes, "folded")
	}
	sort.Strings(classes)
	out := ev.OK(folded > 0 && evals > 0, classes...)
	out.Evals = evals
	if out.Evals == 0 {
		out.Evals = 1
	}
	out.Sample = map[string]interface{}{"case": cs, "p_const_ret": sample}
	return nil, out
}

// ---------------------------------------------------------------------------
// Generator.

var widthTable = []int{1, 2, 3, 7, 8, 9, 15, 16, 17, 31, 32, 33, 63, 64, 65,
	127, 128, 129, 130}

func drawWidth(t *rapid.T, label string) int {
	if rapid.IntRange(0, 9).Draw(t, label+"-table") < 7 {
		return rapid.SampledFrom(widthTable).Draw(t, label)
	}
	return rapid.IntRange(1, 130).Draw(t, label)
}

// boundaryValues lists the interesting values representable in the type.
func boundaryValues(kind string, bits int) []*big.Int {
	mn, mx := minMax(kind, bits)
	one := big.NewInt(1)
	cand := []*big.Int{
		new(big.Int), one, big.NewInt(2), big.NewInt(3), big.NewInt(5), big.NewInt(7),
		mx, new(big.Int).Sub(mx, one), new(big.Int).Rsh(mx, 1),
		mn, new(big.Int).Add(mn, one),
		big.NewInt(-1), big.NewInt(-2), big.NewInt(-5), big.NewInt(-7),
	}
	for _, e := range []int{7, 8, 15, 16, 31, 32, 33, 63, 64, 65, 127} {
		p := pow2(e)
		cand = append(cand, p, new(big.Int).Sub(p, one), new(big.Int).Neg(p),
			new(big.Int).Neg(new(big.Int).Add(p, one)),
			new(big.Int).Neg(new(big.Int).Sub(p, one)))
	}
	if kind == "uint" {
		cand = append(cand, pow2(bits-1), new(big.Int).Add(pow2(bits-1), one))
	}
	var res []*big.Int
	seen := map[string]bool{}
	for _, c := range cand {
		if c.Cmp(mn) < 0 || c.Cmp(mx) > 0 || seen[c.String()] {
			continue
		}
		seen[c.String()] = true
		res = append(res, c)
	}
	return res
}

func drawBits(t *rapid.T, bits int, label string) *big.Int {
	v := new(big.Int)
	for i := 0; i < bits; i += 16 {
		chunk := uint64(rapid.IntRange(0, 65535).Draw(t, label))
		v.Or(v, new(big.Int).Lsh(new(big.Int).SetUint64(chunk), uint(i)))
	}
	return pattern(v, bits)
}

func drawValue(t *rapid.T, kind string, bits int, label string) *big.Int {
	if kind == "bool" {
		return big.NewInt(int64(rapid.IntRange(0, 1).Draw(t, label)))
	}
	if rapid.IntRange(0, 9).Draw(t, label+"-mode") < 7 {
		b := boundaryValues(kind, bits)
		return b[rapid.IntRange(0, len(b)-1).Draw(t, label)]
	}
	// Random magnitude with a drawn bit length, so that small values are
	// as likely as large ones.
	n := rapid.IntRange(1, bits).Draw(t, label+"-len")
	return wrap(drawBits(t, n, label), kind, bits)
}

func drawLit(t *rapid.T, kind string, bits int, label string, nonzero bool) Lit {
	v := drawValue(t, kind, bits, label)
	if nonzero && v.Sign() == 0 {
		v = big.NewInt(1)
		if kind == "int" && bits == 1 {
			v = big.NewInt(-1)
		}
	}
	l := Lit{V: v.String()}
	if kind == "bool" {
		return l
	}
	l.Hex = rapid.IntRange(0, 4).Draw(t, label+"-hex") == 0
	if v.Sign() < 0 {
		l.Neg = negSpelling(kind, bits, v, rapid.IntRange(0, 5).Draw(t, label+"-neg"))
	}
	return l
}

// negSpelling chooses the spelling of a negative constant: T(-k) ("cast") or
// -T(k) ("unary", needs k representable in T).  When T(-k) is a known finding
// for the width class (signature operand/int/<class>/neg) the unary spelling
// is preferred (5 of 6) so that the search continues behind the finding.
func negSpelling(kind string, bits int, v *big.Int, pick int) string {
	_, mx := minMax(kind, bits)
	if new(big.Int).Neg(v).Cmp(mx) > 0 {
		return "cast"
	}
	col := ev.Get(prop)
	if col.IsKnown(fmt.Sprintf("operand/%s/%s/neg", kind, widthClass(bits))) &&
		!col.IsKnown(fmt.Sprintf("operand/%s/%s/uneg", kind, widthClass(bits))) {
		if pick%6 < 5 {
			return "unary"
		}
		return "cast"
	}
	if pick%6 < 2 {
		return "unary"
	}
	return "cast"
}

func drawRuntime(t *rapid.T, cs *Case) {
	rk, rb := cs.resultType()
	n := 6
	if rk == "bool" {
		for i := 0; i < n; i++ {
			cs.Z = append(cs.Z, fmt.Sprint(rapid.IntRange(0, 255).Draw(t, "z")))
			cs.W = append(cs.W, fmt.Sprint(rapid.IntRange(0, 255).Draw(t, "w")))
			cs.Q = append(cs.Q, i%2 == 0)
		}
		return
	}
	mn, mx := minMax(rk, rb)
	alt := new(big.Int)
	for i := 0; i < rb; i += 2 {
		alt.SetBit(alt, i, 1)
	}
	fixed := []*big.Int{new(big.Int), big.NewInt(1), mx, mn, wrap(big.NewInt(-1), rk, rb),
		wrap(alt, rk, rb)}
	for i := 0; i < n; i++ {
		cs.Z = append(cs.Z, fixed[i].String())
		cs.W = append(cs.W, wrap(drawBits(t, rb, "w"), rk, rb).String())
	}
	for i := 0; i < 2; i++ {
		cs.Z = append(cs.Z, wrap(drawBits(t, rb, "z"), rk, rb).String())
		cs.W = append(cs.W, fixed[(i+2)%len(fixed)].String())
	}
}

var binds = []string{"inline", "inline", "inline", "define", "define", "const", "tconst", "vardecl"}
var ress = []string{"inline", "define", "define", "var"}

// ctxNames returns the names of the non-"ret" contexts of the result type.
func (cs Case) ctxNames() []string {
	rk, _ := cs.resultType()
	list := intCtx
	if rk == "bool" {
		list = boolCtx
	}
	var res []string
	for _, c := range list[1:] {
		if ctxGroup(c.name) == "" {
			res = append(res, c.name)
		}
	}
	return res
}

// numNames returns the names of the consumers of the groups "const" and
// "num" of the result type.
func (cs Case) numNames() []string {
	rk, _ := cs.resultType()
	list := intCtx
	if rk == "bool" {
		list = boolCtx
	}
	var res []string
	for _, c := range list {
		if ctxGroup(c.name) != "" {
			res = append(res, c.name)
		}
	}
	return res
}

// meetValues lists the constants the folded value is compared with /
// divided by: 0, 1, small, max/2, max, top bit.
func meetValues(kind string, bits int) []*big.Int {
	if kind == "bool" {
		return []*big.Int{new(big.Int), big.NewInt(1)}
	}
	_, mx := minMax(kind, bits)
	cand := []*big.Int{new(big.Int), big.NewInt(1), big.NewInt(3), big.NewInt(5),
		new(big.Int).Rsh(mx, 1), mx, new(big.Int).Sub(mx, big.NewInt(1))}
	if kind == "uint" {
		cand = append(cand, pow2(bits-1))
	}
	var res []*big.Int
	for _, c := range cand {
		if c.Cmp(mx) <= 0 {
			res = append(res, c)
		}
	}
	return res
}

func drawCtxs(t *rapid.T, cs *Case) []string {
	names := cs.ctxNames()
	n := 3
	var res []string
	start := rapid.IntRange(0, len(names)-1).Draw(t, "ctx")
	step := rapid.SampledFrom([]int{1, 5, 7, 11}).Draw(t, "ctxstep")
	for i := 0; i < n; i++ {
		res = append(res, names[(start+i*step)%len(names)])
	}
	res = append(res, rapid.SampledFrom(cs.numNames()).Draw(t, "numctx"))
	rk, rb := cs.resultType()
	mv := meetValues(rk, rb)
	cs.C = Lit{V: mv[rapid.IntRange(0, len(mv)-1).Draw(t, "meet")].String()}
	return res
}

func genCase(t *rapid.T) Case {
	var cs Case
	if rapid.IntRange(0, 9).Draw(t, "boolcase") == 0 {
		cs.Kind = "bool"
		cs.Bits = 1
		cs.Op = rapid.SampledFrom(boolOps).Draw(t, "op")
	} else {
		cs.Kind = rapid.SampledFrom([]string{"int", "uint"}).Draw(t, "kind")
		cs.Bits = drawWidth(t, "bits")
		cs.Op = rapid.SampledFrom(intOps).Draw(t, "op")
	}
	op := ops[cs.Op]
	cs.A = drawLit(t, cs.Kind, cs.Bits, "a", false)
	switch {
	case cs.Op == "cast":
		// Casts on whose meaning MPCL and Go agree: narrowing,
		// widening of an unsigned source, signed -> signed widening.
		mode := rapid.IntRange(0, 2).Draw(t, "castmode")
		if cs.Bits == 1 && mode == 0 {
			mode = 1
		}
		switch mode {
		case 0:
			cs.Bits2 = rapid.IntRange(1, cs.Bits-1).Draw(t, "bits2")
			cs.Kind2 = rapid.SampledFrom([]string{"int", "uint"}).Draw(t, "kind2")
		default:
			cs.Bits2 = cs.Bits + rapid.IntRange(1, 70).Draw(t, "bits2")
			if cs.Bits2 > 130 {
				cs.Bits2 = 130
			}
			if cs.Bits2 <= cs.Bits {
				cs.Bits2 = cs.Bits + 1
			}
			if cs.Kind == "int" {
				cs.Kind2 = "int"
			} else {
				cs.Kind2 = rapid.SampledFrom([]string{"int", "uint"}).Draw(t, "kind2")
			}
		}
	case op.shift:
		k := rapid.IntRange(0, cs.Bits+2).Draw(t, "count")
		if rapid.IntRange(0, 3).Draw(t, "countmode") == 0 {
			k = rapid.SampledFrom([]int{0, 1, cs.Bits - 1, cs.Bits, cs.Bits + 1}).Draw(t, "count2")
		}
		cs.B = Lit{V: fmt.Sprint(k)}
	case !op.unary:
		nonzero := (cs.Op == "/" || cs.Op == "%") &&
			rapid.IntRange(0, 19).Draw(t, "allowzero") != 0
		if rapid.IntRange(0, 7).Draw(t, "same") == 0 {
			cs.B = cs.A
			if nonzero && parse(cs.B.V).Sign() == 0 {
				cs.B = drawLit(t, cs.Kind, cs.Bits, "b", true)
			}
		} else {
			cs.B = drawLit(t, cs.Kind, cs.Bits, "b", nonzero)
		}
	}
	cs.Bind = rapid.SampledFrom(binds).Draw(t, "bind")
	cs.Res = rapid.SampledFrom(ress).Draw(t, "res")
	cs.Ctxs = drawCtxs(t, &cs)
	drawRuntime(t, &cs)
	return cs
}

func TestFold(t *testing.T) {
	ev.Check(t, ev.Get(prop), "fold", genCase, run)
}

func TestReplay(t *testing.T) { ev.Replay(t, ev.Get(prop)) }

var _ = os.Getenv
