package c12

import (
	"bytes"
	"fmt"
	"math/big"
	"os"
	"strings"
	"testing"

	"github.com/markkurossi/mpc/compiler"
	"github.com/markkurossi/mpc/compiler/utils"
)

func probe(src string, ins ...int64) string {
	defer func() {
		if r := recover(); r != nil {
			fmt.Fprintf(os.Stderr, "PANIC %v\n", r)
		}
	}()
	params := utils.NewParams()
	prog, _, err := compiler.New(params).CompileSSA("p.mpcl", strings.NewReader(src), nil)
	if err != nil {
		return "ERR " + err.Error()
	}
	var sb bytes.Buffer
	for _, s := range prog.Steps {
		sb.WriteString(s.Instr.String() + "; ")
	}
	circ, err := prog.CompileCircuit(params)
	if err != nil {
		return "CERR " + err.Error()
	}
	var in []*big.Int
	for _, i := range ins {
		in = append(in, big.NewInt(i))
	}
	out, err := circ.Compute(in)
	if err != nil {
		return "COMPERR " + err.Error()
	}
	return fmt.Sprintf("%v  [%s]", out, sb.String())
}

func TestProbe(t *testing.T) {
	data, _ := os.ReadFile(os.Getenv("PROBE"))
	for _, p := range strings.Split(string(data), "----\n") {
		parts := strings.SplitN(p, "\n", 2)
		var ins []int64
		for _, f := range strings.Fields(parts[0]) {
			var v int64
			fmt.Sscan(f, &v)
			ins = append(ins, v)
		}
		fmt.Fprintf(os.Stderr, "=== %s\n%s\n--> %s\n", parts[0], parts[1], probe(parts[1], ins...))
	}
}
