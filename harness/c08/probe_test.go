package c08

import (
	"bytes"
	"crypto/sha256"
	"fmt"
	"os"
	"testing"

	"github.com/markkurossi/mpc/compiler"
	"github.com/markkurossi/mpc/compiler/utils"
)

type wc struct{ bytes.Buffer }

func (w *wc) Close() error { return nil }

func TestProbe(t *testing.T) {
	src, _ := os.ReadFile("/tmp/a08/main.mpcl")
	seen := map[string]int{}
	for i := 0; i < 30; i++ {
		p := utils.NewParams()
		p.PkgPath = []string{"/tmp/a08/pk"}
		out := &wc{}
		p.SSAOut = out
		circ, _, err := compiler.New(p).Compile(string(src), nil)
		if err != nil {
			t.Fatal(err)
		}
		var b bytes.Buffer
		circ.Marshal(&b)
		k := fmt.Sprintf("%x %x", sha256.Sum256(b.Bytes()), sha256.Sum256(out.Bytes()))
		if seen[k] == 0 {
			fmt.Printf("=== %s\n%s\n", k, out.String())
		}
		seen[k]++
	}
	fmt.Println(seen)
}
