// C08: compilation is deterministic.
//
// Every case is one MPCL program (a generated single file, a generated set of
// library packages plus a main, or a program of the repository) together with
// compiler options and a history of earlier compilations.  The program is
// compiled Reps times inside this process (fresh compiler.Compiler every time,
// as every caller in the repository does; utils.Params fresh or shared with the
// history, as apps/garbled does) and WReps times in each of Procs separately
// started worker processes (this test binary re-executed in worker mode; every
// process has its own map hash seeds).  Oracle: the SHA-256 of Circuit.Marshal
// and of the Params.SSAOut text is the same for all compilations.
//
// Unit cli (cli_test.go) drives the command-line tool apps/garbled instead: a
// program compiled alone and as part of a batch on one command line must give
// byte-identical output files.
package c08

import (
	"bytes"
	"crypto/sha256"
	"encoding/hex"
	"encoding/json"
	"fmt"
	"io"
	"os"
	"os/exec"
	"path/filepath"
	"regexp"
	"runtime/debug"
	"sort"
	"strings"
	"sync"
	"sync/atomic"
	"testing"

	"github.com/markkurossi/mpc/compiler"
	"github.com/markkurossi/mpc/compiler/utils"
	"pgregory.net/rapid"

	"verifharness/internal/ev"
)

const prop = "C08"

// File is one MPCL source file of a generated library package; Path is
// relative to the scratch package root ("pa/vars.mpcl").
type File struct {
	Path string `json:"path"`
	Text string `json:"text"`
}

// Hist is one earlier compilation: program Prog of histProgs (-1 = the
// measured program itself, -2-k = HistMains[k] of the case), compiled with a
// fresh compiler.Compiler and either
// the Params object of the measured compilation (Share) or its own.
type Hist struct {
	Prog  int  `json:"prog"`
	Share bool `json:"share"`
}

// Case is one program with options, history and repetition counts.
type Case struct {
	Kind    string  `json:"kind"`           // gen | multi | repo | lib
	Name    string  `json:"name,omitempty"` // repo: path below the repository root
	Main    string  `json:"main,omitempty"` // source text (gen, multi, lib)
	Files   []File  `json:"files,omitempty"`
	Sizes   [][]int `json:"sizes,omitempty"`
	Prune   bool    `json:"prune,omitempty"`
	GMW     bool    `json:"gmw,omitempty"`
	MultThr int     `json:"multthr,omitempty"`
	History []Hist  `json:"history,omitempty"`
	// HistMains are further programs over the same scratch packages, used
	// as earlier compilations: Hist.Prog == -2-k selects HistMains[k].
	HistMains []string `json:"histmains,omitempty"`
	Reps      int      `json:"reps"`  // in-process compilations
	Procs     int      `json:"procs"` // worker processes
	WReps     int      `json:"wreps"` // compilations per worker
	Tags      []string `json:"tags,omitempty"`

	// Unit cli (see cli_test.go): the programs of one apps/garbled command
	// line, the order of the second batch run and the output options.
	Batch  []CliFile `json:"batch,omitempty"`
	Order2 []int     `json:"order2,omitempty"`
	NoCirc bool      `json:"nocirc,omitempty"` // -ssa only
	NoSSA  bool      `json:"nossa,omitempty"`  // -circ only
	Format string    `json:"format,omitempty"` // -format (default mpclc)
	// Stale: the repeated run of the last program finds the (much longer)
	// output files of an earlier compilation in its directory.
	Stale bool `json:"stale,omitempty"`
	// Decoy (multi): a second package root holds files with the paths of
	// the case's library packages and unusable contents.  "second": every
	// measured compilation searches [root, decoy] (the first directory
	// that has the package must win); "history": an earlier compilation in
	// the process ran with the decoy root alone (where another compilation
	// found a package must not matter); "both".
	Decoy string `json:"decoy,omitempty"`
}

func init() {
	ev.Register("gen", run)
	ev.Register("multi", run)
	ev.Register("repo", run)
	ev.Register("native", run)
	ev.Register("cli", run)
}

// ---------------------------------------------------------------------------
// One measured compilation.

// result is what one measured compilation produced.
type result struct {
	Circ  string `json:"circ"` // sha256 of Circuit.Marshal
	SSA   string `json:"ssa"`  // sha256 of the SSA listing
	Err   string `json:"err,omitempty"`
	Text  string `json:"text,omitempty"` // SSA listing (dropped when huge)
	Gates int    `json:"gates"`
	Where string `json:"where,omitempty"`
	// Reused: the last of two or three compilations on one Compiler.
	Reused bool `json:"reused,omitempty"`
}

type sink struct{ bytes.Buffer }

func (s *sink) Close() error { return nil }

func repoRoot() string {
	if d := os.Getenv("MPCLDIR"); d != "" {
		return d
	}
	return "/repo"
}

func newParams(cs Case, root string) *utils.Params {
	p := utils.NewParams()
	p.OptPruneGates = cs.Prune
	if cs.GMW {
		p.Target = utils.TargetGMW
	}
	p.CircMultArrayTreshold = cs.MultThr
	if root != "" {
		p.PkgPath = []string{root}
		if cs.Decoy == "second" || cs.Decoy == "both" {
			p.PkgPath = []string{root, root + "-decoy"}
		}
	}
	return p
}

// maxText bounds the SSA listings kept for diagnostics (the hash is always
// kept); listings equal to the first one are dropped at once.
const maxText = 256 << 10

// compileWith compiles the measured program of cs with a fresh Compiler on
// params.  A panic of the compiler is reported as an error outcome (the
// property is about equal results, not about which programs compile).
func compileWith(cs Case, params *utils.Params) (res result) {
	return compileOn(cs, params, compiler.New(params))
}

// compileOn compiles the measured program on the given Compiler instance.
func compileOn(cs Case, params *utils.Params, c *compiler.Compiler) (res result) {
	defer func() {
		if r := recover(); r != nil {
			res = result{Err: fmt.Sprintf("panic: %v", r)}
		}
	}()
	out := new(sink)
	params.SSAOut = out
	defer func() { params.SSAOut = nil }()

	var err error
	var marshal bytes.Buffer
	if cs.Kind == "repo" {
		circ, _, e := c.CompileFile(filepath.Join(repoRoot(), cs.Name), cs.Sizes)
		err = e
		if e == nil {
			res.Gates = circ.NumGates
			err = circ.Marshal(&marshal)
		}
	} else {
		circ, _, e := c.Compile(cs.Main, cs.Sizes)
		err = e
		if e == nil {
			res.Gates = circ.NumGates
			err = circ.Marshal(&marshal)
		}
	}
	if err != nil {
		return result{Err: err.Error()}
	}
	h := sha256.Sum256(marshal.Bytes())
	res.Circ = hex.EncodeToString(h[:])
	h = sha256.Sum256(out.Bytes())
	res.SSA = hex.EncodeToString(h[:])
	if out.Len() <= maxText {
		res.Text = out.String()
	}
	return res
}

// compileHist runs one earlier compilation; its outcome does not matter.
func compileHist(cs Case, h Hist, params *utils.Params) {
	defer func() { recover() }()
	params.SSAOut = new(sink)
	defer func() { params.SSAOut = nil }()
	if h.Prog <= -2 && len(cs.HistMains) > 0 {
		compiler.New(params).Compile(cs.HistMains[(-2-h.Prog)%len(cs.HistMains)], cs.Sizes)
		return
	}
	if h.Prog < 0 {
		compileWith(cs, params)
		return
	}
	compiler.New(params).Compile(histProgs[h.Prog%len(histProgs)], nil)
}

// measure performs the rep-th measured compilation: repetitions 1 and 2 are
// preceded by the history of the case (its effect, if any, is deterministic);
// all others use fresh parameters and no history (they only add samples of
// the runtime's map iteration orders).
// decoyHistory compiles the program once with the decoy root as its only
// package path (its error is not judged).  It runs before the first measured
// compilation of the case, so that it is the first compilation of the process
// that resolves the case's import paths.
func decoyHistory(cs Case, root string) {
	if root == "" || !(cs.Decoy == "history" || cs.Decoy == "both") {
		return
	}
	defer func() { recover() }()
	dp := newParams(Case{Prune: cs.Prune, GMW: cs.GMW, MultThr: cs.MultThr}, root+"-decoy")
	dp.SSAOut = new(sink)
	compiler.New(dp).Compile(mainSource(cs), cs.Sizes)
}

func measure(cs Case, root string, rep int) result {
	params := newParams(cs, root)
	if rep == 1 || rep == 2 {
		for _, h := range cs.History {
			hp := params
			if !h.Share {
				hp = newParams(cs, root)
			}
			compileHist(cs, h, hp)
		}
	}
	if rep%4 == 3 && !strings.Contains(mainSource(cs), "intern(") {
		// "Repeated compilations": the same Compiler instance compiles
		// the program a second (and third) time; the last result counts.
		c := compiler.New(params)
		compileOn(cs, params, c)
		if rep%8 == 7 {
			compileOn(cs, params, c)
		}
		x := compileOn(cs, params, c)
		x.Reused = true
		return x
	}
	return compileWith(cs, params)
}

// ---------------------------------------------------------------------------
// Worker mode: the test binary re-executes itself; the child reads the case
// from stdin, compiles it WReps times and writes the results to fd 3.

const workerEnv = "C08_WORKER_ROOT"

func TestMain(m *testing.M) {
	// Every compilation allocates a few MB of tables and the workers are
	// short-lived: a relaxed GC target saves about a third of the run time.
	// The soft memory limit keeps a large program from multiplying that.
	if os.Getenv("GOGC") == "" {
		debug.SetGCPercent(200)
	}
	debug.SetMemoryLimit(768 << 20)
	if root, ok := os.LookupEnv(workerEnv); ok {
		os.Exit(workerMain(root))
	}
	rc := m.Run()
	cleanupGarbled()
	os.Exit(rc)
}

func workerMain(root string) int {
	data, err := io.ReadAll(os.Stdin)
	if err != nil {
		return 3
	}
	var cs Case
	if err := json.Unmarshal(data, &cs); err != nil {
		return 3
	}
	if root == "-" {
		root = ""
	}
	var res []result
	for r := 0; r < cs.WReps; r++ {
		res = append(res, measure(cs, root, r))
	}
	out := os.NewFile(3, "results")
	if out == nil {
		return 4
	}
	if err := json.NewEncoder(out).Encode(res); err != nil {
		return 4
	}
	out.Close()
	return 0
}

// selfExe is the path of this test binary.  /proc/self/exe keeps working
// when the file has been unlinked meanwhile (the driver's alternate binaries
// are removed by whoever finishes a mutation run).
func selfExe() string {
	if _, err := os.Stat("/proc/self/exe"); err == nil {
		return "/proc/self/exe"
	}
	return os.Args[0]
}

var workerFailures atomic.Int64

// checkWorkers turns worker failures (cases that were skipped because a
// worker process could not be run) into a test failure without a violation:
// the driver reports the run as inconclusive.
func checkWorkers(t *testing.T) {
	if n := workerFailures.Load(); n > 0 {
		t.Errorf("infrastructure: %d cases skipped because a worker process failed", n)
	}
}

// workerSem bounds the worker processes running at the same time.
var workerSem = make(chan struct{}, 2)

func runWorker(cs Case, root string) ([]result, error) {
	workerSem <- struct{}{}
	defer func() { <-workerSem }()
	res, err := runWorker1(cs, root)
	if err != nil {
		res, err = runWorker1(cs, root)
	}
	return res, err
}

func runWorker1(cs Case, root string) ([]result, error) {
	data, err := json.Marshal(cs)
	if err != nil {
		return nil, err
	}
	pr, pw, err := os.Pipe()
	if err != nil {
		return nil, err
	}
	defer pr.Close()
	cmd := exec.Command(selfExe(), "-test.run=^$")
	cmd.Stdin = bytes.NewReader(data)
	cmd.Stdout = nil
	cmd.Stderr = nil
	cmd.ExtraFiles = []*os.File{pw}
	if root == "" {
		root = "-"
	}
	var env []string
	for _, e := range os.Environ() {
		if strings.HasPrefix(e, "VERIF_EV_OUT=") || strings.HasPrefix(e, "VERIF_REPLAY") {
			continue
		}
		env = append(env, e)
	}
	cmd.Env = append(env, workerEnv+"="+root)
	if err := cmd.Start(); err != nil {
		pw.Close()
		return nil, err
	}
	pw.Close()
	out, rerr := io.ReadAll(pr)
	werr := cmd.Wait()
	if werr != nil {
		return nil, fmt.Errorf("worker: %v", werr)
	}
	if rerr != nil {
		return nil, rerr
	}
	var res []result
	if err := json.Unmarshal(out, &res); err != nil {
		return nil, fmt.Errorf("worker output: %v", err)
	}
	if len(res) != cs.WReps {
		return nil, fmt.Errorf("worker returned %d results, want %d", len(res), cs.WReps)
	}
	return res, nil
}

// ---------------------------------------------------------------------------
// Source scanning for the non-trivial rule (independent of the generator).

type srcInfo struct {
	imports []string
	consts  int
	vars    int
}

var (
	reImport1 = regexp.MustCompile(`^import\s+(?:[A-Za-z_]\w*\s+)?"([^"]+)"`)
	reImportN = regexp.MustCompile(`^\s*(?:[A-Za-z_]\w*\s+)?"([^"]+)"\s*$`)
	reDef     = regexp.MustCompile(`^\s*[A-Za-z_]\w*(\s+[\[\]\w.]+)?\s*=`)
	reVarDef  = regexp.MustCompile(`^\s*[A-Za-z_]\w*(\s+[\[\]\w.]+)?\s*(=.*)?$`)
)

// scanSource counts package-level const and var definitions and collects the
// imports of one source file.  It relies on gofmt-like layout (which the
// library and the generators follow).
func scanSource(text string) srcInfo {
	var info srcInfo
	mode := ""
	for _, line := range strings.Split(text, "\n") {
		if i := strings.Index(line, "//"); i >= 0 {
			line = line[:i]
		}
		trimmed := strings.TrimSpace(line)
		if mode != "" {
			if trimmed == ")" {
				mode = ""
				continue
			}
			switch mode {
			case "import":
				if m := reImportN.FindStringSubmatch(line); m != nil {
					info.imports = append(info.imports, m[1])
				}
			case "const":
				if reDef.MatchString(line) {
					info.consts++
				}
			case "var":
				if trimmed != "" && strings.HasPrefix(line, "\t") &&
					!strings.HasPrefix(line, "\t\t") && reVarDef.MatchString(line) {
					info.vars++
				}
			}
			continue
		}
		switch {
		case strings.HasPrefix(line, "import ("):
			mode = "import"
		case strings.HasPrefix(line, "const ("):
			mode = "const"
		case strings.HasPrefix(line, "var ("):
			mode = "var"
		case strings.HasPrefix(line, "import "):
			if m := reImport1.FindStringSubmatch(line); m != nil {
				info.imports = append(info.imports, m[1])
			}
		case strings.HasPrefix(line, "const "):
			info.consts++
		case strings.HasPrefix(line, "var "):
			info.vars++
		}
	}
	return info
}

// pkgSources returns the sources of an imported package: from the files of
// the case first, else from the repository's pkg directory.
func pkgSources(cs Case, name string) []string {
	var res []string
	for _, f := range cs.Files {
		if filepath.ToSlash(filepath.Dir(f.Path)) == name && strings.HasSuffix(f.Path, ".mpcl") {
			res = append(res, f.Text)
		}
	}
	if len(res) > 0 {
		return res
	}
	dir := filepath.Join(repoRoot(), "pkg", name)
	names, _ := filepath.Glob(filepath.Join(dir, "*.mpcl"))
	sort.Strings(names)
	for _, n := range names {
		if data, err := os.ReadFile(n); err == nil {
			res = append(res, string(data))
		}
	}
	return res
}

type progInfo struct {
	consts    int             // constants defined by the main package
	allConsts int             // constants defined by main and all imported packages
	pkgs      int             // packages imported (transitively)
	varPkgs   int             // imported packages that define package-level variables
	direct    int             // packages imported by main directly
	varSet    map[string]bool // import paths of the packages counted by varPkgs
}

func mainSource(cs Case) string {
	if cs.Kind == "repo" {
		data, _ := os.ReadFile(filepath.Join(repoRoot(), cs.Name))
		return string(data)
	}
	return cs.Main
}

func scanProgram(cs Case) progInfo {
	return scanProgramSource(cs, mainSource(cs))
}

// scanProgramSource scans the program with main source text main over the
// library packages of the case and of the repository.
func scanProgramSource(cs Case, main string) progInfo {
	pi := progInfo{varSet: map[string]bool{}}
	mi := scanSource(main)
	pi.consts = mi.consts
	pi.allConsts = mi.consts
	pi.direct = len(mi.imports)
	seen := map[string]bool{}
	queue := append([]string{}, mi.imports...)
	for len(queue) > 0 {
		name := queue[0]
		queue = queue[1:]
		if seen[name] {
			continue
		}
		seen[name] = true
		pi.pkgs++
		vars := 0
		for _, src := range pkgSources(cs, name) {
			si := scanSource(src)
			vars += si.vars
			pi.allConsts += si.consts
			queue = append(queue, si.imports...)
		}
		if vars > 0 {
			pi.varPkgs++
			pi.varSet[name] = true
		}
	}
	return pi
}

var reMainWidth = regexp.MustCompile(`func main\(a(?:, b)? u?int(\d+)`)

// mainWidth returns the operand width of a generated main (0 = unknown).
func mainWidth(src string) int {
	m := reMainWidth.FindStringSubmatch(src)
	if m == nil {
		return 0
	}
	var w int
	fmt.Sscanf(m[1], "%d", &w)
	return w
}

// hasMult tells whether the program or one of the case's library packages
// contains a multiplication (generated sources write it as " * ").
func hasMult(cs Case, src string) bool {
	if strings.Contains(src, " * ") {
		return true
	}
	for _, f := range cs.Files {
		if strings.Contains(f.Text, " * ") {
			return true
		}
	}
	return false
}

// histSource returns the source of an earlier compilation.
func histSource(cs Case, h Hist) string {
	switch {
	case h.Prog <= -2 && len(cs.HistMains) > 0:
		return cs.HistMains[(-2-h.Prog)%len(cs.HistMains)]
	case h.Prog < 0:
		return mainSource(cs)
	}
	return histProgs[h.Prog%len(histProgs)]
}

// sameBaseImports tells whether one source file of the case (main or a
// library package) imports two paths that end in the same component.
func sameBaseImports(cs Case) bool {
	srcs := []string{mainSource(cs)}
	for _, f := range cs.Files {
		if strings.HasSuffix(f.Path, ".mpcl") {
			srcs = append(srcs, f.Text)
		}
	}
	for _, src := range srcs {
		seen := map[string]bool{}
		for _, imp := range scanSource(src).imports {
			b := filepath.Base(imp)
			if seen[b] {
				return true
			}
			seen[b] = true
		}
	}
	return false
}

// ---------------------------------------------------------------------------
// Oracle.

var (
	reInitLabel = regexp.MustCompile(`^# \.[^:]*:$`)
	reMainLabel = regexp.MustCompile(`^# main#(\d+|\*):$`)
	reVersion   = regexp.MustCompile(`\{(\d+),\d+\}`)
	reGC        = regexp.MustCompile(`(?m)^\tgc .*\n`)
	reInstance  = regexp.MustCompile(`(?m)^(# .*)#\d+:$`)
)

// canonSSA sorts the package initialiser sections ("# .pkg:" up to the next
// such label or the start of main) of an SSA listing by their label; with
// versions=true the version numbers of all values and the instance numbers
// of inlined functions (both are counted in initialisation order) are erased
// and the gc instructions (placed after the last use of a value, which moves
// with the order of the initialisers) are dropped first.  Two
// listings that are equal after this differ only in the order in which the
// imported packages were initialised.
func canonSSA(text string, versions bool) string {
	if versions {
		text = reVersion.ReplaceAllString(text, "{$1,*}")
		text = reInstance.ReplaceAllString(text, "$1#*:")
		text = reGC.ReplaceAllString(text, "")
	}
	lines := strings.Split(text, "\n")
	var head, tail []string
	var sections [][]string
	i := 0
	for ; i < len(lines) && !reInitLabel.MatchString(lines[i]); i++ {
		head = append(head, lines[i])
	}
	for i < len(lines) && !reMainLabel.MatchString(lines[i]) {
		if reInitLabel.MatchString(lines[i]) {
			sections = append(sections, nil)
		}
		sections[len(sections)-1] = append(sections[len(sections)-1], lines[i])
		i++
	}
	tail = lines[i:]
	sort.SliceStable(sections, func(a, b int) bool {
		return sections[a][0] < sections[b][0]
	})
	var sb strings.Builder
	sb.WriteString(strings.Join(head, "\n"))
	for _, s := range sections {
		sb.WriteString("\n" + strings.Join(s, "\n"))
	}
	sb.WriteString("\n" + strings.Join(tail, "\n"))
	return sb.String()
}

func initOrder(text string) string {
	var labels []string
	for _, l := range strings.Split(text, "\n") {
		if reMainLabel.MatchString(l) {
			break
		}
		if reInitLabel.MatchString(l) {
			labels = append(labels, strings.TrimSuffix(strings.TrimPrefix(l, "# "), ":"))
		}
	}
	return strings.Join(labels, " ")
}

func firstDiff(a, b string) string {
	la, lb := strings.Split(a, "\n"), strings.Split(b, "\n")
	for i := 0; i < len(la) || i < len(lb); i++ {
		var x, y string
		if i < len(la) {
			x = la[i]
		}
		if i < len(lb) {
			y = lb[i]
		}
		if x != y {
			return fmt.Sprintf("first differing SSA line %d: %q vs %q", i+1, x, y)
		}
	}
	return "SSA listings are equal"
}

// judge compares all results with the first one.
func judge(res []result) (sig, what string) {
	base := res[0]
	// Same listing must give the same circuit (never masked by a
	// listing-level difference).
	bySSA := map[string]result{}
	for _, r := range res {
		if r.Err != "" {
			continue
		}
		if o, ok := bySSA[r.SSA]; ok {
			if o.Circ != r.Circ {
				return "circuit/differs-same-ssa", fmt.Sprintf(
					"identical SSA listing but different circuits: %s gives %s (%d gates), %s gives %s (%d gates)",
					o.Where, o.Circ[:16], o.Gates, r.Where, r.Circ[:16], r.Gates)
			}
		} else {
			bySSA[r.SSA] = r
		}
	}
	for _, r := range res[1:] {
		if (r.Err == "") != (base.Err == "") {
			return "compile/nondeterministic-error", fmt.Sprintf(
				"%s: err=%q, %s: err=%q", base.Where, base.Err, r.Where, r.Err)
		}
	}
	if base.Err != "" {
		return "", ""
	}
	for _, r := range res[1:] {
		if r.Circ == base.Circ && r.SSA == base.SSA {
			continue
		}
		cause := "differs"
		detail := ""
		if r.SSA != base.SSA && r.Text != "" && base.Text != "" {
			detail = firstDiff(base.Text, r.Text)
			if initOrder(r.Text) != initOrder(base.Text) &&
				(canonSSA(r.Text, false) == canonSSA(base.Text, false) ||
					canonSSA(r.Text, true) == canonSSA(base.Text, true)) {
				cause = "pkg-init-order"
				detail = fmt.Sprintf("package initialisers run in order [%s] vs [%s]; %s",
					initOrder(base.Text), initOrder(r.Text), detail)
			}
		}
		if r.Reused {
			cause += "/compiler-instance-reused"
		}
		if r.Circ != base.Circ {
			return "circuit/" + cause, fmt.Sprintf(
				"Circuit.Marshal differs: %s gives %s (%d gates), %s gives %s (%d gates); SSA %s; %s",
				base.Where, base.Circ[:16], base.Gates, r.Where, r.Circ[:16], r.Gates,
				map[bool]string{true: "equal", false: "differs too"}[r.SSA == base.SSA], detail)
		}
		return "ssa/" + cause, fmt.Sprintf(
			"SSA listing differs (circuits equal): %s vs %s; %s", base.Where, r.Where, detail)
	}
	return "", ""
}

var scratchBase = sync.OnceValue(func() string {
	return os.Getenv("C08_SCRATCH") // set by the tests to t.TempDir()
})

// writeScratch writes the library packages of the case below a fresh scratch
// directory (root == "" when the case has none).
func writeScratch(cs Case) (root string, cleanup func(), skip string) {
	cleanup = func() {}
	if len(cs.Files) == 0 {
		return "", cleanup, ""
	}
	dir, err := os.MkdirTemp(scratchBase(), "c08-")
	if err != nil {
		return "", cleanup, "scratch directory: " + err.Error()
	}
	cleanup = func() { os.RemoveAll(dir); os.RemoveAll(dir + "-decoy") }
	if cs.Decoy != "" {
		for _, f := range cs.Files {
			p := filepath.Join(dir+"-decoy", filepath.FromSlash(f.Path))
			if !strings.HasPrefix(filepath.Clean(p), dir+"-decoy") || !strings.HasSuffix(p, ".mpcl") {
				continue
			}
			os.MkdirAll(filepath.Dir(p), 0o755)
			pkg := filepath.Base(filepath.Dir(p))
			// A package that parses (so that a cache of "where was
			// this import found" would remember it) and has nothing
			// the program needs.
			os.WriteFile(p, []byte("package "+pkg+"\n\nfunc Decoy(x uint8) uint8 {\n\treturn x\n}\n"), 0o644)
		}
	}
	for _, f := range cs.Files {
		p := filepath.Join(dir, filepath.FromSlash(f.Path))
		if !strings.HasPrefix(filepath.Clean(p), dir) {
			cleanup()
			return "", func() {}, "file path escapes the scratch directory"
		}
		os.MkdirAll(filepath.Dir(p), 0o755)
		if err := os.WriteFile(p, []byte(f.Text), 0o644); err != nil {
			cleanup()
			return "", func() {}, "scratch file: " + err.Error()
		}
	}
	return dir, cleanup, ""
}

func run(cs Case) ev.Outcome {
	// The symbol table behind intern() lives in the Params object and is
	// meant to persist between compilations that share it: an earlier
	// program that interns other symbols changes the IDs by design.  Only
	// the measured program itself may intern on the shared Params.
	if strings.Contains(mainSource(cs), "intern(") {
		for _, h := range cs.History {
			if h.Share && h.Prog != -1 && strings.Contains(histSource(cs, h), "intern(") {
				return ev.Outcome{Skip: "an earlier compilation on the shared Params interns symbols (symbol IDs are state by design)"}
			}
		}
	}
	if cs.Reps < 1 {
		cs.Reps = 1
	}
	if cs.Kind == "cli" {
		return runCli(cs)
	}
	root, cleanup, skip := writeScratch(cs)
	if skip != "" {
		return ev.Outcome{Skip: skip}
	}
	defer cleanup()
	decoyHistory(cs, root)

	// Worker processes run concurrently with the in-process repetitions.
	type wres struct {
		res []result
		err error
	}
	wout := make([]wres, cs.Procs)
	var wg sync.WaitGroup
	for p := 0; p < cs.Procs; p++ {
		wg.Add(1)
		go func(p int) {
			defer wg.Done()
			defer func() {
				if r := recover(); r != nil {
					wout[p].err = fmt.Errorf("panic: %v", r)
				}
			}()
			wout[p].res, wout[p].err = runWorker(cs, root)
		}(p)
	}
	var res []result
	for r := 0; r < cs.Reps; r++ {
		x := measure(cs, root, r)
		x.Where = fmt.Sprintf("in-process compilation %d", r)
		if x.Reused {
			x.Where += " (the same Compiler instance compiled the program before)"
		}
		if r > 0 && x.SSA == res[0].SSA {
			x.Text = ""
		}
		res = append(res, x)
	}
	wg.Wait()
	for p, w := range wout {
		if w.err != nil {
			ev.Get(prop).Count("worker_failures", 1)
			workerFailures.Add(1)
			return ev.Outcome{Skip: "worker process failed: " + w.err.Error()}
		}
		for r, x := range w.res {
			x.Where = fmt.Sprintf("worker process %d compilation %d", p, r)
			if x.SSA == res[0].SSA {
				x.Text = ""
			}
			res = append(res, x)
		}
	}

	sig, what := judge(res)
	if sig != "" {
		out := ev.Fail(sig, "%s", what)
		out.Evals = len(res)
		return out
	}
	if res[0].Err != "" {
		msg := res[0].Err
		if i := strings.LastIndex(msg, ": "); i >= 0 && len(msg) > 60 {
			msg = msg[i+2:]
		}
		if len(msg) > 60 {
			msg = msg[:60]
		}
		return ev.Outcome{Skip: "does not compile (" + cs.Kind + "): " + msg}
	}

	pi := scanProgram(cs)
	classes := []string{"kind=" + cs.Kind}
	classes = append(classes, cs.Tags...)
	switch {
	case pi.varPkgs >= 4:
		classes = append(classes, "var-pkgs>=4")
	case pi.varPkgs >= 2:
		classes = append(classes, "var-pkgs=2..3")
	default:
		classes = append(classes, fmt.Sprintf("var-pkgs=%d", pi.varPkgs))
	}
	switch {
	case pi.consts >= 8:
		classes = append(classes, "main-consts>=8")
	case pi.consts >= 3:
		classes = append(classes, "main-consts=3..7")
	default:
		classes = append(classes, "main-consts<3")
	}
	if pi.direct >= 2 {
		classes = append(classes, "direct-imports>=2")
	}
	if pi.pkgs > pi.direct {
		classes = append(classes, "transitive-imports")
	}
	if cs.Prune {
		classes = append(classes, "prune")
	}
	if cs.GMW {
		classes = append(classes, "target=gmw")
	}
	shared := false
	for _, h := range cs.History {
		if h.Share {
			shared = true
		}
	}
	if len(cs.History) == 0 {
		classes = append(classes, "history=none")
	} else if shared {
		classes = append(classes, "history=shared-params")
	} else {
		classes = append(classes, "history=fresh-params")
	}
	switch {
	case res[0].Gates >= 100000:
		classes = append(classes, "gates>=100k")
	case res[0].Gates >= 1000:
		classes = append(classes, "gates=1k..100k")
	default:
		classes = append(classes, "gates<1k")
	}

	clash := nativeClash(cs)
	if clash {
		classes = append(classes, "same-named-circ-files-differ")
	}
	for _, h := range cs.History {
		if h.Prog <= -2 && len(cs.HistMains) > 0 {
			if cs.Kind == "gen" {
				classes = append(classes, "history=other-generated-program")
			} else {
				classes = append(classes, "history=other-main-over-same-pkgs")
			}
			break
		}
	}
	if cs.Kind == "gen" || cs.Kind == "multi" {
		// Multiplications of the measured program and of earlier programs
		// on the same Params, at widths with / without a tuned multiplier
		// threshold (source scan).
		mw, mm := mainWidth(mainSource(cs)), hasMult(cs, mainSource(cs))
		if mm {
			classes = append(classes, "measured-multiplies")
		}
		contrast := false
		for _, h := range cs.History {
			src := histSource(cs, h)
			hw := mainWidth(src)
			if h.Share && mm && hw > 0 && mw > 0 && hasMult(cs, src) && tunedMultWidth(hw) != tunedMultWidth(mw) {
				contrast = true
			}
		}
		if contrast {
			classes = append(classes, "shared-history-multiplies-at-other-threshold-class")
			if cs.MultThr == 0 && !cs.GMW {
				classes = append(classes, "shared-history-multiplies-at-other-threshold-class,default-threshold,yao")
			}
		}
	}
	if sameBaseImports(cs) {
		classes = append(classes, "importer-with-imports-sharing-last-path-component")
	}
	nontrivial := pi.varPkgs >= 2 || pi.allConsts >= 3 || clash
	out := ev.OK(nontrivial, classes...)
	out.Evals = len(res)
	h := sha256.New()
	fmt.Fprintf(h, "%s\x00%s\x00%s\x00%v\x00%v\x00%d\x00%v", cs.Kind, cs.Name, cs.Main,
		cs.Prune, cs.GMW, cs.MultThr, cs.Sizes)
	for _, f := range cs.Files {
		fmt.Fprintf(h, "\x00%s\x00%s", f.Path, f.Text)
	}
	out.Key = hex.EncodeToString(h.Sum(nil))
	return out
}

// ---------------------------------------------------------------------------

// reps returns the tier's repetition counts (in-process, processes,
// compilations per worker).  They are fixed per tier, not drawn: shrinking
// them would only make a map-order dependent failure harder to reproduce.
func reps(col *ev.Collector) (int, int, int) {
	if col.Thorough() {
		return 16, 6, 2
	}
	return 8, 3, 2
}

func setScratch(t *testing.T) {
	if os.Getenv("C08_SCRATCH") == "" {
		os.Setenv("C08_SCRATCH", t.TempDir())
	}
}

// drawCommon draws options, repetition counts and the history.  With
// histMains two history entries in three compile one of the case's own
// further programs (cs.HistMains); the others a fixed program or the
// measured program itself.  Three entries in four run on the Params object
// of the measured compilation: state that an earlier compilation leaves
// behind in a fresh Params object of its own cannot reach the measured one.
func drawCommon(t *rapid.T, cs *Case, allowSelf, histMains bool) {
	col := ev.Get(prop)
	cs.Reps, cs.Procs, cs.WReps = reps(col)
	cs.Prune = rapid.IntRange(0, 3).Draw(t, "prune") == 0
	cs.GMW = rapid.IntRange(0, 3).Draw(t, "gmw") == 0
	cs.MultThr = rapid.SampledFrom([]int{0, 0, 0, 8, 21}).Draw(t, "multthr")
	nh := rapid.SampledFrom([]int{1, 0, 1, 2, 3}).Draw(t, "nhist")
	lo := 0
	if allowSelf {
		lo = -1
	}
	for i := 0; i < nh; i++ {
		var h Hist
		if histMains && len(cs.HistMains) > 0 && rapid.IntRange(0, 2).Draw(t, "hown") < 2 {
			h.Prog = -2 - rapid.IntRange(0, len(cs.HistMains)-1).Draw(t, "hmain")
		} else {
			h.Prog = rapid.IntRange(lo, len(histProgs)-1).Draw(t, "hprog")
		}
		h.Share = rapid.IntRange(0, 3).Draw(t, "hshare") < 3
		cs.History = append(cs.History, h)
	}
}

func genSingle(t *rapid.T) Case {
	cs := Case{Kind: "gen"}
	cs.Main, cs.Tags = drawSingleProgram(t, false)
	// Further programs with independently drawn types (each multiplies at
	// its own width) for the history.
	for i := rapid.SampledFrom([]int{1, 0, 1, 2, 2}).Draw(t, "nhistmains"); i > 0; i-- {
		src, _ := drawSingleProgram(t, true)
		cs.HistMains = append(cs.HistMains, src)
	}
	drawCommon(t, &cs, true, true)
	return cs
}

// nativeClash tells whether two packages of the case ship a circuit file of
// the same base name with different contents.
func nativeClash(cs Case) bool {
	for i, f := range cs.Files {
		if !strings.HasSuffix(f.Path, ".circ") {
			continue
		}
		for _, g := range cs.Files[:i] {
			if filepath.Base(g.Path) == filepath.Base(f.Path) && g.Text != f.Text {
				return true
			}
		}
	}
	return false
}

func genNative(t *rapid.T) Case {
	cs := Case{Kind: "native"}
	cs.Main, cs.HistMains, cs.Files, cs.Tags = drawNativeProgram(t)
	drawCommon(t, &cs, true, false)
	// Most histories compile another main over the same package tree (which
	// loads the same-named circuit files of other packages) first.
	n := rapid.IntRange(0, 3).Draw(t, "nhistmain")
	var pre []Hist
	for i := 0; i < n; i++ {
		pre = append(pre, Hist{
			Prog:  -2 - rapid.IntRange(0, len(cs.HistMains)-1).Draw(t, "histmain"),
			Share: rapid.Bool().Draw(t, "hmshare"),
		})
	}
	cs.History = append(pre, cs.History...)
	return cs
}

func genMulti(t *rapid.T) Case {
	cs := Case{Kind: "multi"}
	cs.Main, cs.HistMains, cs.Files, cs.Tags = drawMultiProgram(t)
	drawCommon(t, &cs, true, true)
	cs.Decoy = rapid.SampledFrom([]string{"", "", "second", "history", "both"}).Draw(t, "decoy")
	if cs.Decoy != "" {
		cs.Tags = append(cs.Tags, "decoy-root="+cs.Decoy)
	}
	return cs
}

func TestGen(t *testing.T) {
	setScratch(t)
	ev.Check(t, ev.Get(prop), "gen", genSingle, run)
	checkWorkers(t)
}

func TestMulti(t *testing.T) {
	setScratch(t)
	ev.Check(t, ev.Get(prop), "multi", genMulti, run)
	checkWorkers(t)
}

func TestNative(t *testing.T) {
	setScratch(t)
	ev.Check(t, ev.Get(prop), "native", genNative, run)
	checkWorkers(t)
}

// TestRepo walks the fixed list of repository programs and library mains;
// options and histories are derived from the seed and the index.
func TestRepo(t *testing.T) {
	setScratch(t)
	col := ev.Get(prop)
	rounds := col.N(1, 3)
	shard, nshards := ev.Shard()
	r, p, w := reps(col)
	ev.Each(t, col, "repo", func(yield func(Case) bool) {
		idx := 0
		for round := 0; round < rounds; round++ {
			for _, fp := range fixedPrograms(col.Thorough()) {
				idx++
				if idx%nshards != shard {
					continue
				}
				cs := fp
				k := uint64(col.Seed)*1000003 + uint64(idx)*7919 + uint64(round)
				cs.Prune = k%3 == 1 && !fp.noPrune
				cs.GMW = k%5 == 2 && !fp.noGMW
				if !fp.noHistory {
					n := int(k % 4)
					for i := 0; i < n; i++ {
						cs.History = append(cs.History, Hist{
							Prog:  int((k>>uint(3*i))%uint64(len(histProgs)+1)) - 1,
							Share: (k>>uint(i+9))&1 == 1,
						})
					}
				}
				cs.Reps, cs.Procs, cs.WReps = r, p, w
				if fp.many {
					// A two-entry map is iterated in the other order
					// once in eight times: 40+6 samples miss an order
					// dependence with probability 0.3 %.
					cs.Reps = 40
				}
				if fp.slow {
					cs.Reps, cs.WReps = 6, 1
					for i := range cs.History {
						if cs.History[i].Prog < 0 {
							cs.History[i].Prog = 1
						}
					}
				}
				yield(cs.Case)
			}
		}
	}, run)
	checkWorkers(t)
}

func TestReplay(t *testing.T) {
	setScratch(t)
	ev.Replay(t, ev.Get(prop))
}
