package c08

import (
	"fmt"
	"os"
	"strings"
	"testing"

	"pgregory.net/rapid"
)

func TestDev(t *testing.T) {
	setScratch(t)
	n := 0
	rapid.Check(t, func(rt *rapid.T) {
		cs := genMulti(rt)
		cs.Reps, cs.Procs = 1, 0
		cs.History = nil
		dir, _ := os.MkdirTemp("", "dev")
		defer os.RemoveAll(dir)
		for _, f := range cs.Files {
			p := dir + "/" + f.Path
			os.MkdirAll(p[:strings.LastIndex(p, "/")], 0o755)
			os.WriteFile(p, []byte(f.Text), 0o644)
		}
		r := measure(cs, dir, 0)
		if r.Err != "" && n < 3 && (strings.Contains(r.Err, "undefined") || strings.Contains(r.Err, "invalid types")) {
			n++
			fmt.Println("@@@@ ", r.Err)
			fmt.Println(cs.Main)
			for _, f := range cs.Files {
				fmt.Println("=====", f.Path)
				fmt.Println(f.Text)
			}
		}
	})
}
