package c08

import (
	"fmt"
	"strings"

	"pgregory.net/rapid"
)

// Constructive MPCL program generators.  Every choice is a rapid draw; the
// result is source text (plain data in the Case).

type ityp struct {
	name   string
	bits   int
	signed bool
}

func mkType(signed bool, bits int) ityp {
	n := "uint"
	if signed {
		n = "int"
	}
	return ityp{name: fmt.Sprintf("%s%d", n, bits), bits: bits, signed: signed}
}

// genWidths are the operand widths of the generated programs.  The second
// half are widths for which compiler/circuits/circ_multiplier_params.go has a
// tuned Karatsuba/array multiplier threshold (16-21, 37-41, 71-81, ...); the
// first half falls back to the generic default.
var genWidths = []int{8, 32, 64, 7, 13, 24, 33, 16, 17, 20, 21, 37, 40, 41, 18}

// tunedMultWidth mirrors the key set of circuits.multiplierArrayTresholds for
// the widths used here (classes only: the oracle does not depend on it).
func tunedMultWidth(bits int) bool {
	return (bits >= 16 && bits <= 21) || (bits >= 37 && bits <= 41) || (bits >= 71 && bits <= 81)
}

func drawType(t *rapid.T, label string) ityp {
	signed := rapid.IntRange(0, 3).Draw(t, label+"-signed") == 0
	bits := rapid.SampledFrom(genWidths).Draw(t, label+"-bits")
	return mkType(signed, bits)
}

// limit is the exclusive upper bound for literals used with type T: they fit
// the positive range of T and the 32-bit small-constant path.
func (ty ityp) limit() int {
	b := ty.bits - 1
	if b > 30 {
		b = 30
	}
	return 1 << uint(b)
}

type cdef struct {
	name  string
	typ   string // "" = untyped
	value int
}

// pgen generates expressions and statements over one integer type.
type pgen struct {
	t        *rapid.T
	ty       ityp
	vars     []string // assignable variables in scope (input dependent)
	reads    []string // read-only input-dependent operands (a, b, x)
	stat     []string // operands with a value known at compile time (package variables)
	consts   []cdef
	calls    []string // call templates with %s for the argument
	ncalls   int      // calls emitted by leaf (bounded: callees are inlined)
	mults    int
	nbuiltin int
	noIntern bool // history programs do not intern: the symbol table of a shared Params object is state by design
	sb       strings.Builder
}

// maxMults bounds the multiplications of one function (a 64-bit multiplier
// has 23000 gates, a 16-bit one 1900).
func (g *pgen) maxMults() int {
	switch {
	case g.ty.bits >= 64:
		return 1
	case g.ty.bits > 32:
		return 2
	}
	return 3
}

func (g *pgen) lit() string {
	lim := g.ty.limit()
	switch rapid.IntRange(0, 3).Draw(g.t, "litkind") {
	case 0:
		return fmt.Sprintf("%d", rapid.IntRange(1, 3).Draw(g.t, "lit"))
	case 1:
		return fmt.Sprintf("0x%x", rapid.IntRange(1, lim-1).Draw(g.t, "lit"))
	default:
		return fmt.Sprintf("%d", rapid.IntRange(1, lim-1).Draw(g.t, "lit"))
	}
}

// operand returns an input-dependent operand.
func (g *pgen) operand() string {
	ops := append(append([]string{}, g.vars...), g.reads...)
	return rapid.SampledFrom(ops).Draw(g.t, "operand")
}

// anyOperand returns an input-dependent operand or a package variable.
func (g *pgen) anyOperand() string {
	if len(g.stat) > 0 && rapid.Bool().Draw(g.t, "static") {
		return rapid.SampledFrom(g.stat).Draw(g.t, "statop")
	}
	return g.operand()
}

func (g *pgen) constRef() string {
	if len(g.consts) == 0 {
		return g.lit()
	}
	c := rapid.SampledFrom(g.consts).Draw(g.t, "const")
	if c.typ == "" && c.value < g.ty.limit() {
		return c.name
	}
	return fmt.Sprintf("%s(%s)", g.ty.name, c.name)
}

// leaf is any operand, constant ones included.
func (g *pgen) leaf() string {
	switch rapid.IntRange(0, 9).Draw(g.t, "leaf") {
	case 0, 1, 2, 3:
		return g.anyOperand()
	case 4, 5:
		return g.lit()
	case 6, 7, 8:
		return g.constRef()
	default:
		if len(g.calls) > 0 && g.ncalls < 1 {
			g.ncalls++
			c := rapid.SampledFrom(g.calls).Draw(g.t, "call")
			return fmt.Sprintf(c, g.operand())
		}
		return g.operand()
	}
}

var binOps = []string{"+", "-", "*", "&", "|", "^", "+", "^"}

// expr returns an expression in which every operator has an input-dependent
// left operand and two textually different operands, so that nothing is
// folded to a constant (folded values get type int32 and no longer combine
// with T; C12 owns folding).
func (g *pgen) expr(depth int) string {
	if depth <= 0 || rapid.IntRange(0, 3).Draw(g.t, "stop") == 0 {
		return g.operand()
	}
	op := rapid.SampledFrom(binOps).Draw(g.t, "op")
	if op == "*" {
		if g.mults >= g.maxMults() {
			op = "+"
		} else {
			g.mults++
		}
	}
	l := g.expr(depth - 1)
	var r string
	if rapid.Bool().Draw(g.t, "rleaf") {
		r = g.leaf()
	} else {
		r = g.expr(depth - 1)
	}
	if l == r {
		r = g.lit()
	}
	if rapid.IntRange(0, 4).Draw(g.t, "swap") == 0 && op != "-" {
		l, r = r, l
	}
	return "(" + l + " " + op + " " + r + ")"
}

var cmpOps = []string{"<", "<=", ">", ">=", "==", "!="}

func (g *pgen) cond() string {
	op := rapid.SampledFrom(cmpOps).Draw(g.t, "cmp")
	return g.expr(1) + " " + op + " " + g.leaf()
}

func (g *pgen) line(indent int, format string, a ...interface{}) {
	g.sb.WriteString(strings.Repeat("\t", indent))
	fmt.Fprintf(&g.sb, format, a...)
	g.sb.WriteString("\n")
}

// stmts emits n statements; new variables are only declared at indent 1.
func (g *pgen) stmts(n, indent int, tags map[string]bool) {
	for i := 0; i < n; i++ {
		k := rapid.IntRange(0, 9).Draw(g.t, "stmt")
		switch {
		case indent == 1 && rapid.IntRange(0, 7).Draw(g.t, "builtin") == 0:
			// A built-in whose value is a number fixed at compile time and
			// kept in a table of the Params object (intern), or derived
			// from a type (size, len).
			tags["has-builtin"] = true
			name := fmt.Sprintf("n%d", g.nbuiltin)
			g.nbuiltin++
			kind := rapid.IntRange(0, 2).Draw(g.t, "builtinkind")
			if g.noIntern && kind < 2 {
				kind = 2
			}
			switch kind {
			case 0, 1:
				sym := rapid.SampledFrom(internSymbols).Draw(g.t, "symbol")
				if rapid.Bool().Draw(g.t, "internvar") {
					g.line(indent, "var %s int32 = intern(%s)", name, sym)
				} else {
					g.line(indent, "%s := intern(%s)", name, sym)
				}
			case 2:
				g.line(indent, "%s := size(%s)", name, rapid.SampledFrom(g.vars).Draw(g.t, "sizeof"))
			}
			v := rapid.SampledFrom(g.vars).Draw(g.t, "builtinuse")
			g.line(indent, "%s = (%s + %s(%s))", v, v, g.ty.name, name)
		case k <= 2 && indent == 1:
			name := fmt.Sprintf("v%d", len(g.vars))
			if rapid.Bool().Draw(g.t, "vardecl") {
				g.line(indent, "var %s %s = %s", name, g.ty.name, g.expr(2))
			} else {
				g.line(indent, "%s := %s", name, g.expr(2))
			}
			g.vars = append(g.vars, name)
		case k <= 5 || indent > 2:
			v := rapid.SampledFrom(g.vars).Draw(g.t, "assign")
			g.line(indent, "%s = %s", v, g.expr(2))
		case k <= 7:
			tags["has-if"] = true
			v := rapid.SampledFrom(g.vars).Draw(g.t, "ifvar")
			g.line(indent, "if %s {", g.cond())
			g.line(indent+1, "%s = %s", v, g.expr(2))
			if rapid.Bool().Draw(g.t, "else") {
				g.line(indent, "} else {")
				g.line(indent+1, "%s = %s", v, g.expr(2))
			}
			g.line(indent, "}")
		default:
			tags["has-loop"] = true
			v := rapid.SampledFrom(g.vars).Draw(g.t, "loopvar")
			bound := rapid.IntRange(1, 4).Draw(g.t, "bound")
			ctr := fmt.Sprintf("i%d", indent)
			g.line(indent, "for %s := 0; %s < %d; %s++ {", ctr, ctr, bound, ctr)
			op := rapid.SampledFrom([]string{"+", "^", "-", "|"}).Draw(g.t, "loopop")
			g.line(indent+1, "%s = (%s %s %s)", v, v, op, g.expr(1))
			g.line(indent, "}")
		}
	}
}

// internSymbols are the identifiers handed to intern(): the ID of a symbol is
// its position in the table that lives in the Params object, so it depends on
// which symbols earlier compilations on the same Params interned.
var internSymbols = []string{"red", "green", "blue", "alpha", "beta", "gamma", "x0", "x1"}

var constTypes = []string{"", "", "uint8", "uint16", "uint32", "uint64", "int8", "int16",
	"int32", "int64", "uint7", "int33"}

func typeBits(name string) int {
	var b int
	fmt.Sscanf(strings.TrimLeft(name, "uint"), "%d", &b)
	return b
}

// drawConsts draws n constant definitions whose values fit both their own
// type and T (so that T(c) is value preserving).
func drawConsts(t *rapid.T, ty ityp, prefix string, n int) []cdef {
	var res []cdef
	for i := 0; i < n; i++ {
		ct := rapid.SampledFrom(constTypes).Draw(t, "ctype")
		lim := ty.limit()
		if ct != "" {
			if b := typeBits(ct) - 1; b < 30 && 1<<uint(b) < lim {
				lim = 1 << uint(b)
			}
		}
		res = append(res, cdef{
			name:  fmt.Sprintf("%s%d", prefix, i),
			typ:   ct,
			value: rapid.IntRange(1, lim-1).Draw(t, "cval"),
		})
	}
	return res
}

func writeConsts(sb *strings.Builder, t *rapid.T, consts []cdef) {
	block := false
	for i, c := range consts {
		def := c.name
		if c.typ != "" {
			def += " " + c.typ
		}
		def += fmt.Sprintf(" = %d", c.value)
		if !block && i+1 < len(consts) && rapid.IntRange(0, 2).Draw(t, "cblock") == 0 {
			sb.WriteString("const (\n")
			block = true
		}
		if block {
			sb.WriteString("\t" + def + "\n")
			if i+1 == len(consts) || rapid.IntRange(0, 2).Draw(t, "cblockend") == 0 {
				sb.WriteString(")\n")
				block = false
			}
		} else {
			sb.WriteString("const " + def + "\n")
		}
	}
}

// drawSingleProgram draws a single-file program: several untyped and typed
// constants of different widths, a two-party main over one integer type with
// assignments, if/else, loops and many distinct literals.  With forceMult the
// first statement multiplies the two inputs (else its operator is drawn).
func drawSingleProgram(t *rapid.T, forceMult bool) (string, []string) {
	ty := drawType(t, "T")
	maxConst, maxStmt := 12, 7
	if forceMult {
		// A program for the history: small.
		maxConst, maxStmt = 5, 3
	}
	nconst := rapid.IntRange(3, maxConst).Draw(t, "nconst")
	consts := drawConsts(t, ty, "C", nconst)
	tags := map[string]bool{}

	var sb strings.Builder
	sb.WriteString("package main\n\n")
	writeConsts(&sb, t, consts)
	sb.WriteString("\n")

	g := &pgen{t: t, ty: ty, reads: []string{"a", "b"}, consts: consts, noIntern: forceMult}
	g.line(0, "func main(a %s, b %s) %s {", ty.name, ty.name, ty.name)
	op0 := rapid.SampledFrom([]string{"*", "+", "^", "-", "&", "*"}).Draw(t, "op0")
	if forceMult {
		op0 = "*"
	}
	if op0 == "*" {
		g.mults++
	}
	g.line(1, "v0 := (a %s b)", op0)
	g.vars = append(g.vars, "v0")
	g.stmts(rapid.IntRange(2, maxStmt).Draw(t, "nstmt"), 1, tags)
	g.line(1, "return %s", g.expr(2))
	g.line(0, "}")
	sb.WriteString(g.sb.String())

	res := []string{fmt.Sprintf("T=%s", map[bool]string{true: "signed", false: "unsigned"}[ty.signed])}
	if ty.bits > 32 {
		res = append(res, "T>32bits")
	}
	if tunedMultWidth(ty.bits) {
		res = append(res, "T-width=tuned-mult-threshold")
	} else {
		res = append(res, "T-width=default-mult-threshold")
	}
	if g.mults > 0 {
		tags["has-mult"] = true
	}
	for _, k := range []string{"has-if", "has-loop", "has-mult", "has-builtin"} {
		if tags[k] {
			res = append(res, k)
		}
	}
	return sb.String(), res
}

// ---------------------------------------------------------------------------
// Multi-package programs.

var pkgNames = []string{"pa", "pb", "pc", "pd", "pe", "alpha", "zeta", "m1", "kilo", "q"}

type gpkg struct {
	name    string   // package name (the package clause of its files)
	path    string   // import path (directory below the package root)
	alias   bool     // importers must name the package explicitly
	imports []int    // indices of lower packages
	fn      string   // exported function name
	vars    []string // package-level scalar variables
}

// importLine is the import declaration of p inside an import ( ... ) block.
// The compiler keys its package table by the local name and requires the
// package clause of the imported files to be equal to it (Parser.Parse:
// "found packages X and Y"); the directory is free.  So an explicit name is
// needed exactly when the last path component is not the package name
// ("codec \"acme/codec/v2\""), and is allowed (when equal) otherwise.
func importLine(t *rapid.T, p *gpkg) string {
	if p.alias || rapid.IntRange(0, 3).Draw(t, "explicit-alias") == 0 {
		return fmt.Sprintf("\t%s %q\n", p.name, p.path)
	}
	return fmt.Sprintf("\t%q\n", p.path)
}

func lastComponent(p string) string {
	if i := strings.LastIndex(p, "/"); i >= 0 {
		return p[i+1:]
	}
	return p
}

// sharedBase tells whether two of the packages l have import paths that end
// in the same component.
func sharedBase(pkgs []gpkg, l []int) bool {
	for i, a := range l {
		for _, b := range l[:i] {
			if lastComponent(pkgs[a].path) == lastComponent(pkgs[b].path) {
				return true
			}
		}
	}
	return false
}

var (
	pkgOrgs     = []string{"acme", "acme", "lib/x", "org"}
	pkgVersions = []string{"v2", "v2", "v3"}
)

// multiPkgs is a drawn set of library packages.
type multiPkgs struct {
	ty     ityp
	pkgs   []gpkg
	files  []File
	tags   map[string]bool
	twinA  int
	twinB  int
	nmains int
	// wrappers: packages 2 and 3 are declaration-only importers of 0, 1.
	wrappers bool
}

// dropTwin removes the second twin from an import list that has both.
func (m *multiPkgs) dropTwin(l []int) []int {
	hasA := false
	for _, j := range l {
		hasA = hasA || j == m.twinA
	}
	if !hasA || m.twinA < 0 {
		return l
	}
	var res []int
	for _, j := range l {
		if j != m.twinB {
			res = append(res, j)
		}
	}
	return res
}

func (m *multiPkgs) tagList() []string {
	var res []string
	for k := range m.tags {
		res = append(res, k)
	}
	sortStrings(res)
	return res
}

// drawMultiPackages writes 2-5 library packages (constants, a type,
// package-level variables - some with initialisers that are not folded to a
// constant -, a function; some packages import earlier ones).  Directory
// layouts: flat ("pa"), below an organisation directory ("acme/pa"), Go style
// major version directories ("pa/v2", "acme/pa/v3": the last path component
// is not the package name and is shared by several packages), and two
// same-named packages in different directories ("da/pa", "db/pa").
func drawMultiPackages(t *rapid.T) *multiPkgs {
	m := &multiPkgs{tags: map[string]bool{}, twinA: -1, twinB: -1}
	m.ty = mkType(rapid.IntRange(0, 5).Draw(t, "signed") == 0,
		rapid.SampledFrom([]int{8, 16, 20, 32, 64, 13, 16, 40}).Draw(t, "bits"))
	ty := m.ty
	npk := rapid.IntRange(2, 5).Draw(t, "npkg")
	// Declaration-only wrappers: packages 2 and 3 have no package-level
	// variables and import package 0 and 1 (which have some); the measured
	// main imports the two wrappers only, so the variable packages are
	// reached through them.
	wrappers := rapid.IntRange(0, 5).Draw(t, "wrappers") == 0
	if wrappers {
		npk = 4
		m.wrappers = true
		m.tags["declaration-only-wrappers"] = true
	}
	names := rapid.Permutation(pkgNames).Draw(t, "names")[:npk]
	collide := rapid.Bool().Draw(t, "collide") // same variable names in all packages
	tags := m.tags
	if collide {
		tags["same-var-names"] = true
	}

	// Same-named packages: one time in four two packages share their name
	// and live in different directories; no importer sees both (the package
	// table of a compilation is keyed by the local name).
	if npk >= 3 && !wrappers && rapid.IntRange(0, 3).Draw(t, "twins") == 0 {
		ab := rapid.Permutation(seq(npk)).Draw(t, "twinpair")[:2]
		sortInts(ab)
		m.twinA, m.twinB = ab[0], ab[1]
		names[m.twinB] = names[m.twinA]
		tags["same-named-pkgs"] = true
	}
	twinA, twinB := m.twinA, m.twinB

	// Layout of the import paths: all flat, all in version directories of
	// the same major version, or drawn per package.
	layout := rapid.SampledFrom([]string{"versioned", "flat", "mixed"}).Draw(t, "layout")
	version := rapid.SampledFrom(pkgVersions).Draw(t, "version")

	m.pkgs = make([]gpkg, npk)
	pkgs := m.pkgs
	for i := range pkgs {
		p := &pkgs[i]
		p.name = names[i]
		org, ver := "", ""
		switch layout {
		case "versioned":
			ver = version
			if rapid.IntRange(0, 2).Draw(t, "org") == 0 {
				org = rapid.SampledFrom(pkgOrgs).Draw(t, "orgname")
			}
		case "mixed":
			if rapid.Bool().Draw(t, "org") {
				org = rapid.SampledFrom(pkgOrgs).Draw(t, "orgname")
			}
			if rapid.Bool().Draw(t, "versioned") {
				ver = rapid.SampledFrom(pkgVersions).Draw(t, "pkgversion")
			}
		}
		if i == twinA {
			org = "da"
		} else if i == twinB {
			org = "db"
		}
		p.path = p.name
		if org != "" {
			p.path = org + "/" + p.path
			tags["nested-import-path"] = true
		}
		if ver != "" {
			p.path += "/" + ver
			p.alias = true
			tags["version-dir-import-path"] = true
		}
		p.fn = "Fn"
		prefix := ""
		if !collide {
			prefix = p.name + "x"
		}
		// A third of the packages that can do so import at least two
		// earlier ones (a nested import map with several entries); the
		// others import each earlier package with probability 1/4.
		wrap := wrappers && i >= 2
		if wrap {
			p.imports = []int{i - 2}
		} else if i >= 2 && rapid.IntRange(0, 2).Draw(t, "hub") == 0 {
			n := rapid.IntRange(2, i).Draw(t, "nhubdeps")
			p.imports = append(p.imports, rapid.Permutation(seq(i)).Draw(t, "hubdeps")[:n]...)
			sortInts(p.imports)
		} else {
			for j := 0; j < i; j++ {
				if rapid.IntRange(0, 3).Draw(t, "dep") == 0 {
					p.imports = append(p.imports, j)
				}
			}
		}
		p.imports = m.dropTwin(p.imports)
		if i == twinB {
			// A package does not import its own namesake.
			var l []int
			for _, j := range p.imports {
				if j != twinA {
					l = append(l, j)
				}
			}
			p.imports = l
		}
		if len(p.imports) > 0 {
			tags["pkg-imports-pkg"] = true
		}
		if len(p.imports) >= 2 {
			tags["pkg-imports>=2-pkgs"] = true
			if sharedBase(pkgs, p.imports) {
				tags["pkg-imports-share-last-path-component"] = true
			}
		}

		var hdr, body strings.Builder
		fmt.Fprintf(&hdr, "package %s\n\n", p.name)
		if len(p.imports) > 0 {
			order := rapid.Permutation(p.imports).Draw(t, "deporder")
			hdr.WriteString("import (\n")
			for _, j := range order {
				hdr.WriteString(importLine(t, &pkgs[j]))
			}
			hdr.WriteString(")\n\n")
		}
		consts := drawConsts(t, ty, "K", rapid.IntRange(0, 4).Draw(t, "nconst"))
		writeConsts(&body, t, consts)
		body.WriteString("\n")

		// A type.
		tkind := rapid.IntRange(0, 2).Draw(t, "tkind")
		switch tkind {
		case 0:
			fmt.Fprintf(&body, "type Rec struct {\n\tp %s\n\tq %s\n}\n\n", ty.name, ty.name)
		case 1:
			fmt.Fprintf(&body, "type Vec [4]%s\n\n", ty.name)
		default:
			fmt.Fprintf(&body, "type Word = %s\n\n", ty.name)
		}

		// Package-level variables.
		var vars strings.Builder
		g := &pgen{t: t, ty: ty, consts: consts, noIntern: true}
		g.mults = g.maxMults() - 1 // at most one multiplication per package
		nvars := rapid.IntRange(0, 3).Draw(t, "nvars")
		if i < 2 && nvars == 0 {
			nvars = 1
		}
		if wrap {
			nvars = 0
		}
		for v := 0; v < nvars; v++ {
			name := fmt.Sprintf("%sg%d", prefix, v)
			switch rapid.IntRange(0, 2).Draw(t, "varform") {
			case 0:
				fmt.Fprintf(&vars, "var %s %s = %s\n", name, ty.name, g.lit())
			case 1:
				fmt.Fprintf(&vars, "var %s = %s(%s)\n", name, ty.name, g.lit())
			default:
				if len(consts) > 0 {
					fmt.Fprintf(&vars, "var %s %s = %s\n", name, ty.name, g.constRef())
				} else {
					// Zero valued: not read by Fn.
					fmt.Fprintf(&vars, "var %s %s\n", name, ty.name)
					continue
				}
			}
			p.vars = append(p.vars, name)
		}
		// Compound variables and initialisers computed from them: these are
		// not folded, i.e. the package initialiser contributes instructions
		// and gates.
		if !wrap && rapid.IntRange(0, 2).Draw(t, "compound") > 0 {
			tab := prefix + "tab"
			fmt.Fprintf(&vars, "var %s = [4]%s{%s, %s, %s, %s}\n", tab, ty.name,
				g.lit(), g.lit(), g.lit(), g.lit())
			g.stat = append(g.stat, tab+"[0]", tab+"[3]")
			if rapid.Bool().Draw(t, "derived") {
				tags["init-computes"] = true
				name := prefix + "d0"
				op := rapid.SampledFrom([]string{"+", "*", "^", "-"}).Draw(t, "dop")
				fmt.Fprintf(&vars, "var %s %s = %s[1] %s %s[2]\n", name, ty.name, tab, op, tab)
				p.vars = append(p.vars, name)
			}
		}
		if !wrap && tkind == 0 && rapid.Bool().Draw(t, "recvar") {
			rec := prefix + "rec"
			fmt.Fprintf(&vars, "var %s = Rec{p: %s, q: %s}\n", rec, g.lit(), g.lit())
			// (Fields of package-level structs cannot be read inside
			// functions: "package 'rec' not found".)
			if rapid.Bool().Draw(t, "derived2") {
				tags["init-computes"] = true
				// (Not read by Fn: the compiler sometimes reports such
				// a variable as undefined there.)
				name := prefix + "d1"
				fmt.Fprintf(&vars, "var %s %s = %s.p + %s.q\n", name, ty.name, rec, rec)
			}
		}
		if !wrap && len(p.imports) > 0 && rapid.IntRange(0, 2).Draw(t, "callinit") == 0 {
			tags["init-calls-import"] = true
			name := prefix + "d2"
			dep := pkgs[rapid.SampledFrom(p.imports).Draw(t, "initdep")]
			arg := g.lit()
			if len(p.vars) > 0 {
				arg = p.vars[0]
			}
			fmt.Fprintf(&vars, "var %s %s = %s.%s(%s)\n", name, ty.name, dep.name, dep.fn, arg)
			p.vars = append(p.vars, name)
		}

		// The function.
		g.vars = nil
		g.stat = append(g.stat, p.vars...)
		g.reads = []string{"x"}
		for _, j := range p.imports {
			g.calls = append(g.calls, pkgs[j].name+"."+pkgs[j].fn+"(%s)")
		}
		var fn strings.Builder
		fmt.Fprintf(&fn, "func %s(x %s) %s {\n", p.fn, ty.name, ty.name)
		if rapid.Bool().Draw(t, "fnlocal") {
			fmt.Fprintf(&fn, "\tvar r %s = %s\n", ty.name, g.expr(2))
			g.vars = append(g.vars, "r")
		}
		fmt.Fprintf(&fn, "\treturn %s\n}\n", g.expr(2))

		// One or two files.  All variables and the function stay in one
		// file: the order of variables is the file order, which the
		// directory listing decides, and a function in another file than
		// the variables it reads is sometimes rejected ("undefined
		// variable").
		if rapid.IntRange(0, 2).Draw(t, "split") == 0 {
			tags["multi-file-pkg"] = true
			m.files = append(m.files,
				File{Path: p.path + "/defs.mpcl", Text: "package " + p.name + "\n\n" + body.String()},
				File{Path: p.path + "/code.mpcl", Text: hdr.String() + vars.String() + "\n" + fn.String()})
		} else {
			m.files = append(m.files, File{Path: p.path + "/" + p.name + ".mpcl",
				Text: hdr.String() + body.String() + vars.String() + "\n" + fn.String()})
		}
	}
	return m
}

// drawMultiMain draws a main over the packages: it imports a subset (at least
// one, mostly at least two) in a drawn order and calls every imported
// package once.
func drawMultiMain(t *rapid.T, m *multiPkgs) string {
	ty, pkgs := m.ty, m.pkgs
	npk := len(pkgs)
	order := rapid.Permutation(seq(npk)).Draw(t, "importorder")
	nimp := rapid.IntRange(1, npk).Draw(t, "nimports")
	if nimp == 1 && rapid.IntRange(0, 3).Draw(t, "single-import") > 0 {
		nimp = 2
	}
	order = m.dropTwin(order[:nimp])
	if m.wrappers && m.nmains == 0 {
		order = rapid.Permutation([]int{2, 3}).Draw(t, "wraporder")
	}
	if m.nmains == 0 && sharedBase(pkgs, order) {
		m.tags["main-imports-share-last-path-component"] = true
	}
	m.nmains++
	var sb strings.Builder
	sb.WriteString("package main\n\nimport (\n")
	g := &pgen{t: t, ty: ty, reads: []string{"a", "b"}, noIntern: true}
	for _, j := range order {
		sb.WriteString(importLine(t, &pkgs[j]))
		g.calls = append(g.calls, pkgs[j].name+"."+pkgs[j].fn+"(%s)")
	}
	sb.WriteString(")\n\n")
	g.consts = drawConsts(t, ty, "M", rapid.IntRange(0, 4).Draw(t, "nmainconst"))
	writeConsts(&sb, t, g.consts)
	if rapid.Bool().Draw(t, "mainvar") {
		fmt.Fprintf(&sb, "\nvar gm %s = %s\n", ty.name, g.lit())
		g.stat = append(g.stat, "gm")
	}
	sb.WriteString("\n")
	g.line(0, "func main(a %s, b %s) %s {", ty.name, ty.name, ty.name)
	g.line(1, "r := (a ^ b)")
	g.vars = []string{"r"}
	// Call every imported package once, in a drawn order.
	for _, k := range rapid.Permutation(seq(len(g.calls))).Draw(t, "callorder") {
		op := rapid.SampledFrom([]string{"+", "^", "-"}).Draw(t, "callop")
		g.line(1, "r = (r %s %s)", op, fmt.Sprintf(g.calls[k], g.operand()))
	}
	st := map[string]bool{}
	g.stmts(rapid.IntRange(0, 3).Draw(t, "nstmt"), 1, st)
	g.line(1, "return %s", g.expr(1))
	g.line(0, "}")
	sb.WriteString(g.sb.String())
	return sb.String()
}

// drawMultiProgram draws a set of library packages, the measured main and
// 0-2 further mains over the same packages (used as earlier compilations).
func drawMultiProgram(t *rapid.T) (string, []string, []File, []string) {
	m := drawMultiPackages(t)
	main := drawMultiMain(t, m)
	var hist []string
	for i := rapid.SampledFrom([]int{0, 1, 1, 2}).Draw(t, "nhistmains"); i > 0; i-- {
		hist = append(hist, drawMultiMain(t, m))
	}
	return main, hist, m.files, m.tagList()
}

func seq(n int) []int {
	r := make([]int, n)
	for i := range r {
		r[i] = i
	}
	return r
}

func sortInts(s []int) {
	for i := 1; i < len(s); i++ {
		for j := i; j > 0 && s[j] < s[j-1]; j-- {
			s[j], s[j-1] = s[j-1], s[j]
		}
	}
}

func sortStrings(s []string) {
	for i := 1; i < len(s); i++ {
		for j := i; j > 0 && s[j] < s[j-1]; j-- {
			s[j], s[j-1] = s[j-1], s[j]
		}
	}
}

// ---------------------------------------------------------------------------
// Programs over packages that ship native circuit files.

// drawBristol draws a tiny two-input, one-output circuit over w-bit values in
// Bristol format: out[i] = a[i] op b[p(i)], optionally followed by a second
// layer combining with a[q(i)].
func drawBristol(t *rapid.T, w int, layers int) string {
	ops := []string{"XOR", "AND", "OR", "XNOR"}
	var gates []string
	perm := rapid.Permutation(seq(w)).Draw(t, "bperm")
	next := 2 * w
	if layers == 2 {
		next = 3 * w // first layer writes 2w..3w-1, outputs are 3w..4w-1
	}
	for i := 0; i < w; i++ {
		op := rapid.SampledFrom(ops).Draw(t, "bop")
		gates = append(gates, fmt.Sprintf("2 1 %d %d %d %s", i, w+perm[i], 2*w+i, op))
	}
	if layers == 2 {
		perm2 := rapid.Permutation(seq(w)).Draw(t, "bperm2")
		for i := 0; i < w; i++ {
			op := rapid.SampledFrom(ops).Draw(t, "bop2")
			gates = append(gates, fmt.Sprintf("2 1 %d %d %d %s", 2*w+i, perm2[i], next+i, op))
		}
	}
	nwires := next + w
	if layers == 1 {
		nwires = 3 * w
	}
	return fmt.Sprintf("%d %d\n2 %d %d\n1 %d\n\n%s\n", len(gates), nwires, w, w, w,
		strings.Join(gates, "\n"))
}

var circNames = []string{"op.circ", "op.circ", "op.circ", "f.circ"}

// drawNativeProgram draws 2-4 packages that each ship a small circuit file -
// deliberately under the same file name with different contents - and a
// function G calling it through native(); a measured main calling some of
// them and 1-2 further mains (for histories) calling others.
func drawNativeProgram(t *rapid.T) (string, []string, []File, []string) {
	w := rapid.SampledFrom([]int{4, 8, 8, 16}).Draw(t, "width")
	ty := mkType(false, w)
	npk := rapid.IntRange(2, 4).Draw(t, "npkg")
	names := rapid.Permutation(pkgNames).Draw(t, "names")[:npk]
	tags := []string{fmt.Sprintf("native-width=%d", w)}
	var files []File
	twoLayers := false
	for i, name := range names {
		layers := 1
		if rapid.IntRange(0, 4).Draw(t, "layers") == 0 {
			layers = 2
			twoLayers = true
		}
		cname := rapid.SampledFrom(circNames).Draw(t, "circname")
		files = append(files, File{Path: name + "/" + cname, Text: drawBristol(t, w, layers)})
		g := &pgen{t: t, ty: ty, noIntern: true}
		var sb strings.Builder
		fmt.Fprintf(&sb, "package %s\n\n", name)
		fmt.Fprintf(&sb, "const K%d = %s\n\n", i, g.lit())
		fmt.Fprintf(&sb, "var g%d %s = %s\n\n", i, ty.name, g.lit())
		fmt.Fprintf(&sb, "func G(a, b %s) %s {\n\treturn native(%q, a, b)\n}\n\n", ty.name, ty.name, cname)
		fmt.Fprintf(&sb, "func H(x %s) %s {\n\treturn G(x, g%d) ^ K%d\n}\n", ty.name, ty.name, i, i)
		files = append(files, File{Path: name + "/" + name + ".mpcl", Text: sb.String()})
	}
	if twoLayers {
		tags = append(tags, "native-gate-counts-differ")
	}
	mkMain := func(label string) string {
		n := rapid.IntRange(1, npk).Draw(t, label+"-nimports")
		order := rapid.Permutation(seq(npk)).Draw(t, label+"-order")[:n]
		var sb strings.Builder
		sb.WriteString("package main\n\nimport (\n")
		for _, j := range order {
			fmt.Fprintf(&sb, "\t%q\n", names[j])
		}
		sb.WriteString(")\n\n")
		fmt.Fprintf(&sb, "const M0 = %d\nconst M1 %s = %d\n\n", rapid.IntRange(1, 7).Draw(t, label+"-m0"),
			ty.name, rapid.IntRange(1, 7).Draw(t, label+"-m1"))
		fmt.Fprintf(&sb, "func main(a %s, b %s) %s {\n\tr := (a ^ M1)\n", ty.name, ty.name, ty.name)
		for _, j := range order {
			if rapid.Bool().Draw(t, label+"-useH") {
				fmt.Fprintf(&sb, "\tr = (r + %s.H(b))\n", names[j])
			} else {
				fmt.Fprintf(&sb, "\tr = (r ^ %s.G(r, b))\n", names[j])
			}
		}
		sb.WriteString("\treturn (r + M0)\n}\n")
		return sb.String()
	}
	main := mkMain("main")
	var hist []string
	for i := rapid.IntRange(1, 2).Draw(t, "nhistmains"); i > 0; i-- {
		hist = append(hist, mkMain(fmt.Sprintf("hist%d", i)))
	}
	return main, hist, files, tags
}
