package c08

// histProgs are the programs compiled as "earlier compilations".
var histProgs = []string{
	// 0: trivial
	`package main

func main(a, b uint8) uint8 {
	return a + b
}
`,
	// 1: constants, branch, loop
	`package main

const A = 7
const B uint16 = 300

const (
	C int32 = 70000
	D       = 0xffff
)

func main(a, b uint32) uint32 {
	r := a * 3
	if a > b {
		r = r + uint32(B) + A
	} else {
		r = r ^ D
	}
	for i := 0; i < 3; i++ {
		r = r + b
	}
	return r + uint32(C)
}
`,
	// 2: library constants
	`package main

import (
	"math"
)

func main(a, b uint64) (uint64, uint64) {
	return a + math.MaxUint16, b & math.MaxUint32
}
`,
	// 3: library packages with and without package-level variables
	`package main

import (
	"bytes"
	"encoding/hex"
)

func main(a, b [4]byte) (string, int) {
	return hex.EncodeToString(a), bytes.Compare(a, b)
}
`,
	// 4: does not compile
	`package main

func main(a, b uint8) uint8 {
	return a + undefined
}
`,
}

type fixedProg struct {
	Case
	slow      bool // fewer repetitions
	many      bool // cheap and order-sensitive: 40 in-process repetitions
	noGMW     bool // contains a division: the GMW divider has millions of gates
	noPrune   bool // pruning removes the gates that make the circuit order-sensitive
	noHistory bool
}

func noGMW(p fixedProg) fixedProg {
	p.noGMW = true
	return p
}

func slowRepo(name string, sizes [][]int) fixedProg {
	p := repo(name, sizes)
	p.slow = true
	return p
}

func repo(name string, sizes [][]int) fixedProg {
	return fixedProg{Case: Case{Kind: "repo", Name: name, Sizes: sizes}}
}

func lib(name, main string) fixedProg {
	return fixedProg{Case: Case{Kind: "lib", Name: name, Main: main, Tags: []string{"lib:" + name}},
		many: true}
}

// fixedPrograms is the list of repository programs (measured: each compiles
// in at most 0.5 s with at most 100 MB RSS under every option combination
// used; the thorough tier adds three programs of about 1 s / 110 MB) and of
// small mains over the repository's library packages that define
// package-level variables (crypto/aes, crypto/curve25519, encoding/hex,
// crypto/ed25519/internal/edwards25519).  Nothing here imports crypto/sha512.
func fixedPrograms(thorough bool) []fixedProg {
	res := []fixedProg{
		repo("testsuite/lang/pkg.mpcl", nil),
		repo("testsuite/bytes/compare.mpcl", [][]int{{64}, {64}}),
		repo("testsuite/bytes/has_prefix.mpcl", [][]int{{64}, {32}}),
		repo("apps/garbled/examples/add.mpcl", nil),
		noGMW(slowRepo("apps/garbled/examples/div.mpcl", nil)),
		repo("apps/garbled/examples/hamming.mpcl", nil),
		slowRepo("apps/garbled/examples/key-import.mpcl", nil),
		repo("apps/garbled/examples/credit.mpcl", nil),
		noGMW(repo("apps/garbled/examples/rps.mpcl", nil)),
		slowRepo("testsuite/crypto/sha1.mpcl", [][]int{{64}, {64}}),
		slowRepo("apps/garbled/examples/aesblock2.mpcl", nil),
		lib("hex+aes", `package main

import (
	"encoding/hex"
	"crypto/aes"
)

const Rounds = 3
const Mask uint8 = 0x5a
const Wide = 0x1234567

func main(a, b [4]byte) (string, int) {
	for i := 0; i < Rounds; i++ {
		a[i] = a[i] ^ Mask ^ b[i]
	}
	return hex.EncodeToString(a), aes.BlockSize + Wide
}
`),
		lib("curve+hex+edwards", `package main

import (
	"crypto/curve25519"
	"encoding/hex"
	"crypto/ed25519/internal/edwards25519"
)

func main(a, b [2]byte) (string, int32) {
	var fe edwards25519.FieldElement
	fe[0] = int32(a[0])
	fe[1] = int32(b[1])
	return hex.EncodeToString(a), fe[0] + fe[1] + edwards25519.SqrtM1[0]
}
`),
		lib("aes+curve+hex+math", `package main

import (
	"crypto/aes"
	"crypto/curve25519"
	"encoding/hex"
	"math"
	"bytes"
)

func main(a, b [3]byte) (string, int, uint64) {
	return hex.EncodeToString(b), bytes.Compare(a, b), math.MaxUint32 + uint64(a[0])
}
`),
	}
	// Hand-minimised regression: two independent packages whose
	// initialisers emit instructions (array element reads are not folded);
	// the order in which they are initialised decides gate order and wire
	// numbering.
	res = append(res, fixedProg{many: true, noPrune: true, Case: Case{Kind: "multi", Name: "min-init-order",
		Tags: []string{"lib:min-init-order"},
		Main: `package main

import (
	"pa"
	"pb"
)

func main(a, b uint8) uint8 {
	return pa.F(a) ^ pb.F(b)
}
`,
		Files: []File{
			{Path: "pa/pa.mpcl", Text: `package pa

var t = [2]uint8{1, 2}
var d uint8 = t[0] + t[1]

func F(x uint8) uint8 {
	return x + d
}
`},
			{Path: "pb/pb.mpcl", Text: `package pb

var t = [2]uint8{5, 3}
var d uint8 = t[0] - t[1]

func F(x uint8) uint8 {
	return x + d
}
`},
		}}})
	if thorough {
		// Measured with every option combination: at most 1.2 s and
		// 110 MB RSS per compilation.  Larger examples (rsa, encrypt,
		// aescbc, ed25519, and itoa for GMW: millions of gates, GBs of
		// memory) are deliberately left out.
		for _, n := range []string{
			"apps/garbled/examples/chacha20block.mpcl",
			"apps/garbled/examples/aesexpand.mpcl",
			"testsuite/crypto/sha256_block.mpcl",
		} {
			p := repo(n, nil)
			p.slow = true
			res = append(res, p)
		}
	}
	return res
}
