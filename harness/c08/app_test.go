package c08

// Unit app: two parties that compile independently hold the same circuit -
// checked end to end through the command line tool.  One `garbled -e`
// evaluator process serves several garbler processes in a row; the program has
// an unsized garbler argument, so the circuit depends on the input sizes the
// garbler announces, and the evaluator has to compile again whenever they
// change.  Every session must print, on both sides, the values the program
// computes (reference: plain arithmetic on the bytes given on the command
// lines).

import (
	"bufio"
	"context"
	"fmt"
	"net"
	"os"
	"os/exec"
	"path/filepath"
	"regexp"
	"strings"
	"sync"
	"testing"
	"time"

	"pgregory.net/rapid"

	"verifharness/internal/ev"
)

// AppCase is one evaluator process and the garbler sessions it serves.
type AppCase struct {
	EvalIn   string   `json:"eval_in"`  // hex digits of the evaluator's [4]byte
	Sessions []string `json:"sessions"` // hex digits of each garbler's []byte
	Prune    bool     `json:"prune,omitempty"`
}

const appProgram = `package main

func main(a []byte, b [4]byte) (uint32, uint32) {
	var sum uint32
	for i := 0; i < len(a); i++ {
		sum = sum + uint32(a[i])
	}
	return sum + uint32(b[0]), uint32(a[len(a)-1]) + uint32(b[3])
}
`

func genApp(t *rapid.T) AppCase {
	var cs AppCase
	cs.EvalIn = hexBytes(t, 4, "evalin")
	n := rapid.IntRange(2, 4).Draw(t, "sessions")
	prev := 0
	for i := 0; i < n; i++ {
		l := rapid.SampledFrom([]int{1, 2, 2, 3, 4, 4, 7, 8, 16}).Draw(t, "len")
		if i > 0 && rapid.IntRange(0, 5).Draw(t, "plus64k") == 0 {
			// the previous size plus 2^16 bits
			l = prev + 8192
		}
		prev = l
		cs.Sessions = append(cs.Sessions, hexBytes(t, l, "in"))
	}
	cs.Prune = rapid.Bool().Draw(t, "prune")
	return cs
}

func hexBytes(t *rapid.T, n int, label string) string {
	var sb strings.Builder
	for i := 0; i < 2*n; i++ {
		sb.WriteByte("0123456789abcdef"[rapid.IntRange(0, 15).Draw(t, label)])
	}
	return sb.String()
}

func hexVals(s string) ([]int, bool) {
	if len(s)%2 != 0 || len(s) == 0 || len(s) > 70000 {
		return nil, false
	}
	var res []int
	for i := 0; i < len(s); i += 2 {
		var v int
		if _, err := fmt.Sscanf(s[i:i+2], "%02x", &v); err != nil {
			return nil, false
		}
		res = append(res, v)
	}
	return res, true
}

var reResult = regexp.MustCompile(`(?m)^Result\[(\d+)\]: (\d+)$`)

func parseResults(out string) []string {
	var res []string
	for _, m := range reResult.FindAllStringSubmatch(out, -1) {
		res = append(res, m[2])
	}
	return res
}

func freePort() (string, error) {
	ln, err := net.Listen("tcp", "127.0.0.1:0")
	if err != nil {
		return "", err
	}
	defer ln.Close()
	return ln.Addr().String(), nil
}

func runApp(cs AppCase) ev.Outcome {
	b, ok := hexVals(cs.EvalIn)
	if !ok || len(b) != 4 || len(cs.Sessions) == 0 || len(cs.Sessions) > 8 {
		return ev.Outcome{Skip: "malformed case"}
	}
	bin, err := garbledBinary()
	if err != nil {
		return cliSkip(err)
	}
	dir, err := os.MkdirTemp(os.Getenv("C08_SCRATCH"), "app-")
	if err != nil {
		return cliSkip(err)
	}
	defer os.RemoveAll(dir)
	prog := filepath.Join(dir, "prog.mpcl")
	if err := os.WriteFile(prog, []byte(appProgram), 0644); err != nil {
		return cliSkip(err)
	}
	addr, err := freePort()
	if err != nil {
		return cliSkip(err)
	}
	opt := "1"
	if !cs.Prune {
		opt = "0"
	}
	ctx, cancel := context.WithTimeout(context.Background(), 90*time.Second)
	defer cancel()
	ecmd := exec.CommandContext(ctx, bin, "-e", "-O", opt, "-port", addr, "-i", "0x"+cs.EvalIn, prog)
	ecmd.Dir = dir
	ecmd.Env = append(os.Environ(), "MPCLDIR="+repoRoot())
	eout, err := ecmd.StdoutPipe()
	if err != nil {
		return cliSkip(err)
	}
	ecmd.Stderr = ecmd.Stdout
	if err := ecmd.Start(); err != nil {
		return cliSkip(err)
	}
	var mu sync.Mutex
	var elog strings.Builder
	listening := make(chan struct{})
	done := make(chan struct{})
	go func() {
		defer close(done)
		sc := bufio.NewScanner(eout)
		sc.Buffer(make([]byte, 1<<20), 1<<20)
		first := true
		for sc.Scan() {
			mu.Lock()
			elog.WriteString(sc.Text())
			elog.WriteByte('\n')
			mu.Unlock()
			if first && strings.HasPrefix(sc.Text(), "Listening") {
				first = false
				close(listening)
			}
		}
	}()
	stop := func() {
		ecmd.Process.Kill()
		ecmd.Wait()
		<-done
	}
	select {
	case <-listening:
	case <-done:
		ecmd.Wait()
		return cliSkip(fmt.Errorf("evaluator process ended before listening: %s", elog.String()))
	case <-time.After(30 * time.Second):
		stop()
		return ev.Outcome{Skip: "evaluator process did not start listening in time (inconclusive)"}
	}
	defer stop()

	for si, in := range cs.Sessions {
		a, ok := hexVals(in)
		if !ok {
			return ev.Outcome{Skip: "malformed session input"}
		}
		sum := b[0]
		for _, v := range a {
			sum += v
		}
		want := []string{fmt.Sprint(sum), fmt.Sprint(a[len(a)-1] + b[3])}
		mu.Lock()
		before := len(parseResults(elog.String()))
		mu.Unlock()

		gctx, gcancel := context.WithTimeout(ctx, 40*time.Second)
		gcmd := exec.CommandContext(gctx, bin, "-O", opt, "-port", addr, "-i", "0x"+in, prog)
		gcmd.Dir = dir
		gcmd.Env = append(os.Environ(), "MPCLDIR="+repoRoot())
		gout, gerr := gcmd.CombinedOutput()
		timedOut := gctx.Err() != nil
		gcancel()
		desc := fmt.Sprintf("session %d of %d (garbler input 0x%s, %d bytes; evaluator input 0x%s; earlier sessions %v)",
			si+1, len(cs.Sessions), in, len(a), cs.EvalIn, cs.Sessions[:si])
		if timedOut {
			return ev.Fail("app/session-hangs", "%s: the garbler process did not finish within 40 s\nevaluator output:\n%s", desc, tail(elog.String(), &mu))
		}
		got := parseResults(string(gout))
		if gerr != nil || len(got) != 2 {
			return ev.Fail("app/garbler-error", "%s: garbler process: %v\n%s\nevaluator output:\n%s",
				desc, gerr, clip(string(gout), 600), tail(elog.String(), &mu))
		}
		if got[0] != want[0] || got[1] != want[1] {
			return ev.Fail("app/wrong-result/garbler", "%s: garbler printed %v, the program computes %v", desc, got, want)
		}
		// The evaluator prints its results after the session.
		var egot []string
		for wait := 0; wait < 100; wait++ {
			mu.Lock()
			all := parseResults(elog.String())
			mu.Unlock()
			if len(all) >= before+2 {
				egot = all[before : before+2]
				break
			}
			select {
			case <-done:
				wait = 100
			case <-time.After(50 * time.Millisecond):
			}
		}
		if len(egot) != 2 {
			return ev.Fail("app/evaluator-error", "%s: the evaluator process printed no results\n%s", desc, tail(elog.String(), &mu))
		}
		if egot[0] != want[0] || egot[1] != want[1] {
			return ev.Fail("app/wrong-result/evaluator", "%s: evaluator printed %v, the program computes %v", desc, egot, want)
		}
	}
	sizes := map[int]bool{}
	changes := 0
	prev := -1
	for _, s := range cs.Sessions {
		sizes[len(s)] = true
		if prev >= 0 && len(s) != prev {
			changes++
		}
		prev = len(s)
	}
	classes := []string{fmt.Sprintf("app:sessions=%d", len(cs.Sessions)), fmt.Sprintf("app:size-changes=%d", changes)}
	out := ev.OK(changes > 0, classes...)
	out.Evals = len(cs.Sessions)
	return out
}

func tail(s string, mu *sync.Mutex) string {
	mu.Lock()
	defer mu.Unlock()
	return clip(s, 1200)
}

func init() { ev.Register("app", runApp) }

func TestApp(t *testing.T) {
	setScratch(t)
	ev.Check(t, ev.Get(prop), "app", genApp, runApp)
	checkGarbled(t)
}

func clip(s string, n int) string {
	if len(s) > n {
		return "..." + s[len(s)-n:]
	}
	return s
}
