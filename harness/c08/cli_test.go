package c08

// Unit cli: the command-line tool.  `garbled -circ -ssa a.mpcl b.mpcl c.mpcl`
// (apps/garbled/compile.go compileFiles) compiles several programs in one
// process on one utils.Params; two parties that compile the same source - one
// of them as part of a batch - must still hold the same circuit.  A case is a
// batch of 2-3 programs plus the tool's options; the tool (built once per test
// process from the tree under test) is run
//
//   - once per program, alone,
//   - on the whole batch in command-line order 0..n-1,
//   - on the whole batch in a second, drawn order,
//   - once more on the last program alone,
//
// every run as its own process in its own directory (same relative file
// names).  Oracle: every output file of a program (<name>.mpclc/.bristol and
// <name>.ssa) is byte-identical in all runs.

import (
	"bytes"
	"context"
	"crypto/sha256"
	"encoding/hex"
	"fmt"
	"os"
	"os/exec"
	"path/filepath"
	"strings"
	"sync"
	"sync/atomic"
	"testing"
	"time"

	"pgregory.net/rapid"

	"verifharness/internal/ev"
)

// CliFile is one program on the command line of apps/garbled: generated
// source text, or a copy of the repository file Repo (the tool writes its
// output next to the source, so repository programs are copied first).
type CliFile struct {
	Name string `json:"name"`           // file name in the run directory
	Text string `json:"text,omitempty"` // source text
	Repo string `json:"repo,omitempty"` // path below the repository root
}

// ---------------------------------------------------------------------------
// The tool binary.

var (
	garbledDir      string
	garbledFailures atomic.Int64
)

// garbledBinary builds apps/garbled of the tree under test (repoRoot(): the
// driver passes the scratch copy of a mutation run through MPCLDIR) once per
// process.
var garbledBinary = sync.OnceValues(func() (string, error) {
	dir, err := os.MkdirTemp("", "c08-garbled-")
	if err != nil {
		return "", err
	}
	garbledDir = dir
	bin := filepath.Join(dir, "garbled")
	ctx, cancel := context.WithTimeout(context.Background(), 10*time.Minute)
	defer cancel()
	cmd := exec.CommandContext(ctx, "go", "build", "-o", bin, "./apps/garbled")
	cmd.Dir = repoRoot()
	var env []string
	for _, e := range os.Environ() {
		if strings.HasPrefix(e, "GOFLAGS=") || strings.HasPrefix(e, "GOPROXY=") {
			continue
		}
		env = append(env, e)
	}
	cmd.Env = append(env, "GOFLAGS=-mod=mod", "GOPROXY=off")
	out, err := cmd.CombinedOutput()
	if err != nil {
		msg := string(out)
		if len(msg) > 600 {
			msg = msg[len(msg)-600:]
		}
		return "", fmt.Errorf("go build ./apps/garbled in %s: %v: %s", cmd.Dir, err, msg)
	}
	return bin, nil
})

func cleanupGarbled() {
	if garbledDir != "" {
		os.RemoveAll(garbledDir)
	}
}

// ---------------------------------------------------------------------------
// One run of the tool.

type cliRun struct {
	rc   int
	msg  string            // tail of stdout+stderr when rc != 0
	outs map[string][]byte // output file name -> contents (of the files named on the command line)
}

func cliSuffix(cs Case) string {
	if cs.Format != "" {
		return cs.Format
	}
	return "mpclc"
}

func cliArgs(cs Case, root string) []string {
	var args []string
	if !cs.NoCirc {
		args = append(args, "-circ")
	}
	if !cs.NoSSA {
		args = append(args, "-ssa")
	}
	if cs.Format != "" {
		args = append(args, "-format", cs.Format)
	}
	if !cs.Prune {
		args = append(args, "-O", "0")
	}
	if cs.GMW {
		args = append(args, "-gmw", "0")
	}
	if root != "" {
		args = append(args, "-pkgpath", root)
	}
	return args
}

// cliArgsShown is the option list for messages.
func cliArgsShown(cs Case) string {
	root := ""
	if len(cs.Files) > 0 {
		root = "<pkgpath>"
	}
	return strings.Join(cliArgs(cs, root), " ")
}

// cliOutputs lists the output files the tool writes for source file name.
func cliOutputs(cs Case, name string) []string {
	base := strings.TrimSuffix(name, ".mpcl")
	var res []string
	if !cs.NoCirc {
		res = append(res, base+"."+cliSuffix(cs))
	}
	if !cs.NoSSA {
		res = append(res, base+".ssa")
	}
	return res
}

// runTool runs the tool on the batch files order (indices into cs.Batch) in
// a fresh directory that holds all sources of the batch.
func runTool(bin string, cs Case, sources []string, root string, order []int, stale ...bool) (cliRun, error) {
	dir, err := os.MkdirTemp(scratchBase(), "c08-cli-")
	if err != nil {
		return cliRun{}, err
	}
	defer os.RemoveAll(dir)
	for i, f := range cs.Batch {
		if err := os.WriteFile(filepath.Join(dir, f.Name), []byte(sources[i]), 0o644); err != nil {
			return cliRun{}, err
		}
	}
	if len(stale) > 0 && stale[0] {
		// The outputs of an earlier, larger compilation are still in the
		// directory.
		junk := bytes.Repeat([]byte("stale output of an earlier compilation\n"), 8192)
		for _, i := range order {
			for _, name := range cliOutputs(cs, cs.Batch[i].Name) {
				if err := os.WriteFile(filepath.Join(dir, name), junk, 0o644); err != nil {
					return cliRun{}, err
				}
			}
		}
	}
	args := cliArgs(cs, root)
	for _, i := range order {
		args = append(args, cs.Batch[i].Name)
	}
	ctx, cancel := context.WithTimeout(context.Background(), 3*time.Minute)
	defer cancel()
	cmd := exec.CommandContext(ctx, bin, args...)
	cmd.Dir = dir
	var env []string
	for _, e := range os.Environ() {
		if strings.HasPrefix(e, "MPCLDIR=") || strings.HasPrefix(e, "GOMEMLIMIT=") ||
			strings.HasPrefix(e, "VERIF_EV_OUT=") || strings.HasPrefix(e, "VERIF_REPLAY") {
			continue
		}
		env = append(env, e)
	}
	cmd.Env = append(env, "MPCLDIR="+repoRoot(), "GOMEMLIMIT=768MiB")
	var out bytes.Buffer
	cmd.Stdout = &out
	cmd.Stderr = &out
	err = cmd.Run()
	if ctx.Err() != nil {
		return cliRun{}, fmt.Errorf("garbled %v: timeout", args)
	}
	res := cliRun{outs: map[string][]byte{}}
	if err != nil {
		ee, ok := err.(*exec.ExitError)
		if !ok || ee.ExitCode() < 0 {
			return cliRun{}, fmt.Errorf("garbled %v: %v", args, err)
		}
		res.rc = ee.ExitCode()
		msg := strings.TrimSpace(out.String())
		if len(msg) > 300 {
			msg = msg[len(msg)-300:]
		}
		res.msg = msg
	}
	for _, i := range order {
		for _, name := range cliOutputs(cs, cs.Batch[i].Name) {
			data, err := os.ReadFile(filepath.Join(dir, name))
			if err == nil {
				res.outs[name] = data
			}
		}
	}
	return res, nil
}

func cliSkip(err error) ev.Outcome {
	garbledFailures.Add(1)
	ev.Get(prop).Count("cli_tool_failures", 1)
	return ev.Outcome{Skip: "tool could not be run: " + err.Error()}
}

func checkGarbled(t *testing.T) {
	if n := garbledFailures.Load(); n > 0 {
		_, err := garbledBinary()
		t.Errorf("infrastructure: %d cases skipped because apps/garbled could not be built or run (build error: %v)", n, err)
	}
}

func orderString(cs Case, order []int) string {
	var names []string
	for _, i := range order {
		names = append(names, cs.Batch[i].Name)
	}
	return strings.Join(names, " ")
}

func runCli(cs Case) ev.Outcome {
	// The files of one command line share the symbol table of intern() by
	// design (it is what -sids saves): a file that interns is not expected
	// to compile alone as it does in a batch.
	for _, f := range cs.Batch {
		if strings.Contains(f.Text, "intern(") {
			return ev.Outcome{Skip: "a batch file interns symbols (symbol IDs are shared between the files of one command line by design)"}
		}
	}
	n := len(cs.Batch)
	if n == 0 {
		return ev.Outcome{Skip: "empty batch"}
	}
	seen := map[string]bool{}
	for _, f := range cs.Batch {
		if !strings.HasSuffix(f.Name, ".mpcl") || strings.ContainsAny(f.Name, "/\\") || seen[f.Name] {
			return ev.Outcome{Skip: "bad batch file name"}
		}
		seen[f.Name] = true
	}
	order2 := cs.Order2
	okPerm := len(order2) == n
	used := map[int]bool{}
	for _, i := range order2 {
		if i < 0 || i >= n || used[i] {
			okPerm = false
			break
		}
		used[i] = true
	}
	if !okPerm {
		order2 = nil
		for i := n - 1; i >= 0; i-- {
			order2 = append(order2, i)
		}
	}
	if cs.NoCirc && cs.NoSSA {
		cs.NoSSA = false
	}

	bin, err := garbledBinary()
	if err != nil {
		return cliSkip(err)
	}
	root, cleanup, skip := writeScratch(cs)
	if skip != "" {
		return ev.Outcome{Skip: skip}
	}
	defer cleanup()

	sources := make([]string, n)
	for i, f := range cs.Batch {
		sources[i] = f.Text
		if f.Repo != "" {
			data, err := os.ReadFile(filepath.Join(repoRoot(), filepath.FromSlash(f.Repo)))
			if err != nil {
				return ev.Outcome{Skip: "repository program missing: " + f.Repo}
			}
			sources[i] = string(data)
		}
	}

	// Every program alone.
	alone := make([]cliRun, n)
	for i := range cs.Batch {
		r, err := runTool(bin, cs, sources, root, []int{i})
		if err != nil {
			return cliSkip(err)
		}
		if r.rc != 0 {
			msg := r.msg
			if j := strings.LastIndex(msg, ": "); j >= 0 {
				msg = msg[j+2:]
			}
			if len(msg) > 60 {
				msg = msg[:60]
			}
			return ev.Outcome{Skip: "does not compile (cli): " + msg}
		}
		for _, name := range cliOutputs(cs, cs.Batch[i].Name) {
			if len(r.outs[name]) == 0 {
				return ev.Fail("cli/no-output", "garbled %s %s exits 0 but %s is missing or empty",
					cliArgsShown(cs), cs.Batch[i].Name, name)
			}
		}
		alone[i] = r
	}
	evals := n

	type finding struct{ sig, what string }
	var diffs, truncs []finding
	compare := func(r cliRun, order []int, what string) {
		for pos, i := range order {
			for _, name := range cliOutputs(cs, cs.Batch[i].Name) {
				want, got := alone[i].outs[name], r.outs[name]
				if bytes.Equal(want, got) {
					continue
				}
				kind := "circ"
				if strings.HasSuffix(name, ".ssa") {
					kind = "ssa"
				}
				desc := fmt.Sprintf("%s: %s of `garbled %s %s` (file %d of %d) has %d bytes, sha256 %s; compiled alone %d bytes, sha256 %s",
					what, name, cliArgsShown(cs), orderString(cs, order),
					pos+1, len(order), len(got), shortHash(got), len(want), shortHash(want))
				if pos+1 < len(order) && len(got) < len(want) && bytes.Equal(want[:len(got)], got) {
					truncs = append(truncs, finding{"cli/earlier-file-truncated",
						desc + "; the output of a file that is not the last one on the command line is a proper prefix of the full output (never flushed)"})
					continue
				}
				if kind == "ssa" {
					desc += "; " + firstDiff(string(want), string(got))
				}
				diffs = append(diffs, finding{"cli/" + what + "-differs/" + kind, desc})
			}
		}
	}

	orders := [][]int{seq(n), order2}
	for _, order := range orders {
		if n == 1 {
			break
		}
		r, err := runTool(bin, cs, sources, root, order)
		if err != nil {
			return cliSkip(err)
		}
		evals += n
		if r.rc != 0 {
			out := ev.Fail("cli/batch-fails", "every program compiles alone but `garbled %s %s` exits %d: %s",
				cliArgsShown(cs), orderString(cs, order), r.rc, r.msg)
			out.Evals = evals
			return out
		}
		compare(r, order, "batch")
	}
	// The last program once more, alone.
	r, err := runTool(bin, cs, sources, root, []int{n - 1}, cs.Stale)
	if err != nil {
		return cliSkip(err)
	}
	evals++
	if r.rc != 0 {
		out := ev.Fail("cli/rerun-fails", "second run of garbled on %s alone exits %d: %s",
			cs.Batch[n-1].Name, r.rc, r.msg)
		out.Evals = evals
		return out
	}
	compare(r, []int{n - 1}, "rerun")

	// A real difference first; the truncation of earlier outputs after it.
	for _, l := range [][]finding{diffs, truncs} {
		if len(l) > 0 {
			out := ev.Fail(l[0].sig, "%s", l[0].what)
			out.Evals = evals
			return out
		}
	}

	// Classes and the non-trivial rule, from an independent source scan.
	infos := make([]progInfo, n)
	for i := range cs.Batch {
		infos[i] = scanProgramSource(cs, sources[i])
	}
	shared := map[string]bool{}
	for i := range infos {
		for j := 0; j < i; j++ {
			for p := range infos[i].varSet {
				if infos[j].varSet[p] {
					shared[p] = true
				}
			}
		}
	}
	classes := []string{"kind=cli", fmt.Sprintf("batch=%d", n)}
	classes = append(classes, cs.Tags...)
	switch {
	case len(shared) >= 2:
		classes = append(classes, "var-pkgs-shared-by-two-batch-files>=2")
	default:
		classes = append(classes, fmt.Sprintf("var-pkgs-shared-by-two-batch-files=%d", len(shared)))
	}
	repoLib, genLib := false, false
	for p := range shared {
		if len(pkgSourcesOfCase(cs, p)) > 0 {
			genLib = true
		} else {
			repoLib = true
		}
	}
	if repoLib {
		classes = append(classes, "shared-var-pkg=repository-library")
	}
	if genLib {
		classes = append(classes, "shared-var-pkg=generated")
	}
	for _, f := range cs.Batch {
		if f.Repo != "" {
			classes = append(classes, "batch-has-repository-program")
			break
		}
	}
	same := true
	for i := range order2 {
		same = same && order2[i] == i
	}
	if !same {
		classes = append(classes, "second-batch-order-differs")
	}
	switch {
	case cs.NoCirc:
		classes = append(classes, "outputs=ssa")
	case cs.NoSSA:
		classes = append(classes, "outputs=circ")
	default:
		classes = append(classes, "outputs=circ+ssa")
	}
	classes = append(classes, "format="+cliSuffix(cs))
	if cs.Prune {
		classes = append(classes, "prune")
	}
	if cs.GMW {
		classes = append(classes, "target=gmw")
	}
	big := false
	for i := range alone {
		for _, data := range alone[i].outs {
			if len(data) > 4096 {
				big = true
			}
		}
	}
	if big {
		classes = append(classes, "output>4096-bytes")
	}
	out := ev.OK(n >= 2 && len(shared) >= 1, classes...)
	out.Evals = evals
	h := sha256.New()
	fmt.Fprintf(h, "cli\x00%v\x00%v\x00%v\x00%v\x00%s\x00%v", cs.Prune, cs.GMW, cs.NoCirc, cs.NoSSA, cs.Format, order2)
	for i, f := range cs.Batch {
		fmt.Fprintf(h, "\x00%s\x00%s", f.Name, sources[i])
	}
	for _, f := range cs.Files {
		fmt.Fprintf(h, "\x00%s\x00%s", f.Path, f.Text)
	}
	out.Key = hex.EncodeToString(h.Sum(nil))
	return out
}

func shortHash(data []byte) string {
	h := sha256.Sum256(data)
	return hex.EncodeToString(h[:8])
}

// pkgSourcesOfCase returns the sources of package name among the files of
// the case only.
func pkgSourcesOfCase(cs Case, name string) []string {
	var res []string
	for _, f := range cs.Files {
		if filepath.ToSlash(filepath.Dir(f.Path)) == name && strings.HasSuffix(f.Path, ".mpcl") {
			res = append(res, f.Text)
		}
	}
	return res
}

// ---------------------------------------------------------------------------
// Generator.

// cliRepoProgs are repository programs for the batches (measured: at most
// 0.3 s and 70 MB per compilation by the tool; aesblock.mpcl - 3 s, 800 MB -
// and everything larger is left out).  gmw: compiles for the GMW target at a
// comparable cost (no division).
var cliRepoProgs = []struct {
	path string
	gmw  bool
}{
	{"apps/garbled/examples/aesblock2.mpcl", false},
	{"apps/garbled/examples/key-import.mpcl", false},
	{"apps/garbled/examples/add.mpcl", true},
	{"apps/garbled/examples/hamming.mpcl", true},
	{"apps/garbled/examples/credit.mpcl", true},
	{"apps/garbled/examples/rps.mpcl", false},
	{"testsuite/lang/pkg.mpcl", true},
	{"apps/garbled/examples/aesexpand.mpcl", false},
}

var cliNames = []string{"a.mpcl", "b.mpcl", "m.mpcl", "z.mpcl", "prog1.mpcl", "Beta.mpcl"}

// libImports are library packages of the repository for generated mains; the
// first four define package-level variables.
var libImports = []string{
	"encoding/hex",
	"crypto/aes",
	"crypto/curve25519",
	"crypto/ed25519/internal/edwards25519",
	"math",
	"bytes",
}

// drawLibMain draws a small main over a drawn subset of the repository's
// library packages (most subsets contain encoding/hex or crypto/aes, whose
// package-level variables are tables).
func drawLibMain(t *rapid.T) string {
	nimp := rapid.IntRange(1, 4).Draw(t, "nlibs")
	order := rapid.Permutation(seq(len(libImports))).Draw(t, "libs")[:nimp]
	has := map[string]bool{}
	for _, j := range order {
		has[libImports[j]] = true
	}
	if !has["encoding/hex"] && !has["crypto/aes"] && rapid.IntRange(0, 3).Draw(t, "force-var-lib") < 3 {
		lib := rapid.SampledFrom(libImports[:2]).Draw(t, "var-lib")
		order = append(order, 0)
		copy(order[1:], order)
		for j, l := range libImports {
			if l == lib {
				order[0] = j
			}
		}
		has[lib] = true
	}
	n := rapid.IntRange(2, 6).Draw(t, "array")
	op := rapid.SampledFrom([]string{"^", "&", "|", "+"}).Draw(t, "op")
	var sb strings.Builder
	sb.WriteString("package main\n\nimport (\n")
	for _, j := range order {
		fmt.Fprintf(&sb, "\t%q\n", libImports[j])
	}
	sb.WriteString(")\n\n")
	mask := rapid.IntRange(1, 255).Draw(t, "mask")
	wide := rapid.IntRange(256, 1<<28).Draw(t, "wide")
	fmt.Fprintf(&sb, "const Mask uint8 = 0x%x\nconst Wide = %d\n\n", mask, wide)

	var types, vals []string
	if has["encoding/hex"] {
		types = append(types, "string")
		vals = append(vals, "hex.EncodeToString(x)")
	}
	if has["bytes"] {
		types = append(types, "int")
		vals = append(vals, "bytes.Compare(g, e)")
	}
	if has["math"] {
		types = append(types, "uint64")
		vals = append(vals, "math.MaxUint32 + uint64(x[0])")
	}
	if has["crypto/aes"] {
		types = append(types, "int")
		vals = append(vals, "aes.BlockSize + Wide")
	}
	if has["crypto/ed25519/internal/edwards25519"] {
		types = append(types, "int32")
		vals = append(vals, "fe[0] + fe[1] + edwards25519.SqrtM1[0]")
	}
	if len(vals) == 0 {
		types = append(types, "uint8")
		vals = append(vals, "x[0] + x[1]")
	}
	ret := strings.Join(types, ", ")
	if len(types) > 1 {
		ret = "(" + ret + ")"
	}
	fmt.Fprintf(&sb, "func main(g, e [%d]byte) %s {\n", n, ret)
	fmt.Fprintf(&sb, "\tvar x [%d]byte\n\tfor i := 0; i < %d; i++ {\n\t\tx[i] = g[i] %s e[i] ^ Mask\n\t}\n", n, n, op)
	if has["crypto/ed25519/internal/edwards25519"] {
		sb.WriteString("\tvar fe edwards25519.FieldElement\n\tfe[0] = int32(x[0])\n\tfe[1] = int32(e[1])\n")
	}
	fmt.Fprintf(&sb, "\treturn %s\n}\n", strings.Join(vals, ", "))
	return sb.String()
}

func genCli(t *rapid.T) Case {
	cs := Case{Kind: "cli"}
	n := rapid.SampledFrom([]int{2, 3, 2}).Draw(t, "batch")
	names := rapid.Permutation(cliNames).Draw(t, "names")[:n]
	shape := rapid.SampledFrom([]string{"multi", "lib", "multi", "repo", "lib"}).Draw(t, "shape")
	cs.Tags = []string{"shape=" + shape}
	gmwOK := true
	switch shape {
	case "multi":
		// Generated library packages (passed with -pkgpath) and n mains
		// over them.
		m := drawMultiPackages(t)
		for i := 0; i < n; i++ {
			cs.Batch = append(cs.Batch, CliFile{Name: names[i], Text: drawMultiMain(t, m)})
		}
		cs.Files = m.files
		cs.Tags = append(cs.Tags, m.tagList()...)
	case "lib":
		for i := 0; i < n; i++ {
			cs.Batch = append(cs.Batch, CliFile{Name: names[i], Text: drawLibMain(t)})
		}
	default:
		// Repository programs mixed with generated mains over the
		// repository's library.
		progs := rapid.Permutation(seq(len(cliRepoProgs))).Draw(t, "repoprogs")
		for i := 0; i < n; i++ {
			if i == 0 || rapid.Bool().Draw(t, "repoprog") {
				p := cliRepoProgs[progs[i]]
				gmwOK = gmwOK && p.gmw
				cs.Batch = append(cs.Batch, CliFile{Name: names[i], Repo: p.path})
			} else {
				cs.Batch = append(cs.Batch, CliFile{Name: names[i], Text: drawLibMain(t)})
			}
		}
		// The repository program is not always the first one.
		if rapid.Bool().Draw(t, "repolast") {
			cs.Batch[0], cs.Batch[n-1] = cs.Batch[n-1], cs.Batch[0]
		}
	}
	cs.Order2 = rapid.Permutation(seq(n)).Draw(t, "order2")
	cs.Prune = rapid.Bool().Draw(t, "prune")
	cs.GMW = gmwOK && rapid.IntRange(0, 3).Draw(t, "gmw") == 0
	switch rapid.IntRange(0, 7).Draw(t, "outputs") {
	case 6:
		cs.NoSSA = true
	case 7:
		cs.NoCirc = true
	}
	if !cs.NoCirc && rapid.IntRange(0, 5).Draw(t, "format") == 5 {
		cs.Format = "bristol"
	}
	cs.Stale = rapid.Bool().Draw(t, "stale")
	return cs
}

func TestCli(t *testing.T) {
	setScratch(t)
	ev.Check(t, ev.Get(prop), "cli", genCli, run)
	checkGarbled(t)
}
