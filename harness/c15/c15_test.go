// C15: malicious-mode OT extension detects a deviating receiver.
//
// A case is one initialised IKNPSender/IKNPReceiver pair, 0-2 honest warm-up
// batches (so the per-column PRG streams are at varying positions) and one
// final batch whose receiver->sender traffic is altered on the sender's side
// by a tampering ot.IO wrapper (or left alone: honest case).
//
// Message sequence of IKNPSender.Send(n, true), as read from ot/iknp.go:
//
//	ReceiveData  x ceil(n/512)   payload matrix, chunk k holds rows
//	                             512k.. of all 128 columns, column-major:
//	                             bit (c, r) is bit r%8 of byte
//	                             c*byteRows + r/8, byteRows = len/128
//	ReceiveData  x 1             the 256-row check batch (4096 bytes)
//	ReceiveLabel x 4             seed2 (challenge seed), x, t0, t1
//
// The wrapper does not hard-code the chunk size: it walks the payload rows
// with the byteRows of each received chunk.
package c15

import (
	"fmt"
	"sync/atomic"
	"testing"

	"github.com/markkurossi/mpc/ot"
	"pgregory.net/rapid"

	"verifharness/internal/ev"
	"verifharness/internal/gen"
)

const prop = "C15"

// Distribution counters of the rapid unit (generator self-check only).
var nHonest, nExpectAbort, nExpectAccept atomic.Int64

func init() { ev.Register("fault", run) }

// Flip is one altered bit.
type Flip struct {
	// Where: payload | check (matrix bit at column Col, row Row) or
	// seed2 | x | t0 | t1 (bit Col of that 128-bit value, Label.Bit order).
	Where string `json:"where"`
	Col   int    `json:"col"`
	Row   int    `json:"row,omitempty"`
}

// Case is one pair, warm-up batches and one (possibly faulted) batch.
type Case struct {
	Base   string   `json:"base"` // ideal | co
	Seed   uint64   `json:"seed"`
	Delta  []uint64 `json:"delta"` // {D0, D1}, the sender's secret
	Warmup []int    `json:"warmup,omitempty"`
	N      int      `json:"n"`
	Ch     Choice   `json:"choice"`
	Flips  []Flip   `json:"flips,omitempty"`
	// After are honest batches on the same pair after the (possibly
	// faulted, possibly aborted) batch: a detected deviation must not make
	// later honest executions abort or go wrong.
	After []int `json:"after,omitempty"`
}

// ---------------------------------------------------------------------------
// Tampering ot.IO wrapper (sender side).

type tamperIO struct {
	ot.IO
	armed      bool
	n          int
	flips      []Flip
	rowsSeen   int // payload rows (incl. padding) received so far
	checkSeen  bool
	labelCalls int
	applied    []bool
}

func (t *tamperIO) arm(n int, flips []Flip) {
	t.armed = true
	t.n = n
	t.flips = flips
	t.rowsSeen = 0
	t.checkSeen = false
	t.labelCalls = 0
	t.applied = make([]bool, len(flips))
}

func (t *tamperIO) disarm() { t.armed = false }

func (t *tamperIO) ReceiveData() ([]byte, error) {
	data, err := t.IO.ReceiveData()
	if err != nil || !t.armed || t.checkSeen {
		return data, err
	}
	buf := append([]byte(nil), data...)
	byteRows := len(buf) / ot.K
	if len(buf)%ot.K != 0 || byteRows == 0 {
		return buf, nil
	}
	if t.rowsSeen < t.n {
		lo, hi := t.rowsSeen, t.rowsSeen+byteRows*8
		for i, f := range t.flips {
			if f.Where == "payload" && f.Row >= lo && f.Row < hi && f.Col >= 0 && f.Col < ot.K {
				rr := f.Row - lo
				buf[f.Col*byteRows+rr/8] ^= 1 << (rr % 8)
				t.applied[i] = true
			}
		}
		// A chunk that is not the last one is full; only the last may
		// carry padding rows, so the next chunk starts at hi.
		t.rowsSeen = hi
		return buf, nil
	}
	t.checkSeen = true
	for i, f := range t.flips {
		if f.Where == "check" && f.Row >= 0 && f.Row < byteRows*8 && f.Col >= 0 && f.Col < ot.K {
			buf[f.Col*byteRows+f.Row/8] ^= 1 << (f.Row % 8)
			t.applied[i] = true
		}
	}
	return buf, nil
}

var responseNames = []string{"seed2", "x", "t0", "t1"}

func (t *tamperIO) ReceiveLabel(val *ot.Label, ld *ot.LabelData) error {
	err := t.IO.ReceiveLabel(val, ld)
	if err != nil || !t.armed {
		return err
	}
	k := t.labelCalls
	t.labelCalls++
	if k >= len(responseNames) {
		return nil
	}
	for i, f := range t.flips {
		if f.Where == responseNames[k] && f.Col >= 0 && f.Col < 128 {
			if f.Col < 64 {
				val.D0 ^= 1 << f.Col
			} else {
				val.D1 ^= 1 << (f.Col - 64)
			}
			t.applied[i] = true
		}
	}
	return nil
}

// paddedRows is the number of matrix rows the receiver transmits for n
// payload rows: whole bytes per column.
func paddedRows(n int) int { return (n + 7) / 8 * 8 }

// ---------------------------------------------------------------------------

func deltaBit(d []uint64, i int) bool {
	if i < 64 {
		return d[0]>>i&1 == 1
	}
	return d[1]>>(i-64)&1 == 1
}

func correlated(sent, recv []ot.Label, choice []bool, D ot.Label) (bad, first int) {
	first = -1
	for i := range choice {
		want := sent[i]
		if choice[i] {
			want.Xor(D)
		}
		if !recv[i].Equal(want) {
			if bad == 0 {
				first = i
			}
			bad++
		}
	}
	return
}

func run(cs Case) ev.Outcome {
	if cs.N < 1 || len(cs.Delta) != 2 {
		return ev.Outcome{Skip: "bad case"}
	}
	for _, w := range cs.Warmup {
		if w < 1 {
			return ev.Outcome{Skip: "bad case"}
		}
	}
	// Net effect of the fault list: two identical flips cancel.
	mult := map[Flip]int{}
	for _, f := range cs.Flips {
		mult[f]++
	}
	var eff []Flip
	for _, f := range cs.Flips {
		if mult[f]%2 == 1 {
			eff = append(eff, f)
			mult[f] = 0
		}
	}

	sp, rp := ot.NewPipe()
	var baseS, baseR ot.OT
	if cs.Base == "co" {
		baseS = ot.NewCO(gen.NewDRBG(cs.Seed, 10))
		baseR = ot.NewCO(gen.NewDRBG(cs.Seed, 11))
	} else {
		io := newIdealOT()
		baseS, baseR = io, io
	}
	delta := ot.Label{D0: cs.Delta[0], D1: cs.Delta[1]}
	tio := &tamperIO{IO: sp}

	for _, w := range cs.After {
		if w < 1 {
			return ev.Outcome{Skip: "bad case"}
		}
	}
	sizes := append(append(append([]int{}, cs.Warmup...), cs.N), cs.After...)
	nb := len(sizes)
	faulted := len(cs.Warmup)
	choices := make([][]bool, nb)
	for i, n := range sizes {
		if i == faulted {
			choices[i] = cs.Ch.bits(n)
		} else {
			choices[i] = Choice{Class: "random", Seed: cs.Seed + uint64(i)}.bits(n)
		}
	}
	sent := make([][]ot.Label, nb)
	sendErr := make([]error, nb)
	recv := make([][]ot.Label, nb)
	var sender *ot.IKNPSender

	serr, rerr, hung := runPair(sp, rp, func() error {
		if err := baseS.InitSender(tio); err != nil {
			return fmt.Errorf("base InitSender: %w", err)
		}
		s, err := ot.NewIKNPSender(baseS, tio, gen.NewDRBG(cs.Seed, 12), &delta)
		if err != nil {
			return fmt.Errorf("NewIKNPSender: %w", err)
		}
		sender = s
		for i, n := range sizes {
			if i == faulted {
				tio.arm(n, cs.Flips)
			}
			sent[i], sendErr[i] = s.Send(n, true)
			tio.disarm()
		}
		return nil
	}, func() error {
		if err := baseR.InitReceiver(rp); err != nil {
			return fmt.Errorf("base InitReceiver: %w", err)
		}
		r, err := ot.NewIKNPReceiver(baseR, rp, gen.NewDRBG(cs.Seed, 13))
		if err != nil {
			return fmt.Errorf("NewIKNPReceiver: %w", err)
		}
		for i, n := range sizes {
			recv[i] = make([]ot.Label, n)
			if err := r.Receive(choices[i], recv[i], true); err != nil {
				return fmt.Errorf("batch %d (n=%d): Receive: %w", i, n, err)
			}
		}
		return nil
	})
	if f := partyFail("fault", serr, rerr, hung, fmt.Sprintf("base=%s n=%d flips=%v", cs.Base, cs.N, cs.Flips)); f != nil {
		return *f
	}
	D := sender.Delta
	if !D.Equal(delta) {
		return ev.Fail("delta-not-used", "NewIKNPSender ignored the given delta")
	}

	// Honest batches before and after: never abort, correlation holds.
	for i := 0; i < nb; i++ {
		if i == faulted {
			continue
		}
		if sendErr[i] != nil {
			sig := "honest/abort"
			if i > faulted && len(eff) > 0 {
				sig = "honest/abort-after-fault"
			}
			return ev.Fail(sig, "honest malicious-mode batch %d/%d (n=%d; batch %d had the flips %v, its Send returned %v) aborted: %v",
				i, nb, sizes[i], faulted, cs.Flips, sendErr[faulted], sendErr[i])
		}
		if len(sent[i]) != sizes[i] {
			return ev.Fail("honest/count", "honest batch %d: Send returned %d labels for n=%d", i, len(sent[i]), sizes[i])
		}
		if bad, first := correlated(sent[i], recv[i], choices[i], D); bad > 0 {
			return ev.Fail("honest/inconsistent", "honest malicious-mode batch %d/%d (n=%d): %d positions violate the correlation, first %d", i, nb, sizes[i], bad, first)
		}
	}

	last := faulted
	for i, ok := range tio.applied {
		if !ok {
			return ev.Outcome{Skip: fmt.Sprintf("flip %v not applicable", cs.Flips[i])}
		}
	}

	// What the fault list means for this Delta.
	var cl classSet
	payloadCorrupt, abortExpected := false, false
	for _, f := range eff {
		switch f.Where {
		case "payload":
			sel := deltaBit(cs.Delta, f.Col)
			switch {
			case f.Row >= cs.N:
				cl.add("fault:payload/padding-row")
			case sel:
				cl.add("fault:payload/selected-column")
				payloadCorrupt, abortExpected = true, true
			default:
				cl.add("fault:payload/unselected-column")
			}
			if f.Col == 127 {
				cl.add("fault:column-127")
			}
			if f.Row >= 1024 {
				cl.add("fault:payload/row>=1024")
			}
			if f.Row == cs.N-1 {
				cl.add("fault:payload/last-row")
			}
		case "check":
			if deltaBit(cs.Delta, f.Col) {
				cl.add("fault:check-batch/selected-column")
				abortExpected = true
			} else {
				cl.add("fault:check-batch/unselected-column")
			}
		default:
			cl.add("fault:response/" + f.Where)
			abortExpected = true
		}
	}
	if len(eff) > 1 {
		cl.add("multi-flip")
	}
	if len(eff) != len(cs.Flips) {
		cl.add("cancelling-flips")
	}

	ctx := fmt.Sprintf("n=%d choice=%s Delta=%v flips=%v", cs.N, cs.Ch.Class, D, cs.Flips)
	honest := len(eff) == 0
	if sendErr[last] != nil {
		if honest {
			return ev.Fail("honest/abort", "honest malicious-mode execution aborted (%s, after %d warm-up batches): %v", ctx, nb-1, sendErr[last])
		}
		cl.add("outcome:abort")
		if !abortExpected {
			// Allowed by the property (an abort is always safe), but
			// it tells that the fault model is off; kept visible.
			cl.add("outcome:abort-on-ineffective-fault")
		}
	} else {
		if len(sent[last]) != cs.N {
			return ev.Fail("accepted/count", "%s: Send returned %d labels", ctx, len(sent[last]))
		}
		if bad, first := correlated(sent[last], recv[last], choices[last], D); bad > 0 {
			sig := "accepted-inconsistent"
			if honest {
				sig = "honest/inconsistent"
			} else if payloadCorrupt {
				sig = "accepted-inconsistent/selected-column"
			}
			return ev.Fail(sig, "%s: Send returned nil error but %d positions violate recv = sent xor choice*Delta for the receiver's original choices, first at %d (sent %v recv %v choice %v)",
				ctx, bad, first, sent[last][first], recv[last][first], choices[last][first])
		}
		if payloadCorrupt {
			// Cannot happen: a selected-column flip in a real row
			// changes the sender's output.  Model self-check.
			return ev.Fail("model/selected-flip-without-effect", "%s: a flip in a Delta-selected column left the sender's output unchanged", ctx)
		}
		if !honest {
			cl.add("outcome:accept-consistent")
			if abortExpected {
				cl.add("outcome:accepted-despite-altered-check-data(consistent)")
			}
		}
	}
	if honest {
		cl.add("honest")
		nHonest.Add(1)
	} else if abortExpected {
		cl.add("expect:abort")
		nExpectAbort.Add(1)
	} else {
		cl.add("expect:accept")
		nExpectAccept.Add(1)
	}
	cl.add("base=" + cs.Base)
	cl.add(fmt.Sprintf("warmup=%d", len(cs.Warmup)))
	cl.add(fmt.Sprintf("honest-batches-after=%d", len(cs.After)))
	for _, s := range sizeClasses(cs.N) {
		cl.add(s)
	}
	out := ev.OK(!honest, cl.list...)
	out.Evals = nb
	return out
}

// ---------------------------------------------------------------------------
// Generator.

var sizesC15 = []int{1, 7, 8, 9, 64, 65, 129, 513, 1100}

func drawDelta(t *rapid.T) []uint64 {
	s := gen.NewDRBG(rapid.Uint64().Draw(t, "dseed"), 5)
	d := []uint64{s.Uint64(), s.Uint64()}
	switch rapid.IntRange(0, 7).Draw(t, "dmode") {
	case 0: // sparse
		d[0] &= s.Uint64() & s.Uint64()
		d[1] &= s.Uint64() & s.Uint64()
	case 1: // dense
		d[0] |= s.Uint64() | s.Uint64()
		d[1] |= s.Uint64() | s.Uint64()
	case 2, 3:
		d[1] |= 1 << 63 // column 127 selected
	case 4:
		d[1] &^= 1 << 63
	}
	return d
}

// drawCol draws a column: a selected one, an unselected one (constructively,
// from the list of such columns) or a boundary column.
func drawCol(t *rapid.T, delta []uint64) int {
	mode := rapid.IntRange(0, 9).Draw(t, "colmode")
	switch {
	case mode == 0:
		return 127
	case mode == 1:
		return rapid.SampledFrom([]int{0, 1, 62, 63, 64, 65, 126, 127}).Draw(t, "bcol")
	case mode == 2:
		return rapid.IntRange(0, 127).Draw(t, "col")
	}
	want := mode%2 == 0
	var cols []int
	for c := 0; c < 128; c++ {
		if deltaBit(delta, c) == want {
			cols = append(cols, c)
		}
	}
	if len(cols) == 0 {
		return rapid.IntRange(0, 127).Draw(t, "col")
	}
	// bias to the highest such column as well
	if rapid.IntRange(0, 5).Draw(t, "hi") == 0 {
		return cols[len(cols)-1]
	}
	return cols[rapid.IntRange(0, len(cols)-1).Draw(t, "colidx")]
}

func drawPayloadRow(t *rapid.T, n int) int {
	p := paddedRows(n)
	cand := []int{0, n - 1}
	for _, r := range []int{1, 7, 8, n - 2, 511, 512, 1023, 1024, n - n%512, n - n%512 - 1} {
		if r >= 0 && r < n {
			cand = append(cand, r)
		}
	}
	switch rapid.IntRange(0, 9).Draw(t, "rowmode") {
	case 0, 1, 2:
		return rapid.SampledFrom(cand).Draw(t, "brow")
	case 3:
		if p > n {
			return rapid.IntRange(n, p-1).Draw(t, "padrow")
		}
		return n - 1
	case 4:
		if n > 1024 {
			return rapid.IntRange(1024, n-1).Draw(t, "hirow")
		}
		return n - 1
	}
	return rapid.IntRange(0, n-1).Draw(t, "row")
}

func genCase(t *rapid.T) Case {
	var cs Case
	cs.Base = "ideal"
	if rapid.IntRange(0, 99).Draw(t, "base") == 99 {
		cs.Base = "co"
	}
	cs.Seed = rapid.Uint64().Draw(t, "seed")
	cs.Delta = drawDelta(t)
	nw := rapid.SampledFrom([]int{0, 0, 0, 1, 1, 2}).Draw(t, "nwarm")
	for i := 0; i < nw; i++ {
		cs.Warmup = append(cs.Warmup, drawN(t, 1200))
	}
	if rapid.IntRange(0, 2).Draw(t, "nsrc") == 0 {
		cs.N = drawN(t, 1300)
	} else {
		cs.N = rapid.SampledFrom(sizesC15).Draw(t, "ntab")
	}
	cs.Ch = drawChoice(t, cs.N)
	for i := rapid.SampledFrom([]int{0, 0, 1, 1, 2}).Draw(t, "nafter"); i > 0; i-- {
		cs.After = append(cs.After, drawN(t, 700))
	}
	if rapid.IntRange(0, 19).Draw(t, "faultkind") == 10 {
		return cs // honest
	}
	if rapid.IntRange(0, 11).Draw(t, "alignedpair") == 0 {
		// Two flips in one column: a payload row and the check-batch row
		// at the same position of its 1024-row block, with batch sizes at
		// and next to multiples of 1024 (where the check batch follows a
		// completely filled block).  Either both take effect and the
		// sender aborts or delivers consistent labels, as for any pair.
		cs.N = rapid.SampledFrom([]int{1024, 1024, 2048, 1023, 1025, 768, 3072}).Draw(t, "alignedn")
		cs.Ch = drawChoice(t, cs.N)
		j := rapid.IntRange(0, 255).Draw(t, "alignedrow")
		block := (cs.N - 1) / 1024
		if rapid.IntRange(0, 3).Draw(t, "alignedblock") == 0 {
			block = rapid.IntRange(0, block).Draw(t, "blockidx")
		}
		r := block*1024 + j
		if r >= cs.N {
			r = j
		}
		c := drawCol(t, cs.Delta)
		cs.Flips = []Flip{{Where: "payload", Col: c, Row: r}, {Where: "check", Col: c, Row: j}}
		return cs
	}
	nf := 1
	if rapid.IntRange(0, 3).Draw(t, "multi") == 0 {
		nf = rapid.IntRange(2, 4).Draw(t, "nflips")
	}
	for i := 0; i < nf; i++ {
		var f Flip
		w := rapid.IntRange(0, 19).Draw(t, "where")
		switch {
		case w < 12:
			f.Where = "payload"
		case w < 16:
			f.Where = "check"
		default:
			f.Where = responseNames[w-16]
		}
		// multi-flip patterns: same row / same column as the previous one
		rel := 0
		if i > 0 && cs.Flips[i-1].Where == f.Where {
			rel = rapid.IntRange(0, 3).Draw(t, "rel")
		}
		switch f.Where {
		case "payload":
			f.Col = drawCol(t, cs.Delta)
			f.Row = drawPayloadRow(t, cs.N)
		case "check":
			f.Col = drawCol(t, cs.Delta)
			if rapid.Bool().Draw(t, "checkb") {
				f.Row = rapid.SampledFrom([]int{0, 1, 7, 8, 127, 128, 254, 255}).Draw(t, "crow")
			} else {
				f.Row = rapid.IntRange(0, 255).Draw(t, "crowu")
			}
		default:
			if rapid.Bool().Draw(t, "bitb") {
				f.Col = rapid.SampledFrom([]int{0, 1, 63, 64, 126, 127}).Draw(t, "bbit")
			} else {
				f.Col = rapid.IntRange(0, 127).Draw(t, "bit")
			}
		}
		if f.Where == "payload" || f.Where == "check" {
			switch rel {
			case 1:
				f.Row = cs.Flips[i-1].Row
			case 2:
				f.Col = cs.Flips[i-1].Col
			}
		}
		cs.Flips = append(cs.Flips, f)
	}
	return cs
}

func TestFault(t *testing.T) {
	col := ev.Get(prop)
	ev.Check(t, col, "fault", genCase, run)
	a, b, h := nExpectAbort.Load(), nExpectAccept.Load(), nHonest.Load()
	col.Count("fault.expect-abort", int(a))
	col.Count("fault.expect-accept", int(b))
	col.Count("fault.honest", int(h))
	col.Flush()
	if tot := a + b; !t.Failed() && tot >= 200 && (a*4 < tot || b*4 < tot) {
		t.Errorf("generator degenerate: %d abort-expected vs %d accept-expected faulted cases (each class must be >= 25%%)", a, b)
	}
}

// TestEnumerate walks whole fault sub-domains with one flip per case:
//
//	level 1 (quick):    payload matrix of n=8, every (column,row), for Delta
//	                    and its complement; check batch: every column x 8
//	                    boundary rows and every row x 4 boundary columns;
//	                    every bit of seed2, x, t0, t1
//	level 2 (thorough): additionally the payload matrix of n=65 (incl. its 7
//	                    padding rows) and the complete 128 x 256 check batch,
//	                    all for Delta and its complement, and the response
//	                    bits for n=65
func TestEnumerate(t *testing.T) {
	col := ev.Get(prop)
	level := col.N(1, 2)
	shard, nshards := ev.Shard()
	// The same Delta in every shard of a run: the driver hands shard k the
	// seed S*1000+k+1.
	seed := col.Seed
	if nshards > 1 {
		seed = (seed - 1 - int64(shard)) / 1000
	}
	base := gen.NewDRBG(uint64(seed), 99)
	d := []uint64{base.Uint64(), base.Uint64() | 1<<63}
	deltas := [][]uint64{d, {^d[0], ^d[1]}}
	idx := 0
	emit := func(yield func(Case) bool, n int, di int, f Flip) {
		idx++
		if idx%nshards != shard {
			return
		}
		ch := Choice{Class: "random", Seed: uint64(idx)}
		if idx%5 == 0 {
			ch = Choice{Class: "one"}
		}
		yield(Case{Base: "ideal", Seed: uint64(idx) * 7919, Delta: deltas[di], N: n,
			Ch: ch, Flips: []Flip{f}})
	}
	ev.Each(t, col, "fault", func(yield func(Case) bool) {
		ns := []int{8}
		if level >= 2 {
			ns = append(ns, 65)
		}
		for _, n := range ns {
			for di := range deltas {
				for c := 0; c < 128; c++ {
					for r := 0; r < paddedRows(n); r++ {
						emit(yield, n, di, Flip{Where: "payload", Col: c, Row: r})
					}
				}
			}
			for _, w := range responseNames {
				for b := 0; b < 128; b++ {
					emit(yield, n, b%2, Flip{Where: w, Col: b})
				}
			}
		}
		for di := range deltas {
			for c := 0; c < 128; c++ {
				for r := 0; r < 256; r++ {
					if level < 2 {
						br := r <= 1 || r == 7 || r == 8 || r == 127 || r == 128 || r >= 254
						bc := c == 0 || c == 63 || c == 64 || c == 127
						if !br && !bc {
							continue
						}
					}
					emit(yield, 8, di, Flip{Where: "check", Col: c, Row: r})
				}
			}
		}
	}, run)
	if level >= 2 {
		col.Note("fault enumeration: every (column,row) of the payload matrix for n=8 and n=65 (incl. padding rows), every (column,row) of the 256-row check batch, each for Delta and its complement; every bit of seed2/x/t0/t1 for n=8 and n=65")
	} else {
		col.Note("fault enumeration (quick): every (column,row) of the payload matrix for n=8 for Delta and its complement; check batch: every column x rows {0,1,7,8,127,128,254,255} and every row x columns {0,63,64,127}; every bit of seed2/x/t0/t1")
	}
}

func TestReplay(t *testing.T) { ev.Replay(t, ev.Get(prop)) }
