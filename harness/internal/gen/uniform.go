package gen

import "pgregory.net/rapid"

// Uniform draws an (almost) uniformly distributed value in [0, n).  rapid's
// integer and SampledFrom generators are deliberately biased towards small
// values and boundaries, which skews weighted choices badly (a nominal 40%
// branch was measured at 68%).  Categorical choices are therefore drawn bit by
// bit from rapid.Bool; the draw still shrinks towards 0.
func Uniform(t *rapid.T, n int, label string) int {
	if n <= 1 {
		return 0
	}
	bits := 0
	for (1 << bits) < n {
		bits++
	}
	// Two extra bits make the modulo bias negligible.
	v := 0
	for i := 0; i < bits+2; i++ {
		v <<= 1
		if rapid.Bool().Draw(t, label) {
			v |= 1
		}
	}
	return v % n
}

// UniformRange draws a value in [lo, hi].
func UniformRange(t *rapid.T, lo, hi int, label string) int {
	return lo + Uniform(t, hi-lo+1, label)
}
