package gen

import (
	"crypto/aes"
	"crypto/cipher"
	"encoding/binary"
	"io"
)

// DRBG is a deterministic io.Reader (AES-128-CTR keyed by a 64-bit seed and a
// stream id).  It stands in for crypto/rand wherever the code under test takes
// its randomness from an io.Reader, so a case is a pure function of its draws.
type DRBG struct {
	s cipher.Stream
}

// NewDRBG creates a deterministic random stream.
func NewDRBG(seed uint64, stream uint64) *DRBG {
	var key [16]byte
	binary.BigEndian.PutUint64(key[0:], seed)
	binary.BigEndian.PutUint64(key[8:], stream^0x9e3779b97f4a7c15)
	blk, err := aes.NewCipher(key[:])
	if err != nil {
		panic(err)
	}
	var iv [16]byte
	return &DRBG{s: cipher.NewCTR(blk, iv[:])}
}

func (d *DRBG) Read(p []byte) (int, error) {
	for i := range p {
		p[i] = 0
	}
	d.s.XORKeyStream(p, p)
	return len(p), nil
}

// Bytes returns n bytes of the stream.
func (d *DRBG) Bytes(n int) []byte {
	b := make([]byte, n)
	d.Read(b)
	return b
}

// Uint64 returns the next 64 bits.
func (d *DRBG) Uint64() uint64 {
	var b [8]byte
	d.Read(b[:])
	return binary.BigEndian.Uint64(b[:])
}

// Intn returns a value in [0, n).
func (d *DRBG) Intn(n int) int {
	if n <= 0 {
		return 0
	}
	return int(d.Uint64() % uint64(n))
}

var _ io.Reader = (*DRBG)(nil)

// LabelReader is the randomness source handed to Circuit.Garble in C01: every
// read of 16 bytes is one label; the top bit of its first byte (the
// point-and-permute bit) is forced to the next entry of Permute, so that every
// combination of permute bits is reachable by the generator.  Reads beyond the
// list are left as the DRBG produced them.
type LabelReader struct {
	D       *DRBG
	Permute []bool
	Reads   int
	// FailAt makes the n:th Read fail (n >= 1), 0 = never.
	FailAt int
}

func (l *LabelReader) Read(p []byte) (int, error) {
	l.Reads++
	if l.FailAt > 0 && l.Reads == l.FailAt {
		return 0, io.ErrUnexpectedEOF
	}
	l.D.Read(p)
	k := l.Reads - 1
	if len(p) == 16 && k < len(l.Permute) {
		if l.Permute[k] {
			p[0] |= 0x80
		} else {
			p[0] &= 0x7f
		}
	}
	return len(p), nil
}
