// Package gen holds the generators shared between property harnesses.  All
// generators are constructive (no rejection loops) so that rapid's shrinking of
// the draw sequence yields smaller cases.
package gen

import (
	"fmt"
	"math/big"
	"strings"

	"github.com/markkurossi/mpc/circuit"
	"github.com/markkurossi/mpc/types"
	"pgregory.net/rapid"

	"verifharness/internal/ref"
)

// Circ is a boolean circuit as plain data.  Wires [0, NumIn) are the input
// wires (argument by argument), every gate assigns one further wire, the last
// sum(Out) wire ids are the outputs.  Gate inputs are always defined by an
// earlier gate or an input.
type Circ struct {
	In    []int      `json:"in"`
	Out   []int      `json:"out"`
	Gates []ref.Gate `json:"gates"`
}

// NumIn returns the number of input wires.
func (c Circ) NumIn() int {
	n := 0
	for _, w := range c.In {
		n += w
	}
	return n
}

// NumOut returns the number of output wires.
func (c Circ) NumOut() int {
	n := 0
	for _, w := range c.Out {
		n += w
	}
	return n
}

// NumWires returns the number of wires.
func (c Circ) NumWires() int { return c.NumIn() + len(c.Gates) }

// Uint returns the types.Info of uintN.
func Uint(bits int) types.Info {
	return types.Info{Type: types.TUint, IsConcrete: true,
		Bits: types.Size(bits), MinBits: types.Size(bits)}
}

// Build converts the description into the library's circuit value; all
// arguments are typed uintN and named like the compiler would.
func (c Circ) Build() *circuit.Circuit {
	res := &circuit.Circuit{
		NumGates: len(c.Gates),
		NumWires: c.NumWires(),
	}
	for i, w := range c.In {
		res.Inputs = append(res.Inputs, circuit.IOArg{
			Name: fmt.Sprintf("i%d", i), Type: Uint(w)})
	}
	for i, w := range c.Out {
		res.Outputs = append(res.Outputs, circuit.IOArg{
			Name: fmt.Sprintf("o%d", i), Type: Uint(w)})
	}
	res.Gates = make([]circuit.Gate, len(c.Gates))
	for i, g := range c.Gates {
		cg := circuit.Gate{
			Input0: circuit.Wire(g[1]),
			Output: circuit.Wire(g[3]),
			Op:     circuit.Operation(g[0]),
		}
		if g[0] != ref.INV {
			cg.Input1 = circuit.Wire(g[2])
		}
		res.Gates[i] = cg
		res.Stats[circuit.Operation(g[0])]++
	}
	return res
}

// Eval is the reference evaluation: input bits (all arguments concatenated,
// LSB first per argument) to the value of every wire.
func (c Circ) Eval(in []bool) []bool {
	return ref.EvalGates(c.NumWires(), c.Gates, in)
}

// OutputBits extracts the output wires from a full wire vector.
func (c Circ) OutputBits(wires []bool) []bool {
	return wires[c.NumWires()-c.NumOut():]
}

// SplitBits packs a bit vector into one big.Int per width.
func SplitBits(bits []bool, widths []int) []*big.Int {
	var res []*big.Int
	ofs := 0
	for _, w := range widths {
		v := new(big.Int)
		for i := 0; i < w; i++ {
			if bits[ofs+i] {
				v.SetBit(v, i, 1)
			}
		}
		ofs += w
		res = append(res, v)
	}
	return res
}

// BitsOf renders bits as a 0/1 string, wire 0 first.
func BitsOf(bits []bool) string {
	var sb strings.Builder
	for _, b := range bits {
		if b {
			sb.WriteByte('1')
		} else {
			sb.WriteByte('0')
		}
	}
	return sb.String()
}

// ParseBits is the inverse of BitsOf.
func ParseBits(s string) []bool {
	res := make([]bool, len(s))
	for i := range s {
		res[i] = s[i] == '1'
	}
	return res
}

// NonFreeReachesOutput reports whether some AND/OR/INV gate lies in the cone
// of a declared output (the non-triviality rule of C01/C02).
func (c Circ) NonFreeReachesOutput() bool {
	nw := c.NumWires()
	live := make([]bool, nw)
	for i := nw - c.NumOut(); i < nw; i++ {
		live[i] = true
	}
	for i := len(c.Gates) - 1; i >= 0; i-- {
		g := c.Gates[i]
		if !live[g[3]] {
			continue
		}
		if g[0] == ref.AND || g[0] == ref.OR || g[0] == ref.INV {
			return true
		}
		live[g[1]] = true
		if g[0] != ref.INV {
			live[g[2]] = true
		}
	}
	return false
}

// OpCounts returns how many gates of each operation the circuit has.
func (c Circ) OpCounts() [5]int {
	var n [5]int
	for _, g := range c.Gates {
		n[g[0]]++
	}
	return n
}

// CircOpts bounds the circuit generator.
type CircOpts struct {
	MinArgs, MaxArgs int // number of input arguments
	MaxWidth         int // width of an input argument (1..MaxWidth)
	MinWidth1        int // lower bound for the width of the second argument (0 = 1)
	AllowZeroWidth   bool
	MaxGates         int
	MaxOuts          int // number of declared outputs
	MaxOutWidth      int
	// OutTable, when set, lists the output widths to draw from instead of
	// 1..MaxOutWidth.
	OutTable []int
	// ZeroWidthArgs allows width 0 for every argument (a party without
	// input), one time in ZeroWidthArgs per argument.
	ZeroWidthArgs int
}

var opProfiles = [][]int{
	{ref.XOR, ref.XNOR, ref.AND, ref.OR, ref.INV},            // uniform
	{ref.OR, ref.OR, ref.INV, ref.INV, ref.AND, ref.XOR},     // OR/INV heavy
	{ref.AND, ref.AND, ref.AND, ref.XOR},                     // AND heavy
	{ref.XOR, ref.XNOR, ref.XNOR, ref.INV},                   // free + INV
	{ref.AND, ref.OR, ref.INV, ref.XNOR, ref.XNOR, ref.XNOR}, // XNOR heavy
}

func gcd(a, b int) int {
	for b != 0 {
		a, b = b, a%b
	}
	return a
}

// DrawCirc draws a well-formed circuit.
func DrawCirc(t *rapid.T, o CircOpts) Circ {
	var c Circ
	nargs := rapid.IntRange(o.MinArgs, o.MaxArgs).Draw(t, "nargs")
	for i := 0; i < nargs; i++ {
		lo := 1
		if o.AllowZeroWidth && i >= 2 {
			lo = 0
		}
		if i == 1 && o.MinWidth1 > lo {
			lo = o.MinWidth1
		}
		w := rapid.IntRange(lo, o.MaxWidth).Draw(t, "inw")
		if o.ZeroWidthArgs > 0 && rapid.IntRange(1, o.ZeroWidthArgs).Draw(t, "zerowidth") == 1 {
			w = 0
		}
		c.In = append(c.In, w)
	}
	if c.NumIn() == 0 {
		c.In[0] = 1
	}
	nouts := rapid.IntRange(1, o.MaxOuts).Draw(t, "nouts")
	for i := 0; i < nouts; i++ {
		if len(o.OutTable) > 0 {
			c.Out = append(c.Out, o.OutTable[rapid.IntRange(0, len(o.OutTable)-1).Draw(t, "outw")])
		} else {
			c.Out = append(c.Out, rapid.IntRange(1, o.MaxOutWidth).Draw(t, "outw"))
		}
	}
	nin := c.NumIn()
	nout := c.NumOut()
	ngates := nout + rapid.IntRange(0, o.MaxGates-1).Draw(t, "ngates")

	prof := opProfiles[rapid.IntRange(0, len(opProfiles)-1).Draw(t, "profile")]

	// Output wire id of the i:th gate: nin + perm(i) with an affine
	// permutation so that gate order and wire numbering differ.
	a, b := 1, 0
	if rapid.IntRange(0, 3).Draw(t, "permute") == 0 && ngates > 2 {
		a = rapid.IntRange(1, ngates-1).Draw(t, "perm_a")
		for gcd(a, ngates) != 1 {
			a--
		}
		b = rapid.IntRange(0, ngates-1).Draw(t, "perm_b")
	}
	wireOf := func(i int) int { return nin + (a*i+b)%ngates }

	pick := func(i int, label string) int {
		// Operand: an already defined wire; biased towards recent gates
		// (depth) and inputs (fan-out).
		defined := nin + i
		switch rapid.IntRange(0, 3).Draw(t, label+"_mode") {
		case 0:
			if i > 0 {
				back := rapid.IntRange(1, min(i, 3)).Draw(t, label+"_back")
				return wireOf(i - back)
			}
			fallthrough
		case 1:
			if nin > 0 {
				return rapid.IntRange(0, nin-1).Draw(t, label+"_in")
			}
			fallthrough
		default:
			k := rapid.IntRange(0, defined-1).Draw(t, label)
			if k < nin {
				return k
			}
			return wireOf(k - nin)
		}
	}

	c.Gates = make([]ref.Gate, ngates)
	for i := 0; i < ngates; i++ {
		op := prof[rapid.IntRange(0, len(prof)-1).Draw(t, "op")]
		in0 := pick(i, "a")
		in1 := 0
		if op != ref.INV {
			if rapid.IntRange(0, 9).Draw(t, "same") == 0 {
				in1 = in0
			} else {
				in1 = pick(i, "b")
			}
		}
		c.Gates[i] = ref.Gate{op, in0, in1, wireOf(i)}
	}
	return c
}

// DrawFold draws a circuit in which every input wire reaches the outputs: a
// chain g_i = op(g_{i-1}, in_i) over all input wires (mostly XOR/XNOR so that
// no input is masked, with some AND/OR/INV links), for input signatures far
// wider than DrawCirc produces (hundreds to thousands of wires).  The last
// nout gate outputs are the circuit outputs.
func DrawFold(t *rapid.T, widths []int, nout int) Circ {
	var c Circ
	c.In = widths
	nin := c.NumIn()
	for i := 0; i < nout; i++ {
		c.Out = append(c.Out, 1)
	}
	ops := []int{ref.XOR, ref.XOR, ref.XOR, ref.XOR, ref.XOR, ref.XOR, ref.XNOR, ref.XNOR,
		ref.AND, ref.OR, ref.INV}
	if nin < 2 {
		c.Gates = append(c.Gates, ref.Gate{ref.INV, 0, 0, nin})
		for len(c.Gates) < nout {
			c.Gates = append(c.Gates, ref.Gate{ref.INV, nin + len(c.Gates) - 1, 0, nin + len(c.Gates)})
		}
		return c
	}
	prev := 0
	next := 1
	// Runs of one operator keep the number of draws small.
	for next < nin || len(c.Gates) < nout {
		op := ops[rapid.IntRange(0, len(ops)-1).Draw(t, "foldop")]
		run := rapid.IntRange(1, 64).Draw(t, "foldrun")
		if op == ref.AND || op == ref.OR || op == ref.INV {
			run = 1
		}
		for k := 0; k < run && (next < nin || len(c.Gates) < nout); k++ {
			out := nin + len(c.Gates)
			if op == ref.INV {
				c.Gates = append(c.Gates, ref.Gate{op, prev, 0, out})
			} else {
				in := next % nin
				next++
				c.Gates = append(c.Gates, ref.Gate{op, prev, in, out})
			}
			prev = out
		}
	}
	return c
}

// DrawBits draws n bits with a bias to all-zero / all-one vectors.
func DrawBits(t *rapid.T, n int, label string) []bool {
	res := make([]bool, n)
	switch rapid.IntRange(0, 7).Draw(t, label+"_mode") {
	case 0:
	case 1:
		for i := range res {
			res[i] = true
		}
	default:
		for i := range res {
			res[i] = rapid.Bool().Draw(t, label)
		}
	}
	return res
}

// FromCircuit converts a library circuit (e.g. compiler output) into the plain
// description so that the reference evaluator can run it.  Only the gate list,
// the argument widths and the output widths are read.
func FromCircuit(c *circuit.Circuit) Circ {
	var res Circ
	for _, in := range c.Inputs {
		res.In = append(res.In, int(in.Type.Bits))
	}
	for _, out := range c.Outputs {
		res.Out = append(res.Out, int(out.Type.Bits))
	}
	res.Gates = make([]ref.Gate, len(c.Gates))
	for i, g := range c.Gates {
		res.Gates[i] = ref.Gate{int(g.Op), int(g.Input0), int(g.Input1), int(g.Output)}
	}
	return res
}

// Padded returns a copy of the circuit with n extra gates in front of the
// original ones (a chain of AND/XOR/INV gates over the first input wire whose
// results are not used).  The function of the circuit is unchanged; the gate
// count - and with it the size of everything that is derived from the gate
// list - grows by n.
func (c Circ) Padded(n int) Circ {
	if n <= 0 {
		return c
	}
	nin := c.NumIn()
	res := Circ{In: append([]int{}, c.In...), Out: append([]int{}, c.Out...)}
	res.Gates = make([]ref.Gate, 0, n+len(c.Gates))
	prev := 0
	for i := 0; i < n; i++ {
		out := nin + i
		switch i % 3 {
		case 0:
			res.Gates = append(res.Gates, ref.Gate{ref.AND, prev, 0, out})
		case 1:
			res.Gates = append(res.Gates, ref.Gate{ref.XOR, prev, 0, out})
		default:
			res.Gates = append(res.Gates, ref.Gate{ref.INV, prev, 0, out})
		}
		prev = out
	}
	shift := func(w int) int {
		if w < nin {
			return w
		}
		return w + n
	}
	for _, g := range c.Gates {
		res.Gates = append(res.Gates, ref.Gate{g[0], shift(g[1]), shift(g[2]), shift(g[3])})
	}
	return res
}
