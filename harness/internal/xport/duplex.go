// Package xport holds the harness transports: an in-memory full-duplex byte
// pipe with drawn read fragmentation, transcript recording, byte corruption and
// stall (quiescence) detection.  The ends implement io.ReadWriter + io.Closer
// and are put under p2p.NewConn.
package xport

import (
	"errors"
	"io"
	"sync"
	"time"

	"github.com/markkurossi/mpc/p2p"
)

// ErrClosed is returned by Read/Write after the pipe was closed.
var ErrClosed = errors.New("xport: closed")

// Flip is one corruption: XOR Mask into the byte at absolute offset Off of a
// direction's stream.
type Flip struct {
	Off  int  `json:"off"`
	Mask byte `json:"mask"`
}

type half struct {
	buf     []byte // undelivered bytes
	written int    // total bytes written so far
	read    int    // total bytes delivered so far
	frags   []int  // read fragment sizes, cycled; 0 = everything available
	fragPos int
	record  bool
	log     []byte
	flips   []Flip
	hit     int // number of flips that hit a transmitted byte
	waiting bool
	eof     bool // writer side closed gracefully
}

// Duplex is the pipe; A and B are its two ends.
type Duplex struct {
	mu        sync.Mutex
	cond      *sync.Cond
	closed    bool
	dir       [2]half // dir[0]: A -> B, dir[1]: B -> A
	lastWrite time.Time
	A, B      *End
	conns     []*p2p.Conn // created by Conns, released by RunPair
}

// Conns puts a p2p.Conn on each end.  RunPair stops their writer goroutines
// when the session is over (see Release).
func (d *Duplex) Conns() (a, b *p2p.Conn) {
	a, b = p2p.NewConn(d.A), p2p.NewConn(d.B)
	d.conns = append(d.conns, a, b)
	return a, b
}

// End is one end of a Duplex.
type End struct {
	d    *Duplex
	out  int // index of the direction this end writes to
	in   int
	name string
}

// NewDuplex creates a pipe.  fragsAB are the read fragment sizes applied when B
// reads what A wrote, fragsBA likewise for the other direction.
func NewDuplex(fragsAB, fragsBA []int) *Duplex {
	d := &Duplex{}
	d.cond = sync.NewCond(&d.mu)
	d.dir[0].frags = fragsAB
	d.dir[1].frags = fragsBA
	d.A = &End{d: d, out: 0, in: 1, name: "A"}
	d.B = &End{d: d, out: 1, in: 0, name: "B"}
	d.lastWrite = time.Now()
	return d
}

// Record turns on transcript recording for both directions.
func (d *Duplex) Record() { d.dir[0].record = true; d.dir[1].record = true }

// Corrupt registers corruptions for direction dir (0: A->B, 1: B->A).
func (d *Duplex) Corrupt(dir int, flips []Flip) {
	d.dir[dir].flips = append(d.dir[dir].flips, flips...)
}

// Transcript returns the bytes written so far in direction dir (after
// corruption, i.e. what the reader sees).
func (d *Duplex) Transcript(dir int) []byte {
	d.mu.Lock()
	defer d.mu.Unlock()
	return append([]byte{}, d.dir[dir].log...)
}

// Written returns the number of bytes written in direction dir.
func (d *Duplex) Written(dir int) int {
	d.mu.Lock()
	defer d.mu.Unlock()
	return d.dir[dir].written
}

// Delivered returns the number of bytes read in direction dir.
func (d *Duplex) Delivered(dir int) int {
	d.mu.Lock()
	defer d.mu.Unlock()
	return d.dir[dir].read
}

// Hits returns how many registered corruptions of direction dir hit a byte
// that was actually transmitted.
func (d *Duplex) Hits(dir int) int {
	d.mu.Lock()
	defer d.mu.Unlock()
	return d.dir[dir].hit
}

// Close closes both directions; blocked readers return ErrClosed.
func (d *Duplex) Close() {
	d.mu.Lock()
	d.closed = true
	d.cond.Broadcast()
	d.mu.Unlock()
}

// Stalled reports whether both ends are blocked in Read with nothing in
// flight and no write happened for the grace period.
func (d *Duplex) Stalled(grace time.Duration) bool {
	d.mu.Lock()
	defer d.mu.Unlock()
	if d.closed {
		return false
	}
	return d.dir[0].waiting && d.dir[1].waiting &&
		len(d.dir[0].buf) == 0 && len(d.dir[1].buf) == 0 &&
		time.Since(d.lastWrite) > grace
}

// OneSidedStall reports whether the reader of direction dir is blocked with
// nothing in flight for the grace period (used when the other party already
// returned).
func (d *Duplex) OneSidedStall(dir int, grace time.Duration) bool {
	d.mu.Lock()
	defer d.mu.Unlock()
	if d.closed {
		return false
	}
	return d.dir[dir].waiting && len(d.dir[dir].buf) == 0 &&
		time.Since(d.lastWrite) > grace
}

func (e *End) Write(p []byte) (int, error) {
	d := e.d
	d.mu.Lock()
	defer d.mu.Unlock()
	if d.closed {
		return 0, ErrClosed
	}
	h := &d.dir[e.out]
	if h.eof {
		return 0, ErrClosed
	}
	start := h.written
	data := append([]byte{}, p...)
	for _, f := range h.flips {
		if f.Off >= start && f.Off < start+len(data) && f.Mask != 0 {
			data[f.Off-start] ^= f.Mask
			h.hit++
		}
	}
	h.buf = append(h.buf, data...)
	h.written += len(data)
	if h.record {
		h.log = append(h.log, data...)
	}
	d.lastWrite = time.Now()
	d.cond.Broadcast()
	return len(p), nil
}

func (e *End) Read(p []byte) (int, error) {
	d := e.d
	d.mu.Lock()
	defer d.mu.Unlock()
	h := &d.dir[e.in]
	for len(h.buf) == 0 {
		if d.closed {
			return 0, ErrClosed
		}
		if h.eof {
			return 0, io.EOF
		}
		h.waiting = true
		d.cond.Wait()
		h.waiting = false
	}
	n := len(h.buf)
	if n > len(p) {
		n = len(p)
	}
	if len(h.frags) > 0 {
		f := h.frags[h.fragPos%len(h.frags)]
		h.fragPos++
		if f > 0 && f < n {
			n = f
		}
	}
	copy(p, h.buf[:n])
	h.buf = h.buf[n:]
	h.read += n
	return n, nil
}

// Close closes this end's outgoing direction gracefully: the peer reads what
// is buffered and then gets io.EOF.  (p2p.Conn.Close calls it.)
func (e *End) Close() error {
	d := e.d
	d.mu.Lock()
	d.dir[e.out].eof = true
	d.cond.Broadcast()
	d.mu.Unlock()
	return nil
}
